#!/usr/bin/env python3
"""Regenerates the seeded-change table in DESIGN.md (between the markers) from seeded/*/meta.json."""
import json, os, glob, re
V = os.path.dirname(os.path.dirname(os.path.abspath(__file__)))
rows = ["| seed | property | what the change does | caught by |", "|---|---|---|---|"]
for d in sorted(glob.glob(os.path.join(V, "seeded", "*"))):
    try:
        m = json.load(open(os.path.join(d, "meta.json")))
    except Exception:
        continue
    v = m.get("verified_by_me", {})
    runs = v.get("checks_run", [])
    summ = re.sub(r"\s+", " ", m.get("summary", ""))[:230]
    rows.append("| %s | %s | %s | %s |" % (os.path.basename(d), m.get("property"), summ.replace("|", "/"),
                                          re.sub(r"\s+", " ", (runs[-1] if runs else "not run yet"))[:300].replace("|", "/")))
tbl = "\n".join(rows)
p = os.path.join(V, "DESIGN.md")
s = open(p).read()
if "SEED_TABLE_PLACEHOLDER" in s:
    s = s.replace("SEED_TABLE_PLACEHOLDER", "<!-- seed table begin -->\n" + tbl + "\n<!-- seed table end -->")
else:
    s = re.sub(r"<!-- seed table begin -->.*?<!-- seed table end -->", "<!-- seed table begin -->\n" + tbl + "\n<!-- seed table end -->", s, flags=re.S)
open(p, "w").write(s)
print(len(rows) - 2, "seeds")
