"""C15: case generators, transcript parser, executable specification and
shrinker for the cpukinds checks (python3 stdlib only).

Script format: see harness/hwv_cpukinds.c.  A *case* is a list of lines whose
first line is "case <name> <nbpus>"."""
import itertools


# ---------------------------------------------------------------- sets
class BS:
    """finite or cofinite set of naturals: member(i) = bit(fin,i) xor inf"""
    __slots__ = ("fin", "inf")

    def __init__(self, fin=0, inf=False):
        self.fin, self.inf = fin, inf

    @staticmethod
    def parse(t):
        if t == "NULL":
            return None
        return BS(int(t[2:], 16), t[0] == "i")

    def show(self):
        return ("i:" if self.inf else "f:") + "%x" % self.fin

    def __eq__(self, o):
        return isinstance(o, BS) and self.fin == o.fin and self.inf == o.inf

    def __hash__(self):
        return hash((self.fin, self.inf))

    def empty(self):
        return not self.inf and self.fin == 0

    def compl(self):
        return BS(self.fin, not self.inf)

    def inter(self, o):
        if not self.inf and not o.inf:
            return BS(self.fin & o.fin, False)
        if not self.inf and o.inf:
            return BS(self.fin & ~o.fin, False)
        if self.inf and not o.inf:
            return BS(o.fin & ~self.fin, False)
        return BS(self.fin | o.fin, True)

    def union(self, o):
        return self.compl().inter(o.compl()).compl()

    def diff(self, o):
        return self.inter(o.compl())

    def subset(self, o):
        return self.diff(o).empty()

    def intersects(self, o):
        return not self.inter(o).empty()


EMPTY = BS(0, False)


def hexs(s):
    return s.encode().hex() if s else "-"


def unhexs(h):
    return "" if h == "-" else bytes.fromhex(h).decode("latin-1")


def reg_line(s, forced, flags, infos):
    """s: BS or None; infos: None or list of (name, value) strings"""
    t = "NULL" if s is None else s.show()
    if infos is None:
        return "reg %s %d %d NULL" % (t, forced, flags)
    return ("reg %s %d %d %d " % (t, forced, flags, len(infos)) +
            " ".join("%s %s" % (hexs(n), hexs(v)) for n, v in infos)).rstrip()


# ---------------------------------------------------------------- generators
def exhaustive_cases(maxregs, nbpus=4, minregs=1, probes=None):
    """every sequence of 1..maxregs registrations over the non-empty subsets
    of nbpus PUs; forced efficiencies and infos are a function of position and
    mask so that merges/splits of infos and all ranking outcomes occur."""
    subsets = list(range(1, 1 << nbpus))
    n = 0
    for k in range(minregs, maxregs + 1):
        for seq in itertools.product(subsets, repeat=k):
            lines = ["case x%d_%s %d" % (k, "_".join("%x" % m for m in seq), nbpus)]
            for j, m in enumerate(seq):
                forced = (m * 7 + j * 3) % 6 - 1          # -1..4
                infos = [("r%d" % j, "%x" % m)]
                if m & 1:
                    infos.append(("odd", "1"))
                lines.append(reg_line(BS(m), forced, 0, infos if (m + j) % 5 else None))
            for q in (subsets if probes is None else [seq[0], seq[-1], seq[0] | seq[-1], (seq[0] ^ 0xf) or 1][:probes]):
                lines.append("getby f:%x 0" % q)
            yield lines
            n += 1


def restrict_cases(nbpus=4):
    """reg a, reg b, restrict t, (dup), reg c: every (a,b,t) with 2 registrations
    and every restriction, followed by a fixed probe registration after a dup"""
    subsets = list(range(1, 1 << nbpus))
    for a, b, t in itertools.product(subsets, repeat=3):
        lines = ["case r_%x_%x_%x %d" % (a, b, t, nbpus)]
        lines.append(reg_line(BS(a), a % 3, 0, [("a", "%x" % a)]))
        lines.append(reg_line(BS(b), (b * 5) % 4, 0, [("b", "%x" % b)]))
        lines.append("restrict f:%x" % t)
        for q in subsets:
            lines.append("getby f:%x 0" % q)
        lines.append("dup")
        lines.append(reg_line(BS((a ^ b ^ t) or 1), 2, 0, [("c", "1")]))
        yield lines


INFO_NAMES = ["FrequencyMaxMHz", "FrequencyBaseMHz", "CoreType", "LinuxCapacity", "x", "Name With Space"]
INFO_VALUES = ["IntelAtom", "IntelCore", "1000", "2400", "3200", "0", "-5", " 12", "12abc", "",
               "99999999999999999999", "4294967296", "1048576", "1048577", "abc", "+7", "2147483648"]
ENVS = [None, "default", "none", "coretype+frequency", "coretype+frequency_strict", "coretype",
        "frequency", "frequency_max", "frequency_base", "forced_efficiency", "no_forced_efficiency", "bogus", ""]
FORCED = [-1, -1, 0, 1, 2, 3, 5, 5, -7, 2147483647, 100]


def rand_set(rng, nbpus, pieces):
    """mostly built from earlier sets so that EQUAL / INCLUDED / CONTAINS /
    INTERSECTS / DIFFERENT all happen; sometimes multiword or infinite"""
    r = rng.random()
    if pieces and r < 0.45:
        s = EMPTY
        for p in rng.sample(pieces, rng.randint(1, min(3, len(pieces)))):
            s = s.union(p)
        if rng.random() < 0.4:
            s = s.diff(BS(1 << rng.randrange(nbpus)))
        if rng.random() < 0.4:
            s = s.union(BS(1 << rng.randrange(nbpus)))
        if not s.empty():
            return s
    if r < 0.90:
        m = rng.getrandbits(nbpus)
        if rng.random() < 0.5:
            m &= rng.getrandbits(nbpus)
        return BS(m or 1)
    if r < 0.95:
        return BS(rng.getrandbits(rng.choice([64, 65, 130, 200])) | 1 << rng.choice([63, 64, 127, 128]))
    return BS(rng.getrandbits(rng.choice([8, 70])), True)


def rand_infos(rng):
    r = rng.random()
    if r < 0.12:
        return None
    n = rng.choice([0, 1, 1, 2, 2, 3, 5, 9])
    out = []
    for _ in range(n):
        name = rng.choice(INFO_NAMES)
        if name.startswith("Freq"):
            v = rng.choice(INFO_VALUES[2:]) if rng.random() < 0.7 else str(rng.randrange(1, 5000))
        elif name == "CoreType":
            v = rng.choice(["IntelAtom", "IntelCore", "IntelCore", "Other"])
        else:
            v = rng.choice(INFO_VALUES)
        out.append((name, v))
    if out and rng.random() < 0.2:
        out.append(out[0])        # exact duplicate inside one registration
    return out


def random_case(rng, name, nbpus=16, maxops=12, p_clean_after_restrict=0.75):
    lines = ["case %s %d" % (name, nbpus)]
    pieces = []
    nops = rng.randint(3, maxops)
    dirty = False
    # ranking-friendly cases: distinct known forced efficiencies for every registration
    friendly = rng.random() < 0.3
    fcount = 0
    for _ in range(nops):
        r = rng.random()
        if r < 0.55:
            s = rand_set(rng, nbpus, pieces)
            pieces.append(s)
            if friendly:
                forced = fcount * 3 + 1
                fcount += 1
            else:
                forced = rng.choice(FORCED)
            lines.append(reg_line(s, forced, 0, rand_infos(rng)))
        elif r < 0.67:
            lines.append("restrict " + BS(rng.getrandbits(nbpus) | rng.getrandbits(nbpus)).show())
            dirty = True
            if rng.random() < p_clean_after_restrict:
                lines.append(rng.choice(["dup", "xml"]))
                dirty = False
        elif r < 0.82:
            q = rand_set(rng, nbpus, pieces)
            lines.append("getby %s 0" % q.show())
        elif r < 0.88:
            e = rng.choice(ENVS)
            lines.append("env " + ("-" if e is None else hexs(e) if e else "-"))
            lines.append("rank")
        elif r < 0.92:
            lines.append("dup")
        elif r < 0.96:
            lines.append("xml")
        else:
            lines.append(rng.choice(["getnr 0", "getinfo %d 0" % rng.randrange(6), "rank"]))
    for p in pieces[:4]:
        lines.append("getby %s 0" % p.show())
    return lines


def info_rank_case(rng, name, nbpus=8):
    """no forced efficiencies; every registration carries core type and/or
    frequencies so that the info-based strategies (all HWLOC_CPUKINDS_RANKING
    values) succeed, fail on duplicates, or lack one attribute"""
    lines = ["case %s %d" % (name, nbpus)]
    bits = list(range(nbpus))
    rng.shuffle(bits)
    k = rng.randint(2, 4)
    cuts = sorted(rng.sample(range(1, nbpus), k - 1))
    parts = [bits[a:b] for a, b in zip([0] + cuts, cuts + [nbpus])]
    style = rng.choice(["all", "all", "noct", "nobase", "nomax", "dupfreq", "partial"])
    freqs = rng.sample(range(800, 4000, 100), 2 * k)
    for j, part in enumerate(parts):
        m = sum(1 << b for b in part)
        infos = []
        if style != "noct" and not (style == "partial" and j == 0):
            infos.append(("CoreType", rng.choice(["IntelAtom", "IntelCore"])))
        if style != "nomax":
            infos.append(("FrequencyMaxMHz", str(freqs[0] if style == "dupfreq" else freqs[j])))
        if style != "nobase":
            infos.append(("FrequencyBaseMHz", str(freqs[k] if style == "dupfreq" else freqs[k + j])))
        rng.shuffle(infos)
        lines.append(reg_line(BS(m), -1, 0, infos))
    envs = [e for e in ENVS if e]
    rng.shuffle(envs)
    for e in envs[:rng.randint(3, len(envs))]:
        lines.append("env " + hexs(e))
        lines.append("rank")
    if rng.random() < 0.5:
        lines.append("xml")
    if rng.random() < 0.5:
        lines.append("restrict " + BS(rng.getrandbits(nbpus) | 1 << bits[0]).show())
    return lines


def internal_case(rng, name, nbpus=8):
    """discovery the way the OS backends do it: hwloc_internal_cpukinds_register
    with flags 0 (a merge keeps a known forced efficiency) or OVERWRITE, invalid
    flags / empty cpuset in between, one ranking at the end, then public calls"""
    lines = ["case %s %d" % (name, nbpus)]
    pieces = []
    for _ in range(rng.randint(2, 7)):
        r = rng.random()
        if r < 0.08:
            lines.append(reg_line(EMPTY, rng.choice(FORCED), rng.choice([0, 1]), rand_infos(rng)).replace("reg", "ireg", 1))
        elif r < 0.18:
            lines.append(reg_line(BS(rng.getrandbits(nbpus) | 1), rng.choice(FORCED), rng.choice([2, 3, 4, 6, 1 << 33]), rand_infos(rng)).replace("reg", "ireg", 1))
        else:
            s = rand_set(rng, nbpus, pieces)
            pieces.append(s)
            lines.append(reg_line(s, rng.choice(FORCED + [-1, 0, 1]), rng.choice([0, 0, 0, 1]), rand_infos(rng)).replace("reg", "ireg", 1))
    if rng.random() < 0.3:
        e = rng.choice(ENVS)
        lines.append("env " + (hexs(e) if e else "-"))
    lines.append("rank")
    for p in pieces[:3]:
        lines.append("getby %s 0" % p.show())
    for _ in range(rng.randint(0, 3)):
        r = rng.random()
        if r < 0.4:
            lines.append(reg_line(rand_set(rng, nbpus, pieces), rng.choice(FORCED), 0, rand_infos(rng)))
        elif r < 0.6:
            lines.append("restrict " + BS(rng.getrandbits(nbpus) | rng.getrandbits(nbpus)).show())
        else:
            lines.append(rng.choice(["dup", "xml", "rank"]))
    return lines


def adopt_case(rng, name, nbpus=8):
    """a topology adopted from shared memory is read-only: register / restrict /
    refresh give EPERM and change nothing, consulting works, dup / XML reload
    give a writable copy with the same kinds"""
    lines = ["case %s %d" % (name, nbpus)]
    pieces = []
    for j in range(rng.randint(1, 4)):
        s = rand_set(rng, nbpus, pieces)
        pieces.append(s)
        lines.append(reg_line(s, rng.choice(FORCED) if rng.random() < 0.5 else 3 * j + 1, 0, rand_infos(rng)))
    if rng.random() < 0.3:
        lines.append("restrict " + BS(rng.getrandbits(nbpus) | rng.getrandbits(nbpus)).show())
    lines.append("adopt")
    ro = [reg_line(rand_set(rng, nbpus, pieces), rng.choice(FORCED), 0, rand_infos(rng)),
          reg_line(None, 0, 0, None), reg_line(BS(1), 0, 5, None),
          "restrict " + BS(rng.getrandbits(nbpus) | 1).show(), "rank",
          "getby %s 0" % rand_set(rng, nbpus, pieces).show(), "getnr 0", "getinfo %d 0" % rng.randrange(4)]
    rng.shuffle(ro)
    lines += ro[:rng.randint(3, len(ro))]
    if rng.random() < 0.8:
        lines.append(rng.choice(["dup", "xml"]))
        lines.append(reg_line(rand_set(rng, nbpus, pieces), rng.choice(FORCED), 0, rand_infos(rng)))
        if rng.random() < 0.5:
            lines.append("restrict " + BS(rng.getrandbits(nbpus) | rng.getrandbits(nbpus)).show())
    return lines


def snapshot_case(rng, name, directory, homogeneous, ranking, nbits=24, maxfreq="-"):
    """kinds registered by the Linux backend from a sysfs snapshot, then public operations on them"""
    lines = ["caseroot %s %s %s %s %s" % (name, directory, homogeneous, hexs(ranking) if ranking else "-", maxfreq)]
    pieces = []
    for _ in range(rng.randint(2, 7)):
        r = rng.random()
        if r < 0.35:
            lines.append("getby %s 0" % rand_set(rng, nbits, pieces).show())
        elif r < 0.65:
            s = rand_set(rng, nbits, pieces)
            pieces.append(s)
            lines.append(reg_line(s, rng.choice(FORCED), 0, rand_infos(rng)))
        elif r < 0.8:
            lines.append("restrict " + BS(rng.getrandbits(nbits) | rng.getrandbits(nbits) | 1).show())
        else:
            o = rng.choice(["dup", "xml", "rank", "adopt", "getnr 0"])
            if o == "adopt" and "adopt" in lines:
                o = "rank"
            lines.append(o)
    return lines


def model_script(case, impl_lines):
    """the script the model driver runs for a case: a caseroot line is replaced by
    the state the implementation reported after loading (None if it did not load)"""
    if not case[0].startswith("caseroot"):
        return case
    steps = parse_steps(case[:1], impl_lines or [])
    d = steps[0][2] if steps else None
    if d is None or d.priv is None:
        return None
    return [casestate_line(case[0], d)] + case[1:]


def casestate_line(script0, dump):
    """model-side replacement of a caseroot line: the state the implementation reported after loading"""
    f = script0.split()
    priv = {}
    alloc = 0
    for tok in dump.priv.split()[1:]:
        if tok.startswith("alloc="):
            alloc = int(tok[6:])
        else:
            i, fo, ra, ar = tok.split(":")
            priv[int(i)] = (fo[7:], ra[5:], ar[4:])
    out = ["casestate", f[1], dump.topo.show(), f[4], str(len(dump.nodes))]
    for i, s in dump.nodes:
        out += [str(i), s.show()]
    out += [str(alloc), str(len(dump.kinds))]
    for i, k in enumerate(dump.kinds):
        fo, ra, ar = priv[i]
        out += [k[0].show(), str(k[1]), fo, ra, ar, str(len(k[2]))]
        for n, v in k[2]:
            out += [hexs(n), hexs(v)]
    return " ".join(out)


RESTRICT_CPULESS, RESTRICT_MISC, RESTRICT_IO, RESTRICT_BYNODESET, RESTRICT_MEMLESS = 1, 2, 4, 8, 16


def numa_layout(root_numa, levels, pus):
    """synthetic description and NUMA layout of a tree: `root_numa` nodes attached to the
    machine, levels = [(name, arity, attached numa nodes)], `pus` PUs per lowest object.
    Returns (description with '_' for ' ', nbpus, [(os index, BS)]): nodes in the order
    hwloc numbers them (below an object first, then the nodes attached to it)."""
    desc = ["[numa]"] * root_numa
    for nm, ar, k in levels:
        desc.append("%s:%d" % (nm, ar))
        desc += ["[numa]"] * k
    desc.append("pu:%d" % pus)
    nodes = []

    def walk(i, first):
        if i == len(levels):
            return pus
        nm, ar, k = levels[i]
        tot = 0
        for _ in range(ar):
            n = walk(i + 1, first + tot)
            mask = ((1 << n) - 1) << (first + tot)
            for _ in range(k):
                nodes.append(mask)
            tot += n
        return tot
    n = walk(0, 0)
    for _ in range(root_numa):
        nodes.append((1 << n) - 1)
    return "_".join(desc), n, [(i, BS(m)) for i, m in enumerate(nodes)]


def rand_numa_topology(rng):
    r = rng.random()
    if r < 0.25:
        a, c, p = rng.choice([(2, 2, 1), (2, 2, 2), (3, 2, 1), (4, 1, 2), (2, 3, 2)])
        d = "node:%d_core:%d_pu:%d" % (a, c, p)
        per = c * p
        return d, a * per, [(i, BS(((1 << per) - 1) << (i * per))) for i in range(a)]
    names = ["group", "pack", "core"]
    depth = rng.randint(1, 3)
    start = rng.randint(0, 3 - depth)
    while True:
        levels = [(names[start + i], rng.choice([2, 2, 3]), rng.choice([0, 1, 1, 2])) for i in range(depth)]
        root = rng.choice([0, 0, 1])
        pus = rng.choice([1, 2, 3])
        n = pus
        for _, ar, _ in levels:
            n *= ar
        if n <= 24 and root + sum(k for _, _, k in levels) > 0 and any(k for _, _, k in levels):
            return numa_layout(root, levels, pus)


def numa_case(rng, name):
    """registrations on a topology with several NUMA nodes (at one or several levels), then
    hwloc_topology_restrict with every flag combination: by cpuset (REMOVE_CPULESS, ADAPT_*),
    by nodeset (alone: no PU goes; with REMOVE_MEMLESS: PUs whose local nodes are all dropped
    go, and the kinds have to follow), invalid combinations"""
    desc, nbpus, nodes = rand_numa_topology(rng)
    lines = ["case %s %s %s %d %s" % (name, desc, BS((1 << nbpus) - 1).show(), len(nodes),
                                      " ".join("%d %s" % (i, s.show()) for i, s in nodes))]
    pieces = [s for _, s in nodes]
    friendly = rng.random() < 0.5
    for j in range(rng.randint(2, 5)):
        s = rand_set(rng, nbpus, pieces)
        pieces.append(s)
        lines.append(reg_line(s, 3 * j + 1 if friendly else rng.choice(FORCED), 0, rand_infos(rng)))
    for _ in range(rng.randint(1, 3)):
        r = rng.random()
        if r < 0.45:
            ns = rng.getrandbits(len(nodes)) | (rng.getrandbits(len(nodes)) if rng.random() < 0.5 else 0)
            if rng.random() < 0.1:
                ns |= 1 << (len(nodes) + 3)
            fl = RESTRICT_BYNODESET | rng.choice([RESTRICT_MEMLESS, RESTRICT_MEMLESS, RESTRICT_MEMLESS, 0]) | rng.choice([0, 0, RESTRICT_MISC, RESTRICT_IO, RESTRICT_MISC | RESTRICT_IO])
            lines.append("restrict %s %d" % (BS(ns).show(), fl))
        elif r < 0.85:
            fl = rng.choice([0, RESTRICT_CPULESS, RESTRICT_CPULESS, RESTRICT_MISC, RESTRICT_IO, RESTRICT_CPULESS | RESTRICT_MISC | RESTRICT_IO])
            lines.append("restrict %s %d" % (BS(rng.getrandbits(nbpus) | (rng.getrandbits(nbpus) if rng.random() < 0.6 else 0)).show(), fl))
        else:
            fl = rng.choice([RESTRICT_BYNODESET | RESTRICT_CPULESS, RESTRICT_MEMLESS, RESTRICT_MEMLESS | RESTRICT_CPULESS, 32, 8 | 16 | 64, 1 << 20])
            lines.append("restrict %s %d" % (BS(rng.getrandbits(4) | 1).show(), fl))
        for q in rng.sample(pieces, min(3, len(pieces))):
            lines.append("getby %s 0" % q.show())
        if rng.random() < 0.4:
            lines.append(reg_line(rand_set(rng, nbpus, pieces), rng.choice(FORCED), 0, rand_infos(rng)))
        if rng.random() < 0.15:
            lines.append(rng.choice(["dup", "xml"]))
    return lines


def reregister_case(rng, name, nbpus=8):
    """a kind with a known forced efficiency is registered again: same cpuset or a superset,
    with another known value, the value of another kind (duplicate => all unknown), or -1"""
    lines = ["case %s %d" % (name, nbpus)]
    bits = list(range(nbpus))
    rng.shuffle(bits)
    k = rng.randint(2, 3)
    cuts = sorted(rng.sample(range(1, nbpus), k - 1))
    parts = [sum(1 << b for b in bits[a:b]) for a, b in zip([0] + cuts, cuts + [nbpus])]
    vals = rng.sample(range(0, 9), k)
    for m, v in zip(parts, vals):
        lines.append(reg_line(BS(m), v, 0, [("n", "%x" % m)] if rng.random() < 0.5 else None))
    for _ in range(rng.randint(1, 3)):
        j = rng.randrange(k)
        m = parts[j]
        if rng.random() < 0.5:
            m |= parts[rng.randrange(k)]          # superset: covers a second kind too
        if rng.random() < 0.2:
            m |= 1 << (nbpus + rng.randrange(3))   # and PUs no kind has yet
        v = rng.choice([-1, vals[(j + 1) % k], rng.randrange(10, 20), vals[j]])
        lines.append(reg_line(BS(m), v, 0, None))
        lines.append("getby %s 0" % BS(parts[j]).show())
    if rng.random() < 0.3:
        lines.append("env " + hexs("forced_efficiency"))
        lines.append("rank")
    if rng.random() < 0.3:
        lines.append(rng.choice(["dup", "xml"]))
    return lines


def nocpukinds_case(rng, name):
    """topology loaded with HWLOC_TOPOLOGY_FLAG_NO_CPUKINDS (kinds from the OS / XML ignored): the kinds the
    application registers obey the same clauses through restrict (any flags), refresh, dup, adopt; an XML reload drops them"""
    if rng.random() < 0.5:
        c = numa_case(rng, name)
    else:
        c = random_case(rng, name, nbpus=rng.choice([4, 8, 16]), maxops=10, p_clean_after_restrict=0.3)
    c[0] = "flag" + c[0]
    return c


WORD_RELATIONS = {           # (word of a, word of b) before shifting
    "eq": (0x5, 0x5), "sub": (0x1, 0x5), "sup": (0x5, 0x1), "dis": (0x2, 0x4),
    "ovl": (0x3, 0x6), "ea": (0x0, 0x4), "eb": (0x2, 0x0), "ee": (0x0, 0x0),
}


def wordwise_cases(nwords, rng, infinite=(False,), sample=None):
    """two registrations whose cpusets are built 64-bit word by word: in every word the two sets are equal /
    included / containing / disjoint / overlapping / one or both empty, in every order, so that every branch of
    the word loop of hwloc_bitmap_compare_inclusion is taken with every result-so-far (and the infinite tails);
    then get_by_cpuset on both sets, their union and their intersection"""
    rels = sorted(WORD_RELATIONS)
    combos = list(itertools.product(rels, repeat=nwords))
    if sample is not None and sample < len(combos):
        combos = rng.sample(combos, sample)
    for combo in combos:
        for ia in infinite:
            for ib in infinite:
                a = b = 0
                for w, r in enumerate(combo):
                    wa, wb = WORD_RELATIONS[r]
                    sh = rng.choice([0, 1, 29, 60, 61])
                    a |= ((wa << sh) & (2 ** 64 - 1)) << (64 * w)
                    b |= ((wb << sh) & (2 ** 64 - 1)) << (64 * w)
                mask = (1 << (64 * nwords)) - 1
                sa = BS(~a & mask, True) if ia else BS(a)
                sb = BS(~b & mask, True) if ib else BS(b)
                nb = rng.choice([64 * nwords, 64 * nwords + 8]) if nwords < 3 else rng.choice([192, 200])
                lines = ["case w%d_%s_%d%d %d" % (nwords, "_".join(combo), ia, ib, nb)]
                lines.append(reg_line(sa, 1, 0, [("a", "1")]))
                lines.append(reg_line(sb, 2, 0, [("b", "2")]))
                for q in (sa, sb, sa.union(sb), sa.inter(sb), sa.diff(sb), sb.diff(sa)):
                    lines.append("getby %s 0" % q.show())
                yield lines


def malformed_case(rng, name, nbpus=8):
    lines = ["case %s %d" % (name, nbpus)]
    lines.append(reg_line(BS(rng.getrandbits(nbpus) | 1), 1, 0, [("a", "1")]))
    lines.append(reg_line(BS(rng.getrandbits(nbpus) | 2), 2, 0, [("b", "2")]))
    bad = [
        reg_line(None, 0, 0, None),
        reg_line(EMPTY, 0, 0, None),
        reg_line(EMPTY, 3, 0, [("z", "1")]),
        reg_line(BS(3), 0, 1, None),
        reg_line(BS(3), 0, 2, [("z", "1")]),
        reg_line(None, 0, 4, None),
        reg_line(BS(1 << 40), -3, 1 << 20, None),
        "getby NULL 0", "getby f:0 0", "getby f:1 1", "getby NULL 3",
        "getnr 1", "getnr 8", "getinfo 0 1", "getinfo 77 0", "getinfo 2 0", "getinfo 4294967295 0",
    ]
    rng.shuffle(bad)
    lines += bad[:rng.randint(4, len(bad))]
    lines.append(reg_line(BS(rng.getrandbits(nbpus) | 4), -1, 0, None))
    lines.append("getnr 0")
    return lines


# ---------------------------------------------------------------- transcripts
def split_cases(text):
    """transcript text -> {case name: [lines]} (in order)"""
    out, cur = {}, None
    order = []
    for l in text.split("\n"):
        if l.startswith("case ") or l.startswith("flagcase "):
            cur = l.split()[1]
            out[cur] = []
            order.append(cur)
        elif cur is not None and l and l != "end":
            out[cur].append(l)
    return out, order


def public_view(lines):
    """drop the representation-level lines (private fields)"""
    return [l for l in lines if not l.startswith("p ")]


class Dump:
    def __init__(self):
        self.nr = None
        self.topo = None
        self.nodes = []       # (os index, BS) in logical order
        self.kinds = []       # (BS, eff, [(name,value)])
        self.priv = None


def parse_steps(script, transcript):
    """pair every script line (after the case line) with its result line and dump.
    Returns list of (scriptline, resultline or None, Dump or None); stops where
    the transcript stops (crash) or at a FATAL line."""
    steps = []
    it = iter(transcript)
    look = [None]

    def nxt():
        if look[0] is not None:
            v, look[0] = look[0], None
            return v
        return next(it, None)

    def read_dump():
        l = nxt()
        if l is None or not l.startswith("nr="):
            look[0] = l
            return None
        d = Dump()
        f = l.split()
        d.nr = int(f[0][3:])
        d.topo = BS.parse(f[1][5:])
        d.nodes = []
        if len(f) > 2 and f[2].startswith("nodes=") and f[2] != "nodes=-":
            for it in f[2][6:].split(","):
                i, s = it.split("=")
                d.nodes.append((int(i), BS.parse(s)))
        while True:
            l = nxt()
            if l is None:
                break
            if l.startswith("k "):
                f = l.split(" ")
                infos = []
                istr = f[5][6:] if len(f) > 5 else ""
                if istr:
                    for pair in istr.split(","):
                        n, v = pair.split("=")
                        infos.append((unhexs(n), unhexs(v)))
                d.kinds.append((BS.parse(f[3]), int(f[4][4:]), infos, int(f[2][3:])))
            elif l.startswith("p "):
                d.priv = l
                break
            else:
                look[0] = l
                break
        return d

    d0 = read_dump()
    steps.append((script[0], None, d0))
    for sl in script[1:]:
        l = nxt()
        if l is None:
            break
        if l.startswith("FATAL"):
            steps.append((sl, l, None))
            break
        op = sl.split()[0]
        d = read_dump() if op in ("reg", "ireg", "restrict", "rank", "dup", "xml", "adopt") else None
        steps.append((sl, l, d))
    return steps


def rc_err(resline):
    f = resline.split()
    return int(f[1][3:]), f[2][4:]


# ---------------------------------------------------------------- executable specification
def spec_check(script, transcript, stats=None):
    """Evaluate the C15 statement on one implementation transcript.
    Returns a list of (key, message).  `stats` (dict) counts how often the
    hypotheses of the conditional parts of the statement were met."""
    bad = []
    if stats is None:
        stats = {}

    def bump(k):
        stats[k] = stats.get(k, 0) + 1
    steps = parse_steps(script, transcript)
    regs = []          # effective registrations, oldest first: [BS, forced(clamped) or None, infos]
    env = None
    prev = steps[0][2]
    loaded = script[0].startswith("caseroot")
    nokinds = script[0].startswith("flagcase")   # HWLOC_TOPOLOGY_FLAG_NO_CPUKINDS: only the application's kinds exist
    if prev is None:
        return [("initial-state", "no state dump after loading")]
    if loaded:
        # kinds registered by the Linux backend: taken as the initial effective registrations
        f0 = script[0].split()
        env = None if f0[4] == "-" else unhexs(f0[4])
        topo = prev.topo
        for k in prev.kinds:
            regs.append([k[0], None, list(k[2])])
        if f0[3] not in ("-", "0") and prev.nr > 1:
            bad.append(("homogeneous", "HWLOC_CPUKINDS_HOMOGENEOUS=%s but %d kinds" % (f0[3], prev.nr)))
        steps = [steps[0], ("loaded", "loaded rc=0 err=OK", prev)] + steps[1:]
    else:
        topo = prev.topo
        if prev.nr != 0:
            return [("initial-state", "no cpukinds expected right after loading a synthetic topology")]
    adopted = False
    pending_rank = False      # kinds registered the internal way and not ranked yet
    forced_reliable = True    # False once a registration without the OVERWRITE flag happened
    for idx, (sl, res, d) in enumerate(steps[1:], 1):
        f = sl.split()
        op = f[0]
        where = "step %d (%s)" % (idx, sl[:60])
        if res is None:
            break
        if op == "env":
            env = None if f[1] == "-" else unhexs(f[1])
            continue
        rc, err = rc_err(res)
        if op == "getnr":
            if int(f[1]) != 0:
                if (rc, err) != (-1, "EINVAL"):
                    bad.append(("getnr-flags", "%s: flags!=0 must give EINVAL, got %s" % (where, res)))
            elif rc != prev.nr:
                bad.append(("getnr", "%s: %s but %d kinds dumped" % (where, res, prev.nr)))
            continue
        if op == "getinfo":
            iid, fl = int(f[1]), int(f[2])
            if fl != 0:
                exp = (-1, "EINVAL")
            elif iid >= prev.nr:
                exp = (-1, "ENOENT")
            else:
                exp = (0, "OK")
            if (rc, err) != exp:
                bad.append(("getinfo", "%s: expected %s got %s" % (where, exp, res)))
            elif rc == 0:
                g = res.split()
                k = prev.kinds[iid]
                if BS.parse(g[3]) != k[0] or int(g[4][4:]) != k[1] or int(g[5][7:]) != len(k[2]):
                    bad.append(("getinfo", "%s: differs from the dumped kind" % where))
            continue
        if op == "getby":
            q, fl = BS.parse(f[1]), int(f[2])
            if fl != 0 or q is None or q.empty():
                exp = (-1, "EINVAL")
            else:
                inc = [i for i, k in enumerate(prev.kinds) if q.subset(k[0])]
                touch = [i for i, k in enumerate(prev.kinds) if q.intersects(k[0])]
                if inc:
                    exp = (inc[0], "OK")
                elif touch:
                    exp = (-1, "EXDEV")
                else:
                    exp = (-1, "ENOENT")
            if (rc, err) != exp:
                bad.append(("getby", "%s: expected %s got %s" % (where, exp, res)))
            continue
        if d is None:
            bad.append(("truncated", "%s: no state dump" % where))
            break
        changed = True
        was_pending = pending_rank
        if op == "loaded":
            pass
        elif op in ("reg", "restrict", "rank") and adopted:
            if (rc, err) != (-1, "EPERM"):
                bad.append(("eperm", "%s: adopted (read-only) topology must give EPERM, got %s" % (where, res)))
            changed = False
        elif op in ("reg", "ireg"):
            s = BS.parse(f[1])
            forced, flags = int(f[2]), int(f[3])
            infos = None
            if f[4] != "NULL":
                n = int(f[4])
                infos = [(unhexs(f[5 + 2 * i]), unhexs(f[6 + 2 * i])) for i in range(n)]
            if op == "reg":
                invalid = flags != 0 or s is None or s.empty()
            else:
                invalid = s.empty() or (flags & ~1) != 0
            if invalid:
                if (rc, err) != (-1, "EINVAL"):
                    bad.append(("einval", "%s: invalid arguments must give EINVAL, got %s" % (where, res)))
                changed = False
            elif rc != 0:
                bad.append(("reg-failed", "%s: valid registration failed: %s" % (where, res)))
                changed = False
            elif op == "reg":
                regs.append([s, -1 if forced < 0 else forced, infos or []])
                pending_rank = False
            else:
                regs.append([s, forced, infos or []])
                pending_rank = True
                if not flags & 1:
                    forced_reliable = False
        elif op == "restrict":
            s = BS.parse(f[1])
            fl = int(f[2]) if len(f) > 2 else 0
            bynode = fl & RESTRICT_BYNODESET
            invalid = (fl & ~31) or (bynode and fl & RESTRICT_CPULESS) or (not bynode and fl & RESTRICT_MEMLESS) \
                or (not bynode and topo.inter(s).empty()) \
                or (bynode and not any(s.intersects(BS(1 << i)) for i, _ in prev.nodes))
            if invalid:
                if (rc, err) != (-1, "EINVAL"):
                    bad.append(("restrict-einval", "%s: invalid restrict arguments must give EINVAL, got %s" % (where, res)))
                changed = False
            elif rc != 0:
                # refusing to drop every PU / every NUMA node is legitimate
                if err != "EINVAL":
                    bad.append(("restrict", "%s: failed: %s" % (where, res)))
                changed = False
            else:
                # the topology cpuset reported by the implementation after the operation
                if not d.topo.subset(topo):
                    bad.append(("topo", "%s: restrict enlarged the root cpuset" % where))
                if not bynode and d.topo != topo.inter(s):
                    bad.append(("topo", "%s: root cpuset %s, expected %s" % (where, d.topo.show(), topo.inter(s).show())))
                if bynode and not fl & RESTRICT_MEMLESS and d.topo != topo:
                    bad.append(("topo", "%s: a nodeset restrict without REMOVE_MEMLESS must keep every PU" % where))
                if bynode and fl & RESTRICT_MEMLESS:
                    # PUs all of whose local NUMA nodes are dropped (or that have none) disappear
                    kept = EMPTY
                    for i, ns in prev.nodes:
                        if s.intersects(BS(1 << i)):
                            kept = kept.union(ns)
                    if d.topo != topo.inter(kept):
                        bad.append(("topo", "%s: root cpuset %s, expected %s (PUs below kept NUMA nodes)" % (where, d.topo.show(), topo.inter(kept).show())))
                bump("restrict_flags_%d" % (fl & 25))
                if bynode and d.topo != topo:
                    bump("restrict_bynodeset_removed_pus")
                topo = d.topo
                for r in regs:
                    r[0] = r[0].inter(topo)
        elif op in ("dup", "xml", "rank", "adopt"):
            if rc != 0:
                bad.append((op, "%s: failed: %s" % (where, res)))
            if op in ("xml", "rank"):
                pending_rank = False
            if op == "xml" and nokinds and rc == 0:
                # the reloaded topology ignores the kinds found in the XML
                regs = []
                if d.nr != 0:
                    bad.append(("xml-nocpukinds", "%s: kinds imported from XML although HWLOC_TOPOLOGY_FLAG_NO_CPUKINDS is set" % where))
            if op in ("dup", "xml"):
                adopted = False
            if op == "adopt":
                adopted = True
        if d.topo != topo:
            bad.append(("topo", "%s: root cpuset %s, expected %s" % (where, d.topo.show(), topo.show())))
        # unchanged state where the property says so
        if op == "restrict" and changed and d.nr != prev.nr:
            pending_rank = False
        if not changed or (op in ("dup", "xml", "adopt") and not (op == "xml" and nokinds)):
            same = [(k[0], k[2]) for k in d.kinds] == [(k[0], k[2]) for k in prev.kinds]
            if op == "xml" and not pending_rank and not was_pending:
                # reload re-ranks: same kinds, same order unless ranking is impossible to compare
                same = same and [k[1] for k in d.kinds] == [k[1] for k in prev.kinds]
            if not changed:
                same = same and [k[1] for k in d.kinds] == [k[1] for k in prev.kinds]
            if not same:
                bad.append((op + "-changed-state", "%s: the kinds changed" % where))
        # --- the invariant on the reported kinds
        ks = d.kinds
        if d.nr != len(ks) or any(k[3] != 0 for k in ks):
            bad.append(("get_info", "%s: get_nr/get_info inconsistent" % where))
        union = EMPTY
        for i, k in enumerate(ks):
            if k[0].empty():
                bad.append(("empty-kind", "%s: kind %d is empty" % (where, i)))
            if k[0].intersects(union):
                bad.append(("overlap", "%s: kind %d overlaps an earlier kind" % (where, i)))
            union = union.union(k[0])
        want = EMPTY
        for r in regs:
            want = want.union(r[0])
        if union != want:
            bad.append(("union", "%s: union of kinds %s, union of registrations %s" % (where, union.show(), want.show())))
        for i, k in enumerate(ks):
            if len(set(k[2])) != len(k[2]):
                bad.append(("dup-info", "%s: kind %d has an exact duplicate info pair" % (where, i)))
            allowed = set()
            lastf = None
            for r in regs:
                if r[0].empty():
                    continue
                if k[0].subset(r[0]):
                    lastf = r[1]
                    for inf in r[2]:
                        allowed.add(inf)
                        if inf not in k[2]:
                            bad.append(("missing-info", "%s: kind %d lacks %r of a registration covering it" % (where, i, inf)))
                elif k[0].intersects(r[0]):
                    bad.append(("straddle", "%s: kind %d straddles registration %s" % (where, i, r[0].show())))
            for inf in k[2]:
                if inf not in allowed:
                    bad.append(("foreign-info", "%s: kind %d carries %r that no registration covering it provided" % (where, i, inf)))
            k_forced = lastf
            ks[i] = k + (k_forced,)
        # the forced efficiency a kind holds is that of the last registration covering it
        # (private field printed by the harness; Inv clause ko_forced)
        if forced_reliable and d.priv:
            pf = {}
            for tok in d.priv.split()[1:]:
                if ":forced=" in tok:
                    a = tok.split(":")
                    pf[int(a[0])] = int(a[1][7:])
            for i, k in enumerate(ks):
                if k[4] is not None and i in pf and pf[i] != k[4]:
                    bad.append(("forced-stale", "%s: kind %d (%s) holds forced efficiency %d, the last registration covering it gave %d" % (
                        where, i, k[0].show(), pf[i], k[4])))
        effs = [k[1] for k in ks]
        if op == "restrict" and changed and d.nr != prev.nr:
            bump("restrict_removed_kind")
        if len(ks) >= 2:
            bump("ranked" if effs[0] == 0 else "all_unknown")
        if pending_rank:
            prev = d
            continue
        if not (all(e == -1 for e in effs) or effs == list(range(len(ks)))):
            bad.append(("efficiencies", "%s: efficiencies %r are neither all -1 nor 0..nr-1 in order" % (where, effs)))
        if len(ks) == 1 and effs != [0]:
            bad.append(("efficiencies", "%s: a single kind must have efficiency 0" % where))
        # forced efficiencies known and distinct => ranked by them (default / forced_efficiency strategies);
        # checked where a ranking has just happened
        forced = [k[4] for k in ks]
        if not forced_reliable:
            prev = d
            continue
        ranked_now0 = (op == "reg" and changed) or op in ("rank", "xml") or (op == "restrict" and changed and d.nr != prev.nr)
        forced0 = [k[4] for k in ks]
        usable = all(x is not None and x >= 0 for x in forced0) and len(set(forced0)) == len(forced0)
        if ranked_now0 and len(ks) >= 2 and not usable and all(x is not None for x in forced0):
            # forced efficiencies unusable (one unknown, or two equal): the forced_efficiency strategy must give up,
            # and so must the default one when no kind carries core type / frequency infos to fall back on
            rankable_infos = any(n in ("CoreType", "FrequencyMaxMHz", "FrequencyBaseMHz") for k in ks for n, _ in k[2])
            if (env == "forced_efficiency" or (env in (None, "default", "bogus", "") and not rankable_infos)) and effs != [-1] * len(ks):
                bad.append(("forced-unusable", "%s: forced efficiencies %r are not all known and distinct but efficiencies are %r" % (where, forced0, effs)))
        ranked_now = (op == "reg" and changed) or op in ("rank", "xml") or (op == "restrict" and changed and d.nr != prev.nr)
        if ranked_now and len(ks) >= 2 and env in (None, "default", "forced_efficiency", "bogus", "") \
                and all(x is not None and x >= 0 for x in forced) and len(set(forced)) == len(forced):
            bump("forced_known_distinct")
            if effs != list(range(len(ks))) or forced != sorted(forced):
                bad.append(("forced-ranking", "%s: forced efficiencies %r known and distinct but efficiencies %r" % (where, forced, effs)))
        prev = d
    return bad


# ---------------------------------------------------------------- shrinking
def shrink(lines, fails, budget=60):
    """greedy line removal (keeps line 0); `fails(lines)` -> bool"""
    cur = list(lines)
    n = 0
    changed = True
    while changed and n < budget:
        changed = False
        i = len(cur) - 1
        while i >= 1 and n < budget:
            cand = cur[:i] + cur[i + 1:]
            n += 1
            if len(cand) > 1 and fails(cand):
                cur = cand
                changed = True
            i -= 1
    return cur
