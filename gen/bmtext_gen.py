"""Generators and shrinkers for C04 (bitmap <-> string).  python3 stdlib only.
Every random choice comes from the rng handed in (derived from VERIF_SEED)."""
import re

FULL = (1 << 64) - 1
BOUNDARY_BITS = [0, 1, 31, 32, 33, 63, 64, 65, 127, 128, 511, 512, 513]
WORD_POOL = [0, 1, FULL, 0xFFFFFFFF, 0xFFFFFFFF00000000, 0x80000000, 0x100000000, 0x8000000000000000,
             0x7FFFFFFFFFFFFFFF, 0xFFFFFFFE, 0xFFFFFFFF00000001, 0x00000001FFFFFFFF, 0xFFFFFFFFFFFFFFFE,
             0xF, 0xF0, 0xFFFFFFFF0000FFFF, 0x0000FFFF00000000, 0xA5A5A5A5A5A5A5A5, 0xFFFFFFFEFFFFFFFF]


def words_of_bits(bits, nwords=None):
    n = (max(bits) // 64 + 1) if bits else 1
    if nwords:
        n = max(n, nwords)
    w = [0] * n
    for b in bits:
        w[b // 64] |= 1 << (b % 64)
    return w


def boundary_bitmaps():
    """Enumerated, not sampled: single boundary bits, ranges ending/starting at
    them, complements, with and without the infinite flag, with redundant top
    words (ZERO for finite, FULL for infinite)."""
    out = []
    for inf in (0, 1):
        out.append((inf, [0]))
        out.append((inf, [FULL]))
        out.append((inf, [0, 0]))
        out.append((inf, [FULL, FULL]))
        for b in BOUNDARY_BITS:
            w = words_of_bits([b])
            out.append((inf, w))
            out.append((inf, [x ^ FULL for x in w]))
            out.append((inf, w + [FULL if inf else 0]))
            out.append((inf, w + [0 if inf else FULL]))
            rng_bits = list(range(0, b + 1))
            out.append((inf, words_of_bits(rng_bits)))
            out.append((inf, [x ^ FULL for x in words_of_bits(rng_bits)]))
        for a in BOUNDARY_BITS:
            for b in BOUNDARY_BITS:
                if a < b:
                    out.append((inf, words_of_bits([a, b])))
        for w0 in WORD_POOL:
            out.append((inf, [w0]))
            for w1 in WORD_POOL[:12]:
                out.append((inf, [w0, w1]))
    return out


def random_bitmap(rng):
    inf = rng.randrange(2)
    k = rng.random()
    if k < 0.55:
        n = rng.choice([1, 1, 2, 2, 3])
    elif k < 0.9:
        n = rng.randrange(3, 7)
    else:
        n = rng.randrange(7, 13)
    ws = []
    for _ in range(n):
        r = rng.random()
        if r < 0.3:
            ws.append(rng.choice(WORD_POOL))
        elif r < 0.5:
            ws.append(rng.getrandbits(64))
        elif r < 0.65:
            ws.append(rng.getrandbits(32))
        elif r < 0.8:
            ws.append(rng.getrandbits(32) << 32)
        elif r < 0.9:
            ws.append(FULL ^ (1 << rng.randrange(64)))
        else:
            ws.append(1 << rng.randrange(64))
    return (inf, ws)


# ---------- strings ----------
def gen_hwloc_string(rng):
    parts = []
    if rng.random() < 0.3:
        parts.append("0xf...f")
    n = rng.choice([0, 1, 1, 2, 2, 3, 4, 5, 8])
    for _ in range(n):
        r = rng.random()
        if r < 0.15:
            parts.append("")
        elif r < 0.3:
            parts.append("0x0")
        elif r < 0.8:
            parts.append("0x%08x" % rng.choice([rng.getrandbits(32), 0xffffffff, 1, 0x80000000]))
        elif r < 0.9:
            parts.append("%x" % rng.getrandbits(rng.choice([4, 16, 32, 40])))
        else:
            parts.append("0x%x" % rng.getrandbits(rng.choice([8, 33, 64, 70])))
    return ",".join(parts)


def gen_list_string(rng):
    parts = []
    n = rng.choice([0, 1, 1, 2, 3, 4, 6])
    for i in range(n):
        a = rng.choice(BOUNDARY_BITS + [rng.randrange(0, 700), rng.randrange(0, 40)])
        r = rng.random()
        if r < 0.45:
            parts.append("%d" % a)
        elif r < 0.85:
            parts.append("%d-%d" % (a, a + rng.choice([0, 1, 2, 31, 32, 63, 64, 100])))
        elif r < 0.93:
            parts.append("%d-" % a)
        elif r < 0.97:
            parts.append("0x%x" % a)
        else:
            parts.append("%d-%d" % (a + 5, a))
    sep = rng.choice([",", ",", ",", " ", ", ", ",,"])
    return sep.join(parts)


def gen_taskset_string(rng):
    s = ""
    r = rng.random()
    if r < 0.3:
        s = "0xf...f"
    elif r < 0.85:
        s = "0x"
    n = rng.choice([0, 1, 2, 7, 8, 9, 15, 16, 17, 24, 31, 32, 33, 40])
    return s + "".join(rng.choice("0123456789abcdefF0f") for _ in range(n))


MUT_CHARS = ",,,,-- 0xXfF.19aAgG+\t\n\x01\x7f\xff"


def mutate(rng, s):
    b = bytearray(s.encode("latin-1"))
    for _ in range(rng.choice([1, 1, 1, 2, 3])):
        k = rng.randrange(5)
        pos = rng.randrange(len(b) + 1)
        if k == 0 and b:
            del b[min(pos, len(b) - 1)]
        elif k == 1:
            b.insert(pos, ord(rng.choice(MUT_CHARS)))
        elif k == 2 and b:
            b[min(pos, len(b) - 1)] = ord(rng.choice(MUT_CHARS))
        elif k == 3 and b:
            del b[pos:]
        else:
            c = bytes(b[pos:pos + rng.randrange(1, 6)])
            b[pos:pos] = c
    return bytes(x for x in b if x != 0)


def raw_bytes(rng):
    n = rng.choice([0, 1, 2, 3, 5, 8, 13, 21])
    alphabet = b"0123456789abcdefxX,-. fF\t+\xff\x01"
    if rng.random() < 0.5:
        return bytes(rng.choice(alphabet) for _ in range(n))
    return bytes(rng.randrange(1, 256) for _ in range(n))


HOSTILE = [b"", b",", b",1", b",,", b"1,", b"0x1,", b"1,2,", b"0xf...f", b"0xf...f,", b"0xf...f,,", b"0xf...f,0x1",
           b"0xf...f0", b"0xf...", b"0xf...f,0xffffffff,0x0", b"0x", b"0", b"x", b"0x0", b"0x00000000,0x00000000",
           b"0x1ffffffff", b"0xffffffffffffffffff", b"-1", b"1-", b"1-2", b"1--", b"-", b"1-,", b"1-2-3", b"1,,2", b" 1",
           b"1 2", b"1x", b"1x2", b"0x10", b"010", b"1-0x20", b"2-1", b"0-", b"5-,6", b"0xf...f1", b"0xf...f,1",
           b"0xf...ffffffffff", b"0x0xf", b"0x 1", b"0x+1", b"+1", b"0x0000000000000000f", b"f" * 33, b"0x" + b"0" * 40,
           b"1,0x,2", b"0xg", b"1,2,3,4,5,6,7,8,9", b"0x1,,,", b",,,1"]


def list_values_ok(s, limit=1 << 17):
    """Port of the control flow of hwloc_bitmap_list_sscanf, used ONLY to keep
    out strings that would make the real code allocate hundreds of MB (indexes
    up to 2^32 are legal for it): every index handed to set/set_range must be
    < limit.  Not an oracle."""
    i, n = 0, len(s)
    begin = None

    def strtoul0(j):
        k = j
        while k < n and s[k] in b" \t\n\v\f\r":
            k += 1
        neg = False
        if k < n and s[k] in b"+-":
            neg = s[k] == 0x2d
            k += 1
        base = 10
        if k < n and s[k] == 0x30:
            if k + 1 < n and s[k + 1] in b"xX":
                base, k = 16, k + 2
            else:
                base = 8
        st = k
        digs = {8: b"01234567", 10: b"0123456789", 16: b"0123456789abcdefABCDEF"}[base]
        v = 0
        while k < n and s[k] in digs:
            v = v * base + int(chr(s[k]), 16)
            k += 1
        if k == st:
            return 0, (st - 1 if base == 16 else j)
        if v > FULL:
            v = FULL
        elif neg:
            v = (-v) % (1 << 64)
        return v, k

    while i < n:
        while i < n and s[i] in b", ":
            i += 1
        v, e = strtoul0(i)
        if e == i:
            return True
        u = v % (1 << 32)
        nxt = s[e] if e < n else 0
        if begin is not None:
            b = begin % (1 << 32)
            if u >= b and u != 0xFFFFFFFF and u >= limit:
                return False
            if u == 0xFFFFFFFF and b >= limit:
                return False
            begin = None
        elif nxt == 0x2d:
            if e + 1 >= n:
                return u < limit
            begin = v if v != FULL else None
        elif nxt in b", \0" or e >= n:
            if u >= limit:
                return False
        if e >= n:
            return True
        i = e + 1
    return True


def shrink_bytes(s, fails):
    """Greedy delta debugging on a byte string: `fails(bytes)` says whether the
    failure is still there."""
    s = bytes(s)
    changed = True
    while changed and len(s) > 0:
        changed = False
        for size in (len(s) // 2, 4, 2, 1):
            if size < 1:
                continue
            i = 0
            while i < len(s):
                t = s[:i] + s[i + size:]
                if t != s and fails(t):
                    s, changed = t, True
                else:
                    i += size
    return s
