"""Generators and shrinkers for C04 (bitmap <-> string).  python3 stdlib only.
Every random choice comes from the rng handed in (derived from VERIF_SEED)."""
import re

FULL = (1 << 64) - 1
BOUNDARY_BITS = [0, 1, 31, 32, 33, 63, 64, 65, 127, 128, 511, 512, 513]
WORD_POOL = [0, 1, FULL, 0xFFFFFFFF, 0xFFFFFFFF00000000, 0x80000000, 0x100000000, 0x8000000000000000,
             0x7FFFFFFFFFFFFFFF, 0xFFFFFFFE, 0xFFFFFFFF00000001, 0x00000001FFFFFFFF, 0xFFFFFFFFFFFFFFFE,
             0xF, 0xF0, 0xFFFFFFFF0000FFFF, 0x0000FFFF00000000, 0xA5A5A5A5A5A5A5A5, 0xFFFFFFFEFFFFFFFF]


def words_of_bits(bits, nwords=None):
    n = (max(bits) // 64 + 1) if bits else 1
    if nwords:
        n = max(n, nwords)
    w = [0] * n
    for b in bits:
        w[b // 64] |= 1 << (b % 64)
    return w


def boundary_bitmaps():
    """Enumerated, not sampled: single boundary bits, ranges ending/starting at
    them, complements, with and without the infinite flag, with redundant top
    words (ZERO for finite, FULL for infinite)."""
    out = []
    for inf in (0, 1):
        out.append((inf, [0]))
        out.append((inf, [FULL]))
        out.append((inf, [0, 0]))
        out.append((inf, [FULL, FULL]))
        for b in BOUNDARY_BITS:
            w = words_of_bits([b])
            out.append((inf, w))
            out.append((inf, [x ^ FULL for x in w]))
            out.append((inf, w + [FULL if inf else 0]))
            out.append((inf, w + [0 if inf else FULL]))
            rng_bits = list(range(0, b + 1))
            out.append((inf, words_of_bits(rng_bits)))
            out.append((inf, [x ^ FULL for x in words_of_bits(rng_bits)]))
        for a in BOUNDARY_BITS:
            for b in BOUNDARY_BITS:
                if a < b:
                    out.append((inf, words_of_bits([a, b])))
        for w0 in WORD_POOL:
            out.append((inf, [w0]))
            for w1 in WORD_POOL[:12]:
                out.append((inf, [w0, w1]))
    return out


def random_bitmap(rng):
    inf = rng.randrange(2)
    k = rng.random()
    if k < 0.55:
        n = rng.choice([1, 1, 2, 2, 3])
    elif k < 0.9:
        n = rng.randrange(3, 7)
    else:
        n = rng.randrange(7, 13)
    ws = []
    for _ in range(n):
        r = rng.random()
        if r < 0.3:
            ws.append(rng.choice(WORD_POOL))
        elif r < 0.5:
            ws.append(rng.getrandbits(64))
        elif r < 0.65:
            ws.append(rng.getrandbits(32))
        elif r < 0.8:
            ws.append(rng.getrandbits(32) << 32)
        elif r < 0.9:
            ws.append(FULL ^ (1 << rng.randrange(64)))
        else:
            ws.append(1 << rng.randrange(64))
    return (inf, ws)


# ---------- strings ----------
def gen_hwloc_string(rng):
    parts = []
    if rng.random() < 0.3:
        parts.append("0xf...f")
    n = rng.choice([0, 1, 1, 2, 2, 3, 4, 5, 8])
    for _ in range(n):
        r = rng.random()
        if r < 0.15:
            parts.append("")
        elif r < 0.3:
            parts.append("0x0")
        elif r < 0.8:
            parts.append("0x%08x" % rng.choice([rng.getrandbits(32), 0xffffffff, 1, 0x80000000]))
        elif r < 0.9:
            parts.append("%x" % rng.getrandbits(rng.choice([4, 16, 32, 40])))
        else:
            parts.append("0x%x" % rng.getrandbits(rng.choice([8, 33, 64, 70])))
    return ",".join(parts)


def gen_list_string(rng):
    parts = []
    n = rng.choice([0, 1, 1, 2, 3, 4, 6])
    for i in range(n):
        a = rng.choice(BOUNDARY_BITS + [rng.randrange(0, 700), rng.randrange(0, 40)])
        r = rng.random()
        if r < 0.45:
            parts.append("%d" % a)
        elif r < 0.85:
            parts.append("%d-%d" % (a, a + rng.choice([0, 1, 2, 31, 32, 63, 64, 100])))
        elif r < 0.93:
            parts.append("%d-" % a)
        elif r < 0.97:
            parts.append("0x%x" % a)
        else:
            parts.append("%d-%d" % (a + 5, a))
    sep = rng.choice([",", ",", ",", " ", ", ", ",,"])
    return sep.join(parts)


def gen_taskset_string(rng):
    s = ""
    r = rng.random()
    if r < 0.3:
        s = "0xf...f"
    elif r < 0.85:
        s = "0x"
    n = rng.choice([0, 1, 2, 7, 8, 9, 15, 16, 17, 24, 31, 32, 33, 40])
    return s + "".join(rng.choice("0123456789abcdefF0f") for _ in range(n))


MUT_CHARS = ",,,,-- 0xXfF.19aAgG+\t\n\x01\x7f\xff"


def mutate(rng, s):
    b = bytearray(s.encode("latin-1"))
    for _ in range(rng.choice([1, 1, 1, 2, 3])):
        k = rng.randrange(5)
        pos = rng.randrange(len(b) + 1)
        if k == 0 and b:
            del b[min(pos, len(b) - 1)]
        elif k == 1:
            b.insert(pos, ord(rng.choice(MUT_CHARS)))
        elif k == 2 and b:
            b[min(pos, len(b) - 1)] = ord(rng.choice(MUT_CHARS))
        elif k == 3 and b:
            del b[pos:]
        else:
            c = bytes(b[pos:pos + rng.randrange(1, 6)])
            b[pos:pos] = c
    return bytes(x for x in b if x != 0)


def raw_bytes(rng):
    n = rng.choice([0, 1, 2, 3, 5, 8, 13, 21])
    alphabet = b"0123456789abcdefxX,-. fF\t+\xff\x01"
    if rng.random() < 0.5:
        return bytes(rng.choice(alphabet) for _ in range(n))
    return bytes(rng.randrange(1, 256) for _ in range(n))


HOSTILE = [b"", b",", b",1", b",,", b"1,", b"0x1,", b"1,2,", b"0xf...f", b"0xf...f,", b"0xf...f,,", b"0xf...f,0x1",
           b"0xf...f0", b"0xf...", b"0xf...f,0xffffffff,0x0", b"0x", b"0", b"x", b"0x0", b"0x00000000,0x00000000",
           b"0x1ffffffff", b"0xffffffffffffffffff", b"-1", b"1-", b"1-2", b"1--", b"-", b"1-,", b"1-2-3", b"1,,2", b" 1",
           b"1 2", b"1x", b"1x2", b"0x10", b"010", b"1-0x20", b"2-1", b"0-", b"5-,6", b"0xf...f1", b"0xf...f,1",
           b"0xf...ffffffffff", b"0x0xf", b"0x 1", b"0x+1", b"+1", b"0x0000000000000000f", b"f" * 33, b"0x" + b"0" * 40,
           b"1,0x,2", b"0xg", b"1,2,3,4,5,6,7,8,9", b"0x1,,,", b",,,1"]


def list_values_ok(s, limit=1 << 17):
    """Port of the control flow of hwloc_bitmap_list_sscanf, used ONLY to keep
    out strings that would make the real code allocate hundreds of MB (indexes
    up to 2^32 are legal for it): every index handed to set/set_range must be
    < limit.  Not an oracle."""
    i, n = 0, len(s)
    begin = None

    def strtoul0(j):
        k = j
        while k < n and s[k] in b" \t\n\v\f\r":
            k += 1
        neg = False
        if k < n and s[k] in b"+-":
            neg = s[k] == 0x2d
            k += 1
        base = 10
        if k < n and s[k] == 0x30:
            if k + 1 < n and s[k + 1] in b"xX":
                base, k = 16, k + 2
            else:
                base = 8
        st = k
        digs = {8: b"01234567", 10: b"0123456789", 16: b"0123456789abcdefABCDEF"}[base]
        v = 0
        while k < n and s[k] in digs:
            v = v * base + int(chr(s[k]), 16)
            k += 1
        if k == st:
            return 0, (st - 1 if base == 16 else j)
        if v > FULL:
            v = FULL
        elif neg:
            v = (-v) % (1 << 64)
        return v, k

    while i < n:
        while i < n and s[i] in b", ":
            i += 1
        v, e = strtoul0(i)
        if e == i:
            return True
        u = v % (1 << 32)
        nxt = s[e] if e < n else 0
        if begin is not None:
            b = begin % (1 << 32)
            if u >= b and u != 0xFFFFFFFF and u >= limit:
                return False
            if u == 0xFFFFFFFF and b >= limit:
                return False
            begin = None
        elif nxt == 0x2d:
            if e + 1 >= n:
                return u < limit
            begin = v if v != FULL else None
        elif nxt in b", \0" or e >= n:
            if u >= limit:
                return False
        if e >= n:
            return True
        i = e + 1
    return True


def shrink_bytes(s, fails):
    """Greedy delta debugging on a byte string: `fails(bytes)` says whether the
    failure is still there."""
    s = bytes(s)
    changed = True
    while changed and len(s) > 0:
        changed = False
        for size in (len(s) // 2, 4, 2, 1):
            if size < 1:
                continue
            i = 0
            while i < len(s):
                t = s[:i] + s[i + size:]
                if t != s and fails(t):
                    s, changed = t, True
                else:
                    i += size
    return s


# ---------- bitmaps whose printed text has a prescribed length ----------
POW2_NEIGHBOURS = [15, 16, 17, 31, 32, 33, 63, 64, 65, 127, 128, 129, 255, 256, 257, 511, 512, 513,
                   1023, 1024, 1025, 4095, 4096, 4097]


def target_lengths(upto=320):
    return sorted(set(range(1, upto + 1)) | set(POW2_NEIGHBOURS))


def _words_of_value(v, nwords=None):
    ws = []
    while v:
        ws.append(v & FULL)
        v >>= 64
    if not ws:
        ws = [0]
    if nwords:
        ws += [0] * (nwords - len(ws))
    return ws


def taskset_bitmap_of_length(L, inf, rng):
    """finite: '0x' + n digits (every L >= 3); infinite: 7 + 16k or 15 + 16k only."""
    if not inf:
        if L < 3:
            return None
        n = L - 2
        top = rng.randrange(1, 16)
        v = top << (4 * (n - 1))
        if n > 1:
            v |= rng.getrandbits(4 * (n - 1))
        return (0, _words_of_value(v))
    if L < 7 or (L - 7) % 16 not in (0, 8):
        return None
    k, half = divmod(L - 7, 16)
    ws = [rng.getrandbits(64) for _ in range(k)]
    if half:
        ws.append(0xFFFFFFFF00000000 | rng.getrandbits(32))   # merged with the infinite prefix: 8 digits
    elif ws:
        ws[-1] &= 0x7FFFFFFFFFFFFFFF                           # top word neither FULL nor hi-half-FULL
    if not ws:
        ws = [FULL]
    return (1, ws)


def hwloc_bitmap_of_length(L, inf, rng):
    """groups most significant first: first printed group, then a non-zero groups
    (11 chars each), b zero groups (1 char each), a last zero group ('0x0', 4 chars)."""
    def nz():
        return rng.choice([1, 0x80000000, 0xfffffffe, rng.getrandbits(32) | 1])
    if not inf:
        if L == 3:
            return (0, [0])
        if L == 10:
            groups = [nz()]
        elif L >= 14:
            a, b = divmod(L - 14, 11)
            mid = [nz()] * a + [0] * b
            rng.shuffle(mid)
            groups = [nz()] + mid + [0]
        else:
            return None
    else:
        if L == 7:
            return (1, [FULL])
        if L < 11:
            return None
        a, b = divmod(L - 11, 11)
        mid = [nz()] * a + [0] * b
        rng.shuffle(mid)
        groups = mid + [0]
        if len(groups) % 2 == 0 and groups[0] == 0xFFFFFFFF:
            groups[0] = 1
    k = len(groups)
    v = 0
    for j, g in enumerate(reversed(groups)):
        v |= g << (32 * j)
    if inf and k % 2 == 1:
        v |= 0xFFFFFFFF << (32 * k)
    return (1 if inf else 0, _words_of_value(v, (k + 1) // 2))


def list_bitmap_of_length(L, inf, rng):
    """isolated even indexes: d-digit items cost d+1 characters (comma included, the
    first one saves 1); infinite: a final 'N-' item."""
    pools = {1: list(range(0, 10, 2)), 2: list(range(10, 100, 2)), 3: list(range(100, 1000, 2)),
             4: list(range(1000, 10000, 2))}
    tails = [None]
    if inf:
        tails = [(10000, 7), (0, 3), (10, 4), (100, 5), (1000, 6)]
    for tail in tails:
        T = L + 1 - (tail[1] if tail else 0)
        if tail and T == 0:
            return (1, _infinite_words([], tail[0]))
        if T < 2:
            continue
        for c1 in range(0, 6):
            for c2 in range(0, 46):
                R = T - 2 * c1 - 3 * c2
                if R < 0:
                    break
                for c4 in range(0, 5):
                    r3 = R - 5 * c4
                    if r3 >= 0 and r3 % 4 == 0 and r3 // 4 <= 450 and c4 <= 4500:
                        c3 = r3 // 4
                        items = (rng.sample(pools[1], c1) + rng.sample(pools[2], c2) +
                                 rng.sample(pools[3], c3) + rng.sample(pools[4], c4))
                        if tail:
                            items = [i for i in items]
                            if any(i >= tail[0] - 1 for i in items):
                                continue
                            return (1, _infinite_words(items, tail[0]))
                        if not items:
                            continue
                        return (0, words_of_bits(items))
                # larger R: more four-digit items
                if R >= 0 and R % 5 == 0 and R // 5 <= 4500 and not tail:
                    pass
    # long texts: fill with four-digit items
    T = L + 1 - (7 if inf else 0)
    for c3 in range(0, 451):
        R = T - 4 * c3
        if R >= 0 and R % 5 == 0 and R // 5 <= 4500:
            items = rng.sample(pools[3], c3) + rng.sample(pools[4], R // 5)
            if inf:
                return (1, _infinite_words(items, 10000))
            if items:
                return (0, words_of_bits(items))
    return None


def _infinite_words(items, start):
    n = start // 64 + 1
    w = words_of_bits(items, n) if items else [0] * n
    w += [0] * (n - len(w))
    for b in range(start, 64 * n):
        w[b // 64] |= 1 << (b % 64)
    return w


def length_targeted_bitmaps(rng, upto=320):
    """For each format x finite/infinite and each target length: one bitmap whose
    text in that format has exactly that length (None where the format cannot
    produce it).  Returns (format, length, inf, words)."""
    out = []
    for L in target_lengths(upto):
        for inf in (0, 1):
            for f, fn in (("h", hwloc_bitmap_of_length), ("l", list_bitmap_of_length), ("t", taskset_bitmap_of_length)):
                bm = fn(L, inf, rng)
                if bm is not None:
                    out.append((f, L, bm[0], bm[1]))
    return out
