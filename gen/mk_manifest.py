#!/usr/bin/env python3
"""Writes MANIFEST.json from the list of implemented checks (checks/cXX.py) and
gen/manifest_notes.json (per-property level text).  Properties without a check
are listed under not_applicable with the reason 'not yet built'."""
import json, os
V = os.path.dirname(os.path.dirname(os.path.abspath(__file__)))
notes = json.load(open(os.path.join(V, "gen", "manifest_notes.json")))
# per-property notes written by the builder of each check: gen/manifest_notes.d/Cxx.json = {"text":..., "note":..., "technique":...}
nd = os.path.join(V, "gen", "manifest_notes.d")
for n in sorted(os.listdir(nd)) if os.path.isdir(nd) else []:
    if n.endswith(".json"):
        try:
            notes[n[:-5]] = json.load(open(os.path.join(nd, n)))
        except Exception as e:
            print("bad notes file", n, e)
ids = ["C%02d" % i for i in range(1, 21)]
have = [i for i in ids if os.path.exists(os.path.join(V, "checks", i.lower() + ".py"))]
m = {
 "version": 1,
 "setup_cmd": "cd /verif && ./check.py setup",
 "hooks": {"guard": "HWLOC_VERIF",
           "enable": "checks compile /repo/hwloc/*.c directly with -DHWLOC_VERIF (hv/common.py build_lib); no hook is compiled without it",
           "baseline_off_cmd": "cd /repo && make check",
           "source_commits": notes.get("_hook_commits", []), "add_only": True},
 "engines": [{"name": "check.py", "path": "/verif/check.py", "serves_properties": have,
              "kind_free_text": "Coq 8.16 proofs over hand-written executable models (coq/), regenerated tables translator (harness/tables.c), extracted-model vs C differential correspondence and spec checkers (checks/*.py, harness/*.c, ocaml/*.ml)"}],
 "checks": [], "not_applicable": [],
 "notes": "See DESIGN.md. Every claimed property: theorems in coq/Props/Properties_<id>.v re-checked on every run against Gen/Tables.v regenerated from /repo; hand model tied by differential execution against the library rebuilt from /repo's working tree."
}
for i in ids:
    n = notes.get(i, {})
    if i in have:
        m["checks"].append({
            "property_id": i,
            "quick_cmd": "./check.py %s --tier quick" % i,
            "thorough_cmd": "./check.py %s --tier thorough" % i,
            "evidence_file": "/verif/evidence/%s.json" % i,
            "replay_cmd_template": "./check.py %s --replay {path}" % i,
            "engine": "check.py",
            "level_claimed": {"category": "proof", "text": n.get("text", ""), "design_ref": "DESIGN.md section 6." + i},
            "level_note": n.get("note", ""),
            "technique": n.get("technique", "Coq proof over executable model + regenerated tables + differential correspondence with the C code"),
        })
    else:
        m["not_applicable"].append({"property_id": i, "reason": n.get("na", "check not built yet in this snapshot of /verif (work in progress; the design in DESIGN.md 6.%s applies)" % i)})
json.dump(m, open(os.path.join(V, "MANIFEST.json"), "w"), indent=1)
print("claimed:", have)
