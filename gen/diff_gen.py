"""C16 generators: case scripts for harness/hwv_diff.c (see its header for the
syntax), derived from the probed object tables of a few base topologies.
python3 stdlib only; every choice comes from the rng given."""
import os


def hx(s):
    if s is None:
        return "-"
    return "s" + (s if isinstance(s, bytes) else s.encode()).hex()


SYNTH = [
    "pack:2 numa:1 core:2 pu:1",
    "numa:2 pack:1 l2:2 pu:2",
    "pack:2 l3:1 numa:2 core:1 pu:2",
    "numa:3(memory=4096) pu:1",
    "pack:1 pu:1",
    "pack:2 [numa(memorysidecachesize=1MB)] pu:2",
    # os_index differs from logical_index on every level
    "pack:2 numa:2(indexes=3,1,2,0) pu:2",
    "numa:3(indexes=2,0,1) core:2(indexes=3,1,5,0,4,2) pu:2(indexes=numa:core)",
    "pack:2(indexes=5,2) [numa(indexes=7,4)] core:2 pu:1(indexes=3,0,2,1)",
    "pack:2 [numa(memory=1000)] [numa(memory=2000)] core:2 pu:1",
    "group:2 pack:2 l2:1 l1i:1 pu:1",
]
XMLS = ["tests/hwloc/xml/16em64t-4s2c2t-offlines.xml", "tests/hwloc/xml/24em64t-2n6c2t-pci.xml", "tests/hwloc/xml/8intel64-4n2t-memattrs.xml",
        "tests/hwloc/xml/16-2gr2gr2n2c+misc.xml", "tests/hwloc/xml/16amd64-4distances.xml"]


def topo_lines(repo, tier):
    res = ["topo synthetic " + s for s in SYNTH]
    for x in XMLS if tier == "thorough" else XMLS[:4]:
        p = os.path.join(repo, x)
        if os.path.exists(p):
            res.append("topo xml " + p)
    return res


def probe_script(topos):
    out = []
    for i, t in enumerate(topos):
        out += ["case probe%d" % i, t, "build", "end"]
    return "\n".join(out) + "\n"


def parse_tables(text):
    """O A lines per case -> list of objects (dict) in table order."""
    res, cur = {}, None
    for l in text.split("\n"):
        f = l.split()
        if not f:
            continue
        if f[0] == "case":
            cur = res.setdefault(f[1], [])
        elif f[0] == "O" and f[1] == "A" and cur is not None:
            ninf = int(f[17])
            infos = [(f[18 + 2 * k], f[19 + 2 * k]) for k in range(ninf)]
            o = {"depth": int(f[4]), "idx": int(f[5]), "type": int(f[6]), "name": f[13],
                 "lmem": int(f[15]), "tmem": int(f[16]), "infos": infos, "nest": int(f[2]), "list": int(f[3]), "kids": [0, 0, 0, 0]}
            # pre-order with nesting levels: the parent is the last object one level up
            for q in reversed(cur):
                if q["nest"] == o["nest"] - 1:
                    q["kids"][o["list"]] += 1
                    break
            cur.append(o)
    return res


# strings by byte class: what a name / info name / info value may hold (anything but NUL)
BYTE_CLASSES = {
    "utf8": "\u00e9\u20ac\U0001f600 \u4e2d".encode(), "tab": b"a\tb", "lf": b"a\nb", "cr": b"a\rb", "crlf": b"a\r\nb",
    "ctl01": b"a\x01b", "ctl1f": b"\x1f", "ctl0b": b"x\x0b\x0cy", "del": b"a\x7fb",
    "hi80": b"a\x80b", "hiff": b"\xff", "latin1": b"caf\xe9", "overlong": b"\xc0\x80", "surrogate": b"\xed\xa0\x80",
    "xml": b"&<>\"'", "entity": b"&amp;&#10;&lt;", "cdata": b"]]><!--", "lead": b"  a", "trail": b"a  ", "blank": b" ", "empty": b"",
    "mixed": "\u00e9&<\t \u20ac\n".encode(),
    # runs of ONE escaped character: the worst case of the exporters' escape buffers (each becomes 4-6 bytes), at
    # lengths below and beyond the allocator's slack (the harness reads tokens of at most 511 bytes)
    "quot1": b'"', "quot40": b'"' * 40, "quot200": b'"' * 200, "amp40": b"&" * 40, "amp200": b"&" * 200,
    "lt40": b"<" * 40, "gt40": b">" * 40, "apos40": b"'" * 40, "quotx": b'""""""""""""""""""""x""""""""""',
}
RICH = list(BYTE_CLASSES.values())


def xml_unsafe(b):
    """bytes XML 1.0 in UTF-8 cannot carry: C0 controls other than TAB/LF/CR, U+FFFE/U+FFFF, invalid UTF-8"""
    try:
        t = b.decode("utf-8")
    except UnicodeDecodeError:
        return True
    return any((ord(c) < 32 and c not in "\t\n\r") or ord(c) in (0xFFFE, 0xFFFF) for c in t)


class _Mix(list):
    """a list of plain strings whose rng.choice() sometimes yields a byte-rich one"""


NAMES = ["X", "Y", "Z", BYTE_CLASSES["utf8"], BYTE_CLASSES["xml"], BYTE_CLASSES["ctl01"]]
VALS = ["a", "b", "c", "d"] + [BYTE_CLASSES[k] for k in ("utf8", "tab", "lf", "cr", "ctl1f", "del", "hi80", "latin1", "xml", "entity",
                                                           "lead", "trail", "blank", "empty", "mixed")]
ONAMES = ["n0", "n1", "big name", "<&>\"'"] + [BYTE_CLASSES[k] for k in ("utf8", "crlf", "ctl0b", "hiff", "cdata", "trail", "empty", "mixed")]
NUMA, PU = 14, 4


class State:
    """what the generator tracks of a topology: name/infos/lmem per (depth, idx)"""

    def __init__(self, objs):
        self.o = {(o["depth"], o["idx"]): {"name": None if o["name"] == "-" else o["name"], "infos": list(o["infos"]),
                                           "lmem": o["lmem"], "type": o["type"]} for o in objs}
        self.keys = list(self.o)

    def copy(self):
        s = State([])
        s.o = {k: {"name": v["name"], "infos": list(v["infos"]), "lmem": v["lmem"], "type": v["type"]} for k, v in self.o.items()}
        s.keys = list(self.keys)
        return s


def setup_edits(rng, st, rich):
    """edits applied to A: names, infos (sometimes with duplicate names), extras"""
    out = []
    for _ in range(rng.randint(0, 6 if rich else 3)):
        k = rng.choice(st.keys)
        r = rng.random()
        if r < 0.4:
            n = hx(rng.choice(ONAMES))
            out.append("a name %d %d %s" % (k[0], k[1], n))
            st.o[k]["name"] = n
        else:
            n, v = hx(rng.choice(NAMES)), hx(rng.choice(VALS))
            out.append("a infoadd %d %d %s %s" % (k[0], k[1], n, v))
            st.o[k]["infos"].append((n, v))
    if rng.random() < 0.25:
        out.append("a tinfoadd %s %s" % (hx(rng.choice(NAMES)), hx(rng.choice(VALS))))
    if rng.random() < 0.12:
        k = rng.choice(st.keys)
        out.append("a misc %d %d %s" % (k[0], k[1], hx("m")))
    if rng.random() < 0.12:
        out.append("a dist %d %d %d" % (rng.choice([1, 2]), rng.choice([5, 6, 9, 10]), rng.randint(0, 3)))
    if rng.random() < 0.05:
        out.append("a disthet 1 2 %d %d" % (rng.choice([5, 6]), rng.randint(0, 3)))
    if rng.random() < 0.12:
        out.append("a mattr 2 0 1 0 %d" % rng.randint(1, 9))
    if rng.random() < 0.08:
        out.append("a cpukind 1 %d" % rng.randint(0, 3))
    if rng.random() < 0.08:
        out.append("a mattrreg %s %d" % (hx("Cust"), rng.choice([1, 2, 5])))
        out.append("a mattr 8 0 %s %d" % ("-100 0" if rng.random() < 0.5 else "1 0", rng.randint(1, 9)))
    if rng.random() < 0.05:
        out.append("a cpukindi 2 1 %s %s" % (hx("K"), hx("v")))
    return out


def repr_edit(rng, st):
    """an edit of B a diff can express"""
    k = rng.choice(st.keys)
    o = st.o[k]
    r = rng.random()
    if r < 0.35 and o["name"] is not None:
        return "b name %d %d %s" % (k[0], k[1], hx(rng.choice(ONAMES + ["other"])))
    if r < 0.7 and o["infos"]:
        j = rng.randrange(len(o["infos"]))
        return "b infoset %d %d %d %s" % (k[0], k[1], j, hx(rng.choice(VALS)))
    numas = [q for q in st.keys if st.o[q]["type"] == NUMA]
    if numas and r < 0.95:
        q = rng.choice(numas)
        return "b mem %d %d %d" % (q[0], q[1], rng.choice([0, 1, 4096, 12345, 2 ** 40, 2 ** 64 - 1, st.o[q]["lmem"] + 1]))
    return "b tinfoset 0 %s" % hx(rng.choice(VALS))


def nonrepr_edit(rng, st):
    """an edit of B a diff cannot express (or, for name unset/set, should not)"""
    k = rng.choice(st.keys)
    o = st.o[k]
    c = rng.choice(["infoadd", "infodel", "infoname", "misc", "restrict", "osindex", "subtype", "allowclr",
                    "nameunset", "nameset", "cachesize", "tinfoadd", "tinfodel", "cpukind", "dist", "mattr", "mattr2", "memraw",
                    "attrpoke", "tinfoname", "mattrreg", "mattrsame", "mattro", "distsub", "cpukindi", "allownodeclr"])
    if c == "attrpoke":
        cand = [q for q in st.keys if st.o[q]["type"] in (5, 6, 7, 8, 9, 10, 11, 12, 13, 15, 16, 17, 18)]   # every type that has attributes but NUMA
        if cand:
            q = rng.choice(cand)
            return "b attrpoke %d %d %d %d" % (q[0], q[1], rng.randint(0, 3), rng.randint(1, 255))
    if c == "tinfoname":
        return "b tinfoname %d %s" % (rng.randint(0, 3), hx("Renamed"))
    if c == "mattrreg":
        return "b mattrreg %s %d" % (hx("Extra"), rng.choice([1, 2, 5, 6]))
    if c == "mattrsame":
        return "b mattr 2 0 1 0 %d" % rng.randint(1000, 1009)
    if c == "mattro":
        return "b mattro 2 0 %d 0 %d" % (rng.choice([1, 2]), rng.randint(1, 9))
    if c == "distsub":
        return "b distsub 1 %d %d %d 2" % (rng.choice([5, 6, 9, 10]), rng.randint(0, 3), rng.randint(0, 1))
    if c == "cpukindi":
        return "b cpukindi %x %d %s %s" % (rng.choice([1, 2, 3]), rng.randint(0, 2), hx("K"), hx(rng.choice(VALS)))
    if c == "allownodeclr":
        return "b allownodeclr 0"
    if c == "infoadd":
        return "b infoadd %d %d %s %s" % (k[0], k[1], hx(rng.choice(NAMES)), hx(rng.choice(VALS)))
    if c == "infodel" and o["infos"]:
        return "b infodel %d %d %d" % (k[0], k[1], rng.randrange(len(o["infos"])))
    if c == "infoname" and o["infos"]:
        return "b infoname %d %d %d %s" % (k[0], k[1], rng.randrange(len(o["infos"])), hx("W"))
    if c == "misc":
        return "b misc %d %d %s" % (k[0], k[1], hx("mb"))
    if c == "restrict":
        return "b restrict %x" % rng.choice([1, 3, 5])
    if c == "osindex":
        return "b osindex %d %d %d" % (k[0], k[1], rng.randint(50, 60))
    if c == "subtype":
        return "b subtype %d %d %s" % (k[0], k[1], hx("sub"))
    if c == "allowclr":
        return "b allowclr 0"
    if c == "nameunset" and o["name"] is not None:
        return "b name %d %d -" % k
    if c == "nameset" and o["name"] is None:
        return "b name %d %d %s" % (k[0], k[1], hx("fresh"))
    if c == "cachesize":
        return "b cachesize %d %d %d" % (k[0], k[1], 4242)
    if c == "tinfoadd":
        return "b tinfoadd %s %s" % (hx("T"), hx("v"))
    if c == "tinfodel":
        return "b tinfodel 0"
    if c == "cpukind":
        return "b cpukind 1 2"
    if c == "dist":
        return "b dist 1 %d %d" % (rng.choice([5, 6, 9, 10]), rng.randint(0, 3))
    if c == "mattr":
        return "b mattr 2 0 1 1 %d" % rng.randint(1, 9)
    if c == "mattr2":
        return "b mattr 3 0 1 0 %d" % rng.randint(1, 9)
    if c == "memraw":
        numas = [q for q in st.keys if st.o[q]["type"] == NUMA]
        if numas:
            q = rng.choice(numas)
            return "b memraw %d %d %d" % (q[0], q[1], rng.randint(0, 99))
    return "b infoadd %d %d %s %s" % (k[0], k[1], hx("Q"), hx("q"))


def hand_list(rng, st0, nbl_guess):
    """a hand-built list: valid steps simulated on the tracked state (chains on
    one attribute likely), optionally a failing entry at a chosen position"""
    st = st0.copy()
    steps = []
    n = rng.randint(0, 5)
    last = None
    for _ in range(n):
        rich = [q for q in st.keys if st.o[q]["name"] is not None or st.o[q]["infos"] or st.o[q]["type"] == NUMA]
        k = last if (last is not None and rng.random() < 0.5) else rng.choice(rich if rich and rng.random() < 0.9 else st.keys)
        o = st.o[k]
        opts = []
        if o["name"] is not None:
            opts.append("name")
        if o["infos"]:
            opts.append("info")
        if o["type"] == NUMA:
            opts.append("size")
        if not opts:
            continue
        c = rng.choice(opts)
        last = k
        if c == "name":
            new = hx(rng.choice(ONAMES + ["q"]))
            steps.append(["a", k[0], k[1], "name", "-", o["name"], new])
            o["name"] = new
        elif c == "info":
            j = rng.randrange(len(o["infos"]))
            nm, old = o["infos"][j]
            # the library patches the FIRST pair with this name and value
            j = [q for q, p in enumerate(o["infos"]) if p == (nm, old)][0]
            new = hx(rng.choice(VALS))
            steps.append(["a", k[0], k[1], "info", nm, old, new])
            o["infos"][j] = (nm, new)
        else:
            new = rng.choice([0, 5, 2 ** 33, 2 ** 64 - 1, o["lmem"] + 7])
            if new >= 2 ** 64:
                new = 3
            steps.append(["a", k[0], k[1], "size", 0, o["lmem"], new])
            o["lmem"] = new
    bad = None
    if rng.random() < 0.75:
        k = rng.choice(st.keys)
        withinfos = [q for q in st.keys if st.o[q]["infos"]]
        if withinfos and rng.random() < 0.35:
            # existing info name, wrong old value
            k = rng.choice(withinfos)
            nm = rng.choice(st.o[k]["infos"])[0]
            wrong = [["a", k[0], k[1], "info", nm, hx("WRONG-OLD"), hx("b")]]
        else:
            wrong = []
        bad = rng.choice(wrong or [
            ["a", k[0], k[1], "info", hx("nope"), hx("a"), hx("b")],
            ["a", k[0], k[1], "name", "-", hx("not-the-name"), hx("z")],
            ["a", k[0], 9999, "name", "-", hx("a"), hx("z")],
            ["a", 77, 0, "size", 0, 1, 2],
            ["a", k[0], k[1], "size", 0, 987654321, 2],
            ["a", nbl_guess, 0, "info", hx("nope"), hx("a"), hx("b")],
            ["tc", k[0], k[1]],
            ["other", 7],
            ["a", k[0], k[1], "other", 9],
        ])
        pos = rng.randint(0, len(steps))
        steps = steps[:pos] + [bad] + steps[pos:]
    flags = rng.choice([0, 0, 0, 0, 0, 0, 1, 1, 2, 3])
    if flags & 1:
        for s in steps:
            if s[0] == "a" and s[3] in ("name", "info", "size"):
                s[5], s[6] = s[6], s[5]
        # the simulated chain must be walked backwards for a reverse application to succeed
    lines = ["hand %d %d" % (flags, len(steps))] + ["D " + " ".join(str(x) for x in s) for s in steps]
    return lines


# pairs of independently loaded topologies: different shapes at the same position
TOPO_PAIRS = [
    ("pack:1 [numa] pu:2", "pack:1 [numa(memorysidecachesize=1MB)] pu:2"),
    ("pack:1 core:1 pu:2", "pack:1 pu:2"),
    ("pack:1 [numa] core:2 [numa] pu:1", "pack:1 [numa] [numa] [numa] core:2 pu:1"),
    ("pack:2 pu:2", "pack:2 pu:2"),
    ("pack:2 pu:2", "numa:2 pu:2"),
    ("pack:2 l2:1 pu:2", "pack:2 l2:1(size=12345) pu:2"),
    ("pack:2 [numa(memorysidecachesize=1MB)] pu:2", "pack:2 [numa(memorysidecachesize=2MB)] pu:2"),
    ("group:2 pu:2", "pack:2 pu:2"),
    ("pack:2 pu:2", "pack:2 pu:3"),
    ("numa:2(memory=1000) pu:2", "numa:2(memory=2000) pu:2"),
]


def rand_refname(rng):
    r = rng.random()
    if r < 0.4:
        return []                                   # harness default
    return ["refname " + rng.choice(["-", "s", hx(" "), hx("base.xml"), hx("dir/with space/t.xml")] + [hx(v) for v in RICH])]


def gen_case(rng, name, topo, objs, nbl_guess, kind):
    st = State(objs)
    lines = ["case " + name, "xmlbackend %d %d" % (rng.randint(0, 1), rng.randint(0, 1))] + rand_refname(rng) + [topo]
    lines += setup_edits(rng, st, rich=True)
    if kind in ("pair", "both") and rng.random() < 0.06:
        ta, tb = rng.choice(TOPO_PAIRS)
        if rng.random() < 0.5:
            ta, tb = tb, ta
        return ["case " + name, "xmlbackend %d" % rng.randint(0, 1), "topo synthetic " + ta, "topob synthetic " + tb, "build", "end"]
    if kind in ("pair", "both"):
        nb = rng.randint(0, 5)
        p_non = rng.choice([0.0, 0.0, 0.3, 1.0])
        for _ in range(nb):
            lines.append(nonrepr_edit(rng, st) if rng.random() < p_non else repr_edit(rng, st))
        lines.append("build")
    if kind in ("hand", "both"):
        for _ in range(rng.randint(1, 3)):
            lines += hand_list(rng, st, nbl_guess)
    lines.append("end")
    return lines


def shrink(lines, still_fails):
    """greedy removal of edit lines / hand blocks while the same violation key persists"""
    cur = list(lines)
    changed = True
    while changed:
        changed = False
        i = 0
        while i < len(cur):
            l = cur[i]
            cand = None
            if l.startswith("a ") or l.startswith("b "):
                cand = cur[:i] + cur[i + 1:]
            elif l.startswith("hand "):
                n = int(l.split()[2])
                cand = cur[:i] + cur[i + 1 + n:]
            elif l == "build":
                cand = cur[:i] + cur[i + 1:]
            if cand is not None and still_fails(cand):
                cur = cand
                changed = True
            else:
                i += 1
    return cur


# ---- XML round trip of diff lists: sizes across the built-in exporter's 16384-byte first-pass buffer ----
XML_TOPO = "topo synthetic pack:2 pu:2"


def xml_probe():
    """one INFO entry with a 100-character value: its exported length calibrates the tuned cases"""
    return ["case xmlprobe", "xmlbackend 0 0", XML_TOPO, "xmlhand 1", "D a 1 0 info s58 s61 @100", "end"]


def _mixed_entries(rng, n):
    out = []
    for k in range(n):
        c = k % 3
        if c == 0:
            out.append("D a -3 %d size 0 %d %d" % (k, rng.randint(0, 2 ** 40), rng.randint(0, 2 ** 63)))
        elif c == 1:
            out.append("D a 1 %d name - %s %s" % (k, hx("n%d" % k), hx("new <%d> & \"q\"" % k)))
        else:
            out.append("D a 2 %d info %s %s %s" % (k, hx("Key%d" % (k % 7)), hx("v%d" % k), hx("w'%d" % k)))
    return out


def xml_cases(rng, base, tier):
    cases = []
    combos = [(0, 0), (0, 1), (1, 0), (1, 1)]
    counts_full = [1, 2, 3, 10, 50, 100, 110, 115, 118, 119, 120, 121, 122, 123, 124, 125, 126, 127, 128, 129, 130, 140,
                   150, 200, 300, 400]
    if tier == "thorough":
        counts_full = list(range(1, 401))
    for e, i in combos:
        counts = counts_full if e == 0 else [1, 100, 128, 400]
        if e == 0 and i == 1 and tier != "thorough":
            counts = [1, 100, 120, 125, 128, 200, 400]
        for n in counts:
            cases.append(["case xml-e%d-i%d-n%d" % (e, i, n), "xmlbackend %d %d" % (e, i), XML_TOPO, "xmlhand %d" % n] +
                         _mixed_entries(rng, n) + ["end"])
        # exported length (including the final NUL) right around 16384, the next power of two, and well beyond
        if base is not None:
            for target in [16000, 16382, 16383, 16384, 16385, 16386, 17000, 32767, 32768, 32769, 40000, 100000]:
                L = target - base
                if L > 0:
                    cases.append(["case xml-e%d-i%d-len%d" % (e, i, target), "xmlbackend %d %d" % (e, i), XML_TOPO,
                                  "xmlhand 1", "D a 1 0 info s58 s61 @%d" % L, "end"])
        # long names and values with characters the exporter escapes, two long entries
        for ln, lv in [(300, 5000), (2000, 16000), (9000, 9000)]:
            cases.append(["case xml-e%d-i%d-esc%d-%d" % (e, i, ln, lv), "xmlbackend %d %d" % (e, i), XML_TOPO, "xmlhand 2",
                          "D a 1 0 info @%d:e @%d:e @%d" % (ln, lv, lv), "D a 1 1 name - @%d @%d:e" % (lv, ln), "end"])
    return cases


# ---- documents for the diff importer: (name, document, expected rc, expected number of entries) ----
_HDR = '<?xml version="1.0" encoding="UTF-8"?>\n<!DOCTYPE topologydiff SYSTEM "hwloc2-diff.dtd">\n'
_E_NAME = ' <diff type="0" obj_depth="1" obj_index="0" obj_attr_type="1" obj_attr_oldvalue="a" obj_attr_newvalue="b"/>\n'
_E_INFO = ' <diff type="0" obj_depth="1" obj_index="0" obj_attr_type="2" obj_attr_name="K" obj_attr_oldvalue="a" obj_attr_newvalue="b"/>\n'
_E_SIZE = ' <diff type="0" obj_depth="-3" obj_index="1" obj_attr_type="0" obj_attr_index="0" obj_attr_oldvalue="0x10" obj_attr_newvalue="18446744073709551615"/>\n'


def _doc(body, root='<topologydiff refname="r&amp;1">\n', close="</topologydiff>\n", hdr=_HDR):
    return hdr + root + body + close


def xml_documents():
    """what the importer does with well-formed and malformed diff documents (hwloc__xml_import_diff_one:
    an unknown attribute or tag rejects the document, an entry lacking a mandatory attribute or of another
    type is skipped)"""
    return [
        ("valid3", _doc(_E_NAME + _E_INFO + _E_SIZE), 0, 3),
        ("norefname", _doc(_E_NAME, root="<topologydiff>\n"), 0, 1),
        ("empty-list", _doc(""), 0, 0),
        ("unknown-attr", _doc(' <diff type="0" obj_depth="1" obj_index="0" obj_attr_type="1" bogus="1" obj_attr_oldvalue="a" obj_attr_newvalue="b"/>\n'), -1, 0),
        ("missing-depth", _doc(' <diff type="0" obj_index="0" obj_attr_type="1" obj_attr_oldvalue="a" obj_attr_newvalue="b"/>\n' + _E_NAME), 0, 1),
        ("missing-newvalue", _doc(' <diff type="0" obj_depth="1" obj_index="0" obj_attr_type="1" obj_attr_oldvalue="a"/>\n' + _E_NAME), 0, 1),
        ("info-without-name", _doc(' <diff type="0" obj_depth="1" obj_index="0" obj_attr_type="2" obj_attr_oldvalue="a" obj_attr_newvalue="b"/>\n' + _E_INFO), 0, 1),
        ("toocomplex-entry", _doc(' <diff type="1" obj_depth="1" obj_index="0"/>\n' + _E_NAME), 0, 1),
        ("other-type", _doc(' <diff type="7"/>\n' + _E_NAME), 0, 1),
        ("no-type", _doc(' <diff obj_depth="1"/>\n' + _E_NAME), 0, 1),
        ("unknown-tag", _doc(_E_NAME + " <other/>\n"), -1, 0),
        ("wrong-root", _doc(_E_NAME, root='<topology version="2.0">\n', close="</topology>\n"), -1, 0),
        ("wrong-doctype", _doc(_E_NAME, hdr='<?xml version="1.0" encoding="UTF-8"?>\n<!DOCTYPE topology SYSTEM "hwloc2.dtd">\n'), None, None),
        ("no-doctype", _doc(_E_NAME, hdr='<?xml version="1.0" encoding="UTF-8"?>\n'), None, None),
        ("truncated", _doc(_E_NAME + _E_INFO)[:-30], -1, 0),
        ("unterminated-tag", _HDR + '<topologydiff refname="r"', -1, 0),
        ("not-xml", "hello", -1, 0),
        ("empty", "", -1, 0),
        ("nested-child", _doc(' <diff type="0" obj_depth="1" obj_index="0" obj_attr_type="1" obj_attr_oldvalue="a" obj_attr_newvalue="b"><x/></diff>\n'), None, None),
        ("text-content", _doc(" <diff type=\"0\" obj_depth=\"1\" obj_index=\"0\" obj_attr_type=\"1\" obj_attr_oldvalue=\"a\" obj_attr_newvalue=\"b\">text</diff>\n"), None, None),
        ("escapes", _doc(' <diff type="0" obj_depth="1" obj_index="0" obj_attr_type="1" obj_attr_oldvalue="&lt;&amp;&quot;&gt;&#10;&#9;" obj_attr_newvalue="x y"/>\n'), 0, 1),
        ("empty-value", _doc(' <diff type="0" obj_depth="1" obj_index="0" obj_attr_type="1" obj_attr_oldvalue="a" obj_attr_newvalue=""/>\n'), 0, 1),
        ("special-depth", _doc(' <diff type="0" obj_depth="-7" obj_index="5" obj_attr_type="2" obj_attr_name="N" obj_attr_oldvalue="a" obj_attr_newvalue="b"/>\n'), 0, 1),
        # an entry with an unknown obj_attr_type is accepted by the importer (apply rejects it); it does not survive a re-export
        ("unknown-attr-type", _doc(' <diff type="0" obj_depth="1" obj_index="0" obj_attr_type="9" obj_attr_oldvalue="a" obj_attr_newvalue="b"/>\n'), 0, None),
    ]


def xmlload_cases():
    cases = []
    for imp in (0, 1):
        for name, doc, rc, n in xml_documents():
            cases.append(["case xmlload-i%d-%s" % (imp, name), "xmlbackend %d %d" % (imp, imp)] + (["xmlverbose"] if name.startswith(("unknown", "missing", "info-without", "wrong", "no-doctype")) else []) + [XML_TOPO,
                          "xmlload %d s%s" % (len(doc), doc.encode().hex()), "end"])
    return cases


# ---- shape differences: one child list of B (normal, memory, I/O, Misc) lacks k trailing children or one in the
# middle; the harness also runs diff_build(B, A), so both "A longer" and "B longer" are exercised by every case ----
SHAPE_SYNTH = ["pack:4 pu:4", "pack:1 [numa] [numa] [numa] [numa] pu:2", "pack:2 l2:3 pu:1"]
SHAPE_XML = ["tests/hwloc/xml/32em64t-2n8c2t-pci-normalio.xml", "tests/hwloc/xml/24em64t-2n6c2t-pci.xml",
             "tests/hwloc/xml/16-2gr2gr2n2c+misc.xml", "tests/hwloc/xml/64intel64-fakeKNL-SNC4-hybrid.xml"]
# (type, name) pairs filtered KEEP_NONE on one side only
FILTER_TYPES = [(18, "osdev"), (17, "pci"), (16, "bridge"), (19, "misc"), (15, "memcache")]


def shape_topos(repo):
    res = ["topo synthetic " + s for s in SHAPE_SYNTH]
    for x in SHAPE_XML:
        p = os.path.join(repo, x)
        if os.path.exists(p):
            res.append("topo xml " + p)
    return res


def shape_cases(rng, topos, tables, tier):
    cases = []
    per_kind = 2 if tier == "quick" else 6
    for ti, t in enumerate(topos):
        objs = tables.get("probe%d" % ti) or []
        for kind in range(4):
            parents = [o for o in objs if o["kids"][kind] >= 1]
            if kind == 3 and not parents:
                # no Misc object in this topology: insert four under one object first
                if objs:
                    o = rng.choice(objs[:8])
                    pre = ["a misc %d %d %s" % (o["depth"], o["idx"], hx("m%d" % j)) for j in range(4)]
                    for k in (1, 2, 3):
                        cases.append(["case shape-t%d-misc-ins-cut%d" % (ti, k), "xmlbackend 1", t] + pre +
                                     ["b cut %d %d 3 %d" % (o["depth"], o["idx"], k), "build", "end"])
                    cases.append(["case shape-t%d-misc-ins-mid" % ti, "xmlbackend 1", t] + pre +
                                 ["b cutmid %d %d 3 1" % (o["depth"], o["idx"]), "build", "end"])
                    cases.append(["case shape-t%d-misc-ins-add" % ti, "xmlbackend 1", t] + pre +
                                 ["b misc %d %d %s" % (o["depth"], o["idx"], hx("extra")), "build", "end"])
                continue
            parents.sort(key=lambda o: -o["kids"][kind])
            picked = parents[:per_kind]
            for o in picked:
                cnt = o["kids"][kind]
                for k in (1, 2, 3):
                    if k <= cnt:
                        cases.append(["case shape-t%d-k%d-%d.%d-cut%d" % (ti, kind, o["depth"], o["idx"], k), "xmlbackend 1", t,
                                      "b cut %d %d %d %d" % (o["depth"], o["idx"], kind, k), "build", "end"])
                if cnt >= 2:
                    for pos in sorted(set([0, cnt // 2 if cnt // 2 < cnt - 1 else 0])):
                        cases.append(["case shape-t%d-k%d-%d.%d-mid%d" % (ti, kind, o["depth"], o["idx"], pos), "xmlbackend 1", t,
                                      "b cutmid %d %d %d %d" % (o["depth"], o["idx"], kind, pos), "build", "end"])
    return cases


def filter_cases(repo):
    """the same XML loaded with one type filtered out on one side only, both ways round"""
    cases = []
    for x in SHAPE_XML:
        p = os.path.join(repo, x)
        if not os.path.exists(p):
            continue
        base = os.path.basename(x)[:12]
        for ty, nm in FILTER_TYPES:
            cases.append(["case filt-%s-%s-inB" % (base, nm), "xmlbackend 1", "topo f%d=1 xml %s" % (ty, p), "topob xml " + p, "build", "end"])
            cases.append(["case filt-%s-%s-inA" % (base, nm), "xmlbackend 1", "topo xml " + p, "topob f%d=1 xml %s" % (ty, p), "build", "end"])
    return cases


# ---- every byte class through build -> export -> load -> apply, and as a hand-made list, 2 x 2 backends ----
def bytes_cases():
    cases = []
    for e in (0, 1):
        for i in (0, 1):
            for k, v in BYTE_CLASSES.items():
                h = hx(v)
                nm = h if v else hx("K")
                cases.append(["case bytes-e%d-i%d-%s-list" % (e, i, k), "xmlbackend %d %d" % (e, i), XML_TOPO, "xmlhand 3",
                              "D a 1 0 name - %s %s" % (hx("old"), h), "D a 1 1 name - %s %s" % (h, hx("new")),
                              "D a 1 0 info %s %s %s" % (nm, h, hx("v")), "end"])
                cases.append(["case bytes-e%d-i%d-%s-build" % (e, i, k), "xmlbackend %d %d" % (e, i), XML_TOPO,
                              "a name 1 0 %s" % hx("old"), "a name 1 1 %s" % h, "a infoadd 1 0 %s %s" % (nm, h),
                              "a infoadd 2 0 %s %s" % (hx("J"), hx("w")),
                              "b name 1 0 %s" % h, "b name 1 1 %s" % hx("new"), "b infoset 1 0 0 %s" % hx("v"),
                              "b infoset 2 0 0 %s" % h, "build", "end"])
    return cases


# ---- refnames: NULL, empty, blank, file names, every byte class, very long; empty and non-empty lists; 2 x 2 backends ----
def refname_cases(base):
    refs = [("null", "-"), ("empty", "s"), ("blank", hx(" ")), ("file", hx("reference-topology.xml")), ("path", hx("/some dir/a&b<c>.xml"))]
    refs += [("b-" + k, hx(v)) for k, v in BYTE_CLASSES.items() if v]
    refs += [("long%d" % n, "@%d" % n) for n in (255, 256, 4096, 20000)]
    refs += [("longesc", "@9000:e")]
    if base is not None:
        # the document itself at 16383..16385 bytes by the refname alone (empty list: base counts one entry with a 100-char value)
        refs += [("tuned%d" % t, "@%d" % max(1, t - base + 150)) for t in (16384, 32768)]
    cases = []
    for e in (0, 1):
        for i in (0, 1):
            for nm, tok in refs:
                for n, entries in ((0, []), (2, ["D a 1 0 name - %s %s" % (hx("a"), hx("b")), "D a -3 0 size 0 1 2"])):
                    cases.append(["case ref-e%d-i%d-%s-n%d" % (e, i, nm, n), "xmlbackend %d %d" % (e, i), "refname " + tok, XML_TOPO,
                                  "xmlhand %d" % n] + entries + ["end"])
    return cases


# ---- non-identity numbering: os_index != logical_index on NUMA / PU / Core / Package levels (shuffled synthetic
# indexes, sparse XML ids, after a restrict that dropped the lower-numbered nodes): every NUMA node's memory edited ----
INDEX_TOPOS = [
    (["topo synthetic pack:2 numa:2(indexes=3,1,2,0) pu:2"], 4),
    (["topo synthetic numa:3(indexes=2,0,1) core:2(indexes=3,1,5,0,4,2) pu:2(indexes=numa:core)"], 3),
    (["topo synthetic pack:2(indexes=5,2) [numa(indexes=7,4)] core:2 pu:1(indexes=3,0,2,1)"], 2),
    (["topo synthetic numa:4 pu:2", "a restrict fc 1"], 3),
    (["topo synthetic pack:3 numa:1 core:2 pu:1", "a restrict 3c 1"], 2),
]


def index_cases(rng):
    cases = []
    for ti, (topo, nnuma) in enumerate(INDEX_TOPOS):
        for n in range(nnuma):
            cases.append(["case index-t%d-numa%d" % (ti, n), "xmlbackend %d" % (n & 1)] + topo +
                         ["b mem -3 %d %d" % (n, 1000 + n), "build", "end"])
        cases.append(["case index-t%d-all" % ti, "xmlbackend 1"] + topo +
                     ["b mem -3 %d %d" % (n, 5000 + 7 * n) for n in range(nnuma)] +
                     ["a name 1 0 %s" % hx("p"), "b name 1 0 %s" % hx("q"), "a infoadd 1 1 %s %s" % (hx("K"), hx("v")),
                      "b infoset 1 1 0 %s" % hx("w"), "build",
                      "hand 0 2", "D a -3 %d size 0 1073741824 9" % (nnuma - 1), "D a -3 0 size 0 1073741824 8", "end"])
    return cases
