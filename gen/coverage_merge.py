#!/usr/bin/env python3
"""merges the .gcov files of the instrumented library flavours (asan/plain/tsan) into build/coverage/"""
import glob, os, re, collections
V = "/verif"
files = collections.defaultdict(dict)   # source -> line -> [count or None, text]
for g in glob.glob(V + "/build/lib-*cov-*/*.c.gcov"):
    src = os.path.basename(g)[:-5]
    for l in open(g, errors="replace"):
        m = re.match(r"\s*([^:]+):\s*(\d+):(.*)", l)
        if not m:
            continue
        c, n, txt = m.group(1).strip(), int(m.group(2)), m.group(3)
        if n == 0:
            continue
        c = c.rstrip("*")
        val = None if c == "-" else (0 if c in ("#####", "=====") else int(c))
        cur = files[src].get(n)
        if cur is None:
            files[src][n] = [val, txt]
        elif val is not None:
            cur[0] = (cur[0] or 0) + val
os.makedirs(V + "/build/coverage", exist_ok=True)
summ = []
for src, lines in sorted(files.items()):
    with open(V + "/build/coverage/%s.gcov" % src, "w") as f:
        for n in sorted(lines):
            c, t = lines[n]
            f.write("%9s:%5d:%s\n" % ("-" if c is None else ("#####" if c == 0 else c), n, t))
    # per function: a function starts at a line matching ^name( at column 0 following a type line; use a simple heuristic
    fn, stats = None, collections.OrderedDict()
    for n in sorted(lines):
        c, t = lines[n]
        m = re.match(r"^(?:[A-Za-z_][\w\s\*]*?[\s\*])?([A-Za-z_]\w*)\s*\(", t)
        if m and not t.rstrip().endswith(";") and m.group(1) not in ("if", "for", "while", "switch", "return", "sizeof", "defined", "__hwloc_attribute_unused") \
           and not t.startswith(("typedef", "#", "struct ", "union ", "enum ")):
            fn = m.group(1)
            stats[fn] = [0, 0, []]
        if fn and c is not None:
            stats[fn][1] += 1
            if c > 0:
                stats[fn][0] += 1
            else:
                stats[fn][2].append(n)
    tot = sum(s[1] for s in stats.values()); ex = sum(s[0] for s in stats.values())
    summ.append("== %s: %d/%d lines executed (%.1f%%)" % (src, ex, tot, 100.0 * ex / max(tot, 1)))
    for fn, (e, t, miss) in stats.items():
        if miss:
            rng, a = [], None
            for n in miss:      # compress into ranges
                if a is not None and n == b + 1:
                    b = n
                else:
                    if a is not None:
                        rng.append("%d-%d" % (a, b) if b > a else str(a))
                    a = b = n
            rng.append("%d-%d" % (a, b) if b > a else str(a))
            summ.append("   %-55s %3d/%3d  missing: %s" % (fn, e, t, " ".join(rng)))
open(V + "/build/coverage/SUMMARY.txt", "w").write("\n".join(summ) + "\n")
print("\n".join(l for l in summ if l.startswith("==")))
