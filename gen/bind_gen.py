"""C10 generators: topology configurations, sets relative to a loaded topology,
flag words, policies, hook-presence masks, scripted hook / kernel behaviour.
Also the finite/cofinite set arithmetic the spec evaluator of checks/c10.py
uses on the C transcript (python3 stdlib only)."""
import os
import re


# --------------------------------------------------------------------------
# sets in the dump format "<inf>:<hex>" (bits above the hex digits follow inf)
class BS:
    __slots__ = ("inf", "fin")

    def __init__(self, inf, fin):
        self.inf, self.fin = bool(inf), fin      # member(i) = bit(fin, i) xor inf

    @staticmethod
    def parse(txt):
        inf = txt[0] == "1"
        h = txt[2:]
        bits = int(h, 16) if h else 0
        if inf:
            bits = ~bits & ((1 << (4 * len(h))) - 1)
        return BS(inf, bits)

    @staticmethod
    def of_bits(bits):
        return BS(False, bits)

    def text(self):
        nb = self.fin.bit_length()
        nwords = max(1, (nb + 63) // 64)
        v = self.fin
        if self.inf:
            v = ~v & ((1 << (64 * nwords)) - 1)
        return "%d:%0*x" % (1 if self.inf else 0, 16 * nwords, v)

    def mem(self, i):
        return bool((self.fin >> i) & 1) != self.inf

    def is_empty(self):
        return not self.inf and self.fin == 0

    def _real(self, w):
        m = (1 << w) - 1
        return (~self.fin & m) if self.inf else (self.fin & m)

    def subset(self, o):
        w = max(self.fin.bit_length(), o.fin.bit_length()) + 1
        if self.inf and not o.inf:
            return False
        return (self._real(w) & ~o._real(w) & ((1 << w) - 1)) == 0

    def eq(self, o):
        return self.inf == o.inf and self.fin == o.fin

    def union(self, o):
        w = max(self.fin.bit_length(), o.fin.bit_length()) + 1
        r = self._real(w) | o._real(w)
        inf = self.inf or o.inf
        return BS(inf, (~r & ((1 << w) - 1)) if inf else r)

    def inter(self, o):
        w = max(self.fin.bit_length(), o.fin.bit_length()) + 1
        r = self._real(w) & o._real(w)
        inf = self.inf and o.inf
        return BS(inf, (~r & ((1 << w) - 1)) if inf else r)

    def intersects(self, o):
        return not self.inter(o).is_empty()

    def __repr__(self):
        return self.text()


EMPTY = BS(False, 0)
FULL = BS(True, 0)

CPUBIND_ALL = 1 | 2 | 4 | 8
MEMBIND_ALL = 1 | 2 | 4 | 8 | 16 | 32
BYNODESET, MIGRATE, STRICT = 32, 8, 4
POLICIES_OK = (0, 1, 2, 3, 4, 5)


class Topo:
    def __init__(self, info_line):
        kv = dict(f.split("=", 1) for f in info_line.split()[1:])
        self.cs, self.ccs = BS.parse(kv["cs"]), BS.parse(kv["ccs"])
        self.ns, self.cns = BS.parse(kv["ns"]), BS.parse(kv["cns"])
        self.this = kv["this"] == "1"
        self.hooks = int(kv["hooks"], 16)
        self.nodes = []
        for e in kv.get("nodes", "").split(";"):
            if e:
                i, s = e.split("/")
                self.nodes.append((int(i), BS.parse(s)))

    def to_nodeset(self, c):
        r = 0
        for i, s in self.nodes:
            if c.intersects(s):
                r |= 1 << i
        return BS(False, r)

    def from_nodeset(self, ns):
        r = EMPTY
        for i, s in self.nodes:
            if ns.mem(i):
                r = r.union(s)
        return r


# --------------------------------------------------------------------------
def topo_configs(repo, rng, tier):
    """(name, config lines, kind, flag_is_thissystem, env_thissystem)"""
    xmld = os.path.join(repo, "tests/hwloc/xml")
    xmls = ["16amd64-8n2c-cpusets.xml", "16em64t-4s2c2t-offlines.xml", "8intel64-4n2t-memattrs.xml", "192em64t-24n8c2t.xml"]
    if tier == "thorough":
        xmls += ["64intel64-fakeKNL-SNC4-hybrid.xml", "16-2gr2gr2n2c+misc.xml", "96em64t-4n4d3ca2co-pci.xml"]
    syn = ["pack:2 [numa] core:2 pu:2", "pu:1", "numa:6 pu:2", "pack:3 core:2 pu:1", "[numa] [numa] pack:2 pu:3",
           "group:2 numa:2 l2:2 pu:20"]
    if tier == "thorough":
        syn += ["numa:9 core:4 pu:2", "pack:1 pu:65", "pack:2 [numa] [numa] core:2 pu:4"]
    cfgs = []
    for s in syn:
        cfgs.append(("syn:" + s, ["src synthetic " + s], "synthetic", False, None))
        cfgs.append(("syn+this:" + s, ["src synthetic " + s, "flags 2"], "synthetic", True, None))
    # CPU-less NUMA nodes: hwloc_topology_restrict() without REMOVE_CPULESS keeps the nodes that lost their CPUs
    # (under a Package, under a Group that only holds memory, behind a memory-side cache, beside a root-attached node),
    # plus hand-written XML with a root-attached node and an offline PU; each also as "this system"
    cpuless = [("cpuless-pack", ["src synthetic pack:2 [numa] pu:2"], "0:3"),
               ("cpuless-group", ["src synthetic group:2 [numa] pu:2"], "0:3"),
               ("cpuless-memcache", ["src synthetic pack:2 [numa(memorysidecachesize=1048576)] pu:2"], "0:3"),
               ("cpuless-rootnode", ["src synthetic [numa] pack:2 [numa] pu:2"], "0:c"),
               ("cpuless-3of4", ["src synthetic numa:4 pu:2"], "0:0c")]
    x8 = os.path.join(xmld, "16amd64-8n2c-cpusets.xml")
    if os.path.exists(x8):
        cpuless.append(("cpuless-disallowed-xml", ["src xml " + x8], "0:0060"))
    for nm, lines, rs in cpuless:
        kind = "xml" if lines[0].startswith("src xml") else "synthetic"
        cfgs.append((nm, lines + ["post restrict %s 0" % rs], kind, False, None))
        cfgs.append((nm + "+this", lines + ["flags 2", "post restrict %s 0" % rs], kind, True, None))
    verif = os.path.dirname(os.path.dirname(os.path.abspath(__file__)))
    for x in ("cpuless-root.xml", "cpuless-root-offline.xml"):
        p = os.path.join(verif, "corpus", "c10", x)
        cfgs.append(("xml:" + x, ["src xml " + p], "xml", False, None))
        cfgs.append(("xml+this:" + x, ["src xml " + p, "flags 2"], "xml", True, None))
    cfgs.append(("syn+env1", ["env HWLOC_THISSYSTEM 1", "src synthetic numa:2 pu:3"], "synthetic", False, 1))
    cfgs.append(("syn+this+env0", ["env HWLOC_THISSYSTEM 0", "src synthetic numa:2 pu:3", "flags 2"], "synthetic", True, 0))
    for x in xmls:
        p = os.path.join(xmld, x)
        if os.path.exists(p):
            cfgs.append(("xml:" + x, ["src xml " + p], "xml", False, None))
            cfgs.append(("xml+this:" + x, ["src xml " + p, "flags 2"], "xml", True, None))
    envx = os.path.join(xmld, "16em64t-4s2c2t-offlines.xml")
    if os.path.exists(envx):
        # backend forced through the environment (envvar_forced): the IS_THISSYSTEM flag does not override it
        cfgs.append(("envxml", ["env HWLOC_XMLFILE " + envx, "src native"], "envxml", False, None))
        cfgs.append(("envxml+this", ["env HWLOC_XMLFILE " + envx, "src native", "flags 2"], "envxml", True, None))
        cfgs.append(("envxml+env1", ["env HWLOC_XMLFILE " + envx, "env HWLOC_THISSYSTEM 1", "src native"], "envxml", False, 1))
    cfgs.append(("native", ["src native"], "native", False, None))
    cfgs.append(("native+env0", ["env HWLOC_THISSYSTEM 0", "src native"], "native", False, 0))
    return cfgs


def cfg_line(name, kind, flag, env):
    """the '#cfg' script line: what hwloc_backends_is_thissystem will see at the next load"""
    return "#cfg %s %d %d %d %s" % (name.replace(" ", "_"), 1 if kind in ("synthetic", "xml") else 0, 1 if flag else 0,
                                    1 if kind == "envxml" else 0, "-" if env is None else str(env))


def expected_thissystem_cfg(nonthis_normal, flag, nonthis_env, env):
    """spec, from the LAST load's configuration only"""
    it = not nonthis_normal
    if flag:
        it = True
    if nonthis_env:
        it = False
    if env is not None:
        it = env != 0
    return it


def failing_configs(verif):
    """configurations whose hwloc_topology_load FAILS (well-formed XML with an object of unknown type)"""
    bad = os.path.join(verif, "corpus", "c10", "bad-unknown-type.xml")
    return [("fail:xml", ["src xml " + bad, "flags 0"], "xml", False, None),
            ("fail:xml+this", ["src xml " + bad, "flags 2"], "xml", True, None),
            ("fail:xml+env0", ["env HWLOC_THISSYSTEM 0", "src xml " + bad, "flags 0"], "xml", False, 0),
            ("fail:xml+env1", ["env HWLOC_THISSYSTEM 1", "src xml " + bad, "flags 0"], "xml", False, 1)]


def expected_thissystem(kind, flag, env):
    it = kind == "native"
    if flag:
        it = True
    if env is not None:
        it = env != 0
    return it


def gen_sets(rng, complete, topo_set, n):
    """sets around a (complete, topology) pair: every class the property names"""
    cb = complete.fin if not complete.inf else 0
    tb = topo_set.fin if not topo_set.inf else 0
    top = max(cb.bit_length(), 1)
    members = [i for i in range(top) if (cb >> i) & 1]
    outside = [i for i in range(top + 2) if not (cb >> i) & 1]
    res = [EMPTY, FULL, complete, topo_set, BS(True, cb), BS(True, (1 << 70) - 1), BS(False, 1 << 4000),
           BS(False, cb | (1 << (top + 1))), BS(False, 1 << 63), BS(False, 1 << 64), BS(False, (1 << 65) - 1)]
    if members:
        res.append(BS(False, 1 << members[0]))
        res.append(BS(False, 1 << members[-1]))
        res.append(BS(False, tb & ~(1 << members[0])))
        extra = cb & ~tb
        if extra:
            res.append(BS(False, tb | (extra & -extra)))          # covers the topology, inside complete
            res.append(BS(False, extra))                            # only disallowed/offline members
    if outside:
        res.append(BS(False, 1 << outside[0]))
        res.append(BS(False, tb | (1 << outside[0])))
    while len(res) < n:
        k = rng.random()
        if k < 0.7 and members:
            m = 0
            for i in rng.sample(members, rng.randint(1, len(members))):
                m |= 1 << i
            res.append(BS(False, m))
        elif k < 0.85:
            res.append(BS(False, rng.getrandbits(top + 3)))
        else:
            res.append(BS(True, rng.getrandbits(top + 3)))
    return res


def gen_flags(rng, allmask, n):
    res = [0, 1, 2, 3, 4, 8, allmask, allmask + 1, 0xffffffff, 0x80000000] + [1 << b for b in range(32)]
    while len(res) < n:
        if rng.random() < 0.75:
            res.append(rng.getrandbits(6) & allmask)
        else:
            res.append(rng.getrandbits(32))
    return res


def gen_policies(rng, n):
    res = [0, 1, 2, 3, 4, 5, -1, 6, 7, 99, -2, 2147483647, -2147483648]
    while len(res) < n:
        res.append(rng.choice(POLICIES_OK) if rng.random() < 0.8 else rng.randint(-4, 12))
    return res


ERRS = ["ENOSYS", "EXDEV", "EPERM", "EINVAL", "0", "keep"]


def gen_calls(rng, T, n, modes="all"):
    """API call lines for a topology whose sets are known"""
    cpusets = gen_sets(rng, T.ccs, T.cs, 40)
    nodesets = gen_sets(rng, T.cns, T.ns, 40)
    cfl = gen_flags(rng, CPUBIND_ALL, 64)
    mfl = gen_flags(rng, MEMBIND_ALL, 80)
    pols = gen_policies(rng, 24)
    calls = []

    def mset(f):
        return rng.choice(nodesets if f & BYNODESET else cpusets).text()

    for _ in range(n):
        k = rng.randrange(16)
        valid = rng.random() < 0.6
        f = rng.choice(cfl[:7] if valid else cfl)
        g = rng.choice([0, 1, 2, 4, 8, 16, 32, 33, 34, 36, 40, 44, 63, 32 + 16] if valid else mfl)
        p = rng.choice(POLICIES_OK if valid else pols)
        ln = rng.choice([0, 1, 4096, 4097, 8192, 65536])
        who = rng.choice(["0", "self"])
        cs = rng.choice(cpusets).text()
        if k == 0: calls.append("scb %s %d" % (cs, f))
        elif k == 1: calls.append("gcb %d" % f)
        elif k == 2: calls.append("spcb %s %s %d" % (who, cs, f))
        elif k == 3: calls.append("gpcb %s %d" % (who, f))
        elif k == 4: calls.append("%s %s %d" % (rng.choice(["stcb", "stcbo"]), cs, f))
        elif k == 5: calls.append("%s %d" % (rng.choice(["gtcb", "gtcbo"]), f))
        elif k == 6: calls.append("glcl %d" % f)
        elif k == 7: calls.append("gplcl %s %d" % (who, f))
        elif k == 8: calls.append("smb %s %d %d" % (mset(g), p, g))
        elif k == 9: calls.append("gmb %d" % g)
        elif k == 10: calls.append("spmb %s %s %d %d" % (who, mset(g), p, g))
        elif k == 11: calls.append("gpmb %s %d" % (who, g))
        elif k == 12: calls.append("samb %d %s %d %d" % (ln, mset(g), p, g))
        elif k == 13: calls.append("gamb %d %d" % (ln, g))
        elif k == 14: calls.append("gaml %d %d" % (ln, g))
        else: calls.append("amb %d %s %d %d" % (ln, mset(g), p, g))
    return calls


def boundary_calls(T):
    """enumerated, not sampled: every single flag bit on every entry point with a valid
    set, every policy around the accepted range, the named set classes"""
    c = T.cs.text()
    n = T.ns.text()
    res = []
    for b in range(32):
        f = 1 << b
        res += ["scb %s %d" % (c, f), "gcb %d" % f, "spcb 0 %s %d" % (c, f), "gpcb 0 %d" % f, "stcb %s %d" % (c, f),
                "gtcb %d" % f, "stcbo %s %d" % (c, f), "gtcbo %d" % f, "glcl %d" % f, "gplcl 0 %d" % f, "smb %s 2 %d" % (n if f == 32 else c, f), "gmb %d" % f,
                "spmb 0 %s 2 %d" % (n if f == 32 else c, f), "gpmb 0 %d" % f, "samb 4096 %s 2 %d" % (n if f == 32 else c, f),
                "gamb 4096 %d" % f, "gaml 4096 %d" % f, "amb 4096 %s 2 %d" % (n if f == 32 else c, f)]
    for p in range(-3, 9):
        res += ["smb %s %d 32" % (n, p), "spmb 0 %s %d 32" % (n, p), "samb 4096 %s %d 32" % (n, p), "amb 4096 %s %d 36" % (n, p)]
    for s in (EMPTY, FULL, T.ccs, T.cs, BS(True, T.ccs.fin)):
        res += ["scb %s 0" % s.text(), "scb %s 2" % s.text(), "smb %s 2 0" % s.text(), "amb 4096 %s 2 4" % s.text(), "amb 4096 %s 2 0" % s.text()]
    for s in (EMPTY, FULL, T.cns, T.ns):
        res += ["smb %s 2 32" % s.text(), "samb 0 %s 2 32" % s.text(), "samb 4096 %s 2 32" % s.text(), "amb 0 %s 2 32" % s.text()]
    return res


def membind_cover_calls(T):
    """enumerated: every set-like membind entry point, by cpuset and BY NODESET, with the whole-topology set, the
    complete set, a covering superset, sets just short of covering (one member missing), one node's CPUs"""
    res = []
    def variants(topo_set, complete):
        tb, cb = topo_set.fin, complete.fin
        out = [topo_set, complete]
        extra = cb & ~tb
        if extra:
            out.append(BS(False, tb | (extra & -extra)))
        i = 0
        while tb >> i:
            if (tb >> i) & 1:
                out.append(BS(False, tb & ~(1 << i)))          # just short of covering
            i += 1
        return [x for x in out if not x.inf]
    cpus = variants(T.cs, T.ccs) + [s for _, s in T.nodes if not s.is_empty()]
    nodes = variants(T.ns, T.cns)
    for f, sets in ((0, cpus), (2, cpus[:3]), (4, cpus[:2]), (BYNODESET, nodes), (BYNODESET | 2, nodes[:3])):
        for s in sets:
            t = s.text()
            res += ["smb %s 2 %d" % (t, f), "spmb 0 %s 2 %d" % (t, f), "samb 4096 %s 2 %d" % (t, f), "amb 4096 %s 2 %d" % (t, f | STRICT)]
    return res


HOSTILE_NAMES = [b"x", b")", b") ", b"(", b"a b", b"a) 1 2 3", b"w) k", b"x) S 1 2 3 4 5", b"123456789012345", b"", b") ) ) ) ) ) ) )",
                 b"((((", b") 0 0 0 0 0 0 0", b"a)b)c) d", b" ", b"1 (2) S 3"]


def stat_line(pid, name, processor, exit_signal=17):
    """/proc/<tid>/stat with that task name: 36 fields between the name and field 39 (processor)"""
    fields = ["S"] + [str(100 + i) for i in range(34)] + [str(exit_signal)]
    return b"%d (" % pid + name + b") " + " ".join(fields).encode() + b" %d 0 0 0 0\n" % processor


def gen_hook_state(rng):
    """mode + scripted results for the recording hooks"""
    k = rng.random()
    if k < 0.25:
        pres = (1 << 22) - 1
    elif k < 0.35:
        pres = 0
    elif k < 0.55:
        pres = rng.getrandbits(22)
    elif k < 0.75:
        pres = ((1 << 22) - 1) & ~rng.getrandbits(22) | rng.getrandbits(22)
    else:
        pres = 1 << rng.randrange(22) | (rng.getrandbits(22) & rng.getrandbits(22))
    lines = ["mode hooks %x" % pres]
    lines.append("hookret all 0 keep 0:1 2")
    for _ in range(rng.randint(0, 6)):
        h = rng.randrange(22)
        rc = rng.choice([0, -1, -1, 1, 0])
        lines.append("hookret %d %d %s %s %d" % (h, rc, rng.choice(ERRS), BS(False, rng.getrandbits(9)).text(), rng.choice([0, 1, 2, 3, -1, 7])))
    return lines


def gen_os_state(rng):
    lines = ["os ret all 0 0", "os aff %s" % BS(False, rng.getrandbits(rng.choice([4, 16, 70])) | 1).text(),
             "os mempol %d %s" % (rng.choice([0, 1, 1, 2, 3, 4, 5, 6, 7]), BS(False, rng.getrandbits(rng.choice([1, 3, 9]))).text()),
             "os pages %d" % rng.choice([0, 1, 3, -2, -14]), "os cpu %d" % rng.randrange(8)]
    if rng.random() < 0.35:
        lines.append("os ret %s -1 %s" % (rng.choice(["setaffinity", "getaffinity", "set_mempolicy", "mbind", "get_mempolicy", "migrate_pages", "move_pages", "getcpu"]),
                                          rng.choice(["EINVAL", "EPERM", "ENOSYS", "EFAULT", "ENOMEM"])))
    return lines


CALL_RE = re.compile(r"^(scb|gcb|spcb|gpcb|stcbo|gtcbo|stcb|gtcb|glcl|gplcl|smb|gmb|spmb|gpmb|samb|gamb|gaml|amb) ")


def parse_call(line):
    """-> dict(cmd, set, flags, policy, len, who)"""
    t = line.split()
    c = t[0]
    d = {"cmd": c, "set": None, "policy": None, "len": None, "who": None}
    if c in ("scb", "stcb", "stcbo"): d.update(set=BS.parse(t[1]), flags=int(t[2]))
    elif c in ("gcb", "gtcb", "gtcbo", "glcl", "gmb"): d.update(flags=int(t[1]))
    elif c == "spcb": d.update(who=t[1], set=BS.parse(t[2]), flags=int(t[3]))
    elif c in ("gpcb", "gplcl", "gpmb"): d.update(who=t[1], flags=int(t[2]))
    elif c == "smb": d.update(set=BS.parse(t[1]), policy=int(t[2]), flags=int(t[3]))
    elif c == "spmb": d.update(who=t[1], set=BS.parse(t[2]), policy=int(t[3]), flags=int(t[4]))
    elif c in ("samb", "amb"): d.update(len=min(int(t[1]), 64 * 4096), set=BS.parse(t[2]), policy=int(t[3]), flags=int(t[4]))
    elif c in ("gamb", "gaml"): d.update(len=min(int(t[1]), 64 * 4096), flags=int(t[2]))
    d["mem"] = c in ("smb", "gmb", "spmb", "gpmb", "samb", "gamb", "gaml", "amb")
    return d
