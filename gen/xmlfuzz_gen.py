"""C06 input generators: seeds (hand-written compact documents, the bundled
hwloc XML corpus, exports of generated synthetic topologies), structure-aware
mutations over a tolerant token view of the XML text, truncations,
unstructured bytes, and the byte/line delta-debugging shrinker.

Everything returns bytes.  Every random choice comes from the rng passed in."""
import re

# ---------------------------------------------------------------- seeds ----
HDR = b'<?xml version="1.0" encoding="UTF-8"?>\n<!DOCTYPE topology SYSTEM "hwloc2.dtd">\n'


def _obj(ty, os=None, cs=None, ns=None, gp=0, extra="", body=None, root=False, v3=True):
    a = ['type="%s"' % ty]
    if os is not None:
        a.append('os_index="%d"' % os)
    if cs is not None:
        a += ['cpuset="%s"' % cs, 'complete_cpuset="%s"' % cs]
        if root:
            a.append('allowed_cpuset="%s"' % cs)
        a += ['nodeset="%s"' % ns, 'complete_nodeset="%s"' % ns]
        if root:
            a.append('allowed_nodeset="%s"' % ns)
    a.append('gp_index="%d"' % gp)
    if v3:
        a.append('id="obj%d"' % gp)
    if extra:
        a.append(extra)
    s = "<object " + " ".join(a)
    if body is None:
        return s + "/>\n"
    return s + ">\n" + body + "</object>\n"


def rich_seed(v3=True):
    """A compact document using every element the importer knows: info,
    page_type, userdata (plain, base64, empty), caches, Group, Die, MemCache,
    Bridge/PCIDev/OSDev, Misc, distances2, distances2hetero, support, memattr
    (with both initiator kinds), cpukind."""
    o = lambda *a, **k: _obj(*a, v3=v3, **k)
    pus0 = o("PU", 0, "0x1", "0x1", 7) + o("PU", 1, "0x2", "0x1", 8)
    pus1 = o("PU", 2, "0x4", "0x2", 13) + o("PU", 3, "0x8", "0x2", 14)
    core0 = o("Core", 0, "0x3", "0x1", 6, body=pus0)
    l1 = o("L1Cache", 0, "0x3", "0x1", 5, 'cache_size="32768" depth="1" cache_linesize="64" cache_associativity="8" cache_type="1"', body=core0)
    l2 = o("L2Cache", 0, "0x3", "0x1", 4, 'cache_size="1048576" depth="2" cache_linesize="64" cache_associativity="16" cache_type="0"', body=l1)
    numa0 = o("NUMANode", 0, "0x3", "0x1", 3, 'local_memory="1048576"', body='<page_type size="4096" count="256"/>\n<info name="DAXDevice" value="dax0"/>\n')
    mc = o("MemCache", None, "0x3", "0x1", 30, 'cache_size="4096" depth="1" cache_linesize="64" cache_associativity="1" cache_type="0"', body=numa0)
    pk0 = o("Package", 0, "0x3", "0x1", 2, 'name="pk0" subtype="sub"', body='<info name="CPUModel" value="Fake &amp; &lt;CPU&gt; &quot;x&quot;"/>\n' + mc + l2)
    core1 = o("Core", 1, "0xc", "0x2", 12, body=pus1)
    grp = o("Group", None, "0xc", "0x2", 11, 'kind="0" subkind="0" dont_merge="1"', body=core1)
    numa1 = o("NUMANode", 1, "0xc", "0x2", 10, 'local_memory="2097152"')
    die = o("Die", 0, "0xc", "0x2", 15, body=grp)
    osd = o("OSDev", None, None, None, 22, 'name="card0" subtype="CUDA" osdev_type="%s"' % ("8" if v3 else "5"), body='<info name="Backend" value="CUDA"/>\n<info name="CUDAGlobalMemorySize" value="1024"/>\n')
    pci = o("PCIDev", None, None, None, 21, 'pci_busid="0000:01:00.0" pci_type="0300 [10de:1234] [0000:0000] a1 00" pci_link_speed="0.000000"', body=osd)
    br = o("Bridge", None, None, None, 20, 'bridge_type="0-1" depth="0" bridge_pci="0000:[01-01]"', body=pci)
    pk1 = o("Package", 1, "0xc", "0x2", 9, body=numa1 + die + br)
    misc = o("Misc", None, None, None, 40, 'name="misc0" subtype="MemoryModule"', body='<info name="Size" value="1024"/>\n<userdata name="u" length="3">abc</userdata>\n<userdata length="4" encoding="base64">YWJjZA==</userdata>\n<userdata name="e" length="0"/>\n')
    rootinfo = '<info name="Backend" value="Linux"/>\n' if not v3 else ""
    root = o("Machine", 0, "0xf", "0x3", 1, 'local_memory="0"', root=True, body=rootinfo + '<userdata name="r" length="2">hi</userdata>\n' + pk0 + pk1 + misc)
    c = lambda tag, txt: '<%s length="%d">%s</%s>\n' % (tag, len(txt), txt, tag)
    tail = ('<distances2 type="NUMANode" nbobjs="2" kind="5" indexing="os" name="NUMALatency">\n' + c("indexes", "0 1 ") + c("u64values", "10 20 20 10 ") + '</distances2>\n'
            '<distances2 type="Core" nbobjs="2" kind="10" indexing="gp" name="CoreBW">\n' + c("indexes", "6 12 ") + c("u64values", "5 6 ") + c("u64values", "7 8 ") + '</distances2>\n'
            '<distances2hetero nbobjs="3" kind="21" name="Het">\n' + c("indexes", "NUMANode:3 NUMANode:10 Core:6 ") + c("u64values", "1 2 3 4 5 6 7 8 9 ") + '</distances2hetero>\n'
            '<support name="discovery.pu"/>\n<support name="custom.exported_support"/>\n'
            '<memattr name="Bandwidth" flags="5">\n<memattr_value target_obj_type="NUMANode" target_obj_gp_index="3" value="20" initiator_cpuset="0x3"/>\n<memattr_value target_obj_type="NUMANode" target_obj_gp_index="10" value="30" initiator_cpuset="0xc"/>\n</memattr>\n'
            '<memattr name="foobar" flags="6">\n<memattr_value target_obj_type="NUMANode" target_obj_gp_index="3" value="7" initiator_obj_gp_index="7" initiator_obj_type="PU"/>\n<info name="x" value="y"/>\n</memattr>\n'
            '<memattr name="noinit" flags="1">\n<memattr_value target_obj_type="NUMANode" target_obj_gp_index="10" value="9"/>\n</memattr>\n'
            '<cpukind cpuset="0x3" forced_efficiency="0">\n<info name="CoreType" value="Small"/>\n</cpukind>\n<cpukind cpuset="0xc" forced_efficiency="5">\n<info name="CoreType" value="Big"/>\n</cpukind>\n')
    if v3:
        tail += '<info name="Backend" value="Linux"/>\n'
    return HDR + ('<topology version="%s">\n' % ("3.0" if v3 else "2.0")).encode() + (root + tail).encode() + b"</topology>\n"


def tiny_seed(v3=False):
    o = lambda *a, **k: _obj(*a, v3=v3, **k)
    body = o("NUMANode", 0, "0x3", "0x1", 2, 'local_memory="1024"') + o("PU", 0, "0x1", "0x1", 3) + o("PU", 1, "0x2", "0x1", 4)
    root = o("Machine", 0, "0x3", "0x1", 1, root=True, body=body)
    tail = '<distances2 type="PU" nbobjs="2" kind="5" indexing="os" name="L">\n<indexes length="4">0 1 </indexes>\n<u64values length="12">10 20 20 10 </u64values>\n</distances2>\n'
    return HDR + ('<topology version="%s">\n' % ("3.0" if v3 else "2.0")).encode() + (root + tail).encode() + b"</topology>\n"


DIFF_HDR = b'<?xml version="1.0" encoding="UTF-8"?>\n<!DOCTYPE topologydiff SYSTEM "hwloc2-diff.dtd">\n'


def diff_seed(rng=None, n=3):
    ents = ['<diff type="0" obj_depth="0" obj_index="0" obj_attr_type="1" obj_attr_oldvalue="a" obj_attr_newvalue="b &amp; c"/>',
            '<diff type="0" obj_depth="-3" obj_index="1" obj_attr_type="0" obj_attr_index="0" obj_attr_oldvalue="1024" obj_attr_newvalue="2048"/>',
            '<diff type="0" obj_depth="2" obj_index="3" obj_attr_type="2" obj_attr_name="Foo" obj_attr_oldvalue="x" obj_attr_newvalue="y"/>',
            '<diff type="1" obj_depth="0" obj_index="0"/>']
    if rng is not None:
        ents = [rng.choice(ents) for _ in range(n)]
    return DIFF_HDR + b'<topologydiff refname="ref.xml">\n' + "\n".join("  " + e for e in ents).encode() + b"\n</topologydiff>\n"


# ------------------------------------------------------ token view of XML ----
TAG_RE = re.compile(rb'<(/?)([A-Za-z_][A-Za-z0-9_]*)((?:\s+[A-Za-z_][A-Za-z0-9_]*="[^"]*")*)\s*(/?)>')
ATTR_RE = re.compile(rb'\s+([A-Za-z_][A-Za-z0-9_]*)="([^"]*)"')


def tokenize(data):
    """-> list of tokens: ['raw', bytes] | ['tag', closing(bool), name, [[attr, val], ...], selfclose(bool)]"""
    toks, pos = [], 0
    for m in TAG_RE.finditer(data):
        if m.start() > pos:
            toks.append(["raw", data[pos:m.start()]])
        attrs = [[a.group(1), a.group(2)] for a in ATTR_RE.finditer(m.group(3))]
        toks.append(["tag", bool(m.group(1)), m.group(2), attrs, bool(m.group(4))])
        pos = m.end()
    if pos < len(data):
        toks.append(["raw", data[pos:]])
    return toks


def serialize(toks):
    out = []
    for t in toks:
        if t[0] == "raw":
            out.append(t[1])
        else:
            _, closing, name, attrs, selfclose = t
            s = b"<" + (b"/" if closing else b"") + name
            for a, v in attrs:
                s += b" " + a + b'="' + v + b'"'
            s += b"/>" if selfclose else b">"
            out.append(s)
    return b"".join(out)


def element_spans(toks):
    """[(open_index, close_index)] for every element (close == open for self-closing), by a stack; unbalanced tags ignored."""
    spans, stack = [], []
    for i, t in enumerate(toks):
        if t[0] != "tag":
            continue
        if t[1]:
            for k in range(len(stack) - 1, -1, -1):
                if toks[stack[k]][2] == t[2]:
                    spans.append((stack[k], i))
                    del stack[k:]
                    break
        elif t[4]:
            spans.append((i, i))
        else:
            stack.append(i)
    return spans


NUM_VALUES = [b"", b"0", b"1", b"-1", b"2", b"255", b"256", b"65535", b"65536", b"65537", b"2147483647", b"2147483648", b"4294967295",
              b"4294967296", b"9223372036854775807", b"9223372036854775808", b"18446744073709551615", b"18446744073709551616",
              b"99999999999999999999999999", b"-9223372036854775808", b"abc", b"0x10", b" 7", b"7 ", b"1e9", b"1.5", b"+3", b"00000000000000000001"]
SET_VALUES = [b"", b"0x0", b"0x1", b"0x3", b"0x7", b"0xf", b"0xffffffff", b"0xf...f", b"0xf...f,0xfffffffe", b"0x1,0x0", b"0x1,0x0,0x0", b"0x80000000",
              b"0x00000001,0x00000000,0x00000000", b"1", b"xyz", b"0x", b",", b"0xf...f,", b"0x100000000", b"0x1,,0x1", b"0xffffffffffffffffffffffffffffffff"]
TYPE_VALUES = [b"Machine", b"Package", b"Die", b"Core", b"PU", b"L1Cache", b"L2Cache", b"L3Cache", b"L4Cache", b"L5Cache", b"L1iCache", b"L2iCache", b"L3iCache",
               b"Group", b"NUMANode", b"MemCache", b"Bridge", b"PCIDev", b"OSDev", b"Misc", b"Tile", b"Module", b"Cluster", b"Foo", b"", b"pu", b"L9Cache", b"Cache", b"Socket",
               b"Node", b"System", b"HostBridge", b"Block", b"L2", b"Group0", b"OSDev[GPU]", b"PCIDev!", b"\xff\xfe"]
STR_VALUES = [b"", b"x", b"A" * 70, b"A" * 300, b"&amp;", b"&lt;&gt;&quot;&#10;&#13;&#9;", b"&bogus;", b"&", b"&#10", b"%s%s%n", b"\xc3\xa9", b"\x01\x02", b"dax0", b"rsmi0", b"nvml1",
              b"CXLMem", b"NVM", b"BXI", b"CUDA", b"OpenCL", b"LevelZero", b"MemoryModule", b"Die", b"base64", b"os", b"gp", b"XGMIHops", b"NUMALatency", b"Capacity", b"Locality", b"Bandwidth", b"Latency",
              b"SectorSize", b"Size", b"Backend"]
VERSION_VALUES = [b"0.9", b"1.0", b"1.11", b"2.0", b"2.1", b"2.99", b"3.0", b"3.1", b"4.0", b"2", b"", b"2.", b".0", b"-2.0", b"99999999999.1", b"2.0.1", b"3.4294967296", b"x.y", b" 2.0"]
OSDEV_SAFE = [b"0", b"1", b"2", b"3", b"4", b"5", b"6", b"7", b"8", b"16", b"32", b"63", b"", b"x", b"-0"]
OSDEV_UNKNOWN_BIT = [b"4096", b"128", b"18446744073709551615", b"-1", b"9223372036854775808", b"1024"]
PCI_VALUES = [b"0000:00:00.0", b"ffff:ff:ff.7", b"10000:00:00.0", b"ffffffff:ff:ff.f", b"0:0:0.0", b"", b"zz", b"0000:00:00", b"0300 [10de:1234] [0000:0000] a1 00", b"0300 [10de:1234] [0000:0000] a1",
              b"ffffffff [ffff:ffff] [ffff:ffff] ff ff", b"0-1", b"1-0", b"1-1", b"0-0", b"7-9", b"4294967295-4294967295", b"0000:[00-ff]", b"ffff:[ff-00]", b"0000:[00-100]"]

# strings made of one escape-worthy character (as it is written in XML), at the lengths where the exporters'
# expansion ratios matter (1 char -> up to 6 bytes), and mixtures around the 4/5 and 5/6 ratios
ESCAPES = [b"&quot;", b"&amp;", b"&lt;", b"&gt;", b"&#10;", b"&#13;", b"&#9;"]
ESCAPE_LENGTHS = [1, 2, 5, 16, 300]
ESCAPE_VALUES = [e * n for e in ESCAPES for n in ESCAPE_LENGTHS] + \
                [b"&quot;" * q + b"a" * a for q, a in ((4, 1), (5, 1), (6, 1), (9, 2), (40, 9), (41, 10), (100, 20))] + \
                [b"a" + b"&quot;" * 30, b"&amp;&quot;" * 20, b"&lt;&gt;&quot;&amp;&#10;&#13;&#9;" * 8, b"&quot;" * 1200]
STR_VALUES += ESCAPE_VALUES[::3]

SET_ATTRS = {b"cpuset", b"complete_cpuset", b"allowed_cpuset", b"nodeset", b"complete_nodeset", b"allowed_nodeset", b"initiator_cpuset"}
TYPE_ATTRS = {b"type", b"target_obj_type", b"initiator_obj_type"}
STR_ATTRS = {b"name", b"subtype", b"value", b"encoding", b"indexing", b"refname", b"obj_attr_name", b"obj_attr_oldvalue", b"obj_attr_newvalue"}
PCI_ATTRS = {b"pci_busid", b"pci_type", b"bridge_type", b"bridge_pci"}


def boundary_value(rng, tagname, attr, allow_osdev_unknown):
    if attr == b"version":
        return rng.choice(VERSION_VALUES)
    if attr == b"osdev_type":
        return rng.choice(OSDEV_UNKNOWN_BIT) if allow_osdev_unknown else rng.choice(OSDEV_SAFE)
    if attr in SET_ATTRS:
        return rng.choice(SET_VALUES)
    if attr == b"type" and tagname == b"diff":
        return rng.choice(NUM_VALUES)
    if attr in TYPE_ATTRS:
        return rng.choice(TYPE_VALUES)
    if attr in PCI_ATTRS:
        return rng.choice(PCI_VALUES)
    if attr in STR_ATTRS:
        return rng.choice(STR_VALUES + NUM_VALUES[:6] + TYPE_VALUES[:4])
    r = rng.random()
    if r < 0.85:
        return rng.choice(NUM_VALUES)
    return rng.choice(STR_VALUES + SET_VALUES)


KNOWN_ATTR_NAMES = [b"type", b"os_index", b"gp_index", b"id", b"cpuset", b"complete_cpuset", b"allowed_cpuset", b"nodeset", b"complete_nodeset", b"allowed_nodeset", b"name", b"subtype",
                    b"cache_size", b"cache_linesize", b"cache_associativity", b"cache_type", b"local_memory", b"depth", b"kind", b"subkind", b"dont_merge", b"pci_busid", b"pci_type",
                    b"pci_link_speed", b"bridge_type", b"bridge_pci", b"osdev_type", b"numanode_type", b"size", b"count", b"info", b"length", b"encoding", b"value", b"nbobjs", b"indexing",
                    b"flags", b"target_obj_gp_index", b"target_obj_type", b"initiator_cpuset", b"initiator_obj_gp_index", b"initiator_obj_type", b"forced_efficiency", b"version", b"bogus"]
KNOWN_TAGS = [b"object", b"info", b"page_type", b"userdata", b"distances2", b"distances2hetero", b"indexes", b"u64values", b"support", b"memattr", b"memattr_value", b"cpukind",
              b"topology", b"root", b"diff", b"topologydiff", b"bogus", b"distances"]


def mutate(rng, data, allow_osdev_unknown=False, nops=None):
    """Apply 1..3 structure-aware mutations.  Returns (bytes, [op names])."""
    toks = tokenize(data)
    tags = [i for i, t in enumerate(toks) if t[0] == "tag"]
    if not tags:
        return mutate_bytes(rng, data)
    ops = []
    for _ in range(nops or rng.choice([1, 1, 1, 2, 2, 3])):
        tags = [i for i, t in enumerate(toks) if t[0] == "tag"]
        opens = [i for i in tags if not toks[i][1]]
        withattrs = [i for i in opens if toks[i][3]]
        op = rng.choice(["attr-value"] * 10 + ["attr-drop"] * 3 + ["attr-dup", "attr-rename", "attr-add", "attr-swap", "elem-drop", "elem-drop", "elem-dup", "elem-dup", "elem-swap",
                         "elem-nest", "elem-unnest", "tag-rename", "close-drop", "selfclose-toggle", "content", "version", "syntax", "syntax"])
        if op == "attr-value" and withattrs:
            i = rng.choice(withattrs)
            a = rng.choice(toks[i][3])
            a[1] = boundary_value(rng, toks[i][2], a[0], allow_osdev_unknown)
            ops.append("attr-value:%s.%s" % (toks[i][2].decode(), a[0].decode()))
        elif op == "attr-drop" and withattrs:
            i = rng.choice(withattrs)
            k = rng.randrange(len(toks[i][3]))
            ops.append("attr-drop:%s.%s" % (toks[i][2].decode(), toks[i][3][k][0].decode()))
            del toks[i][3][k]
        elif op == "attr-dup" and withattrs:
            i = rng.choice(withattrs)
            a = rng.choice(toks[i][3])
            v = a[1] if rng.random() < 0.5 else boundary_value(rng, toks[i][2], a[0], allow_osdev_unknown)
            toks[i][3].insert(rng.randrange(len(toks[i][3]) + 1), [a[0], v])
            ops.append("attr-dup:%s.%s" % (toks[i][2].decode(), a[0].decode()))
        elif op == "attr-rename" and withattrs:
            i = rng.choice(withattrs)
            a = rng.choice(toks[i][3])
            a[0] = rng.choice(KNOWN_ATTR_NAMES)
            ops.append("attr-rename:%s" % toks[i][2].decode())
        elif op == "attr-add" and opens:
            i = rng.choice(opens)
            n = rng.choice(KNOWN_ATTR_NAMES)
            toks[i][3].insert(rng.randrange(len(toks[i][3]) + 1), [n, boundary_value(rng, toks[i][2], n, allow_osdev_unknown)])
            ops.append("attr-add:%s.%s" % (toks[i][2].decode(), n.decode()))
        elif op == "attr-swap" and withattrs:
            i = rng.choice(withattrs)
            rng.shuffle(toks[i][3])
            ops.append("attr-swap:%s" % toks[i][2].decode())
        elif op in ("elem-drop", "elem-dup", "elem-swap", "elem-nest", "elem-unnest"):
            spans = element_spans(toks)
            if not spans:
                continue
            a, b = rng.choice(spans)
            seg = [list(t) if t[0] == "raw" else [t[0], t[1], t[2], [list(x) for x in t[3]], t[4]] for t in toks[a:b + 1]]
            nm = toks[a][2].decode()
            if op == "elem-drop":
                del toks[a:b + 1]
            elif op == "elem-dup":
                toks[b + 1:b + 1] = seg
            elif op == "elem-swap":
                c, d = rng.choice(spans)
                if d < a or c > b:
                    if c < a:
                        a, b, c, d = c, d, a, b
                    toks[a:d + 1] = toks[c:d + 1] + toks[b + 1:c] + toks[a:b + 1]
            elif op == "elem-nest":
                # move the element inside another open element (right after its opening tag)
                tgt = [i for i in opens if not (a <= i <= b) and not toks[i][4]]
                if tgt:
                    t = rng.choice(tgt)
                    del toks[a:b + 1]
                    if t > b:
                        t -= (b + 1 - a)
                    toks[t + 1:t + 1] = seg
            else:
                # move the element after the end of the document's first element
                del toks[a:b + 1]
                k = rng.randrange(len(toks) + 1)
                toks[k:k] = seg
            ops.append("%s:%s" % (op, nm))
        elif op == "tag-rename" and tags:
            i = rng.choice(tags)
            toks[i][2] = rng.choice(KNOWN_TAGS)
            ops.append("tag-rename")
        elif op == "close-drop":
            cl = [i for i in tags if toks[i][1]]
            if cl:
                i = rng.choice(cl)
                ops.append("close-drop:%s" % toks[i][2].decode())
                del toks[i]
        elif op == "selfclose-toggle" and opens:
            i = rng.choice(opens)
            toks[i][4] = not toks[i][4]
            ops.append("selfclose-toggle:%s" % toks[i][2].decode())
        elif op == "content":
            raws = [i for i, t in enumerate(toks) if t[0] == "raw" and t[1].strip()]
            if raws:
                i = rng.choice(raws)
                c = rng.choice([b"", b" ", b"0 1 2 3 4 5 6 7 8 9 ", b"18446744073709551616 -1 ", b"x", b"NUMANode:3 Foo:1 ", b"NUMANode3 ", b":", b"A" * 100, b"====", b"YWJj", b"<", b"&lt;", toks[i][1] + toks[i][1], toks[i][1][:-1], toks[i][1] + b"0x10 "])
                toks[i][1] = c
                ops.append("content")
        elif op == "version":
            for i in opens:
                if toks[i][2] == b"topology":
                    for a in toks[i][3]:
                        if a[0] == b"version":
                            a[1] = rng.choice(VERSION_VALUES)
                            ops.append("version:%s" % a[1].decode(errors="replace"))
        elif op == "syntax":
            # break the lexical layer: remove one quote / '>' / '=' / '<', or insert a stray one
            s = bytearray(serialize(toks))
            if not s:
                continue
            cands = [k for k, ch in enumerate(s) if ch in b'"<>=/ &']
            if cands and rng.random() < 0.7:
                k = rng.choice(cands)
                ops.append("syntax-del:%s" % chr(s[k]))
                del s[k]
            else:
                k = rng.randrange(len(s) + 1)
                ch = rng.choice(b'"<>=/& \x00\n')
                s.insert(k, ch)
                ops.append("syntax-ins:%d" % ch)
            toks = tokenize(bytes(s))
    return serialize(toks), ops or ["noop"]


def escape_extremes(seed_v3, seed_v2, full=True):
    """Deterministic family: every string the exporters write (object name/subtype, info name and value of an
    object / of the topology / of a cpukind, distances name, memattr name) replaced by each ESCAPE_VALUES entry.
    Yields (bytes, description)."""
    targets = [(b"object", b"name"), (b"object", b"subtype"), (b"info", b"name"), (b"info", b"value"),
               (b"distances2", b"name"), (b"distances2hetero", b"name"), (b"memattr", b"name"), (b"userdata", b"name")]
    for vi, seed in enumerate((seed_v3, seed_v2)):
        toks0 = tokenize(seed)
        for tg, at in targets:
            idx = [i for i, t in enumerate(toks0) if t[0] == "tag" and not t[1] and t[2] == tg and any(a[0] == at for a in t[3])]
            if not idx:
                continue
            vals = ESCAPE_VALUES if (full or vi == 0) else ESCAPE_VALUES[::4]
            for k, v in enumerate(vals):
                toks = tokenize(seed)
                # rotate over the occurrences (first, last, middle): the cpukind and topology infos are the last <info> elements
                i = idx[(0, -1, len(idx) // 2)[k % 3]]
                for a in toks[i][3]:
                    if a[0] == at:
                        a[1] = v
                        break
                yield serialize(toks), "escape:%s.%s:v%d:%s" % (tg.decode(), at.decode(), 3 - vi, (v[:12] + b"..x%d" % len(v)).decode())


XML_ALPHABET = [b"<", b">", b"/", b"=", b'"', b" ", b"\n", b"&", b";", b"?", b"!", b"object", b"topology", b"version", b"type", b"Machine", b"PU", b"cpuset", b"0x1", b"2.0", b"3.0",
                b"<?xml ", b"<!DOCTYPE ", b"<topology>", b"<root>", b"<topology version=\"2.0\">", b"<object type=\"Machine\"", b"info", b"name", b"value", b"&amp;", b"&#10;", b"&quot;", b"\x00", b"\xff", b"a", b"_"]


def mutate_bytes(rng, data):
    s = bytearray(data)
    n = rng.choice([1, 1, 2, 4, 8])
    for _ in range(n):
        if not s:
            s += bytes([rng.randrange(256)])
            continue
        k = rng.randrange(len(s))
        r = rng.random()
        if r < 0.3:
            s[k] = rng.randrange(256)
        elif r < 0.5:
            del s[k:k + rng.choice([1, 1, 2, 8, 64])]
        elif r < 0.7:
            s[k:k] = rng.choice(XML_ALPHABET)
        elif r < 0.85:
            j = rng.randrange(len(s))
            a, b = min(k, j), max(k, j)
            s[k:k] = s[a:min(b, a + 200)]
        else:
            s[k] ^= 1 << rng.randrange(8)
    return bytes(s), ["bytes"]


def unstructured(rng):
    r = rng.random()
    if r < 0.3:
        return bytes(rng.randrange(256) for _ in range(rng.choice([0, 1, 2, 3, 8, 40, 200])))
    n = rng.choice([1, 2, 3, 5, 10, 30, 80])
    return b"".join(rng.choice(XML_ALPHABET) for _ in range(n))


HEADER_CASES = [b"", b"<", b"<?xml ", b"<?xml \n", b"<!DOCTYPE ", b"<!DOCTYPE \n<?xml \n", b"<topology>", b"<root>", b"<topology", b"<topology version=\"2.0\"", b"<topology version=\"2.0\">",
                b"<topology version=\"2.0\"><", b"<topology version=\"2.0\"></", b"<topology version=\"2.0\"></topology>", b"<topology version=\"2.0\"><object", b"<topology version=\"2.0\"><object>",
                b"<topology version=\"2.0\"><object/>", b"<topology version=\"2.0\"><object ", b"<topology version=\"2.0\"><object type=\"", b"<topology version=\"2.0\"><object type=\"Machine\"",
                b"<topology version=\"2.0\"><object type=\"Machine\"/>", b"<topology version=\"2.0\"><object type=\"Machine\" cpuset=\"0x1\" nodeset=\"0x1\"/>", b"<topology version=\"2.0\"><object a=\">\" b=\"",
                b"<topology version=\"2.0\"><object type=\"Machine\" name=\">\" subtype=\"", b"<topology version=\"2.0\"><object type=\"Machine\" name=\"&", b"<topology version=\"2.0\"><object type=\"Machine\" name=\"&amp",
                b"<topology version=\"2.0\"><object type=\"Machine\" name=\"&quot;", b"<topology version=\"3.0\" foo=\"bar\">", b"<topology version=\"2.0\"x>", b"<topology version=\"2.5", b"<topology version=\"2.", b"<topology version=\"",
                b"<topology version=\"4.0\">", b"<topology version=\"1.0\">", b"<topology version=\"4294967298.0\">", b"<topology version=\"-1.0\">", b"<?xml <topology version=\"2.0\">", b"\n<topology version=\"2.0\">",
                b" <topology version=\"2.0\">", b"<topology  version=\"2.0\">", b"<topology version='2.0'>", b"</", b"</topologydiff>", b"<topologydiff", b"<topologydiff>", b"<topologydiff/>", b"<topologydiff><", b"<topologydiff></",
                b"<topologydiff><diff", b"<topologydiff><diff/>", b"<topologydiff refname=\"", b"<topologydiff refname=\"x\" refname=\"y\">", b"<topologydiff bogus=\"1\">", b"<topologydiff><diff type=\"0\"/></topologydiff>",
                b"<topologydiff><diff type=\"0\" obj_depth=\"0\" obj_index=\"0\" obj_attr_type=\"2\" obj_attr_oldvalue=\"a\" obj_attr_newvalue=\"b\"/></topologydiff>"]


# ---------------------------------------------------------- shrinker -------
def ddmin(data, still_fails, max_tests=400):
    """Delta debugging over lines first, then over bytes.  still_fails(bytes) -> bool."""
    tests = [0]

    def run(units, join):
        n = 2
        while len(units) >= 2 and tests[0] < max_tests:
            chunk = max(1, len(units) // n)
            reduced = False
            for i in range(0, len(units), chunk):
                cand = units[:i] + units[i + chunk:]
                tests[0] += 1
                if cand and still_fails(join(cand)):
                    units = cand
                    n = max(n - 1, 2)
                    reduced = True
                    break
                if tests[0] >= max_tests:
                    break
            if not reduced:
                if chunk == 1:
                    break
                n = min(n * 2, len(units))
        return units

    lines = data.split(b"\n")
    lines = run(lines, lambda u: b"\n".join(u))
    data = b"\n".join(lines)
    if len(data) <= 4096:
        bs = run([bytes([b]) for b in data], lambda u: b"".join(u))
        data = b"".join(bs)
    return data
