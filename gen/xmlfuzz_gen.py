"""C06 input generators: seeds (hand-written compact documents, the bundled
hwloc XML corpus, exports of generated synthetic topologies), structure-aware
mutations over a tolerant token view of the XML text, truncations,
unstructured bytes, and the byte/line delta-debugging shrinker.

Everything returns bytes.  Every random choice comes from the rng passed in."""
import re

# ---------------------------------------------------------------- seeds ----
HDR = b'<?xml version="1.0" encoding="UTF-8"?>\n<!DOCTYPE topology SYSTEM "hwloc2.dtd">\n'


def _obj(ty, os=None, cs=None, ns=None, gp=0, extra="", body=None, root=False, v3=True):
    a = ['type="%s"' % ty]
    if os is not None:
        a.append('os_index="%d"' % os)
    if cs is not None:
        a += ['cpuset="%s"' % cs, 'complete_cpuset="%s"' % cs]
        if root:
            a.append('allowed_cpuset="%s"' % cs)
        a += ['nodeset="%s"' % ns, 'complete_nodeset="%s"' % ns]
        if root:
            a.append('allowed_nodeset="%s"' % ns)
    a.append('gp_index="%d"' % gp)
    if v3:
        a.append('id="obj%d"' % gp)
    if extra:
        a.append(extra)
    s = "<object " + " ".join(a)
    if body is None:
        return s + "/>\n"
    return s + ">\n" + body + "</object>\n"


def rich_seed(v3=True):
    """A compact document using every element the importer knows: info,
    page_type, userdata (plain, base64, empty), caches, Group, Die, MemCache,
    Bridge/PCIDev/OSDev, Misc, distances2, distances2hetero, support, memattr
    (with both initiator kinds), cpukind."""
    o = lambda *a, **k: _obj(*a, v3=v3, **k)
    pus0 = o("PU", 0, "0x1", "0x1", 7) + o("PU", 1, "0x2", "0x1", 8)
    pus1 = o("PU", 2, "0x4", "0x2", 13) + o("PU", 3, "0x8", "0x2", 14)
    core0 = o("Core", 0, "0x3", "0x1", 6, body=pus0)
    l1 = o("L1Cache", 0, "0x3", "0x1", 5, 'cache_size="32768" depth="1" cache_linesize="64" cache_associativity="8" cache_type="1"', body=core0)
    l2 = o("L2Cache", 0, "0x3", "0x1", 4, 'cache_size="1048576" depth="2" cache_linesize="64" cache_associativity="16" cache_type="0"', body=l1)
    numa0 = o("NUMANode", 0, "0x3", "0x1", 3, 'local_memory="1048576"', body='<page_type size="4096" count="256"/>\n<info name="DAXDevice" value="dax0"/>\n')
    mc = o("MemCache", None, "0x3", "0x1", 30, 'cache_size="4096" depth="1" cache_linesize="64" cache_associativity="1" cache_type="0"', body=numa0)
    pk0 = o("Package", 0, "0x3", "0x1", 2, 'name="pk0" subtype="sub"', body='<info name="CPUModel" value="Fake &amp; &lt;CPU&gt; &quot;x&quot;"/>\n' + mc + l2)
    core1 = o("Core", 1, "0xc", "0x2", 12, body=pus1)
    grp = o("Group", None, "0xc", "0x2", 11, 'kind="0" subkind="0" dont_merge="1"', body=core1)
    numa1 = o("NUMANode", 1, "0xc", "0x2", 10, 'local_memory="2097152"')
    die = o("Die", 0, "0xc", "0x2", 15, body=grp)
    osd = o("OSDev", None, None, None, 22, 'name="card0" subtype="CUDA" osdev_type="%s"' % ("8" if v3 else "5"), body='<info name="Backend" value="CUDA"/>\n<info name="CUDAGlobalMemorySize" value="1024"/>\n')
    pci = o("PCIDev", None, None, None, 21, 'pci_busid="0000:01:00.0" pci_type="0300 [10de:1234] [0000:0000] a1 00" pci_link_speed="0.000000"', body=osd)
    br = o("Bridge", None, None, None, 20, 'bridge_type="0-1" depth="0" bridge_pci="0000:[01-01]"', body=pci)
    pk1 = o("Package", 1, "0xc", "0x2", 9, body=numa1 + die + br)
    misc = o("Misc", None, None, None, 40, 'name="misc0" subtype="MemoryModule"', body='<info name="Size" value="1024"/>\n<userdata name="u" length="3">abc</userdata>\n<userdata length="4" encoding="base64">YWJjZA==</userdata>\n<userdata name="e" length="0"/>\n')
    rootinfo = '<info name="Backend" value="Linux"/>\n' if not v3 else ""
    root = o("Machine", 0, "0xf", "0x3", 1, 'local_memory="0"', root=True, body=rootinfo + '<userdata name="r" length="2">hi</userdata>\n' + pk0 + pk1 + misc)
    c = lambda tag, txt: '<%s length="%d">%s</%s>\n' % (tag, len(txt), txt, tag)
    tail = ('<distances2 type="NUMANode" nbobjs="2" kind="5" indexing="os" name="NUMALatency">\n' + c("indexes", "0 1 ") + c("u64values", "10 20 20 10 ") + '</distances2>\n'
            '<distances2 type="Core" nbobjs="2" kind="10" indexing="gp" name="CoreBW">\n' + c("indexes", "6 12 ") + c("u64values", "5 6 ") + c("u64values", "7 8 ") + '</distances2>\n'
            '<distances2hetero nbobjs="3" kind="21" name="Het">\n' + c("indexes", "NUMANode:3 NUMANode:10 Core:6 ") + c("u64values", "1 2 3 4 5 6 7 8 9 ") + '</distances2hetero>\n'
            '<support name="discovery.pu"/>\n<support name="custom.exported_support"/>\n'
            '<memattr name="Bandwidth" flags="5">\n<memattr_value target_obj_type="NUMANode" target_obj_gp_index="3" value="20" initiator_cpuset="0x3"/>\n<memattr_value target_obj_type="NUMANode" target_obj_gp_index="10" value="30" initiator_cpuset="0xc"/>\n</memattr>\n'
            '<memattr name="foobar" flags="6">\n<memattr_value target_obj_type="NUMANode" target_obj_gp_index="3" value="7" initiator_obj_gp_index="7" initiator_obj_type="PU"/>\n<info name="x" value="y"/>\n</memattr>\n'
            '<memattr name="noinit" flags="1">\n<memattr_value target_obj_type="NUMANode" target_obj_gp_index="10" value="9"/>\n</memattr>\n'
            '<cpukind cpuset="0x3" forced_efficiency="0">\n<info name="CoreType" value="Small"/>\n</cpukind>\n<cpukind cpuset="0xc" forced_efficiency="5">\n<info name="CoreType" value="Big"/>\n</cpukind>\n')
    if v3:
        tail += '<info name="Backend" value="Linux"/>\n'
    return HDR + ('<topology version="%s">\n' % ("3.0" if v3 else "2.0")).encode() + (root + tail).encode() + b"</topology>\n"


def tiny_seed(v3=False):
    o = lambda *a, **k: _obj(*a, v3=v3, **k)
    body = o("NUMANode", 0, "0x3", "0x1", 2, 'local_memory="1024"') + o("PU", 0, "0x1", "0x1", 3) + o("PU", 1, "0x2", "0x1", 4)
    root = o("Machine", 0, "0x3", "0x1", 1, root=True, body=body)
    tail = '<distances2 type="PU" nbobjs="2" kind="5" indexing="os" name="L">\n<indexes length="4">0 1 </indexes>\n<u64values length="12">10 20 20 10 </u64values>\n</distances2>\n'
    return HDR + ('<topology version="%s">\n' % ("3.0" if v3 else "2.0")).encode() + (root + tail).encode() + b"</topology>\n"


DIFF_HDR = b'<?xml version="1.0" encoding="UTF-8"?>\n<!DOCTYPE topologydiff SYSTEM "hwloc2-diff.dtd">\n'


def diff_seed(rng=None, n=3):
    ents = ['<diff type="0" obj_depth="0" obj_index="0" obj_attr_type="1" obj_attr_oldvalue="a" obj_attr_newvalue="b &amp; c"/>',
            '<diff type="0" obj_depth="-3" obj_index="1" obj_attr_type="0" obj_attr_index="0" obj_attr_oldvalue="1024" obj_attr_newvalue="2048"/>',
            '<diff type="0" obj_depth="2" obj_index="3" obj_attr_type="2" obj_attr_name="Foo" obj_attr_oldvalue="x" obj_attr_newvalue="y"/>',
            '<diff type="1" obj_depth="0" obj_index="0"/>']
    if rng is not None:
        ents = [rng.choice(ents) for _ in range(n)]
    return DIFF_HDR + b'<topologydiff refname="ref.xml">\n' + "\n".join("  " + e for e in ents).encode() + b"\n</topologydiff>\n"


# ------------------------------------------------------ token view of XML ----
TAG_RE = re.compile(rb'<(/?)([A-Za-z_][A-Za-z0-9_]*)((?:\s+[A-Za-z_][A-Za-z0-9_]*="[^"]*")*)\s*(/?)>')
ATTR_RE = re.compile(rb'\s+([A-Za-z_][A-Za-z0-9_]*)="([^"]*)"')


def tokenize(data):
    """-> list of tokens: ['raw', bytes] | ['tag', closing(bool), name, [[attr, val], ...], selfclose(bool)]"""
    toks, pos = [], 0
    for m in TAG_RE.finditer(data):
        if m.start() > pos:
            toks.append(["raw", data[pos:m.start()]])
        attrs = [[a.group(1), a.group(2)] for a in ATTR_RE.finditer(m.group(3))]
        toks.append(["tag", bool(m.group(1)), m.group(2), attrs, bool(m.group(4))])
        pos = m.end()
    if pos < len(data):
        toks.append(["raw", data[pos:]])
    return toks


def serialize(toks):
    out = []
    for t in toks:
        if t[0] == "raw":
            out.append(t[1])
        else:
            _, closing, name, attrs, selfclose = t
            s = b"<" + (b"/" if closing else b"") + name
            for a, v in attrs:
                s += b" " + a + b'="' + v + b'"'
            s += b"/>" if selfclose else b">"
            out.append(s)
    return b"".join(out)


def element_spans(toks):
    """[(open_index, close_index)] for every element (close == open for self-closing), by a stack; unbalanced tags ignored."""
    spans, stack = [], []
    for i, t in enumerate(toks):
        if t[0] != "tag":
            continue
        if t[1]:
            for k in range(len(stack) - 1, -1, -1):
                if toks[stack[k]][2] == t[2]:
                    spans.append((stack[k], i))
                    del stack[k:]
                    break
        elif t[4]:
            spans.append((i, i))
        else:
            stack.append(i)
    return spans


NUM_VALUES = [b"", b"0", b"1", b"-1", b"2", b"255", b"256", b"65535", b"65536", b"65537", b"2147483647", b"2147483648", b"4294967295",
              b"4294967296", b"9223372036854775807", b"9223372036854775808", b"18446744073709551615", b"18446744073709551616",
              b"99999999999999999999999999", b"-9223372036854775808", b"abc", b"0x10", b" 7", b"7 ", b"1e9", b"1.5", b"+3", b"00000000000000000001"]
SET_VALUES = [b"", b"0x0", b"0x1", b"0x3", b"0x7", b"0xf", b"0xffffffff", b"0xf...f", b"0xf...f,0xfffffffe", b"0x1,0x0", b"0x1,0x0,0x0", b"0x80000000",
              b"0x00000001,0x00000000,0x00000000", b"1", b"xyz", b"0x", b",", b"0xf...f,", b"0x100000000", b"0x1,,0x1", b"0xffffffffffffffffffffffffffffffff"]
TYPE_VALUES = [b"Machine", b"Package", b"Die", b"Core", b"PU", b"L1Cache", b"L2Cache", b"L3Cache", b"L4Cache", b"L5Cache", b"L1iCache", b"L2iCache", b"L3iCache",
               b"Group", b"NUMANode", b"MemCache", b"Bridge", b"PCIDev", b"OSDev", b"Misc", b"Tile", b"Module", b"Cluster", b"Foo", b"", b"pu", b"L9Cache", b"Cache", b"Socket",
               b"Node", b"System", b"HostBridge", b"Block", b"L2", b"Group0", b"OSDev[GPU]", b"PCIDev!", b"\xff\xfe"]
STR_VALUES = [b"", b"x", b"A" * 70, b"A" * 300, b"&amp;", b"&lt;&gt;&quot;&#10;&#13;&#9;", b"&bogus;", b"&", b"&#10", b"%s%s%n", b"\xc3\xa9", b"\x01\x02", b"dax0", b"rsmi0", b"nvml1",
              b"CXLMem", b"NVM", b"BXI", b"CUDA", b"OpenCL", b"LevelZero", b"MemoryModule", b"Die", b"base64", b"os", b"gp", b"XGMIHops", b"NUMALatency", b"Capacity", b"Locality", b"Bandwidth", b"Latency",
              b"SectorSize", b"Size", b"Backend"]
VERSION_VALUES = [b"0.9", b"1.0", b"1.11", b"2.0", b"2.1", b"2.99", b"3.0", b"3.1", b"4.0", b"2", b"", b"2.", b".0", b"-2.0", b"99999999999.1", b"2.0.1", b"3.4294967296", b"x.y", b" 2.0"]
OSDEV_SAFE = [b"0", b"1", b"2", b"3", b"4", b"5", b"6", b"7", b"8", b"16", b"32", b"63", b"", b"x", b"-0"]
OSDEV_UNKNOWN_BIT = [b"4096", b"128", b"18446744073709551615", b"-1", b"9223372036854775808", b"1024"]
PCI_VALUES = [b"0000:00:00.0", b"ffff:ff:ff.7", b"10000:00:00.0", b"ffffffff:ff:ff.f", b"0:0:0.0", b"", b"zz", b"0000:00:00", b"0300 [10de:1234] [0000:0000] a1 00", b"0300 [10de:1234] [0000:0000] a1",
              b"ffffffff [ffff:ffff] [ffff:ffff] ff ff", b"0-1", b"1-0", b"1-1", b"0-0", b"7-9", b"4294967295-4294967295", b"0000:[00-ff]", b"ffff:[ff-00]", b"0000:[00-100]"]

# strings made of one escape-worthy character (as it is written in XML), at the lengths where the exporters'
# expansion ratios matter (1 char -> up to 6 bytes), and mixtures around the 4/5 and 5/6 ratios
ESCAPES = [b"&quot;", b"&amp;", b"&lt;", b"&gt;", b"&#10;", b"&#13;", b"&#9;"]
ESCAPE_LENGTHS = [1, 2, 5, 16, 300]
ESCAPE_VALUES = [e * n for e in ESCAPES for n in ESCAPE_LENGTHS] + \
                [b"&quot;" * q + b"a" * a for q, a in ((4, 1), (5, 1), (6, 1), (9, 2), (40, 9), (41, 10), (100, 20))] + \
                [b"a" + b"&quot;" * 30, b"&amp;&quot;" * 20, b"&lt;&gt;&quot;&amp;&#10;&#13;&#9;" * 8, b"&quot;" * 1200]
STR_VALUES += ESCAPE_VALUES[::3]

SET_ATTRS = {b"cpuset", b"complete_cpuset", b"allowed_cpuset", b"nodeset", b"complete_nodeset", b"allowed_nodeset", b"initiator_cpuset"}
TYPE_ATTRS = {b"type", b"target_obj_type", b"initiator_obj_type"}
STR_ATTRS = {b"name", b"subtype", b"value", b"encoding", b"indexing", b"refname", b"obj_attr_name", b"obj_attr_oldvalue", b"obj_attr_newvalue"}
PCI_ATTRS = {b"pci_busid", b"pci_type", b"bridge_type", b"bridge_pci"}


def boundary_value(rng, tagname, attr, allow_osdev_unknown):
    if attr == b"version":
        return rng.choice(VERSION_VALUES)
    if attr == b"osdev_type":
        return rng.choice(OSDEV_UNKNOWN_BIT) if allow_osdev_unknown else rng.choice(OSDEV_SAFE)
    if attr in SET_ATTRS:
        return rng.choice(SET_VALUES)
    if attr == b"type" and tagname == b"diff":
        return rng.choice(NUM_VALUES)
    if attr in TYPE_ATTRS:
        return rng.choice(TYPE_VALUES)
    if attr in PCI_ATTRS:
        return rng.choice(PCI_VALUES)
    if attr in STR_ATTRS:
        return rng.choice(STR_VALUES + NUM_VALUES[:6] + TYPE_VALUES[:4])
    r = rng.random()
    if r < 0.85:
        return rng.choice(NUM_VALUES)
    return rng.choice(STR_VALUES + SET_VALUES)


KNOWN_ATTR_NAMES = [b"type", b"os_index", b"gp_index", b"id", b"cpuset", b"complete_cpuset", b"allowed_cpuset", b"nodeset", b"complete_nodeset", b"allowed_nodeset", b"name", b"subtype",
                    b"cache_size", b"cache_linesize", b"cache_associativity", b"cache_type", b"local_memory", b"depth", b"kind", b"subkind", b"dont_merge", b"pci_busid", b"pci_type",
                    b"pci_link_speed", b"bridge_type", b"bridge_pci", b"osdev_type", b"numanode_type", b"size", b"count", b"info", b"length", b"encoding", b"value", b"nbobjs", b"indexing",
                    b"flags", b"target_obj_gp_index", b"target_obj_type", b"initiator_cpuset", b"initiator_obj_gp_index", b"initiator_obj_type", b"forced_efficiency", b"version", b"bogus"]
KNOWN_TAGS = [b"object", b"info", b"page_type", b"userdata", b"distances2", b"distances2hetero", b"indexes", b"u64values", b"support", b"memattr", b"memattr_value", b"cpukind",
              b"topology", b"root", b"diff", b"topologydiff", b"bogus", b"distances"]


def mutate(rng, data, allow_osdev_unknown=False, nops=None):
    """Apply 1..3 structure-aware mutations.  Returns (bytes, [op names])."""
    toks = tokenize(data)
    tags = [i for i, t in enumerate(toks) if t[0] == "tag"]
    if not tags:
        return mutate_bytes(rng, data)
    ops = []
    for _ in range(nops or rng.choice([1, 1, 1, 2, 2, 3])):
        tags = [i for i, t in enumerate(toks) if t[0] == "tag"]
        opens = [i for i in tags if not toks[i][1]]
        withattrs = [i for i in opens if toks[i][3]]
        op = rng.choice(["attr-value"] * 10 + ["attr-drop"] * 3 + ["attr-dup", "attr-rename", "attr-add", "attr-swap", "elem-drop", "elem-drop", "elem-dup", "elem-dup", "elem-swap",
                         "elem-nest", "elem-unnest", "tag-rename", "close-drop", "selfclose-toggle", "content", "version", "syntax", "syntax"])
        if op == "attr-value" and withattrs:
            i = rng.choice(withattrs)
            a = rng.choice(toks[i][3])
            a[1] = boundary_value(rng, toks[i][2], a[0], allow_osdev_unknown)
            ops.append("attr-value:%s.%s" % (toks[i][2].decode(), a[0].decode()))
        elif op == "attr-drop" and withattrs:
            i = rng.choice(withattrs)
            k = rng.randrange(len(toks[i][3]))
            ops.append("attr-drop:%s.%s" % (toks[i][2].decode(), toks[i][3][k][0].decode()))
            del toks[i][3][k]
        elif op == "attr-dup" and withattrs:
            i = rng.choice(withattrs)
            a = rng.choice(toks[i][3])
            v = a[1] if rng.random() < 0.5 else boundary_value(rng, toks[i][2], a[0], allow_osdev_unknown)
            toks[i][3].insert(rng.randrange(len(toks[i][3]) + 1), [a[0], v])
            ops.append("attr-dup:%s.%s" % (toks[i][2].decode(), a[0].decode()))
        elif op == "attr-rename" and withattrs:
            i = rng.choice(withattrs)
            a = rng.choice(toks[i][3])
            a[0] = rng.choice(KNOWN_ATTR_NAMES)
            ops.append("attr-rename:%s" % toks[i][2].decode())
        elif op == "attr-add" and opens:
            i = rng.choice(opens)
            n = rng.choice(KNOWN_ATTR_NAMES)
            toks[i][3].insert(rng.randrange(len(toks[i][3]) + 1), [n, boundary_value(rng, toks[i][2], n, allow_osdev_unknown)])
            ops.append("attr-add:%s.%s" % (toks[i][2].decode(), n.decode()))
        elif op == "attr-swap" and withattrs:
            i = rng.choice(withattrs)
            rng.shuffle(toks[i][3])
            ops.append("attr-swap:%s" % toks[i][2].decode())
        elif op in ("elem-drop", "elem-dup", "elem-swap", "elem-nest", "elem-unnest"):
            spans = element_spans(toks)
            if not spans:
                continue
            a, b = rng.choice(spans)
            seg = [list(t) if t[0] == "raw" else [t[0], t[1], t[2], [list(x) for x in t[3]], t[4]] for t in toks[a:b + 1]]
            nm = toks[a][2].decode()
            if op == "elem-drop":
                del toks[a:b + 1]
            elif op == "elem-dup":
                toks[b + 1:b + 1] = seg
            elif op == "elem-swap":
                c, d = rng.choice(spans)
                if d < a or c > b:
                    if c < a:
                        a, b, c, d = c, d, a, b
                    toks[a:d + 1] = toks[c:d + 1] + toks[b + 1:c] + toks[a:b + 1]
            elif op == "elem-nest":
                # move the element inside another open element (right after its opening tag)
                tgt = [i for i in opens if not (a <= i <= b) and not toks[i][4]]
                if tgt:
                    t = rng.choice(tgt)
                    del toks[a:b + 1]
                    if t > b:
                        t -= (b + 1 - a)
                    toks[t + 1:t + 1] = seg
            else:
                # move the element after the end of the document's first element
                del toks[a:b + 1]
                k = rng.randrange(len(toks) + 1)
                toks[k:k] = seg
            ops.append("%s:%s" % (op, nm))
        elif op == "tag-rename" and tags:
            i = rng.choice(tags)
            toks[i][2] = rng.choice(KNOWN_TAGS)
            ops.append("tag-rename")
        elif op == "close-drop":
            cl = [i for i in tags if toks[i][1]]
            if cl:
                i = rng.choice(cl)
                ops.append("close-drop:%s" % toks[i][2].decode())
                del toks[i]
        elif op == "selfclose-toggle" and opens:
            i = rng.choice(opens)
            toks[i][4] = not toks[i][4]
            ops.append("selfclose-toggle:%s" % toks[i][2].decode())
        elif op == "content":
            raws = [i for i, t in enumerate(toks) if t[0] == "raw" and t[1].strip()]
            if raws:
                i = rng.choice(raws)
                c = rng.choice([b"", b" ", b"0 1 2 3 4 5 6 7 8 9 ", b"18446744073709551616 -1 ", b"x", b"NUMANode:3 Foo:1 ", b"NUMANode3 ", b":", b"A" * 100, b"====", b"YWJj", b"<", b"&lt;", toks[i][1] + toks[i][1], toks[i][1][:-1], toks[i][1] + b"0x10 "])
                toks[i][1] = c
                ops.append("content")
        elif op == "version":
            for i in opens:
                if toks[i][2] == b"topology":
                    for a in toks[i][3]:
                        if a[0] == b"version":
                            a[1] = rng.choice(VERSION_VALUES)
                            ops.append("version:%s" % a[1].decode(errors="replace"))
        elif op == "syntax":
            # break the lexical layer: remove one quote / '>' / '=' / '<', or insert a stray one
            s = bytearray(serialize(toks))
            if not s:
                continue
            cands = [k for k, ch in enumerate(s) if ch in b'"<>=/ &']
            if cands and rng.random() < 0.7:
                k = rng.choice(cands)
                ops.append("syntax-del:%s" % chr(s[k]))
                del s[k]
            else:
                k = rng.randrange(len(s) + 1)
                ch = rng.choice(b'"<>=/& \x00\n')
                s.insert(k, ch)
                ops.append("syntax-ins:%d" % ch)
            toks = tokenize(bytes(s))
    return serialize(toks), ops or ["noop"]


def escape_extremes(seed_v3, seed_v2, full=True):
    """Deterministic family: every string the exporters write (object name/subtype, info name and value of an
    object / of the topology / of a cpukind, distances name, memattr name) replaced by each ESCAPE_VALUES entry.
    Yields (bytes, description)."""
    targets = [(b"object", b"name"), (b"object", b"subtype"), (b"info", b"name"), (b"info", b"value"),
               (b"distances2", b"name"), (b"distances2hetero", b"name"), (b"memattr", b"name"), (b"userdata", b"name")]
    for vi, seed in enumerate((seed_v3, seed_v2)):
        toks0 = tokenize(seed)
        for tg, at in targets:
            idx = [i for i, t in enumerate(toks0) if t[0] == "tag" and not t[1] and t[2] == tg and any(a[0] == at for a in t[3])]
            if not idx:
                continue
            vals = ESCAPE_VALUES if (full or vi == 0) else ESCAPE_VALUES[::4]
            for k, v in enumerate(vals):
                toks = tokenize(seed)
                # rotate over the occurrences (first, last, middle): the cpukind and topology infos are the last <info> elements
                i = idx[(0, -1, len(idx) // 2)[k % 3]]
                for a in toks[i][3]:
                    if a[0] == at:
                        a[1] = v
                        break
                yield serialize(toks), "escape:%s.%s:v%d:%s" % (tg.decode(), at.decode(), 3 - vi, (v[:12] + b"..x%d" % len(v)).decode())


XML_ALPHABET = [b"<", b">", b"/", b"=", b'"', b" ", b"\n", b"&", b";", b"?", b"!", b"object", b"topology", b"version", b"type", b"Machine", b"PU", b"cpuset", b"0x1", b"2.0", b"3.0",
                b"<?xml ", b"<!DOCTYPE ", b"<topology>", b"<root>", b"<topology version=\"2.0\">", b"<object type=\"Machine\"", b"info", b"name", b"value", b"&amp;", b"&#10;", b"&quot;", b"\x00", b"\xff", b"a", b"_"]


def mutate_bytes(rng, data):
    s = bytearray(data)
    n = rng.choice([1, 1, 2, 4, 8])
    for _ in range(n):
        if not s:
            s += bytes([rng.randrange(256)])
            continue
        k = rng.randrange(len(s))
        r = rng.random()
        if r < 0.3:
            s[k] = rng.randrange(256)
        elif r < 0.5:
            del s[k:k + rng.choice([1, 1, 2, 8, 64])]
        elif r < 0.7:
            s[k:k] = rng.choice(XML_ALPHABET)
        elif r < 0.85:
            j = rng.randrange(len(s))
            a, b = min(k, j), max(k, j)
            s[k:k] = s[a:min(b, a + 200)]
        else:
            s[k] ^= 1 << rng.randrange(8)
    return bytes(s), ["bytes"]


def unstructured(rng):
    r = rng.random()
    if r < 0.3:
        return bytes(rng.randrange(256) for _ in range(rng.choice([0, 1, 2, 3, 8, 40, 200])))
    n = rng.choice([1, 2, 3, 5, 10, 30, 80])
    return b"".join(rng.choice(XML_ALPHABET) for _ in range(n))


HEADER_CASES = [b"", b"<", b"<?xml ", b"<?xml \n", b"<!DOCTYPE ", b"<!DOCTYPE \n<?xml \n", b"<topology>", b"<root>", b"<topology", b"<topology version=\"2.0\"", b"<topology version=\"2.0\">",
                b"<topology version=\"2.0\"><", b"<topology version=\"2.0\"></", b"<topology version=\"2.0\"></topology>", b"<topology version=\"2.0\"><object", b"<topology version=\"2.0\"><object>",
                b"<topology version=\"2.0\"><object/>", b"<topology version=\"2.0\"><object ", b"<topology version=\"2.0\"><object type=\"", b"<topology version=\"2.0\"><object type=\"Machine\"",
                b"<topology version=\"2.0\"><object type=\"Machine\"/>", b"<topology version=\"2.0\"><object type=\"Machine\" cpuset=\"0x1\" nodeset=\"0x1\"/>", b"<topology version=\"2.0\"><object a=\">\" b=\"",
                b"<topology version=\"2.0\"><object type=\"Machine\" name=\">\" subtype=\"", b"<topology version=\"2.0\"><object type=\"Machine\" name=\"&", b"<topology version=\"2.0\"><object type=\"Machine\" name=\"&amp",
                b"<topology version=\"2.0\"><object type=\"Machine\" name=\"&quot;", b"<topology version=\"3.0\" foo=\"bar\">", b"<topology version=\"2.0\"x>", b"<topology version=\"2.5", b"<topology version=\"2.", b"<topology version=\"",
                b"<topology version=\"4.0\">", b"<topology version=\"1.0\">", b"<topology version=\"4294967298.0\">", b"<topology version=\"-1.0\">", b"<?xml <topology version=\"2.0\">", b"\n<topology version=\"2.0\">",
                b" <topology version=\"2.0\">", b"<topology  version=\"2.0\">", b"<topology version='2.0'>", b"</", b"</topologydiff>", b"<topologydiff", b"<topologydiff>", b"<topologydiff/>", b"<topologydiff><", b"<topologydiff></",
                b"<topologydiff><diff", b"<topologydiff><diff/>", b"<topologydiff refname=\"", b"<topologydiff refname=\"x\" refname=\"y\">", b"<topologydiff bogus=\"1\">", b"<topologydiff><diff type=\"0\"/></topologydiff>",
                b"<topologydiff><diff type=\"0\" obj_depth=\"0\" obj_index=\"0\" obj_attr_type=\"2\" obj_attr_oldvalue=\"a\" obj_attr_newvalue=\"b\"/></topologydiff>"]


# ---------------------------------------------------------- shrinker -------
def ddmin(data, still_fails, max_tests=400):
    """Delta debugging over lines first, then over bytes.  still_fails(bytes) -> bool."""
    tests = [0]

    def run(units, join):
        n = 2
        while len(units) >= 2 and tests[0] < max_tests:
            chunk = max(1, len(units) // n)
            reduced = False
            for i in range(0, len(units), chunk):
                cand = units[:i] + units[i + chunk:]
                tests[0] += 1
                if cand and still_fails(join(cand)):
                    units = cand
                    n = max(n - 1, 2)
                    reduced = True
                    break
                if tests[0] >= max_tests:
                    break
            if not reduced:
                if chunk == 1:
                    break
                n = min(n * 2, len(units))
        return units

    lines = data.split(b"\n")
    lines = run(lines, lambda u: b"\n".join(u))
    data = b"\n".join(lines)
    if len(data) <= 4096:
        bs = run([bytes([b]) for b in data], lambda u: b"".join(u))
        data = b"".join(bs)
    return data


# ------------------------------------------------ feature documents --------
# Small documents that each go through one import path the random families rarely reach (v2 compatibility
# conversions, sub-element variants, every documented error branch), with what the loaded topology must show.
# -> list of dicts: name, kind, data, backends, method, tflags, opts, expect (regexes over the harness output),
#    loads (True: must load, False: must be refused, None: either)
V = 32    # HWLOC_XML_VERBOSE
SHOW = 64  # HWLOC_HIDE_ERRORS=0


def _doc(ver, rootextra, children, tail="", rootattrs=None):
    v3 = ver.startswith("3")
    o = lambda *a, **k: _obj(*a, v3=False, **k)
    base = o("NUMANode", 0, "0x3", "0x1", 2, 'local_memory="1024"') + o("PU", 0, "0x1", "0x1", 3) + o("PU", 1, "0x2", "0x1", 4)
    root = o("Machine", 0, "0x3", "0x1", 1, rootattrs or "", root=True, body=rootextra + base + children)
    return HDR + ('<topology version="%s">\n' % ver).encode() + (root + tail).encode() + b"</topology>\n"


def feature_docs():
    F = []

    def add(name, data, expect=(), loads=True, backends=(0, 1), opts=4, kind="topo", method="buf", tflags=0):
        F.append(dict(name=name, kind=kind, data=data if isinstance(data, bytes) else data.encode(), backends=backends, method=method,
                      tflags=tflags, opts=opts, expect=list(expect), loads=loads))

    osd = lambda gp, ty, name="dev", sub=None, infos="": '<object type="OSDev" gp_index="%d" name="%s"%s osdev_type="%s"%s\n' % (
        gp, name, ' subtype="%s"' % sub if sub else "", ty, ("/>" if not infos else ">" + infos + "</object>"))
    inf = lambda n, v: '<info name="%s" value="%s"/>' % (n, v)
    # --- v2 OS device types -> v3 bit masks, and the Backend infos added to the topology
    v2dev = [("0", "sda", None, "", 1), ("0", "dax0.0", None, "", 2), ("0", "dax1.0", "NVM", "", 3), ("0", "mem0", "CXLMem", "", 2),
             ("0", "mem1", "CXLMem", inf("CXLPMEMSize", "1024"), 3), ("1", "card0", None, "", 4), ("1", "rsmi0", None, inf("Backend", "RSMI"), 12),
             ("1", "nvml0", None, inf("Backend", "NVML"), 12), ("2", "eth0", None, "", 16), ("3", "mlx5_0", None, "", 48), ("3", "bxi0", "BXI", "", 16),
             ("4", "dma0", None, "", 64), ("5", "ve0", None, "", 8), ("5", "cuda0", "CUDA", inf("Backend", "CUDA"), 12),
             ("5", "ze0", "LevelZero", inf("Backend", "LevelZero"), 12), ("5", "opencl0d0", "OpenCL", inf("Backend", "OpenCL") + inf("OpenCLDeviceType", "GPU"), 12),
             ("5", "opencl0d1", "OpenCL", inf("OpenCLDeviceType", "CPU"), 8), ("6", "weird", None, "", 0), ("1", ":0.0", "Display", inf("Backend", "GL"), 4)]
    kids = "".join(osd(100 + i, ty, nm, sub, infos) for i, (ty, nm, sub, infos, _) in enumerate(v2dev))
    exp = [r'ty=18 [^\n]* at=ostypes:%d nm="%s"' % (bits, re.escape(nm).replace(":", "%3a").replace("\\%3a", "%3a")) for (_, nm, _, _, bits) in v2dev if ":" not in nm]
    exp += [r'tinfos \d+[^\n]*"Backend"="%s"' % b for b in ("RSMI", "NVML", "CUDA", "LevelZero", "OpenCL", "GL")]
    add("v2-osdev-types", _doc("2.0", "", kids), exp)
    # the root already names some backends: not added twice
    add("v2-osdev-backends-present", _doc("2.0", "".join(inf("Backend", b) for b in ("CUDA", "NVML", "RSMI", "LevelZero", "OpenCL", "GL", "Linux")), kids),
        [r'tinfos 7 '])
    # v2 root infos that move to the topology, the others stay on the root; Size infos get a KiB suffix
    rootinfos = "".join(inf(n, "x") for n in ("Backend", "SyntheticDescription", "LinuxCgroup", "MemoryTiersNr", "WindowsBuildEnvironment", "OSName", "OSRelease",
                                             "OSVersion", "HostName", "Architecture", "hwlocVersion", "ProcessName", "Custom"))
    sizes = osd(200, "0", "sdb", None, inf("Size", "1024") + inf("SectorSize", "512") + inf("LevelZeroHBMSize", "77KiB")) + \
        '<object type="Misc" gp_index="201" name="dimm" subtype="MemoryModule">' + inf("Size", "2048") + inf("Other", "1") + "</object>\n"
    add("v2-root-infos-and-sizes", _doc("2.0", rootinfos, sizes),
        [r'tinfos 12 ', r'O 0 [^\n]*inf="Custom"="x" ', r'"Size"="1024KiB";"SectorSize"="512";"LevelZeroHBMSize"="77KiB"', r'"Size"="2048KiB";"Other"="1"'])
    add("v3-infos-unchanged", _doc("3.0", inf("OSName", "x"), sizes.replace('osdev_type="0"', 'osdev_type="1"')),
        [r'tinfos 0', r'O 0 [^\n]*inf="OSName"="x" ', r'"Size"="1024";"SectorSize"'])
    # --- Group -> Die, future type names
    grp = lambda extra: '<object type="Group" cpuset="0x3" complete_cpuset="0x3" nodeset="0x1" complete_nodeset="0x1" gp_index="50" %s>' % extra
    pus = _obj("PU", 0, "0x1", "0x1", 3, v3=False) + _obj("PU", 1, "0x2", "0x1", 4, v3=False)
    numa = _obj("NUMANode", 0, "0x3", "0x1", 2, 'local_memory="1024"', v3=False)
    mach = lambda body, extra="": HDR + b'<topology version="2.0">\n' + _obj("Machine", 0, "0x3", "0x1", 1, extra, root=True, body=body, v3=False).encode() + b"</topology>\n"
    add("group-kind-die", mach(numa + grp('kind="104" subkind="0"') + pus + "</object>\n"), [r"\nO \d+ ty=2 "])
    add("group-subtype-die", mach(numa + grp('kind="0" subkind="0" subtype="Die"') + pus + "</object>\n"), [r"\nO \d+ ty=2 "])
    for fut, k in (("Tile", 102), ("Module", 103), ("Cluster", 201), ("tile", 102)):
        add("future-type-" + fut, mach(numa + grp("").replace('type="Group"', 'type="%s"' % fut) + pus + "</object>\n"), opts=4 | V)   # (the Group itself is merged away by the core: same set as its parent)
    # --- attribute order / repetition / unknown attributes, with diagnostics on
    # (accepted: the "type needed first" test compares with TYPE_NONE but new objects start as TYPE_MAX; attributes before type are judged against no type)
    add("attr-before-type", mach(numa + pus.replace('<object type="PU" os_index="0"', '<object os_index="0" cache_size="1" depth="2" kind="3" local_memory="4" type="PU"', 1)), loads=None, opts=4 | V)
    add("object-without-type", mach(numa + pus + '<object os_index="0" name="x"/>'), loads=False, opts=4 | V)
    add("object-without-type-with-sets", mach(numa + pus + '<object os_index="0" cpuset="0x1" complete_cpuset="0x1" nodeset="0x1" complete_nodeset="0x1"/>'), loads=None, opts=4 | V)   # (silently dropped: the type filter lookup refuses the sentinel type)
    add("name-subtype-twice", mach(numa + pus, 'name="a" name="b" subtype="c" subtype="d" bogus="1" numanode_type="x"'), [r'O 0 [^\n]* nm="b" st="d"'], backends=(0,), opts=4 | V)
    add("numanode-type-attr", mach(numa.replace("local_memory", 'numanode_type="0" local_memory') + pus), opts=4 | V)
    allattrs = ('cache_size="1" cache_linesize="2" cache_associativity="3" cache_type="1" local_memory="5" depth="1" kind="1" subkind="2" dont_merge="1" '
                'pci_busid="0000:00:01.0" pci_type="0300 [10de:1234] [0000:0000] a1 00" pci_link_speed="1.5" bridge_type="0-1" bridge_pci="0000:[01-02]" osdev_type="1" numanode_type="0" id="zzz" gp_index="0"')
    badattrs = ('cache_type="7" pci_busid="zz" pci_type="zz" bridge_type="zz" bridge_pci="zz" osdev_type="zz" id="obj0" allowed_cpuset="0x1" allowed_nodeset="0x1"')
    for ty, sets in (("Package", True), ("Group", True), ("L2Cache", True), ("MemCache", True), ("NUMANode", True), ("PU", True), ("Bridge", False), ("PCIDev", False), ("OSDev", False), ("Misc", False)):
        for tag, extra in (("all", allattrs), ("bad", badattrs)):
            if sets and ty == "PU":
                child = '<object type="PU" os_index="0" cpuset="0x1" complete_cpuset="0x1" nodeset="0x1" complete_nodeset="0x1" %s/>\n' % extra + _obj("PU", 1, "0x2", "0x1", 4, v3=False)
                doc = mach(numa + child)
            elif sets and ty in ("NUMANode", "MemCache"):
                child = '<object type="%s" os_index="0" cpuset="0x3" complete_cpuset="0x3" nodeset="0x1" complete_nodeset="0x1" %s>%s</object>\n' % (ty, extra, numa if ty == "MemCache" else "")
                doc = mach(child + pus)
            elif sets:
                child = '<object type="%s" cpuset="0x3" complete_cpuset="0x3" nodeset="0x1" complete_nodeset="0x1" %s>%s</object>\n' % (ty, extra, pus)
                doc = mach(numa + child)
            else:
                doc = mach(numa + pus + '<object type="%s" %s/>\n' % (ty, extra))
            add("attrs-%s-on-%s" % (tag, ty), doc, loads=None, backends=(0,) if tag == "bad" else (0, 1), opts=4 | V)
    # --- sub-elements
    add("pagetype-info-attr", mach(numa.replace("/>", '><page_type size="4096" count="1" info="x"/><page_type size="0" count="3"/></object>') + pus), loads=None, opts=4 | V)
    add("pagetype-bogus-attr", mach(numa.replace("/>", '><page_type size="4096" bogus="1"/></object>') + pus), loads=False, opts=4 | V)
    add("pagetype-on-root-and-package", mach('<page_type size="4096" count="7"/>' + numa + grp("").replace("Group", "Package") + '<page_type size="4096" count="1"/>' + pus + "</object>\n"), loads=False, opts=4 | V)
    add("pagetype-on-root", mach('<page_type size="4096" count="7"/>' + numa + pus), opts=4 | V)
    for i, ud in enumerate(('<userdata length="4" encoding="base64">!!!!====</userdata>', '<userdata length="4" encoding="base64">YWJj</userdata>',
                            '<userdata length="3" encoding="base64">YWJj</userdata>', '<userdata name="n" length="2">abc</userdata>', '<userdata bogus="1" length="0"/>',
                            '<userdata length="0" encoding="base64"></userdata>', '<userdata name="x" length="5" encoding="normal">a&amp;b</userdata>')):
        for o_ in (4, 5, 6):
            add("userdata-%d-ud%d" % (i, o_ & 3), mach(ud + numa + pus), loads=None, backends=(0,) if o_ != 5 else (0, 1), opts=o_ | V)
    add("type-twice-verbose", mach(numa + pus + '<object type="Misc" type="Misc"/>'), loads=False, backends=(0,), opts=4 | V)
    add("root-ignored-verbose", HDR + b'<topology version="3.0"><object type="Bridge" bridge_type="0-1" pci_busid="zz" depth="0"/></topology>', loads=False, opts=4 | V)
    add("normal-under-valid-pu", mach(numa + '<object type="PU" os_index="0" cpuset="0x1" complete_cpuset="0x1" nodeset="0x1" complete_nodeset="0x1">' + _obj("Core", 0, "0x1", "0x1", 9, v3=False) + "</object>\n" + _obj("PU", 1, "0x2", "0x1", 4, v3=False)), loads=False, opts=4 | V)
    add("pagetype-info-then-bogus", mach(numa.replace("/>", '><page_type info="x" bogus="1"/></object>') + pus), loads=False, opts=4 | V)
    add("junk-after-second-child", mach(numa + pus + "junk"), loads=None, backends=(0,), opts=4 | V)
    for nm, junk in (("text", b"some text"), ("pi", b"<?pi x?>"), ("cdata", b"<![CDATA[cdata]]>"), ("comment", b"<!-- c -->")):
        add("libxml-" + nm + "-between-objects", _doc("3.0", "", "").replace(b'<object type="PU"', junk + b'<object type="PU"', 1), loads=None, backends=(1,), opts=4 | V)
    add("unknown-subnode", mach("<bogus/>" + numa + pus), loads=False, opts=4 | V)
    add("unknown-subnode-after-children", mach(numa + pus + "<info name=\"a\" value=\"b\"/>"), loads=False, opts=4 | V)
    add("machine-as-child", mach(numa + pus + _obj("Machine", 1, "0x3", "0x1", 60, v3=False)), loads=False, opts=4 | V)
    add("junk-between-children", mach(numa + pus).replace(b"</object>\n</topology>", b"x</object>\n</topology>"), loads=None, opts=4 | V)
    add("child-fails-under-filtered-parent", mach(numa + pus + '<object type="Bridge" gp_index="70" bridge_type="0-1" depth="0" bridge_pci="0000:[01-01]"><object type="Frobnicator"/></object>\n'), loads=False, opts=0 | V)
    add("normal-under-pu", mach(numa + '<object type="PU" os_index="0" cpuset="0x3" complete_cpuset="0x3" nodeset="0x1" complete_nodeset="0x1">' + _obj("Core", 0, "0x3", "0x1", 9, v3=False) + "</object>\n"), loads=False, opts=4 | V)
    for par, ch in (("Misc", "PU"), ("PCIDev", "NUMANode"), ("Misc", "NUMANode"), ("NUMANode", "PCIDev"), ("Misc", "OSDev"), ("NUMANode", "PU")):
        psets = ' cpuset="0x3" complete_cpuset="0x3" nodeset="0x2" complete_nodeset="0x2" os_index="1"' if par == "NUMANode" else ""   # a valid NUMA node: only the kind rule can refuse
        csets = ' cpuset="0x1" complete_cpuset="0x1" nodeset="0x1" complete_nodeset="0x1" os_index="0"' if ch in ("PU", "NUMANode") else ""
        add("child-kind-%s-under-%s" % (ch, par), mach(numa + pus + '<object type="%s"%s><object type="%s"%s/></object>\n' % (par, psets, ch, csets)), loads=False, opts=4 | V)
    add("cache-attrs-vs-type", mach(numa + '<object type="L2Cache" cpuset="0x3" complete_cpuset="0x3" nodeset="0x1" complete_nodeset="0x1" depth="3" cache_type="0">' + pus + "</object>\n"), loads=False, opts=4 | V)
    add("pu-bad-cpuset", mach(numa + pus.replace('cpuset="0x2"', 'cpuset="0x6"', 1)), loads=False, opts=4 | V)
    add("numa-bad-nodeset", mach(numa.replace('nodeset="0x1"', 'nodeset="0x3"', 1) + pus), loads=False, opts=4 | V)
    add("special-with-sets", mach(numa + pus + '<object type="Misc" cpuset="0x1"/>'), loads=False, opts=4 | V)
    add("normal-without-sets", mach(numa + pus + '<object type="Core" os_index="3"/>'), loads=False, opts=4 | V)
    add("root-special-no-sets", HDR + b'<topology version="2.0"><object type="Misc"/></topology>', loads=False, opts=4 | V)
    add("root-empty-nodeset", mach(pus).replace(b'nodeset="0x1"', b'nodeset="0x0"'), loads=False, opts=4 | V)
    add("unknown-type", mach(numa + pus + '<object type="Frobnicator"/>'), loads=False, opts=4 | V)
    add("out-of-order-children", mach(numa + _obj("PU", 1, "0x2", "0x1", 4, v3=False) + _obj("PU", 0, "0x1", "0x1", 3, v3=False)), [r"nch=\d+,\d+ "], opts=4 | SHOW)
    add("out-of-order-children-named", mach(inf("hwlocVersion", "1.2.3") + inf("ProcessName", "p") + numa + _obj("PU", 1, "0x2", "0x1", 4, v3=False) + _obj("PU", 0, "0x1", "0x1", 3, v3=False)), opts=4 | SHOW, backends=(0,))
    for ver in ("0.9", "1.0", "1.11", "4.0", "2.7", "3.9"):
        add("version-" + ver, mach(numa + pus).replace(b'version="2.0"', ('version="%s"' % ver).encode()), loads=ver[0] in "23", opts=4 | V)
    add("root-tag-root", (HDR + b"<root>" + mach(numa + pus).split(b'<topology version="2.0">\n')[1].replace(b"</topology>", b"</root>")), loads=False, opts=4 | V)
    add("root-tag-topology-v1", mach(numa + pus).replace(b'<topology version="2.0">', b"<topology>"), loads=False, opts=4 | V)
    add("root-tag-other", mach(numa + pus).replace(b'<topology version="2.0">', b"<foo>").replace(b"</topology>", b"</foo>"), loads=False, opts=4 | V)
    add("unknown-tag-after-root", _doc("3.0", "", "", "<bogus/>\n" + '<cpukind cpuset="0x1"/>'), [r"cpukinds nr=0"], opts=4 | V)
    # --- support
    add("support-values", _doc("3.0", "", "", '<support name="discovery.pu" value="0"/><support name="cpubind.set_thisproc_cpubind" value="1"/><support name="membind.migrate_membind"/><support name="custom.exported_support"/><support name="bogus.x"/><support bogus="1" name="discovery.numa"/><support value="3"/>'), tflags=8, opts=4 | V)
    # --- distances
    c = lambda tag, txt, ln=None: '<%s length="%d">%s</%s>' % (tag, len(txt) if ln is None else ln, txt, tag)
    d2 = lambda attrs, body: "<distances2 %s>%s</distances2>\n" % (attrs, body)
    okbody = c("indexes", "0 1 ") + c("u64values", "10 20 20 10 ")
    add("v2-xgmihops-latency", _doc("2.0", "", "", d2('type="PU" nbobjs="2" kind="5" indexing="os" name="XGMIHops"', okbody)), [r"distances 0 nbobjs=2 kind=33 "])
    add("v3-xgmihops-unchanged", _doc("3.0", "", "", d2('type="PU" nbobjs="2" kind="5" indexing="os" name="XGMIHops"', okbody)), [r"distances 0 nbobjs=2 kind=5 "])
    add("distances-no-distances-flag", _doc("3.0", "", "", d2('type="PU" nbobjs="2" kind="5" indexing="os" name="L"', okbody)), [r"phase distances\nphase memattrs"], tflags=128)
    bad = [("type-unknown", 'type="Frob" nbobjs="2" kind="5" indexing="os"', okbody, False), ("missing-kind", 'type="PU" nbobjs="2" indexing="os"', okbody, None),
           ("missing-indexing", 'type="PU" nbobjs="2" kind="5"', okbody, False), ("missing-type", 'nbobjs="2" kind="5" indexing="os"', okbody, False),
           ("nbobjs-0", 'type="PU" nbobjs="0" kind="5" indexing="os"', okbody, False), ("nbobjs-1", 'type="PU" nbobjs="1" kind="5" indexing="os"', c("indexes", "0 ") + c("u64values", "10 "), True),
           ("nbobjs-huge", 'type="PU" nbobjs="4294967295" kind="5" indexing="os"', okbody, False), ("info-child", 'type="PU" nbobjs="2" kind="5" indexing="os" name="x"', '<info name="a" value="b"/>' + okbody, None),
           ("unknown-child", 'type="PU" nbobjs="2" kind="5" indexing="os"', "<bogus/>" + okbody, False), ("child-without-length", 'type="PU" nbobjs="2" kind="5" indexing="os"', '<indexes bogus="4">0 1 </indexes>', False),
           ("length-mismatch", 'type="PU" nbobjs="2" kind="5" indexing="os"', c("indexes", "0 1 ", 3), False), ("length-negative", 'type="PU" nbobjs="2" kind="5" indexing="os"', c("indexes", "0 1 ", -1), False),
           ("too-many-indexes", 'type="PU" nbobjs="2" kind="5" indexing="os"', c("indexes", "0 1 ") + c("indexes", "2 ") + c("u64values", "10 20 20 10 "), False),
           ("too-many-values", 'type="PU" nbobjs="2" kind="5" indexing="os"', okbody + c("u64values", "1 "), False), ("too-few-indexes", 'type="PU" nbobjs="2" kind="5" indexing="os"', c("indexes", "0 ") + c("u64values", "10 20 20 10 "), False),
           ("too-few-values", 'type="PU" nbobjs="2" kind="5" indexing="os"', c("indexes", "0 1 ") + c("u64values", "10 20 "), False), ("garbage-values", 'type="PU" nbobjs="2" kind="5" indexing="os"', c("indexes", "0 x ") + c("u64values", "10 y "), False),
           ("pu-gp-indexing", 'type="PU" nbobjs="2" kind="5" indexing="gp"', okbody, True), ("core-os-indexing", 'type="Core" nbobjs="2" kind="5" indexing="os"', okbody, True),
           ("indexing-other", 'type="PU" nbobjs="2" kind="5" indexing="zz"', okbody, True), ("unknown-objects", 'type="PU" nbobjs="2" kind="5" indexing="os" bogus="1"', c("indexes", "7 9 ") + c("u64values", "10 20 20 10 "), True),
           ("closed-children", 'type="PU" nbobjs="2" kind="5" indexing="os"', '<indexes length="0"/><u64values length="0"/>', False), ("unclosed-child", 'type="PU" nbobjs="2" kind="5" indexing="os"', '<indexes length="4">0 1 <u64values length="12">10 20 20 10 </u64values>', False)]
    for nm, attrs, body, lo in bad:
        add("distances-" + nm, _doc("3.0", "", "", d2(attrs, body)), loads=lo, opts=4 | V)
    het = lambda attrs, idx, vals="1 2 3 4 ": "<distances2hetero %s>%s%s</distances2hetero>\n" % (attrs, c("indexes", idx), c("u64values", vals))
    add("hetero-ok", _doc("3.0", "", "", het('nbobjs="2" kind="5" name="h"', "PU:3 NUMANode:2 ")), [r"distances 0 nbobjs=2 kind=21 "], opts=4 | V)
    add("hetero-unknown-type", _doc("3.0", "", "", het('nbobjs="2" kind="5"', "Frob:3 NUMANode:2 ")), loads=False, opts=4 | V)
    add("hetero-missing-colon", _doc("3.0", "", "", het('nbobjs="2" kind="5"', "PU3 NUMANode2 ")), loads=False, opts=4 | V)
    add("hetero-empty", _doc("3.0", "", "", het('nbobjs="2" kind="5"', "")), loads=False, opts=4 | V)
    add("hetero-with-type-attr", _doc("3.0", "", "", het('nbobjs="2" kind="5" type="PU" indexing="os"', "PU:3 PU:4 ")), loads=None, opts=4 | V)
    # --- memattr
    ma = lambda attrs, body: "<memattr %s>%s</memattr>\n" % (attrs, body)
    mv = lambda attrs: "<memattr_value %s/>" % attrs
    tgt = 'target_obj_type="NUMANode" target_obj_gp_index="2" '
    mbad = [("ok-cpuset", 'name="B" flags="5"', mv(tgt + 'value="20" initiator_cpuset="0x3"'), True), ("ok-obj", 'name="F" flags="6"', mv(tgt + 'value="7" initiator_obj_gp_index="3" initiator_obj_type="PU"'), True),
            ("unknown-attr", 'name="B" flags="5" bogus="1"', "", False), ("no-name", 'flags="5"', mv(tgt + 'value="1" initiator_cpuset="0x1"'), True), ("no-flags", 'name="B"', mv(tgt + 'value="1" initiator_cpuset="0x1"'), True),
            ("bad-flags", 'name="B" flags="255"', mv(tgt + 'value="1"'), None), ("existing-flags-mismatch", 'name="Bandwidth" flags="1"', mv(tgt + 'value="1"'), True), ("existing-match", 'name="Latency" flags="6"', mv(tgt + 'value="1" initiator_cpuset="0x1"'), True),
            ("value-unknown-attr", 'name="B" flags="5"', mv(tgt + 'value="1" bogus="1"'), False), ("value-no-target-type", 'name="B" flags="5"', mv('target_obj_gp_index="2" value="1" initiator_cpuset="0x1"'), False),
            ("value-bad-target-type", 'name="B" flags="5"', mv('target_obj_type="Frob" target_obj_gp_index="2" value="1" initiator_cpuset="0x1"'), False), ("value-no-value", 'name="B" flags="5"', mv(tgt + 'initiator_cpuset="0x1"'), False),
            ("value-no-gp", 'name="B" flags="5"', mv('target_obj_type="NUMANode" value="1" initiator_cpuset="0x1"'), False), ("value-no-initiator", 'name="B" flags="5"', mv(tgt + 'value="1"'), False),
            ("value-half-initiator", 'name="B" flags="5"', mv(tgt + 'value="1" initiator_obj_gp_index="3"'), False), ("value-bad-initiator-type", 'name="B" flags="5"', mv(tgt + 'value="1" initiator_obj_gp_index="3" initiator_obj_type="Frob"'), False),
            ("value-open-close", 'name="B" flags="1"', "<memattr_value " + tgt + 'value="1"></memattr_value>', False), ("info-child", 'name="B" flags="1"', '<info name="a" value="b"/>' + mv(tgt + 'value="1"'), True),
            ("bad-info-child", 'name="B" flags="1"', '<info bogus="a"/>', False), ("unknown-child", 'name="B" flags="1"', "<bogus/>", False), ("no-memattrs-flag", 'name="B" flags="1"', mv(tgt + 'value="1"'), True)]
    for nm, attrs, body, lo in mbad:
        if nm == "value-open-close":     # the libxml backend has no closing tags to check
            add("memattr-" + nm, _doc("3.0", "", "", ma(attrs, body)), loads=lo, opts=4 | V, backends=(0,))
            add("memattr-" + nm + "-libxml", _doc("3.0", "", "", ma(attrs, body)), loads=None, opts=4 | V, backends=(1,))
            continue
        add("memattr-" + nm, _doc("3.0", "", "", ma(attrs, body)), loads=lo, opts=4 | V, tflags=256 if nm == "no-memattrs-flag" else 0)
    # --- cpukind
    ck = [("ok", '<cpukind cpuset="0x1" forced_efficiency="2"><info name="a" value="b"/></cpukind>', True, 0), ("unknown-attr", '<cpukind cpuset="0x1" bogus="1"/>', False, 0), ("no-cpuset", '<cpukind forced_efficiency="1"/>', False, 0),
          ("unknown-child", '<cpukind cpuset="0x1"><bogus/></cpukind>', False, 0), ("bad-info", '<cpukind cpuset="0x1"><info bogus="1"/></cpukind>', False, 0), ("info-no-value", '<cpukind cpuset="0x1"><info name="a"/></cpukind>', True, 0),
          ("cpuset-twice", '<cpukind cpuset="0x1" cpuset="0x2"/>', None, 0), ("no-cpukinds-flag", '<cpukind cpuset="0x1"><info name="a" value="b"/></cpukind>', True, 512), ("empty-cpuset", '<cpukind cpuset="0x0"/>', None, 0),
          ("foreign-cpuset", '<cpukind cpuset="0xf0"/><cpukind cpuset="0xf...f"/>', None, 0)]
    for nm, body, lo, tf in ck:
        add("cpukind-" + nm, _doc("3.0", "", "", body), loads=lo, opts=4 | V, tflags=tf, backends=(0, 1) if nm != "cpuset-twice" else (0,))
    # --- topology-level info
    add("topology-info-variants", _doc("3.0", "", "", '<info name="a" value="b"/><info name="onlyname"/><info value="onlyvalue"/><info/>'), [r'tinfos 1 "a"="b"'], opts=4 | V)
    add("topology-info-bogus", _doc("3.0", "", "", '<info name="a" bogus="b"/>'), loads=False, opts=4 | V)
    # --- what only libxml2 parses (the built-in parser refuses or mis-reads these: either outcome is fine there)
    lx = _doc("3.0", "", "").replace(b"<object type=\"PU\"", b"<!-- a comment --><?pi x?>text<![CDATA[cdata]]>\n<object type=\"PU\"", 1)
    add("libxml-node-kinds", lx, loads=None, backends=(1, 0), opts=4 | V)
    ent = b'<?xml version="1.0"?>\n<!DOCTYPE topology SYSTEM "other.dtd" [<!ENTITY e "zz"><!ATTLIST object extra CDATA "dflt">]>\n' + _doc("3.0", "", "").split(b"\n", 2)[2].replace(b'gp_index="1"', b'gp_index="1" name="&e;" subtype="a&e;b"')
    add("libxml-entities-wrong-dtd", ent, loads=None, backends=(1, 0), opts=4 | V)
    add("libxml-no-dtd", _doc("3.0", "", "").split(b"\n", 2)[2], backends=(1, 0), opts=4 | V)
    add("libxml-namespaced", _doc("3.0", "", "").replace(b"<topology version", b'<topology xmlns:h="urn:x" h:extra="1" version'), loads=None, backends=(1,), opts=4 | V)
    # --- backend selection through HWLOC_LIBXML
    add("env-hwloc-libxml", _doc("3.0", "", ""), opts=4 | 128)
    # --- diff documents
    dd = lambda body, root="topologydiff", attrs=' refname="r"': DIFF_HDR + ("<%s%s>\n%s</%s>\n" % (root, attrs, body, root)).encode()
    de = lambda attrs: "<diff %s/>\n" % attrs
    full = 'type="0" obj_depth="0" obj_index="0" obj_attr_type="%d" obj_attr_index="0" obj_attr_name="N" obj_attr_oldvalue="1" obj_attr_newvalue="2"'
    dcases = [("ok-all-types", de(full % 0) + de(full % 1) + de(full % 2), True), ("unknown-attr", de(full % 1 + ' bogus="1"'), False), ("missing-generic", de('type="0" obj_attr_type="1" obj_attr_oldvalue="a" obj_attr_newvalue="b"'), True),
              ("missing-values", de('type="0" obj_depth="0" obj_index="0" obj_attr_type="1"'), True), ("info-without-name", de('type="0" obj_depth="0" obj_index="0" obj_attr_type="2" obj_attr_oldvalue="a" obj_attr_newvalue="b"'), True),
              ("no-type", de('obj_depth="0"'), True), ("type-too-complex", de('type="1" obj_depth="0" obj_index="0"'), True), ("type-other", de('type="7"'), True), ("open-close", "<diff " + (full % 1) + "></diff>\n", True),
              ("not-diff-child", "<bogus/>\n", False), ("text-child", "text", None), ("unclosed", "<diff " + (full % 1) + ">", False)]
    for nm, body, lo in dcases:
        add("diff-" + nm, dd(body), loads=lo, kind="diff", opts=V)
    add("diff-root-other", dd("", root="topology", attrs=' version="2.0"'), loads=False, kind="diff", opts=V)
    add("diff-root-attr-unknown", dd("", attrs=' bogus="1"'), loads=False, kind="diff", opts=V)
    add("diff-refname-twice", dd("", attrs=' refname="a" refname="b"'), loads=None, kind="diff", opts=V, backends=(0,))
    add("diff-no-dtd", dd(de(full % 1)).split(b"\n", 2)[2], kind="diff", opts=V)
    add("diff-wrong-dtd", dd(de(full % 1)).replace(b"hwloc2-diff.dtd", b"other.dtd"), kind="diff", opts=V)
    add("diff-env-hwloc-libxml", dd(de(full % 1)), kind="diff", opts=128)
    # --- files: paths that are not plain readable files of known size
    for nm, path in (("missing", "/nonexistent/dir/x.xml"), ("directory", "/tmp"), ("proc-file", "/proc/version"), ("dev-null", "/dev/null"), ("stdin-dash", "-"), ("empty-name", "")):
        add("path-" + nm, path + "\n", loads=False, method="path", opts=4 | V)
        add("diffpath-" + nm, path + "\n", loads=False, method="path", kind="diff", opts=V)
    return F


# ------------------------------------------------ userdata / base64 --------
def userdata_docs(lengths):
    """<userdata> elements around valid base64 content of every given length: the length attribute moved by
    -2..+2 against unchanged content, content shortened / extended, padding moved / removed / added, characters
    outside the alphabet, white space, encoding and name attribute variants.  Yields (bytes, description)."""
    import base64 as b64
    base = tiny_seed(True)
    cut = base.index(b"<object type=\"NUMANode\"")

    def doc(elems):
        return base[:cut] + elems + b"\n" + base[cut:]

    def ud(length, content, enc=b' encoding="base64"', name=b' name="u"'):
        return b"<userdata" + name + (b' length="%d"' % length if length is not None else b"") + enc + b">" + content + b"</userdata>"

    for n in lengths:
        raw = bytes((37 * i + n) % 251 + 1 for i in range(n))
        txt = b64.b64encode(raw)
        yield doc(ud(n, txt)), "userdata:n%d:valid" % n
        for d in (-2, -1, 1, 2):
            if n + d >= 0:
                yield doc(ud(n + d, txt)), "userdata:n%d:length%+d" % (n, d)
        # same encoded size, more / fewer bytes encoded (padding replaced by data and back)
        if txt.endswith(b"=="):
            yield doc(ud(n, txt[:-2] + b"A=")), "userdata:n%d:pad2to1" % n
            yield doc(ud(n, txt[:-2] + b"AA")), "userdata:n%d:pad2to0" % n
            yield doc(ud(n, txt[:-1] + b"A")), "userdata:n%d:pad-half" % n
        elif txt.endswith(b"="):
            yield doc(ud(n, txt[:-1] + b"A")), "userdata:n%d:pad1to0" % n
            yield doc(ud(n, txt[:-2] + b"==")), "userdata:n%d:pad1to2" % n
        elif txt:
            yield doc(ud(n, txt[:-1] + b"=")), "userdata:n%d:pad0to1" % n
            yield doc(ud(n, txt[:-2] + b"==")), "userdata:n%d:pad0to2" % n
        for k in (1, 2, 3, 4):
            if len(txt) >= k:
                yield doc(ud(n, txt[:-k])), "userdata:n%d:cut%d" % (n, k)
            yield doc(ud(n, txt + b"QUJD"[:k])), "userdata:n%d:ext%d" % (n, k)
        if txt:
            yield doc(ud(n, b"=" + txt[1:])), "userdata:n%d:pad-first" % n
            yield doc(ud(n, txt[:1] + b"=" + txt[2:])), "userdata:n%d:pad-second" % n
            mid = len(txt) // 2
            for bad in (b"!", b"-", b"_", b" ", b"\t", b"\xff", b"&amp;"):
                yield doc(ud(n, txt[:mid] + bad + txt[mid + 1:])), "userdata:n%d:char-%s" % (n, bad.hex())
            yield doc(ud(n, txt + b"====")), "userdata:n%d:pad-extra" % n
            yield doc(ud(n, txt.rstrip(b"=") + b" = = ")), "userdata:n%d:pad-spaced" % n
        for enc in (b"", b' encoding="normal"', b' encoding="base64 "', b' encoding="BASE64"', b' encoding=""', b' encoding="base64" encoding="x"'):
            yield doc(ud(n, txt, enc=enc)), "userdata:n%d:enc-%s" % (n, enc.hex()[:12])
        for nm in (b"", b' name=""', b' name="&quot;&amp;"', b' name="' + b"n" * 300 + b'"'):
            yield doc(ud(n, txt, name=nm)), "userdata:n%d:name%d" % (n, len(nm))
        yield doc(ud(None, txt)), "userdata:n%d:no-length" % n
        yield doc(ud(n, txt) + ud(n, txt) + ud(max(n - 1, 0), txt)), "userdata:n%d:several" % n


def b64_cases(lengths):
    """(targsize, text) pairs for the direct differential test of hwloc_decode_from_base64: every target size
    from 0 to need+2 for valid and slightly damaged encodings of every given length"""
    import base64 as b64
    for n in lengths:
        raw = bytes((91 * i + 3 * n) % 256 for i in range(n))
        txt = b64.b64encode(raw)
        variants = [txt, txt.rstrip(b"="), txt[:-1], txt + b"A", txt + b"=", txt[:-1] + b"A" if txt else b"A", txt[:-2] + b"AA" if len(txt) > 1 else b"AA",
                    txt[:-2] + b"A=" if len(txt) > 1 else b"A=", b" " + txt + b" \n", txt[:1] + b"\t" + txt[1:], txt[:len(txt) // 2] + b"!" + txt[len(txt) // 2:], b"=" + txt]
        for v in variants:
            if b"\n" in v.strip(b"\n") or b"\x00" in v:
                continue
            for t in sorted(set([0, 1, max(n - 2, 0), max(n - 1, 0), n, n + 1, n + 2])):
                yield t, v


# ------------------------------------------------ strict parser for the import model ----
# Documents on which the built-in tokenizer's behaviour is the plain one: header lines, an exact
# <topology version="M.m"> tag, tags <name attr="value" .../> with [a-z0-9_] names, values without < > and with the
# seven entities only, text only right after an opening tag, balanced closing tags.  Anything else -> None
# ("lexically irregular": left to the tokenizer correspondence, not judged by the import model).
_TAGRE = re.compile(rb'<([a-z0-9_]+)((?:[ \t\r\n]+[a-z_]+="[^"<>]*")*)[ \t\r\n]*(/?)>')
_ATTRRE = re.compile(rb'[ \t\r\n]+([a-z_]+)="([^"<>]*)"')
_ENT = {b"&#10;": b"\n", b"&#13;": b"\r", b"&#9;": b"\t", b"&quot;": b'"', b"&lt;": b"<", b"&gt;": b">", b"&amp;": b"&"}


def _unescape(v):
    out, i = b"", 0
    while i < len(v):
        if v[i:i + 1] == b"&":
            for e, c in _ENT.items():
                if v.startswith(e, i):
                    out += c
                    i += len(e)
                    break
            else:
                return None
        else:
            out += v[i:i + 1]
            i += 1
    return out


def parse_strict(data):
    """-> (major, minor, [elements]) with element = [tag, [(name, value)], content, closed, [children]], or None"""
    if b"\x00" in data:
        return None
    pos = 0
    while data.startswith((b"<?xml ", b"<!DOCTYPE "), pos):
        nl = data.find(b"\n", pos)
        if nl < 0:
            return None
        pos = nl + 1
    m = re.compile(rb'<topology version="(\d{1,9})\.(\d{1,9})">').match(data, pos)
    if not m:
        return None
    major, minor = int(m.group(1)), int(m.group(2))
    pos = m.end()
    top = []
    stack = [[b"topology", [], b"", False, top]]
    fresh = False            # right after an opening tag: text is that element's content
    while True:
        lt = data.find(b"<", pos)
        if lt < 0:
            return None
        text = data[pos:lt]
        if fresh:
            stack[-1][2] = text
        elif text.strip(b" \t\r\n"):
            return None
        fresh = False
        if data.startswith(b"</", lt):
            gt = data.find(b">", lt)
            if gt < 0 or data[lt + 2:gt] != stack[-1][0]:
                return None
            stack.pop()
            pos = gt + 1
            if not stack:
                return major, minor, top
            continue
        m = _TAGRE.match(data, lt)
        if not m:
            return None
        # the built-in tokenizer wants exactly one blank between the tag name and the first attribute
        if m.group(2) and not m.group(2).startswith(b" "):
            return None
        attrs = []
        for a in _ATTRRE.finditer(m.group(2)):
            v = _unescape(a.group(2))
            if v is None or b"\x00" in v:
                return None
            attrs.append((a.group(1), v))
        el = [m.group(1), attrs, b"", bool(m.group(3)), []]
        stack[-1][4].append(el)
        pos = m.end()
        if not m.group(3):
            stack.append(el)
            fresh = True


def serialize_doc(ident, parsed):
    major, minor, top = parsed
    out = [b"DOC %s %d %d" % (ident.encode(), major, minor)]

    def hx(b):
        return b.hex().encode() if b else b"-"

    def rec(el, depth):
        out.append(b"E %s %d %s" % (hx(el[0]), 1 if el[3] else 0, hx(el[2])))
        for n, v in el[1]:
            out.append(b"A %s %s" % (hx(n), hx(v)))
        if depth < 400:
            for c in el[4]:
                rec(c, depth + 1)
        out.append(b"X")

    for el in top:
        rec(el, 0)
    out.append(b"ENDDOC")
    return b"\n".join(out) + b"\n"
