"""C05 generators: annotation scripts for harness/hwv_xmlrt.c, the documented
export string filter, and a line-level shrinker."""
import os

from hv import common as C
from gen import topo_sources as S


def hx(b):
    if b is None:
        return "-"
    if isinstance(b, str):
        b = b.encode("latin-1")
    return "s" + b.hex()


def unhx(s):
    if s == "-":
        return None
    return bytes.fromhex(s[1:])


def xml_char_valid(c):
    """HWLOC_XML_CHAR_VALID (topology-xml.c) on an unsigned byte value.  The C macro is applied to a plain `char`:
    bytes >= 0x80 are negative there and therefore invalid as well."""
    return (32 <= c <= 126) or c in (9, 10, 13)


def safe_filter(b):
    """hwloc__xml_export_safestrdup: drop every byte outside HWLOC_XML_CHAR_VALID."""
    if b is None:
        return None
    return bytes(c for c in b if xml_char_valid(c))


def xml_safe(b):
    return b is None or all(xml_char_valid(c) for c in b)


ESC = b"&<>\"'\t\n\r"
INVALID = bytes([1, 2, 8, 11, 12, 14, 27, 31, 127, 128, 0xa0, 0xc3, 0xe9, 0xff])
WORDS = [b"Backend", b"CPUModel", b"Intel(R) Xeon(R) CPU", b"x", b"lstopoStyle", b"Background=#ff0000", b"a b", b"0", b"-1", b"&amp;", b"&#10;",
         b"&quot", b"<object>", b"</info>", b"]]>", b"<!--", b"\"/>", b"name=\"v\"", b"'", b"''", b" ", b"  lead", b"trail  ", b"\t", b"\n", b"\r\n", b"\r"]


def gen_string(rng, allow_empty=True, allow_invalid=True):
    """(bytes, class)"""
    r = rng.random()
    if r < 0.25:
        return rng.choice(WORDS[:9]), "plain"
    if r < 0.55:
        n = rng.randint(1, 12)
        out = bytearray()
        for _ in range(n):
            k = rng.random()
            if k < 0.45:
                out.append(rng.choice(ESC))
            else:
                out.append(rng.randint(32, 126))
        return bytes(out), "escape"
    if r < 0.70:
        return rng.choice(WORDS), "word"
    if r < 0.78 and allow_empty:
        return b"", "empty"
    if r < 0.90 and allow_invalid:
        n = rng.randint(1, 8)
        out = bytearray()
        for _ in range(n):
            k = rng.random()
            if k < 0.4:
                out.append(rng.choice(INVALID))
            elif k < 0.6:
                out.append(rng.choice(ESC))
            else:
                out.append(rng.randint(33, 126))
        if xml_safe(bytes(out)):
            out.append(rng.choice(INVALID))
        return bytes(out), "invalid"
    if r < 0.95:
        n = rng.choice([255, 256, 300, 1000])
        return bytes(rng.choice(b"abc&<z \"") for _ in range(n)), "long"
    return bytes(rng.randint(32, 126) for _ in range(rng.randint(1, 30))), "plain"


def gen_userdata(rng):
    """(b64 flag 0/1/2(auto), name or None, bytes, class)"""
    r = rng.random()
    if r < 0.35:
        n = rng.choice([0, 1, 2, 3, 4, 5, 6, 7, 8, 9, 30, 31, 32, 33, 299, 300, 301])
        data = bytes(rng.randint(0, 255) for _ in range(n))
        if n and rng.random() < 0.5:
            data = data[:rng.randrange(n)] + b"\0" + data[rng.randrange(n) + 1:] if n > 1 else b"\0"
        flag, cls = 1, "binary%d" % (len(data) % 3)
    elif r < 0.6:
        n = rng.choice([0, 1, 2, 3, 5, 17, 64])
        data = bytes(rng.choice(b"abcdefghijklmnopqrstuvwxyz0123456789 _-.:/") for _ in range(n))
        flag, cls = rng.choice([0, 0, 1, 2]), "printable"
    elif r < 0.8:
        n = rng.randint(1, 20)
        data = bytes(rng.choice(b"ab<>&\"' \t\n\r;#xlgtampquo") for _ in range(n))
        flag, cls = 0, "markup"
    elif r < 0.88:
        data = bytes(rng.choice(b" \t\n\r") for _ in range(rng.randint(1, 4)))
        flag, cls = 0, "blank"
    elif r < 0.94:
        data = bytes(rng.choice([1, 65, 200, 10]) for _ in range(rng.randint(1, 6)))
        flag, cls = 0, "plain-invalid"     # hwloc_export_obj_userdata must refuse (EINVAL) unless all bytes valid
    else:
        n = rng.choice([12000, 17000, 40000])
        data = bytes(rng.randint(0, 255) for _ in range(n)) if rng.random() < 0.5 else bytes(rng.choice(b"abcdefg hij") for _ in range(n))
        flag, cls = 2, "big"
    nr = rng.random()
    if nr < 0.3:
        name = None
    elif nr < 0.85:
        name, _ = gen_string(rng, allow_invalid=False)
        if len(name) > 300:
            name = name[:40]
    else:
        name, _ = gen_string(rng)
        if len(name) > 300:
            name = name[:40]
    return flag, name, data, cls


NORMAL_TYPES = [1, 2, 3, 4, 5, 6, 7, 13, 14]


def gen_annotations(rng, rich=1.0, unsafe_names=False):
    """Returns (lines, classes set).  Object numbers are arbitrary: the harness reduces them modulo the object count."""
    lines, classes = [], set()
    K = lambda: rng.randint(0, 400)
    if rng.random() < 0.25 * rich:
        lines.append("ann restrict %d %d" % (K(), rng.choice([0, 0, 1, 2, 4])))
        classes.add("restrict")
    for _ in range(rng.randint(0, int(2 * rich))):
        lines.append("ann group %d %d %d %d %d" % (K(), K(), rng.choice([0, 1, 1]), rng.choice([0, 1, 7, 4294967295]), rng.choice([0, 3, 4294967295])))
        classes.add("group")
    for _ in range(rng.randint(0, int(3 * rich))):
        s, c = gen_string(rng)
        lines.append("ann misc %d %s" % (K(), hx(s)))
        classes.add("misc")
        classes.add("str:" + c)
    for _ in range(rng.randint(0, int(4 * rich))):
        s, c = gen_string(rng)
        lines.append("ann name %d %s" % (K(), hx(s)))
        classes.add("str:" + c)
    for _ in range(rng.randint(0, int(3 * rich))):
        s, c = gen_string(rng, allow_empty=rng.random() < 0.3)
        lines.append("ann subtype %d %s" % (K(), hx(s)))
        classes.add("str:" + c)
    for _ in range(rng.randint(0, int(6 * rich))):
        n, c1 = gen_string(rng)
        v, c2 = gen_string(rng)
        k = K()
        lines.append("ann info %d %s %s" % (k, hx(n), hx(v)))
        if rng.random() < 0.2:
            lines.append("ann info %d %s %s" % (k, hx(n), hx(gen_string(rng)[0])))   # duplicate name: order matters
        classes.add("str:" + c1)
        classes.add("str:" + c2)
    for _ in range(rng.randint(0, int(2 * rich))):
        n, c1 = gen_string(rng)
        v, c2 = gen_string(rng)
        lines.append("ann tinfo %s %s" % (hx(n), hx(v)))
        classes.add("tinfo")
    for _ in range(rng.randint(0, int(5 * rich))):
        flag, name, data, cls = gen_userdata(rng)
        k = K()
        lines.append("ann ud %d %d %s %s" % (k, flag, hx(name), hx(data)))
        classes.add("ud:" + cls)
        if rng.random() < 0.3:
            flag, name, data, cls = gen_userdata(rng)
            lines.append("ann ud %d %d %s %s" % (k, flag, hx(name), hx(data)))
            classes.add("ud:" + cls)
    for _ in range(rng.randint(0, int(2 * rich))):
        n = rng.randint(0, 3)
        vals = []
        # hwloc keeps page types sorted by size and drops zero sizes when the topology is connected: generate that form
        for sz in sorted(rng.sample([1, 4096, 2097152, 1073741824, 18446744073709551615], n)):
            vals += [sz, rng.choice([0, 1, 262144, 18446744073709551615])]
        lines.append("ann pagetypes %d %d %s" % (K(), n, " ".join(map(str, vals))))
        classes.add("pagetypes")
    for _ in range(rng.randint(0, int(2 * rich))):
        lines.append("ann cache %d %d %d %d" % (K(), rng.choice([0, 32768, 4294967296, 18446744073709551615]), rng.choice([0, 64, 4294967295]), rng.choice([-1, 0, 8, 2147483647])))
        classes.add("cacheattr")
    # boundary values of the attributes printed with a width / parsed with sscanf (apply where the topology has such objects)
    for _ in range(rng.randint(0, int(3 * rich))):
        fld = rng.choice(["class", "vendor", "device", "subvendor", "subdevice", "revision", "prog_if", "linkspeed64", "domain", "domain"])
        val = {"revision": [0, 255, 16], "prog_if": [0, 255, 1], "linkspeed64": [0, 1, 64, 1008, 16384, 63],
               "domain": [0x10000, 0xffff, 0xffffffff, 0x12345, 1]}.get(fld, [0, 0xffff, 0x100, 0xabc])
        lines.append("ann pci %d %s %d" % (K(), fld, rng.choice(val)))
        classes.add("pciattr")
    for _ in range(rng.randint(0, int(2 * rich))):
        lines.append("ann osindex %d %d" % (K(), rng.choice([0, 2147483647, 2147483648, 4294967294, 65536])))
        classes.add("osindex")
    for _ in range(rng.randint(0, int(2 * rich))):
        nm = rng.choice([b"NUMALatency", b"MyDist", b"a b", b"x&y<z>\"q\"", b"t\tab"]) if not unsafe_names else rng.choice([b"bad\x01name", b"caf\xc3\xa9", b"hi\xff"])
        kind = rng.choice([1, 2]) | rng.choice([4, 8, 32])    # FROM_OS/USER | LATENCY/BANDWIDTH/HOPS
        if rng.random() < 0.4:
            t1, t2 = rng.sample(NORMAL_TYPES, 2)
            lines.append("ann disthet %d %d %d %d %s" % (t1, t2, kind, rng.randint(0, 50), hx(nm)))
            classes.add("disthet")
        else:
            lines.append("ann dist %d %d %d %s" % (rng.choice(NORMAL_TYPES), kind, rng.randint(0, 50), hx(nm)))
            classes.add("dist")
    if rng.random() < 0.4 * rich:
        for _ in range(rng.randint(1, 2)):
            nm = rng.choice([b"MyAttr", b"Attr two", b"q&a", b"lt<gt>"]) + bytes([rng.randint(97, 122)])
            if unsafe_names:
                nm += b"\x02\xe9"
            lines.append("ann mattrreg %s %d" % (hx(nm), rng.choice([1, 2, 5, 6])))
        classes.add("mattrreg")
    for _ in range(rng.randint(0, int(5 * rich))):
        lines.append("ann mattr %d %d %s %d %d" % (rng.randint(0, 9), K(), rng.choice("cco"), K(), rng.choice([0, 1, 100, 4294967296, 18446744073709551615])))
        classes.add("mattr")
    for _ in range(rng.randint(0, int(2 * rich))):
        ni = rng.randint(0, 3)
        infos = []
        for _ in range(ni):
            infos += [hx(gen_string(rng, allow_empty=False)[0][:40]), hx(gen_string(rng)[0][:60])]
        lines.append("ann cpukind %d %d %d %s" % (K(), rng.choice([-1, -1, 0, 1, 5, 2147483647]), ni, " ".join(infos)))
        classes.add("cpukind")
    return lines, classes


def gen_dirty_tail(rng):
    """Modifying calls to run last, immediately before the export (no query in between): some distances / memattrs / cpukinds
    first so that there is something to invalidate, then 1-3 of the calls that leave internal caches to be refreshed."""
    K = lambda: rng.randint(0, 400)
    lines = []
    for _ in range(rng.randint(1, 2)):
        kind = rng.choice([1, 2]) | rng.choice([4, 8, 32])
        if rng.random() < 0.4:
            t1, t2 = rng.sample(NORMAL_TYPES, 2)
            lines.append("ann disthet %d %d %d %d %s" % (t1, t2, kind, rng.randint(0, 50), hx(b"DH")))
        else:
            lines.append("ann dist %d %d %d %s" % (rng.choice([4, 4, 14, 1, 6, 3]), kind, rng.randint(0, 50), hx(b"DD")))
    if rng.random() < 0.5:
        lines.append("ann mattr %d %d %s %d %d" % (rng.randint(0, 9), K(), rng.choice("cco"), K(), rng.choice([1, 100])))
    if rng.random() < 0.4:
        lines.append("ann cpukind %d %d 0" % (K(), rng.choice([-1, 0, 5])))
    for _ in range(rng.randint(1, 3)):
        r = rng.random()
        if r < 0.4:
            lines.append("ann restrict %d %d" % (K(), rng.choice([0, 0, 1, 2, 4])))
        elif r < 0.6:
            lines.append("ann restrictnode %d %d" % (K(), rng.choice([0, 16, 0])))
        elif r < 0.7:
            lines.append("ann dist %d 5 %d %s" % (rng.choice([4, 14, 1]), rng.randint(0, 50), hx(b"Late")))
        elif r < 0.75:
            lines.append("ann distremove")
        elif r < 0.82:
            lines.append("ann group %d %d 1 0 0" % (K(), K()))
        elif r < 0.88:
            lines.append("ann misc %d %s" % (K(), hx(b"late misc")))
        elif r < 0.94:
            lines.append("ann info %d %s %s" % (K(), hx(b"late"), hx(b"v")))
        else:
            lines.append("ann subtype %d %s" % (K(), hx(b"late")))
    return lines


def xml_sources(rng, quick):
    xs = S.xml_corpus()
    return xs


def shrink_lines(lines, keep, still_fails):
    """Greedy one-at-a-time removal of the lines for which keep(line) is False
    while still_fails(lines) holds."""
    cur = list(lines)
    changed = True
    while changed:
        changed = False
        for i in range(len(cur) - 1, -1, -1):
            if keep(cur[i]):
                continue
            cand = cur[:i] + cur[i + 1:]
            if still_fails(cand):
                cur = cand
                changed = True
    return cur
