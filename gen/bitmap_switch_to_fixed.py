#!/usr/bin/env python3
"""C03: switch the model and the property file to the code WITH
patches/fix-C03-compare-first.diff applied (run once, after the fix: commit
landed in /repo):
  * coq/Bitmap/BitmapModel.v   compare_first_last_line_fixed := true
  * coq/Props/Properties_C03.v drop the AS-FOUND block (compare_first_refuted,
    compare_first_partial), enable the FIXED block (compare_first_spec)
The known_findings.txt line `key=compare_first-empty-vs-infinite-from-64k` must
then be turned into a `fixed:` line by hand (it needs the commit id); the
regression input stays in corpus/c03/compare_first_empty_vs_from64.case.
`--revert` undoes the switch (git checkout of the two files)."""
import os
import re
import subprocess
import sys

V = os.path.dirname(os.path.dirname(os.path.abspath(__file__)))
M = os.path.join(V, "coq/Bitmap/BitmapModel.v")
P = os.path.join(V, "coq/Props/Properties_C03.v")

if "--revert" in sys.argv:
    subprocess.check_call(["git", "-C", V, "checkout", "--", M, P])
    sys.exit(0)
s = open(M).read()
assert "Definition compare_first_last_line_fixed : bool := false." in s, "already switched?"
open(M, "w").write(s.replace("Definition compare_first_last_line_fixed : bool := false.",
                             "Definition compare_first_last_line_fixed : bool := true."))
s = open(P).read()
s2 = re.sub(r"\(\* BEGIN AS-FOUND \*\).*?\(\* END AS-FOUND \*\)\n", "", s, flags=re.S)
s2 = s2.replace("(* BEGIN FIXED\n", "").replace("END FIXED *)\n", "")
assert s2 != s
open(P, "w").write(s2)
print("switched: BitmapModel.v flag = true, Properties_C03.v now states compare_first_spec")
