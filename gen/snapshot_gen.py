"""C18 generators: removable paths of an unpacked snapshot, removal sets,
delta-debugging of a removal set, and the file contents fed to the sysfs
parsers (structured kernel-format texts + a hostile stream)."""
import os
import re

DIGIT_END = re.compile(r"\d$")


def removable_paths(root):
    """Paths (relative to root) that real systems may lack: regular files,
    symlinks, and directories whose name does not end in a digit.  A numbered
    instance directory (cpu3, node0, index2, 0000:00:1f.2 ...) is never removable
    on its own; it disappears only with a removable ancestor."""
    res = []
    for d, dirs, files in os.walk(root):
        rel = os.path.relpath(d, root)
        for n in files:
            res.append(os.path.normpath(os.path.join(rel, n)))
        keep = []
        for n in dirs:
            p = os.path.join(d, n)
            r = os.path.normpath(os.path.join(rel, n))
            if os.path.islink(p):
                res.append(r)          # symlink to a directory: os.walk does not follow it
            else:
                if not DIGIT_END.search(n):
                    res.append(r)
                keep.append(n)
        dirs[:] = keep
    return sorted(res)


def normalise(paths):
    """Drop paths lying inside another removed directory (already gone with it)."""
    ps = sorted(set(paths))
    out = []
    for p in ps:
        if not any(p.startswith(q + "/") for q in out):
            out.append(p)
    return out


def interest(p):
    """Sampling weight: the files the CPU/memory discovery actually reads."""
    w = 1.0
    if "devices/system/cpu" in p or "devices/system/node" in p:
        w = 6.0
    if re.search(r"(topology|cache)(/|$)", p):
        w = 10.0
    if re.search(r"(cpumap|cpulist|online|possible|present|meminfo|distance|_siblings|_cpus|shared_cpu_map|core_id|physical_package_id|cpuinfo|cgroup|cpuset|mounts|hugepages|access\d|initiators|memory_side_cache|dmi|firmware|kernel/mm|cpu_capacity|cpufreq)", p):
        w *= 2.0
    return w


def random_set(rng, pool, maxn=40):
    """A random removal set: size distribution biased to small sets, paths biased
    to the ones discovery reads."""
    if not pool:
        return []
    k = rng.choice([1, 1, 2, 2, 3, 4, 6, 10, 20, maxn])
    k = min(k, len(pool))
    ws = [interest(p) for p in pool]
    chosen = set()
    for p in rng.choices(pool, weights=ws, k=k * 2):
        chosen.add(p)
        if len(chosen) >= k:
            break
    return normalise(chosen)


def ddmin(items, fails):
    """Delta debugging (Zeller): a 1-minimal sublist of `items` for which
    fails(sublist) is still true.  fails(items) must be true."""
    items = list(items)
    n = 2
    while len(items) >= 2:
        chunk = max(1, len(items) // n)
        subsets = [items[i:i + chunk] for i in range(0, len(items), chunk)]
        reduced = False
        for s in subsets:
            if fails(s):
                items, n, reduced = s, 2, True
                break
        if not reduced:
            for s in subsets:
                comp = [x for x in items if x not in s]
                if comp and fails(comp):
                    items, n, reduced = comp, max(n - 1, 2), True
                    break
        if not reduced:
            if n >= len(items):
                break
            n = min(len(items), 2 * n)
    if len(items) == 1 and fails([]):
        return []
    return items


# ---------------------------------------------------------------------------
# parser inputs
# ---------------------------------------------------------------------------

BOUNDARY_BITS = [0, 1, 30, 31, 32, 33, 62, 63, 64, 65, 95, 96, 127, 128, 129, 255, 256, 511, 512, 513, 1023, 1024]


def gen_sets(rng, count):
    """Finite sets (as Python ints) in the shapes kernels print: ranges, sparse
    bits, word boundaries, many chunks."""
    res = [0, 1, 2, 3, 1 << 31, 1 << 32, (1 << 32) - 1, (1 << 64) - 1, 1 << 64, (1 << 33) | 1]
    for b in BOUNDARY_BITS:
        res.append(1 << b)
        res.append((1 << (b + 1)) - 1)
        res.append((1 << b) | 1)
    while len(res) < count:
        shape = rng.random()
        nb = rng.choice([4, 8, 16, 33, 64, 70, 128, 200, 600, 2000])
        if shape < 0.35:
            v = rng.getrandbits(nb)
        elif shape < 0.7:
            v = 0
            for _ in range(rng.randint(1, 6)):
                a = rng.randrange(nb)
                b = min(nb - 1, a + rng.choice([0, 0, 1, 3, 7, 31, 63]))
                v |= ((1 << (b - a + 1)) - 1) << a
        else:
            v = 0
            for _ in range(rng.randint(1, 5)):
                v |= 1 << rng.randrange(nb)
        res.append(v)
    return res


CURATED_LIST = [b"", b"\n", b"0", b"0\n", b",", b",,\n", b"-", b"--", b"0-", b"-0", b"3-1\n", b"3-1,5\n", b"5,3\n", b"1,1,1\n",
                b"0-3,2-5\n", b" 1, 2\n", b"\t4 - 6\n", b"1-2-3\n", b"+3\n", b"010\n", b"0x10\n", b"0x\n", b"0xg\n", b"1 2,4\n",
                b"a\n", b"1,a,3\n", b"1\x002\n", b"\x00", b"7\x00,9\n", b"1,\n", b",1\n", b"1,,3\n", b"0-0\n", b"2-2,2\n",
                b"4294967295\n", b"4294967296\n", b"4294967297\n", b"18446744073709551615\n", b"18446744073709551616\n",
                b"99999999999999999999999999\n", b"-1\n", b"5,-1\n", b"3,4294967295\n", b"1-4294967295\n",
                b"0-63\n", b"0-64\n", b"64\n", b"63,64\n", b"0-31,33-63,65\n"]
# undefined behaviour in the C code (signed overflow): expected to trap under UBSan.  (text, model_affordable):
# where the C code first clears a range of 2^31 bits the extracted model (strict OCaml, binary N) cannot follow;
# for "2147483647\n" the model's verdict is the Coq lemma cpulist_overflow_witness.
CURATED_LIST_UB = [(b"2147483647\n", False), (b"0,2147483647\n", False), (b"-2147483648\n", True), (b"2147483648\n", True),
                   (b"0-2147483647,5\n", True), (b"6442450943\n", False), (b"3,2147483648,4\n", True)]
CURATED_MASK = [b"", b"\n", b"0", b"0\n", b"1\n", b",", b",1\n", b"1,\n", b"0,0,0\n", b"0,0,1\n", b"00000000,00000000\n", b"1,0\n",
                b"ffffffff\n", b"ffffffff,ffffffff\n", b"1,00000000,00000000\n", b"1ffffffff\n", b"1ffffffff,1\n", b"ffffffffffffffff\n",
                b"ffffffffffffffff,1\n", b"1,ffffffffffffffff\n", b"10000000000000000\n", b"fffffffffffffffff,0\n", b"0x1\n", b"0x\n", b"0x,1\n", b"0X1f,0x2\n",
                b"-1\n", b"-1,0\n", b"+1\n", b" 1\n", b" 1, 2\n", b"1 junk,2\n", b"g\n", b"1,g,2\n", b"1,,2\n", b"x\n", b"1\x00,2\n", b"\x00",
                b"0,1\x00,2\n", b"00000001,00000000,00000000,00000000\n", b"f" * 40 + b"\n", b"0," * 30 + b"8\n", b"1" + b",0" * 20 + b"\n"]


def hostile_bytes(rng, alphabet, maxlen):
    n = rng.choice([0, 1, 2, 3, 5, 8, 13, 21, maxlen])
    return bytes(rng.choice(alphabet) for _ in range(n))


LIST_ALPHA = b"0123456789,,,---\n\n  x+a\x00"
MASK_ALPHA = b"0123456789abcdefABCDEF,,,,\n\n  x+-g\x00"


def _strtoul0(s, i):
    """glibc strtoul(s+i, &end, 0) on a bytes object ending with NUL: (value, end)."""
    j = i
    while s[j] in b" \t\n\v\f\r":
        j += 1
    neg = False
    if s[j] in b"+-":
        neg = s[j] == 0x2d
        j += 1
    base = 10
    if s[j] == 0x30:
        if s[j + 1] in b"xX" and chr(s[j + 2]) in "0123456789abcdefABCDEF":
            base, j = 16, j + 2
        else:
            base = 8
    digs = {8: "01234567", 10: "0123456789", 16: "0123456789abcdefABCDEF"}[base]
    k = j
    v = 0
    while chr(s[k]) in digs and s[k] != 0:
        v = v * base + int(chr(s[k]), 16)
        k += 1
    if k == j:
        return 0, i
    v = min(v, 2 ** 64 - 1)
    if neg:
        v = (2 ** 64 - v) % 2 ** 64
    return v, k


def safe_list_text(b, limit=1 << 13):
    """Generator filter only (never an oracle): emulates hwloc__read_path_as_cpulist far enough to tell whether
    it would clear a range starting or ending beyond `limit` - a number >= 2^31 (mod 2^32) becomes a negative
    int and then a multi-hundred-megabyte bitmap, which neither the sanitized build nor the model driver can
    afford.  The boundary values themselves are in the curated lists."""
    s = bytearray(b.split(b"\0")[0] + b"\0\0\0")

    def to_int(v):
        m = v % 2 ** 32
        return m if m < 2 ** 31 else m - 2 ** 32
    cur, prevlast = 0, -1
    while True:
        comma = s.find(b",", cur)
        end = s.index(0, cur)
        if comma < 0 or comma > end:
            comma = -1
        else:
            s[comma] = 0
        v, tmp = _strtoul0(s, cur)
        nf = to_int(v)
        nl = to_int(_strtoul0(s, tmp + 1)[0]) if s[tmp] == 0x2d else nf
        for x in (prevlast, nf, nl):
            if not (-1 <= x < limit):
                return False
        prevlast = nl
        if comma < 0:
            return True
        cur = comma + 1


def mutate(rng, b, alphabet):
    b = bytearray(b)
    for _ in range(rng.randint(1, 3)):
        op = rng.random()
        pos = rng.randrange(len(b) + 1)
        if op < 0.35 and b:
            del b[min(pos, len(b) - 1)]
        elif op < 0.7:
            b.insert(pos, rng.choice(alphabet))
        elif b:
            b[min(pos, len(b) - 1)] = rng.choice(alphabet)
    return bytes(b)
