"""C18 generators: removable paths of an unpacked snapshot, removal sets,
delta-debugging of a removal set, and the file contents fed to the sysfs
parsers (structured kernel-format texts + a hostile stream)."""
import os
import re

DIGIT_END = re.compile(r"\d$")


def removable_paths(root):
    """Paths (relative to root) that real systems may lack: regular files,
    symlinks, and directories whose name does not end in a digit.  A numbered
    instance directory (cpu3, node0, index2, 0000:00:1f.2 ...) is never removable
    on its own; it disappears only with a removable ancestor."""
    res = []
    for d, dirs, files in os.walk(root):
        rel = os.path.relpath(d, root)
        for n in files:
            res.append(os.path.normpath(os.path.join(rel, n)))
        keep = []
        for n in dirs:
            p = os.path.join(d, n)
            r = os.path.normpath(os.path.join(rel, n))
            if os.path.islink(p):
                res.append(r)          # symlink to a directory: os.walk does not follow it
            else:
                if not DIGIT_END.search(n):
                    res.append(r)
                keep.append(n)
        dirs[:] = keep
    return sorted(res)


def normalise(paths):
    """Drop paths lying inside another removed directory (already gone with it)."""
    ps = sorted(set(paths))
    out = []
    for p in ps:
        if not any(p.startswith(q + "/") for q in out):
            out.append(p)
    return out


def interest(p):
    """Sampling weight: the files the CPU/memory discovery actually reads."""
    w = 1.0
    if "devices/system/cpu" in p or "devices/system/node" in p:
        w = 6.0
    if re.search(r"(topology|cache)(/|$)", p):
        w = 10.0
    if re.search(r"(cpumap|cpulist|online|possible|present|meminfo|distance|_siblings|_cpus|shared_cpu_map|core_id|physical_package_id|cpuinfo|cgroup|cpuset|mounts|hugepages|access\d|initiators|memory_side_cache|dmi|firmware|kernel/mm|cpu_capacity|cpufreq)", p):
        w *= 2.0
    return w


def random_set(rng, pool, maxn=40):
    """A random removal set: size distribution biased to small sets, paths biased
    to the ones discovery reads."""
    if not pool:
        return []
    k = rng.choice([1, 1, 2, 2, 3, 4, 6, 10, 20, maxn])
    k = min(k, len(pool))
    ws = [interest(p) for p in pool]
    chosen = set()
    for p in rng.choices(pool, weights=ws, k=k * 2):
        chosen.add(p)
        if len(chosen) >= k:
            break
    return normalise(chosen)


def ddmin(items, fails):
    """Delta debugging (Zeller): a 1-minimal sublist of `items` for which
    fails(sublist) is still true.  fails(items) must be true."""
    items = list(items)
    n = 2
    while len(items) >= 2:
        chunk = max(1, len(items) // n)
        subsets = [items[i:i + chunk] for i in range(0, len(items), chunk)]
        reduced = False
        for s in subsets:
            if fails(s):
                items, n, reduced = s, 2, True
                break
        if not reduced:
            for s in subsets:
                comp = [x for x in items if x not in s]
                if comp and fails(comp):
                    items, n, reduced = comp, max(n - 1, 2), True
                    break
        if not reduced:
            if n >= len(items):
                break
            n = min(len(items), 2 * n)
    if len(items) == 1 and fails([]):
        return []
    return items


# ---------------------------------------------------------------------------
# parser inputs
# ---------------------------------------------------------------------------

BOUNDARY_BITS = [0, 1, 30, 31, 32, 33, 62, 63, 64, 65, 95, 96, 127, 128, 129, 255, 256, 511, 512, 513, 1023, 1024]


def gen_sets(rng, count):
    """Finite sets (as Python ints) in the shapes kernels print: ranges, sparse
    bits, word boundaries, many chunks."""
    res = [0, 1, 2, 3, 1 << 31, 1 << 32, (1 << 32) - 1, (1 << 64) - 1, 1 << 64, (1 << 33) | 1]
    for b in BOUNDARY_BITS:
        res.append(1 << b)
        res.append((1 << (b + 1)) - 1)
        res.append((1 << b) | 1)
    while len(res) < count:
        shape = rng.random()
        nb = rng.choice([4, 8, 16, 33, 64, 70, 128, 200, 600, 2000])
        if shape < 0.35:
            v = rng.getrandbits(nb)
        elif shape < 0.7:
            v = 0
            for _ in range(rng.randint(1, 6)):
                a = rng.randrange(nb)
                b = min(nb - 1, a + rng.choice([0, 0, 1, 3, 7, 31, 63]))
                v |= ((1 << (b - a + 1)) - 1) << a
        else:
            v = 0
            for _ in range(rng.randint(1, 5)):
                v |= 1 << rng.randrange(nb)
        res.append(v)
    return res


CURATED_LIST = [b"", b"\n", b"0", b"0\n", b",", b",,\n", b"-", b"--", b"0-", b"-0", b"3-1\n", b"3-1,5\n", b"5,3\n", b"1,1,1\n",
                b"0-3,2-5\n", b" 1, 2\n", b"\t4 - 6\n", b"1-2-3\n", b"+3\n", b"010\n", b"0x10\n", b"0x\n", b"0xg\n", b"1 2,4\n",
                b"a\n", b"1,a,3\n", b"1\x002\n", b"\x00", b"7\x00,9\n", b"1,\n", b",1\n", b"1,,3\n", b"0-0\n", b"2-2,2\n",
                b"4294967295\n", b"4294967296\n", b"4294967297\n", b"18446744073709551615\n", b"18446744073709551616\n",
                b"99999999999999999999999999\n", b"-1\n", b"5,-1\n", b"3,4294967295\n", b"1-4294967295\n",
                b"0-63\n", b"0-64\n", b"64\n", b"63,64\n", b"0-31,33-63,65\n"]
# undefined behaviour in the C code (signed overflow): expected to trap under UBSan.  (text, model_affordable):
# where the C code first clears a range of 2^31 bits the extracted model (strict OCaml, binary N) cannot follow;
# for "2147483647\n" the model's verdict is the Coq lemma cpulist_overflow_witness.
CURATED_LIST_UB = [(b"2147483647\n", False), (b"0,2147483647\n", False), (b"-2147483648\n", True), (b"2147483648\n", True),
                   (b"0-2147483647,5\n", True), (b"6442450943\n", False), (b"3,2147483648,4\n", True)]
CURATED_MASK = [b"", b"\n", b"0", b"0\n", b"1\n", b",", b",1\n", b"1,\n", b"0,0,0\n", b"0,0,1\n", b"00000000,00000000\n", b"1,0\n",
                b"ffffffff\n", b"ffffffff,ffffffff\n", b"1,00000000,00000000\n", b"1ffffffff\n", b"1ffffffff,1\n", b"ffffffffffffffff\n",
                b"ffffffffffffffff,1\n", b"1,ffffffffffffffff\n", b"10000000000000000\n", b"fffffffffffffffff,0\n", b"0x1\n", b"0x\n", b"0x,1\n", b"0X1f,0x2\n",
                b"-1\n", b"-1,0\n", b"+1\n", b" 1\n", b" 1, 2\n", b"1 junk,2\n", b"g\n", b"1,g,2\n", b"1,,2\n", b"x\n", b"1\x00,2\n", b"\x00",
                b"0,1\x00,2\n", b"00000001,00000000,00000000,00000000\n", b"f" * 40 + b"\n", b"0," * 30 + b"8\n", b"1" + b",0" * 20 + b"\n"]


def hostile_bytes(rng, alphabet, maxlen):
    n = rng.choice([0, 1, 2, 3, 5, 8, 13, 21, maxlen])
    return bytes(rng.choice(alphabet) for _ in range(n))


LIST_ALPHA = b"0123456789,,,---\n\n  x+a\x00"
MASK_ALPHA = b"0123456789abcdefABCDEF,,,,\n\n  x+-g\x00"


def _strtoul0(s, i):
    """glibc strtoul(s+i, &end, 0) on a bytes object ending with NUL: (value, end)."""
    j = i
    while s[j] in b" \t\n\v\f\r":
        j += 1
    neg = False
    if s[j] in b"+-":
        neg = s[j] == 0x2d
        j += 1
    base = 10
    if s[j] == 0x30:
        if s[j + 1] in b"xX" and chr(s[j + 2]) in "0123456789abcdefABCDEF":
            base, j = 16, j + 2
        else:
            base = 8
    digs = {8: "01234567", 10: "0123456789", 16: "0123456789abcdefABCDEF"}[base]
    k = j
    v = 0
    while chr(s[k]) in digs and s[k] != 0:
        v = v * base + int(chr(s[k]), 16)
        k += 1
    if k == j:
        return 0, i
    v = min(v, 2 ** 64 - 1)
    if neg:
        v = (2 ** 64 - v) % 2 ** 64
    return v, k


def safe_list_text(b, limit=1 << 13):
    """Generator filter only (never an oracle): emulates hwloc__read_path_as_cpulist far enough to tell whether
    it would clear a range starting or ending beyond `limit` - a number >= 2^31 (mod 2^32) becomes a negative
    int and then a multi-hundred-megabyte bitmap, which neither the sanitized build nor the model driver can
    afford.  The boundary values themselves are in the curated lists."""
    s = bytearray(b.split(b"\0")[0] + b"\0\0\0")

    def to_int(v):
        m = v % 2 ** 32
        return m if m < 2 ** 31 else m - 2 ** 32
    cur, prevlast = 0, -1
    while True:
        comma = s.find(b",", cur)
        end = s.index(0, cur)
        if comma < 0 or comma > end:
            comma = -1
        else:
            s[comma] = 0
        v, tmp = _strtoul0(s, cur)
        nf = to_int(v)
        nl = to_int(_strtoul0(s, tmp + 1)[0]) if s[tmp] == 0x2d else nf
        for x in (prevlast, nf, nl):
            if not (-1 <= x < limit):
                return False
        prevlast = nl
        if comma < 0:
            return True
        cur = comma + 1


def mutate(rng, b, alphabet):
    b = bytearray(b)
    for _ in range(rng.randint(1, 3)):
        op = rng.random()
        pos = rng.randrange(len(b) + 1)
        if op < 0.35 and b:
            del b[min(pos, len(b) - 1)]
        elif op < 0.7:
            b.insert(pos, rng.choice(alphabet))
        elif b:
            b[min(pos, len(b) - 1)] = rng.choice(alphabet)
    return bytes(b)


# ---------------------------------------------------------------------------
# fabricated snapshots: files ADDED or REWRITTEN (ops "+put <relpath> <hex>" / "+ln <relpath> <target>"),
# each scenario with the observable result its source code promises (evaluated on the dump by checks/c18.py)
# ---------------------------------------------------------------------------

def put(path, text):
    if isinstance(text, str):
        text = text.encode()
    return "+put %s %s" % (path, text.hex() or "-")


def ln(path, target):
    return "+ln %s %s" % (path, target)


def nofile_info(arch):
    return put("proc/hwloc-nofile-info", "OSName: Linux\nOSRelease: 5.0.0-verif\nOSVersion: #1\nHostName: verif\nArchitecture: %s\nFallbackNbProcessors: 3\nPageSize: 4096\n" % arch)


IO_ON = ["filter 16 0", "filter 17 0", "filter 18 0"]


def block_dev(name, major_minor, size_sectors, sector, udev_lines, devtype=None, dev_file=True):
    d = "sys/devices/platform/verifhost/block/" + name
    ops = [ln("sys/class/block/" + name, "../../devices/platform/verifhost/block/" + name),
           put(d + "/size", "%d\n" % size_sectors), put(d + "/queue/hw_sector_size", "%d\n" % sector)]
    if dev_file:
        ops.append(put(d + "/dev", major_minor + "\n"))
    if devtype:
        ops.append(put(d + "/device/devtype", devtype + "\n"))
    if udev_lines is not None:
        ops.append(put("run/udev/data/b" + major_minor, "".join(l + "\n" for l in udev_lines)))
    return ops


def knl_layout(cluster, memory, nodes, dist, cache_size=17179869184, hwdata=True):
    """nodes: list of cpumap texts; dist: matrix rows as lists (None = no distance files)."""
    ops = []
    for i, cm in enumerate(nodes):
        nd = "sys/devices/system/node/node%d" % i
        ops.append(put(nd + "/cpumap", cm + "\n"))
        ops.append(put(nd + "/meminfo", "Node %d MemTotal:       %d kB\nNode %d MemFree:        1024 kB\n" % (i, (16 if cm.strip("0,") else 4) * 1024 * 1024, i)))
        if dist:
            ops.append(put(nd + "/distance", " ".join(map(str, dist[i])) + "\n"))
    ops.append(put("sys/devices/system/node/online", "0-%d\n" % (len(nodes) - 1) if len(nodes) > 1 else "0\n"))
    if hwdata:
        txt = "version: 2\ncache_size: %d\nassociativity: 1\ninclusiveness: 1\nline_size: 64\ncluster_mode: %s\nmemory_mode: %s\n" % (cache_size, cluster, memory)
        ops.append(put("var/run/hwloc/knl_memoryside_cache", txt))
    return ops


def pci_config(bridge=None, pcie=None):
    """256-byte PCI config space: bridge=(primary, secondary, subordinate) -> type-1 header; pcie=(gen, lanes) ->
    a capability list holding a PCI Express capability with that link status."""
    c = bytearray(256)
    if bridge:
        c[0x0a], c[0x0b], c[0x0e] = 0x04, 0x06, 0x01
        c[0x18], c[0x19], c[0x1a] = bridge
    c[0x08] = 0x07    # revision
    if pcie:
        c[0x06] |= 0x10
        c[0x34] = 0x40
        c[0x40], c[0x41] = 0x01, 0x50          # a power-management capability first
        c[0x50], c[0x51] = 0x10, 0x00          # PCI Express
        sta = (pcie[0] & 0xf) | ((pcie[1] & 0x3f) << 4)
        c[0x62], c[0x63] = sta & 0xff, sta >> 8
    return bytes(c)


def pci_dev(busid, cls, vendor=0x8086, device=0x1234, config=None, extra=None):
    d = "sys/bus/pci/devices/%s/" % busid
    ops = [put(d + "class", "0x%06x\n" % cls), put(d + "vendor", "0x%04x\n" % vendor), put(d + "device", "0x%04x\n" % device),
           put(d + "subsystem_vendor", "0x1028\n"), put(d + "subsystem_device", "0x0001\n")]
    if config is not None:
        ops.append(put(d + "config", config))
    for k, v in (extra or {}).items():
        ops.append(put(d + k, v))
    return ops


def pci_tree():
    ops = []
    ops += pci_dev("0000:00:01.0", 0x060400, device=0x0101, config=pci_config(bridge=(0, 1, 2)), extra={"local_cpus": "1\n"})
    ops += pci_dev("0000:01:00.0", 0x020000, device=0x1234, config=pci_config(pcie=(3, 8)))
    ops += pci_dev("0000:02:00.0", 0x030000, vendor=0x10de, device=0x2222, extra={"current_link_speed": "8.0 GT/s PCIe\n", "current_link_width": "16\n"})
    ops += pci_dev("0000:00:02.0", 0x060400, device=0x0102, config=pci_config(bridge=(0, 0, 0)))      # invalid bus numbers: ignored
    ops += pci_dev("0000:00:03.0", 0x060400, device=0x0103, config=pci_config())                       # bridge class, type-0 header: a plain device
    ops += pci_dev("00000:01:00.0", 0x020000, device=0x9999)                                          # same bus id as 0000:01:00.0: ignored
    ops += pci_dev("notabusid", 0x020000)
    ops += [ln("sys/class/net/eth9", "../../devices/pci0000:00/0000:00:01.0/0000:01:00.0/net/eth9"),
            put("sys/devices/pci0000:00/0000:00:01.0/0000:01:00.0/net/eth9/address", "02:00:00:00:00:09\n")]
    return ops


def scenarios():
    """[(name, base snapshot (file name without .tar.bz2), ops, env additions, filter lines, expectation)]
    expectation keys: load (0 | 'any'), objs (each pattern must match an object), none (patterns matching nothing),
    count ([type, n]), rootinf ({name: value} infos of the Machine), kinds_n."""
    S = []
    half0, half1, zero = "00000000,ffffffff", "ffffffff,00000000", "00000000,00000000"
    # --- OS devices of classes no bundled snapshot has
    S.append(("bxi", "2arm-2c", [ln("sys/class/bxi/bxi0", "../../devices/platform/verifbxi/bxi0"), put("sys/devices/platform/verifbxi/bxi0/uuid", "0123-abcd\n"),
                                  ln("sys/class/bxi/bxi1", "../../devices/platform/verifbxi/bxi1"), put("sys/devices/platform/verifbxi/bxi1/other", "x\n")],
              {}, IO_ON, {"load": 0, "objs": [{"ty": 18, "nm": "bxi0", "st": "BXI", "inf": {"BXIUUID": "0123-abcd"}, "at": "ostypes:16"},
                                              {"ty": 18, "nm": "bxi1", "st": "BXI", "inf": {}}], "count": [[18, 2]]}))
    S.append(("bxi-filtered", "2arm-2c", [ln("sys/class/bxi/bxi0", "../../devices/platform/verifbxi/bxi0"), put("sys/devices/platform/verifbxi/bxi0/uuid", "u\n")],
              {}, [], {"load": 0, "count": [[18, 0]]}))
    cx = "sys/devices/platform/verifcxl/"
    S.append(("cxlmem", "2arm-2c", [ln("sys/bus/cxl/devices/mem0", "../../../devices/platform/verifcxl/mem0"), put(cx + "mem0/ram/size", "0x40000000\n"),
                                     put(cx + "mem0/pmem/size", "0x80000000\n"), put(cx + "mem0/serial", "0xdeadbeef\n"),
                                     ln("sys/bus/cxl/devices/mem1", "../../../devices/platform/verifcxl/mem1"), put(cx + "mem1/ram/size", "0\n"),
                                     ln("sys/bus/cxl/devices/root0", "../../../devices/platform/verifcxl/root0"), put(cx + "root0/x", "1\n")],
              {}, IO_ON, {"load": 0, "objs": [{"ty": 18, "nm": "mem0", "st": "CXLMem", "inf": {"CXLRAMSize": "1048576KiB", "CXLPMEMSize": "2097152KiB", "SerialNumber": "0xdeadbeef"}},
                                              {"ty": 18, "nm": "mem1", "st": "CXLMem", "inf": {}}],
                          "none": [{"ty": 18, "nm": "root0"}], "count": [[18, 2]]}))
    blk = []
    blk += block_dev("sdv", "8:400", 2000000, 512, ["E:ID_VENDOR=ATA", "E:ID_MODEL=WDC_WD10", "E:ID_REVISION=1.0", "E:ID_SERIAL_SHORT=SER1", "E:ID_TYPE=disk"])
    blk += block_dev("sdw", "8:416", 4000, 4096, ["E:ID_VENDOR=VerifVendor", "E:ID_MODEL=ST1000", "E:ID_TYPE=tape"])
    blk += block_dev("sdx", "8:432", 8, 512, ["E:ID_MODEL=SAMSUNG_SSD", "E:ID_TYPE=cd"])
    blk += block_dev("sdy", "8:448", 8, 512, ["E:ID_MODEL=SanDisk_x", "E:OTHER=1"])
    blk += block_dev("sdz", "8:464", 8, 512, ["E:ID_MODEL=TOSHIBA_y", "E:ID_TYPE=generic"])
    blk += block_dev("pmem7", "259:7", 16, 512, None, devtype="nd_namespace_pmem")
    blk += block_dev("nodev", "8:480", 16, 512, None, dev_file=False)
    blk += block_dev("baddev", "garbage", 16, 512, None)
    S.append(("block", "2arm-2c", blk, {}, IO_ON, {"load": 0, "objs": [
        {"ty": 18, "nm": "sdv", "st": "Disk", "inf": {"Size": "1000000KiB", "SectorSize": "512", "LinuxDeviceID": "8:400", "Vendor": "Western Digital", "Model": "WDC_WD10", "Revision": "1.0", "SerialNumber": "SER1"}},
        {"ty": 18, "nm": "sdw", "st": "Tape", "inf": {"Size": "2000KiB", "SectorSize": "4096", "Vendor": "VerifVendor", "Model": "ST1000"}},
        {"ty": 18, "nm": "sdx", "st": "Removable Media Device", "inf": {"Vendor": "Samsung"}},
        {"ty": 18, "nm": "sdy", "st": None, "inf": {"Vendor": "SanDisk"}},
        {"ty": 18, "nm": "sdz", "st": None, "inf": {"Vendor": "Toshiba"}},
        {"ty": 18, "nm": "pmem7", "st": "NVM", "inf": {"LinuxDeviceID": "259:7"}},
        {"ty": 18, "nm": "nodev", "st": None, "inf": {"Size": "8KiB"}, "noinf": ["LinuxDeviceID"]},
        {"ty": 18, "nm": "baddev", "st": None, "noinf": ["LinuxDeviceID"]}], "count": [[18, 8]]}))
    # --- platform information
    soc = [put("sys/bus/soc/devices/soc0/soc_id", "jep106:0426:0001\n"), put("sys/bus/soc/devices/soc0/family", "VerifFamily\n"),
           put("sys/bus/soc/devices/soc0/revision", "r2p1\n"), put("sys/bus/soc/devices/soc3/soc_id", "\n"), put("sys/bus/soc/devices/notasoc/soc_id", "x\n")]
    S.append(("soc-info", "2arm-2c", soc, {}, [], {"load": 0, "rootinf": {"SoC0ID": "jep106:0426:0001", "SoC0Family": "VerifFamily", "SoC0Revision": "r2p1"}}))   # (an soc_id file holding only "\n" yields an empty-valued SoC3ID info: the emptiness test precedes the newline strip)
    S.append(("soc-homogeneous-quirk", "20em64t-hybrid-1p6c2t+2ca4co1t", [put("sys/bus/soc/devices/soc0/soc_id", "jep106:036b:0241\n")], {"_kinds": "1"}, [],
              {"load": 0, "rootinf": {"SoC0ID": "jep106:036b:0241"}, "kinds_n": 1}))
    S.append(("cpukinds-homogeneous-env", "20em64t-hybrid-1p6c2t+2ca4co1t", [], {"_kinds": "1", "HWLOC_CPUKINDS_HOMOGENEOUS": "1"}, [], {"load": 0, "kinds_n": 1}))
    cpuinfo = "".join("processor\t\t: %d\nModel Name\t\t: Loongson-3A5000\nCPU Family\t\t: Loongson-64bit\nBogoMIPS\t\t: 5000.00\n\n" % i for i in range(2))
    S.append(("loongarch-cpuinfo", "2arm-2c", [nofile_info("loongarch64"), put("proc/cpuinfo", cpuinfo)], {}, [],
              {"load": 0, "objs": [{"ty": 1, "inf": {"CPUModel": "Loongson-3A5000", "CPUFamily": "Loongson-64bit"}}]}))
    for tag, line, npu, model in (("k", "cpu\t\t: Fujitsu SPARC64 VIIIfx", 8, "SPARC64 VIIIfx"), ("fx10", "cpu\t\t: Fujitsu SPARC64 IXfx", 16, "SPARC64 IXfx"),
                                  ("fx100", "cpu\t\t: FUJITSU SPARC64 XIfx", 34, "SPARC64 XIfx")):
        S.append(("hardwired-" + tag, "2i386-2c-nohugepage", [nofile_info("s64fx"), put("proc/cpuinfo", line + "\nfpu\t\t: x\n")], {}, [],
                  {"load": 0, "count": [[4, npu], [1, 1]], "objs": [{"ty": 1, "inf": {"CPUVendor": "Fujitsu", "CPUModel": model}}]}))
    S.append(("hardwired-disabled", "2i386-2c-nohugepage", [nofile_info("s64fx"), put("proc/cpuinfo", "cpu\t\t: Fujitsu SPARC64 VIIIfx\n")], {"HWLOC_NO_HARDWIRED_TOPOLOGY": "1"}, [],
              {"load": 0, "count": [[4, 2]]}))
    # --- NUMA corner cases
    S.append(("fake-numa-uniform", "memorysidecaches", [put("proc/cmdline", "BOOT_IMAGE=/vmlinuz numa=fake=2U quiet\n")], {}, ["filter 15 0"], {"load": 0, "count": [[15, 0]]}))
    S.append(("fake-numa-split", "memorysidecaches", [put("proc/cmdline", "numa=fake=4\n")], {}, ["filter 15 0"], {"load": 0, "count": [[15, 0]]}))
    S.append(("memcaches-kept", "memorysidecaches", [], {}, ["filter 15 0"], {"load": 0, "mincount": [[15, 1]]}))
    S.append(("cpuless-node-behind-memcache", "memorysidecaches", [put("sys/devices/system/node/node2/cpumap", "0\n")], {"HWLOC_USE_NUMA_DISTANCES": "0"}, ["filter 15 0"],
              {"load": 0, "objs": [{"ty": 14, "os": 2, "partype": 15}], "count": [[14, 4], [15, 4]]}))
    # witness of node_os_distinct_refuted (Props/Properties_C18.v): two directory entries for index 0, CPU-less cpumap
    S.append(("node-duplicate-index", "2arm-2c", [put("sys/devices/system/node/node0/cpumap", "0\n"), put("sys/devices/system/node/node00/cpumap", "0\n")], {}, [], {"load": "any"}))
    S.append(("node-directory-without-node", "2arm-2c", [put("sys/devices/system/node/has_cpu", "0-1\n")], {}, [], {"load": "any"}))
    S.append(("node-dir-junk", "16amd64-8n2c", [put("sys/devices/system/node/nodefoo/cpumap", "0\n"), put("sys/devices/system/node/node/cpumap", "0\n")], {}, [], {"load": 0, "count": [[14, 8]]}))
    # --- a PCI tree on a snapshot that has none
    pexp = {"load": 0, "objs": [{"ty": 16, "at": "bup:0,bdown:1"}, {"ty": 16, "at": "dev:1,func:0,class:1540,vendor:32902,device:257,ddom:0,dsec:1,dsub:2"},
                                {"ty": 17, "at": "dom:0,bus:1,dev:0,func:0,class:512,vendor:32902,device:"},
                                {"ty": 17, "at": "dom:0,bus:2,dev:0,func:0,class:768,vendor:4318,device:8738"}, {"ty": 17, "at": "dev:3,func:0,class:1540"},
                                {"ty": 18, "nm": "eth9", "inf": {"Address": "02:00:00:00:00:09"}}],
            "none": [{"ty": 16, "at": "device:258"}], "count": [[16, 2], [17, 3], [18, 1]]}
    S.append(("pci-tree", "2arm-2c", pci_tree(), {}, IO_ON, pexp))
    S.append(("pci-tree-hide-errors-0", "2arm-2c", pci_tree(), {"HWLOC_HIDE_ERRORS": "0"}, IO_ON, pexp))
    S.append(("pci-fake-quirk", "2arm-2c", pci_tree(), {"HWLOC_PCI_LOCALITY_QUIRK_FAKE": "1"}, IO_ON, {"load": 0, "objs": [{"ty": 16, "at": "bup:0,bdown:1", "parccs": 2}]}))
    S.append(("pci-forced-locality", "2arm-2c", pci_tree(), {"HWLOC_PCI_LOCALITY": "nonsense;0001:00-ff 0x1;0000:00-02 0x2"}, IO_ON, {"load": 0, "objs": [{"ty": 16, "at": "bup:0,bdown:1", "parccs": 2}]}))
    cray = pci_dev("0000:d0:00.0", 0x020000) + pci_dev("0000:c5:00.0", 0x020000, device=0x5555) + pci_dev("0001:d0:00.0", 0x020000, device=0x6666) + \
        [put("sys/devices/virtual/dmi/id/board_name", "HPE CRAY EX235A\n"), put("sys/class/dmi/id/board_name", "HPE CRAY EX235A\n")]
    S.append(("pci-cray-ex235a-quirk", "64amd64-4s2n4ca2co", cray, {}, IO_ON,
              {"load": 0, "rootinf": {"DMIBoardName": "HPE CRAY EX235A"},
               "objs": [{"ty": 16, "at": "ddom:0,dsec:208", "parccs": 0xff}, {"ty": 16, "at": "ddom:0,dsec:197", "parccs": 0xff << 56}]}))   # (the quirk sets CPUs 0-7+64-71 / 56-63+120-127; this machine has 64)
    # --- x86 CPUID dumps
    xb = "Intel-Nehalem-2xXeon-X5550"
    S.append(("x86-junk-dirents", xb, [put("puabc", "x\n"), put("pu3x", "x\n"), put("README", "x\n")], {}, [], {"load": 0, "count": [[4, 16]]}))
    # (an unusable dump directory is "ignored": the x86 backend then runs the native CPUID discovery of this machine)
    S.append(("x86-summary-empty", xb, [put("hwloc-cpuid-info", "")], {}, [], {"load": "any"}))
    S.append(("x86-summary-other-arch", xb, [put("hwloc-cpuid-info", "Architecture: arm\n")], {}, [], {"load": "any"}))
    S.append(("x86-pu-comments-only", xb, [put("pu5", "# nothing here\n# at all\n")], {}, [], {"load": "any"}))
    S.append(("x86-pu-garbage", xb, [put("pu0", "garbage\n1 2 3\n" + "f" * 300 + "\n")], {}, [], {"load": "any"}))
    S.append(("x86-pu-empty", xb, [put("pu15", "")], {}, [], {"load": "any"}))
    # --- x86 then Linux: NUMA nodes of sysfs do not match the ones x86 created: Linux must leave them alone
    S.append(("x86+linux-node-mismatch", "64amd64-4p2n4ca2co", [put("fsroot/sys/devices/system/node/node9/cpumap", "00000000,00000001\n"),
                                                               put("fsroot/sys/devices/system/node/node9/meminfo", "Node 9 MemTotal:       1024 kB\n")],
              {"HWLOC_COMPONENTS": "x86,linux,stop", "HWLOC_X86_TOPOEXT_NUMANODES": "1"}, [], {"load": 0, "count": [[14, 8]], "none": [{"ty": 14, "os": 9}]}))
    # --- hardwired topologies under type filters (instruction caches kept; cores and packages dropped)
    fk = [nofile_info("s64fx"), put("proc/cpuinfo", "cpu\t\t: Fujitsu SPARC64 VIIIfx\n")]
    S.append(("hardwired-k-icache", "2i386-2c-nohugepage", fk, {}, ["filter icache 0"], {"load": 0, "count": [[4, 8], [10, 8], [5, 8], [6, 1]]}))
    S.append(("hardwired-k-nocore-nopackage", "2i386-2c-nohugepage", fk, {}, ["filter 3 1", "filter 1 1"], {"load": 0, "count": [[4, 8], [3, 0], [1, 0]]}))
    f100 = [nofile_info("s64fx"), put("proc/cpuinfo", "cpu\t\t: FUJITSU SPARC64 XIfx\n")]
    S.append(("hardwired-fx100-icache-nocore", "2i386-2c-nohugepage", f100, {}, ["filter icache 0", "filter 3 1", "filter 1 1"], {"load": 0, "count": [[4, 34], [10, 34], [3, 0]]}))
    f10 = [nofile_info("s64fx"), put("proc/cpuinfo", "cpu\t\t: Fujitsu SPARC64 IXfx\n")]
    S.append(("hardwired-fx10-icache-nocore", "2i386-2c-nohugepage", f10, {}, ["filter icache 0", "filter 3 1", "filter 1 1"], {"load": 0, "count": [[4, 16], [10, 16], [3, 0]]}))
    S.append(("hardwired-not-sparc-line", "2i386-2c-nohugepage", [nofile_info("s64fx"), put("proc/cpuinfo", "processor\t: 0\n")], {}, [], {"load": 0, "count": [[4, 2]]}))
    S.append(("hardwired-unknown-model", "2i386-2c-nohugepage", [nofile_info("s64fx"), put("proc/cpuinfo", "cpu\t\t: Fujitsu SPARC64 Zfx\n")], {}, [], {"load": 0, "count": [[4, 2]]}))
    # --- CXL memory exposed as a kmem DAX NUMA node, two interleaved devices
    pl = "sys/devices/platform/ACPI0017:00/root0/"
    cxldax = [ln("sys/bus/dax/devices/dax7.0", "../../../devices/platform/ACPI0017:00/root0/decoder0.0/region3/dax_region3/dax7.0"),
              put(pl + "decoder0.0/region3/dax_region3/dax7.0/target_node", "1\n"), put("sys/bus/dax/drivers/kmem/dax7.0", "x\n"),
              put("sys/bus/cxl/devices/region3/target0", "decoder5.0\n"), put("sys/bus/cxl/devices/region3/target1", "decoder6.0\n"),
              ln("sys/bus/cxl/devices/decoder5.0", "../../../devices/platform/ACPI0017:00/root0/port1/endpoint5/decoder5.0"),
              ln("sys/bus/cxl/devices/decoder6.0", "../../../devices/platform/ACPI0017:00/root0/port2/endpoint6/decoder6.0"),
              ln("sys/bus/cxl/devices/endpoint5/uport", "../../../../pci0000:34/0000:34:00.0/0000:35:00.0/mem0"),
              ln("sys/bus/cxl/devices/endpoint6/uport", "../../../../pci0000:34/0000:34:01.0/0000:36:00.0/mem1"),
              ln("sys/bus/dax/devices/dax8.0", "../../../devices/platform/e820_pmem/ndbus0/region0/dax8.0/dax8.0"),
              put("sys/devices/platform/e820_pmem/ndbus0/region0/dax8.0/dax8.0/target_node", "2\n"), put("sys/bus/dax/drivers/kmem/dax8.0", "x\n"),
              ln("sys/bus/dax/devices/dax9.0", "../../../devices/platform/hmem.0/dax9.0"), put("sys/devices/platform/hmem.0/dax9.0/target_node", "-1\n"), put("sys/bus/dax/drivers/kmem/dax9.0", "x\n")]
    S.append(("cxl-dax-kmem", "16amd64-8n2c", cxldax, {}, [], {"load": 0, "objs": [
        {"ty": 14, "os": 1, "inf": {"DAXDevice": "dax7.0", "DAXType": "SPM", "CXLDeviceInterleaveWays": "2", "CXLDevice": "0000:35:00.0,0000:36:00.0", "DAXParent": "ACPI0017:00/root0/decoder0.0/region3/dax_region3"}},
        {"ty": 14, "os": 2, "inf": {"DAXDevice": "dax8.0", "DAXType": "NVM", "DAXParent": "e820_pmem/ndbus0/region0"}, "noinf": ["CXLDevice"]}],
        "none": [{"ty": 14, "inf": {"DAXDevice": "dax9.0"}}]}))
    # --- old-kernel class devices (directory + "device" link), class device near a NUMA node
    oldnet = pci_tree() + [put("sys/class/net/eth8/address", "02:00:00:00:00:08\n"), ln("sys/class/net/eth8/device", "../../../devices/pci0000:00/0000:00:01.0/0000:02:00.0"),
                           ln("sys/class/net/eth7", "../../devices/platform/verifnic/net/eth7"), put("sys/devices/platform/verifnic/net/eth7/address", "02:00:00:00:00:07\n"),
                           put("sys/devices/platform/verifnic/net/eth7/device/numa_node", "0\n"),
                           ln("sys/class/net/lo", "../../devices/virtual/net/lo"), put("sys/devices/virtual/net/lo/address", "00:00:00:00:00:00\n"),
                           ln("sys/class/net/usb0", "../../devices/pci0000:00/0000:00:01.0/usb1/1-1/net/usb0"), put("sys/devices/pci0000:00/0000:00:01.0/usb1/1-1/net/usb0/address", "x\n")]
    S.append(("osdev-old-kernel-and-numa", "2i386-2c-nohugepage", oldnet, {}, IO_ON,
              {"load": 0, "objs": [{"ty": 18, "nm": "eth8", "inf": {"Address": "02:00:00:00:00:08"}}, {"ty": 18, "nm": "eth7", "inf": {"Address": "02:00:00:00:00:07"}}, {"ty": 18, "nm": "eth9"}],
               "none": [{"ty": 18, "nm": "lo"}], "count": [[18, 4]]}))   # (network devices behind USB are kept, virtual ones are not)
    # --- more HWLOC_PCI_LOCALITY forms and every bus range of the Cray quirk
    S.append(("pci-forced-locality-forms", "2arm-2c", pci_tree(), {"HWLOC_PCI_LOCALITY": "0000:05 0x1;0000:00 0x2;0001 0x1"}, IO_ON, {"load": 0, "objs": [{"ty": 16, "at": "bup:0,bdown:1", "parccs": 2}]}))
    S.append(("pci-forced-locality-domain-form", "2arm-2c", pci_tree(), {"HWLOC_PCI_LOCALITY": "0000 0x2"}, IO_ON, {"load": 0, "objs": [{"ty": 16, "at": "bup:0,bdown:1", "parccs": 2}]}))
    crayall, crayexp = [put("sys/devices/virtual/dmi/id/board_name", "HPE CRAY EX235A\n"), put("sys/class/dmi/id/board_name", "HPE CRAY EX235A\n")], []
    for k, (bus, lo) in enumerate(((0xd1, 0), (0xd5, 8), (0xc9, 16), (0xcd, 24), (0xd9, 32), (0xdd, 40), (0xc1, 48), (0xc6, 56), (0xe0, None))):
        crayall += pci_dev("0000:%02x:00.0" % bus, 0x020000, device=0x100 + k)
        crayexp.append({"ty": 16, "at": "ddom:0,dsec:%d," % bus, "parccs": (0xff << lo) if lo is not None else (1 << 64) - 1})
    S.append(("pci-cray-ex235a-all-ranges", "64amd64-4s2n4ca2co", crayall, {}, IO_ON, {"load": 0, "objs": crayexp}))
    S.append(("x86-pu-dangling-symlink", xb, [ln("pu5", "/nonexistent/pu5")], {}, [], {"load": "any"}))
    # --- KNL layouts built on the single-node A2A snapshot (hwdata in HWLOC_DUMPED_HWDATA_DIR=/var/run/hwloc)
    knl = "64intel64-fakeKNL-A2A-cache"
    kenv = {"HWLOC_DUMPED_HWDATA_DIR": "/var/run/hwloc"}
    S.append(("knl-quadrant-flat", knl, knl_layout("Quadrant", "Flat", ["ffffffff,ffffffff", zero], [[10, 31], [31, 10]]), kenv, [],
              {"load": 0, "rootinf": {"ClusterMode": "Quadrant", "MemoryMode": "Flat"}, "count": [[14, 2]], "objs": [{"ty": 14, "st": "MCDRAM"}]}))
    S.append(("knl-snc2-cache", knl, knl_layout("SNC2", "Cache", [half0, half1], [[10, 21], [21, 10]]), kenv, [],
              {"load": 0, "rootinf": {"ClusterMode": "SNC2", "MemoryMode": "Cache"}, "count": [[14, 2]]}))
    d4 = [[10, 21, 31, 41], [21, 10, 41, 31], [31, 41, 10, 41], [41, 31, 41, 10]]
    S.append(("knl-snc2-flat", knl, knl_layout("SNC2", "Flat", [half0, half1, zero, zero], d4), kenv, [],
              {"load": 0, "rootinf": {"ClusterMode": "SNC2", "MemoryMode": "Flat"}, "count": [[14, 4]], "objs": [{"ty": 14, "st": "MCDRAM", "os": 2}, {"ty": 14, "st": "MCDRAM", "os": 3}]}))
    S.append(("knl-snc2-hybrid-memcache", knl, knl_layout("SNC2", "Hybrid50", [half0, half1, zero, zero], d4), dict(kenv, HWLOC_KNL_MSCACHE_L3="0"), ["filter 15 0"],
              {"load": 0, "rootinf": {"ClusterMode": "SNC2", "MemoryMode": "Hybrid50"}, "count": [[14, 4]], "mincount": [[15, 1]]}))
    S.append(("knl-snc4-cache", knl, knl_layout("SNC4", "Cache", ["00000000,0000ffff", "00000000,ffff0000", "0000ffff,00000000", "ffff0000,00000000"],
                                                [[10, 21, 21, 21], [21, 10, 21, 21], [21, 21, 10, 21], [21, 21, 21, 10]]), kenv, [],
              {"load": 0, "rootinf": {"ClusterMode": "SNC4", "MemoryMode": "Cache"}, "count": [[14, 4]]}))
    S.append(("knl-mode-mismatch", knl, knl_layout("SNC4", "Flat", [half0, half1], [[10, 21], [21, 10]]), kenv, [], {"load": 0, "count": [[14, 2]], "norootinf": []}))
    S.append(("knl-bad-distances", knl, knl_layout("SNC2", "Flat", [half0, half1, zero, zero], [[10, 20, 20, 20], [20, 10, 20, 20], [20, 20, 10, 20], [20, 20, 20, 10]]), kenv, [],
              {"load": 0, "count": [[14, 4]]}))
    S.append(("knl-unknown-mode", knl, knl_layout("Octant", "Flat", ["ffffffff,ffffffff", zero], [[10, 31], [31, 10]]), kenv, [], {"load": 0, "count": [[14, 2]], "norootinf": ["ClusterMode"]}))
    S.append(("knl-guess-no-hwdata", knl, knl_layout("", "", [half0, half1, zero, zero], d4, hwdata=False), {"HWLOC_DUMPED_HWDATA_DIR": "/nonexistent"}, [], {"load": 0, "count": [[14, 4]]}))
    S.append(("knl-guess-quadrant-flat", knl, knl_layout("", "", ["ffffffff,ffffffff", zero], [[10, 31], [31, 10]], hwdata=False), {"HWLOC_DUMPED_HWDATA_DIR": "/nonexistent"}, [], {"load": 0, "count": [[14, 2]]}))
    S.append(("knl-guess-cache-single-node", knl, [], {"HWLOC_DUMPED_HWDATA_DIR": "/nonexistent"}, [], {"load": 0, "count": [[14, 1]]}))
    S.append(("knl-guess-snc4-8nodes", "64intel64-fakeKNL-SNC4-hybrid", [], {"HWLOC_DUMPED_HWDATA_DIR": "/nonexistent"}, ["filter 15 0"], {"load": 0, "count": [[14, 8]]}))
    S.append(("knl-forced-fallback", "64intel64-fakeKNL-SNC4-hybrid", [], dict(kenv, HWLOC_KNL_HDH_FALLBACK="1"), [], {"load": 0, "count": [[14, 8]]}))
    S.append(("knl-quirk-disabled", "64intel64-fakeKNL-SNC4-hybrid", [], dict(kenv, HWLOC_KNL_NUMA_QUIRK="0"), [], {"load": 0, "count": [[14, 8]], "norootinf": ["ClusterMode"]}))
    for tag, cl, mm, nodes, dist in (("a2a-cache-2nodes", "All2All", "Cache", [half0, half1], [[10, 21], [21, 10]]), ("quadrant-flat-1node", "Quadrant", "Flat", ["ffffffff,ffffffff"], None),
                                     ("snc2-cache-1node", "SNC2", "Cache", ["ffffffff,ffffffff"], None), ("snc2-flat-2nodes", "SNC2", "Flat", [half0, half1], [[10, 21], [21, 10]]),
                                     ("snc4-cache-2nodes", "SNC4", "Cache", [half0, half1], [[10, 21], [21, 10]]), ("quadrant-badmemmode", "Quadrant", "Weird", ["ffffffff,ffffffff", zero], [[10, 31], [31, 10]])):
        S.append(("knl-mismatch-" + tag, knl, knl_layout(cl, mm, nodes, dist), dict(kenv, HWLOC_HIDE_ERRORS="0"), [], {"load": 0, "count": [[14, len(nodes)]]}))
    S.append(("knl-bad-hwdata-header", knl, [put("var/run/hwloc/knl_memoryside_cache", "garbage\n")], kenv, [], {"load": 0, "count": [[14, 1]]}))
    return S


# hostile contents written over an attribute file (robustness only: clean -1 or a well-formed topology)
CORRUPT_CONTENTS = [b"", b"\n", b"garbage\n", b"-1\n", b"99999999999999999999\n", b"0-\n", b",\n", b"0-1023\n",
                    b"ffffffff,ffffffff,ffffffff,ffffffff,ffffffff\n", b"0x\n", b"1 2 3 4 5 6 7 8 9 10 11 12 13 14 15 16 17 18 19 20\n", b"\x00\x01\x02\n", b"4294967295\n", b"3,1\n"]
