"""C03 generators and shrinker (python3 stdlib only).

A *case* is a list of op lines (grammar: harness/hwv_bitmap.c) executed on six
fresh handles.  Cases are written one after another into a case file,
separated by `reset` lines.
"""

NH = 6
BOUNDS = [0, 1, 31, 32, 33, 63, 64, 65, 127, 128, 129, 191, 192, 511, 512, 513, 575, 576, 1023, 1024, 1025]
FULLW = (1 << 64) - 1

UNARY_MOD = ["zero", "fill", "singlify"]
IDX_MOD = ["only", "allbut", "set", "clr"]
RANGE_MOD = ["setr", "clrr"]
BIN = ["or", "and", "andnot", "xor"]
UQ = ["iszero", "isfull", "first", "last", "firstu", "lastu", "weight", "nr", "toul"]
BQ = ["isequal", "isincl", "inter", "cmp", "cmpf", "cmpi"]
ALL_KINDS = (["alloc", "allocfull", "dup", "copy"] + UNARY_MOD + IDX_MOD + RANGE_MOD +
             ["fromul", "fromith", "fromuls", "setith", "toith", "touls", "not", "isset", "next", "nextu"] + BIN + UQ + BQ)


def idx(rng):
    x = rng.random()
    if x < 0.70:
        b = rng.choice(BOUNDS)
        return max(0, b + rng.choice([0, 0, 0, -1, 1]))
    if x < 0.96:
        return rng.randrange(0, 1100)
    return rng.randrange(1100, 4200)


def word(rng):
    x = rng.random()
    if x < 0.15:
        return 0
    if x < 0.30:
        return FULLW
    if x < 0.40:
        return 1 << rng.choice([0, 1, 31, 32, 62, 63])
    if x < 0.50:
        return FULLW ^ (1 << rng.choice([0, 1, 31, 32, 62, 63]))
    if x < 0.60:
        return rng.choice([0xffffffff, 0xffffffff00000000, 0x8000000000000001, 1, 0x8000000000000000])
    return rng.getrandbits(64)


def handles3(rng):
    """destination and two operands with the aliasing patterns enumerated"""
    pat = rng.randrange(8)
    a, b, c = rng.sample(range(NH), 3)
    if pat == 0:
        return a, a, b, "res=op1"
    if pat == 1:
        return a, b, a, "res=op2"
    if pat == 2:
        return a, b, b, "op1=op2"
    if pat == 3:
        return a, a, a, "all-same"
    return a, b, c, "distinct"


def gen_op(rng):
    """returns (line, kind, alias-pattern or None)"""
    x = rng.random()
    h = rng.randrange(NH)
    if x < 0.03:
        k = rng.choice(["alloc", "allocfull"])
        return "%s %d" % (k, h), k, None
    if x < 0.08:
        k = rng.choice(["dup", "copy"])
        s = rng.randrange(NH)
        return "%s %d %d" % (k, h, s), k, ("dst=src" if s == h else "distinct")
    if x < 0.13:
        k = rng.choice(UNARY_MOD)
        return "%s %d" % (k, h), k, None
    if x < 0.28:
        k = rng.choice(IDX_MOD)
        return "%s %d %d" % (k, h, idx(rng)), k, None
    if x < 0.42:
        k = rng.choice(RANGE_MOD)
        b = idx(rng)
        y = rng.random()
        if y < 0.25:
            e = -1
        elif y < 0.35:
            e = max(-1, b - rng.choice([1, 2, 70]))       # empty range (end < begin)
        elif y < 0.55:
            e = b + rng.choice([0, 1, 62, 63, 64, 65, 127, 128])
        else:
            e = idx(rng)
        return "%s %d %d %d" % (k, h, b, e), k, None
    if x < 0.45:
        return "fromul %d %x" % (h, word(rng)), "fromul", None
    if x < 0.48:
        return "fromith %d %d %x" % (h, rng.choice([0, 0, 1, 1, 2, 3, 7, 8, 9, 16]), word(rng)), "fromith", None
    if x < 0.51:
        nr = rng.choice([1, 1, 2, 2, 3, 4, 8, 9])
        return "fromuls %d %d %s" % (h, nr, " ".join("%x" % word(rng) for _ in range(nr))), "fromuls", None
    if x < 0.54:
        return "setith %d %d %x" % (h, rng.choice([0, 0, 1, 1, 2, 3, 7, 8, 9, 16]), word(rng)), "setith", None
    if x < 0.56:
        return "toith %d %d" % (h, rng.choice([0, 1, 2, 3, 8, 17, 100])), "toith", None
    if x < 0.57:
        return "touls %d %d" % (h, rng.choice([1, 2, 3, 9, 20])), "touls", None
    if x < 0.72:
        k = rng.choice(BIN)
        d, a, b, pat = handles3(rng)
        return "%s %d %d %d" % (k, d, a, b), k, pat
    if x < 0.75:
        s = rng.randrange(NH)
        d = s if rng.random() < 0.4 else h
        return "not %d %d" % (d, s), "not", ("res=op" if d == s else "distinct")
    if x < 0.79:
        return "isset %d %d" % (h, idx(rng)), "isset", None
    if x < 0.84:
        k = rng.choice(["next", "nextu"])
        p = -1 if rng.random() < 0.2 else idx(rng)
        return "%s %d %d" % (k, h, p), k, None
    if x < 0.90:
        k = rng.choice(UQ)
        return "%s %d" % (k, h), k, None
    k = rng.choice(BQ)
    b = h if rng.random() < 0.1 else rng.randrange(NH)
    return "%s %d %d" % (k, h, b), k, ("op1=op2" if b == h else "distinct")


def gen_case(rng, nops):
    ops, kinds, pats = [], [], []
    # start from a few handles in mixed finite/infinite shapes
    for h in range(NH):
        y = rng.random()
        if y < 0.3:
            ops.append("allocfull %d" % h); kinds.append("allocfull"); pats.append(None)
        elif y < 0.5:
            ops.append("setr %d %d -1" % (h, idx(rng))); kinds.append("setr"); pats.append(None)
        elif y < 0.7:
            ops.append("set %d %d" % (h, idx(rng))); kinds.append("set"); pats.append(None)
    while len(ops) < nops:
        l, k, p = gen_op(rng)
        ops.append(l); kinds.append(k); pats.append(p)
    return ops, kinds, pats


# ---- family of small bitmaps, several representations of the same sets ----
def family(size="small"):
    """list of (name, recipe) ; recipe = op lines with `H` as the handle placeholder"""
    F = []
    F.append(("empty-1w", ["zero H"]))
    F.append(("empty-2w", ["set H 64", "clr H 64"]))
    F.append(("empty-3w", ["set H 130", "clr H 130"]))
    F.append(("empty-9w", ["set H 512", "clr H 512"]))
    F.append(("full-1w", ["fill H"]))
    F.append(("full-2w", ["fill H", "clr H 64", "set H 64"]))
    F.append(("full-3w", ["fill H", "clr H 130", "set H 130"]))
    F.append(("from64-1w", ["fill H", "clrr H 0 63"]))
    F.append(("from64-2w", ["setr H 64 -1"]))
    F.append(("from64-3w", ["fill H", "clr H 130", "set H 130", "clrr H 0 63"]))
    F.append(("from128-2w", ["fill H", "clrr H 0 127"]))
    F.append(("from128-3w", ["setr H 128 -1"]))
    F.append(("from128-4w", ["fill H", "clr H 200", "set H 200", "clrr H 0 127"]))
    F.append(("from512", ["setr H 512 -1"]))
    F.append(("from512-8w", ["fill H", "clrr H 0 511"]))
    for b in [0, 1, 63, 64, 65, 127, 128]:
        F.append(("only%d" % b, ["only H %d" % b]))
        F.append(("only%d-long" % b, ["set H 200", "clr H 200", "set H %d" % b]))
        F.append(("allbut%d" % b, ["allbut H %d" % b]))
        F.append(("from%d" % b, ["setr H %d -1" % b]))
    F.append(("from63-b", ["fill H", "clrr H 0 62"]))
    F.append(("from65-b", ["fill H", "clrr H 0 64"]))
    F.append(("low64", ["setr H 0 63"]))
    F.append(("low64-b", ["fromul H ffffffffffffffff"]))
    F.append(("low64-c", ["fromuls H 3 ffffffffffffffff 0 0"]))
    F.append(("low65", ["setr H 0 64"]))
    F.append(("r63-64", ["setr H 63 64"]))
    F.append(("r64-127", ["setr H 64 127"]))
    F.append(("r64-127-b", ["fromith H 1 ffffffffffffffff"]))
    F.append(("r64-127-c", ["fromuls H 4 0 ffffffffffffffff 0 0"]))
    F.append(("allbut-r64-127", ["fill H", "clrr H 64 127"]))
    F.append(("bit0+inf128", ["setr H 128 -1", "set H 0"]))
    F.append(("bit64+inf128", ["setr H 128 -1", "set H 64"]))
    F.append(("0,64", ["set H 0", "set H 64"]))
    F.append(("1,64", ["set H 1", "set H 64"]))
    F.append(("odd", ["fromul H aaaaaaaaaaaaaaaa"]))
    F.append(("even", ["fromul H 5555555555555555"]))
    F.append(("odd-inf", ["fromul H aaaaaaaaaaaaaaaa", "setr H 64 -1"]))
    F.append(("even2w", ["fromuls H 2 5555555555555555 5555555555555555"]))
    if size == "small":
        return F
    for b in [31, 32, 33, 129, 191, 192, 511, 512, 513, 1023, 1024]:
        F.append(("only%d" % b, ["only H %d" % b]))
        F.append(("allbut%d" % b, ["allbut H %d" % b]))
        F.append(("from%d" % b, ["setr H %d -1" % b]))
        F.append(("upto%d" % b, ["setr H 0 %d" % b]))
        F.append(("upto%d-long" % b, ["set H 1100", "clr H 1100", "setr H 0 %d" % b]))
    for b, e in [(1, 62), (32, 95), (63, 128), (64, 128), (100, 300), (511, 513), (0, 511), (0, 512), (512, 1023)]:
        F.append(("r%d-%d" % (b, e), ["setr H %d %d" % (b, e)]))
        F.append(("co-r%d-%d" % (b, e), ["fill H", "clrr H %d %d" % (b, e)]))
        F.append(("co-r%d-%d-long" % (b, e), ["fill H", "clr H 1100", "set H 1100", "clrr H %d %d" % (b, e)]))
    for w in ["1", "8000000000000000", "8000000000000001", "ffffffff", "ffffffff00000000", "deadbeefdeadbeef"]:
        F.append(("w0-" + w, ["fromul H " + w]))
        F.append(("w1-" + w, ["fromith H 1 " + w]))
        F.append(("w01-" + w, ["fromuls H 2 %s %s" % (w, w)]))
        F.append(("w1inf-" + w, ["fill H", "setith H 0 0", "setith H 1 " + w]))
        F.append(("w0inf-" + w, ["fill H", "setith H 0 " + w]))
        F.append(("w0inf3-" + w, ["fill H", "setith H 2 ffffffffffffffff", "setith H 0 " + w]))
    return F


def pair_case(ra, rb):
    """every binary op / query on (A in h0, B in h1), with the aliasing forms"""
    ops = [l.replace("H", "0") for l in ra] + [l.replace("H", "1") for l in rb]
    for q in BQ:
        ops.append("%s 0 1" % q)
    for o in BIN:
        ops.append("%s 2 0 1" % o)                       # distinct
        ops += ["dup 3 0", "%s 3 3 1" % o]               # res == op1
        ops += ["dup 4 1", "%s 4 0 4" % o]               # res == op2
    ops += ["copy 5 0", "isequal 5 0", "not 5 1", "inter 5 1"]
    return ops


def self_case(ra):
    ops = [l.replace("H", "0") for l in ra]
    for q in UQ + BQ:
        ops.append("%s 0%s" % (q, " 0" if q in BQ else ""))
    for o in BIN:
        ops += ["%s 2 0 0" % o, "dup 3 0", "%s 3 3 3" % o]
    ops += ["dup 4 0", "not 4 4", "dup 5 0", "singlify 5", "next 0 -1", "next 0 63", "nextu 0 -1", "nextu 0 63",
            "touls 0 3", "toith 0 1", "toith 0 40"]
    return ops


# ---- inclusion state machine: every sequence of per-word relations ----
REL_WORDS = {"ee": (0, 0), "a": (6, 0), "b": (0, 6), "eq": (6, 6), "sub": (2, 6), "sup": (6, 2), "ov": (6, 12), "dis": (3, 12)}


def relation_matrix(nwords):
    """cases: two bitmaps whose word i are in relation rel_i, with every combination of infinite tails"""
    import itertools
    cases = []
    for rels in itertools.product(sorted(REL_WORDS), repeat=nwords):
        for inf1 in (0, 1):
            for inf2 in (0, 1):
                a = " ".join("%x" % REL_WORDS[r][0] for r in rels)
                b = " ".join("%x" % REL_WORDS[r][1] for r in rels)
                ops = ["fromuls 0 %d %s" % (nwords, a), "fromuls 1 %d %s" % (nwords, b)]
                if inf1:
                    ops.append("setr 0 %d -1" % (64 * nwords + (64 if inf2 else 0)))
                if inf2:
                    ops.append("setr 1 %d -1" % (64 * nwords))
                ops += ["cmpi 0 1", "cmpi 1 0", "isincl 0 1", "isincl 1 0", "inter 0 1", "isequal 0 1", "cmp 0 1", "cmpf 0 1"]
                cases.append(ops)
    return cases


# ---- leaf functions sweep ----
def leaf_words(rng, nrandom):
    ws = [0, FULLW]
    ws += [1 << i for i in range(64)]
    ws += [(1 << i) | (1 << j) for i in range(64) for j in range(i)]
    ws += [FULLW ^ (1 << i) for i in range(64)]
    ws += [(1 << i) - 1 for i in range(1, 64)]
    ws += [FULLW ^ ((1 << i) - 1) for i in range(1, 64)]
    ws += [rng.getrandbits(64) for _ in range(nrandom)]
    ws += [rng.getrandbits(64) & rng.getrandbits(64) & rng.getrandbits(64) for _ in range(nrandom // 4)]
    return ws


# ---- delta debugging over the lines of one case ----
def ddmin(lines, fails, budget=400):
    """smallest sublist (order kept) of `lines` for which fails(sub) holds; the last
    line (the op under test) is always kept."""
    if len(lines) <= 1:
        return lines
    head, last = lines[:-1], lines[-1:]
    n = 2
    calls = 0
    while len(head) >= 1 and calls < budget:
        chunk = max(1, len(head) // n)
        reduced = False
        for i in range(0, len(head), chunk):
            cand = head[:i] + head[i + chunk:]
            calls += 1
            if fails(cand + last):
                head = cand
                n = max(n - 1, 2)
                reduced = True
                break
            if calls >= budget:
                break
        if not reduced:
            if chunk == 1:
                break
            n = min(len(head), n * 2)
    return head + last
