#!/bin/sh
# usage: gen/run_seed.sh <seed dir name under /verif/seeded> [check ids...]
# Applies seeded/<name>/patch.diff to a scratch worktree of /repo HEAD (outside /repo and /verif), runs the
# quick check(s) of the property it breaks against that tree (HWLOC_VERIF_REPO), removes the worktree.
# Expected outcome: exit 1 with a VIOLATION line.
set -e
NAME="$1"; shift
D=/verif/seeded/$NAME
PROP=$(python3 -c "import json;print(json.load(open('$D/meta.json'))['property'])")
CHECKS="${@:-$PROP}"
WT=/tmp/hwv-seed-$NAME-$$
git -C /repo worktree add -q --detach "$WT" HEAD
for f in include/hwloc/autogen/config.h include/private/autogen/config.h hwloc/static-components.h; do cp /repo/$f "$WT/$f"; done
rc=0
if git -C "$WT" apply "$D/patch.diff"; then
  for c in $CHECKS; do
    echo "== seed $NAME against check $c"
    (cd /verif && HWLOC_VERIF_REPO="$WT" ./check.py "$c" 2>&1 | grep -E "VIOLATION|KNOWN-FINDING|HOLDS|VIOLATED" | head -12) || true
  done
else
  echo "patch does not apply to /repo HEAD"; rc=2
fi
git -C /repo worktree remove --force "$WT"
exit $rc
