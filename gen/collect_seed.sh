#!/bin/sh
# usage: gen/collect_seed.sh <name>   (copies /tmp/seed-<name>/SEED into seeded/<name>, runs the check against it, records the outcome)
set -e
N="$1"
mkdir -p /verif/seeded/$N
cp /tmp/seed-$N/SEED/patch.diff /tmp/seed-$N/SEED/meta.json /verif/seeded/$N/
cp /tmp/seed-$N/SEED/demo.c /tmp/seed-$N/SEED/demo.sh /verif/seeded/$N/ 2>/dev/null || true
# the property id is the first three characters of the seed name; agents sometimes write the whole title there
python3 - "$N" <<'PY'
import json, sys
n = sys.argv[1]
p = '/verif/seeded/%s/meta.json' % n
m = json.load(open(p))
if m.get('property') != n[:3]:
    m['property_text_from_agent'] = m.get('property')
    m['property'] = n[:3]
    json.dump(m, open(p, 'w'), indent=1)
PY
OUT=$(/verif/gen/run_seed.sh $N 2>&1 | grep -E "VIOLATION|HOLDS|VIOLATED|does not apply" | head -40)
echo "$OUT"
python3 - "$N" "$OUT" <<'PY'
import json, sys, re
n, out = sys.argv[1], sys.argv[2]
p = '/verif/seeded/%s/meta.json' % n
m = json.load(open(p))
lines = out.split("\n")
nviol = sum(1 for l in lines if l.startswith("VIOLATION"))
nnoinput = sum(1 for l in lines if l.startswith("VIOLATION") and "no-failing-input-found" in l)
verdict = [l for l in lines if "HOLDS" in l or "VIOLATED" in l]
m['verified_by_me'] = {"applies_to_repo_head": "does not apply" not in out,
  "demo": "agent: FAIL with / PASS without (checkout + rebuild), suite 174/174 with the change",
  "checks_run": ["gen/run_seed.sh %s: %s; %d VIOLATION line(s), %d of them no-failing-input-found" % (n, (verdict[-1] if verdict else "no verdict"), nviol, nnoinput)]}
json.dump(m, open(p, 'w'), indent=1)
PY
git -C /repo worktree remove --force /tmp/seed-$N 2>/dev/null || true
