"""Generators for C07 (synthetic descriptions).  Every choice derives from the rng given.
Descriptions are python str restricted to latin-1 (one char = one byte)."""
import re

UNITS = ["", "kB", "KiB", "kiB", "MB", "MiB", "GB", "GiB", "TB", "tib", "Mb"]
ALPHABET = " ()[]:,*=0123456789abcdefghijklmnopqrstuvwxyzLPUNC-\n\t\xe0x"


def _size(rng):
    return "%d%s" % (rng.choice([1, 2, 3, 16, 32, 64, 512, 1024, 4096]), rng.choice(UNITS))


def _perm(rng, n):
    p = list(range(n))
    rng.shuffle(p)
    return p


def _factorisations(n):
    return [d for d in range(1, n + 1) if n % d == 0]


def pu_indexes(rng, widths, names):
    """an indexes= attribute value for a level of total width widths[-1]"""
    total = widths[-1]
    k = rng.random()
    if k < 0.3:
        return ",".join(map(str, _perm(rng, total)))
    if k < 0.4:
        return ",".join(map(str, range(total)))
    if k < 0.65 and total > 1:
        # valid x*y interleaving: split total = a*b, loops "b*a:1*b"
        a = rng.choice(_factorisations(total))
        b = total // a
        return rng.choice(["%d*%d:1*%d" % (b, a, b), "%d*%d" % (b, a), "1*%d:%d*%d" % (b, b, a)])
    if k < 0.75:
        # arbitrary small loops: products different from the width, colliding strides (must be ignored, never half-used)
        loops = ["%d*%d" % (rng.choice([1, 1, 2, 2, 3, 4, 6]), rng.choice([1, 2, 2, 3, 3, 4])) for _ in range(rng.randint(1, 3))]
        return ":".join(loops)
    if k < 0.9 and names:
        ns = rng.sample(names, min(len(names), rng.randint(1, 3)))
        return ":".join(ns)
    # invalid ones
    return rng.choice(["0,1", "1*2:2*2:4*2", "3*3", "0*2", "2*0", "core:core", "foo:bar", "pu", ",", "1,,2",
                       "%d" % total, "1* 2:2*2:4*2", "2*2 :1*2", "0x2*2", "4294967297*2", "-1*2", "node:pu"])


def gen_valid(rng, maxpus=256):
    chain = []
    for name, p in (("group", .25), ("package", .7), ("group", .15), ("die", .3), ("numa", .25), ("l3", .4),
                    ("l2", .5), ("l1", .3), ("l1i", .15), ("core", .7)):
        if rng.random() < p:
            chain.append(name)
    chain.append("pu")
    out, widths, names, total = [], [1], [], 1
    attach_numa = "numa" not in chain and rng.random() < 0.5
    if rng.random() < 0.1:
        out.append("(memory=%s)" % _size(rng))
    if attach_numa and rng.random() < 0.3:
        out.append("[numa(memory=%s)]" % _size(rng))
    ngroups = 0
    for name in chain:
        ar = rng.choice([1, 1, 2, 2, 2, 3, 4, 5, 8])
        if total * ar > maxpus:
            ar = 1
        total *= ar
        widths.append(total)
        attrs = []
        shown = rng.choice({"package": ["pack", "Package", "socket", "pa"], "numa": ["numa", "node", "NUMANode", "nu"],
                            "l3": ["l3", "L3Cache", "L3u", "l3ucache"], "l2": ["l2", "L2", "L2d", "l2cache"],
                            "l1": ["l1", "L1d", "L1dcache", "l1"], "l1i": ["l1i", "L1iCache", "L1I"], "core": ["core", "Core", "co"],
                            "pu": ["pu", "PU", "Pu"], "die": ["die", "Die"], "group": ["group", "Group", "gr", "Tile", "Module", "group7"]}[name])
        if name.startswith("l") and rng.random() < 0.5:
            attrs.append("size=%s" % _size(rng))
        if name == "numa":
            if rng.random() < 0.6:
                attrs.append("memory=%s" % _size(rng))
            if rng.random() < 0.15:
                attrs.append("memorysidecachesize=%s" % _size(rng))
        if name in ("pu", "numa") and rng.random() < (0.55 if name == "pu" else 0.25):
            attrs.append("indexes=%s" % pu_indexes(rng, widths, names))
        elif name != "pu" and rng.random() < 0.12:
            attrs.append("indexes=%s" % (",".join(map(str, _perm(rng, total))) if rng.random() < 0.6 else pu_indexes(rng, widths, names)))
        if rng.random() < 0.03:
            attrs.append("bogus=1")
        item = "%s:%d" % (shown, ar)
        if attrs:
            rng.shuffle(attrs)
            item += "(" + " ".join(attrs) + ")"
        out.append(item)
        if name not in ("pu",) and shown not in ("Tile", "Module", "group7"):
            names.append(shown if name != "group" else "group")
        if attach_numa and name != "pu" and rng.random() < 0.3:
            a = "[numa"
            at = []
            if rng.random() < 0.5:
                at.append("memory=%s" % _size(rng))
            if rng.random() < 0.2:
                at.append("memorysidecachesize=%s" % _size(rng))
            if rng.random() < 0.15:
                at.append("indexes=%s" % rng.choice(["0", "1,0", "2*1", "1*2", "pack"]))
            a += ("(" + " ".join(at) + ")" if at else "") + "]"
            out.append(a)
            if rng.random() < 0.2:
                out.append("[numa]")
    sep = rng.choice([" ", " ", " ", "  ", "\n", " \n "])
    s = sep.join(out)
    if rng.random() < 0.2:
        s += rng.choice([" ", "\n", "  "])
    return s


def gen_untyped(rng):
    n = rng.randint(1, 12)
    ars = [rng.choice([1, 1, 2, 2, 3]) for _ in range(n)]
    while True:
        t = 1
        for a in ars:
            t *= a
        if t <= 512:
            break
        ars[rng.randrange(n)] = 1
    items = [str(a) for a in ars]
    if rng.random() < 0.3:
        items[-1] += "(indexes=%s)" % pu_indexes(rng, [t], ["numa", "pack", "core", "l2", "group"])
    if rng.random() < 0.2:
        items.insert(rng.randrange(len(items)), "[numa]")
    return " ".join(items)


def boundary_cases():
    """126/127/128 levels: enumerated, not sampled."""
    res = []
    for nlev in (1, 2, 120, 124, 125, 126, 127, 128, 129, 200):      # levels below Machine, PU included
        for numa in ("none", "attached-root", "attached-mid", "level"):
            for trail in ("", " "):
                for word in ("group:1", "1"):
                    if nlev < 1:
                        continue
                    mid = [word] * (nlev - 1)
                    last = "pu:1" if word != "1" else "1"
                    items = mid + [last]
                    if numa == "attached-root":
                        items = ["[numa]"] + items
                    elif numa == "attached-mid" and nlev >= 2:
                        items.insert(len(items) // 2, "[numa(memory=1GB)]")
                    elif numa == "level":
                        if word == "1" or nlev < 2:
                            continue
                        items[0] = "numa:1"
                    res.append(" ".join(items) + trail)
    # wide arities at the level boundary and arity/total limits
    for a in ("4294967295", "4294967296", "18446744073709551615", "18446744073709551616", "99999999999999999999999",
              "0", "00", "0x10", "010", "-1", "+2", " 2", "2x"):
        res.append("pu:%s" % a)
        res.append("pack:2 pu:%s" % a)
        res.append("%s 2" % a)
    res += ["pack:65536 die:65536 core:65536 l2:65536 pu:2", "pack:65536 die:65536 core:65536 l2:65536 pu:2(indexes=l2:pack)",
            "pack:65536 die:65536 core:65536 l2:65535 pu:2(indexes=core:pack)",
            "pack:4294967295 core:4294967295 pu:4294967295", "pu:4294967295(indexes=1,2)", "pu:1073741824(indexes=0)",
            "pu:4611686018427387904(indexes=0,1)", "65536 65536 65536 65536 1"]
    return res


HANDMADE = [
    "", " ", "(", ")", "()", "( )", "(memory=1GB)", "(memory=1GB) pu:1", "(indexes=0)pu:2", "[", "[numa", "[numa]", "[numa] pu:2", "[pu] pu:2",
    "[numa(] pu:1", "[numa(memory=1] 2)", "[numa(memory=1 ] pu:2) pu:1", "pu", "pu:", "pu:2", "core:2", "machine:2 pu:1", "misc:1 pu:1", "osdev[gpu]:1 pu:1",
    "os[storage,gpu]:1 pu:1", "osdev[", "os[,,,", "bridge:1 pu:1", "pcidev:1 pu:1", "hostbridge:2 pu:1", "memcache:2 pu:1", "memory-side cache:2 pu:1",
    "pu:2 pu:2", "pack:2 pack:2 pu:1", "die:1 die:1 pu:1", "numa:1 numa:1 pu:1", "core:1 core:1 pu:1", "numa:2 [numa] pu:1", "pack:2 [numa] pu:2 pu:2",
    "pack:2 3 pu:2", "2 core:3 2", "l1:2 pu:1", "l1i:2 pu:1", "L4i:1 pu:1", "L6:1 pu:1", "L0:1 pu:1", "l5:2 pu:1", "L4294967297cache:2 pu:1", "l2x:1 pu:1",
    "l2d:1(size=1kB) pu:1", "l2(size=1):1 pu:1", "l3u:2(memory=3) pu:2", "numa:2(size=3) pu:2", "numa:2(memory=0x10) pu:1", "numa:2(memory=010kB) pu:1",
    "numa:2(memory=-1) pu:1", "numa:1(memory=18446744073709551615TB) pu:1", "numa:1(memory= 5) pu:1", "numa:1(memory=5  ) pu:1", "numa:1(memory=5 memory=6) pu:1",
    "numa:1(memory=5kBx) pu:1", "numa:1(memorysidecachesize=1MB memory=2MB) pu:1", "pu:2(indexes=1,0)", "pu:2(indexes=1,0 indexes=0,1)", "pu:2(indexes=0,0)",
    "pu:2(indexes=7,9)", "pu:2(indexes=4294967296,1)", "pu:4(indexes=1,2, 3,0)", "pu:4(indexes=2*2:1*2)", "pu:4(indexes=1*2:2*2)", "pu:4(indexes=2*2)", "pu:4(indexes=1*4)",
    "pu:4(indexes=4*1)", "pu:2(indexes=1* 2:2*2:4*2)", "pu:2(indexes=1* 2:2*2)", "pu:4(indexes=1*\t2:2*2)", "pack:2 core:2 pu:2(indexes=pu:core)",
    "pack:2 core:2 pu:2(indexes=core:pack)", "pack:2 core:2 pu:2(indexes=pack:core)", "pack:2 core:2 pu:2(indexes=pack)", "pack:2 core:2 pu:2(indexes=numa:core)",
    "pack:2 core:2 pu:2(indexes=core:core)", "pack:2 core:2 pu:2(indexes=misc:core)", "pack:2 core:2 pu:2(indexes=die)", "pack:2 core:2 pu:2(indexes=die:pack) ",
    "group:2 group:2 pu:2(indexes=group:group)", "group3:2 group:2 pu:2(indexes=group3)", "Tile:2 Module:2 pu:1", "Tilexx:2 pu:1", "pu\xe0:2", "core\xe0:1 pu:1",
    "pack:2 pu\xe0", "l2cache\xe0:1 pu:1", "group\xe0:1 pu:1", "pack:2 [numa(indexes=1,0)] pu:2", "pack:2 [numa(indexes=pack)] pu:2", "pack:2 [numa] [numa] pu:2",
    "pack:2\npu:2\n", "pack:2(unknown) pu:2", "pack:2(a b c) pu:2", "pack:2( ) pu:2", "pack:2() pu:2", "pack:2)( pu:2", "pack:2(indexes=)", "pu:1(indexes=)", "pu:1(indexes=0)",
    "pack:2(indexes=core) core:2 pu:1", "pu:2(indexes=1*65536:1*65536:1*65536:1*65536)", "group:2 [numa(indexes=pack)] socket:2 pu:1", "pu:8(indexes=1* 2:2*2:4*2)",
    "numa:3(indexes=0,1,1) pu:1", "pack:2 [numa(indexes=0,0)] pu:1", "pack:2(indexes=1,1) pu:1", "[nu]gr:1[nu]so:2Gr:3[nu]L1:1[nu(memory=2GB indexes=pa)]1",
    "group1:2 group2:2 pu:2(indexes=group2:group1)", "group1:2 group2:2 pu:2(indexes=group1:group2)", "group3:2 pack:1 group1:3 pu:2(indexes=group1:pack)",
    "group:2 group:2 pu:2(indexes=group2)", "group:2 group:3 core:2 pu:1(indexes=group1:core)", "group7:2 group:2 pu:1(indexes=group7:group)",
    "[numa] pack:2 [numa] pu:2", "pack:2 [numa] [numa] pu:2", "pack:2 [numa] core:1 [numa] pu:2", "[numa(memory=1GB)] pack:2 pu:2", "pack:2 [numa(memorysidecachesize=1MB)] pu:2",
    "pu:4(indexes=2x2)", "pu:4(indexes=2*x)", "pu:4(indexes=2*)", "pu:4(indexes=2*2:x)", "pu:4(indexes=2*2:1*y)",
    "pack:6 [numa(indexes=1*3:2*2)] pu:1", "pu:6(indexes=1*3:2*2)", "pu:6(indexes=2*3:1*2)", "pu:4(indexes=1*2:1*2)", "pu:8(indexes=2*2:2*2)", "numa:6(indexes=1*3:2*2) pu:1",
    "pack:2 core:3 pu:2(indexes=2*3:2*2)", "pu:12(indexes=3*2:1*3:6*2)", "pu:12(indexes=3*2:1*3:2*2)",
    "l2:2(indexes=7,5) pu:2", "pack:2 l2:2(indexes=7,5,3,1) pu:1", "group:3(indexes=2,0,1) pu:2", "l3:2 l2:2(indexes=2*2:1*2) pu:1", "pack:2 l1i:2(indexes=pack) pu:1", "pack:2 l1i:2(indexes=pack:l1i) pu:1", "group:2 l3:3(indexes=group) core:2 pu:1",
    "pack:2 core:2 pu:1(indexes=0,2,1,7)", "pack:2 [numa(indexes=0,2,1,5)] [numa] pu:2", "pack:2 core:2 pu:1(indexes=0,2,1,3)", "pack:2 core:2 pu:1(indexes=9,2,1,3)", "numa:4(indexes=0,2,1,9) pu:1",
    "numa:2(indexes=1,0) pu:1", "numa:2 core:2 pu:1", "pack:2 numa:2 pu:1", "pack:1 numa:1 core:1 pu:1", "core:1 pack:1 pu:2", "l1:1 l2:1 pu:2",
]


def mutate(rng, s):
    b = list(s)
    for _ in range(rng.randint(1, 3)):
        k = rng.random()
        if not b:
            b.append(rng.choice(ALPHABET))
        elif k < 0.35:
            del b[rng.randrange(len(b))]
        elif k < 0.7:
            b.insert(rng.randrange(len(b) + 1), rng.choice(ALPHABET))
        elif k < 0.9:
            b[rng.randrange(len(b))] = rng.choice(ALPHABET)
        else:
            i = rng.randrange(len(b))
            j = rng.randrange(i, min(len(b), i + 12) + 1)
            b[i:i] = b[i:j]
    return "".join(b)


def arbitrary(rng):
    n = rng.choice([0, 1, 2, 3, 5, 8, 13, 40])
    return "".join(chr(rng.randrange(1, 256)) for _ in range(n))


def est_total(desc):
    """crude upper estimate of the number of objects a description creates (for deciding whether to load)"""
    tot, s = 1, 0
    for m in re.finditer(r"(?:^|[\s:\]])(\d+)(?=[\s(\[]|$)", re.sub(r"\([^)]*\)", "", desc)):
        try:
            tot *= max(1, int(m.group(1)))
        except ValueError:
            return 10 ** 30
        s += tot
        if tot > 10 ** 12:
            return tot
    return s


def shrink(desc, still_fails, budget=200):
    """greedy delta debugging over characters"""
    cur = desc
    step = max(1, len(cur) // 2)
    while step >= 1 and budget > 0:
        i, progressed = 0, False
        while i < len(cur) and budget > 0:
            cand = cur[:i] + cur[i + step:]
            budget -= 1
            if cand != cur and still_fails(cand):
                cur, progressed = cand, True
            else:
                i += step
        if not progressed:
            step //= 2
    return cur


# ---------------------------------------------------------------------------
# SPEC of type-based interleaving, from the documented meaning only (doc/hwloc.doxy:
# "indexes=numa:core ... OS indexes are interleaved by NUMA node first and then by ..."):
# the os_index of an object counts, least significant first, its coordinate along each
# named level in the WRITTEN order (coordinate = rank of its ancestor of that type inside
# the closest enclosing named level, or inside the machine), and last its rank among the
# objects sharing all those ancestors.  No loop step/nb arithmetic of the C code is used.
# ---------------------------------------------------------------------------
SPEC_TYPES = [("pack", 1), ("die", 2), ("numa", 14), ("l3", 7), ("l2", 6), ("core", 3)]
_SPEC_RE = re.compile(r"^(pack|die|numa|l3|l2|core|pu):(\d+)(?:\(indexes=([a-z0-9:]+)\))?$")


def spec_parse(desc):
    """canonical typed description with at most one type-based indexes= attribute -> (levels, indexed level, names) or None"""
    levels, idx = [], None
    for tok in desc.split(" "):
        m = _SPEC_RE.match(tok)
        if not m:
            return None
        name, ar, ix = m.group(1), int(m.group(2)), m.group(3)
        if ar < 1 or ar > 4096 or name in [l[0] for l in levels]:
            return None
        levels.append((name, ar))
        if ix is not None:
            if idx is not None or name not in ("pu", "numa"):
                return None
            names = ix.split(":")
            if not names or any(n not in [l[0] for l in levels[:-1]] for n in names) or len(set(names)) != len(names):
                return None
            idx = (len(levels) - 1, names)
    if not levels or levels[-1][0] != "pu" or idx is None:
        return None
    return levels, idx[0], idx[1]


def spec_expected(desc):
    """-> (type number of the indexed level, {os_index: frozenset(PU os_indexes)}) expected after load, or None"""
    p = spec_parse(desc)
    if p is None:
        return None
    levels, k, names = p
    width, w = [], 1
    for _, ar in levels:
        w *= ar
        width.append(w)
    total, npu = width[k], width[-1]
    if npu > 4096:
        return None
    depth = {n: i for i, (n, _) in enumerate(levels)}
    listed = [depth[n] for n in names]

    def coords(j):
        cs = []
        for d in listed:                          # written order, least significant first
            anc = j // (total // width[d])        # ancestor of object j at level d
            enclosing = [e for e in listed if e < d]
            per = width[d] // (width[max(enclosing)] if enclosing else 1)
            cs.append((anc % per, per))
        deepest = max(listed)
        below = total // width[deepest]
        cs.append((j % below, below))
        return cs

    osidx = []
    for j in range(total):
        v, mul = 0, 1
        for c, radix in coords(j):
            v += c * mul
            mul *= radix
        osidx.append(v)
    if sorted(osidx) != list(range(total)):
        return None
    per = npu // total
    if levels[k][0] == "pu":
        pus = osidx
        # expected PU sets of every level above (position j of level d covers a slice of the PU array)
        exp = {}
        for d, (n, _) in enumerate(levels[:-1]):
            sz = npu // width[d]
            exp[n] = sorted(tuple(sorted(pus[j * sz:(j + 1) * sz])) for j in range(width[d]))
        return ("pu", exp)
    return ("numa", sorted((osidx[j], tuple(range(j * per, (j + 1) * per))) for j in range(total)))


def gen_interleave_spec(rng, nstacks):
    """all permutations of 2..4 loop types over random level stacks"""
    import itertools
    out = []
    for _ in range(nstacks):
        names = [n for n, _ in SPEC_TYPES if rng.random() < 0.7]
        if len(names) < 2:
            names = ["pack", "core"]
        levels, tot = [], 1
        for n in names:
            ar = rng.choice([1, 2, 2, 3, 3, 4])
            if tot * ar > 96:
                ar = 1
            tot *= ar
            levels.append((n, ar))
        levels.append(("pu", rng.choice([1, 2, 2, 3])))
        target = "numa" if ("numa" in names and names.index("numa") >= 2 and rng.random() < 0.25) else "pu"
        above = names[:names.index("numa")] if target == "numa" else names
        k = rng.randint(2, min(4, len(above)))
        sub = rng.sample(above, k)
        for perm in itertools.permutations(sub):
            toks = []
            for n, ar in levels:
                toks.append("%s:%d" % (n, ar) + ("(indexes=%s)" % ":".join(perm) if n == target else ""))
            out.append(" ".join(toks))
    return out


# ---------------------------------------------------------------------------
# SPEC of attached NUMA nodes ("[numa(...)]" after an item: one NUMA node per object of that level, local to
# that object's PUs), independent of the Coq model and of the type filters (filters never apply to NUMA nodes).
# ---------------------------------------------------------------------------
ATT_TYPES = [("pack", 1), ("die", 2), ("l3", 7), ("l2", 6), ("l1", 5), ("l1i", 10), ("core", 3)]
_ATT_LEVEL = re.compile(r"^(pack|die|l3|l2|l1|l1i|core|pu):(\d+)$")
_ATT_NUMA = re.compile(r"^\[numa(?:\(([^()\[\]]*)\))?\]$")


def att_parse(desc):
    levels, att, idx = [], [[]], None      # att[d]: attached records of level d (0 = Machine)
    toks = re.findall(r"\[numa(?:\([^()\[\]]*\))?\]|[a-z0-9]+:\d+", desc)
    if " ".join(toks) != desc:
        return None
    for tok in toks:
        m = _ATT_LEVEL.match(tok)
        if m:
            if m.group(1) in [l[0] for l in levels] or not 1 <= int(m.group(2)) <= 64:
                return None
            levels.append((m.group(1), int(m.group(2))))
            att.append([])
            continue
        m = _ATT_NUMA.match(tok)
        if not m:
            return None
        mem, msc = 0, 0
        for a in (m.group(1) or "").split(" "):
            if not a:
                continue
            k, _, v = a.partition("=")
            if k == "memory" and v.isdigit():
                mem = int(v)
            elif k == "memorysidecachesize" and v.isdigit():
                msc = int(v)
            elif k == "indexes" and re.fullmatch(r"\d+(,\d+)*", v):
                idx = [int(x) for x in v.split(",")]       # the last one written is used for all attached nodes
            else:
                return None
        att[-1].append((mem or 1073741824, msc))
    if not levels or levels[-1][0] != "pu" or not any(att):
        return None
    return levels, att, idx


def att_expected(desc, memcache_kept):
    """-> sorted list of (os_index, memory, memory-side cache size, PUs) of the NUMA nodes, or None"""
    p = att_parse(desc)
    if p is None:
        return None
    levels, att, idx = p
    width, w = [1], 1
    for _, ar in levels:
        w *= ar
        width.append(w)
    npu = width[-1]
    if npu > 2048:
        return None
    total = sum(len(att[d]) * width[d] for d in range(len(att)))
    if idx is not None and (len(idx) != total or len(set(idx)) != total):
        return None
    out, cnt = [], [0]

    def visit(d, j):
        if d < len(levels):
            ar = levels[d][1]
            for i in range(ar):
                visit(d + 1, j * ar + i)
        per = npu // width[d]
        for mem, msc in att[d]:
            k = cnt[0]
            cnt[0] += 1
            out.append((idx[k] if idx is not None else k, mem, msc if memcache_kept else 0, tuple(range(j * per, (j + 1) * per))))
    visit(0, 0)
    return sorted(out)


def gen_attached_spec(rng, n):
    """canonical descriptions with NUMA nodes attached to arbitrary levels (instruction caches included) + a filter word"""
    out = []
    for _ in range(n):
        names = [nm for nm, _ in ATT_TYPES if rng.random() < 0.6]
        if rng.random() < 0.7 and "l1i" not in names:
            names.insert(rng.randrange(len(names) + 1), "l1i")
            names = [nm for nm, _ in ATT_TYPES if nm in names]
        levels, tot = [], 1
        for nm in names:
            ar = rng.choice([1, 2, 2, 3])
            if tot * ar > 48:
                ar = 1
            tot *= ar
            levels.append((nm, ar))
        levels.append(("pu", rng.choice([1, 2, 2, 3])))
        toks, nat, widths, w = [], 0, [1], 1
        for _, ar in levels:
            w *= ar
            widths.append(w)
        where = [d for d in range(len(levels)) if rng.random() < 0.45] or [rng.randrange(len(levels))]
        atts = {}
        for d in where:
            atts[d] = rng.choice([1, 1, 1, 2])
            nat += atts[d] * widths[d]
        perm = None
        if rng.random() < 0.4:
            perm = list(range(nat))
            rng.shuffle(perm)
            if rng.random() < 0.3:
                perm = [x + rng.choice([0, 3, 100]) for x in perm]
                perm = perm if len(set(perm)) == nat else list(range(nat))
        def numa_tok(last):
            a = []
            if rng.random() < 0.6:
                a.append("memory=%d" % rng.choice([4096, 1048576, 3 << 30, 7]))
            if rng.random() < 0.35:
                a.append("memorysidecachesize=%d" % rng.choice([65536, 1 << 20]))
            if last and perm is not None:
                a.append("indexes=%s" % ",".join(map(str, perm)))
            rng.shuffle(a)
            return "[numa(%s)]" % " ".join(a) if a else "[numa]"
        seq = []
        for d in range(len(levels) + 0):
            for _ in range(atts.get(d, 0)):
                seq.append(d)
        for d in range(len(levels)):
            for k in range(atts.get(d, 0)):
                toks.append(("A", d))
            toks.append(("L", d))
        res, seen = [], 0
        for kind, d in toks:
            if kind == "L":
                res.append("%s:%d" % levels[d])
            else:
                seen += 1
                res.append(numa_tok(seen == len(seq)))
        present = [ty for nm, ty in ATT_TYPES if nm in names]
        base = rng.choice(["D", "D", "D", "A"])
        none = [ty for ty in present if rng.random() < 0.3]
        struct = [ty for ty in present if ty not in none and rng.random() < 0.15]
        fw = "l" + base + ("N" + ".".join(map(str, none)) if none else "") + ("S" + ".".join(map(str, struct)) if struct else "")
        out.append((" ".join(res), fw))
    return out


# ---------------------------------------------------------------------------
# SPEC: indexes= on ANY level (caches and groups included): "os_index orderings are exactly those written".
# Canonical descriptions with one indexes= attribute (explicit list or type names) on a level above the PUs;
# object j of that level (written position) covers PUs j*k .. (j+1)*k-1 and must carry the written os_index.
# ---------------------------------------------------------------------------
LVL_TYPES = [("group", 13), ("pack", 1), ("die", 2), ("l3", 7), ("l2", 6), ("l1", 5), ("l1i", 10), ("core", 3)]
_LVL_RE = re.compile(r"^(group|pack|die|l3|l2|l1|l1i|core|pu):(\d+)(?:\(indexes=([a-z0-9:,]+)\))?$")


def lvl_expected(desc):
    """-> (type number, sorted [(os_index, PUs)]) for the indexed level, or None"""
    levels, idx = [], None
    for tok in desc.split(" "):
        m = _LVL_RE.match(tok)
        if not m:
            return None
        name, ar, ix = m.group(1), int(m.group(2)), m.group(3)
        if not 1 <= ar <= 64 or name in [l[0] for l in levels]:
            return None
        levels.append((name, ar))
        if ix is not None:
            if idx is not None or name == "pu":
                return None
            idx = (len(levels) - 1, ix)
    if not levels or levels[-1][0] != "pu" or idx is None:
        return None
    k, ix = idx
    width, w = [], 1
    for _, ar in levels:
        w *= ar
        width.append(w)
    total, npu = width[k], width[-1]
    if npu > 4096:
        return None
    # a Group that brings no structure is merged by the core: not judged
    if levels[k][0] == "group" and (levels[k][1] == 1 or levels[k + 1][1] == 1):
        return None
    if levels[k][0] == "die" and levels[k][1] == 1 and "pack" in [l[0] for l in levels]:
        return None
    if re.fullmatch(r"\d+(,\d+)*", ix):
        osidx = [int(x) for x in ix.split(",")]
        if len(osidx) != total or len(set(osidx)) != total:
            return None
    else:
        names = ix.split(":")
        depth = {n: i for i, (n, _) in enumerate(levels)}
        if any(n not in depth or depth[n] >= k for n in names) or len(set(names)) != len(names):
            return None
        listed = [depth[n] for n in names]
        osidx = []
        for j in range(total):
            v, mul = 0, 1
            for d in listed:
                anc = j // (total // width[d])
                enclosing = [e for e in listed if e < d]
                per = width[d] // (width[max(enclosing)] if enclosing else 1)
                v += (anc % per) * mul
                mul *= per
            below = total // width[max(listed)]
            v += (j % below) * mul
            osidx.append(v)
        if sorted(osidx) != list(range(total)):
            return None
    per = npu // total
    return (dict(LVL_TYPES)[levels[k][0]], sorted((osidx[j], tuple(range(j * per, (j + 1) * per))) for j in range(total)))


def gen_level_indexes_spec(rng, n):
    out = []
    for _ in range(n):
        names = [nm for nm, _ in LVL_TYPES if rng.random() < 0.55]
        if len(names) < 2:
            names = ["group", "l2", "core"]
        levels, tot = [], 1
        for nm in names:
            ar = rng.choice([2, 2, 3, 1])
            if tot * ar > 64:
                ar = 1
            tot *= ar
            levels.append((nm, ar))
        levels.append(("pu", rng.choice([1, 2, 2])))
        k = rng.randrange(len(names))
        if rng.random() < 0.6:      # caches and groups first: that is where os_index is optional
            cg = [i for i, nm in enumerate(names) if nm in ("group", "l3", "l2", "l1", "l1i")]
            if cg:
                k = rng.choice(cg)
        w = 1
        for _, ar in levels[:k + 1]:
            w *= ar
        if k > 0 and rng.random() < 0.4:
            ix = ":".join(rng.sample(names[:k], rng.randint(1, min(3, k))))
        else:
            p = list(range(w))
            rng.shuffle(p)
            off = rng.choice([0, 0, 1, 10])
            ix = ",".join(str(x + off) for x in p)
        out.append(" ".join("%s:%d" % (nm, ar) + ("(indexes=%s)" % ix if i == k else "") for i, (nm, ar) in enumerate(levels)))
    return out


# ---------------------------------------------------------------------------
# Explicit index lists that ALMOST are an interleaving: the values of a loop nest with one entry (last / first /
# middle) replaced by an unused larger value.  The export must fall back to the explicit list (its loop
# recognition has to look at every entry); judged by the export / re-import comparison of the harness.
# ---------------------------------------------------------------------------
def _interleaved(total, radices):
    """digit-reversal over the given radices (product = total): what nested x*y loops generate"""
    out = []
    for j in range(total):
        digits, r = [], j
        for rad in reversed(radices):
            digits.append(r % rad)
            r //= rad
        digits.reverse()                 # most significant first
        v, mul = 0, 1
        for dg, rad in zip(digits, radices):
            v += dg * mul
            mul *= rad
        out.append(v)
    return out


def gen_near_interleave(rng, n):
    out = []
    shapes = ["pu", "pu", "numa-level", "attached", "attached2", "attached-deep"]
    for _ in range(n):
        shape = rng.choice(shapes)
        a, b, c = rng.choice([2, 2, 3]), rng.choice([2, 2, 3]), rng.choice([1, 2, 2, 3])
        if shape == "pu":
            c = max(c, 2) if rng.random() < 0.5 else c
            total, fmt = a * b * c, "pack:%d core:%d pu:%d(indexes=%%s)" % (a, b, c)
        elif shape == "numa-level":
            total, fmt = a * b, "pack:%d numa:%d(indexes=%%s) pu:%d" % (a, b, c)
        elif shape == "attached":
            a = a * b
            total, fmt = a, "pack:%d [numa(indexes=%%s)] pu:%d" % (a, c)
        elif shape == "attached2":
            total, fmt = 2 * a, "pack:%d [numa(indexes=%%s)] [numa] pu:%d" % (a, max(c, 2))
        else:
            total, fmt = a * b, "pack:%d core:%d [numa(indexes=%%s)] pu:%d" % (a, b, c)
        if total < 4:
            continue
        facs = [f for f in range(2, total) if total % f == 0]
        if not facs:
            continue
        f1 = rng.choice(facs)
        radices = [f1, total // f1]
        if rng.random() < 0.3 and (total // f1) % 2 == 0 and total // f1 > 2:
            radices = [f1, 2, total // f1 // 2]
        base = _interleaved(total, radices)
        if base == list(range(total)):
            continue
        out.append(fmt % ",".join(map(str, base)))
        for pos in (total - 1, 0, total // 2):
            lst = list(base)
            lst[pos] = total + rng.choice([0, 1, 1, 4, 20])
            out.append(fmt % ",".join(map(str, lst)))
    return out


# ---------------------------------------------------------------------------
# SPEC of sizes with unit suffixes, with the DOCUMENTED multipliers (doc/hwloc.doxy: "kB, KiB, MB, MiB, ..."),
# written here by hand and not derived from the source or from the model: kB=1000, kiB=1024, MB=10^6, MiB=2^20,
# GB=10^9, GiB=2^30, TB=10^12, TiB=2^40, any letter case; no suffix = bytes.
# ---------------------------------------------------------------------------
DOC_UNITS = {"": 1, "kb": 1000, "kib": 1024, "mb": 10 ** 6, "mib": 2 ** 20, "gb": 10 ** 9, "gib": 2 ** 30, "tb": 10 ** 12, "tib": 2 ** 40}
_UNITS_TOK = re.compile(r"^(?:(pack|core|pu):(\d+)|(l1|l2|l3):(\d+)\(size=(\d+)([A-Za-z]*)\)|numa:(\d+)\(memory=(\d+)([A-Za-z]*)(?: memorysidecachesize=(\d+)([A-Za-z]*))?\)|\[numa\(memory=(\d+)([A-Za-z]*)(?: memorysidecachesize=(\d+)([A-Za-z]*))?\)\])$")


def _doc_bytes(num, unit):
    u = unit.lower()
    if len(num) > 1 and num[0] == "0":       # base 0: octal / hex prefixes are not part of this spec
        return None
    if u not in DOC_UNITS or int(num) * DOC_UNITS[u] >= 2 ** 64:      # saturation / wrap-around is outside this spec
        return None
    return int(num) * DOC_UNITS[u]


def units_expected(desc):
    """-> {"cache": {type number: bytes}, "mem": bytes or None, "msc": bytes or None} or None if not canonical"""
    exp = {"cache": {}, "mem": None, "msc": None}
    toks = re.findall(r"\[numa\([^()\[\]]*\)\]|[a-z0-9]+:\d+(?:\([^()]*\))?", desc)
    if " ".join(toks) != desc or not toks:
        return None
    seen = False
    for tok in toks:
        m = _UNITS_TOK.match(tok)
        if not m:
            return None
        if m.group(3):
            b = _doc_bytes(m.group(5), m.group(6))
            if b is None or b == 0:
                return None
            exp["cache"][{"l1": 5, "l2": 6, "l3": 7}[m.group(3)]] = b
            seen = True
        elif m.group(7) or m.group(12):
            if exp["mem"] is not None:
                return None
            g = 8 if m.group(7) else 12
            b = _doc_bytes(m.group(g), m.group(g + 1))
            if b is None or b == 0:
                return None
            exp["mem"] = b
            if m.group(g + 2):
                c = _doc_bytes(m.group(g + 2), m.group(g + 3))
                if c is None or c == 0:
                    return None
                exp["msc"] = c
            seen = True
    return exp if seen else None


def gen_units_spec(rng, per_unit=1):
    """every unit suffix in every letter case on cache sizes, NUMA memory (level and attached) and memory-side caches"""
    out = []
    import itertools
    for u in ["", "kB", "kiB", "MB", "MiB", "GB", "GiB", "TB", "TiB"]:
        cases_ = sorted(set("".join(c) for c in itertools.product(*[(ch.lower(), ch.upper()) for ch in u]))) if u else [""]
        for uc in cases_:
            for _ in range(per_unit):
                n1, n2, n3 = rng.choice([1, 3, 32, 100, 512, 999]), rng.choice([1, 2, 16, 250, 1000]), rng.choice([1, 4, 64, 300])
                a, b, c = rng.choice([1, 2, 3]), rng.choice([1, 2]), rng.choice([1, 2])
                cl = rng.choice(["l1", "l2", "l3"])
                out.append("pack:%d [numa(memory=%d%s memorysidecachesize=%d%s)] %s:%d(size=%d%s) pu:%d" % (a, n2, uc, n3, uc, cl, b, n1, uc, c))
                out.append("numa:%d(memory=%d%s) %s:%d(size=%d%s) core:%d pu:1" % (a + 1, n2, uc, cl, b, n1, uc, c))
                out.append("pack:%d numa:%d(memory=%d%s memorysidecachesize=%d%s) pu:%d" % (a, b, n2, uc, n3, uc, c))
    return out
