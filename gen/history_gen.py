"""C02: generator and shrinker of histories of modifying calls (script grammar:
harness/hwv_history.c).  Everything derives from the rng given by the caller.

A case = (config lines, call lines).  Object references are `#k` (k-th object
modulo the current number of objects, DFS order), so a history needs no
feedback from the topology and stays meaningful while it is shrunk."""
import os

from hv import common as C
from gen import topo_sources as S

# hwloc.h values (cross-checked at run time against Gen/Tables.v by checks/c02.py)
RESTRICT_FLAGS = {"REMOVE_CPULESS": 1, "ADAPT_MISC": 2, "ADAPT_IO": 4, "BYNODESET": 8, "REMOVE_MEMLESS": 16}
TYPES = S.T

FIXED_SYNTHETIC = [
    "pack:4 [numa(indexes=2,0,3,1)] pu:2", "numa:4(indexes=3,2,1,0) core:2 pu:1", "pack:2 [numa(indexes=1,0)] core:2 [numa(indexes=3,2,5,4)] pu:1",
    "pack:2 [numa(memory=1024 memorysidecachesize=256)] core:2 pu:1", "pack:2 [numa(memorysidecachesize=1024)] [numa] core:2 pu:2",
    "numa:2(memorysidecachesize=4096) core:2 pu:1",
    "pack:2 [numa] core:2 [numa] pu:2", "pack:2 [numa] [numa] l2:2 [numa] pu:2",
    "numa:4 core:2 pu:1", "pack:2 core:2 pu:2", "pack:2 [numa] core:4 pu:1", "numa:2 pack:2 core:2 pu:1",
    "pack:2 core:1 pu:2", "group:2 pack:2 [numa] l2:2 core:1 pu:2", "pack:3 [numa] [numa] core:2 pu:1",
    "pack:2 die:1 core:2 pu:1", "numa:6 pu:1", "pack:1 core:1 pu:1", "pack:4 [numa(memory=1024)] core:1 pu:1",
]

BIG_XML = ("192em64t-12gr2n8c2t.xml", "192em64t-24n8c2t.xml", "96em64t-4n4d3ca2co-pci.xml", "irregulargroups-disallowed.xml")


# hand-made XML sources: no gp_index/id attributes at all (objects numbered in document order by the importer); ids in
# document order with one index missing before the end; sparse out-of-order ids with the largest one last
OWN_XML = [os.path.join(C.VERIF, "corpus", "c02", n) for n in
           ("xml-without-ids.xml", "xml-ids-document-order-gap.xml", "xml-ids-sparse-largest-last.xml")]


def xml_pool(quick):
    xs = S.xml_corpus() + OWN_XML
    if quick:
        xs = [x for x in xs if os.path.basename(x) not in BIG_XML]
    return xs


def gen_config(rng, quick=True, kind=None):
    """Returns (config lines, kind tag)."""
    lines = []
    kind = kind or rng.choice(["syn", "syn", "syn", "fixed", "fixed", "xml"])
    # filters: Misc and I/O are KEEP_NONE by default; Group is KEEP_STRUCTURE
    r = rng.random()
    if r < 0.12:
        lines.append("filter all 2")          # KEEP_STRUCTURE wherever it is legal
    elif r < 0.2:
        lines.append("filter all 0")
    if rng.random() < 0.75:
        lines.append("filter 19 0")           # keep Misc
    if rng.random() < 0.5:
        lines.append("filter io %d" % rng.choice([0, 0, 3]))
    if rng.random() < 0.3:
        lines.append("filter 13 %d" % rng.choice([0, 0, 1, 2]))
    if rng.random() < 0.4:
        lines.append("filter 15 0")           # keep MemCache (KEEP_NONE by default)
    if rng.random() < 0.15:
        lines.append("filter %d %d" % (rng.choice([1, 2, 3, 5, 6, 7]), rng.choice([0, 1, 2])))
    flags = 0
    if rng.random() < 0.5:
        flags |= 1                            # INCLUDE_DISALLOWED
    for b in (128, 256, 512):                 # NO_DISTANCES, NO_MEMATTRS, NO_CPUKINDS
        if rng.random() < 0.08:
            flags |= b
    lines.append("flags %d" % flags)
    if kind == "syn":
        lines.append("src synthetic " + S.gen_synthetic(rng, max_levels=4, max_arity=3, max_pus=24))
    elif kind == "fixed":
        lines.append("src synthetic " + rng.choice(FIXED_SYNTHETIC))
    else:
        lines.append("env HWLOC_LIBXML_IMPORT %d" % rng.choice([0, 1]))
        pool = xml_pool(quick)
        special = [x for x in pool if os.path.basename(x) in ("16em64t-4s2c2t-offlines.xml", "16amd64-8n2c-cpusets.xml", "irregulargroups-disallowed.xml", "memorysidecaches.xml",
                                                             "xml-without-ids.xml", "xml-ids-document-order-gap.xml", "xml-ids-sparse-largest-last.xml")]
        lines.append("src xml " + (rng.choice(special) if special and rng.random() < 0.3 else rng.choice(pool)))
    return lines, kind


# every kind of object a call may be aimed at: normal (Machine .. PU, caches, Group), NUMANode, MemCache, Bridge, PCIDev, OSDev, Misc
ALL_KINDS = [0, 1, 2, 3, 4, 5, 6, 7, 13, 14, 14, 15, 15, 16, 17, 18, 19, 19]


def ref(rng):
    return "#%d" % rng.randrange(0, 400)


def kind_ref(rng):
    """An object of a given type (harness: falls back to a syntax error line when the topology has none)."""
    return "#t%d.%d" % (rng.choice(ALL_KINDS), rng.randrange(0, 8))


def set_expr(rng, what="cs", allow_null=False):
    """what = cs (cpuset-like) or ns (nodeset-like)."""
    r = rng.random()
    pre = what
    cpre = "c" + what
    if allow_null and r < 0.05:
        return "-"
    if r < 0.30:
        return "%s%s" % (rng.choice([pre, pre, cpre]), ref(rng))
    if r < 0.45:
        return "%s%s+%s%s" % (pre, ref(rng), pre, ref(rng))
    if r < 0.55:
        return "~%s%s" % (pre, ref(rng))
    if r < 0.62:
        return "+".join("b%d" % rng.randrange(0, 24 if what == "cs" else 6) for _ in range(rng.randint(1, 4)))
    if r < 0.70:
        return "0:%016x" % rng.getrandbits(rng.choice([2, 4, 8, 16, 24]))
    if r < 0.76:
        # straddling two objects: one bit of each
        return "%s%s&0:%016x+%s%s&0:%016x" % (pre, ref(rng), 0x5555555555555555, pre, ref(rng), 0xaaaaaaaaaaaaaaaa)
    if r < 0.80:
        return "empty"
    if r < 0.84:
        return "full"
    if r < 0.88:
        return "b%d" % rng.choice([63, 64, 65, 511, 600])
    if r < 0.92:
        return rng.choice(["acpu", "anode"])
    if r < 0.96:
        return "%s%s\\b%d" % (pre, ref(rng), rng.randrange(0, 16))
    return "1:%016x" % rng.getrandbits(8)


WORDS = ["a", "Foo", "lstopoStyle", "x=y", "v;1", "long name", "%41", "é", "Backend", "0"]


def word(rng):
    w = rng.choice(WORDS)
    return w.replace(" ", "_")


def gen_call(rng):
    r = rng.random()
    if r < 0.16:
        # restrict: mostly sets that keep most of the machine
        bynode = rng.random() < 0.35
        fl = 0
        if bynode:
            fl |= 8
            if rng.random() < 0.4:
                fl |= 16
        elif rng.random() < 0.4:
            fl |= 1
        if rng.random() < 0.4:
            fl |= 2
        if rng.random() < 0.4:
            fl |= 4
        q = rng.random()
        if q < 0.08:
            fl = rng.choice([32, 64, 9, 17, 25, 1 << 20, 31])      # invalid words / combinations
        what = "ns" if bynode else "cs"
        if bynode and rng.random() < 0.3:
            return "restrict ~b%d %d" % (rng.randrange(0, 8), fl | 16 if rng.random() < 0.7 else fl)
        if rng.random() < 0.6:
            s = rng.choice(["~%s%s" % (what, ref(rng)), "~b%d" % rng.randrange(0, 16), "%s%s+%s%s" % (what, ref(rng), what, ref(rng)), "full"])
        else:
            s = set_expr(rng, what)
        return "restrict %s %d" % (s, fl)
    if r < 0.26:
        return "misc %s %s" % (kind_ref(rng) if rng.random() < 0.5 else ref(rng), rng.choice(["-", word(rng)]))
    if r < 0.50:
        parts = ["group"]
        q = rng.random()
        if q < 0.55:
            parts.append("cs=" + set_expr(rng, "cs"))
        elif q < 0.62:
            parts.append("ns=" + set_expr(rng, "ns"))
        elif q < 0.70:
            a, b = rng.sample(range(0, 6), 2)
            parts.append("%s=b%d+b%d" % (rng.choice(["ns", "ns", "cns"]), a, b))
        elif q < 0.75:
            r = ref(rng)                      # consistent pair: both sets of one object
            parts.append("cs=cs%s" % r)
            parts.append("ns=ns%s" % r)
        elif q < 0.80:
            parts.append("cs=" + set_expr(rng, "cs"))
            parts.append("ns=" + set_expr(rng, "ns"))
        elif q < 0.88:
            parts.append("ccs=" + set_expr(rng, "cs"))
            if rng.random() < 0.5:
                parts.append("cns=" + set_expr(rng, "ns"))
        elif q < 0.94:
            parts.append("cs=cs#0")           # equal to the root
        # else: no set at all
        if rng.random() < 0.4:
            parts.append("dm=1")
        if rng.random() < 0.5:
            parts.append("kind=%d" % rng.choice([0, 1, 3, 5, 7, 900, 1001, 0xffffffff]))
        if rng.random() < 0.2:
            parts.append("sub=%d" % rng.randrange(0, 3))
        if rng.random() < 0.3:
            parts.append("ud=1")
        if rng.random() < 0.2:
            parts.append("st=" + word(rng))
        if rng.random() < 0.06:
            parts.append("free")
        return " ".join(parts)
    if r < 0.60:
        fl = rng.choice([1, 1, 2, 4, 4, 4, 4, 0, 3, 5, 8])
        if fl == 4 or rng.random() < 0.2:
            c = set_expr(rng, "cs", allow_null=True) if rng.random() < 0.8 else "-"
            n = set_expr(rng, "ns", allow_null=True) if rng.random() < 0.6 else "-"
        else:
            c, n = "-", "-"
        return "allow %d %s %s" % (fl, c, n)
    if r < 0.70:
        ty = rng.choice([TYPES["NUMANode"], TYPES["NUMANode"], TYPES["Core"], TYPES["PU"], TYPES["Package"], TYPES["Group"]])
        kind = rng.choice([6, 6, 5, 34, 10, 2, 0, 7, 64])     # FROM_USER|LATENCY, FROM_OS|LATENCY, USER|HOPS, USER|BW, ...
        flags = rng.choice([0, 1, 1, 1, 3, 2, 4])
        if rng.random() < 0.75:
            vals = "blk:%d:%d:%d:%d" % (rng.choice([2, 2, 2, 3, 4]), rng.choice([10, 10, 0]), rng.choice([20, 11]), rng.choice([40, 40, 20]))
        else:
            vals = rng.choice(["rnd:%d" % rng.randrange(1000), "const:%d" % rng.choice([0, 7])])
        if rng.random() < 0.8:
            objs = "type:%d" % ty
        elif rng.random() < 0.5:
            objs = "depth:%d" % rng.randrange(-8, 6)
        else:
            objs = "list:" + ",".join(ref(rng) for _ in range(rng.randint(0, 6)))
        extra = ""
        if rng.random() < 0.2:
            extra += " max=%d" % rng.randint(0, 8)
        if rng.random() < 0.04:
            extra += " nullat=%d" % rng.randint(1, 3)
        return "dist name=%s kind=%d flags=%d objs=%s vals=%s%s" % (rng.choice(["-", "lat", "NUMALatency"]), kind, flags, objs, vals, extra)
    if r < 0.74:
        return rng.choice(["distrm all", "distrm depth %d" % rng.randrange(-8, 6), "distrm type %d" % rng.randrange(0, 20), "distrm nth %d" % rng.randrange(0, 4)])
    if r < 0.78:
        return "memattr_reg %s %d" % (rng.choice(["foo", "bar", "Bandwidth", "x"]), rng.choice([1, 2, 5, 6, 0, 3, 8]))
    if r < 0.84:
        init = rng.choice(["-", "cs:" + set_expr(rng, "cs"), "obj:" + ref(rng)])
        return "memattr_set %d %s %s %d" % (rng.choice([0, 1, 2, 3, 4, 5, 6, 7, 8, 9, 40]), ref(rng), init, rng.randrange(0, 1000))
    if r < 0.88:
        return "cpukind %s %d %s %d" % (set_expr(rng, "cs", allow_null=True), rng.choice([-1, 0, 1, 5]), rng.choice(["-", "a=b", "CoreType=x;a=b"]), rng.choice([0, 0, 0, 1]))
    if r < 0.91:
        return "info_add %s %s %s" % (ref(rng), word(rng), word(rng))
    if r < 0.95:
        return "info_mod %s %d %s %s" % (ref(rng), rng.choice([1, 2, 4, 8, 8, 0, 3, 16]), rng.choice(["-", word(rng)]), rng.choice(["-", word(rng)]))
    if r < 0.96:
        return "tinfo_mod %d %s %s" % (rng.choice([1, 2, 4, 8]), rng.choice(["-", word(rng)]), rng.choice(["-", word(rng)]))
    if r < 0.975:
        return "subtype %s %s" % (ref(rng), rng.choice(["-", word(rng)]))
    if r < 0.985:
        return "refresh"
    return "touch"


def gen_history(rng, maxlen):
    n = rng.randint(1, maxlen)
    calls = []
    if rng.random() < 0.25:
        # derived starting point (only effective when the configuration has INCLUDE_DISALLOWED: allow fails otherwise and
        # the reload is then a plain XML round trip): disallow some PUs and/or NUMA nodes, reload without the flag
        c = rng.choice(["-", "~b%d" % rng.randrange(0, 8), "~b%d\\b%d" % (rng.randrange(0, 8), rng.randrange(0, 8)), "~cs%s" % ref(rng)])
        nd = rng.choice(["-", "~b%d" % rng.randrange(0, 4), "~b%d\\b%d" % (rng.randrange(0, 4), rng.randrange(0, 4)), "b0+b1+b2"])
        if c == "-" and nd == "-":
            nd = "~b1"
        calls += ["allow 4 %s %s" % (c, nd), "reload %d" % rng.choice([0, 0, 0, 1])]
        for _ in range(rng.randint(1, 3)):
            bynode = rng.random() < 0.6
            fl = (8 | rng.choice([0, 16, 16, 18, 22, 2, 4])) if bynode else rng.choice([0, 1, 2, 3, 5, 7])
            st = rng.choice(["~b%d" % rng.randrange(0, 6), "b0+b2+b3", "b0+b1+b3", "full", "~b%d\\b%d" % (rng.randrange(0, 6), rng.randrange(0, 6))])
            calls.append("restrict %s %d" % (st, fl))
    calls += ["ud %s" % ref(rng) for _ in range(rng.randint(0, 3))]
    if rng.random() < 0.3:
        # asymmetric starting point: an initial restrict that removes one object's CPUs
        calls.append("restrict ~cs%s %d" % (ref(rng), rng.choice([0, 1, 2, 6])))
    calls += [gen_call(rng) for _ in range(n)]
    if rng.random() < 0.3:
        # insert the same Group / the same grouping matrix again later (same sets, same kind), after giving
        # identity (userdata, subtype, infos) to objects: a surviving object must keep all of it
        cands = [i for i, c in enumerate(calls) if c.startswith(("group ", "dist ")) and " free" not in c]
        if cands:
            i = rng.choice(cands)
            again = " ".join(w for w in calls[i].split(" ") if not w.startswith(("ud=", "st=", "dm=")))
            mid = []
            for _ in range(rng.randint(1, 4)):
                r = "#%d" % rng.randrange(0, 12)
                mid.append(rng.choice(["ud %s" % r, "subtype %s s" % r, "info_add %s a b" % r]))
            j = rng.randint(i + 1, len(calls))
            calls[j:j] = mid + [again]
    if rng.random() < 0.4:
        # XML round trips inside the history: right before the first call that creates an object, and at random points
        creating = [i for i, c in enumerate(calls) if c.startswith(("misc ", "group ")) or (c.startswith("dist ") and " flags=1" in c or " flags=3" in c)]
        points = set()
        if creating and rng.random() < 0.7:
            points.add(creating[0])
        for _ in range(rng.randint(0, 2)):
            points.add(rng.randrange(0, len(calls) + 1))
        for i in sorted(points, reverse=True):
            calls.insert(i, "reload %d" % rng.choice([0, 0, 1]))
    if rng.random() < 0.5:
        calls.append("touch")
    return calls


# the situations DESIGN.md section 10 (#13) announces, and the ones found while building the check
DIRECTED = [
    ("grouping-after-load", ["flags 0", "src synthetic numa:4 core:2 pu:1"],
     ["dist name=lat kind=6 flags=1 objs=type:14 vals=blk:2:10:20:40"]),
    ("dontmerge-equal-existing-group-other-kind", ["flags 0", "src synthetic pack:2 core:2 pu:2"],
     ["group cs=cs#1 dm=1", "group cs=cs#1 dm=1 kind=7"]),
    ("dontmerge-over-mergeable-group", ["flags 0", "src synthetic pack:2 core:4 pu:1"],
     ["group cs=b0+b1 kind=5 ud=1", "group cs=b0+b1 kind=3 dm=1"]),
    ("smaller-kind-over-group-with-userdata", ["flags 0", "src synthetic pack:2 core:4 pu:1"],
     ["group cs=b0+b1 kind=5 ud=1", "group cs=b0+b1 kind=3"]),
    ("keep-structure-vs-dontmerge", ["flags 0", "src synthetic pack:2 core:1 pu:2"],
     ["group cs=b0+b1 dm=1", "group cs=b2+b3 dm=1", "restrict full 0"]),
    ("two-step-keep-structure-restrict", ["filter all 2", "flags 0", "src synthetic pack:2 [numa] l2:2 core:2 pu:2"],
     ["restrict ~b0 0", "restrict ~b1 0", "restrict ~b2\\b3 0"]),
    ("allow-custom-bad-nodeset", ["flags 1", "src synthetic pack:2 core:2 pu:2"],
     ["allow 4 b0+b1 b5"]),
    ("allow-all-with-offline-pus", ["flags 1", "src xml " + os.path.join(C.REPO, "tests/hwloc/xml/16em64t-4s2c2t-offlines.xml")],
     ["allow 1 - -"]),
    ("dontmerge-group-over-package-with-numa", ["flags 0", "src synthetic pack:2 [numa(memory=1024)] core:2 pu:1"],
     ["group ns=b1 dm=1"]),
    ("cpukinds-register-restrict-register", ["flags 0", "src synthetic pack:2 core:2 pu:2"],
     ["cpukind 0:000000000000000c 1 a=b 0", "restrict b0+b1+b4 0", "cpukind b0 1 a=b 0"]),
]


IO_XML = os.path.join(C.VERIF, "corpus", "c02", "io-two-levels.xml")   # pack:2 [numa] l2:2 [numa] core:2 pu:1 + a host bridge/PCI device below every Package and every L2

# level merging by KEEP_STRUCTURE inside restrict, in both directions (parent level replaced by its child level,
# child level merged into its parent level), with Misc / memory / I/O children on BOTH sides of the merge
DIRECTED += [
    ("merge-parent-into-child-misc", ["filter 19 0", "flags 0", "src synthetic pack:1 core:4 pu:2"],
     ["group cs=b0+b1+b2+b3", "misc #2 g", "misc #3 c", "restrict b0+b1 0"]),
    ("merge-child-into-parent-misc", ["filter 19 0", "flags 0", "src synthetic pack:1 core:4 pu:2"],
     ["group cs=b0+b1+b2+b3", "misc #1 p", "misc #2 g", "restrict b0+b1+b2+b3 0"]),
    ("merge-parent-into-child-memory", ["filter 1 2", "flags 0", "src synthetic pack:2 [numa] l2:2 [numa] core:1 pu:1"],
     ["restrict b0 1"]),
    ("merge-child-into-parent-memory", ["filter 6 2", "flags 0", "src synthetic pack:2 [numa] l2:2 [numa] core:2 pu:1"],
     ["restrict b0+b1 1"]),
    # a second mergeable Group with the same sets and the SAME kind must leave the first one alone (gp_index,
    # userdata, subtype, infos), for user Groups and for Groups created by distances grouping
    ("same-kind-group-twice-keeps-identity", ["flags 0", "src synthetic pack:2 core:4 pu:1"],
     ["group cs=b0+b1 ud=1 st=first", "info_add #2 a b", "group cs=b0+b1", "group cs=b0+b1 kind=0 st=second ud=1"]),
    ("same-kind-group-twice-kind5", ["flags 0", "src synthetic pack:2 core:4 pu:1"],
     ["group cs=b2+b3 kind=5 ud=1", "subtype #5 s", "group cs=b2+b3 kind=5", "group cs=b2+b3 kind=7"]),
    ("distances-grouping-twice-keeps-identity", ["flags 0", "src synthetic numa:4 core:2 pu:1"],
     ["dist name=lat kind=6 flags=1 objs=type:14 vals=blk:2:10:20:40", "ud #1", "subtype #1 s", "info_add #1 a b",
      "dist name=lat2 kind=6 flags=1 objs=type:14 vals=blk:2:10:20:40"]),
    # BYNODESET|REMOVE_MEMLESS where PUs have two local NUMA nodes (attached at two levels) and lose only one
    ("restrict-bynodeset-memless-two-local-nodes", ["flags 0", "src synthetic pack:2 [numa] core:2 [numa] pu:2"],
     ["restrict ~b0 24", "restrict ~b3 24", "restrict ~b5 26"]),
    ("restrict-bynodeset-memless-hbm-like", ["flags 1", "src synthetic pack:2 [numa] [numa] core:2 pu:2"],
     ["restrict ~b1 24", "restrict ~b2 30"]),
    # restrict by cpuset on topologies with offline / disallowed PUs (complete_cpuset larger than cpuset), keeping all
    # the allowed PUs of some objects while dropping others
    ("restrict-with-offline-pus", ["flags 0", "src xml " + os.path.join(C.REPO, "tests/hwloc/xml/16em64t-4s2c2t-offlines.xml")],
     ["restrict cs#1+cs#9 0", "restrict cs#1 0"]),
    ("restrict-with-offline-pus-2", ["flags 0", "src xml " + os.path.join(C.REPO, "tests/hwloc/xml/16em64t-4s2c2t-offlines.xml")],
     ["restrict cs#4+cs#12 2"]),
    ("restrict-with-disallowed-pus", ["flags 0", "src xml " + os.path.join(C.REPO, "tests/hwloc/xml/16amd64-8n2c-cpusets.xml")],
     ["restrict cs#1+cs#9 0", "restrict cs#2 1"]),
    # put-back path: the refused Group contains a child, is disjoint from the next one and straddles a later one
    ("group-conflict-putback-after-gap", ["flags 0", "src synthetic pack:4 core:2 pu:2"],
     ["group cs=b0+b1+b2+b3+b8+b9", "group cs=b4+b5+b6+b7+b12 dm=1", "group cs=b0+b1+b2+b3+b8+b9+b12+b13+b14+b15"]),
    # Misc below every kind of parent, memory-side caches kept (MemCache and Misc are KEEP_NONE by default)
    ("misc-under-every-kind-memcache", ["filter 15 0", "filter 19 0", "flags 0", "src synthetic pack:2 [numa(memory=1024 memorysidecachesize=256)] core:2 pu:1"],
     ["misc #t15.0 m", "misc #t14.1 n", "misc #t19.0 nested", "misc #t4.0 pu", "misc #t15.1 m2", "restrict b0+b1 2", "group cs=b0", "misc #t15.0 again"]),
    ("misc-under-every-kind-memcache-xml", ["filter all 0", "flags 1", "src xml " + os.path.join(C.REPO, "tests/hwloc/xml/memorysidecaches.xml")],
     ["misc #t15.0 m", "misc #t15.3 m", "misc #t14.2 n", "misc #t19.1 nested", "allow 1 - -", "restrict ~b0 6"]),
    ("misc-under-io", ["filter io 0", "filter 19 0", "flags 0", "src xml " + IO_XML],
     ["misc #t16.0 b", "misc #t17.1 p", "misc #t19.0 nested", "restrict b0+b1 6", "misc #t17.0 p2"]),
    # initial topology = load with INCLUDE_DISALLOWED, allow(CUSTOM), export XML, reload without the flag: disallowed PUs and
    # NUMA nodes are dropped at load (cpuset != complete_cpuset, nodeset != complete_nodeset on the survivors)
    ("reload-disallowed-node-then-restrict-bynodeset", ["filter 19 0", "flags 1", "src synthetic pack:4 numa:1 pu:2"],
     ["allow 4 - b0+b1+b2", "reload 0", "restrict b0+b2+b3 26"]),
    ("reload-disallowed-pus-and-node-then-restricts", ["flags 1", "src synthetic pack:2 [numa] core:2 [numa] pu:2"],
     ["allow 4 ~b2\\b3 ~b1", "reload 0", "restrict ~b0 24", "restrict b0+b1+b2+b4+b5 1", "restrict full 16"]),
    ("reload-disallowed-then-group-misc", ["filter 19 0", "flags 1", "src synthetic pack:4 numa:1 pu:2"],
     ["allow 4 ~b6 b0+b1+b3", "reload 0", "group cs=b0+b1+b2+b3", "misc #t14.1 m", "restrict b0+b1+b3 24", "restrict b0+b1+b2+b3 0"]),
    # gp_index of objects created after an XML (re)load must be fresh: ids in document order / absent / largest last
    ("reload-then-insert-fresh-gp", ["filter 19 0", "flags 0", "src xml " + OWN_XML[0]],
     ["restrict ~b1 0", "reload 0", "misc #0 x", "group cs=b4+b5+b6", "reload 0", "misc #3 y"]),
    ("xml-ids-gap-then-insert", ["filter 19 0", "flags 0", "src xml " + OWN_XML[1]],
     ["misc #0 x", "group cs=b0+b1+b2", "dist name=l kind=6 flags=1 objs=type:3 vals=blk:2:10:20:40"]),
    ("xml-ids-sparse-then-insert", ["filter 19 0", "flags 0", "src xml " + OWN_XML[2]],
     ["group cs=b4+b5+b6", "misc #0 x", "reload 0", "group free", "misc #0 z", "reload 0", "misc #1 w"]),
    ("synthetic-restrict-reload-insert", ["filter 19 0", "flags 0", "src synthetic pack:2 core:2 pu:2"],
     ["restrict ~b1 0", "reload 0", "misc #0 x", "restrict ~b2 0", "reload 0", "group cs=b4+b5+b6", "misc #2 y"]),
    # Groups given by nodeset / complete_nodeset only where NUMA os_index differs from the logical index
    ("group-by-nodeset-after-restrict-bynodeset", ["flags 0", "src synthetic pack:4 [numa] pu:2"],
     ["restrict b1+b2+b3 8", "group ns=b1+b2", "group cns=b2+b3 kind=3"]),
    ("group-by-nodeset-shuffled-indexes", ["flags 0", "src synthetic pack:4 [numa(indexes=2,0,3,1)] pu:2"],
     ["group ns=b0+b2", "group cns=b1+b3", "group cs=cs#1 ns=ns#1 kind=5"]),
    ("group-by-nodeset-reversed-numa-level", ["flags 0", "src synthetic numa:4(indexes=3,2,1,0) core:2 pu:1"],
     ["group ns=b0+b1", "group cs=cs#1+cs#8 ns=ns#1+ns#8", "restrict ~b3 8", "group ns=b1+b2 dm=1"]),
    ("dontmerge-mixed-group-level", ["flags 0", "src synthetic pack:1 core:4 pu:1"],
     ["group cs=b0+b1", "group cs=b2+b3 dm=1", "restrict b0+b2 0"]),
    ("dontmerge-mixed-group-level-reversed", ["flags 0", "src synthetic pack:1 core:6 pu:1"],
     ["group cs=b4+b5 dm=1", "group cs=b0+b1", "group cs=b2+b3", "restrict b0+b2+b4 0"]),
    ("merge-parent-into-child-io", ["filter io 0", "filter 1 2", "flags 0", "src xml " + IO_XML], ["restrict b0+b1 5"]),
    ("merge-child-into-parent-io", ["filter io 0", "filter 6 2", "flags 0", "src xml " + IO_XML], ["restrict b0+b1 5"]),
]

MERGE_TOPOS = [
    "pack:2 [numa(memory=1024 memorysidecachesize=256)] l2:2 [numa(memorysidecachesize=64)] core:2 pu:1",
    "pack:1 core:4 pu:2", "pack:2 core:4 pu:1", "pack:2 [numa] l2:2 [numa] core:2 pu:1", "pack:2 [numa] l2:2 [numa] core:1 pu:1",
    "group:2 pack:2 [numa] core:2 pu:1", "pack:1 [numa] die:2 [numa] l3:2 core:2 pu:1", "pack:3 [numa] [numa] core:2 pu:2",
    "numa:2 pack:2 l2:2 pu:2", "pack:2 die:1 core:2 pu:1",
]


def gen_merge_case(rng):
    """A short history aimed at hwloc_filter_levels_keep_structure inside restrict: Misc (and I/O) kept,
    some types KEEP_STRUCTURE, Groups inserted above existing levels, Misc (also nested) under objects of
    adjacent levels, then restricts that leave single-child chains.  Returns (config, calls, kind)."""
    cfg = ["filter 19 0"]
    if rng.random() < 0.5:
        cfg.append("filter 15 0")
    use_xml = rng.random() < 0.25
    if use_xml or rng.random() < 0.5:
        cfg.append("filter io 0")
    r = rng.random()
    if r < 0.2:
        cfg.insert(0, "filter all 2")
        cfg.append("filter 19 0")
        if use_xml:
            cfg.append("filter io 0")
    else:
        for ty in rng.sample([1, 2, 3, 6, 7, 13], rng.randint(0, 2)):
            cfg.append("filter %d %d" % (ty, rng.choice([2, 2, 0])))
    cfg.append("flags %d" % rng.choice([0, 0, 1]))
    cfg.append("src xml " + IO_XML if use_xml else "src synthetic " + rng.choice(MERGE_TOPOS))
    calls = []
    small = lambda hi=14: "#%d" % rng.randrange(0, hi)
    for _ in range(rng.randint(0, 3)):
        a = rng.randrange(1, 10)
        spec = rng.choice(["cs=cs#%d+cs#%d" % (a, a + rng.choice([1, 2, 3, 4])), "cs=cs%s" % small(), "cs=b0+b1+b2+b3", "cs=b0+b1", "cs=b4+b5+b6+b7"])
        calls.append("group %s%s%s" % (spec, rng.choice(["", "", " dm=1"]), rng.choice(["", " kind=%d" % rng.choice([1, 5, 900])])))
    if rng.random() < 0.3:
        # a level of sibling Groups of one kind, dont_merge on a subset only (any position), then a restrict
        # that keeps one PU below each Group: the Group level becomes 1:1 with the level below
        k = rng.randint(2, 3)
        order = list(range(k))
        rng.shuffle(order)
        dms = [rng.random() < 0.5 for _ in range(k)]
        if not any(dms):
            dms[rng.randrange(k)] = True
        kind = rng.choice([0, 0, 5])
        for j in order:
            calls.append("group cs=b%d+b%d%s kind=%d" % (2 * j, 2 * j + 1, " dm=1" if dms[j] else "", kind))
        for _ in range(rng.randint(0, 3)):
            calls.append("misc %s -" % small(12))
        calls.append("restrict %s %d" % ("+".join("b%d" % (2 * j + rng.randrange(2)) for j in range(k)), rng.choice([0, 0, 2, 6])))
    for _ in range(rng.randint(2, 10)):
        calls.append("misc %s %s" % (kind_ref(rng) if rng.random() < 0.35 else small(20), rng.choice(["-", "m"])))
    if rng.random() < 0.3:
        calls.append("ud %s" % small())
    for _ in range(rng.randint(1, 3)):
        q = rng.random()
        if q < 0.45:
            st = "cs%s" % small(16)
        elif q < 0.7:
            st = rng.choice(["b0", "b0+b1", "b0+b1+b2+b3", "b2+b3", "b4+b5", "b0+b4"])
        elif q < 0.85:
            st = "~cs%s" % small(16)
        else:
            st = "ns%s" % small(16)
        fl = rng.choice([0, 1, 2, 3, 4, 5, 6, 7])
        if st.startswith("ns"):
            fl = 8 | rng.choice([0, 2, 4, 6, 16, 18, 22])
        calls.append("restrict %s %d" % (st, fl))
        if rng.random() < 0.3:
            calls.append("misc %s -" % small(12))
    return cfg, calls, "merge"


def script(config, calls):
    return "\n".join(["new"] + list(config) + ["load"] + list(calls) + ["destroy"]) + "\n"


def parse_script(text):
    """Inverse of script() for replay files: (config, calls)."""
    config, calls, loaded = [], [], False
    for l in text.split("\n"):
        l = l.rstrip("\r")
        if not l or l.startswith("#") or l in ("new", "destroy") or l.startswith("echo "):
            continue
        if l == "load":
            loaded = True
        elif loaded:
            calls.append(l)
        else:
            config.append(l)
    return config, calls


def ddmin(calls, still_fails, budget=120):
    """Delta debugging over the call lines; still_fails(list) -> bool."""
    cur = list(calls)
    n = 2
    tests = 0
    while len(cur) >= 1 and tests < budget:
        chunk = max(1, len(cur) // n)
        reduced = False
        i = 0
        while i < len(cur) and tests < budget:
            cand = cur[:i] + cur[i + chunk:]
            tests += 1
            if cand != cur and still_fails(cand):
                cur = cand
                n = max(n - 1, 2)
                reduced = True
            else:
                i += chunk
        if not reduced:
            if chunk == 1:
                break
            n = min(len(cur), n * 2)
    return cur
