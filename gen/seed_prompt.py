#!/usr/bin/env python3
"""prints the prompt for a seeding sub-agent:  gen/seed_prompt.py C13 a   (variant letter selects the worktree name)"""
import json, sys
pid, var = sys.argv[1], (sys.argv[2] if len(sys.argv) > 2 else "a")
p = [json.loads(l) for l in open('/verif/properties.jsonl') if json.loads(l)['id'] == pid][0]
wt = "/tmp/seed-%s%s" % (pid, var)
import glob, re
tried = []
for d in sorted(glob.glob('/verif/seeded/%s?/patch.diff' % pid)):
    fns = sorted(set(m.group(1) for l in open(d) if l.startswith('@@') for m in [re.search(r'(\w+)\s*\([^()]*\)?\s*$', l.split('@@')[-1])] if m))
    files = sorted(set(re.findall(r'^\+\+\+ b/(\S+)', open(d).read(), re.M)))
    tried.append("%s (%s)" % (", ".join(files), ", ".join(fns) if fns else "?"))
avoid = ("* Earlier testers already tried changes in: " + "; ".join(tried) + ". Pick a DIFFERENT function and, if the property has several clauses, a different clause; prefer a clause that looks hard to test (an error/rollback path, a boundary, an interaction of two features, a rarely used flag).\n") if tried else ""
print(f"""You are testing how well a verification effort detects regressions in the C library hwloc (open-mpi/hwloc, version 3.0.0a1). You get ONE behavioural property that the library is supposed to satisfy. Your job: craft a realistic, subtle change to hwloc's source that BREAKS this property while the library still compiles and the existing test suite still passes, and demonstrate it.

Property {p['id']}: {p['title']}
Statement: {p['statement']}
Quantified over: {p['quantifier']['text']}

Rules:
* Work ONLY in your own scratch git worktree: run `git -C /repo worktree add {wt} HEAD` and work in {wt}. Never edit /repo itself, never look into /verif (it must stay unknown to you), never commit anything to /repo's branches.
* Build the worktree in place: `cd {wt} && ./autogen.sh >/dev/null 2>&1 && ./configure >/dev/null && make -j6 >/dev/null` (a few minutes; `configure` is not under version control). The existing test suite is `make -k check -j6` (174 test programs/scripts in this configuration; sum the `# PASS:`/`# FAIL:` counts of all "Testsuite summary" blocks; the test `tests/hwloc/linux/gather/test-gather-topology.sh` is flaky under machine load and may be ignored). Your change must keep the suite passing.
* NEVER use `git stash` (the stash is shared by all worktrees of /repo and other people are working in other worktrees). To compare with/without your change: `git diff > /tmp/{pid}{var}.patch; git checkout -- hwloc include utils; make -j6; ...; git apply /tmp/{pid}{var}.patch; make -j6`.
* /repo's recent history contains many "fix:" commits (git log --oneline | head -60): do not simply revert one of them; invent a different change.
{avoid}* The change must be the kind of mistake a maintainer could plausibly make in a refactoring or "optimisation" (an off-by-one at a boundary, a dropped update on one path, a wrong flag/branch on a rarely used code path, two sites that each look fine alone, state not refreshed after a particular sequence...). It must need something SPECIFIC to manifest: a particular multi-step sequence of API calls, an unusual input, a boundary size, a particular flag combination — NOT something that any ordinary use exposes at once, and not a crash on the common path. Do not add dead code, comments saying it is a bug, or special-casing of magic inputs. Keep it small (a few lines).
* Write a demonstration: a small C program (linked against the worktree's built library: `gcc demo.c -I{wt}/include {wt}/hwloc/.libs/libhwloc.so -Wl,-rpath,{wt}/hwloc/.libs -o demo`) or a shell script using the built tools, which exits non-zero / prints FAIL with your change and exits 0 / prints PASS without it (verify both, see the next rule).
* Deliver, inside {wt}/SEED/: `patch.diff` (output of `git diff` for the source change only), the demonstration source (`demo.c` or `demo.sh`) with build/run instructions in a comment at the top, and `meta.json` with keys: property, summary (what the change does), needs (what specific sequence/input/config is needed for it to manifest), ran (the commands you ran and what they printed, incl. the test-suite totals with the change).
* Leave the worktree in place when you finish (I will collect SEED/ and remove it). Final message: a 10-line summary.""")
