"""Topology sources shared by the topology-level checks: generated synthetic
descriptions, the XML corpus, the bundled Linux snapshots and x86 CPUID dumps
(unpacked per run under a scratch directory which the caller removes)."""
import os
import re
import shutil
import subprocess
import tempfile

from hv import common as C

TYPE_NAMES = ["Machine", "Package", "Die", "Core", "PU", "L1Cache", "L2Cache", "L3Cache", "L4Cache", "L5Cache",
              "L1iCache", "L2iCache", "L3iCache", "Group", "NUMANode", "MemCache", "Bridge", "PCIDev", "OSDev", "Misc"]
T = {n: i for i, n in enumerate(TYPE_NAMES)}

# normal types from outermost to innermost as the synthetic backend orders them by default
SYN_ORDER = ["group", "package", "die", "l3", "l2", "l1", "l1i", "core"]


def gen_synthetic(rng, max_levels=5, max_arity=4, max_pus=64):
    """A structured, valid synthetic description (mostly): random subset of the
    level types in hierarchy order, random arities, NUMA nodes attached at
    random levels or given as a level, PU last."""
    while True:
        k = rng.randint(0, max_levels)
        pool = ["group"] * rng.randint(0, 2) + rng.sample(["package", "die", "l3", "l2", "l1", "l1i", "core"], k=min(k, 7))
        order = {"group": 0, "package": 1, "die": 2, "l3": 3, "l2": 4, "l1": 5, "l1i": 6, "core": 7}
        if rng.random() < 0.85:
            pool.sort(key=lambda x: order[x])
        items = []
        total = 1
        numa_done = False
        style = rng.choice(["attach", "level", "none", "attach", "multi"])
        for ty in pool:
            a = rng.choice([1, 1, 2, 2, 3, max_arity])
            total *= a
            s = "%s:%d" % (ty, a)
            items.append(s)
            if style in ("attach", "multi") and (not numa_done or style == "multi") and rng.random() < 0.4:
                items.append("[numa(memory=%d)]" % rng.choice([1024, 1 << 20, 1 << 30]) if rng.random() < 0.5 else "[numa]")
                numa_done = True
            if style == "level" and not numa_done and rng.random() < 0.3:
                a2 = rng.choice([1, 2, 3])
                total *= a2
                items.append("numa:%d" % a2)
                numa_done = True
        a = rng.choice([1, 2, 2, 3, 4])
        total *= a
        pu = "pu:%d" % a
        if rng.random() < 0.15 and total <= 16:
            idx = list(range(total))
            rng.shuffle(idx)
            pu += "(indexes=%s)" % ",".join(map(str, idx))
        items.append(pu)
        if total <= max_pus:
            return " ".join(items)


def filter_lines(rng, exhaustive_types=None):
    """Random type-filter assignment.  Returns list of config lines."""
    lines = []
    r = rng.random()
    if r < 0.2:
        return lines
    if r < 0.3:
        return ["filter all %d" % rng.choice([0, 2])]
    for ty in range(20):
        if rng.random() < 0.35:
            if ty in (16, 17, 18):
                f = rng.choice([0, 1, 2, 3])
            else:
                f = rng.choice([0, 1, 2])
            lines.append("filter %d %d" % (ty, f))
    return lines


def xml_corpus():
    d = os.path.join(C.REPO, "tests/hwloc/xml")
    return sorted(os.path.join(d, n) for n in os.listdir(d) if n.endswith(".xml"))


def snapshots(kind):
    d = os.path.join(C.REPO, "tests/hwloc", kind)
    if not os.path.isdir(d):
        return []
    return sorted(os.path.join(d, n) for n in os.listdir(d) if n.endswith(".tar.bz2"))


class Scratch:
    """Scratch directory for unpacked snapshots, removed on exit."""

    def __init__(self, cache=False):
        """cache=True: snapshots are unpacked once into build/snapcache/<name>-<hash of the tarball> and reused by
        later runs (for checks that only READ them); the default is a private copy removed on exit."""
        self.dir = tempfile.mkdtemp(prefix="hwv-snap-", dir=os.environ.get("TMPDIR", "/tmp"))
        self.cache = cache

    def _unpack_cached(self, tarball):
        import hashlib, fcntl
        name = os.path.basename(tarball)[:-8]
        h = hashlib.sha1(open(tarball, "rb").read()).hexdigest()[:12]
        kind = os.path.basename(os.path.dirname(tarball))
        root = os.path.join(C.BUILD, "snapcache")
        os.makedirs(root, exist_ok=True)
        dst = os.path.join(root, "%s-%s-%s" % (kind, name, h))
        if not os.path.exists(os.path.join(dst, ".done")):
            with open(dst + ".lock", "w") as lf:
                fcntl.flock(lf, fcntl.LOCK_EX)
                if not os.path.exists(os.path.join(dst, ".done")):
                    shutil.rmtree(dst, ignore_errors=True)
                    for n in os.listdir(root):      # an older version of the same tarball
                        if re.fullmatch(re.escape("%s-%s-" % (kind, name)) + "[0-9a-f]{12}", n) and n != os.path.basename(dst):
                            shutil.rmtree(os.path.join(root, n), ignore_errors=True)
                    os.makedirs(dst)
                    subprocess.run(["tar", "xjf", tarball, "-C", dst], check=True)
                    open(os.path.join(dst, ".done"), "w").close()
        return dst

    def unpack(self, tarball):
        name = os.path.basename(tarball)[:-8]
        if self.cache:
            dst = self._unpack_cached(tarball)
        else:
            dst = os.path.join(self.dir, name)
            if not os.path.isdir(dst):
                os.makedirs(dst)
                subprocess.run(["tar", "xjf", tarball, "-C", dst], check=True)
        subs = [os.path.join(dst, n) for n in os.listdir(dst)]
        subs = [s for s in subs if os.path.isdir(s)]
        return subs[0] if len(subs) == 1 else dst

    def unpack_all(self, tarballs):
        """Unpack several snapshots concurrently (tar + bzip2 are the slow part of case generation)."""
        import concurrent.futures as cf
        with cf.ThreadPoolExecutor(max_workers=os.cpu_count() or 4) as ex:
            list(ex.map(self.unpack, list(tarballs)))

    def close(self):
        shutil.rmtree(self.dir, ignore_errors=True)

    def __enter__(self):
        return self

    def __exit__(self, *a):
        self.close()
