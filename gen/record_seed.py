#!/usr/bin/env python3
"""usage: gen/record_seed.py <seed name> [note] [check ids...]  : re-runs gen/run_seed.sh and appends the outcome to seeded/<name>/meta.json"""
import json, subprocess, sys, time
n = sys.argv[1]
note = sys.argv[2] if len(sys.argv) > 2 else ""
out = subprocess.run(["/verif/gen/run_seed.sh", n] + sys.argv[3:], capture_output=True, text=True).stdout
lines = [l for l in out.split("\n") if l.startswith(("VIOLATION", "C")) or "HOLDS" in l or "VIOLATED" in l]
nviol = sum(1 for l in lines if l.startswith("VIOLATION"))
nno = sum(1 for l in lines if l.startswith("VIOLATION") and "no-failing-input-found" in l)
verdict = [l for l in lines if "HOLDS" in l or "VIOLATED" in l]
p = "/verif/seeded/%s/meta.json" % n
m = json.load(open(p))
v = m.setdefault("verified_by_me", {})
v.setdefault("checks_run", []).append("%s gen/run_seed.sh %s: %s; %d VIOLATION line(s), %d of them no-failing-input-found%s" % (
    time.strftime("%Y-%m-%d %H:%M"), n, verdict[-1] if verdict else "no verdict", nviol, nno, ("; " + note) if note else ""))
json.dump(m, open(p, "w"), indent=1)
print(v["checks_run"][-1])
