"""C11 generators: case lines for harness/hwv_types.c and ocaml/drv_c11.ml.

Every random choice derives from the rng given by the caller (run.rng).
Boundaries named in the property are enumerated: all 20 types, cache depth
1..5 x cache type, group depths around 0 / 10^k / UINT_MAX, bridge upstream
types, every OS-device word made of known bits, the flag words 0..63, buffer
sizes 0..needed+1 (done by the harness/driver themselves)."""
import struct

T_MACHINE, T_PACKAGE, T_DIE, T_CORE, T_PU = 0, 1, 2, 3, 4
T_L1, T_L5, T_L1I, T_L3I, T_GROUP, T_NUMA, T_MEMCACHE, T_BRIDGE, T_PCI, T_OSDEV, T_MISC = 5, 9, 10, 12, 13, 14, 15, 16, 17, 18, 19
UINT_MAX = 4294967295
KNOWN_OS_MASK = 127
F_OLD_VERBOSE, F_LONG, F_SHORT, F_MORE, F_NOUNITS, F_U1000 = 1, 2, 4, 8, 16, 32

SIMPLE = [0, 1, 2, 3, 4, 14, 15, 17, 19]


def hx(b):
    if isinstance(b, str):
        b = b.encode("latin-1")
    return b.hex() if b else "-"


def tsn(t, cd=0, ct=0, gd=0, bu=0, bd=0, os=0, flags=0):
    return "tsn %d %d %d %d %d %d %d %d" % (t, cd, ct, gd, bu, bd, os, flags)


def cache_type_of(depth, ct):
    """hwloc_cache_type_by_depth_type"""
    if ct == 2:
        return 10 + depth - 1 if 1 <= depth <= 3 else None
    if ct in (0, 1):
        return 5 + depth - 1 if 1 <= depth <= 5 else None
    return None


def tsn_in_domain(f):
    """attribute values a loaded topology may carry (for the round-trip spec)."""
    t, cd, ct, gd, bu, bd, os, flags = f
    if t >= 20:
        return False
    if 5 <= t <= 12:
        return cache_type_of(cd, ct) == t
    if t == T_BRIDGE:
        return bu in (0, 1) and bd == 1
    return True


def tsn_cases(rng, tier):
    out = []
    allflags = list(range(64)) + [64, 2 ** 63 + 2, 2 ** 64 - 1, 2 ** 32 + 4]
    few = list(range(8))
    for t in SIMPLE + [20, 23, UINT_MAX]:
        for fl in (allflags if t < 20 else [0, 2, 4]):
            out.append(tsn(t, flags=fl))
    for depth in range(1, 6):
        for ct in (0, 1, 2):
            t = cache_type_of(depth, ct)
            if t is not None:
                for fl in allflags:
                    out.append(tsn(t, cd=depth, ct=ct, flags=fl))
    for t in range(5, 13):                        # inconsistent depth / type words: correspondence only
        for depth in (0, 1, 3, 5, 6, 10, UINT_MAX):
            for ct in (0, 1, 2, 3, 7):
                for fl in (0, 2, 4):
                    out.append(tsn(t, cd=depth, ct=ct, flags=fl))
    gds = [0, 1, 2, 9, 10, 11, 99, 100, 12345, 2147483647, 2147483648, 4294967294, UINT_MAX]
    gds += [rng.randrange(0, UINT_MAX) for _ in range(30 if tier == "quick" else 300)]
    gds += [10 ** k for k in range(2, 10)] + [10 ** k - 1 for k in range(2, 10)]
    for gd in gds:
        for fl in (few if gd < 100 or gd > 4294967290 else [0, 2]):
            out.append(tsn(T_GROUP, gd=gd, flags=fl))
    for bu in (0, 1, 2, 7, UINT_MAX):
        for fl in few:
            out.append(tsn(T_BRIDGE, bu=bu, bd=1, flags=fl))
    for bd in (0, 2):
        out.append(tsn(T_BRIDGE, bu=1, bd=bd, flags=0))       # assert() in the printer
    for os in range(128):
        for fl in few:
            out.append(tsn(T_OSDEV, os=os, flags=fl))
        out.append(tsn(T_OSDEV, os=os, flags=rng.choice(allflags[8:])))
    for os in (128, 4096, 4112, 2 ** 63, 2 ** 64 - 1, 2 ** 32 + 3):   # unknown bits, SHORT_NAMES: one pass, returns
        for fl in (4, 6):
            out.append(tsn(T_OSDEV, os=os, flags=fl))
    # unknown bits without SHORT_NAMES: `while (ostype)` (150 ms of CPU each while unfixed)
    loops = [(4096, 0), (4112, 2), (2 ** 63, 1), (128, 8), (2 ** 64 - 1, 0)]
    if tier != "quick":
        loops += [(2 ** k, 0) for k in range(7, 64, 5)] + [(2 ** k + 85, 2) for k in range(8, 64, 11)]
    for os, fl in loops:
        out.append(tsn(T_OSDEV, os=os, flags=fl))
    return out


def parse_tsn(line):
    return tuple(int(x) for x in line.split()[1:9])


# ---------------------------------------------------------------------------
def f32(x):
    return struct.unpack("f", struct.pack("f", x))[0]


def asn(t, tot=0, loc=0, cs=0, cl=0, ca=0, bu=0, bd=0, bdom=0, bsec=0, bsub=0, pdom=0, pbus=0, pdev=0, pfunc=0,
        pven=0, pdevid=0, pcls=0, clstxt="", link="0", linktxt="", sep=" ", flags=0, infos=()):
    s = "asn %d %d %d %d %d %d %d %d %d %d %d %d %d %d %d %d %d %d %s %s %s %s %d %d" % (
        t, tot, loc, cs, cl, ca, bu, bd, bdom, bsec, bsub, pdom, pbus, pdev, pfunc, pven, pdevid, pcls,
        hx(clstxt), link, hx(linktxt), hx(sep), flags, len(infos))
    for n, v in infos:
        s += " %s %s" % (hx(n), hx(v))
    return s


SEPS = [" ", ", ", "", ",", "\t", " | ", "=" * 26, "#" * 70, "x" * 140]
MEMS = [0, 1, 511, 512, 1023, 1024, 1536, 10 * 2 ** 20 - 1, 10 * 2 ** 20, 9999999, 10000000, 10 * 2 ** 30 - 1, 10 * 2 ** 30,
        10 ** 10 - 1, 10 ** 10, 10 * 2 ** 40 - 1, 10 * 2 ** 40, 10 ** 13 - 1, 10 ** 13, 2 ** 63, 2 ** 64 - 1, 32768, 262144, 16 * 2 ** 30]
LINKS = ["0", "0.25", "0.5", "1", "3.9384765625", "7.876953125", "15.75", "31.5078125", "63.015625", "0.001953125",
         "1e-20", "123456.7890625", "1e30", "0.125", "0.375", "2.5", "0.005"]
INFO_POOL = [("Backend", "Linux"), ("PCIVendor", "Intel Corporation"), ("Name", ""), ("", ""), ("A", "b c"), ("x", " "),
             ("LinuxDeviceID", "253:0"), ("PCIDevice", "82801IR/IO/IH (ICH9R/DO/DH) 6 port SATA Controller [AHCI mode]"),
             ("k", "v" * 90), ("quote", "say \"hi\""), ("eq", "a=b"), ("utf", "caf\xe9 \xe0")]


def rand_infos(rng, maxn=4):
    return [rng.choice(INFO_POOL) for _ in range(rng.randrange(0, maxn + 1))]


def asn_latent(line):
    """Bridge / PCI device with total_memory != 0 in verbose mode: the printer stores the
    type-specific piece at (string, size) after the cursor moved.  No loaded topology has
    such an object (I/O objects have total_memory 0): correspondence only."""
    f = line.split()
    t, tot, flags = int(f[1]), int(f[2]), int(f[23])
    return t in (T_BRIDGE, T_PCI) and tot != 0 and (flags & (F_OLD_VERBOSE | F_MORE)) != 0


def asn_cases(rng, tier, cls_text, lnk_text):
    """cls_text(id) / lnk_text(str) give the opaque pieces (asked from the C side)."""
    out = []
    n = 1 if tier == "quick" else 6
    allflags = list(range(64))

    def fl_some(k):
        return [0, 1, 8, 9, 16, 24, 32, 40, 63] + [rng.choice(allflags) for _ in range(k)]

    # memory pieces: every unit boundary, every flag word that changes the unit
    for m in MEMS:
        for fl in (0, 1, 8, 16, 17, 24, 32, 33, 40, 48, 56, 63):
            out.append(asn(T_NUMA, tot=m, loc=m, flags=fl, sep=rng.choice(SEPS[:4])))
    for _ in range(40 * n):
        loc = rng.choice(MEMS + [rng.randrange(0, 2 ** 64), rng.randrange(0, 2 ** 34)])
        tot = rng.choice([loc, 0, rng.randrange(0, 2 ** 45)])
        out.append(asn(T_NUMA, tot=tot, loc=loc, flags=rng.choice(allflags), sep=rng.choice(SEPS), infos=rand_infos(rng)))
    simple_a = [t for t in SIMPLE if t != T_PCI]      # PCI devices need the class-string piece: built below
    for t in simple_a + [T_GROUP, T_OSDEV, 20]:
        for fl in fl_some(2):
            out.append(asn(t, tot=rng.choice(MEMS), flags=fl, sep=rng.choice(SEPS), infos=rand_infos(rng)))
    # caches
    for t in list(range(5, 13)) + [T_MEMCACHE]:
        for ca in (-1, 0, 1, 8, 16, -2, 2147483647, -2147483648):
            for fl in fl_some(1):
                out.append(asn(t, tot=rng.choice([0, 0, 2 ** 30]), cs=rng.choice(MEMS), cl=rng.choice([0, 64, 128, UINT_MAX]), ca=ca,
                               flags=fl, sep=rng.choice(SEPS), infos=rand_infos(rng, 2)))
    # long separators against the fixed-size local buffers assoc[32], up[128], down[64], linkspeed[64]
    for sep in SEPS[6:] + ["s" * k for k in (13, 14, 15, 24, 25, 26, 30, 31, 32, 33, 56, 57, 58, 59, 63, 64)]:
        out.append(asn(T_L1, cs=32768, cl=64, ca=-1, flags=8, sep=sep))
        out.append(asn(T_L1, cs=32768, cl=64, ca=12, flags=8, sep=sep))
        c = 0x0604
        out.append(asn(T_BRIDGE, bu=1, bd=1, bdom=0, bsec=1, bsub=2, pdom=0, pbus=0, pdev=1, pfunc=0, pven=0x8086, pdevid=0x7075,
                       pcls=c, clstxt=cls_text(c), link="7.876953125", linktxt=lnk_text("7.876953125"), flags=8, sep=sep))
        out.append(asn(T_PCI, pdom=0x10000, pbus=255, pdev=31, pfunc=7, pven=0xffff, pdevid=0xffff,
                       pcls=0x0300, clstxt=cls_text(0x0300), link="15.75", linktxt=lnk_text("15.75"), flags=9, sep=sep))
    # bridges and PCI devices
    classes = [0x0000, 0x0100, 0x0106, 0x0200, 0x0207, 0x0300, 0x0302, 0x0400, 0x0502, 0x0600, 0x0604, 0x0c03, 0x0d00, 0x1200, 0x1300, 0xff00, 0xffff]
    for _ in range(60 * n):
        c = rng.choice(classes + [rng.randrange(0, 65536)])
        lk = rng.choice(LINKS)
        t = rng.choice([T_BRIDGE, T_PCI])
        out.append(asn(t, bu=rng.choice([0, 1, 1, 1, 2]), bd=1, bdom=rng.choice([0, 1, 0xffff, 0x10000, UINT_MAX]),
                       bsec=rng.randrange(256), bsub=rng.randrange(256),
                       pdom=rng.choice([0, 1, 0xffff, 0x12345, UINT_MAX]), pbus=rng.randrange(256), pdev=rng.randrange(256), pfunc=rng.randrange(256),
                       pven=rng.randrange(65536), pdevid=rng.randrange(65536), pcls=c, clstxt=cls_text(c), link=lk, linktxt=lnk_text(lk),
                       flags=rng.choice([0, 1, 8, 9, 10, 24, 63, rng.choice(allflags)]), sep=rng.choice(SEPS), infos=rand_infos(rng, 3)))
    out.append(asn(T_BRIDGE, bu=1, bd=0, flags=8, pcls=0x604, clstxt=cls_text(0x604)))       # assert(0) in verbose mode
    out.append(asn(T_BRIDGE, bu=0, bd=0, flags=0))                                        # not verbose: returns
    # outside the domain (latent): I/O object with total_memory != 0, verbose
    for t in (T_BRIDGE, T_PCI):
        for sep in (" ", ""):
            out.append(asn(t, tot=2 ** 20, bu=1, bd=1, pcls=0x0200, clstxt=cls_text(0x0200), link="0.25", linktxt=lnk_text("0.25"),
                           flags=8, sep=sep, infos=[("a", "b")]))
    # infos
    for _ in range(30 * n):
        out.append(asn(rng.choice(simple_a), tot=rng.choice([0, 2 ** 30]), flags=rng.choice([8, 1, 9, 0, 63]), sep=rng.choice(SEPS),
                       infos=[rng.choice(INFO_POOL) for _ in range(rng.randrange(0, 9))]))
    return out


# ---------------------------------------------------------------------------
KEYWORDS = ["osdev[", "os[", "osdev", "storage", "block", "memory", "network", "ofed", "openfabrics", "dma", "gpu", "coproc",
            "co-processor", "machine", "numanode", "node", "memcache", "memory-side cache", "package", "socket", "die", "core",
            "pu", "misc", "bridge", "hostbridge", "pcibridge", "pcidev", "group", "cache", "l", "L1", "l2i", "L3d", "L4u", "L5"]
OSWORDS = ["Mem", "Storage", "OFED", "Net", "CoProc", "GPU", "DMA", "Memory", "OpenFabrics", "Network", "Co-Processor",
           "block", "ofed", "foo", "", "co-proc", "dm", "gp", "netw", "me"]
ATTRSIZES = [-1, 0, 7, 8, 15, 16, 23, 24, 43, 44, 47, 48, 48, 48, 48, 64]
HOSTILE = bytes([1, 9, 10, 13, 32, 43, 44, 45, 48, 49, 57, 58, 64, 65, 73, 76, 90, 91, 93, 96, 97, 105, 108, 122, 123, 127, 128, 192, 223, 225, 255])


def randcase(rng, s):
    return "".join(c.upper() if rng.random() < 0.3 else c for c in s)


def ssc_line(b, asz):
    return "ssc %s %d" % (hx(bytes(b)), asz)


def ssc_cases(rng, tier):
    """(mostly accepted, structured) + (malformed) strings without byte 0xE0"""
    out = []
    n = 1 if tier == "quick" else 10
    for k in KEYWORDS:
        for j in range(0, len(k) + 1):
            out.append(ssc_line(k[:j].encode(), 48))
        out.append(ssc_line(k.upper().encode(), rng.choice(ATTRSIZES)))
    for _ in range(1500 * n):
        r = rng.random()
        if r < 0.25:
            k = rng.choice(KEYWORDS)
            s = randcase(rng, k[:rng.randrange(1, len(k) + 1)]) + rng.choice(["", "", ":1", "3", "x", "-", " ", "cache", "12", "[", "]", ","])
        elif r < 0.5:
            pre = rng.choice(["OS[", "OSDev[", "os[", "osdev[", "oS[", "OSDEV[", "os", "osdev", "OSd["])
            s = pre + ",".join(randcase(rng, rng.choice(OSWORDS)) for _ in range(rng.randrange(0, 6))) + rng.choice(["]", "]", "", "]x", ",", "]]"])
        elif r < 0.7:
            s = rng.choice("lL") + rng.choice(["", "0", "1", "2", "3", "4", "5", "6", "9", "10", "01", "4294967297", "18446744073709551617", "99999999999999999999", "+1", "-1", " 1"]) \
                + rng.choice(["", "i", "d", "u", "I", "D", "U", "x", "-"]) + randcase(rng, rng.choice(["", "cache", "cach", "c", "cachex", "cache:0", "ca-che"]))
        elif r < 0.85:
            s = randcase(rng, rng.choice(["group", "gr", "grou", "g", "groupx"])) + rng.choice(["", "0", "7", "12", "4294967295", "4294967296", "9223372036854775807",
                                                                                               "9223372036854775808", "18446744073709551616", "00012", "-3", "+3", " 3", "3x", "0x10"])
        else:
            s = rng.choice(["Machine", "Package", "Die", "Core", "PU", "NUMANode", "MemCache", "PCI", "PCIDev", "HostBridge", "PCIBridge", "Bridge", "Misc",
                            "Socket", "Node", "Memory-Side Cache", "co\rprocessor", "memory-side\0cache"]) + rng.choice(["", ":0", "=", ".", "2"])
        out.append(ssc_line(s.encode("latin-1").split(b"\0")[0], rng.choice(ATTRSIZES)))
    for _ in range(1500 * n):
        L = rng.choice([0, 1, 1, 2, 2, 3, 4, 5, 6, 7, 8, 12, 20, 40])
        b = bytes(rng.choice(HOSTILE) for _ in range(L))
        if rng.random() < 0.5:
            k = rng.choice(KEYWORDS).encode()
            b = k[:rng.randrange(0, len(k) + 1)] + b
        out.append(ssc_line(b, rng.choice(ATTRSIZES)))
    return out


def ssc_e0_cases(rng, tier):
    """strings with the byte 0xE0 = (char)('\\0' + 'A' - 'a'): keyword ++ E0 ++ more"""
    out = []
    for k in ["pu", "osdev", "die", "core", "misc", "group", "gpu", "dma", "machine", "pcidev", "L2cache", "OS[net", "os[dma\xe0\xe0]", "co-processor", "memory-side cache"]:
        for tail in (b"\xe0", b"\xe0\xe0", b"\xe0x", b"\xe0\xe0\xe0\xe0"):
            out.append(ssc_line(k.encode("latin-1") + tail, 48))
    for _ in range(20 if tier == "quick" else 300):
        k = rng.choice(KEYWORDS).encode()
        b = k[:rng.randrange(0, len(k) + 1)] + bytes(rng.choice(b"\xe0\xe0\xe0a-0\xc0") for _ in range(rng.randrange(1, 5)))
        out.append(ssc_line(b, rng.choice(ATTRSIZES)))
    return out


# ---------------------------------------------------------------------------
def shrink_ssc(hexs, still_fails):
    """delta-debugging over the bytes of a failing hwloc_type_sscanf input"""
    b = bytes.fromhex(hexs) if hexs != "-" else b""
    changed = True
    while changed and len(b) > 1:
        changed = False
        for i in range(len(b)):
            c = b[:i] + b[i + 1:]
            if still_fails(c):
                b, changed = c, True
                break
    return b


def untyped_synthetic():
    """bare-number descriptions of every length 1..12 (the backend invents the level types, caches included),
    arity 1 except one level of arity 2, with and without an attached NUMA level"""
    out = []
    for n in range(1, 13):
        ar = ["1"] * n
        ar[n // 2] = "2"
        out.append(" ".join(ar))
        if n >= 2:
            out.append(" ".join(ar[:n // 2] + ["[numa]"] + ar[n // 2:]))
            out.append(" ".join(["2"] + ["1"] * (n - 2) + ["[numa]", "2"]))
    return out


SYNTHETIC = untyped_synthetic() + ["pack:2 l3:1 l2:2 l1d:1 l1i:1 core:1 pu:2", "group:2 group:2 pack:1 core:2 pu:1", "node:2 pack:1 l2:2 pu:2",
             "pack:1 die:2 l5:1 l4:1 l3:1 l3i:1 l2:1 l2i:1 l1:1 l1i:1 core:1 pu:1", "pu:3", "machine:1 group:3 numa:2 core:2 pu:2"]


# ---------------------------------------------------------------------------
# tables the C11 theorems rest on (for the "which entry changed" message only; never an oracle)
GOLDEN_TABLES = ["obj_type_order", "obj_order_type", "type_is_normal_tbl", "type_is_memory_tbl", "type_is_io_tbl",
                 "type_is_special_tbl", "type_is_cache_tbl", "type_is_dcache_tbl", "type_is_icache_tbl", "HWLOC_TYPE_UNORDERED",
                 "compare_types_tbl", "cache_type_by_depth_type_tbl", "obj_type_string_tbl", "osdev_names_tbl", "cache_letter_tbl",
                 "SIZEOF_ATTR_CACHE", "SIZEOF_ATTR_GROUP", "SIZEOF_ATTR_BRIDGE", "SIZEOF_ATTR_OSDEV", "SIZEOF_ATTR_UNION",
                 "type_sscanf_dict_tbl", "HWLOC_OBJ_TYPE_MAX"]


def read_tables(path):
    """name -> list of entries (top-level elements of the list literal, or the scalar)"""
    import re
    txt = open(path).read()
    res = {}
    for name in GOLDEN_TABLES:
        m = re.search(r"Definition %s\b[^:]*:[^=]*:=(.*?)\.\n" % re.escape(name), txt, re.S)
        if not m:
            continue
        body = " ".join(m.group(1).split())
        if body.startswith("["):
            items, depth, cur, instr = [], 0, "", False
            for ch in body[1:-1]:
                if ch == '"':
                    instr = not instr
                if not instr and ch in "[(":
                    depth += 1
                if not instr and ch in "])":
                    depth -= 1
                if ch == ";" and depth == 0 and not instr:
                    items.append(cur.strip()); cur = ""
                else:
                    cur += ch
            if cur.strip():
                items.append(cur.strip())
            res[name] = items
        else:
            res[name] = [body]
    return res


def tables_diff(golden_path, current_path, limit=12):
    """human-readable list of the table entries that differ from the golden copy"""
    g, c = read_tables(golden_path), read_tables(current_path)
    out = []
    for name in GOLDEN_TABLES:
        a, b = g.get(name), c.get(name)
        if a == b:
            continue
        if a is None or b is None:
            out.append("%s: %s" % (name, "missing in the current tables" if b is None else "not in the golden copy"))
            continue
        if len(a) != len(b):
            out.append("%s: %d entries, golden copy has %d" % (name, len(b), len(a)))
        for i, (x, y) in enumerate(zip(a, b)):
            if x != y:
                if name == "compare_types_tbl":
                    xs, ys = x.strip("[]").split(";"), y.strip("[]").split(";")
                    for j, (u, v) in enumerate(zip(xs, ys)):
                        if u.strip() != v.strip():
                            out.append("compare_types_tbl[%d][%d] (hwloc_compare_types(%d,%d)): now %s, golden %s" % (i, j, i, j, v.strip(), u.strip()))
                else:
                    out.append("%s[%d]: now %s, golden %s" % (name, i, y[:80], x[:80]))
            if len(out) >= limit:
                out.append("...")
                return out
    return out


# ---------------------------------------------------------------------------
# coverage extensions: class strings, memory tier names, type_sscanf_as_depth
def clsweep_cases():
    """all 65536 PCI class ids through hwloc_obj_attr_snprintf (256 ids per line)"""
    return ["clsweep %d %d" % (k * 256, k * 256 + 256) for k in range(256)]


TIER_WORDS = ["DRAM", "HBM", "GPUMemory", "SPM", "NVM", "CXL-DRAM", "CXL-HBM", "CXL-GPUMemory", "CXL-SPM", "CXL-NVM",
              "CXL", "CXL-", "GPU", "Memory", "none", "NVDIMM", "DRAM ", " DRAM", "CXL_DRAM", "CXL-DRAM-HBM", "HBM=DRAM", "=HBM", "0x2=HBM"]


def tier_cases(rng, tier):
    out = []
    for w in TIER_WORDS:
        out += [w, w.lower(), w.upper(), randcase(rng, w), w + "x", w[:-1], w + "\xe0", w + " "]
    for _ in range(60 if tier == "quick" else 1500):
        w = rng.choice(TIER_WORDS[:10])
        r = rng.random()
        if r < 0.4:
            w = randcase(rng, w)
        elif r < 0.6:
            w = w[:rng.randrange(0, len(w) + 1)] + rng.choice(["", "-", "x", "\xff", "\x01"])
        elif r < 0.8:
            i = rng.randrange(0, len(w)); w = w[:i] + rng.choice("xX-_ \x80\xdf") + w[i + 1:]
        else:
            w = "".join(chr(rng.choice(HOSTILE)) for _ in range(rng.randrange(0, 8)))
        out.append(w)
    res, seen = [], set()
    for w in out:
        b = w.encode("latin-1").split(b"\0")[0].split(b";")[0]      # ';' separates forced tiers in the variable
        if b not in seen:
            seen.add(b); res.append("tier %s" % hx(b))
    return res


LV_SYNTHETIC = ["pack:2 l3:1 l2:2 l1d:1 l1i:1 core:1 pu:2", "group:2 group:2 pack:1 core:2 pu:1", "group:2 node:2 group:2 group:3 pu:2",
                "pu:3", "pack:1 die:2 l5:1 l4:1 l3:1 l3i:1 l2:1 l2i:1 l1:1 l1i:1 core:1 pu:1", "group:2 pack:2 group:2 l2:1 group:2 core:2 pu:1"]


def lv_sources(repo, corpus):
    import glob, os
    xs = sorted(glob.glob(os.path.join(repo, "tests/hwloc/xml/*.xml"))) + sorted(glob.glob(os.path.join(corpus, "*.xml")))
    return ["synthetic_" + d.replace(" ", "_") for d in LV_SYNTHETIC + [u for u in untyped_synthetic() if "[" not in u and len(u.split()) in (7, 8, 12)]] + ["xml_" + x for x in xs if " " not in x]


def depth_cases(rng, tier, lvline):
    """from one `lv` answer: (sad/gtd case lines, expectations {case: (type, depth)} for the level texts)"""
    f = lvline.split()
    src = f[1]
    kv = dict(x.split("=", 1) for x in f[2:])
    levels, tdepths, texts = kv["levels"], kv["tdepths"], kv["texts"].split(",")
    lv = [tuple(int(y) for y in x.split(":")) for x in levels.split(",")]
    cases, expect = [], {}
    for l, pair in enumerate(texts):
        for h in pair.split("/"):
            c = "sad %s %s %s %s" % (src, levels, tdepths, h)
            td = [int(x) for x in tdepths.split(",")]
            # a non-Group type present at several depths (asymmetric topology) has no text per level: MULTIPLE
            cases.append(c); expect[c] = (lv[l][0], -2 if (lv[l][0] != T_GROUP and td[lv[l][0]] == -2) else l)
    gds = sorted(set(g for t, g in lv if t == T_GROUP)) + [0, 1, 7, UINT_MAX - 1, UINT_MAX]
    words = ["Group", "group", "Group%d" % UINT_MAX, "Group4294967296", "Machine", "PU", "Core", "L2", "L2Cache", "L1i", "L9", "NUMANode", "PCI", "OS[Net]", "OSDev",
             "Bridge", "HostBridge", "Misc", "MemCache", "Package", "Die", "nothing", "", "L", "gr", "pu:3"]
    words += ["Group%d" % g for g in gds] + ["group%d" % rng.randrange(0, 50) for _ in range(4)]
    for w in words:
        cases.append("sad %s %s %s %s" % (src, levels, tdepths, hx(w)))
    types = list(range(20)) + [20, 77, UINT_MAX]
    for t in types:
        cases.append("gtd %s %s %s %d - 48" % (src, levels, tdepths, t))
    for g in gds:
        for asz in (0, 16, 47, 48, 64):
            cases.append("gtd %s %s %s %d %d %d" % (src, levels, tdepths, T_GROUP, g, asz))
        cases.append("gtd %s %s %s %d %d 48" % (src, levels, tdepths, rng.choice([0, 3, 5, 14, 16]), g))
    return cases, expect


# ---------------------------------------------------------------------------
# topologies with a post-load modification history (Groups inserted into existing Group levels, restrict,
# distance grouping): "<source> | op | op ..."
def history_cases(rng, tier):
    """ops on synthetic topologies of N cores; a laminar family of core ranges inserted in random orders, so that
    later Groups land in already existing Group levels at non-first positions"""
    out = ["synthetic pack:2 core:8 pu:1 | g 3 0 3 | g 3 0 1 | g 3 8 11 | g 3 8 9",       # two Group levels, the last Group joins the 2nd one
           # re-insertion of a Group with the cpuset of an existing Group of each Group level, dont_merge=1: replaces its contents
           "synthetic pack:2 core:8 pu:1 | g 3 0 3 | g 3 0 1 | g 3 8 11 | g 3 8 9 | g 3 8 9 1 | g 3 0 3 1",
           "synthetic pack:1 core:16 pu:2 | g 3 0 7 | g 3 0 3 | g 3 0 1 | g 3 4 7 | g 3 6 7 | g 3 6 7 1 | g 3 4 7 1 | g 3 0 1 0 0 | g 3 0 7 1"]
    n = 14 if tier == "quick" else 150
    for k in range(n):
        if k % 3 == 0:
            base, ncore, sizes = "pack:2 core:8 pu:1", 16, [2, 4]
        elif k % 3 == 1:
            base, ncore, sizes = "pack:1 core:16 pu:2", 16, [2, 4, 8]
        else:
            base, ncore, sizes = "group:2 pack:2 core:4 pu:1", 16, [2]
        fam = [(a, a + sz - 1) for sz in sizes for a in range(0, ncore, sz)]
        sub = rng.sample(fam, rng.randrange(3, min(len(fam), 9) + 1))
        ops = ["g 3 %d %d%s" % (a, b, " 1" if rng.random() < 0.15 else "") for a, b in sub]
        # same cpuset again (every Group level gets its turn over the runs): merged, or replacing the existing Group
        for a, b in rng.sample(sub, rng.randrange(1, min(3, len(sub)) + 1)):
            ops.append("g 3 %d %d %s" % (a, b, rng.choice(["1", "1", "1", "0", "1 0", "0 0", "1 1"])))
        r = rng.random()
        if r < 0.25:
            mask = 0
            for c in rng.sample(range(ncore), rng.randrange(ncore // 2, ncore)):
                mask |= (3 << (2 * c)) if "pu:2" in base else (1 << c)
            ops.insert(rng.randrange(1, len(ops) + 1), "r 0x%x %d" % (mask, rng.choice([0, 0, 1])))
        elif r < 0.5:
            ops.insert(rng.randrange(0, len(ops) + 1), "dg 3 %d" % rng.choice([2, 4]))
        out.append("synthetic %s | %s" % (base, " | ".join(ops)))
    return out


# ---------------------------------------------------------------------------
# XML-sourced cache objects: every cache type string x cache_type value (0, 1, 2, missing) x depth (matching or not).
# The incoherent documents must be rejected at load; whatever loads goes through the per-object clauses.
CACHE_TYPE_STRINGS = [("L1Cache", 1), ("L2Cache", 2), ("L3Cache", 3), ("L4Cache", 4), ("L5Cache", 5), ("L1iCache", 1), ("L2iCache", 2), ("L3iCache", 3)]

XML_CACHE_DOC = """<?xml version="1.0" encoding="UTF-8"?>
<!DOCTYPE topology SYSTEM "hwloc2.dtd">
<topology version="3.0">
  <object type="Machine" os_index="0" cpuset="0x00000003" complete_cpuset="0x00000003" allowed_cpuset="0x00000003" nodeset="0x00000001" complete_nodeset="0x00000001" allowed_nodeset="0x00000001" gp_index="1" id="obj1">
    <object type="NUMANode" os_index="0" cpuset="0x00000003" complete_cpuset="0x00000003" nodeset="0x00000001" complete_nodeset="0x00000001" gp_index="2" id="obj2" local_memory="1048576"/>
    <object type="%s" cpuset="0x00000001" complete_cpuset="0x00000001" nodeset="0x00000001" complete_nodeset="0x00000001" gp_index="3" id="obj3" cache_size="32768" depth="%d" cache_linesize="64" cache_associativity="8"%s>
      <object type="PU" os_index="0" cpuset="0x00000001" complete_cpuset="0x00000001" nodeset="0x00000001" complete_nodeset="0x00000001" gp_index="4" id="obj4"/>
    </object>
    <object type="%s" cpuset="0x00000002" complete_cpuset="0x00000002" nodeset="0x00000001" complete_nodeset="0x00000001" gp_index="5" id="obj5" cache_size="32768" depth="%d" cache_linesize="64" cache_associativity="8"%s>
      <object type="PU" os_index="1" cpuset="0x00000002" complete_cpuset="0x00000002" nodeset="0x00000001" complete_nodeset="0x00000001" gp_index="6" id="obj6"/>
    </object>
  </object>
</topology>
"""


def xml_cache_docs(outdir):
    """writes the documents (deterministic names) and returns their paths.  First cache object: the combination under
    test; second one: the coherent object of the same type string (so a level can hold both)."""
    import os
    os.makedirs(outdir, exist_ok=True)
    paths = []
    for ts, d in CACHE_TYPE_STRINGS:
        good_ct = 2 if "i" in ts else 0
        for ct in (0, 1, 2, None):
            for depth in (d, d + 1, 0):
                attr = "" if ct is None else ' cache_type="%d"' % ct
                p = os.path.join(outdir, "cache-%s-ct%s-d%d.xml" % (ts, "none" if ct is None else ct, depth))
                txt = XML_CACHE_DOC % (ts, depth, attr, ts, d, ' cache_type="%d"' % good_ct)
                if not os.path.exists(p) or open(p).read() != txt:
                    open(p, "w").write(txt)
                paths.append(p)
    return paths
