"""Case generators for C12 (dup) and C19 (shmem): a case is a list of script
lines for harness/hwv_dup.c / hwv_shmem.c:
    config lines + 'load' are added by the check; here: pre-ops, 'dup', history.
Every choice derives from the rng passed in."""

TPU, TCORE, TPACK, TNUMA, TGROUP = 1004, 1003, 1001, 1014, 1013

# synthetic templates with distances/memattrs/cpukinds-friendly shapes
SYN = [
    "pu:4",
    "pu:8",
    "core:4 pu:2",
    "pack:2 [numa(memory=1024)] core:2 pu:2",
    "pack:2 [numa(memory=1048576)] [numa(memory=2048)] l2:2 core:1 pu:2",
    "numa:2 pack:1 core:2 pu:2",
    "numa:4 core:2 pu:1",
    "group:2 pack:2 [numa] l3:1 l2:2 l1:1 core:1 pu:2",
    "pack:3 [numa] die:2 core:2 pu:1",
    "pack:1 core:1 pu:1",
    "pack:2 [numa] core:3 pu:2(indexes=3,1,5,0,2,4,9,7,11,6,8,10)",
    "group:2 group:2 pu:2",
    "pack:2 [numa] group:2 group:2 pu:2",
]

NAMES = ["alpha", "beta", "x", "CPUModel", "a%25b"]


def rnd_name(rng):
    return rng.choice(NAMES) + str(rng.randint(0, 3))


def gen_op(rng, misc_ok=True, heavy=True):
    """One modifying operation (object-relative, valid on most topologies)."""
    r = rng.random()
    if r < 0.12:
        return "robj %d %d %d" % (rng.choice([TPACK, TCORE, TPU, 1, 2]), rng.randint(0, 2), rng.choice([0, 0, 1, 2]))
    if r < 0.20:
        return "robj %d %d %d" % (TNUMA, rng.randint(0, 1), rng.choice([8, 8 | 16, 8 | 1]))
    if r < 0.28 and misc_ok:
        return "misc %d %d %s" % (rng.choice([0, 1, TPU, TCORE]), rng.randint(0, 2), rnd_name(rng))
    if r < 0.36:
        return "gobj %d %d %d" % (rng.choice([TPU, TCORE]), 0, rng.randint(1, 2))
    if r < 0.48:
        return "distadd %d %d %d %d %d" % (rng.choice([TPU, TNUMA, TCORE, TPACK, 1, 2, 3]), rng.choice([2, 2, 3, 4, 8]), rng.choice([5, 6, 9, 10]),
                                           rng.choice([0, 0, 0, 1, 3]), rng.randint(0, 50))
    if r < 0.50:
        # heterogeneous matrix: PU and NUMA members (identified by os_index in homogeneous matrices) mixed with others
        pool = [(TPU, 4), (TNUMA, 2), (TCORE, 3), (TPACK, 2), (0, 1), (TPU, 4), (TNUMA, 2)]
        members = []
        for _ in range(rng.randint(2, 6)):
            d, m = rng.choice(pool)
            members.append("%d:%d" % (d, rng.randrange(m)))
        return "disthet %s %d %d" % (",".join(members), rng.choice([5, 6, 9, 10]), rng.randint(0, 50))
    if r < 0.52:
        return "distrm"
    if r < 0.60:
        return "mreg %s %d" % (rnd_name(rng), rng.choice([1, 2, 5, 6]))
    if r < 0.68:
        return "mset %d %d - %d" % (rng.choice([8, 8, 9, 0, 1]), rng.randint(0, 2), rng.randint(1, 1000))
    if r < 0.72:
        return "mseti %d %d %d %d %d" % (rng.choice([2, 5, 8, 9, 10]), rng.randint(0, 2), rng.choice([TPU, TCORE, TPACK, TPACK, 1, 2, 3]), rng.randint(0, 3), rng.randint(1, 1000))
    if r < 0.76:
        return "mseto %d %d %d %d %d" % (rng.choice([2, 5, 8, 9, 10]), rng.randint(0, 2), rng.choice([TPU, TCORE, TPACK, 0]), rng.randint(0, 2), rng.randint(1, 1000))
    if r < 0.84:
        return "kobj %d %d %d %s %s" % (rng.choice([TPU, TCORE, TPACK]), rng.randint(0, 3), rng.choice([-1, 0, 1, 5]), rnd_name(rng), rnd_name(rng))
    if r < 0.90:
        return "info %d %d %s %s" % (rng.choice([0, 1, TPU, TNUMA]), rng.randint(0, 2), rnd_name(rng), rnd_name(rng))
    if r < 0.94:
        return "tinfo %s %s" % (rnd_name(rng), rnd_name(rng))
    if r < 0.945:
        # disallowed PUs / NUMA nodes (effective on topologies loaded with INCLUDE_DISALLOWED, EINVAL otherwise)
        return rng.choice(["allowobj %d %d %d" % (TPU, rng.randint(0, 1), rng.randint(1, 5)), "allownode %d %d" % (0, rng.randint(0, 1)), "allownode 1 1", "allow 1", "obs"])
    if r < 0.955:
        return "refresh"
    if r < 0.985:
        # emptied-but-allocated arrays and their re-filling
        return rng.choice(["subtype %d %d %s" % (rng.choice([0, TPU, TNUMA]), rng.randint(0, 2), rng.choice(["-", "st1", "a%25b"])), "infoclr %d %d" % (rng.choice([0, 1, TPU, TNUMA]), rng.randint(0, 2)), "tinfoclr", "kinfoclr %d" % rng.randint(0, 1),
                           "kinfo %d %s %s" % (rng.randint(0, 1), rnd_name(rng), rnd_name(rng)), "udclr %d %d" % (rng.choice([0, TPU, TNUMA]), rng.randint(0, 3))])
    return "ud %d %d" % (rng.choice([0, TPU, TNUMA]), rng.randint(0, 3))


def gen_history(rng, misc_ok=True, npre=None, nmut=None):
    """pre-ops, dup, post-dup history on either copy, destroys in a random order.
    hwloc_cpukinds_register after a restrict that removed a kind is avoided: that is C15's known
    finding stale-slot-after-restrict (use-after-free without any dup involved)."""
    lines = []
    st = {"A": [False, False], "B": [False, False]}      # [has kinds, restricted since]

    def guard(op, whos):
        for w in whos:
            if op.startswith("kobj") and st[w][1]:
                return "info 0 0 %s %s" % (rnd_name(rng), rnd_name(rng))
        for w in whos:
            if op.startswith("kobj"):
                st[w][0] = True
            if op.startswith("robj") and st[w][0]:
                st[w][1] = True
        return op

    npre = rng.randint(0, 5) if npre is None else npre
    for _ in range(npre):
        lines.append("pre " + guard(gen_op(rng, misc_ok), "AB"))
    if rng.random() < 0.3:
        lines.append("pre " + rng.choice(["tud", "cb", "ud 0 0", "obs", "refresh"]))
    lines.append("dup")
    nmut = rng.randint(1, 6) if nmut is None else nmut
    for _ in range(nmut):
        if rng.random() < 0.12:
            lines.append("both " + guard(gen_op(rng, misc_ok), "AB"))
        else:
            w = rng.choice("AB")
            lines.append("mut %s %s" % (w, guard(gen_op(rng, misc_ok), w)))
    first = rng.choice("AB")
    lines += ["destroy " + first, "destroy " + ("B" if first == "A" else "A")]
    return lines


# ---- twin histories: the SAME post-dup history on the original and on the copy, compared step by step.
# Only operations that create no object (object creation legitimately diverges through next_gp_index).
TWIN_DIST_TYPES = [TPU, TCORE, TNUMA, TPACK]


def gen_twin_history(rng):
    """pre-dup history that leaves gaps in the ids of the distances matrices (a non-latest matrix removed by
    handle / by depth, dropped by a restrict, or an add handle consumed without commit), dup, then identical
    by-handle histories on both."""
    lines = []
    seeds = rng.sample(range(1, 60), 6)
    names = []
    nadd = rng.randint(1, 3)
    if rng.random() < 0.3:     # groups created by distances before the dup: the subkind counter is > 0
        lines.append("pre distadd %d %d 6 1 %d" % (rng.choice([TPU, TCORE]), rng.choice([4, 8]), rng.randint(91, 99)))
    for k in range(nadd):
        ty = rng.choice(TWIN_DIST_TYPES)
        lines.append("pre distadd %d %d %d 0 %d" % (ty, rng.choice([2, 2, 3, 4]), rng.choice([5, 6, 9, 10]), seeds[k]))
        names.append(("hwv%d" % seeds[k], ty))
        if rng.random() < 0.3:
            lines.append("pre distfail")
    # create the gap
    for _ in range(rng.randint(0, 2)):
        r = rng.random()
        if r < 0.35 and len(names) > 1:
            nm, _ty = names.pop(rng.randrange(len(names) - 1))      # not the latest
            lines.append("pre disthandle %s 3" % nm)
        elif r < 0.55 and names:
            _nm, ty = names[0]
            lines.append("pre distrmdepth %d" % ty)
            names = [x for x in names if x[1] != ty]
        elif r < 0.8:
            lines.append("pre robj %d %d %d" % (rng.choice([TPU, TCORE, TPACK]), 0, 0))   # may leave <2 objects of a matrix
            lines.append("pre refresh")
        else:
            lines.append("pre distfail")
    if rng.random() < 0.3:
        lines.append("pre " + rng.choice(["info 0 0 a b", "tinfo c d", "mreg foo 1", "kobj %d 0 1 k v" % TPU]))
    lines.append("dup")
    live = [n for n, _ in names]
    for _ in range(rng.randint(2, 6)):
        r = rng.random()
        if r < 0.4:
            s = seeds[3 + rng.randrange(3)] + 100 * rng.randint(0, 2)
            lines.append("both distadd %d %d %d 0 %d" % (rng.choice(TWIN_DIST_TYPES), rng.choice([2, 2, 3, 4]), rng.choice([5, 6, 9, 10]), s))
            live.append("hwv%d" % s)
        elif r < 0.85 and live:
            lines.append("both disthandle %s %d" % (rng.choice(live), rng.choice([0, 0, 1, 3])))
        elif r < 0.92:
            lines.append("both " + rng.choice(["info 0 0 e f", "tinfo g h", "mset 8 0 - 5", "refresh", "distfail"]))
        else:
            lines.append("both distrmdepth %d" % rng.choice(TWIN_DIST_TYPES))
    if rng.random() < 0.3:     # object-creating steps, compared without gp_index
        for _ in range(rng.randint(1, 2)):
            lines.append("both " + rng.choice(["distadd %d %d 6 1 %d" % (rng.choice([TPU, TCORE, TGROUP]), rng.choice([4, 8]), rng.randint(60, 90)),
                                               "gobj %d %d %d" % (rng.choice([TPU, TCORE]), rng.randint(0, 2), rng.randint(2, 3))]))
    first = rng.choice("AB")
    lines += ["destroy " + first, "destroy " + ("B" if first == "A" else "A")]
    return lines


def twin_boundary_cases():
    two = "src synthetic pack:2 [numa(memory=1024)] core:2 pu:2"
    d = ["destroy A", "destroy B"]
    post = ["both distadd 1004 4 5 0 3", "both disthandle hwv3 0", "both disthandle hwv2 0", "both disthandle hwv3 3", "both disthandle hwv2 1"]
    return [
        ("t:dense-ids", [two], ["pre distadd 1014 2 5 0 1", "pre distadd 1003 4 6 0 2", "dup"] + post + d),
        ("t:gap-by-handle-remove", [two], ["pre distadd 1014 2 5 0 1", "pre distadd 1003 4 6 0 2", "pre disthandle hwv1 3", "dup"] + post + d),
        ("t:gap-by-depth-remove", [two], ["pre distadd 1014 2 5 0 1", "pre distadd 1003 4 6 0 2", "pre distrmdepth 1014", "dup"] + post + d),
        ("t:gap-by-restrict", [two], ["pre distadd 1001 2 5 0 1", "pre distadd 1003 4 6 0 2", "pre robj 1001 0 0", "pre refresh", "dup",
                                      "both distadd 1004 2 5 0 3", "both disthandle hwv3 0", "both disthandle hwv2 0", "both disthandle hwv3 3"] + d),
        ("t:gap-by-failed-add", [two], ["pre distfail", "pre distadd 1003 4 6 0 2", "dup"] + post + d),
        # object-creating twin steps (compared without gp_index): grouping by distances continues the subkind counter of the original
        ("t:grouping-subkind", ["src synthetic pu:8"], ["pre distadd 1004 8 6 1 0", "dup", "both distadd 1013 4 6 1 1"] + d),
        ("t:grouping-first-on-copies", ["src synthetic pu:8"], ["dup", "both distadd 1004 8 6 1 0", "both distadd 1013 4 6 1 1"] + d),
        ("t:misc-and-group-insert", ["filter 19 0", two], ["pre gobj 1004 0 1", "dup", "both misc 0 0 m1", "both gobj 1004 2 3", "both misc 1004 1 m2"] + d),
        ("t:all-removed-then-add", [two], ["pre distadd 1014 2 5 0 1", "pre distrm", "dup", "both distadd 1004 4 5 0 3", "both disthandle hwv3 0", "both disthandle hwv3 3"] + d),
    ]


# ---- "allocated but empty" states of every growable array before the dup, re-filled on one side afterwards
def gen_empty_history(rng):
    fills = {
        "objinfo": (["pre info 0 0 a b", "pre info 0 0 c d", "pre infoclr 0 0"], ["info 0 0 e f", "infoclr 0 0"]),
        "puinfo": (["pre info %d 1 a b" % TPU, "pre infoclr %d 1" % TPU], ["info %d 1 e f" % TPU]),
        "tinfo": (["pre tinfo a b", "pre tinfoclr"], ["tinfo e f", "tinfoclr"]),
        "kinfo": (["pre kobj %d 0 1 k a" % TCORE, "pre kobj %d 1 2 k b" % TCORE, "pre kinfoclr 0"], ["kinfo 0 e f", "kinfo 1 g h", "kinfoclr 1"]),
        "kinfo-all": (["pre kobj %d 0 1 k a" % TPU, "pre kinfoclr 0"], ["kinfo 0 e f"]),
        "dist": (["pre distadd %d 2 5 0 1" % TPU, "pre distrm"], ["distadd %d 2 6 0 2" % TPU, "distrm"]),
        "memattr-targets": (["pre mreg foo 1", "pre mset 8 1 - 20", "pre robj %d 0 24" % TNUMA, "pre refresh"], ["mset 8 0 - 5"]),
        "memattr-initiators": (["pre mseto 2 1 %d 1 300" % TPACK, "pre robj %d 0 0" % TPACK, "pre refresh"], ["mseto 2 0 %d 0 7" % TPACK]),
        "userdata": (["pre ud 0 0", "pre ud %d 1" % TPU, "pre udclr 0 0"], ["ud 0 0", "udclr %d 1" % TPU]),
    }
    keys = rng.sample(sorted(fills), rng.randint(1, 4))
    # restricts last: they change the indexes the other ops rely on
    keys.sort(key=lambda k: k.startswith("memattr"))
    lines = []
    post = []
    for k in keys:
        lines += fills[k][0]
        post += fills[k][1]
    lines.append("dup")
    rng.shuffle(post)
    for op in post[:rng.randint(1, len(post))]:
        if rng.random() < 0.25 and not op.startswith(("distadd", "mset", "mseto")) or op.startswith(("distadd",)) and rng.random() < 0.3:
            lines.append("both " + op)
        else:
            lines.append("mut %s %s" % (rng.choice("AB"), op))
    first = rng.choice("AB")
    lines += ["destroy " + first, "destroy " + ("B" if first == "A" else "A")]
    return lines


def empty_boundary_cases():
    two = "src synthetic pack:2 [numa(memory=1024)] core:2 pu:2"
    res = []
    for order in ("AB", "BA"):
        d = ["destroy " + order[0], "destroy " + order[1]]
        for side in "AB":
            res += [
                ("e:cpukind-infos-cleared:%s%s" % (side, order), [two], ["pre kobj 1003 0 1 k a", "pre kobj 1003 1 2 k b", "pre kinfoclr 0", "dup", "mut %s kinfo 0 e f" % side] + d),
                ("e:obj-infos-cleared:%s%s" % (side, order), [two], ["pre info 0 0 a b", "pre info 1004 1 c d", "pre infoclr 0 0", "pre infoclr 1004 1", "dup", "mut %s info 0 0 e f" % side, "mut %s info 1004 1 g h" % side] + d),
                ("e:topology-infos-cleared:%s%s" % (side, order), [two], ["pre tinfo a b", "pre tinfoclr", "dup", "mut %s tinfo e f" % side] + d),
                ("e:distances-all-removed:%s%s" % (side, order), [two], ["pre distadd 1004 4 5 0 1", "pre distrm", "dup", "mut %s distadd 1004 4 6 0 2" % side] + d),
                ("e:userdata-unset:%s%s" % (side, order), [two], ["pre ud 0 0", "pre udclr 0 0", "dup", "mut %s ud 0 0" % side] + d),
            ]
        res.append(("e:cpukind-infos-cleared-destroy-only:" + order, [two], ["pre kobj 1003 0 1 k a", "pre kinfoclr 0", "dup"] + d))
        res.append(("e:everything-emptied:" + order, [two], ["pre info 0 0 a b", "pre infoclr 0 0", "pre tinfo a b", "pre tinfoclr", "pre kobj 1003 0 1 k a", "pre kinfoclr 0",
                                                           "pre distadd 1004 4 5 0 1", "pre distrm", "pre mreg foo 1", "pre mset 8 1 - 20", "pre robj 1014 0 24", "pre refresh", "dup",
                                                           "both info 0 0 e f", "both tinfo e f", "both kinfo 0 e f"] + d))
    return res


# enumerated boundary scenarios: arrays that become empty, stale caches, every kind of attachment present
def boundary_cases():
    two_numa = "src synthetic pack:2 [numa(memory=1024)] core:2 pu:2"
    res = []
    for order in ("AB", "BA"):
        d = ["destroy " + order[0], "destroy " + order[1]]
        res += [
            ("b:plain", [two_numa], ["dup"] + d),
            ("b:userdata+callbacks", [two_numa], ["pre ud 0 0", "pre ud 1004 1", "pre tud", "pre cb", "dup"] + d),
            ("b:dist-invalid-cache", [two_numa], ["pre distadd 1004 4 5 0 1", "dup", "mut A distrm", "mut B distadd 1014 2 6 0 2"] + d),
            ("b:dist-hetero-pu-numa", [two_numa], ["pre disthet 1004:1,1014:1,1003:0,1001:1,1004:2 5 7", "dup", "mut A distrm", "mut B robj 1001 1 0"] + d),
            ("b:dist-hetero-numa-first", [two_numa], ["pre disthet 1014:0,1004:3,1014:1 6 8", "pre disthet 1003:0,1001:0 10 9", "pre distadd 1014 2 5 0 1", "pre distadd 1004 4 9 0 2", "dup", "mut B info 0 0 a b"] + d),
            ("b:dist-hetero-after-restrict", [two_numa], ["pre disthet 1004:0,1004:5,1014:0,1014:1,1001:0 5 7", "pre robj 1001 0 0", "pre refresh", "dup"] + d),
            ("b:dist-hetero", [two_numa], ["pre distadd 1004 2 5 0 1", "pre distadd 1014 2 10 0 2", "pre distadd 1003 4 6 0 3", "dup", "mut B robj 1001 0 0"] + d),
            ("b:memattr-values", [two_numa], ["pre mreg foo 1", "pre mset 8 0 - 10", "pre mset 8 1 - 20", "pre mseto 2 0 1001 0 300", "pre mseto 2 1 1001 1 400", "dup",
                                              "mut A mset 8 0 - 11", "mut B mseto 2 0 1001 1 17"] + d),
            # INCLUDE_DISALLOWED + allow(CUSTOM): initiators straddling allowed/disallowed PUs, targets on disallowed nodes, distances and kinds
            # over disallowed PUs; a query before the last mutation so that the original's caches are valid while the copy refreshes lazily
            ("b:disallowed-initiators", ["flags 1", two_numa], ["pre allowobj 1004 0 5", "pre mseto 2 0 1001 0 500", "pre obs", "pre mseto 2 0 1001 1 1000", "pre mseto 2 0 1003 3 2000",
                                                              "dup", "mut A mseto 2 0 1003 2 7"] + d),
            # values and a query first (valid caches), THEN the PUs under some initiators become disallowed: the copy refreshes lazily
            ("b:disallowed-after-query", ["flags 1", two_numa], ["pre mseto 2 0 1001 0 500", "pre mseto 2 0 1001 1 1000", "pre mseto 2 0 1003 3 2000", "pre mseti 5 1 1001 1 7", "pre obs",
                                                               "pre allowobj 1004 0 5", "pre allownode 0 0", "dup", "mut A allow 1"] + d),
            ("b:disallowed-node-target", ["flags 1", two_numa], ["pre allownode 0 0", "pre allowobj 1004 0 3", "pre mreg foo 1", "pre mset 8 1 - 20", "pre mseti 5 1 1001 1 30", "pre obs",
                                                               "pre mseto 5 1 1003 3 40", "pre mset 8 0 - 10", "dup", "mut B mset 8 1 - 21"] + d),
            ("b:disallowed-distances-kinds", ["flags 1", two_numa], ["pre allowobj 1004 2 5", "pre distadd 1004 8 5 0 1", "pre disthet 1004:7,1014:1,1003:0 6 2", "pre kobj 1003 3 2 k a", "pre kobj 1003 0 1 k b",
                                                                   "pre obs", "pre allowobj 1004 0 1", "dup", "mut A allow 1", "mut B allowobj 1004 4 7"] + d),
            ("b:memattr-object-initiators", [two_numa], ["pre mseti 2 0 1001 0 300", "pre mseti 2 0 1001 1 100", "pre mseti 2 1 1003 2 50", "pre mseto 2 1 1001 1 400",
                                                         "pre mreg hwvlat 6", "pre mseti 8 0 1004 1 7", "pre mseto 8 0 1004 2 9", "dup", "mut A mseti 2 1 1001 0 5"] + d),
            ("b:memattr-object-initiators-stale", [two_numa], ["pre mseti 5 0 1001 0 30", "pre mseti 5 1 1001 1 10", "pre robj 1003 0 0", "dup"] + d),
            ("b:memattr-all-targets-removed", [two_numa], ["pre mreg foo 1", "pre mset 8 1 - 20", "pre robj 1014 0 24", "pre refresh", "dup"] + d),
            ("b:memattr-all-initiators-removed", [two_numa], ["pre mseto 2 0 1001 1 300", "pre mseto 2 1 1001 1 400", "pre robj 1001 0 0", "pre refresh", "dup"] + d),
            ("b:cpukinds", ["src synthetic core:4 pu:2"], ["pre kobj 1003 0 1 k a", "pre kobj 1003 1 2 k b", "pre kobj 1003 2 2 k c", "dup", "mut A kobj 1003 3 5 k d", "mut B robj 1003 0 0"] + d),
            # Groups on two levels, the inner one directly above the PUs (a multi-depth type): distances over the inner Groups, memattr values with
            # Group OBJECT initiators of both levels, a heterogeneous matrix mixing both Group levels and a PU
            ("b:inner-groups-distances+memattr", ["src synthetic group:2 group:2 pu:2"], ["pre distadd 2 4 5 0 1", "pre distadd 1 2 6 0 2", "pre mseti 2 0 2 1 300", "pre mseti 2 0 2 3 100",
                                                                                         "pre mseti 2 0 1 0 200", "pre disthet 2:0,1:1,1004:3,2:2 6 3", "dup", "mut A mseti 2 0 2 0 50"] + d),
            ("b:inner-groups-below-packages", ["src synthetic pack:2 [numa(memory=1024)] group:2 group:2 pu:2"], ["pre distadd 3 8 5 0 1", "pre mseti 2 0 3 1 300", "pre mseti 2 1 3 6 100", "pre mseti 5 1 2 3 9",
                                                                                                                "pre mreg hwvlat 6", "pre mseti 8 0 3 2 7", "dup", "mut B distrm"] + d),
            ("b:inner-groups-three-levels", ["src synthetic group:2 group:2 group:3 pu:1"], ["pre distadd 3 12 5 0 1", "pre distadd 2 4 9 0 2", "pre mseti 2 0 3 11 300", "pre mseti 2 0 2 2 30", "dup"] + d),
            # a restrict that leaves ONE kind, not the least efficient one: its efficiency must be re-ranked on the original as on the copy
            ("b:cpukinds-one-survivor-high", ["src synthetic pu:8"], ["pre kobj 1004 0 10 k a", "pre kobj 1004 1 10 k a", "pre kobj 1004 4 20 k b", "pre kobj 1004 5 20 k b", "pre robj 1004 4 0", "dup"] + d),
            ("b:cpukinds-one-survivor-of-three", ["src synthetic core:4 pu:2"], ["pre kobj 1003 0 1 k a", "pre kobj 1003 1 5 k b", "pre kobj 1003 2 9 k c", "pre robj 1003 2 0", "dup", "mut A kobj 1004 0 3 k d"] + d),
            ("b:cpukinds-two-survivors", ["src synthetic core:4 pu:2"], ["pre kobj 1003 0 1 k a", "pre kobj 1003 1 5 k b", "pre kobj 1003 2 9 k c", "pre gobj 1003 1 2", "pre robj 1013 0 0", "dup"] + d),
            ("b:cpukinds-all-removed", ["src synthetic core:4 pu:2"], ["pre kobj 1003 0 1 k a", "pre robj 1003 1 0", "dup"] + d),
            ("b:infos", [two_numa], ["pre info 0 0 a b", "pre info 1004 0 c d", "pre tinfo e f", "dup", "mut A info 0 0 g h", "mut B tinfo i j"] + d),
            ("b:misc+group", ["filter 19 0", two_numa], ["pre misc 0 0 m1", "pre misc 1004 2 m2", "pre gobj 1003 0 1", "dup", "mut A misc 1 0 m3", "mut B gobj 1004 0 1"] + d),
            ("b:restricted-source", [two_numa], ["pre robj 1001 1 0", "dup", "mut A robj 1003 0 0"] + d),
            ("b:no-cpukinds-flag-user-kinds", ["flags 512", two_numa], ["pre kobj 1003 0 1 k a", "pre kobj 1003 1 2 k b", "dup", "mut A kobj 1003 2 3 k c"] + d),
            ("b:no-memattrs-flag-user-attr", ["flags 256", two_numa], ["pre mreg foo 1", "pre mset 0 1 - 20", "dup", "mut B mset 0 0 - 5"] + d),
            ("b:no-distances-flag-user-distances", ["flags 128", two_numa], ["pre distadd 1004 4 5 0 1", "pre disthet 1004:0,1014:1,1003:1 6 2", "dup", "mut A distrm"] + d),
            ("b:no-memattrs", ["flags 256", two_numa], ["dup", "mut A info 0 0 a b"] + d),
            ("b:no-distances-no-cpukinds", ["flags 640", two_numa], ["dup", "mut B info 0 0 a b"] + d),
            ("b:group-by-distances-on-copy", ["src synthetic pu:8"], ["dup", "mut B distadd 1004 8 6 1 0"] + d),
        ]
    return res
