#!/bin/sh
# usage: gen/apply_fix.sh <patch> "<commit message starting with fix:>"
# applies one reviewed patch to /repo as one unguarded "fix:" commit (compile-checked)
set -e
P="$1"; MSG="$2"
cd /repo
git apply --check "$P"
git apply "$P"
FILES=$(git diff --name-only)
for f in $FILES; do case "$f" in hwloc/*.c) gcc -fsyntax-only -w -DHAVE_CONFIG_H -Iinclude -Ihwloc -I/usr/include/libxml2 -DHWLOC_INSIDE_LIBHWLOC '-DHWLOC_PLUGINS_PATH=""' '-DRUNSTATEDIR="/var/run"' "$f";; esac; done
git add $FILES
git commit -q -m "$MSG"
git log --oneline | head -1
