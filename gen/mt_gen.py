"""C17 case generators (python3 stdlib only).  A case is the text harness/hwv_mt.c reads; its first
line `# kind: <kind>` tells checks/c17.py what is expected of it:

  readers-warm        T readers of one refreshed topology, statics warmed by one XML export  -> no race
  readers-noexport    T readers, no XML export anywhere, nothing warmed                      -> no race
  readers-cold        T readers whose first call is an XML export                            -> first-use statics (finding)
  control-unrefreshed readers of a restricted but NOT refreshed topology (outside the property): TSan must see the cache race
  indep-warm          T independent init/load/modify/export/destroy histories, statics warm  -> no race
  indep-cold          same, nothing warmed                                                   -> first-use statics (finding)
  load-bind           load with RESTRICT_TO_CPUBINDING|IS_THISSYSTEM while bound to one CPU  -> caches valid after load (regression of fix 970d793)
  synth-warned        HWLOC_SYNTHETIC_VERBOSE + shared memory-side cache: `warned` is a first-use static (finding when cold; regression of fix 128454f when warm)
  indep-faulty        independent histories that include FAILING loads (malformed XML buffers/files, bad synthetic,
                      blacklisted unknown components) next to other threads' XML imports/exports of plain and
                      parser-demanding documents; every thread's per-call results are compared with the same
                      history run ALONE IN A FRESH PROCESS                                  -> no interference, no race
  nomemattr           NO_MEMATTRS + user attribute: refresh validates it (regression of fix 12fb556)
"""
import os

SYNTH = [
    # NUMA and PU OS indexes that are NOT in logical order (a consulting call that reorders a level array in place,
    # e.g. sorts by os_index, is invisible on ordered topologies)
    "Package:4 [NUMANode(indexes=2,0,3,1)] Core:2 PU:2(indexes=15,3,9,1,12,6,0,7,2,14,4,10,5,13,8,11)",
    "NUMANode:4(indexes=3,1,2,0) Core:2 PU:2(indexes=7,5,3,1,6,4,2,0)",
    "Package:2 [NUMANode(indexes=1,0)] L3:2 Core:2 PU:2(indexes=2*8:1*2)",
    "pack:2 numa:2 core:2 pu:2",
    "numa:4 core:2 pu:2",
    "pack:2 [numa] l3:2 core:2 pu:2",
    "numa:2 pack:2 core:3 pu:1",
    "pack:4 numa:1 l2:2 core:1 pu:2",
]
XMLS = ["8intel64-4n2t-memattrs.xml", "fakecpukinds.xml", "16amd64-4distances.xml", "16amd64-8n2c-cpusets.xml",
        "64intel64-fakeKNL-SNC4-hybrid.xml", "power8gpudistances.xml"]

FLAG_IS_THISSYSTEM = 1 << 1
FLAG_RESTRICT_TO_CPUBINDING = 1 << 4
FLAG_NO_DISTANCES = 1 << 7
FLAG_NO_MEMATTRS = 1 << 8
FLAG_NO_CPUKINDS = 1 << 9

CONS = ["traverse", "typeprint", "distget", "distrelease", "mameta", "localnodes", "cpukinds", "sets", "bitmap", "exportsynth",
        "defaultnodeset", "defaultnodeset", "helpers"]


def xml_path(repo, name):
    return os.path.join(repo, "tests/hwloc/xml", name)


def source(rng, repo, xml_ok=True):
    if xml_ok and rng.random() < 0.5:
        return "xml " + xml_path(repo, rng.choice(XMLS))
    return "synthetic " + rng.choice(SYNTH)


def cons_op(rng, t, export=True, nattr=9):
    r = rng.random()
    if export and r < 0.2:
        return "cons %d exportxml" % t
    if r < 0.45:
        return "cons %d maget %d %d" % (t, rng.randrange(5), rng.randrange(nattr + 1))
    return "cons %d %s" % (t, rng.choice(CONS))


def mods(rng, t, n, refresh_last=True):
    out = []
    for _ in range(n):
        r = rng.random()
        if r < 0.2:
            out.append("mod %d distadd %s %d" % (t, rng.choice(["NUMANode", "Core", "PU", "Package"]), rng.choice([2, 3, 4, 8])))
        elif r < 0.45:
            out.append("mod %d maset %d %d" % (t, rng.choice([2, 3, 4, 5, 6, 7, 8, 0, 9]), rng.randrange(4)))
        elif r < 0.55:
            out.append("mod %d maregister" % t)
        elif r < 0.7:
            out.append("mod %d restrict %s" % (t, rng.choice(["0x0f", "0xff", "0x3", "0xf0", "0xfff", "0x5555", "0x1"])))
        elif r < 0.78:
            out.append("mod %d insertmisc" % t)
        elif r < 0.84:
            out.append("mod %d insertgroup" % t)
        elif r < 0.88:
            out.append("mod %d allow" % t)
        elif r < 0.92:
            out.append("mod %d distremove" % t)
        elif r < 0.96:
            out.append("mod %d refresh" % t)
        else:
            out.append(cons_op(rng, t, export=False))
    if refresh_last:
        out.append("mod %d refresh" % t)
    return out


def readers(rng, repo, T, kind):
    """kind: readers-warm | readers-noexport | readers-cold"""
    L = ["# kind: %s" % kind, "init 0", "load 0 %d bind=0 %s" % (rng.choice([0, 0, 0, FLAG_NO_CPUKINDS]), source(rng, repo, xml_ok=(kind != "readers-cold" or rng.random() < 0.5)))]
    L += mods(rng, 0, rng.randrange(2, 9))
    if kind == "readers-warm":
        L.append("cons 0 exportxml")
    L.append("threads %d" % T)
    for i in range(T):
        n = rng.randrange(3, 9)
        if kind == "readers-cold":
            L.append("prog %d cons 0 exportxml" % i)
        for _ in range(n):
            L.append("prog %d %s" % (i, cons_op(rng, 0, export=(kind == "readers-warm"))))
    L.append("run")
    L.append("destroy 0")
    return "\n".join(L) + "\n"


def control_unrefreshed(rng, repo):
    L = ["# kind: control-unrefreshed", "init 0", "load 0 0 bind=0 synthetic pack:2 numa:2 core:2 pu:2",
         "mod 0 distadd Core 8", "mod 0 distadd PU 4", "mod 0 maset 2 0", "mod 0 refresh",
         "mod 0 restrict 0xff", "threads 2",
         "prog 0 cons 0 distget", "prog 0 cons 0 maget 0 2", "prog 1 cons 0 distget", "prog 1 cons 0 maget 0 2",
         "run noref", "destroy 0"]
    return "\n".join(L) + "\n"


def indep(rng, repo, T, warm):
    L = ["# kind: %s" % ("indep-warm" if warm else "indep-cold")]
    if warm:
        # the first use of every XML-related static happens here, single-threaded; topology 63 stays
        # alive so that the component registry is not torn down and rebuilt under the threads
        L += ["init 63", "load 63 0 bind=0 xml " + xml_path(repo, XMLS[0]), "cons 63 exportxml"]
    L.append("threads %d" % T)
    for i in range(T):
        t = i
        L.append("prog %d init %d" % (i, t))
        L.append("prog %d load %d 0 bind=0 %s" % (i, t, source(rng, repo)))
        for m in mods(rng, t, rng.randrange(2, 7), refresh_last=rng.random() < 0.7):
            L.append("prog %d %s" % (i, m))
        for _ in range(rng.randrange(1, 4)):
            L.append("prog %d %s" % (i, cons_op(rng, t)))
        L.append("prog %d cons %d exportxml" % (i, t))
        L.append("prog %d destroy %d" % (i, t))
    L.append("run")
    if warm:
        L.append("destroy 63")
    return "\n".join(L) + "\n"


def load_bind(rng, repo):
    L = ["# kind: load-bind", "init 0",
         "load 0 %d bind=1 synthetic %s" % (FLAG_IS_THISSYSTEM | FLAG_RESTRICT_TO_CPUBINDING, "pack:4 numa:2 core:2 pu:2"),
         "threads 2", "prog 0 cons 0 maget 0 2", "prog 1 cons 0 maget 0 2", "run noref", "destroy 0"]
    return "\n".join(L) + "\n"


def nomemattr(rng, repo):
    L = ["# kind: nomemattr", "init 0", "load 0 %d bind=0 synthetic numa:4 core:2 pu:2" % FLAG_NO_MEMATTRS,
         "mod 0 maregister", "mod 0 maset 0 0", "mod 0 refresh",
         "threads 2", "prog 0 cons 0 maget 0 0", "prog 1 cons 0 maget 0 0", "run noref", "destroy 0"]
    return "\n".join(L) + "\n"


def shrink(case, still_fails):
    """delta-debugging over the non-structural lines of a case"""
    lines = case.strip("\n").split("\n")
    keep = lambda l: l.endswith(" barrier") or l.startswith("#") or l.startswith("init") or l.startswith("load") or l.startswith("threads") or l.startswith("run") or " init " in l or " load " in l or " destroy " in l or l.startswith("destroy")
    changed = True
    while changed:
        changed = False
        for i in range(len(lines) - 1, -1, -1):
            if keep(lines[i]):
                continue
            cand = lines[:i] + lines[i + 1:]
            if still_fails("\n".join(cand) + "\n"):
                lines = cand
                changed = True
    return "\n".join(lines) + "\n"


# ---------------------------------------------------------------------------------------------
# Histories with FAILING loads interleaved with other threads' XML imports/exports (kind indep-faulty)

BAD_SYNTH = ["pack:2 foo:3", "pack:0 pu:2", "", "numa:2 core:x", "pu:2 pack:2"]


def make_doc_variants(base_xml):
    """From one exported document: well-formed variants that a full XML parser accepts but a minimal one
    may not, and malformed ones.  -> {name: bytes}"""
    import re
    t = base_xml
    v = {}
    v["plain"] = t
    v["sq"] = re.sub(r'="([^"\']*)"', r"='\1'", t)                                    # single-quoted attributes
    v["comment"] = t.replace("<topology", "<!-- a comment -->\n<topology", 1).replace("</topology>", "  <!-- another -->\n</topology>", 1)
    v["charref"] = t.replace('type="Machine"', 'type="&#77;achine"', 1)                 # character reference
    v["entity"] = re.sub(r"<!DOCTYPE[^>]*>", '<!DOCTYPE topology SYSTEM "hwloc2.dtd" [<!ENTITY m "Machine">]>', t, 1).replace('type="Machine"', 'type="&m;"', 1)
    v["enc"] = re.sub(r"<\?xml[^>]*\?>", '<?xml version="1.0" encoding="ISO-8859-1"?>', t, 1)
    v["nodecl"] = re.sub(r"<\?xml[^>]*\?>\n?", "", t, 1)
    v["spaces"] = t.replace("=\"", " = \"").replace("/>", " />")
    # malformed
    v["trunc"] = t[: len(t) // 2]
    v["unclosed"] = t.replace("</topology>", "", 1)
    v["garbage"] = "this is not xml at all\n"
    v["empty"] = ""
    v["wrongroot"] = t.replace("<topology", "<topologie", 1).replace("</topology>", "</topologie>", 1)
    return {k: x.encode() for k, x in v.items()}


GOOD_DOCS = ["plain", "sq", "comment", "charref", "entity", "enc", "nodecl", "spaces"]
BAD_DOCS = ["trunc", "unclosed", "garbage", "empty", "wrongroot"]


def one_round(rng, t, docs, what):
    """init/load/use/destroy of slot t; what: good | fussy | failing"""
    L = ["init %d" % t]
    if rng.random() < 0.15:
        L.append("blacklist %d %s" % (t, rng.choice(["nonexistent", "x86", "linux", "-nosuch"])))
    how = rng.choice(["xml", "xmlbuf"])
    if what == "failing":
        r = rng.random()
        if r < 0.6:
            L.append("load %d 0 bind=0 %s %s" % (t, how, docs[rng.choice(sorted(docs))][rng.choice(BAD_DOCS)]))
        elif r < 0.8:
            L.append("load %d 0 bind=0 synthetic %s" % (t, rng.choice(BAD_SYNTH)))
        else:
            L.append("load %d 0 bind=0 xml /nonexistent/file.xml" % t)
        if rng.random() < 0.5:   # retry on the same topology after the failure
            L.append("load %d 0 bind=0 %s %s" % (t, how, docs[rng.choice(sorted(docs))][rng.choice(GOOD_DOCS)]))
    elif what == "fussy":
        L.append("load %d 0 bind=0 %s %s" % (t, how, docs[rng.choice(sorted(docs))][rng.choice(GOOD_DOCS[1:])]))
    else:
        if rng.random() < 0.5:
            L.append("load %d 0 bind=0 synthetic %s" % (t, rng.choice(SYNTH)))
        else:
            L.append("load %d 0 bind=0 %s %s" % (t, how, docs[rng.choice(sorted(docs))]["plain"]))
    for _ in range(rng.randrange(1, 4)):
        L.append(cons_op(rng, t))
    if rng.random() < 0.4:
        L += mods(rng, t, rng.randrange(1, 3))
    L.append("cons %d exportxml" % t)
    L.append("cons %d traverse" % t)
    L.append("destroy %d" % t)
    return L


def indep_faulty(rng, repo, docs, T, ordered):
    """docs: {basename: {variant: path}}.  Thread 0's history is made of failing loads, the others import
    and export XML (plain and parser-demanding documents, both through files and buffers).  Every thread
    keeps one more topology alive for its whole history.  ordered: a barrier after the first round."""
    L = ["# kind: indep-faulty",
         "init 63", "load 63 0 bind=0 xml " + docs[sorted(docs)[0]]["plain"], "cons 63 exportxml",   # statics warm
         "init 62", "load 62 0 bind=0 xml /nonexistent/file.xml", "destroy 62",                        # libxml2's missing-file path too
         "threads %d" % T]
    for i in range(T):
        keep = 32 + i
        L.append("prog %d init %d" % (i, keep))
        rounds = rng.randrange(2, 5)
        for r in range(rounds):
            what = "failing" if (i == 0 or rng.random() < 0.15) else rng.choice(["fussy", "fussy", "good"])
            for l in one_round(rng, i, docs, what):
                L.append("prog %d %s" % (i, l))
            if r == 0 and ordered:
                L.append("prog %d barrier" % i)
        L.append("prog %d destroy %d" % (i, keep))
    L += ["run noref", "destroy 63"]
    return "\n".join(L) + "\n"


def solo_case(case, i):
    """thread i's history alone (fresh process): same sequential preamble, one thread"""
    out = []
    for l in case.split("\n"):
        if l.startswith("run"):
            out.append("run inline")      # by the main thread itself: the reference process has ONE thread
        elif l.startswith("threads "):
            out.append("threads 1")
        elif l.startswith("prog "):
            toks = l.split(None, 2)
            if int(toks[1]) == i:
                out.append("prog 0 " + toks[2])
        else:
            out.append(l)
    return "\n".join(out)


# ---------------------------------------------------------------------------------------------
# Error paths of export-like / configuration calls in every lifecycle state (kind indep-faulty, same checks)

ERR_ANY = ["shmemlen", "shmemwrite", "exportxml", "exportxmlbuf", "exportsynth", "dup", "diffbuild", "diffapply",
           "restrict", "allow", "insertmisc", "distadd", "distget", "refresh",
           # hwloc_shmem_topology_adopt of a good file and of every corrupted variant (valid header + foreign ABI word, bad
           # version / header length / length / address, address range busy, not a shmem file, truncated)
           "adoptgood", "adoptabi", "adoptabi", "adoptversion", "adopthlength", "adoptlength", "adoptaddr", "adoptbusy",
           "adoptnonshmem", "adopttrunc"]
ERR_LOADED = ["setsynthetic", "setxml", "setflags", "setfilter", "setpid", "setcomponents"]


def error_round(rng, t, docs):
    """one topology taken through init only / configured / failed load / loaded, with error-path calls in each state"""
    L = ["init %d" % t]
    for _ in range(rng.randrange(0, 3)):
        L.append("err %d %s" % (t, rng.choice(ERR_ANY)))
    if rng.random() < 0.5:
        L.append("configure %d synthetic %s" % (t, rng.choice(SYNTH)))
        for _ in range(rng.randrange(1, 3)):
            L.append("err %d %s" % (t, rng.choice(ERR_ANY)))
    if rng.random() < 0.4:
        L.append("load %d 0 bind=0 synthetic %s" % (t, rng.choice(BAD_SYNTH)) if rng.random() < 0.5 else
                 "load %d 0 bind=0 xmlbuf %s" % (t, docs[rng.choice(sorted(docs))][rng.choice(BAD_DOCS)]))
        for _ in range(rng.randrange(1, 3)):
            L.append("err %d %s" % (t, rng.choice(ERR_ANY)))
    if rng.random() < 0.7:
        L.append("load %d 0 bind=0 synthetic %s" % (t, rng.choice(SYNTH)) if rng.random() < 0.6 else
                 "load %d 0 bind=0 xml %s" % (t, docs[rng.choice(sorted(docs))]["plain"]))
        for _ in range(rng.randrange(1, 4)):
            L.append("err %d %s" % (t, rng.choice(ERR_LOADED + ERR_ANY)))
        L.append(cons_op(rng, t))
        L.append("cons %d exportxml" % t)
    L.append("destroy %d" % t)
    return L


def indep_errors(rng, repo, docs, T, lockstep):
    """lockstep: a deterministic interleaving - the calls of all threads are totally ordered by barriers
    (one call, then everybody meets), in an order drawn from rng"""
    keep63 = rng.random() < 0.5
    L = ["# kind: indep-faulty",
         "init 63", "load 63 0 bind=0 xml " + docs[sorted(docs)[0]]["plain"], "cons 63 exportxml",
         "init 62", "load 62 0 bind=0 xml /nonexistent/file.xml", "destroy 62"]
    if not keep63:
        L.append("destroy 63")      # the threads' topologies are then the only ones: the components count can reach 0 inside the section
    progs = []
    for i in range(T):
        p = []
        for _ in range(rng.randrange(1, 4)):
            p += error_round(rng, i, docs)
        progs.append(p)
    L.append("threads %d" % T)
    if lockstep:
        pos = [0] * T
        out = [[] for _ in range(T)]
        while any(pos[i] < len(progs[i]) for i in range(T)):
            u = rng.choice([i for i in range(T) if pos[i] < len(progs[i])])
            out[u].append(progs[u][pos[u]])
            pos[u] += 1
            for i in range(T):
                out[i].append("barrier")
        progs = out
    for i in range(T):
        for l in progs[i]:
            L.append("prog %d %s" % (i, l))
    L.append("run noref")
    # the process-wide component registry must still work: a fresh topology loads and exports, the survivor exports
    L += ["init 60", "load 60 0 bind=0 synthetic pack:2 numa:1 core:2 pu:2", "cons 60 exportxml", "cons 60 traverse", "destroy 60"]
    if keep63:
        L += ["cons 63 exportxml", "destroy 63"]
    return "\n".join(L) + "\n"


# ---------------------------------------------------------------------------------------------
# A topology, its dup and the dup of the dup, taken after state-emptying mutations; then one thread per topology
# mutates and reads ITS topology and destroys it (kind indep-faulty: fresh-process reference per thread, ASan, TSan)

def lockstep_merge(rng, progs):
    T = len(progs)
    pos = [0] * T
    out = [[] for _ in range(T)]
    while any(pos[i] < len(progs[i]) for i in range(T)):
        u = rng.choice([i for i in range(T) if pos[i] < len(progs[i])])
        out[u].append(progs[u][pos[u]])
        pos[u] += 1
        for i in range(T):
            out[i].append("barrier")
    return out


def indep_dups(rng, repo, docs, lockstep):
    L = ["# kind: indep-faulty",
         "init 63", "load 63 0 bind=0 xml " + docs[sorted(docs)[0]]["plain"], "cons 63 exportxml",
         "init 62", "load 62 0 bind=0 xml /nonexistent/file.xml", "destroy 62",
         "init 0"]
    if rng.random() < 0.4:
        L.append("load 0 0 bind=0 xml " + xml_path(repo, "fakecpukinds.xml"))
    else:
        L += ["load 0 0 bind=0 synthetic " + rng.choice(SYNTH), "mod 0 cpukind 0x0f CoreType big", "mod 0 cpukind 0xf0 CoreType little",
              "mod 0 cpukind 0xff00 FrequencyMaxMHz 3000"]
    # some state to empty
    L += ["mod 0 infos kind0 add Extra one", "mod 0 infos kind1 add Extra two", "mod 0 infos root add Custom rootvalue", "mod 0 infos topo add TopoKey topovalue",
          "mod 0 infos pu0 add PuKey pv", "mod 0 distadd PU 4", "mod 0 distadd NUMANode 2", "mod 0 maset 2 0", "mod 0 maset 3 1", "mod 0 maregister", "mod 0 maset 8 0"]
    empt = ["mod %d infos kind0 clear", "mod %d infos kind1 clear", "mod %d infos kind2 clear", "mod %d infos root clear", "mod %d infos topo clear",
            "mod %d infos pu0 clear", "mod %d distremove", "mod %d restrict 0x1"]
    for e in rng.sample(empt, rng.randrange(2, len(empt) + 1)):
        L.append(e % 0)
    L += ["mod 0 refresh", "dupto 0 1"]
    for e in rng.sample(empt, rng.randrange(0, 4)):
        L.append(e % 1)
    L += ["mod 1 refresh", "dupto 1 2"]
    progs = []
    for i in range(3):
        p = []
        for _ in range(rng.randrange(3, 8)):
            r = rng.random()
            if r < 0.45:
                p.append("mod %d infos %s %s K%d%d v%d-%d" % (i, rng.choice(["kind0", "kind0", "kind1", "kind2", "root", "topo", "pu0"]),
                                                                rng.choice(["add", "add", "replace"]), i, rng.randrange(3), i, rng.randrange(100)))
            elif r < 0.55:
                p.append("mod %d distadd %s %d" % (i, rng.choice(["PU", "Core"]), rng.choice([2, 4])))
            elif r < 0.65:
                p.append("mod %d maset %d %d" % (i, rng.choice([2, 3, 8]), rng.randrange(2)))
            elif r < 0.7:
                p.append("mod %d refresh" % i)
            else:
                p.append("cons %d %s" % (i, rng.choice(["cpukinds", "cpukinds", "exportxml", "traverse", "helpers", "mameta", "distget"])))
        p += ["mod %d refresh" % i, "cons %d cpukinds" % i, "cons %d traverse" % i, "cons %d exportxml" % i, "destroy %d" % i]
        progs.append(p)
    if lockstep:
        progs = lockstep_merge(rng, progs)
    L.append("threads 3")
    for i in range(3):
        for l in progs[i]:
            L.append("prog %d %s" % (i, l))
    L += ["run noref", "init 60", "load 60 0 bind=0 synthetic pack:2 numa:1 core:2 pu:2", "cons 60 exportxml", "destroy 60", "cons 63 exportxml", "destroy 63"]
    return "\n".join(L) + "\n"


# ---------------------------------------------------------------------------------------------
# Native discovery (Linux + x86 backends) by several threads, each on its own topology, each bound to its own PU or
# not bound at all: the result of a thread's init/load/export history and the binding it is left with must be those of
# the same history in a single-threaded process (kind indep-faulty: fresh single-threaded reference, ASan)

def indep_native(rng, T, bound):
    L = ["# kind: indep-faulty", "# native",
         "init 63", "load 63 0 bind=0 native", "cons 63 exportxml"]     # first uses of the OS backend's statics happen here
    L.append("threads %d" % T)
    for i in range(T):
        if bound:
            L.append("prog %d bindthread %d" % (i, i))
        L.append("prog %d showbind" % i)
        for r in range(rng.randrange(1, 3)):
            L += ["prog %d init %d" % (i, i), "prog %d load %d 0 bind=0 native" % (i, i), "prog %d showbind" % i,
                  "prog %d cons %d exportxml" % (i, i), "prog %d cons %d traverse" % (i, i), "prog %d cons %d typeprint" % (i, i),
                  "prog %d cons %d helpers" % (i, i), "prog %d destroy %d" % (i, i)]
        L.append("prog %d showbind" % i)
    L += ["run noref", "init 60", "load 60 0 bind=0 synthetic pack:2 numa:1 core:2 pu:2", "cons 60 exportxml", "destroy 60", "cons 63 exportxml", "destroy 63"]
    return "\n".join(L) + "\n"


# ---------------------------------------------------------------------------------------------
# HWLOC_COMPONENTS set to a multi-entry list (forced names, exclusions, stop): every hwloc_topology_load parses it in
# hwloc_disc_components_enable_others; threads loading DISTINCT topologies at the same time must each get the
# backends a single-threaded process gets (kind indep-faulty: single-threaded fresh reference, ASan, TSan)

COMPONENT_LISTS = [("no_os,-x86,-linux,stop", "native"), ("synthetic,-linux,-x86,stop", "synthetic pack:2 numa:1 core:2 pu:2"),
                   ("-x86,-pci,no_os,-linux,stop", "native"), ("xml,-linux,-x86,-pci,stop", None)]


def indep_components(rng, repo, docs, T, rounds):
    comps, src = rng.choice(COMPONENT_LISTS)
    if src is None:
        src = "xml " + docs[sorted(docs)[0]]["plain"]
    L = ["# kind: indep-faulty", "env HWLOC_COMPONENTS " + comps,
         "init 63", "load 63 0 bind=0 " + src, "cons 63 exportxml"]
    L.append("threads %d" % T)
    for i in range(T):
        for r in range(rounds):
            L += ["prog %d init %d" % (i, i), "prog %d load %d 0 bind=0 %s" % (i, i, src), "prog %d cons %d exportxml" % (i, i),
                  "prog %d cons %d traverse" % (i, i), "prog %d destroy %d" % (i, i)]
    L += ["run noref", "cons 63 exportxml", "destroy 63"]
    return "\n".join(L) + "\n"
