"""C20 generators: topologies for the tools, command lines over the documented
hwloc-calc option and location grammars (structured, with their syntax tree
kept so that the denotational spec can be evaluated on them), and a separate
malformed stream.  python3 stdlib only; every choice derives from the rng
given by the caller."""
import re

TYPE_NAMES = ["Machine", "Package", "Die", "Core", "PU", "L1Cache", "L2Cache", "L3Cache", "L4Cache", "L5Cache",
              "L1iCache", "L2iCache", "L3iCache", "Group", "NUMANode", "MemCache", "Bridge", "PCIDev", "OSDev", "Misc"]
T = {n: i for i, n in enumerate(TYPE_NAMES)}
# spellings hwloc_type_sscanf accepts for each type (documented names and abbreviations)
SPELL = {
    0: ["machine", "Machine", "ma"], 1: ["package", "Package", "pack", "socket", "pa"], 2: ["die", "Die"],
    3: ["core", "Core", "co"], 4: ["pu", "PU"], 5: ["l1", "L1Cache", "l1d", "L1dcache", "l1u"], 6: ["l2", "L2Cache", "L2"],
    7: ["l3", "L3Cache", "l3u"], 8: ["l4", "L4"], 9: ["l5"], 10: ["l1i", "L1iCache", "L1i"], 11: ["l2i", "L2iCache"], 12: ["l3i"],
    13: ["group", "Group", "gr"], 14: ["numa", "NUMANode", "node", "numanode", "nu"], 15: ["memcache", "MemCache", "memca"],
    16: ["bridge", "Bridge"], 17: ["pci", "PCIDev", "pcidev"], 18: ["os", "OSDev", "osdev"], 19: ["misc", "Misc"],
}


# ---------------------------------------------------------------------------
# sets: (inf, fin) like coq/Base/BSet.v
class BS:
    __slots__ = ("fin", "inf")

    def __init__(self, fin=0, inf=False):
        self.fin, self.inf = fin, bool(inf)

    def __eq__(self, o):
        return isinstance(o, BS) and self.fin == o.fin and self.inf == o.inf

    def __hash__(self):
        return hash((self.fin, self.inf))

    def mem(self, i):
        return bool((self.fin >> i) & 1) != self.inf

    def compl(self):
        return BS(self.fin, not self.inf)

    def union(self, o):
        if not self.inf and not o.inf:
            return BS(self.fin | o.fin, False)
        if not self.inf and o.inf:
            return BS(o.fin & ~self.fin, True)
        if self.inf and not o.inf:
            return BS(self.fin & ~o.fin, True)
        return BS(self.fin & o.fin, True)

    def inter(self, o):
        if not self.inf and not o.inf:
            return BS(self.fin & o.fin, False)
        if not self.inf and o.inf:
            return BS(self.fin & ~o.fin, False)
        if self.inf and not o.inf:
            return BS(o.fin & ~self.fin, False)
        return BS(self.fin | o.fin, True)

    def diff(self, o):
        return self.inter(o.compl())

    def xor(self, o):
        return BS(self.fin ^ o.fin, self.inf != o.inf)

    def is_empty(self):
        return not self.inf and self.fin == 0

    def intersects(self, o):
        return not self.inter(o).is_empty()

    def subset(self, o):
        return self.diff(o).is_empty()

    def weight(self):
        return None if self.inf else bin(self.fin).count("1")

    def first(self):
        if self.inf:
            i = 0
            while (self.fin >> i) & 1:
                i += 1
            return i
        if self.fin == 0:
            return None
        return (self.fin & -self.fin).bit_length() - 1

    def text(self):
        """dump syntax <inf>:<hex words>"""
        n = max(1, (self.fin.bit_length() + 63) // 64)
        mask = (1 << (64 * n)) - 1
        v = self.fin ^ (mask if self.inf else 0)
        return "%d:%0*x" % (1 if self.inf else 0, 16 * n, v)

    @staticmethod
    def parse(s):
        if s == "-" or s == "?":
            return None
        inf = s[0] == "1"
        h = s[2:]
        v = int(h, 16)
        if inf:
            v ^= (1 << (4 * len(h))) - 1
        return BS(v, inf)

    def __repr__(self):
        return self.text()


EMPTY = BS()


def _unq(t):
    """a string of the dump: "-" (NULL) or a quoted text with %xx escapes"""
    if t == "-" or len(t) < 2:
        return None
    return re.sub(r"%([0-9a-fA-F]{2})", lambda m: chr(int(m.group(1), 16)), t[1:-1])


def _infos(t):
    res = {}
    if t == "-":
        return res
    for pair in t.split(";"):
        n, _, v = pair.partition("=")
        n, v = _unq(n), _unq(v)
        if n is not None and n not in res:          # hwloc_obj_get_info_by_name: the first one
            res[n] = v or ""
    return res


def atoi(t):
    m = re.match(r"\s*([+-]?\d+)", t or "")
    return int(m.group(1)) if m else 0


def passes_filter(o, flt):
    """hwloc_calc_check_object_filtered for the bracket filters [tier=N] and [subtype] / [subtype=S]"""
    if flt is None:
        return True
    if flt[0] == "tier":
        if o["ty"] != 14:
            return True
        t = o["infos"].get("MemoryTier")
        return t is not None and atoi(t) == flt[1]
    if flt[0] == "subtype":
        return o["st"] is not None and o["st"].lower() == flt[1].lower()
    return True


def level_filters(info, depth):
    """the bracket filters the objects of a level give a meaning to: every memory tier and every subtype present"""
    res = []
    objs = info.level(depth)
    if depth == -3:
        tiers = sorted(set(atoi(o["infos"]["MemoryTier"]) for o in objs if "MemoryTier" in o["infos"]))
        if tiers:
            res += [("tier", t) for t in tiers] + [("tier", max(tiers) + 1)]
    subs = sorted(set(o["st"] for o in objs if o["st"] and re.fullmatch(r"[A-Za-z0-9_]{1,30}", o["st"])))
    res += [("subtype", x) for x in subs]
    if subs:
        res.append(("subtype", "NoSuchSubtype"))
    return res


def filter_text(rng, flt):
    if flt[0] == "tier":
        return "[tier=%d]" % flt[1]
    return "[%s%s]" % (rng.choice(["", "subtype="]), flt[1] if rng.random() < 0.7 else flt[1].lower())


def add_filter(rng, info, step, p=0.5):
    """step with a bracket filter (5th element) when its level has filterable values"""
    d, ty = step[0], step[1]
    fl = level_filters(info, d)
    if not fl or rng.random() >= p or info.tdepth.get(ty, None) != d:      # the type must name this single level
        return step
    flt = rng.choice(fl)
    name = rng.choice(SPELL.get(ty, [TYPE_NAMES[ty]]))       # a type NAME: a depth number takes no filter
    rg = rng.choice([("all",), ("one", rng.randrange(3)), ("fromto", 0, rng.randrange(1, 4)), step[3]])
    text = name + filter_text(rng, flt)
    if len(text) > 20:
        # hwloc_calc_parse_level copies type and filter into char typestring[21]: longer ones are rejected
        text = name + "[%s]" % flt[1] if flt[0] == "subtype" else text
        if len(text) > 20:
            return step
    return (d, ty, text, rg, flt)


# ---------------------------------------------------------------------------
# the dump as python data
class Info:
    def __init__(self, dump_lines):
        self.objs = {}
        self.levels = {}       # depth -> [obj ids in order]
        self.level_type = {}
        self.tdepth = {}
        self.depth = 0
        for l in dump_lines:
            if l.startswith("T "):
                self.depth = int(re.search(r"depth=(-?\d+)", l).group(1))
            elif l.startswith("L "):
                f = l.split(" ")
                d = int(f[1])
                self.level_type[d] = int(f[2])
                self.levels[d] = [] if f[4] == "-" else [int(x) for x in f[4].split(",") if x.isdigit()]
            elif l.startswith("D "):
                f = l.split(" ")
                self.tdepth[int(f[1])] = int(f[2])
            elif l.startswith("O "):
                f = l.split(" ")
                kv = dict(x.split("=", 1) for x in f[2:] if "=" in x)
                o = {"id": int(f[1]), "ty": int(kv["ty"]), "dp": int(kv["dp"]), "os": int(kv["os"]), "li": int(kv["li"]),
                     "cs": BS.parse(kv["cs"]), "nds": BS.parse(kv["nds"]), "par": kv["par"], "st": _unq(kv.get("st", "-")),
                     "at": kv.get("at", "-"), "infos": _infos(kv.get("inf", "-"))}
                self.objs[o["id"]] = o
        self.root = self.objs[0]

    def level(self, depth):
        return [self.objs[i] for i in self.levels.get(depth, [])]

    def has_cpuless(self):
        return any(o["cs"] is not None and o["cs"].is_empty() and o["nds"] is not None and not o["nds"].is_empty()
                   for o in self.objs.values())

    def npus(self):
        return len(self.levels.get(self.depth - 1, []))

    def output_levels(self):
        """(depth, type) of every level -N / -I may name: the normal depths and every special level that has
        objects (NUMA nodes, memory-side caches, bridges, PCI devices, OS devices, Misc)"""
        res = [(d, self.level_type[d]) for d in range(self.depth)]
        for d, ty in ((-3, 14), (-8, 15), (-4, 16), (-5, 17), (-6, 18), (-7, 19)):
            if self.levels.get(d):
                res.append((d, ty))
        return res

    def usable_levels(self):
        """(depth, type) of the levels a location may name: normal depths and the NUMA level"""
        res = [(d, self.level_type[d]) for d in range(self.depth)]
        if self.levels.get(-3):
            res.append((-3, 14))
        return res


def type_spelling(rng, info, depth, ty):
    """a string that names this level: a type spelling when the type has a single
    depth (Group with its depth attribute otherwise), or the depth number"""
    single = info.tdepth.get(ty, -1) == depth
    if depth >= 0 and (not single or rng.random() < 0.12):
        if ty == 13 and not single and rng.random() < 0.5:
            lv = info.level(depth)
            m = re.search(r"gdepth:(\d+)", lv[0]["at"]) if lv else None
            if m:
                # unique only if no other Group level shares the depth attribute; the model decides
                return "Group%s" % m.group(1)
        return str(depth)
    return rng.choice(SPELL.get(ty, [TYPE_NAMES[ty]]))


def gen_range(rng, width):
    w = max(width, 1)
    r = rng.random()
    if r < 0.30:
        x = rng.randrange(w) if rng.random() < 0.9 else w + rng.randrange(3)
        return ("one", x)
    if r < 0.50:
        x = rng.randrange(w)
        y = rng.randrange(x, w) if rng.random() < 0.85 else x + rng.randrange(w + 3)
        return ("fromto", x, y)
    if r < 0.60:
        return ("from", rng.randrange(w + 1) if rng.random() < 0.85 else w + rng.randrange(4))
    if r < 0.75:
        x = rng.randrange(w) if rng.random() < 0.85 else w + rng.randrange(3)
        return ("wrap", x, rng.choice([0, 1, 1, 2, 3, w, w + 1, 2 * w + 1]))
    return (rng.choice(["all", "odd", "even"]),)


def range_text(r):
    k = r[0]
    if k == "one":
        return "%d" % r[1]
    if k == "fromto":
        return "%d-%d" % (r[1], r[2])
    if k == "from":
        return "%d-" % r[1]
    if k == "wrap":
        return "%d:%d" % (r[1], r[2])
    return k


def gen_mem_path(rng, info):
    """a nested chain whose last level is the NUMA level: parent:i[.child:j].numa:range"""
    normal = [(d, t) for d, t in info.usable_levels() if d >= 0]
    k = rng.choice([1, 1, 2])
    parents = sorted(rng.sample(normal, min(k, len(normal))))
    steps = []
    for d, ty in parents:
        w = len(info.levels.get(d, []))
        if steps:
            w = max(1, w // max(1, len(info.levels.get(steps[0][0], []))))
        r = rng.random()
        rg = ("one", rng.randrange(max(w, 1))) if r < 0.6 else ("all",) if r < 0.8 else gen_range(rng, w)
        steps.append((d, ty, type_spelling(rng, info, d, ty), rg))
    r = rng.random()
    nn = max(1, len(info.levels.get(-3, [])))
    rg = ("all",) if r < 0.5 else ("one", rng.randrange(min(nn, 3))) if r < 0.8 else gen_range(rng, min(nn, 4))
    steps.append(add_filter(rng, info, (-3, 14, type_spelling(rng, info, -3, 14), rg), 0.6))
    return steps


def gen_path(rng, info, deeper_only=True):
    lv = info.usable_levels()
    n = rng.choice([1, 1, 1, 2, 2, 3])
    normal = [x for x in lv if x[0] >= 0]
    steps = []
    cur = -1
    for k in range(n):
        if deeper_only:
            cands = [x for x in normal if x[0] > cur]
            if k == 0 or rng.random() < 0.25:
                cands = cands + [x for x in lv if x[0] < 0 and not any(s[0] < 0 for s in steps)]
        else:
            cands = lv
        if not cands:
            break
        d, ty = rng.choice(cands)
        if d >= 0:
            cur = d
        width = len(info.levels.get(d, []))
        if steps:
            width = max(1, width // max(1, len(info.levels.get(steps[0][0], [])) or 1))
        steps.append(add_filter(rng, info, (d, ty, type_spelling(rng, info, d, ty), gen_range(rng, width)), 0.4))
    return steps


def path_text(steps):
    return ".".join("%s:%s" % (s[2], range_text(s[3])) for s in steps)


def gen_set_arg(rng, info, nodeset, fmt=None):
    """text of a set argument, in the given input format (None: any, the tool guesses)"""
    n = max(1, len(info.levels.get(-3, [])) if nodeset else info.npus())
    bits = [i for i in range(n + 2) if rng.random() < 0.4]
    if not bits:
        bits = [rng.randrange(n)]
    v = sum(1 << b for b in bits)
    r = rng.random()
    if fmt == "list":
        parts = []
        i = 0
        sb = sorted(bits)
        while i < len(sb):
            j = i
            while j + 1 < len(sb) and sb[j + 1] == sb[j] + 1:
                j += 1
            parts.append("%d" % sb[i] if i == j else "%d-%d" % (sb[i], sb[j]))
            i = j + 1
        if r < 0.1:
            parts[-1] = parts[-1].split("-")[0] + "-"
        return ",".join(parts)
    if fmt == "taskset":
        return ("0x%x" % v) if r < 0.6 else ("%x" % v) if r < 0.9 else "0xf...f%x" % v
    if fmt == "hwloc":
        r = r * 0.7
    if r < 0.35:
        return "0x%x" % v
    if r < 0.5:
        return "0x%08x" % v
    if r < 0.6 and v >= (1 << 32):
        return "0x%x,0x%08x" % (v >> 32, v & 0xffffffff)
    if r < 0.7:
        return "0xf...f,0x%08x" % (v & 0xffffffff)
    # list format needs a '-' to be guessed as a list
    lo = min(bits)
    hi = max(bits)
    if r < 0.9 and hi > lo:
        return "%d-%d" % (lo, hi)
    if r < 0.95:
        return "%d-" % lo
    return "%x" % v                  # bare hex digits: taskset


FORMATS = ["hwloc", "list", "taskset"]


def gen_cmdline(rng, info, spec_only=False, mem=False):
    """A structured hwloc-calc command line after the -i option.  Returns a dict:
       args: list of strings; ast: list of items in order (("opt", name[, value]) | ("loc", mode, kind, payload))
       out: the output mode."""
    items = []
    nloc = rng.choice([1, 1, 2, 2, 3, 4])
    modes = ["", "", "", "~", "x", "^"]
    pre = []
    # index / set-kind options placed before, between or after the locations (they apply from there on)
    for o in ["-p", "--pi", "--po", "-l", "-n", "--ni", "--no", "-q"]:
        if rng.random() < (0.10 if o != "-q" else 0.3):
            pre.append(("opt", o))
    has_numa = bool(info.levels.get(-3))
    mem = mem and has_numa
    if mem and not any(o[1] in ("-n", "--no") for o in pre) and rng.random() < 0.6:
        pre.append(("opt", rng.choice(["-n", "--no", "--no"])))
    cif = None
    if rng.random() < 0.15:
        cif = rng.choice(FORMATS)
    locs = []
    for k in range(nloc):
        mode = rng.choice(modes) if k else rng.choice(["", "", "", "", "~", "x", "^"])
        r = rng.random()
        if r < 0.12:
            locs.append(("loc", mode, "all", rng.choice(["all", "root"])))
        elif mem and r < 0.65:
            locs.append(("loc", mode, "path", gen_mem_path(rng, info)))
        elif r < 0.78:
            locs.append(("loc", mode, "path", gen_path(rng, info, deeper_only=spec_only or rng.random() < 0.8)))
        else:
            nodeset = any(i[1] in ("-n", "--ni") for i in pre)
            locs.append(("loc", mode, "set", gen_set_arg(rng, info, nodeset, cif)))
    # output mode
    out = ("set",)
    r = rng.random()
    lv = info.usable_levels()
    olv = info.output_levels()
    special = [x for x in olv if x[0] < 0 and x[0] != -3]
    if special and r < 0.30:
        # every special level: memory-side caches (selected by NODESET), I/O and Misc objects (by the cpuset of
        # their first ancestor that has one)
        d, ty = rng.choice(special + [x for x in special if x[0] == -8] * 2)
        out = (rng.choice(["I", "N"]), type_spelling(rng, info, d, ty), d)
    elif mem and r < 0.45:
        out = (rng.choice(["I", "N"]), type_spelling(rng, info, -3, 14), -3)
    elif r < 0.14:
        out = ("largest",)
    elif r < 0.28:
        d, ty = rng.choice(olv)
        out = ("I", type_spelling(rng, info, d, ty), d)
    elif r < 0.40:
        d, ty = rng.choice(olv)
        out = ("N", type_spelling(rng, info, d, ty), d)
    elif r < 0.50:
        normal = sorted(set(x for x in lv if x[0] >= 0))
        k = rng.choice([1, 2, 2, 3])
        pick = sorted(rng.sample(normal, min(k, len(normal))))
        out = ("H", ".".join(type_spelling(rng, info, d, ty) for d, ty in pick), [d for d, _ in pick])
        if rng.random() < 0.5:
            # a small set: a few neighbouring PU numbers (below / between the strides of an interleaved numbering)
            n = max(1, info.npus())
            lo = rng.randrange(n)
            v = 0
            for b in range(lo, min(n, lo + rng.choice([1, 1, 2, 3]))):
                v |= 1 << b
            locs = [("loc", "", "set", "0x%x" % v)]
    if out[0] in ("I", "N") and info.tdepth.get(dict(olv).get(out[2], -1), None) == out[2] or (out[0] in ("I", "N") and out[2] == -3):
        fl = level_filters(info, out[2])
        if fl and rng.random() < 0.5:
            flt = rng.choice(fl)
            ty = dict(olv)[out[2]]
            text = rng.choice(SPELL.get(ty, [TYPE_NAMES[ty]])) + filter_text(rng, flt)
            if len(text) <= 20:
                out = (out[0], text, out[2], flt)
    post = []
    if out[0] == "set":
        r = rng.random()
        if r < 0.2:
            post.append(("opt", "--taskset"))
        elif r < 0.5:
            post.append(("opt", rng.choice(["--cof", "--cpuset-output-format"]), rng.choice(FORMATS)))
        elif r < 0.55:
            post.append(("opt", "--nof", rng.choice(FORMATS)))
    elif out[0] == "largest":
        post.append(("opt", "--largest"))
    elif out[0] == "I":
        post.append(("opt", rng.choice(["-I", "--intersect"]), out[1]))
    elif out[0] == "N":
        post.append(("opt", rng.choice(["-N", "--number-of"]), out[1]))
    elif out[0] == "H":
        post.append(("opt", rng.choice(["-H", "--hierarchical"]), out[1]))
    if rng.random() < 0.12:
        post.append(("opt", "--single"))
    if out[0] in ("I", "largest", "H") and rng.random() < 0.25:
        post.append(("opt", "--sep", rng.choice([" ", ",", ";", "::", ""])))
    if out[0] == "I" and rng.random() < 0.25:
        post.append(("opt", "--oo"))
    # interleave: options may come anywhere; those in `pre` keep their relative order
    seq = list(locs)
    for o in pre + post:
        seq.insert(rng.randrange(len(seq) + 1), o)
    if cif:
        seq.insert(0, ("opt", rng.choice(["--cif", "--cpuset-input-format"]), cif))
    args = []
    for it in seq:
        if it[0] == "opt":
            args.extend(it[1:])
        else:
            args.append(loc_text(it))
    return {"args": args, "ast": seq, "out": out}


def loc_text(it):
    _, mode, kind, payload = it
    if kind == "all":
        return mode + payload
    if kind == "path":
        return mode + path_text(payload)
    return mode + payload


# ---------------------------------------------------------------------------
# malformed stream
HOSTILE_LOCS = [
    "", ":", "=", ".", "[", "]", "core", "core:", "core:.", "core:0.", "core:0..pu:0", "core:0.pu", "core:0.pu:", "core:0.pu=0",
    "core:zz", "core:-1", "core:0-zz", "core:0:zz", "core:0:", "core:1:0x2", "core:0-1-2", "core::", "core:0:1:2",
    "core[", "core[]:0", "core[x]:0", "numa[tier=]:0", "numa[tier=1]:0", "numa[subtype=]:0", "pci[:]:0", "pci[zz:zz]:0", "pci=zz", "os=zz", "misc=zz",
    "os:0", "pci:0", "bridge:0", "misc:0", "pci:0.core:0", "os[", "os[gpu", "osdev[net]:0",
    "hbm:0", "mcdram:all", "~", "x", "^", "~~pu:0", "x~all", "^^root", "xall", "~root",
    "0x", "0xg", "0x,", ",", "0x1,,0x2", "1-", "-1", "1-0", "0-1,", "f...f", "0xf...f", "0xf...f,", "0xf...f,0xf...f",
    "99999999999999999999:0", "4294967295:0", "4294967293:0", "4294967292:0", "-1:0", "+1:0", " 1:0", "0x1:0", "01:0",
    "pu:4294967296", "pu:4294967297", "pu:0-4294967295", "pu:99999999999999999999", "pu:0:4294967297",
    "pu:3-0", "pu:3-1", "pu:3-2", "pu:0:-1", "pu:0:-5", "pu:99-", "core:7-.pu:0", "pu:1:0", "pu=2-", "pu=1-0",
    "a" * 20 + ":0", "a" * 21 + ":0", "core:" + "1" * 64, "core:" + "1" * 65, "core:0." + "b" * 30 + ":0",
    "pu:all.core:0", "pu:0.machine:0", "core:allx", "core:oddity", "core:evenmore", "core:al", "pu:0.pu:0.pu:0.pu:0.pu:0",
    "l9:0", "l0:0", "l1x:0", "group9:0", "group:0", "gr:0", "L2:all", "\xe0\xe0:0", "pu\xe0:0", "root:0", "all:0", "machine:all.all",
]
# classes known to loop ~2^32 times or to hit assert(): kept out of the streams that run to completion
# (they are exercised, with a timeout, from corpus/c20)
HANG_RE = re.compile(r"[:=]\d+:-\d+")

BAD_OPTIONS = [
    ["--bogus"], ["-Z"], ["-"], ["--"], ["--cof"], ["--cof", "bogus"], ["--cif"], ["--cif", "bogus"], ["--cif", "systemd-dbus-api"],
    ["--sep"], ["-I"], ["-N"], ["-H"], ["--number-of"], ["--intersect"], ["--hierarchical"], ["--nof", "zz"],
    ["--best-memattr"], ["--local-memory-flags"], ["-i"], ["--disallowed"], ["--whole-system"],
]
# accepted by the parser, but the request cannot be honoured: what exit status says is recorded
ODD_OPTIONS = [
    ["-I", "bogus"], ["-N", "bogus"], ["-H", "bogus"], ["-H", "core.bogus"], ["-H", "pu.core"], ["-H", ""], ["-H", "."], ["-H", "core."],
    ["-I", "os"], ["-N", "pci"], ["-H", "os"], ["-I", ""], ["-N", "999"], ["-I", "-3"], ["-N", "memorytier"], ["-I", "cpukind"], ["-I", "numa[tier=0]"],
    ["--cof", "systemd-dbus-api"], ["--best-memattr", "bogus"], ["--local-memory"], ["--no-smt"], ["--no-smt=1"], ["--no-smt=zz"], ["--default-nodes"],
    ["--local-memory-flags", "zz"], ["--best-memattr", "capacity"], ["-v"], ["-v", "-v"], ["--oo"], ["--largest", "-n"], ["--no", "--largest"],
]


def absurd_set_token(t, cif_list=False):
    """a set argument that the LIST parser reads as a negative or huge number: hwloc_bitmap_list_sscanf uses
    strtoul, so "-3" is 2^64-3, truncated to the bit index 2^32-3; "2--3" is then a range of 2^32 bits (half a
    gigabyte of bitmap that hwloc-calc spends minutes building and printing).  Same rule as ocaml/drv_c20.ml."""
    if re.search(r"[:=]", t):
        return False
    u = t[1:] if t[:1] in ("~", "x", "^") else t
    if u in ("all", "root"):
        return False
    if u.lower().startswith("0x") and not cif_list:
        return False
    if "-" not in u and not cif_list:
        return False
    # also "08-11": strtoul base 0 stops after the 0 of an invalid octal number and the parser resynchronises on "-11"
    return bool(re.search(r"(^|[^0-9])-[0-9]|[0-9]{7}|0[xX][0-9a-fA-F]{6}|(^|[^0-9a-fA-FxX])0[0-7]*[89]", u))


def mutate(rng, s):
    chars = ":=.[]-~x^,0123456789afxX lLgG"
    b = list(s)
    for _ in range(rng.choice([1, 1, 2, 3])):
        r = rng.random()
        if r < 0.3 and b:
            del b[rng.randrange(len(b))]
        elif r < 0.7:
            b.insert(rng.randrange(len(b) + 1), rng.choice(chars))
        elif b:
            b[rng.randrange(len(b))] = rng.choice(chars)
    t = "".join(b)
    return t


def gen_malformed_loc(rng, info):
    r = rng.random()
    if r < 0.4:
        return rng.choice(HOSTILE_LOCS)
    base = loc_text(("loc", "", "path", gen_path(rng, info, deeper_only=False))) if r < 0.8 else gen_set_arg(rng, info, False)
    return mutate(rng, base)


def gen_stdin_case(rng, info, mem=False, hang=None):
    """hwloc-calc in stdin mode: only options on the command line, 2..6 lines of locations on stdin
    (empty lines, lines whose tokens all fail to parse, long lines beyond the 64-byte line buffer)."""
    base = gen_cmdline(rng, info, mem=mem)
    opts = [it for it in base["ast"] if it[0] == "opt" and it[1] not in ("--cif", "--cpuset-input-format")]
    args = []
    for it in opts:
        args.extend(it[1:])
    nlines = rng.choice([2, 2, 3, 4, 6])
    lines = []
    texts = []
    for _ in range(nlines):
        r = rng.random()
        if r < 0.12:
            lines.append([])
            texts.append(rng.choice(["", " ", "   "]))
            continue
        nl = rng.choice([1, 1, 2, 3, 3, 8, 14])
        locs = []
        while len(locs) < nl:
            locs += [it for it in gen_cmdline(rng, info, mem=mem)["ast"] if it[0] == "loc"]
        locs = locs[:nl]
        toks = [loc_text(it) for it in locs]
        line_ast = list(locs)
        if r < 0.35:
            # some tokens that do not parse (no syntax tree for such a line: compared with the model only)
            bad = [t for t in (gen_malformed_loc(rng, info) for _ in range(3))
                   if t and not any(c in t for c in " \n\t\r\x00") and not (hang and hang([t]))
                   # no absurd bit indexes in set-like tokens ("-9" is the list 2^64-9, "0-4294967295" half a gigabyte of bitmap)
                   and not absurd_set_token(t)]
            if r < 0.2:
                toks = bad or ["zz"]
            else:
                for b in bad[:2]:
                    toks.insert(rng.randrange(len(toks) + 1), b)
            line_ast = None
        lines.append(line_ast)
        sep = rng.choice([" ", " ", "  "])
        texts.append((" " if rng.random() < 0.1 else "") + sep.join(toks) + (" " if rng.random() < 0.1 else ""))
    # the last line may lack its newline, unless it is empty (it would not be a line at all)
    text = "\n".join(texts) + ("\n" if (texts[-1] == "" or rng.random() < 0.85) else "")
    return {"args": args, "opts": opts, "lines": lines, "line_texts": texts, "stdin": text, "out": base["out"]}
