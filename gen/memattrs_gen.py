"""C14 (memory attributes): case generator, reference spec checker, shrinker.

Python stdlib only.  Three layers:
  * script / transcript parsing (case files for harness/hwv_memattrs.c, and
    their rewriting into the model-driver script),
  * `Ref`: the reference table of section 3 of the C14 brief, evaluated on the
    C outputs (independent of the Coq model),
  * `OpGen` / `generate`: interactive generation (the harness is driven line
    by line so that object gp indexes and post-restrict tables are known), and
    `ddmin` shrinking.
"""
import os
import select
import signal
import subprocess
import tempfile
from collections import Counter, namedtuple

NI, HI, LO = 4, 1, 2
U64 = 2 ** 64 - 1
PREDEF = [("Capacity", 1), ("Locality", 2), ("Bandwidth", 5), ("Latency", 6), ("ReadBandwidth", 5),
          ("WriteBandwidth", 5), ("ReadLatency", 6), ("WriteLatency", 6)]
DEFAULT_TYPES = {"machine": 0, "package": 1, "die": 2, "core": 3, "pu": 4, "group": 13, "numa": 14, "misc": 19, "idmax": 8}
UNINIT_KEY = "crash:uninit-object-initiator-cache"

Obj = namedtuple("Obj", "type gp os own cpuset mem subtype")


def name_bytes(tok):
    """attribute-name token -> bytes (%XX escapes, @empty)"""
    if tok == "@empty":
        return b""
    out, i = bytearray(), 0
    while i < len(tok):
        if tok[i] == "%" and i + 2 < len(tok) and all(c in "0123456789abcdefABCDEF" for c in tok[i + 1:i + 3]) and len(tok[i + 1:i + 3]) == 2:
            out.append(int(tok[i + 1:i + 3], 16))
            i += 3
        else:
            out += tok[i].encode("utf-8")
            i += 1
    return bytes(out)


def name_token(b):
    """bytes -> canonical token (the harness and the model driver print names the same way)"""
    if not b:
        return "@empty"
    return "".join(chr(c) if (chr(c).isascii() and (chr(c).isalnum() or chr(c) in "_.+-")) else "%%%02X" % c for c in b)


def xml_safe_token(tok):
    """hwloc__xml_export_safestrdup(): bytes outside 32..126 / tab / LF / CR are dropped from the exported name"""
    return name_token(bytes(c for c in name_bytes(tok) if 32 <= c <= 126 or c in (9, 10, 13)))


class BadCase(Exception):
    pass


# ---------------------------------------------------------------- sets

def pset(s):
    if not s.startswith("0x") or len(s) < 3 or len(s) > 66:
        raise BadCase(s)
    try:
        return int(s[2:], 16)
    except ValueError:
        raise BadCase(s)


def fset(i):
    return "0x%x" % i


def popcount(i):
    return bin(i).count("1")


def bits(i):
    res, k = [], 0
    while i:
        if i & 1:
            res.append(k)
        i >>= 1
        k += 1
    return res


# ---------------------------------------------------------------- topology tables

class Topo:
    def __init__(self, tlines):
        self.root = 0
        self.objs = []
        self.lines = list(tlines)
        for l in tlines:
            f = l.split(" ")
            if f[1] == "root":
                self.root = pset(f[2])
            elif f[1] == "obj":
                self.objs.append(Obj(int(f[2]), int(f[3]), int(f[4]), int(f[5]), pset(f[6]), int(f[7]), f[8]))
        self.bygp = {o.gp: o for o in self.objs}

    def sig(self):
        return (self.root, tuple(self.objs))

    def of_type(self, t):
        return [o for o in self.objs if o.type == t]


# ---------------------------------------------------------------- scripts and transcripts

class Case:
    def __init__(self, name, header, ops, meta=None):
        self.name, self.header, self.ops = name, list(header), list(ops)
        self.meta = dict(meta or {})

    def lines(self):
        meta = ["#meta " + " ".join("%s=%s" % kv for kv in sorted(self.meta.items()))] if self.meta else []
        return ["case " + self.name] + meta + self.header + ["start"] + self.ops + ["end"]

    def text(self):
        return "\n".join(self.lines()) + "\n"


def parse_cases(text):
    """Case file -> [Case].  Blank lines and '#' lines ignored; '#meta k=v' kept as meta."""
    cases, cur, started = [], None, False
    for raw in text.split("\n"):
        l = raw.rstrip("\r")
        if l.startswith("#meta ") and cur is not None:
            for kv in l[6:].split():
                if "=" in kv:
                    k, v = kv.split("=", 1)
                    cur.meta[k] = v
            continue
        if not l.strip() or l.startswith("#"):
            continue
        if l.startswith("case "):
            cur, started = Case(l[5:], [], []), False
            cases.append(cur)
        elif cur is None:
            continue
        elif l == "start" and not started:
            started = True
        elif l == "end":
            cur = None
        elif l == "sync":
            continue
        elif started:
            cur.ops.append(l)
        else:
            cur.header.append(l)
    return cases


class Trans:
    """Parsed C transcript of one case."""

    def __init__(self, lines):
        self.lines = list(lines)
        self.pre_tables = []     # tables printed before the first R line (show..., start)
        self.results = []        # [rline, Topo|None]
        self.mlines = {}         # result index (-1 = before the first R line) -> ["M ..."]
        self.ended = False
        self.plines = []
        tab = None
        for l in lines:
            if l == "T begin":
                tab = []
            elif l == "T end":
                try:
                    t = Topo(tab or [])
                except (BadCase, ValueError, IndexError):
                    t = None
                if self.results:
                    self.results[-1][1] = t
                else:
                    self.pre_tables.append(t)
                tab = None
            elif tab is not None and l.startswith("T "):
                tab.append(l)
            elif l.startswith("R "):
                self.results.append([l, None])
            elif l.startswith("M "):
                self.mlines.setdefault(len(self.results) - 1, []).append(l)
            elif l.startswith("E "):
                self.ended = True
            elif l.startswith("P "):
                self.plines.append(l)

    def start_table(self):
        return self.pre_tables[-1] if self.pre_tables else None


def split_output(text):
    """Harness stdout -> (types, {case name: [lines]}, order)."""
    types, per, order, cur = dict(DEFAULT_TYPES), {}, [], None
    ls = text.split("\n")
    if ls and ls[-1]:
        ls[-1] = "X " + ls[-1]      # incomplete last line of a process that died
    for l in ls:
        if l.startswith("P types "):
            for kv in l[8:].split():
                k, v = kv.split("=")
                types[k] = int(v)
        elif l.startswith("P case "):
            cur = l[7:]
            per[cur] = []
            order.append(cur)
        elif l == "S" or not l:
            continue
        elif cur is not None:
            per[cur].append(l)
    return types, per, order


def table_model_lines(topo, stmap):
    out = ["T begin", "T root " + fset(topo.root)]
    for o in topo.objs:
        if o.subtype == "-":
            sid = 0
        else:
            sid = stmap.setdefault(o.subtype, len(stmap) + 1)
        out.append("T obj %d %d %d %d %s %d %d" % (o.type, o.gp, o.os, o.own, fset(o.cpuset), o.mem, sid))
    out.append("T end")
    return out


def model_script(case, trans):
    """Rewrite a case + its C transcript into the model-driver script.
    Returns (lines, idx) where idx[j] = index of the op whose R line the j-th
    model R line corresponds to."""
    stmap, idx = {}, []
    st = trans.start_table()
    out = ["case " + case.name]
    if "include_disallowed" in case.header:
        out.append("incl 1")
    if any(h.startswith("topoflag ") and "no_memattrs" in h.split(" ")[1:] for h in case.header):
        out.append("nomem 1")
    if st is not None:
        out += table_model_lines(st, stmap)
    out.append("start")
    for i, op in enumerate(case.ops):
        if i >= len(trans.results):
            break
        r, tab = trans.results[i]
        w = op.split(" ")[0]
        if w in ("restrict", "dup", "xml", "xmlt", "xmlnf"):
            if not r.startswith("R %s rc=0 " % w) or tab is None:
                continue
            out += table_model_lines(tab, stmap)
            out.append({"restrict": "retopo", "dup": "dupsw", "xml": "xmlsw", "xmlt": "xmltsw", "xmlnf": "xmlnfsw"}[w])
        else:
            out.append(op)
        idx.append(i)
    out.append("end")
    return out, idx


def split_model_output(text):
    per, cur = {}, []
    for l in text.split("\n"):
        if l.startswith("R "):
            cur.append(l)
        elif l.startswith("E "):
            per[l[2:]] = cur
            cur = []
    return per, cur   # cur = R lines of an unfinished case (driver died)


# ---------------------------------------------------------------- reference spec

class Exp:
    """Expectation for one op: `text` exact R line (None = not predicted),
    `check` predicate on the actual line, `ub` (str) when the call has
    undefined behaviour in the C code, `apply(rline, table)` state update."""

    def __init__(self, text=None, check=None, ub=None, apply=None, info=None):
        self.text, self.check, self.ub, self.apply, self.info = text, check, ub, apply, info or {}


def fail(op, err="EINVAL"):
    return Exp("R %s rc=-1 err=%s" % (op, err))


def p_u64(s, lim=U64):
    if not s or not s.isdigit() or not s.isascii():
        raise BadCase(s)
    v = int(s)
    if v > lim:
        raise BadCase(s)
    return v


def valid_init(init):
    return init is not None and (init[0] == "o" or (init[0] == "c" and init[1] != 0))


def key_match(key, init):
    """does the (valid) query/set location `init` match the stored key?"""
    if key is None or key[0] != init[0]:
        return False
    if key[0] == "c":
        return init[1] & ~key[1] == 0
    return key[1] == init[1] and key[2] == init[2]


def fmt_key(k):
    return "c:" + fset(k[1]) if k[0] == "c" else "o:%d:%d" % (k[1], k[2])


class Target:
    def __init__(self, gp, type_):
        self.gp, self.type, self.keys = gp, type_, []   # keys: [key, value, uninit]
        self.pending = False   # created by os_index through the internal call, gp_index not resolved yet (until a refresh)


class Ref:
    def __init__(self, types=None):
        self.types = dict(types or DEFAULT_TYPES)
        self.NUMA = self.types["numa"]
        self.attrs = [list(a) for a in PREDEF]
        self.ent = {i: [] for i in range(len(PREDEF))}
        self.topo = None
        self.taint = set()
        self.unchecked = set()
        self.internal = False
        self.hazard = set()
        self.flags = set()
        self.stats = Counter()
        # mirror of the C-side cache state, only used to recognise calls with undefined behaviour
        self.dupos_attrs = set()   # attributes holding a target whose (type, os_index) is not unique: known finding, model diff only
        self.strict_dupos = False  # corpus/c14/07 pins that finding: judge it there
        self.nomem = False   # topology loaded with HWLOC_TOPOLOGY_FLAG_NO_MEMATTRS: no predefined attributes, user ids start at 0
        self.incl = False    # topology loaded with HWLOC_TOPOLOGY_FLAG_INCLUDE_DISALLOWED (header line include_disallowed)
        self.infos = {}      # NUMA gp -> {info name: value} given by `info` header lines (exported/imported by XML)
        self.load_env = {}   # memory-tier variables set while the synthetic topology was loaded
        self.valid = {}      # id -> CACHE_VALID
        self.cnt = {}        # id -> C-side nr_targets (stale entries included)
        self.alloc = {}      # id -> targets array non-NULL
        self.doomed = None   # set once a call with delayed undefined behaviour was made

    def touch(self, id_):
        """the C code reaches `if (!CACHE_VALID) refresh` for this attribute"""
        if not self.isconv(id_) and not self.valid.get(id_, True):
            self.valid[id_] = True
            for tg in self.ent[id_]:
                tg.pending = False
            self._filter_attr(id_, self.topo, Counter())   # no-op unless out-of-root keys were stored
            self.cnt[id_] = len(self.ent[id_])

    def dup_hazard(self):
        # fixed in /repo 4d6acad: dup clears the copied targets pointer of attributes without targets.
        # (alloc/cnt are still tracked; the `dupfree` stream keeps exercising exactly that state.)
        return False

    def _touching(self, id_, e):
        if e.apply is None:
            e.apply = lambda r, tab: self.touch(id_)
        return e

    # -- helpers
    def numa(self):
        return self.topo.of_type(self.NUMA)

    def isconv(self, id_):
        """Capacity / Locality (ids 0 and 1 of the predefined attributes; they do not exist under NO_MEMATTRS)"""
        return not self.nomem and id_ < 2

    @property
    def nconv(self):
        return 0 if self.nomem else 2

    def conv(self, id_, o):
        return o.mem if id_ == 0 else popcount(o.cpuset)

    def dup_os(self, o):
        """another object of the same type has the same os_index (never true for NUMA nodes and PUs)"""
        return o.os != -1 and any(x.type == o.type and x.os == o.os and x.gp != o.gp for x in self.topo.objs)

    def find(self, id_, gp):
        for tg in self.ent.get(id_, []):
            if tg.gp == gp:
                return tg
        return None

    def attr_unchecked(self, id_):
        return self.internal or id_ in self.dupos_attrs or any(i == id_ for (i, g) in self.unchecked)

    def pair_unchecked(self, id_, gp):
        return self.internal or id_ in self.dupos_attrs or (id_, gp) in self.unchecked

    def p_id(self, s):
        return p_u64(s, 0xffffffff)

    def p_tgt(self, s):
        if s == "-":
            return None
        gp = p_u64(s)
        if gp not in self.topo.bygp:
            raise BadCase(s)
        return self.topo.bygp[gp]

    def p_loc(self, s):
        if s == "-":
            return None
        if s in ("n", "b", "on"):
            return (s,)
        if s.startswith("c:"):
            return ("c", pset(s[2:]))
        if s.startswith("o:"):
            gp = p_u64(s[2:])
            if gp not in self.topo.bygp:
                raise BadCase(s)
            return ("o", self.topo.bygp[gp].type, gp)
        raise BadCase(s)

    def cands(self, id_, init, for_best=False):
        if self.isconv(id_):
            return [(o.gp, self.conv(id_, o)) for o in self.numa()]
        if id_ >= len(self.attrs):
            return []
        fl, res = self.attrs[id_][1], []
        for tg in self.ent[id_]:
            if fl & NI:
                if init is None:
                    if not for_best:
                        res.append((tg.gp, 0))
                elif valid_init(init):
                    for k in tg.keys:
                        if key_match(k[0], init):
                            res.append((tg.gp, k[1]))
                            break
            else:
                res.append((tg.gp, tg.keys[0][1]))
        return res

    @staticmethod
    def best(cands, flags):
        b = None
        for c in cands:
            if b is None or (c[1] > b[1] if flags & HI else c[1] < b[1]):
                b = c
        return b

    # -- events
    def ev_newtarget(self, id_):
        for (i, g) in list(self.taint):
            if i == id_:
                self.unchecked.add((i, g))
        for tg in self.ent[id_]:
            for k in tg.keys:
                k[2] = False

    def _filter_attr(self, id_, topo, st):
        """what a refresh does to one attribute: drop targets / object keys that no longer exist,
        intersect cpuset keys with the root cpuset and drop the empty ones"""
        ni = self.attrs[id_][1] & NI
        root, keep = topo.root, []
        for tg in self.ent[id_]:
            o = topo.bygp.get(tg.gp)
            if o is None or o.type != tg.type:
                st["vanished_targets"] += 1
                st["vanished_keys"] += len(tg.keys)
                continue
            if ni:
                nk = []
                for k in tg.keys:
                    key = k[0]
                    if key[0] == "c":
                        c = key[1] & root
                        if not c:
                            st["vanished_keys"] += 1
                            continue
                        if c != key[1]:
                            st["shrunk_keys"] += 1
                        nk.append([("c", c), k[1], False])
                    else:
                        oo = topo.bygp.get(key[2])
                        if oo is None or oo.type != key[1]:
                            st["vanished_keys"] += 1
                            continue
                        nk.append([key, k[1], False])
                tg.keys = nk
                if not nk:
                    st["vanished_targets"] += 1
                    continue
            keep.append(tg)
        self.ent[id_] = keep

    def retopo(self, topo, how="restrict"):
        self.unchecked |= self.taint
        self.hazard.clear()
        if how == "xml" and self.nomem:
            # the importing topology has NO_MEMATTRS too: hwloc__xml_import_memattr ignores every attribute
            self.attrs, self.ent, self.valid, self.cnt, self.alloc = [], {}, {}, {}, {}
        if how == "xml" and not self.nomem:
            # exported names keep only XML-valid bytes (hwloc__xml_export_safestrdup).  The importer looks every
            # exported attribute up by that name: an existing one with the same flags receives the values (replayed
            # as sets), one with other flags makes them vanish, otherwise the attribute is registered again.
            new = [a[0] if i < 8 else xml_safe_token(a[0]) for i, a in enumerate(self.attrs)]
            if len(set(new)) != len(new):
                self.flags.add("xmlname-collision")
                self.stats["xml_name_collisions"] += 1
                for id_ in range(2, len(self.attrs)):
                    self.touch(id_)                       # the export refreshes first
                old_attrs, old_ent = self.attrs, self.ent
                self.attrs = [list(a) for a in old_attrs[:8]]
                self.ent = {i: old_ent.get(i, []) for i in range(8)}
                for i in range(8, len(old_attrs)):
                    nm, fl = new[i], old_attrs[i][1]
                    j = next((k for k, a in enumerate(self.attrs) if a[0] == nm), None)
                    if j is None:
                        self.attrs.append([nm, fl])
                        j = len(self.attrs) - 1
                        self.ent[j] = []
                        self.valid[j], self.cnt[j], self.alloc[j] = True, 0, False
                        self.ent[j] = old_ent.get(i, [])
                        continue
                    self.dupos_attrs.add(j)               # merged values: left to the model diff
                    if j >= 2 and self.attrs[j][1] == fl:
                        for tg in old_ent.get(i, []):
                            for k in tg.keys:
                                self.do_set(j, tg.gp, tg.type, k[0], k[1], count=False)
                for j in list(self.valid):
                    if j >= len(self.attrs):
                        self.valid.pop(j, None); self.cnt.pop(j, None); self.alloc.pop(j, None)
            elif new != [a[0] for a in self.attrs]:
                self.stats["xml_renamed_attrs"] += 1
                for a, n in zip(self.attrs, new):
                    a[0] = n
        for id_ in range(self.nconv, len(self.attrs)):
            if how == "xml":
                # since /repo 16e3604 the export refreshes every attribute first (hwloc__xml_export_memattrs):
                # targets entered by os_index get their gp_index, stale entries and out-of-root cpusets are dropped
                self.touch(id_)
                self.alloc[id_] = self.cnt.get(id_, 0) > 0
            else:
                self.valid[id_] = False
            self._filter_attr(id_, topo, self.stats)
            if how == "xml":
                self.valid[id_] = True
                self.cnt[id_] = len(self.ent[id_])
        self.topo = topo

    # -- expectations
    def expect(self, line):
        t = line.split(" ")
        fn = getattr(self, "x_" + t[0], None)
        if fn is None or self.topo is None:
            return Exp("R %s rc=-1 err=BADCASE" % t[0])
        try:
            return fn(t)
        except BadCase:
            return Exp("R %s rc=-1 err=BADCASE" % t[0])

    def x_reg(self, t):
        if len(t) != 3:
            raise BadCase()
        flags = p_u64(t[2])
        if flags & ~7 or (flags & 3) not in (1, 2) or t[1] == "@null":
            return fail("reg")
        if any(a[0] == t[1] for a in self.attrs):
            return fail("reg", "EBUSY")
        id_ = len(self.attrs)

        def ap(r, tab):
            self.attrs.append([t[1], flags])
            self.ent[id_] = []
            self.valid[id_], self.cnt[id_], self.alloc[id_] = True, 0, False
        return Exp("R reg rc=0 err=OK id=%d" % id_, apply=ap)

    def x_getbyname(self, t):
        if len(t) != 2:
            raise BadCase()
        for i, a in enumerate(self.attrs):
            if a[0] == t[1]:
                return Exp("R getbyname rc=0 err=OK id=%d" % i)
        return fail("getbyname")

    def x_getflags(self, t):
        if len(t) != 2:
            raise BadCase()
        id_ = self.p_id(t[1])
        return Exp("R getflags rc=0 err=OK flags=%d" % self.attrs[id_][1]) if id_ < len(self.attrs) else fail("getflags")

    def x_getname(self, t):
        if len(t) != 2:
            raise BadCase()
        id_ = self.p_id(t[1])
        return Exp("R getname rc=0 err=OK name=%s" % self.attrs[id_][0]) if id_ < len(self.attrs) else fail("getname")

    def do_set(self, id_, gp, type_, init, value, count=True):
        ni = self.attrs[id_][1] & NI
        self.touch(id_)
        tg = self.find(id_, gp)
        created = tg is None
        if created:
            self.ev_newtarget(id_)
            self.valid[id_], self.alloc[id_] = False, True
            self.cnt[id_] = self.cnt.get(id_, 0) + 1
            tg = Target(gp, type_)
            self.ent[id_].append(tg)
        if not ni:
            tg.keys = [[None, value, False]]
            return
        for k in tg.keys:
            if key_match(k[0], init):
                k[1] = value
                if count:
                    self.stats["set_update_existing_key"] += 1
                return
        if init[0] == "c":
            s = init[1]
            bad = False
            if s & ~self.topo.root:
                self.flags.add("outside")
                bad = True
            if any(k[0][0] == "c" and k[0][1] & s for k in tg.keys):
                self.flags.add("overlap")
                bad = True
            if bad:
                self.taint.add((id_, gp))
                if created:
                    self.unchecked.add((id_, gp))
        # fixed in /repo c37319b: to_internal_location() now sets the cached object pointer,
        # so an object initiator appended to an existing (refreshed) target is well defined
        un = False
        if init[0] == "o" and self.internal:
            self.hazard.add(id_)
        tg.keys.append([init, value, un])
        # since /repo c3717fc an appended initiator invalidates the cache: the next access refreshes (and narrows /
        # drops a cpuset reaching outside the root cpuset).  Every reader and writer refreshes first, so the
        # reference applies that refresh right away.
        self.valid[id_] = False
        self.touch(id_)

    def x_set(self, t):
        if len(t) != 6:
            raise BadCase()
        id_, tgt, init, flags, value = self.p_id(t[1]), self.p_tgt(t[2]), self.p_loc(t[3]), p_u64(t[4]), p_u64(t[5])
        if flags or tgt is None:
            return fail("set")
        if init is not None and not valid_init(init):
            return fail("set")
        if id_ >= len(self.attrs) or self.isconv(id_):
            return fail("set")
        if self.attrs[id_][1] & NI and init is None:
            return fail("set")
        if self.dup_os(tgt) and not self.strict_dupos:
            # known finding (corpus/c14/07): targets of one type sharing an os_index (cores of different packages in
            # real machines' XML) are confused by hwloc__memattr_get_target; such attributes are left to the model diff
            def ap(r, tab):
                self.flags.add("dupos")
                self.stats["dup_os_index_targets"] += 1
                self.dupos_attrs.add(id_)
                self.do_set(id_, tgt.gp, tgt.type, init, value)
            return Exp("R set rc=0 err=OK", apply=ap)
        return Exp("R set rc=0 err=OK", apply=lambda r, tab: self.do_set(id_, tgt.gp, tgt.type, init, value))

    def x_iset(self, t):
        if len(t) != 7:
            raise BadCase()
        id_, type_, value = self.p_id(t[1]), p_u64(t[2]), p_u64(t[6])
        gp = None if t[3] == "-1" else p_u64(t[3])
        os_ = None if t[4] == "-1" else p_u64(t[4])
        s = t[5]
        if s == "-":
            init = None
        elif s.startswith("c:"):
            init = ("c", pset(s[2:]))
        elif s.startswith("oi:") and s.count(":") == 2:
            a, b = s[3:].split(":")
            init = ("o", p_u64(a), p_u64(b))
        else:
            raise BadCase()
        if id_ < 2 or id_ >= len(self.attrs) or (self.attrs[id_][1] & NI and init is None):
            return fail("iset")

        def ap(r, tab):
            self.internal = True
            self.flags.add("internal")
            self.touch(id_)
            if init is not None and init[0] == "o":
                self.hazard.add(id_)
            # best effort mirror (results are correspondence-only from here on)
            o = None
            if gp is not None:
                o = self.topo.bygp.get(gp)
            elif os_ is not None:
                o = next((n for n in self.topo.objs if n.type == type_ and n.os == os_), None)
            if not r.startswith("R iset rc=0"):
                return
            if o is not None and o.type == type_ and (not (self.attrs[id_][1] & NI) or (init[0] == "o" or init[1])):
                existed = self.find(id_, o.gp) is not None
                self.do_set(id_, o.gp, o.type, init, value, count=False)
                # (a target entered by os_index only gets its gp_index at the next refresh, which every access
                # and - since 16e3604 - the XML export perform: nothing to remember here)
            else:
                # a target the reference table cannot resolve: the C side allocates an entry that the next refresh drops
                self.ev_newtarget(id_)
                self.valid[id_], self.alloc[id_] = False, True
                self.cnt[id_] = self.cnt.get(id_, 0) + 1
        return Exp(None, apply=ap)

    def x_get(self, t):
        if len(t) != 5:
            raise BadCase()
        id_, tgt, init, flags = self.p_id(t[1]), self.p_tgt(t[2]), self.p_loc(t[3]), p_u64(t[4])
        if flags or tgt is None or id_ >= len(self.attrs):
            return fail("get")
        ok = lambda v, **kw: Exp("R get rc=0 err=OK v=%d" % v, info=kw)
        if id_ == 0 and not self.nomem:
            return ok(tgt.mem) if tgt.type == self.NUMA else fail("get")
        if id_ == 1 and not self.nomem:
            return ok(popcount(tgt.cpuset)) if tgt.own else fail("get")
        return self._touching(id_, self._get2(id_, tgt, init, ok))

    def _get2(self, id_, tgt, init, ok):
        if self.pair_unchecked(id_, tgt.gp):
            return Exp(None)
        tg = self.find(id_, tgt.gp)
        if tg is None:
            return fail("get")
        if not self.attrs[id_][1] & NI:
            return ok(tg.keys[0][1], hit=1)
        if not valid_init(init):
            return fail("get")
        for k in tg.keys:
            if key_match(k[0], init):
                return ok(k[1], hit=1)
        return fail("get")

    def x_targets(self, t):
        if len(t) != 7:
            raise BadCase()
        id_, init, flags, mx, tnull, wv = self.p_id(t[1]), self.p_loc(t[2]), p_u64(t[3]), p_u64(t[4], 4096), p_u64(t[5]), p_u64(t[6])
        if flags or (mx and tnull) or id_ >= len(self.attrs):
            return fail("targets")
        if not self.isconv(id_) and self.attr_unchecked(id_):
            return self._touching(id_, Exp(None))
        c = self.cands(id_, init)
        items = " ".join("%d:%s" % (g, v if wv else "-") for g, v in c[:mx])
        return self._touching(id_, Exp("R targets rc=0 err=OK nr=%d [%s]" % (len(c), items), info={"trunc": int(mx < len(c)), "n": len(c)}))

    def x_inits(self, t):
        if len(t) != 7:
            raise BadCase()
        id_, tgt, flags, mx, inull, wv = self.p_id(t[1]), self.p_tgt(t[2]), p_u64(t[3]), p_u64(t[4], 4096), p_u64(t[5]), p_u64(t[6])
        if flags or tgt is None or (mx and inull) or id_ >= len(self.attrs):
            return fail("inits")
        if not self.attrs[id_][1] & NI:
            return Exp("R inits rc=0 err=OK nr=0 []")
        tg = self.find(id_, tgt.gp)
        ub = None
        if mx and (id_ in self.hazard or (tg is not None and any(k[2] for k in tg.keys[:mx]))):
            ub = "uninit"
        if self.pair_unchecked(id_, tgt.gp):
            return self._touching(id_, Exp(None, ub=ub))
        if tg is None:
            return self._touching(id_, fail("inits"))
        items = " ".join("%s=%s" % (fmt_key(k[0]), k[1] if wv else "-") for k in tg.keys[:mx])
        return self._touching(id_, Exp("R inits rc=0 err=OK nr=%d [%s]" % (len(tg.keys), items), ub=ub,
                                       info={"trunc": int(mx < len(tg.keys)), "n": len(tg.keys)}))

    def x_bestt(self, t):
        if len(t) != 4:
            raise BadCase()
        id_, init, flags = self.p_id(t[1]), self.p_loc(t[2]), p_u64(t[3])
        if flags or id_ >= len(self.attrs):
            return fail("bestt")
        if not self.isconv(id_) and self.attr_unchecked(id_):
            return self._touching(id_, Exp(None))
        c = self.cands(id_, init, for_best=True)
        b = self.best(c, self.attrs[id_][1])
        if b is None:
            return self._touching(id_, fail("bestt", "ENOENT"))
        ties = sum(1 for x in c if x[1] == b[1])
        return self._touching(id_, Exp("R bestt rc=0 err=OK gp=%d v=%d" % b, info={"ties": int(ties > 1), "n": len(c)}))

    def x_besti(self, t):
        if len(t) != 4:
            raise BadCase()
        id_, tgt, flags = self.p_id(t[1]), self.p_tgt(t[2]), p_u64(t[3])
        if flags or tgt is None or id_ >= len(self.attrs) or not self.attrs[id_][1] & NI:
            return fail("besti")
        tg = self.find(id_, tgt.gp)
        b = None
        if tg is not None:
            for k in tg.keys:
                if b is None or (k[1] > b[1] if self.attrs[id_][1] & HI else k[1] < b[1]):
                    b = k
        ub = "uninit" if (id_ in self.hazard or (b is not None and b[2])) else None
        if self.pair_unchecked(id_, tgt.gp):
            return self._touching(id_, Exp(None, ub=ub))
        if tg is None:
            return self._touching(id_, fail("besti"))
        ties = sum(1 for k in tg.keys if k[1] == b[1])
        return self._touching(id_, Exp("R besti rc=0 err=OK i=%s v=%d" % (fmt_key(b[0]), b[1]), ub=ub, info={"ties": int(ties > 1), "n": len(tg.keys)}))

    def x_local(self, t):
        if len(t) != 5:
            raise BadCase()
        loc, flags, mx, nnull = self.p_loc(t[1]), p_u64(t[2]), p_u64(t[3], 4096), p_u64(t[4])
        if flags & ~7 or (mx and nnull):
            return fail("local")
        cs = None
        if loc is None:
            if not flags & 4:
                return fail("local")
        elif loc[0] == "b":
            return fail("local")
        elif loc[0] == "on":
            return Exp(None, ub="null-object")        # while (!obj->cpuset) on a NULL object
        elif loc[0] == "n":
            if not flags & 4:
                return Exp(None, ub="null-cpuset")
        elif loc[0] == "c":
            cs = loc[1]
        else:
            cs = self.topo.bygp[loc[2]].cpuset
        res = []
        for n in self.numa():
            if flags & 4 or (flags & 1 and cs & ~n.cpuset == 0) or (flags & 2 and n.cpuset & ~cs == 0) or n.cpuset == cs:
                res.append(n.gp)
        return Exp("R local rc=0 err=OK nr=%d [%s]" % (len(res), " ".join(map(str, res[:mx]))), info={"n": len(res), "trunc": int(mx < len(res))})

    def x_defnodes(self, t):
        if len(t) != 2:
            raise BadCase()
        if p_u64(t[1]):
            return fail("defnodes")
        nodes = self.numa()

        def chk(r):
            if not r.startswith("R defnodes rc=0 err=OK set="):
                return ["expected success, got %r" % r]
            try:
                s = pset(r.split("set=")[1].split(" ")[0])
            except BadCase:
                return ["unparsable nodeset in %r" % r]
            byos = {n.os: n for n in nodes}
            msgs, sel = [], []
            for b in bits(s):
                if b not in byos:
                    msgs.append("bit %d is not the os_index of a NUMA node" % b)
                else:
                    sel.append(byos[b])
            for i in range(len(sel)):
                for j in range(i + 1, len(sel)):
                    if sel[i].cpuset & sel[j].cpuset:
                        msgs.append("selected nodes os=%d and os=%d have intersecting cpusets" % (sel[i].os, sel[j].os))
            if not sel:
                msgs.append("empty default nodeset")
            # exact result of the algorithm ("already taken?" tests nodes[i]->os_index since /repo a3b32cd;
            # default_nodeset_algo(index_quirk=True) is the old behaviour, named in the message if it comes back)
            want = default_nodeset_algo(nodes, self.topo.root, False)
            if not msgs and s != want:
                old = default_nodeset_algo(nodes, self.topo.root, True)
                msgs.append(("os-index-vs-array-index" if s == old else "algo",
                             "got %s, the algorithm gives %s%s" % (fset(s), fset(want), " (array-index test of the second loop is back)" if s == old else "")))
            return msgs
        return Exp(None, check=chk)

    def x_restrict(self, t):
        if len(t) != 3:
            raise BadCase()
        pset(t[1])
        p_u64(t[2])

        def ap(r, tab):
            if r.startswith("R restrict rc=0 ") and tab is not None:
                self.stats["restrict_ok"] += 1
                self.retopo(tab)
            elif tab is not None and tab.sig() != self.topo.sig():
                self.retopo(tab)
                self.stats["failed_restrict_changed_table"] += 1
        return Exp(None, apply=ap)

    def _sw(self, op):
        hz = op == "dup" and self.dup_hazard()

        def ap(r, tab):
            if hz:
                self.doomed = "dup-empty-targets"
            if tab is not None and r.startswith("R %s rc=0 " % op):
                self.retopo(tab, op)
        return Exp("R %s rc=0 err=OK" % op, apply=ap, info={"sametable": 1}, ub="dup-empty-targets" if hz else None)

    def x_dup(self, t):
        if len(t) != 1:
            raise BadCase()
        return self._sw("dup")

    def x_xml(self, t):
        if len(t) != 1:
            raise BadCase()
        return self._sw("xml")

    def x_allow(self, t):
        """hwloc_topology_allow(): return code only; it must not change anything a memattr call reports
        (the refresh intersects stored cpusets with the ROOT cpuset, not with the allowed one)"""
        if len(t) != 4:
            raise BadCase()
        c = None if t[1] == "-" else pset(t[1])
        n = None if t[2] == "-" else pset(t[2])
        flags = p_u64(t[3])
        if not self.incl or flags & ~7:
            return fail("allow")
        if flags == 1:
            return Exp("R allow rc=0 err=OK") if c is None and n is None else fail("allow")
        if flags == 4:
            rootn = sum(1 << x.os for x in self.numa())
            if (c is not None and not c & self.topo.root) or (n is not None and not n & rootn):
                return fail("allow")
            return Exp("R allow rc=0 err=OK")
        return fail("allow")        # 0, LOCAL_RESTRICTIONS on a topology that is not this system, combinations

    def x_xmlnf(self, t):
        """XML round trip whose reload drops HWLOC_TOPOLOGY_FLAG_NO_MEMATTRS: every attribute the application registered
        (ids 0,1,... on the exporting side) arrives, after the 8 predefined ones, with its values"""
        if len(t) != 1:
            raise BadCase()
        if not self.nomem:
            def ap0(r, tab):
                if tab is not None and r.startswith("R xmlnf rc=0 "):
                    self.retopo(tab, "xml")
            return Exp("R xmlnf rc=0 err=OK", apply=ap0, info={"sametable": 1})

        def ap(r, tab):
            if tab is None or not r.startswith("R xmlnf rc=0 "):
                return
            for id_ in range(len(self.attrs)):
                self.touch(id_)
            old_attrs, old_ent = self.attrs, self.ent
            self.nomem = False
            self.attrs = [list(a) for a in PREDEF]
            self.ent = {i: [] for i in range(len(PREDEF))}
            self.valid, self.cnt, self.alloc = {}, {}, {}
            remap = {}
            for i, a in enumerate(old_attrs):
                nm, fl = xml_safe_token(a[0]), a[1]
                j = next((k for k, b in enumerate(self.attrs) if b[0] == nm), None)
                if j is None:
                    self.attrs.append([nm, fl])
                    j = len(self.attrs) - 1
                    self.ent[j] = old_ent.get(i, [])
                    remap[i] = j
                    continue
                self.dupos_attrs.add(j)                   # merged into an existing attribute: left to the model diff
                if j >= 2 and self.attrs[j][1] == fl:
                    for tg in old_ent.get(i, []):
                        for k in tg.keys:
                            self.do_set(j, tg.gp, tg.type, k[0], k[1], count=False)
            self.taint = {(remap[i], g) for (i, g) in self.taint if i in remap}
            self.unchecked = {(remap[i], g) for (i, g) in self.unchecked if i in remap}
            self.stats["xml_nomem_to_plain"] += 1
            self.retopo(tab, "xml")
        return Exp("R xmlnf rc=0 err=OK", apply=ap, info={"sametable": 1})

    def x_xmlt(self, t):
        """XML round trip with HWLOC_MEMTIERS* variables set during the reload: the memory attributes
        survive as for `xml`; the tiers (subtypes, MemoryTier, MemoryTiersNr) are judged by tiers_reference()."""
        env = {}
        for a in t[1:]:
            if "=" not in a or not a.startswith("HWLOC_MEMTIERS"):
                raise BadCase()
            k, v = a.split("=", 1)
            env[k] = v
        before = self.topo

        def ap(r, tab):
            if tab is not None and r.startswith("R xmlt rc=0 "):
                self.retopo(tab, "xml")

        def chk_tiers(tab, mlines):
            return self.judge_tiers(before, tab, mlines, env, xml=True)
        e = Exp("R xmlt rc=0 err=OK", apply=ap, info={"tiers": chk_tiers})
        return e

    # -- memory tiers
    def read_header(self, header, mlines):
        """`info` / `env` / `subtype` header lines; judges the tiers computed while the synthetic topology was loaded
        when HWLOC_MEMTIERS* variables were set for it (subtypes set by header lines come afterwards)."""
        numa = self.numa()
        subs = {}
        self.incl = "include_disallowed" in header
        if any(h.startswith("topoflag ") and "no_memattrs" in h.split(" ")[1:] for h in header):
            self.nomem = True
            self.attrs, self.ent = [], {}
        for h in header:
            f = h.split(" ")
            if f[0] == "info" and len(f) == 4 and f[1].isdigit() and int(f[1]) < len(numa):
                self.infos.setdefault(numa[int(f[1])].gp, {})[f[2]] = f[3]
            elif f[0] == "env" and len(f) == 2 and "=" in f[1]:
                k, v = f[1].split("=", 1)
                self.load_env[k] = v
            elif f[0] == "subtype" and len(f) == 3 and f[1].isdigit() and int(f[1]) < len(numa):
                subs[numa[int(f[1])].gp] = f[2]
        if not self.load_env or self.nomem or any(h.split(" ")[0] in ("pre_restrict",) for h in header):
            return []
        # at synthetic load no node has a subtype, info or memattr value yet
        exp = tiers_reference([(n.gp, n.os, "-", {}, 0, 0) for n in numa], self.load_env, force=False)
        if exp is None:
            self.stats["tiers_unchecked_ambiguous"] += 1
            return []
        self.stats["tiers_checked_at_load"] += 1
        got_nr, got_tier, msgs = None, {}, []
        for l in mlines or []:
            f = l.split(" ")
            if f[1] == "tiers":
                got_nr = f[2][3:]
            elif f[1] == "node":
                got_tier[int(f[2])] = f[3][5:]
        for n in numa:
            want = subs.get(n.gp, exp["subtype"][n.gp])
            if n.subtype != want:
                msgs.append("node gp=%d os=%d: subtype %s after load, forced tiers give %s" % (n.gp, n.os, n.subtype, want))
            if exp["tier"] is not None and got_tier.get(n.gp) != exp["tier"][n.gp]:
                msgs.append("node gp=%d os=%d: MemoryTier %s after load, forced tiers give %s" % (n.gp, n.os, got_tier.get(n.gp), exp["tier"][n.gp]))
        if got_nr != exp["nrinfo"]:
            msgs.append("MemoryTiersNr %s after load, expected %s" % (got_nr, exp["nrinfo"]))
        return msgs

    def node_values(self, topo):
        """local Bandwidth / Latency of every NUMA node as hwloc__group_memory_tiers reads them: the value of
        the first stored cpuset initiator that includes the node's cpuset (nodes without CPUs: none)"""
        res = {}
        for n in [o for o in topo.objs if o.type == self.NUMA]:
            v = []
            for id_ in (2, 3):
                x = 0
                tg = self.find(id_, n.gp)
                if tg is not None and n.cpuset:
                    for k in tg.keys:
                        if k[0][0] == "c" and n.cpuset & ~k[0][1] == 0:
                            x = k[1]
                            break
                v.append(x)
            res[n.gp] = tuple(v)
        return res

    def judge_tiers(self, before, tab, mlines, env, xml):
        """compare subtypes (T table) and MemoryTier / MemoryTiersNr (M lines) with tiers_reference()."""
        if tab is None or self.nomem:
            return []
        if self.flags & {"overlap", "outside", "internal"}:
            self.stats["tiers_unchecked_tainted"] += 1
            return []
        nodes = [o for o in tab.objs if o.type == self.NUMA]
        old = {o.gp: o for o in before.objs if o.type == self.NUMA}
        if set(old) != set(n.gp for n in nodes):
            return ["the XML reload changed the set of NUMA nodes"]
        got_nr, got_tier = None, {}
        for l in mlines or []:
            f = l.split(" ")
            if f[1] == "tiers":
                got_nr = f[2][3:]
            elif f[1] == "node":
                got_tier[int(f[2])] = f[3][5:]
        if xml and "HWLOC_MEMTIERS_REFRESH" not in env:
            # tiers are not recomputed for XML: subtypes and infos come back as exported
            msgs = []
            for n in nodes:
                if n.subtype != old[n.gp].subtype:
                    msgs.append("node gp=%d: subtype %s became %s without HWLOC_MEMTIERS_REFRESH" % (n.gp, old[n.gp].subtype, n.subtype))
            self.stats["tiers_checked_norefresh"] += 1
            return msgs
        vals = self.node_values(tab)
        exp = tiers_reference([(n.gp, n.os, old[n.gp].subtype, self.infos.get(n.gp, {}), vals[n.gp][0], vals[n.gp][1]) for n in nodes],
                              env, force=xml)
        if exp is None:
            self.stats["tiers_unchecked_ambiguous"] += 1
            return []
        self.stats["tiers_checked"] += 1
        self.stats["tiers_nr_%s" % exp["nr"]] += 1
        msgs = []
        for n in nodes:
            if n.subtype != exp["subtype"][n.gp]:
                msgs.append("node gp=%d os=%d: subtype %s, the tier algorithm gives %s" % (n.gp, n.os, n.subtype, exp["subtype"][n.gp]))
            if exp["tier"] is not None and got_tier.get(n.gp) != exp["tier"][n.gp]:
                msgs.append("node gp=%d os=%d: MemoryTier %s, the tier algorithm gives %s" % (n.gp, n.os, got_tier.get(n.gp), exp["tier"][n.gp]))
        if got_nr != exp["nrinfo"]:
            msgs.append("MemoryTiersNr %s, the tier algorithm gives %s" % (got_nr, exp["nrinfo"]))
        return msgs

    # -- one step of spec evaluation
    def step(self, i, line, rline, table, mlines=None):
        e = self.expect(line)
        op = line.split(" ")[0]
        out = []
        if rline.endswith(" OVERWRITE"):
            out.append((op + ":overwrite", i, "array written past min(nr,max): %s -> %s" % (line, rline)))
        if e.ub:
            self.flags.add("ub")
            self.stats["ub_ops"] += 1
            if e.text is not None and rline != e.text:
                out.append(("ub:" + e.ub, i, "%s: well-defined answer would be %r, got %r" % (line, e.text, rline)))
        elif e.text is not None:
            self.stats["checked"] += 1
            if rline != e.text:
                kind = op + (":rc" if rline.split(" ")[2:4] != e.text.split(" ")[2:4] else ":payload")
                out.append((kind, i, "%s: expected %r got %r" % (line, e.text, rline)))
            elif " rc=0 " in rline:
                if e.info.get("tiers"):
                    for m in e.info["tiers"](table, mlines):
                        out.append((op + ":tiers", i, "%s: %s" % (line, m)))
                for k, v in e.info.items():
                    if v and k in ("hit", "ties", "trunc"):
                        self.stats[op + "_" + k] += 1
        elif e.check is not None:
            self.stats["checked"] += 1
            for m in e.check(rline):
                sub = "prop"
                if isinstance(m, tuple):
                    sub, m = m
                out.append((op + ":" + sub, i, "%s: %s (%s)" % (line, m, rline)))
        else:
            self.stats["unchecked_results"] += 1
        if e.info.get("sametable") and table is not None and rline.startswith("R %s rc=0 " % op) and table.sig() != self.topo.sig():
            out.append((op + ":table", i, "%s changed the topology table" % op))
        m = rline.split(" ")
        if len(m) > 3:
            self.stats["err_" + m[3][4:]] += 1
        if e.apply is not None:
            e.apply(rline, table)
        return out


T_HBM, T_DRAM, T_GPU, T_SPM, T_NVM, T_CXL = 1, 2, 4, 8, 16, 32
TIER_NAMES = {T_DRAM: "DRAM", T_HBM: "HBM", T_GPU: "GPUMemory", T_SPM: "SPM", T_NVM: "NVM", T_CXL: "CXL-DRAM",
              T_CXL | T_DRAM: "CXL-DRAM", T_CXL | T_HBM: "CXL-HBM", T_CXL | T_GPU: "CXL-GPUMemory", T_CXL | T_SPM: "CXL-SPM",
              T_CXL | T_NVM: "CXL-NVM"}


def c_atof(s):
    import re
    m = re.match(r"\s*[-+]?(\d+\.?\d*([eE][-+]?\d+)?|\.\d+([eE][-+]?\d+)?)", s)
    return float(m.group(0)) if m else 0.0


def f32(x):
    import struct
    return struct.unpack("f", struct.pack("f", x))[0]


def tiers_reference(nodes, env, force):
    """Reference for hwloc_internal_memattrs_guess_memory_tiers().  nodes: [(gp, os, subtype|'-', infos, local_bw, local_lat)]
    in logical order; env: HWLOC_MEMTIERS* variables; force: overwrite existing subtypes (XML reload with
    HWLOC_MEMTIERS_REFRESH; always for forced tiers).  Returns {subtype: {gp: s}, tier: {gp: str}|None (not judged),
    nr: int, nrinfo: str} or None when the C result legitimately depends on qsort's treatment of equal keys."""
    import functools
    subtype = {n[0]: n[2] for n in nodes}
    notier = {"subtype": subtype, "tier": {n[0]: "-" for n in nodes}, "nr": 0, "nrinfo": "-"}
    tiers = None                                     # [[set of os, type, bwmin, bwmax]]
    mt = env.get("HWLOC_MEMTIERS")
    if mt is not None:
        if mt == "none":
            return notier
        tiers = []
        for part in mt.split(";"):
            if "=" not in part:
                tiers = None
                break
            a, b = part.split("=", 1)
            try:
                ns = int(a, 16) if a.lower().startswith("0x") else None
            except ValueError:
                ns = None
            if ns is None:
                return None                          # not a plain 0x mask: left to hwloc_bitmap_sscanf (C04)
            if ns == 0:
                tiers = None
                break
            ty = {v.lower(): k for k, v in TIER_NAMES.items() if k != T_CXL}.get(b.lower(), 0)
            tiers.append([set(bits(ns)), ty, 0, 0])
        if tiers is not None:
            force = True
    if tiers is None:
        bwt = f32(c_atof(env["HWLOC_MEMTIERS_BANDWIDTH_THRESHOLD"])) if "HWLOC_MEMTIERS_BANDWIDTH_THRESHOLD" in env else f32(0.1)
        latt = f32(c_atof(env["HWLOC_MEMTIERS_LATENCY_THRESHOLD"])) if "HWLOC_MEMTIERS_LATENCY_THRESHOLD" in env else f32(0.1)
        infos = []
        for gp, os_, sub, inf, bw, lat in nodes:
            ty = 0
            if sub == "GPUMemory":
                ty = T_GPU
            elif inf.get("DAXType") == "NVM":
                ty = T_NVM
            elif inf.get("DAXType") == "SPM":
                ty = T_SPM
            if "CXLDevice" in inf:
                ty = (ty & T_NVM) | T_CXL
            infos.append((ty, bw, lat, os_))
        # qsort by (type ascending, bandwidth descending); entries with equal keys must agree on latency
        grp = {}
        for ty, bw, lat, os_ in infos:
            grp.setdefault((ty, bw), set()).add(lat)
        if any(len(v) > 1 for v in grp.values()):
            return None
        infos.sort(key=lambda x: (x[0], -x[1]))
        ranks, r = [0], 0
        for i in range(1, len(infos)):
            a, b = infos[i], infos[i - 1]
            if a[0] != b[0]:
                r += 1
            else:
                split = False
                if a[1] and b[1]:
                    ratio = f32(f32(a[1]) / f32(b[1]))
                    if ratio < 1.0:
                        ratio = 1.0 / ratio
                    if abs(ratio - (1.0 + bwt)) < 1e-4:
                        return None                  # on the threshold: float rounding decides
                    split = ratio > 1.0 + bwt
                if not split and a[2] and b[2]:
                    ratio = f32(f32(a[2]) / f32(b[2]))
                    if ratio < 1.0:
                        ratio = 1.0 / ratio
                    if abs(ratio - (1.0 + latt)) < 1e-4:
                        return None
                    split = ratio > 1.0 + latt
                if split:
                    r += 1
            ranks.append(r)
        tiers = [[set(), 0, 0, 0] for _ in range(r + 1)]
        for (ty, bw, lat, os_), rk in zip(infos, ranks):
            t = tiers[rk]
            t[0].add(os_)
            t[1] = ty
            if not t[2]:
                t[2] = bw
            t[3] = bw
        # hwloc__guess_memory_tiers_types
        g = env.get("HWLOC_MEMTIERS_GUESS")
        flags = set()
        skip = False
        if g is not None:
            if g == "none":
                skip = True
            if g == "all":
                flags |= {"spm", "node0"}
            if "spm_is_hbm" in g:
                flags.add("spm")
            if "node0_is_dram" in g:
                flags.add("node0")
        if not skip and len(tiers) > 1:
            unknown = [t for t in tiers if t[1] == 0]
            spm = [t for t in tiers if t[1] == T_SPM]

            def dram_hbm(t1, t2):
                if not t1[2] or not t2[2]:
                    return
                if t1[2] > t2[2]:
                    t1, t2 = t2, t1
                if t2[2] <= t1[3] * 2:
                    return
                if "node0" in flags and 0 in t2[0]:
                    return
                t1[1], t2[1] = T_DRAM, T_HBM
            if len(unknown) == 2 and not spm:
                dram_hbm(unknown[0], unknown[1])
            elif len(unknown) == 1 and len(spm) == 1:
                dram_hbm(unknown[0], spm[-1])
            if "spm" in flags:
                for t in tiers:
                    if t[1] == T_SPM:
                        t[1] = T_HBM
            if "node0" in flags:
                for t in tiers:
                    if 0 in t[0] and t[1] == 0:
                        t[1] = T_DRAM
                        break
        # qsort(compare_tiers_by_bw_and_type): judge the order only when the comparator is a strict total order here

        def cmp(a, b):
            if a[2] and b[2]:
                if a[2] + a[3] > b[2] + b[3]:
                    return -1
                if a[2] + a[3] < b[2] + b[3]:
                    return 1
            return (a[1] > b[1]) - (a[1] < b[1])
        order = sorted(tiers, key=functools.cmp_to_key(cmp))
        strict = all(cmp(order[i], order[j]) < 0 for i in range(len(order)) for j in range(i + 1, len(order)))
        tiers = order if strict else tiers
        judge_order = strict
    else:
        judge_order = True
    nr = len(tiers)
    tier = {}
    for gp, os_, sub, inf, bw, lat in nodes:
        tier[gp] = "-"
        for j, t in enumerate(tiers):
            if os_ in t[0]:
                name = TIER_NAMES.get(t[1])
                if (sub == "-" or force) and name is not None:
                    subtype[gp] = name
                if nr > 1:
                    tier[gp] = str(j)
                break
    return {"subtype": subtype, "tier": tier if judge_order else None, "nr": nr, "nrinfo": str(nr) if nr > 1 else "-"}


def default_nodeset_algo(nodes, root, index_quirk):
    """hwloc_topology_get_default_nodeset(); index_quirk=True reproduces the test
    hwloc_bitmap_isset(nodeset, i) of the second loop, False tests nodes[i]->os_index."""
    ns = sorted(nodes, key=lambda n: n.os)
    if not ns:
        return 0
    first = ns[0]
    res, rem = 1 << first.os, root & ~first.cpuset
    done = False
    for n in ns[1:]:
        if n.subtype != first.subtype:
            continue
        if n.cpuset & ~rem == 0:
            res |= 1 << n.os
            rem &= ~n.cpuset
        if rem == 0:
            done = True
            break
    if not done:
        for i, n in enumerate(ns):
            if i == 0:
                continue
            if (res >> (i if index_quirk else n.os)) & 1:
                continue
            if n.cpuset & ~rem == 0 and n.cpuset:
                res |= 1 << n.os
                rem &= ~n.cpuset
            if rem == 0:
                break
    return res


def spec_eval(case, trans, types=None):
    """(case script, parsed C transcript) -> ([(kind, step, message)], Ref)"""
    ref = Ref(types)
    ref.strict_dupos = case.meta.get("topo") == "dup-os-index"
    st = trans.start_table()
    if st is None:
        return [("no-table", -1, "no topology table after start (synthetic description failed to load?)")], ref
    ref.topo = st
    out = []
    out += [("start:tiers", -1, m) for m in ref.read_header(case.header, trans.mlines.get(-1))]
    for i, op in enumerate(case.ops):
        if i >= len(trans.results):
            break
        r, tab = trans.results[i]
        out += ref.step(i, op, r, tab, trans.mlines.get(i))
    return out, ref


# ---------------------------------------------------------------- running the executables

def crash_kind(rc, err=""):
    import re
    m = re.search(r"SUMMARY: AddressSanitizer: (\S+)", err or "")
    if m:
        return "lsan" if "leaked" in m.group(0) or m.group(1).endswith("byte(s)") else "asan-" + m.group(1)
    if "runtime error:" in (err or ""):
        return "ubsan"
    if "LeakSanitizer" in (err or ""):
        return "lsan"
    if rc == 97:
        return "asan"
    if rc == 98:
        return "ubsan"
    if rc == 96:
        return "lsan"
    if rc == 124:
        return "timeout"
    if rc < 0:
        try:
            return signal.Signals(-rc).name
        except ValueError:
            return "signal%d" % -rc
    return "exit%d" % rc


def run_batch(exe, cases, env, timeout=120):
    """Run case scripts in one process; on a crash restart with the remaining
    cases.  Returns (types, {name: [lines]}, crashes) with crashes =
    [{case, rc, kind, stderr}] (case None: failure not attributable, e.g. leaks)."""
    types, per, crashes = dict(DEFAULT_TYPES), {}, []
    todo = list(cases)
    while todo:
        inp = "".join(c.text() for c in todo).encode()
        try:
            p = subprocess.run([exe], input=inp, env=env, timeout=timeout, stdout=subprocess.PIPE, stderr=subprocess.PIPE)
            rc, out, err = p.returncode, p.stdout, p.stderr
        except subprocess.TimeoutExpired as e:
            rc, out, err = 124, e.stdout or b"", (e.stderr or b"") + b"\nTIMEOUT"
        ty, pp, order = split_output(out.decode(errors="replace"))
        types.update(ty)
        per.update(pp)
        if rc == 0:
            break
        errt = err.decode(errors="replace")[-3000:]
        unfinished = [n for n in order if not any(l.startswith("E ") for l in pp[n])]
        if unfinished:
            name = unfinished[0]
            crashes.append({"case": name, "rc": rc, "kind": crash_kind(rc, errt), "stderr": errt})
            k = [c.name for c in todo].index(name)
            todo = todo[k + 1:]
        else:
            done = set(order)
            rest = [c for c in todo if c.name not in done]
            if rest and len(rest) < len(todo):
                # died between cases
                crashes.append({"case": rest[0].name, "rc": rc, "kind": crash_kind(rc, errt), "stderr": errt})
                todo = rest[1:]
            else:
                crashes.append({"case": None, "rc": rc, "kind": crash_kind(rc, errt), "stderr": errt})
                break
    return types, per, crashes


def attribute_exit_failure(exe, cases, env, rc_kind, budget=14):
    """A failure reported only at process exit (leak): bisect to one case."""
    cur = list(cases)
    while len(cur) > 1 and budget > 0:
        budget -= 1
        half = cur[:len(cur) // 2]
        _, _, cr = run_batch(exe, half, env)
        if any(c["case"] is None for c in cr):
            cur = half
        else:
            cur = cur[len(cur) // 2:]
    return cur[0] if cur else None


def run_model(drv, scripts, timeout=300):
    """scripts: [(name, [lines])].  Returns ({name: [R lines]}, [names where the driver died])"""
    per, died = {}, []
    todo = list(scripts)
    while todo:
        inp = ("\n".join("\n".join(l) for _, l in todo) + "\n").encode()
        try:
            p = subprocess.run([drv], input=inp, timeout=timeout, stdout=subprocess.PIPE, stderr=subprocess.PIPE)
            rc, out = p.returncode, p.stdout
        except subprocess.TimeoutExpired as e:
            rc, out = 124, e.stdout or b""
        pp, tail = split_model_output(out.decode(errors="replace"))
        per.update(pp)
        names = [n for n, _ in todo]
        missing = [n for n in names if n not in pp]
        if not missing:
            break
        died.append(missing[0])
        per[missing[0]] = tail
        todo = todo[names.index(missing[0]) + 1:]
        if rc == 0 and not todo:
            break
    return per, died


class Dead(Exception):
    def __init__(self, why, partial):
        Exception.__init__(self, why)
        self.why, self.partial = why, partial


class Proc:
    """Interactive harness process (line in -> lines out, delimited by 'sync'/'S')."""

    def __init__(self, exe, env):
        self.errf = tempfile.TemporaryFile()
        self.p = subprocess.Popen([exe], stdin=subprocess.PIPE, stdout=subprocess.PIPE, stderr=self.errf, env=env, bufsize=0)
        self.buf = b""
        self.types = dict(DEFAULT_TYPES)
        for l in self.cmd("# hello"):
            if l.startswith("P types "):
                for kv in l[8:].split():
                    k, v = kv.split("=")
                    self.types[k] = int(v)

    def cmd(self, line, timeout=30):
        out = []
        try:
            self.p.stdin.write((line + "\nsync\n").encode())
        except (BrokenPipeError, OSError):
            pass
        fd = self.p.stdout.fileno()
        while True:
            while b"\n" not in self.buf:
                r, _, _ = select.select([fd], [], [], timeout)
                if not r:
                    self.p.kill()
                    raise Dead("timeout", out)
                chunk = os.read(fd, 65536)
                if not chunk:
                    if self.buf:
                        out.append("X " + self.buf.decode(errors="replace"))
                        self.buf = b""
                    raise Dead("eof", out)
                self.buf += chunk
            l, self.buf = self.buf.split(b"\n", 1)
            l = l.decode(errors="replace")
            if l == "S":
                return out
            out.append(l)

    def close(self):
        """-> (rc, stderr tail)"""
        try:
            self.p.stdin.close()
        except OSError:
            pass
        try:
            rc = self.p.wait(timeout=60)
        except subprocess.TimeoutExpired:
            self.p.kill()
            self.p.wait()
            rc = 124
        try:
            self.p.stdout.close()
        except OSError:
            pass
        self.errf.seek(0)
        err = self.errf.read().decode(errors="replace")[-3000:]
        self.errf.close()
        return rc, err


# ---------------------------------------------------------------- shrinking

def ddmin(ops, test, budget=120):
    """Classic delta debugging over a list; `test(sub)` True when the failure persists."""
    n = 2
    cur = list(ops)
    while len(cur) >= 2 and budget > 0:
        chunk = max(1, len(cur) // n)
        subsets = [cur[i:i + chunk] for i in range(0, len(cur), chunk)]
        reduced = False
        for i in range(len(subsets)):
            comp = [x for j, s in enumerate(subsets) if j != i for x in s]
            budget -= 1
            if comp and test(comp):
                cur, n, reduced = comp, max(n - 1, 2), True
                break
            if budget <= 0:
                break
        if not reduced:
            if n >= len(cur):
                break
            n = min(len(cur), n * 2)
    return cur


# ---------------------------------------------------------------- generator

STREAMS = ["clean", "overlap", "outside", "malformed", "internal", "uninit"]
MEMS = [512, 1024, 4096, 1 << 20]


def pick_topology(rng):
    """-> (kind, synthetic description); <= 32 PUs, 1..8 NUMA nodes"""
    m = lambda: rng.choice(MEMS)
    k = rng.choice(["flat-numa", "flat-numa", "flat-pack", "flat-pack", "nested-die", "nested-die", "machine-pack",
                    "machine-pack", "twin", "group", "single"])
    if k == "flat-numa":
        n = rng.randint(2, 8)
        c = rng.randint(1, 2)
        return k, "numa:%d core:%d pu:%d" % (n, c, rng.randint(1, 2))
    if k == "flat-pack":
        n = rng.randint(2, 8)
        if rng.random() < 0.5:
            return k, "pack:%d [numa(memory=%d)] core:%d pu:%d" % (n, m(), rng.randint(1, 2), rng.randint(1, 2))
        return k, "pack:%d [numa] core:%d pu:1" % (n, rng.randint(1, 4))
    if k == "nested-die":
        p, d = rng.choice([(2, 2), (2, 3), (1, 2), (1, 3), (1, 4), (2, 2)])
        return k, "pack:%d [numa(memory=%d)] die:%d [numa(memory=%d)] core:%d pu:1" % (p, m(), d, m(), rng.randint(1, 2))
    if k == "machine-pack":
        p = rng.randint(2, 5)
        return k, "[numa(memory=%d)] pack:%d [numa(memory=%d)] core:%d pu:%d" % (m(), p, m(), rng.randint(1, 2), rng.randint(1, 2))
    if k == "twin":
        p = rng.randint(1, 4)
        return k, "pack:%d [numa(memory=%d)] [numa(memory=%d)] core:2 pu:%d" % (p, m(), m(), rng.randint(1, 2))
    if k == "group":
        return k, "group:2 [numa(memory=%d)] pack:2 [numa(memory=%d)] core:%d pu:1" % (m(), m(), rng.randint(1, 2))
    return k, rng.choice(["numa:1 core:2 pu:2", "pack:1 [numa] core:4 pu:1", "[numa(memory=2048)] core:3 pu:1"])


def hetero_topology(rng):
    """heterogeneous-memory machines for hwloc_topology_get_default_nodeset(): nested NUMA
    localities, NUMA os_indexes shuffled (so the os_index order differs from the locality
    order).  -> (kind, [descriptions to try in order], number of NUMA nodes)"""
    shape = rng.choice(["pack-l3", "pack-l3", "machine-pack", "twin", "pack-die"])
    u = rng.randint(1, 2)
    if shape == "pack-l3":
        p, k = rng.choice([(1, 2), (1, 2), (1, 3), (2, 2)])
        n, fmt = p + p * k, "pack:%d [numa] l3:%d [numa%%s] pu:%d" % (p, k, u + 1)
    elif shape == "machine-pack":
        p = rng.randint(2, 4)
        n, fmt = 1 + p, "[numa] pack:%d [numa%%s] core:%d pu:1" % (p, u)
    elif shape == "twin":
        p = rng.randint(1, 3)
        n, fmt = 2 * p, "pack:%d [numa] [numa%%s] core:2 pu:%d" % (p, u)
    else:
        p, d = rng.choice([(1, 2), (1, 3), (2, 2)])
        n, fmt = p + p * d, "pack:%d [numa] die:%d [numa%%s] core:%d pu:1" % (p, d, u)
    perm = list(range(n))
    rng.shuffle(perm)
    if rng.random() < 0.25:                      # sparse numbering as well
        perm = [x * 2 + 1 for x in perm]
    descs = [fmt % ("(indexes=%s)" % ",".join(map(str, perm))), fmt % ""]
    return "hetero-" + shape, descs, n


def parse_op_output(out):
    r, tab, cur = None, None, None
    for l in out:
        if l.startswith("R ") and r is None:
            r = l
        elif l == "T begin":
            cur = []
        elif l == "T end":
            try:
                tab = Topo(cur or [])
            except (BadCase, ValueError, IndexError):
                tab = None
            cur = None
        elif cur is not None:
            cur.append(l)
    return r, tab


class OpGen:
    WEIGHTS = {"reg": 6, "set": 32, "get": 14, "targets": 8, "inits": 7, "bestt": 7, "besti": 6, "local": 7, "defnodes": 3,
               "getbyname": 2, "getname": 1, "getflags": 1, "restrict": 3, "dup": 2, "xml": 3}

    def __init__(self, rng, ref, stream):
        self.rng, self.ref, self.stream = rng, ref, stream
        self.pool = rng.sample([1, 2, 3, 5, 8, 10, 20, 50, 100, 1000], 3)
        self.focus = rng.sample(range(2, 8), 2) if not ref.nomem else []
        self.names = ["foo", "bar", "baz", "Qux", "Bandwidth2", "x1", "Capacity2", "lat"]
        if stream == "names":
            self.names = ["NodeBW", "lat", "x"]
        self.restricts = 0
        self.gone = 0
        self.family, self.objpool = [], []
        w = dict(self.WEIGHTS)
        if stream == "internal":
            w["iset"] = 14
        if ref.incl:
            w["allow"] = 5
        if stream == "allow":       # hwloc_topology_allow between the memattr calls (INCLUDE_DISALLOWED topologies)
            w["allow"] = 16
        if ref.nomem:
            w["xmlnf"] = 3
        if stream == "names":       # attribute names: near-collisions, lookups by name, XML round trips keep every attribute apart
            w = {"reg": 22, "getbyname": 22, "getname": 6, "getflags": 3, "set": 22, "get": 8, "targets": 6, "bestt": 5, "inits": 3,
                 "besti": 2, "xml": 8, "dup": 2, "restrict": 1}
        if stream == "tiers":       # memory tiers: local bandwidth/latency values, then XML reloads with HWLOC_MEMTIERS* set
            w = {"set": 6, "xmlt": 14, "defnodes": 6, "restrict": 3, "get": 2, "bestt": 2, "xml": 1, "dup": 1, "tierset": 12}
        if stream == "hetero":      # default nodeset / local nodes on heterogeneous machines, through restrict/dup/xml
            w.update({"defnodes": 30, "local": 12, "restrict": 9, "xml": 4, "dup": 3, "set": 10, "get": 5, "targets": 3,
                      "inits": 2, "bestt": 3, "besti": 2, "reg": 2})
        self.wops, self.wts = list(w), [w[k] for k in w]
        self.refresh()

    # -- topology dependent pools
    def refresh(self):
        rng, t, ty = self.rng, self.ref.topo, self.ref.types
        if not self.family:
            lv = {}
            for o in t.objs:
                if o.own and o.cpuset and o.type not in (ty["numa"], ty["misc"], ty["machine"]):
                    lv.setdefault(o.type, []).append(o.cpuset)
            cands = [v for v in lv.values() if len(v) >= 2]
            fam = list(rng.choice(cands)) if cands else [t.root]
            merged, i = [], 0
            while i < len(fam):
                if i + 1 < len(fam) and rng.random() < 0.3:
                    merged.append(fam[i] | fam[i + 1])
                    i += 2
                else:
                    merged.append(fam[i])
                    i += 1
            self.family = merged
        else:
            self.family = [f & t.root for f in self.family if f & t.root] or [t.root]
        self.objpool = [o for o in self.objpool if o.gp in t.bygp]
        while len(self.objpool) < 4:
            self.objpool.append(rng.choice(t.objs))

    def subset(self, s):
        b = bits(s)
        sub = [x for x in b if self.rng.random() < 0.5] or [self.rng.choice(b)]
        return sum(1 << x for x in sub)

    def value(self):
        return self.rng.choice(self.pool) if self.rng.random() > 0.06 else self.rng.choice([0, U64, 2 ** 32])

    def pick_id(self, want_ni=None):
        rng, attrs = self.rng, self.ref.attrs
        if rng.random() < 0.08:
            return rng.choice([0, 1])
        if not self.ref.nomem and not self.focus:
            self.focus = rng.sample(range(2, 8), 2)       # the topology was reloaded without NO_MEMATTRS
        ids = self.focus + list(range(8, len(attrs))) if not self.ref.nomem else (list(range(len(attrs))) or [0])
        if want_ni is not None:
            sel = [i for i in ids if i < len(attrs) and bool(attrs[i][1] & NI) == want_ni]
            ids = sel or ids
        used = [i for i in ids if self.ref.ent.get(i)]
        if used and rng.random() < 0.6:
            return rng.choice(used)
        return rng.choice(ids)

    def pick_target(self, id_, prefer_existing=True):
        rng, t = self.rng, self.ref.topo
        ents = [tg for tg in self.ref.ent.get(id_, []) if tg.gp in t.bygp]
        if prefer_existing and ents and rng.random() < 0.8:
            return rng.choice(ents).gp
        if rng.random() < 0.85:
            return rng.choice(self.ref.numa()).gp
        o = rng.choice(t.objs)
        if self.ref.dup_os(o) and rng.random() < 0.9:      # mostly avoid the known os_index confusion (corpus 07)
            return rng.choice(self.ref.numa()).gp
        return o.gp

    def maxof(self, total):
        return self.rng.choice([0, 1, max(total - 1, 0), total, total + 1])

    def overlap_set(self, tg):
        rng, fam = self.rng, self.family
        ck = [k[0][1] for k in (tg.keys if tg else []) if k[0] and k[0][0] == "c"]
        r = rng.random()
        if ck and r < 0.4:
            return rng.choice(ck) | rng.choice(fam)
        if len(fam) >= 2 and r < 0.7:
            a, b = rng.sample(fam, 2)
            return self.subset(a) | self.subset(b)
        return self.subset(self.ref.topo.root)

    def outside_set(self):
        rng = self.rng
        r = rng.random()
        if self.gone and r < 0.4:
            return self.subset(self.gone) | (rng.choice(self.family) if rng.random() < 0.7 else 0)
        if r < 0.8:
            return rng.choice(self.family) | (1 << rng.choice([40, 63, 64, 100]))
        return 1 << rng.choice([70, 127])

    def set_init(self, id_, gp):
        rng, ref = self.rng, self.ref
        if not ref.attrs[id_][1] & NI:
            return "-" if rng.random() < 0.85 else "c:" + fset(rng.choice(self.family))
        tg = ref.find(id_, gp)
        r = rng.random()
        if self.stream == "overlap" and r < 0.45:
            return "c:" + fset(self.overlap_set(tg))
        if self.stream == "outside" and r < 0.4:
            return "c:" + fset(self.outside_set())
        if rng.random() < 0.65:
            f = rng.choice(self.family)
            if tg and any(k[0] == ("c", f) for k in tg.keys) and rng.random() < 0.3:
                f = self.subset(f)
            return "c:" + fset(f)
        return "o:%d" % rng.choice(self.objpool).gp

    def query_init(self, id_, gp=None):
        rng, ref = self.rng, self.ref
        if id_ >= len(ref.attrs) or not ref.attrs[id_][1] & NI:
            return rng.choice(["-", "-", "c:" + fset(rng.choice(self.family))])
        tgs = [ref.find(id_, gp)] if gp is not None else list(ref.ent.get(id_, []))
        keys = [k for tg in tgs if tg for k in tg.keys]
        r = rng.random()
        if keys and r < 0.7:
            k = rng.choice(keys)[0]
            if k[0] == "c":
                return "c:" + fset(k[1] if r < 0.3 else self.subset(k[1]))
            if k[2] in ref.topo.bygp:
                return "o:%d" % k[2]
        if r < 0.85:
            return "c:" + fset(rng.choice(self.family)) if rng.random() < 0.6 else "o:%d" % rng.choice(self.objpool).gp
        if r < 0.92:
            return "-"
        return "c:" + fset(rng.choice(self.family) | rng.choice(self.family) | self.subset(ref.topo.root))

    # -- individual ops
    def near_name(self, tok):
        """a name colliding with `tok` under some sloppy comparison: case, prefix/suffix, one trailing byte, ..."""
        rng = self.rng
        b = name_bytes(tok)
        r = rng.randrange(9)
        if r == 0:
            v = b.swapcase()
        elif r == 1:
            v = b.lower() if b.lower() != b else b.upper()
        elif r == 2:
            v = b[:-1] if len(b) > 1 else b + b"2"
        elif r == 3:
            v = b + rng.choice([b" ", b"2", b"_", b".", b"\xc3\xa9"])
        elif r == 4:
            v = b[:-1] + bytes([b[-1] ^ rng.choice([1, 0x20, 0x80])]) if b else b"a"
        elif r == 5:
            v = rng.choice([b" ", b"x"]) + b
        elif r == 6:
            v = b[1:] if len(b) > 1 else b + b"x"
        elif r == 7:
            v = b + b"\xc3\xa9" + rng.choice([b"", b"1", b"\xc3\xa8"])      # UTF-8
        else:
            v = b * 40 + rng.choice([b"", b"a", b"A"])                          # long
        v = bytes(c for c in v if c != 0 and c not in (9, 10, 13))
        return name_token(v[:400])

    def g_reg(self):
        rng, attrs = self.rng, self.ref.attrs
        used = [a[0] for a in attrs]
        fresh = [n for n in self.names if n not in used]
        if self.stream == "names" or rng.random() < 0.12:
            r = rng.random()
            if used and r < 0.75:
                name = self.near_name(rng.choice(used))                  # incl. near-collisions with the predefined names
            elif r < 0.85:
                name = rng.choice(["@empty", "a%26b", "a%3Cb%3E", "q%22q", "it%27s", "%25", "two%20words", "%C3%A9", "%40x"])
            else:
                name = rng.choice(fresh or used or self.names)
            flags = rng.choice([1, 2, 5, 6]) if rng.random() < 0.9 else rng.choice([0, 3, 7, 8])
            return "reg %s %d" % (name, flags)
        name = rng.choice(fresh) if fresh and (not used or rng.random() < 0.7) else rng.choice(used or self.names)
        flags = rng.choice([1, 2, 5, 6]) if rng.random() < 0.75 else rng.choice([0, 3, 7, 8, 16])
        return "reg %s %d" % (name, flags)

    def g_set(self):
        id_ = self.pick_id()
        gp = self.pick_target(id_, prefer_existing=self.rng.random() < 0.5)
        return "set %d %d %s 0 %d" % (id_, gp, self.set_init(id_, gp) if not self.ref.isconv(id_) and id_ < len(self.ref.attrs) else "-", self.value())

    def g_get(self):
        id_ = self.pick_id()
        gp = self.pick_target(id_) if not self.ref.isconv(id_) or self.rng.random() < 0.8 else self.rng.choice(self.ref.topo.objs).gp
        return "get %d %d %s 0" % (id_, gp, self.query_init(id_, gp))

    def g_targets(self):
        id_ = self.pick_id()
        init = self.query_init(id_)
        try:
            total = len(self.ref.cands(id_, self.ref.p_loc(init)))
        except BadCase:
            total = 0
        mx = self.maxof(total)
        tnull = 1 if (mx == 0 and self.rng.random() < 0.5) or self.rng.random() < 0.04 else 0
        return "targets %d %s 0 %d %d %d" % (id_, init, mx, tnull, int(self.rng.random() < 0.8))

    def g_inits(self):
        id_ = self.pick_id(want_ni=True if self.rng.random() < 0.9 else None)
        gp = self.pick_target(id_)
        tg = self.ref.find(id_, gp)
        mx = self.maxof(len(tg.keys) if tg else 0)
        inull = 1 if (mx == 0 and self.rng.random() < 0.5) or self.rng.random() < 0.04 else 0
        return "inits %d %d 0 %d %d %d" % (id_, gp, mx, inull, int(self.rng.random() < 0.8))

    def g_bestt(self):
        id_ = self.pick_id()
        return "bestt %d %s 0" % (id_, self.query_init(id_))

    def g_besti(self):
        id_ = self.pick_id(want_ni=True if self.rng.random() < 0.9 else None)
        return "besti %d %d 0" % (id_, self.pick_target(id_))

    def g_local(self):
        rng, t = self.rng, self.ref.topo
        flags = rng.choice(range(8)) if rng.random() < 0.93 else rng.choice([8, 9, 16])
        r = rng.random()
        numa = self.ref.numa()
        if r < 0.3:
            loc = "c:" + fset(rng.choice(t.objs).cpuset)
        elif r < 0.45 and len(numa) >= 2:
            a, b = rng.sample(numa, 2)
            loc = "c:" + fset(a.cpuset | b.cpuset)
        elif r < 0.6:
            pus = t.of_type(self.ref.types["pu"])
            loc = "c:" + fset(rng.choice(pus).cpuset if pus else t.root)
        elif r < 0.9:
            loc = "o:%d" % rng.choice(t.objs).gp
        elif r < 0.94:
            loc = "c:0x0"
        else:
            loc = rng.choice(["-", "n"])
            if flags < 8 and rng.random() < 0.7:
                flags |= 4
            if loc == "n" and not flags & 4:
                loc = "-"
        total = len(numa)
        e = self.ref.expect("local %s %d 4096 0" % (loc, flags))
        if e.info.get("n") is not None:
            total = e.info["n"]
        mx = self.maxof(total)
        nnull = 1 if (mx == 0 and rng.random() < 0.5) or rng.random() < 0.04 else 0
        return "local %s %d %d %d" % (loc, flags, mx, nnull)

    def g_defnodes(self):
        return "defnodes %d" % (0 if self.rng.random() < 0.9 else self.rng.choice([1, 2]))

    def g_getbyname(self):
        rng = self.rng
        used = [a[0] for a in self.ref.attrs]
        if used and (self.stream == "names" or rng.random() < 0.3):
            u = rng.choice(used)
            return "getbyname %s" % (u if rng.random() < 0.5 else self.near_name(u))
        return "getbyname %s" % rng.choice(used + self.names + ["nosuch"])

    def g_getname(self):
        return "getname %d" % self.rng.choice(list(range(len(self.ref.attrs) + 1)))

    def g_getflags(self):
        return "getflags %d" % self.rng.choice(list(range(len(self.ref.attrs) + 1)))

    def g_restrict(self):
        rng, t = self.rng, self.ref.topo
        if self.restricts >= 3 or popcount(t.root) < 2:
            return self.g_get()
        self.restricts += 1
        r = rng.random()
        if r < 0.12:
            return "restrict 0x0 %d" % rng.choice([0, 1])
        if r < 0.17:
            return "restrict %s 0" % fset(1 << 90)
        victims = [o for o in t.objs if o.own and o.cpuset and o.cpuset != t.root]
        if not victims:
            return "restrict %s 0" % fset(t.root)
        keep = t.root & ~rng.choice(victims).cpuset
        if rng.random() < 0.3 and popcount(keep) > 1:
            keep &= ~rng.choice(victims).cpuset
            keep = keep or t.root
        if rng.random() < 0.15:
            keep |= 1 << rng.choice([50, 80])
        return "restrict %s %d" % (fset(keep), rng.choice([0, 0, 1, 1, 2, 3]))

    def g_tierset(self):
        """local bandwidth (id 2) or latency (id 3) of a NUMA node, from a small palette so that nodes fall into
        equal / close (<10%) / clearly different (>2x) classes; latency is a function of the bandwidth class"""
        rng = self.rng
        if not hasattr(self, "bwpal"):
            base = rng.choice([100, 1000, 40000])
            self.bwpal = [base, base, base + base // 25, base + (base * 3) // 20, base + base // 2, base * 3, base * 10]
            self.latof = {b: rng.choice([0, 10, 10, 50, 200]) for b in self.bwpal}
            self.nodebw = {}
        numa = [n for n in self.ref.numa()]
        n = rng.choice(numa)
        if not n.cpuset:
            return "set 2 %d c:%s 0 %d" % (n.gp, fset(self.ref.topo.root), rng.choice(self.bwpal))
        if n.gp in self.nodebw and rng.random() < 0.5:
            lat = self.latof[self.nodebw[n.gp]]
            if lat:
                return "set 3 %d c:%s 0 %d" % (n.gp, fset(n.cpuset), lat)
        bw = rng.choice(self.bwpal)
        self.nodebw[n.gp] = bw
        return "set 2 %d c:%s 0 %d" % (n.gp, fset(n.cpuset), bw)

    def g_xmlt(self):
        rng = self.rng
        env = []
        if rng.random() < 0.85:
            env.append("HWLOC_MEMTIERS_REFRESH=1")
        r = rng.random()
        if r < 0.3:
            env.append("HWLOC_MEMTIERS_GUESS=" + rng.choice(["all", "none", "spm_is_hbm", "node0_is_dram", "spm_is_hbm,node0_is_dram", "whatever"]))
        if rng.random() < 0.2:
            env.append("HWLOC_MEMTIERS_BANDWIDTH_THRESHOLD=" + rng.choice(["0.01", "0.05", "0.3", "1", "5", "0", "x"]))
        if rng.random() < 0.15:
            env.append("HWLOC_MEMTIERS_LATENCY_THRESHOLD=" + rng.choice(["0.01", "0.5", "10"]))
        if rng.random() < 0.25:
            env.append("HWLOC_MEMTIERS=" + forced_tiers(rng, [n.os for n in self.ref.numa()]))
        return "xmlt " + " ".join(env) if env else "xmlt"

    def g_allow(self):
        rng, t = self.rng, self.ref.topo
        r = rng.random()
        if r < 0.12:
            return "allow - - 1"                                     # ALL
        if r < 0.2:
            return rng.choice(["allow - - 0", "allow - - 2", "allow - - 8", "allow %s - 1" % fset(t.root), "allow - - 5",
                               "allow %s - 4" % fset(1 << 100), "allow - %s 4" % fset(1 << 90)])
        c = self.subset(t.root)
        if rng.random() < 0.3:
            c |= 1 << rng.choice([70, 100])                          # bits outside the machine are ignored
        oss = [n.os for n in self.ref.numa()]
        n = sum(1 << o for o in oss if rng.random() < 0.6) or (1 << rng.choice(oss))
        k = rng.random()
        return "allow %s %s 4" % (fset(c) if k < 0.85 else "-", fset(n) if k > 0.5 else "-")

    def g_xmlnf(self):
        return "xmlnf"

    def g_dup(self):
        return "dup"

    def g_xml(self):
        return "xml"

    def g_iset(self):
        rng, ref = self.rng, self.ref
        id_ = self.pick_id()
        if id_ < 2 and rng.random() < 0.7 and self.focus:
            id_ = rng.choice(self.focus)
        n = rng.choice(ref.numa())
        ty = ref.NUMA
        pus = ref.topo.of_type(ref.types["pu"])
        if pus and rng.random() < 0.12:       # the other type that can be addressed by os_index alone
            n, ty = rng.choice(pus), ref.types["pu"]
        form = "%d -1" % n.gp if rng.random() < 0.5 else "-1 %d" % n.os
        if rng.random() < 0.07:
            form = "-1 -1"
        if id_ < len(ref.attrs) and not ref.attrs[id_][1] & NI:
            init = "-"
        else:
            r = rng.random()
            if r < 0.6:
                init = "c:" + fset(rng.choice(self.family))
            elif r < 0.9:
                o = rng.choice(self.objpool)
                init = "oi:%d:%d" % (o.type, o.gp)
            else:
                init = rng.choice(["-", "oi:3:99999", "c:0x0"])
        return "iset %d %d %s %s %d" % (id_, ty, form, init, self.value())

    def corrupt(self, line):
        """malformed stream: break one argument of an otherwise plausible call"""
        rng = self.rng
        t = line.split(" ")
        op = t[0]
        badid = str(rng.choice([len(self.ref.attrs), 1000, 4294967295]))
        idpos = {"set": 1, "get": 1, "targets": 1, "inits": 1, "bestt": 1, "besti": 1, "getname": 1, "getflags": 1}
        tgtpos = {"set": 2, "get": 2, "inits": 2, "besti": 2}
        initpos = {"set": 3, "get": 3, "targets": 2, "bestt": 2}
        flagpos = {"set": 4, "get": 4, "targets": 3, "inits": 3, "bestt": 3, "besti": 3}
        ch = []
        if op in idpos:
            ch.append(("id", idpos[op], badid))
        if op in tgtpos:
            ch.append(("tgt", tgtpos[op], "-"))
        if op in initpos:
            ch.append(("init", initpos[op], rng.choice(["n", "b", "c:0x0", "-", "on"])))
        if op == "reg":
            ch.append(("name", 1, "@null"))
        if op in flagpos:
            ch.append(("flags", flagpos[op], rng.choice(["1", "2", "4294967296"])))
        if op == "local":
            ch.append(("flags", 2, rng.choice(["8", "12", "15"])))
            ch.append(("loc", 1, rng.choice(["b", "-"])))
        if op == "defnodes":
            ch.append(("flags", 1, "1"))
        if not ch:
            return line
        _, pos, val = rng.choice(ch)
        t[pos] = val
        if op == "local" and t[1] == "n" and not int(t[2]) & 4:
            t[1] = "-"
        return " ".join(t)

    def next_op(self):
        rng = self.rng
        op = rng.choices(self.wops, self.wts)[0]
        line = getattr(self, "g_" + op)()
        if self.stream == "malformed" and rng.random() < 0.5:
            line = self.corrupt(line)
        for _ in range(4):
            if not self.ref.expect(line).ub or self.stream in ("uninit", "dupfree"):
                return line
            # would hit undefined behaviour in the C code (uninitialised cached object pointer): ask something else
            line = self.g_get() if rng.random() < 0.6 else self.g_set()
        return "defnodes 0"


class Session:
    def __init__(self, proc):
        self.proc, self.script, self.out = proc, [], []

    def send(self, line):
        self.script.append(line)
        try:
            o = self.proc.cmd(line)
        except Dead as d:
            self.out += d.partial
            raise
        self.out += o
        return o

    def table(self):
        r, tab = parse_op_output(self.send("show"))
        if tab is None:
            raise RuntimeError("no table from the harness")
        return tab


TIER_WORDS = ["DRAM", "HBM", "NVM", "SPM", "GPUMemory", "CXL-DRAM", "CXL-HBM", "CXL-NVM", "CXL-SPM", "CXL-GPUMemory", "dram", "Bogus"]


def forced_tiers(rng, oss):
    """a value for HWLOC_MEMTIERS over the NUMA os_indexes `oss` (sometimes malformed / partial / `none`)"""
    r = rng.random()
    if r < 0.08:
        return "none"
    if r < 0.14:
        return rng.choice(["0x0=DRAM", "novalue", "0x1", "=HBM", "0x1=DRAM;novalue", "0x1=HBM;0x0=DRAM", "0x1=DRAM;"])
    oss = list(oss)
    rng.shuffle(oss)
    k = rng.randint(1, min(3, len(oss)))
    parts = [oss[i::k] for i in range(k)]
    if rng.random() < 0.3 and len(parts) > 1:
        parts.pop()                      # some nodes in no tier
    return ";".join("%s=%s" % (fset(sum(1 << o for o in p)), rng.choice(TIER_WORDS)) for p in parts if p)


def gen_header(rng, s, name, force=None, hetero=False, tiers=False, allow=False, nomem=False):
    """case / env / synth / pre_restrict / misc / mem / subtype / info / start.  Returns (topokind, Topo)"""
    kind, desc = pick_topology(rng)
    alts = []
    nn0 = None
    if hetero or (tiers and rng.random() < 0.6):
        kind, alts, nn0 = hetero_topology(rng)
        desc = alts.pop(0)
    if force:
        kind, desc = "scripted", force
    s.send("case " + name)
    xmlin = None
    if nomem or (not force and rng.random() < 0.1):
        fl = [f for f in ("no_distances", "no_cpukinds") if rng.random() < 0.4]
        if nomem or rng.random() < 0.3:
            fl.append("no_memattrs")
        if fl:
            s.send("topoflag " + " ".join(fl))
            kind += "+" + "+".join(fl)
    if allow or (not force and rng.random() < 0.12):
        s.send("include_disallowed")
        kind += "+incl"
        if allow and rng.random() < 0.35:
            # XML inputs of the source tree whose allowed sets are strict subsets of the machine
            xmlin = rng.choice(["16amd64-8n2c-cpusets.xml", "irregulargroups-disallowed.xml", "16em64t-4s2c2t-offlines.xml"])
            kind, alts = "xml-" + xmlin.split(".")[0] + "+incl", []
    if tiers and rng.random() < 0.35:
        # memory-tier knobs seen by the load of the synthetic topology itself
        n = nn0 or rng.randint(2, 4)
        s.send("env HWLOC_MEMTIERS=" + forced_tiers(rng, range(n)))
        if rng.random() < 0.3:
            s.send("env HWLOC_MEMTIERS_GUESS=" + rng.choice(["all", "none", "node0_is_dram"]))
        kind += "+loadenv"
    o = s.send("xmlfile @REPO@/tests/hwloc/xml/" + xmlin) if xmlin else s.send("synth " + desc)
    while "P synth rc=0" not in o and alts:      # shuffled indexes refused: same shape with default numbering
        s.script.pop()
        desc = alts.pop(0)
        kind += "-plainidx"
        o = s.send("synth " + desc)
    if "P synth rc=0" not in o:
        raise RuntimeError("synthetic description does not load: %r (%r)" % (desc, o))
    t = s.table()
    numa_t = s.proc.types["numa"]
    if rng.random() < 0.25 and not force and not xmlin:
        c = [n for n in t.of_type(numa_t) if n.cpuset and t.root & ~n.cpuset]
        if c:
            n = rng.choice(c)
            s.send("pre_restrict %s 0" % fset(t.root & ~n.cpuset))
            t = s.table()
            kind += "+cpuless"
    if rng.random() < 0.45:
        gps = [o.gp for o in t.objs]
        for j in range(rng.randint(1, 3)):
            o = s.send("misc %d m%d" % (rng.choice(gps), j))
            for l in o:
                if l.startswith("P misc rc=0 gp="):
                    gps.append(int(l.split("gp=")[1]))
        kind += "+misc"
    nn = len(t.of_type(numa_t))
    if rng.random() < 0.4:
        for _ in range(rng.randint(1, 3)):
            s.send("mem %d %d" % (rng.randrange(nn), rng.choice([0, 512, 1024, 4096])))
    if tiers:
        # what hwloc__group_memory_tiers looks at: GPUMemory subtype, DAXType / CXLDevice infos, pre-existing subtypes
        for i in range(nn):
            r = rng.random()
            if r < 0.12:
                s.send("subtype %d GPUMemory" % i)
            elif r < 0.27:
                s.send("info %d DAXType %s" % (i, rng.choice(["NVM", "SPM", "SPM", "Other"])))
            elif r < 0.34:
                s.send("subtype %d %s" % (i, rng.choice(["DRAM", "HBM", "Old"])))
            if rng.random() < 0.1:
                s.send("info %d CXLDevice cxl%d" % (i, i))
        kind += "+tierinfo"
    elif hetero:
        # heterogeneous subtypes: two classes dominate, some nodes without subtype
        classes = rng.sample(["DRAM", "HBM", "NVM"], 2)
        pnone = rng.choice([0.0, 0.2, 0.5])
        for i in range(nn):
            if rng.random() >= pnone:
                s.send("subtype %d %s" % (i, rng.choice(classes + classes + ["NVM"])))
        kind += "+subtype"
    elif rng.random() < 0.25:
        for _ in range(rng.randint(1, min(3, nn))):
            s.send("subtype %d %s" % (rng.randrange(nn), rng.choice(["DRAM", "HBM", "NVM"])))
        kind += "+subtype"
    r, t = parse_op_output(s.send("start"))
    if t is None:
        raise RuntimeError("no table after start")
    return kind, t


def gen_case(rng, proc, name, stream, first=False):
    """Drive one case interactively.  Returns (Case, output lines); raises Dead
    (with .case/.out attached) when the harness dies."""
    s = Session(proc)
    try:
        kind = "?"
        force = None
        if stream in ("uninit", "dupfree"):
            force = rng.choice(["pack:2 [numa] core:2 pu:1", "pack:3 [numa(memory=512)] core:2 pu:2", "numa:2 core:2 pu:1"])
        kind, topo = gen_header(rng, s, name, force, hetero=(stream == "hetero"), tiers=(stream == "tiers"), allow=(stream == "allow"), nomem=(stream == "nomem"))
        ref = Ref(proc.types)
        ref.topo = topo
        ref.read_header([l for l in s.script if l.split(" ")[0] in ("info", "env", "subtype", "pre_restrict", "include_disallowed", "topoflag")], None)
        og = OpGen(rng, ref, stream)
        ops = []
        if first:
            for i in range(9):
                ops += ["getname %d" % i, "getflags %d" % i]
        if ref.nomem:
            # no predefined attributes: the application's own attributes take ids 0, 1, 2, ... (both kinds, both orders)
            fl = [1, 2, 5, 6]
            rng.shuffle(fl)
            for j, f in enumerate(fl[:rng.randint(2, 4)] + ([rng.choice([5, 6])] if rng.random() < 0.5 else [])):
                ops.append("reg u%d %d" % (j, f))
        if stream == "uninit":
            numa = ref.numa()[0]
            objs = [o for o in topo.objs if o.type in (proc.types["core"], proc.types["pu"])][:2]
            variant = rng.randrange(3)
            if variant == 2:
                id_ = 2
            else:
                ops.append("reg uninit%d %d" % (variant, 5 if variant == 0 else 6))
                id_ = len(ref.attrs)
            ops += ["set %d %d o:%d 0 10" % (id_, numa.gp, objs[0].gp), "get %d %d o:%d 0" % (id_, numa.gp, objs[0].gp),
                    "set %d %d o:%d 0 %d" % (id_, numa.gp, objs[1].gp, 20 if variant != 1 else 5)]
            ops.append("inits %d %d 0 4 0 1" % (id_, numa.gp) if variant != 1 else "besti %d %d 0" % (id_, numa.gp))
            nops = 0
        elif stream == "dupfree":
            # every target of an attribute vanishes, a query refreshes it (nr_targets=0, array kept), then dup
            numa = ref.numa()
            a, b = numa[0], numa[-1]
            id_ = rng.choice([2, 3, 5])
            ops += ["set %d %d c:%s 0 10" % (id_, b.gp, fset(b.cpuset)), "restrict %s 1" % fset(topo.root & ~b.cpuset),
                    rng.choice(["get %d %d c:%s 0" % (id_, a.gp, fset(a.cpuset)), "bestt %d c:%s 0" % (id_, fset(a.cpuset)),
                                "targets %d - 0 4 0 1" % id_]), "dup"]
            if rng.random() < 0.5:
                ops.append("set %d %d c:%s 0 20" % (id_, a.gp, fset(a.cpuset)))
            nops = 0
        else:
            nops = rng.randint(5, 40)
        i = 0
        while True:
            if ops:
                line = ops.pop(0)
            elif nops > 0:
                nops -= 1
                line = og.next_op()
            else:
                break
            before = {k: [tg.gp for tg in v] for k, v in ref.ent.items()} if line.startswith("restrict ") else None
            r, tab = parse_op_output(s.send(line))
            if r is None:
                raise RuntimeError("no R line for %r" % line)
            ref.step(i, line, r, tab)
            i += 1
            if before is not None and r.startswith("R restrict rc=0"):
                # the attribute caches are stale now: the very next call on an attribute that lost a target must
                # refresh BEFORE it looks its target up (the refresh compacts the array).  Ask right away for a
                # target stored after a vanished one.
                for id_, gps in before.items():
                    left = [tg.gp for tg in ref.ent.get(id_, [])]
                    if len(left) < len(gps) and left and id_ < len(ref.attrs):
                        gone_pos = min(k for k, g in enumerate(gps) if g not in left)
                        later = [g for g in gps[gone_pos:] if g in left] or left
                        gp = rng.choice(later)
                        ni = ref.attrs[id_][1] & NI
                        cand = ["get %d %d %s 0" % (id_, gp, og.query_init(id_, gp))]
                        if ni:
                            cand += ["inits %d %d 0 4 0 1" % (id_, gp), "besti %d %d 0" % (id_, gp)]
                        ops.insert(0, rng.choice(cand))
                        break
            if line.split(" ")[0] in ("restrict", "dup", "xml", "xmlt", "xmlnf"):
                if tab is not None and r.startswith("R restrict rc=0"):
                    og.gone |= topo.root & ~tab.root
                og.refresh()
        s.send("end")
    except Dead as d:
        d.case = _mkcase(s, name, stream, kind)
        d.out = s.out
        raise
    return _mkcase(s, name, stream, kind), s.out


def _mkcase(s, name, stream, kind):
    cs = parse_cases("\n".join(s.script) + "\n")
    c = cs[0] if cs else Case(name, [], [])
    c.meta.update({"stream": stream, "topo": kind})
    return c


def generate(rng, exe, env, plan, deadline=None):
    """plan: [(name, stream)].  One harness process for all cases except the
    `uninit` stream (own process each) and restarts after a crash.
    Returns (types, runs, exit_failures): runs = [{case, out, crash}],
    exit_failures = [{rc, kind, stderr, cases:[Case]}] (e.g. leaks seen at exit)."""
    import time
    runs, exit_failures, types = [], [], dict(DEFAULT_TYPES)
    proc, pcases = None, []

    def finish(p, cs):
        rc, err = p.close()
        if rc != 0:
            exit_failures.append({"rc": rc, "kind": crash_kind(rc, err), "stderr": err, "cases": list(cs)})

    for n, (name, stream) in enumerate(plan):
        if deadline is not None and time.time() > deadline:
            break
        own = stream in ("uninit", "dupfree")
        p = Proc(exe, env) if own or proc is None else proc
        types.update(p.types)
        if not own:
            proc = p
        try:
            case, out = gen_case(rng, p, name, stream, first=(n == 0))
            runs.append({"case": case, "out": out, "crash": None})
            if own:
                finish(p, [case])
            else:
                pcases.append(case)
        except Dead as d:
            rc, err = p.close()
            runs.append({"case": d.case, "out": d.out, "crash": {"rc": rc, "kind": "timeout" if d.why == "timeout" else crash_kind(rc, err), "stderr": err}})
            if not own:
                proc, pcases = None, []
    if proc is not None:
        finish(proc, pcases)
    return types, runs, exit_failures
