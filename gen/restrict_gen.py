"""C08 generators: topologies (synthetic descriptions, generated XML trees with
asymmetric structure, CPU-less NUMA nodes, memory-side caches, I/O and Misc
objects, XML corpus), restriction sets and flag words, scripts for
harness/hwv_restrict.c, and a script shrinker.  python3 stdlib only."""
import os
import re

from gen import topo_sources as TS

ALLFLAGS = list(range(32))
VALID_FLAGS = [f for f in range(32) if not ((f & 8) and (f & 1)) and not (not (f & 8) and (f & 16))]


# ---------------------------------------------------------------------------
# generated XML trees

class Node:
    def __init__(self, ty, os_index=None):
        self.ty = ty
        self.os = os_index
        self.n = []   # normal children
        self.m = []   # memory children
        self.i = []   # I/O children
        self.x = []   # Misc children
        self.cs = 0
        self.nds = 0
        self.attrs = {}


NORMAL_ORDER = ["Group", "Package", "Die", "L3Cache", "L2Cache", "L1Cache", "Core"]


def gen_tree(rng, max_pus=20):
    """Random tree: returns (root, list of PU os indexes, list of NUMA os indexes)."""
    st = {"pu": 0, "numa": 0, "idx": {}, "pci": 0}
    budget = rng.randint(2, max_pus)

    def next_idx(ty):
        st["idx"][ty] = st["idx"].get(ty, 0) + 1
        return st["idx"][ty] - 1

    def build(level, parent):
        # level: index in NORMAL_ORDER from which deeper types may be chosen
        if st["pu"] >= budget:
            return
        choices = [k for k in range(level, len(NORMAL_ORDER))]
        if not choices or rng.random() < 0.25:
            # PUs directly
            for _ in range(rng.choice([1, 1, 2, 2, 3, 4])):
                if st["pu"] >= budget and parent.n:
                    break
                pu = Node("PU", st["pu"])
                st["pu"] += 1
                parent.n.append(pu)
            return
        k = rng.choice(choices[:3])
        ty = NORMAL_ORDER[k]
        arity = rng.choice([1, 1, 2, 2, 2, 3])
        for a in range(arity):
            if st["pu"] >= budget and parent.n:
                break
            c = Node(ty, next_idx(ty))
            # asymmetry: a sibling may skip a level or go deeper
            build(k + 1 + (1 if rng.random() < 0.2 else 0), c)
            if c.n:
                parent.n.append(c)

    root = Node("Machine", 0)
    while not root.n:
        build(0, root)

    # PU os indexes: contiguous, shuffled, or with gaps (boundary 63/64 now and then)
    npu = st["pu"]
    mode = rng.random()
    if mode < 0.6:
        mapping = list(range(npu))
    elif mode < 0.8:
        mapping = list(range(npu))
        rng.shuffle(mapping)
    elif mode < 0.9:
        mapping = sorted(rng.sample(range(0, 3 * npu + 2), npu))
    else:
        base = rng.choice([60, 62, 63, 120])
        mapping = [base + j for j in range(npu)]

    def all_nodes(o, acc):
        acc.append(o)
        for c in o.n + o.m + o.i + o.x:
            all_nodes(c, acc)
        return acc

    normals = [o for o in all_nodes(root, []) if o.ty != "PU"]
    # NUMA nodes: attached to random non-PU normal objects
    nnuma = rng.choice([1, 1, 2, 2, 3, 4])
    numa_os = sorted(rng.sample(range(0, 2 * nnuma + 1), nnuma)) if rng.random() < 0.3 else list(range(nnuma))
    hosts = []
    for j in range(nnuma):
        if rng.random() < 0.3 or len(normals) == 1:
            h = root
        else:
            h = rng.choice(normals)
        hosts.append(h)
    for j, h in enumerate(hosts):
        nn = Node("NUMANode", numa_os[j])
        nn.attrs["local_memory"] = str(rng.choice([0, 4096, 1 << 20, 1 << 30]))
        if rng.random() < 0.2:
            mc = Node("MemCache")
            mc.attrs.update({"cache_size": "1048576", "depth": "1", "cache_linesize": "64", "cache_associativity": "1", "cache_type": "0"})
            mc.m.append(nn)
            h.m.append(mc)
        else:
            h.m.append(nn)
    # CPU-less NUMA nodes: a Group (or Package) without any PU, holding one more NUMA node
    if rng.random() < 0.35:
        for _ in range(rng.choice([1, 1, 2])):
            ty = rng.choice(["Group", "Package"])
            g = Node(ty, 100 + next_idx(ty))
            nn = Node("NUMANode", max(numa_os) + 1)
            numa_os.append(nn.os)
            nn.attrs["local_memory"] = str(1 << 20)
            g.m.append(nn)
            root.n.append(g)      # empty cpuset: ordered last
            normals.append(g)

    def pci_chain(host):
        hb = Node("Bridge")
        bus = st["pci"] + 1
        st["pci"] += 2
        hb.attrs.update({"bridge_type": "0-1", "depth": "0", "bridge_pci": "0000:[%02x-%02x]" % (bus, bus + 1)})
        cur = hb
        if rng.random() < 0.4:
            pb = Node("Bridge")
            pb.attrs.update({"bridge_type": "1-1", "depth": "1", "bridge_pci": "0000:[%02x-%02x]" % (bus + 1, bus + 1),
                             "pci_busid": "0000:%02x:01.0" % bus, "pci_type": "0604 [8086:3408] [0000:0000] 13 00"})
            hb.i.append(pb)
            cur = pb
            bus += 1
        for f in range(rng.choice([1, 1, 2])):
            dev = Node("PCIDev")
            dev.attrs.update({"pci_busid": "0000:%02x:00.%d" % (bus, f), "pci_type": "0200 [8086:10c9] [003c:003f] 01 00"})
            if rng.random() < 0.6:
                od = Node("OSDev")
                od.attrs.update({"name": "eth%d" % st["pci"], "osdev_type": "16"})
                dev.i.append(od)
            cur.i.append(dev)
        host.i.append(hb)

    if rng.random() < 0.7:
        for _ in range(rng.choice([1, 1, 2, 3])):
            pci_chain(rng.choice(normals))
    # Misc objects anywhere (normal incl. PU, memory, I/O, Misc)
    if rng.random() < 0.75:
        for j in range(rng.choice([1, 2, 2, 3, 5])):
            everything = all_nodes(root, [])
            h = rng.choice(everything)
            mo = Node("Misc")
            mo.attrs["name"] = "misc%d" % j
            h.x.append(mo)

    # Group levels with dont_merge on none / all / a random subset of the Groups
    dm_mode = rng.choice(["none"] * 6 + ["all"] + ["mixed"] * 3)
    if dm_mode != "none":
        for g in all_nodes(root, []):
            if g.ty == "Group" and (dm_mode == "all" or rng.random() < 0.5):
                g.attrs["dont_merge"] = "1"

    # sets
    def fill_cs(o):
        if o.ty == "PU":
            o.os = mapping[o.os]
            o.cs = 1 << o.os
        else:
            o.cs = 0
            for c in o.n:
                fill_cs(c)
                o.cs |= c.cs
            o.n.sort(key=lambda c: (c.cs == 0, (c.cs & -c.cs)))
        return o.cs

    fill_cs(root)

    def below_nodes(mobj):
        if mobj.ty == "NUMANode":
            return 1 << mobj.os
        r = 0
        for c in mobj.m:
            r |= below_nodes(c)
        return r

    def fill_nds(o, inherited):
        local = 0
        for c in o.m:
            local |= below_nodes(c)
        o.m.sort(key=lambda c: (below_nodes(c) & -below_nodes(c)))
        below = local
        for c in o.n:
            below |= fill_nds(c, inherited | local)
        o.nds = inherited | below

        def fill_mem(mo):
            mo.cs = o.cs
            mo.nds = below_nodes(mo)
            for cc in mo.m:
                fill_mem(cc)
        for c in o.m:
            fill_mem(c)
        return below

    fill_nds(root, 0)
    pus = sorted(mapping)
    return root, pus, sorted(numa_os)


def _mask(v):
    """hwloc XML bitmap syntax: comma-separated 32-bit words, most significant first."""
    if v == 0:
        return "0x0"
    words = []
    while v:
        words.append(v & 0xffffffff)
        v >>= 32
    return ",".join("0x%08x" % w for w in reversed(words))


def tree_to_xml(root, rng=None, extra_complete=0, allowed_cs=None, dont_merge_groups=False, allowed_nds=None):
    out = ['<?xml version="1.0" encoding="UTF-8"?>', '<!DOCTYPE topology SYSTEM "hwloc2.dtd">', '<topology version="3.0">']
    gp = [0]

    def emit(o, ind):
        gp[0] += 1
        a = ['type="%s"' % o.ty]
        if o.os is not None:
            a.append('os_index="%d"' % o.os)
        if o.ty not in ("Bridge", "PCIDev", "OSDev", "Misc"):
            ccs = o.cs | (extra_complete if o.ty == "Machine" else 0)
            a.append('cpuset="%s" complete_cpuset="%s"' % (_mask(o.cs), _mask(ccs)))
            if o.ty == "Machine":
                a.append('allowed_cpuset="%s"' % _mask(o.cs if allowed_cs is None else allowed_cs))
            a.append('nodeset="%s" complete_nodeset="%s"' % (_mask(o.nds), _mask(o.nds)))
            if o.ty == "Machine":
                a.append('allowed_nodeset="%s"' % _mask(o.nds if allowed_nds is None else allowed_nds))
        a.append('gp_index="%d" id="obj%d"' % (gp[0], gp[0]))
        if o.ty == "Group":
            a.append('kind="0" subkind="0"' + (' dont_merge="1"' if dont_merge_groups else ""))
        if o.ty in ("L3Cache", "L2Cache", "L1Cache"):
            d = int(o.ty[1])
            a.append('cache_size="%d" depth="%d" cache_linesize="64" cache_associativity="8" cache_type="%d"' % (32768 << (3 * d), d, 1 if d == 1 else 0))
        for k, v in o.attrs.items():
            a.append('%s="%s"' % (k, v))
        kids = o.m + o.n + o.i + o.x
        if not kids:
            out.append("%s<object %s/>" % (ind, " ".join(a)))
        else:
            out.append("%s<object %s>" % (ind, " ".join(a)))
            for c in kids:
                emit(c, ind + "  ")
            out.append("%s</object>" % ind)

    emit(root, "  ")
    out.append("</topology>")
    return "\n".join(out) + "\n"


# ---------------------------------------------------------------------------
# restriction sets

def set_text(bits, inf=False, nwords=None):
    """<inf>:<hex> as the harness parses it (bits above the given hex follow inf)."""
    top = max(bits) if bits else 0
    n = nwords or (top // 64 + 1)
    v = 0
    for b in bits:
        v |= 1 << b
    if inf:
        full = (1 << (64 * n)) - 1
        # bits listed are the members below 64*n; everything above is set
        return "1:%0*x" % (16 * n, v & full)
    return "0:%0*x" % (16 * n, v)


def gen_set(rng, universe, kind=None):
    """universe: sorted list of indexes present in the topology (PUs or NUMA nodes)."""
    kind = kind or rng.choice(["subset", "subset", "subset", "subset", "single", "allbutone", "stride", "half",
                               "superset", "disjoint", "empty", "infinite", "full", "infsub", "mixed"])
    u = list(universe) or [0]
    top = max(u)
    if kind == "subset":
        k = rng.randint(1, max(1, len(u)))
        return kind, set_text(sorted(rng.sample(u, k)))
    if kind == "single":
        return kind, set_text([rng.choice(u)])
    if kind == "allbutone":
        d = rng.choice(u)
        return kind, set_text([b for b in u if b != d] or [d])
    if kind == "stride":
        st = rng.choice([2, 2, 3, 4])
        off = rng.randrange(st)
        sel = [b for j, b in enumerate(u) if j % st == off]
        return kind, set_text(sel or [u[0]])
    if kind == "half":
        h = max(1, len(u) // 2)
        return kind, set_text(u[:h] if rng.random() < 0.5 else u[h:] or u[:h])
    if kind == "superset":
        return kind, set_text(u + [top + 1 + rng.randrange(70)])
    if kind == "disjoint":
        absent = [b for b in range(top + 1) if b not in u]
        return kind, set_text([top + 1 + rng.randrange(70)] + (absent[:1] if absent else []))
    if kind == "empty":
        return kind, "0:0"
    if kind == "infinite":
        # everything from some index on
        lo = rng.choice([0, 1, top, top + 1, 64])
        n = lo // 64 + 1
        return kind, set_text([b for b in range(lo, 64 * n)], inf=True, nwords=n)
    if kind == "full":
        return kind, "1:0" if rng.random() < 0.5 else set_text(list(range(64)), inf=True, nwords=1)
    if kind == "infsub":
        # infinite set that excludes some present indexes
        drop = set(rng.sample(u, rng.randint(1, len(u))))
        n = top // 64 + 1
        return kind, set_text([b for b in range(64 * n) if b not in drop], inf=True, nwords=n)
    # mixed: some present, some absent indexes
    k = rng.randint(1, len(u))
    return kind, set_text(sorted(set(rng.sample(u, k) + [rng.randrange(top + 66) for _ in range(2)])))


def gen_flags(rng):
    r = rng.random()
    if r < 0.75:
        return rng.choice(VALID_FLAGS)
    if r < 0.95:
        return rng.choice(ALLFLAGS)
    return rng.choice([32, 33, 64, 1 << 31, (1 << 32) + 8, 255])


def gen_steps(rng, pus, numas, nsteps=None):
    steps = []
    n = nsteps or rng.choice([1, 1, 2, 2, 3, 4])
    for _ in range(n):
        fl = gen_flags(rng)
        uni = numas if (fl & 8) else pus
        kind, s = gen_set(rng, uni)
        steps.append((kind, "restrict %s %d" % (s, fl)))
    return steps


# ---------------------------------------------------------------------------
# cases: (name, kind, config lines, annotation lines, step lines)

def synthetic_universe(desc):
    """(number of PUs, number of NUMA nodes) of a description produced by topo_sources.gen_synthetic."""
    total = 1
    numa = 0
    for it in desc.split():
        m = re.match(r"^\[numa", it)
        if m:
            numa += total
            continue
        m = re.match(r"^([a-z0-9]+):(\d+)", it)
        if m:
            total *= int(m.group(2))
            if m.group(1) == "numa":
                numa += total
    return total, max(numa, 1)


def misc_annotations(rng, depth_guess=4):
    lines = []
    for j in range(rng.choice([0, 1, 2, 3])):
        d = rng.choice([0, 1, 1, 2, 2, 3, depth_guess, -3, -7])
        lines.append("misc %d %d m%d" % (d, rng.randrange(4), j))
    for j in range(rng.choice([0, 0, 1, 2])):
        lines.append("ud %d %d" % (rng.choice([0, 1, 2, 3, -3, -7]), rng.randrange(4)))
    return lines


def gen_group_history(rng):
    """Groups inserted by the application (hwloc_topology_insert_group_object) over sibling objects, dont_merge on a
    random subset, insertion order varied; then restrictions that leave every Group with a single child, so that the
    Group level becomes structurally redundant.  Returns (config lines, annotation lines, step lines, description)."""
    npack = rng.choice([1, 1, 2])
    per = rng.choice([4, 4, 6, 8])              # members per package
    npu = rng.choice([1, 1, 2])
    mtype, mname = rng.choice([(3, "core"), (3, "core"), (6, "l2"), (2, "die")])
    desc = ("pack:%d " % npack) + "%s:%d pu:%d" % (mname, per, npu)
    gsize = rng.choice([2, 2, 3]) if per >= 6 else 2
    groups = []                                  # (member indexes)
    for p in range(npack):
        base = p * per
        k = 0
        while k + gsize <= per:
            if rng.random() < 0.9:
                groups.append(list(range(base + k, base + k + gsize)))
            k += gsize
    mode = rng.choice(["mixed", "mixed", "mixed", "none", "all", "first", "last"])
    dms = []
    for j in range(len(groups)):
        if mode == "mixed":
            dms.append(1 if rng.random() < 0.5 else 0)
        elif mode == "first":
            dms.append(1 if j == 0 else 0)
        elif mode == "last":
            dms.append(1 if j == len(groups) - 1 else 0)
        else:
            dms.append(1 if mode == "all" else 0)
    order = list(range(len(groups)))
    if rng.random() < 0.5:
        rng.shuffle(order)
    ann = ["group %d %d %s" % (dms[j], mtype, " ".join(map(str, groups[j]))) for j in order]
    if rng.random() < 0.4:
        ann.append("misc 2 %d onGroup" % rng.randrange(max(1, len(groups))))
    total = npack * per * npu
    # one member per Group survives (its first PU, or all its PUs)
    keep = []
    for g in groups:
        mbr = rng.choice(g)
        keep += [mbr * npu] if rng.random() < 0.6 else [mbr * npu + u for u in range(npu)]
    grouped = set(m for g in groups for m in g)
    for mbr in range(npack * per):
        if mbr not in grouped and rng.random() < 0.3:
            keep.append(mbr * npu)
    steps = []
    if rng.random() < 0.3:
        # a first, milder restriction
        first = sorted(set(keep + rng.sample(range(total), rng.randint(1, total))))
        steps.append("restrict %s %d" % (set_text(first), rng.choice([0, 0, 2, 4, 6])))
    steps.append("restrict %s %d" % (set_text(sorted(set(keep)) or [0]), rng.choice([0, 0, 0, 1, 2, 3, 6, 7])))
    if rng.random() < 0.3:
        steps += [s for _, s in gen_steps(rng, sorted(set(keep)) or [0], [0], nsteps=1)]
    return ["filter 19 0", "src synthetic " + desc], ann, steps, "%s|%s|dm=%s" % (desc, mode, "".join(map(str, dms)))


def gen_disallowed_history(rng):
    """Topologies whose disallowed PUs / NUMA nodes were dropped at load, so that cpuset != complete_cpuset and
    nodeset != complete_nodeset on the surviving objects: load with INCLUDE_DISALLOWED, hwloc_topology_allow(CUSTOM),
    XML export, reload without the flag; then restrictions whose sets also name the dropped indexes.
    Returns (config lines, annotation lines, step lines, description)."""
    shape = rng.choice(["pn", "pn", "attach", "msc", "grp"])
    P = rng.choice([2, 3, 4])
    U = rng.choice([1, 2])
    if shape == "pn":
        desc, npu, nnuma = "pack:%d numa:1 pu:%d" % (P, U), P * U, P
    elif shape == "attach":
        C = rng.choice([1, 2])
        desc, npu, nnuma = "pack:%d [numa] core:%d pu:%d" % (P, C, U), P * C * U, P
    elif shape == "msc":
        desc, npu, nnuma = "numa:%d(memorysidecachesize=4096) core:2 pu:%d" % (P, U), P * 2 * U, P
    else:
        desc, npu, nnuma = "group:%d [numa] core:2 pu:%d" % (P, U), P * 2 * U, P
    pus, numas = list(range(npu)), list(range(nnuma))
    what = rng.choice(["node", "node", "cpu", "both"])
    acs = "-"
    ans = "-"
    if what in ("cpu", "both"):
        acs = set_text(sorted(rng.sample(pus, rng.randint(1, max(1, npu - 1)))))
    if what in ("node", "both"):
        ans = set_text(sorted(rng.sample(numas, rng.randint(1, max(1, nnuma - 1)))))
    cfg = ["filter 19 0", "filter 15 0", "flags 1", "src synthetic " + desc]
    ann = ["allow 4 %s %s" % (acs, ans), "reload 0"]
    if rng.random() < 0.3:
        ann.append("misc %d %d m" % (rng.choice([1, 2, -3]), rng.randrange(3)))
    steps = []
    for _ in range(rng.choice([1, 1, 2, 3])):
        fl = rng.choice([24, 24, 26, 8, 8, 12, 0, 0, 1, 3, 7, 30]) if rng.random() < 0.85 else gen_flags(rng)
        kind, s = gen_set(rng, numas if (fl & 8) else pus)      # the universe still names the dropped indexes
        steps.append("restrict %s %d" % (s, fl))
    return cfg, ann, steps, "%s|allow %s %s" % (desc, acs, ans)


def script_of(cfg, ann, steps):
    return ["new"] + cfg + ["load"] + ann + steps + ["destroy"]


def shrink(lines, still_fails):
    """Delta-debugging over the removable lines (annotations and restrict steps) of a script."""
    fixed = lambda l: not (l.startswith("restrict ") or l.startswith("misc ") or l.startswith("ud ") or l.startswith("group ") or l.startswith("allow ") or l.startswith("reload "))
    cur = list(lines)
    changed = True
    while changed:
        changed = False
        for k in range(len(cur)):
            if fixed(cur[k]):
                continue
            cand = cur[:k] + cur[k + 1:]
            if still_fails(cand):
                cur = cand
                changed = True
                break
    return cur
