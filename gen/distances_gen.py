"""C13: case generators, transcript parser, declarative oracle (the executable
form of the property statement evaluated on what the C code printed) and a
line-level shrinker.  python3 stdlib only."""
import re

TOPOLOGIES = [
    "numa:4 core:2 pu:2",
    "pack:2 numa:2 core:2 pu:1",
    "numa:2 pack:2 core:2 pu:1",
    "group:2 numa:2 core:2 pu:1",
    "pack:2 l3:2 core:2 pu:2",
    "numa:3 core:3 pu:1",
    # several Group levels, the deepest one right above the PUs (gp_index lookup over HWLOC_TYPE_DEPTH_MULTIPLE)
    "group:2 group:3 pu:2",
    "pack:2 group:2 group:2 pu:2",
]
LONG_NAME = "L" + "ong-name_0123456789" * 12
# "-" is NULL, '""' is the empty string; a shared name, XML-special characters, a long name
NAMES = ["lat", "bw", "hops", "x", "NUMALatency", "-", '""', "a&b<c>'q\"=", LONG_NAME]


def constants(tables_v):
    c = {}
    for m in re.finditer(r"Definition (\w+) : N := (\d+)\.", open(tables_v).read()):
        c[m.group(1)] = int(m.group(2))
    for m in re.finditer(r"Definition (\w+) : Z := \((-?\d+)\)%Z\.", open(tables_v).read()):
        c[m.group(1)] = int(m.group(2))
    return c


class K:
    """constants of the current source (from Gen/Tables.v)"""

    def __init__(self, c):
        self.c = c
        # the oracle builds its masks from the public enumerators of distances.h, not
        # from the private *_ALL macros of distances.c (the model uses those)
        self.FROM_ALL = c["HWLOC_DISTANCES_KIND_FROM_OS"] | c["HWLOC_DISTANCES_KIND_FROM_USER"]
        self.VALUE_ALL = c["HWLOC_DISTANCES_KIND_VALUE_LATENCY"] | c["HWLOC_DISTANCES_KIND_VALUE_BANDWIDTH"] | c["HWLOC_DISTANCES_KIND_VALUE_HOPS"]
        self.HETERO = c["HWLOC_DISTANCES_KIND_HETEROGENEOUS_TYPES"]
        self.KIND_ALL = self.FROM_ALL | self.VALUE_ALL | self.HETERO
        self.BW = c["HWLOC_DISTANCES_KIND_VALUE_BANDWIDTH"]
        self.ADD_ALL = c["HWLOC_DISTANCES_ADD_FLAG_GROUP"] | c["HWLOC_DISTANCES_ADD_FLAG_GROUP_INACCURATE"]
        self.NONE = c["HWLOC_OBJ_TYPE_NONE_U"]
        self.PU = c["HWLOC_OBJ_PU"]
        self.NUMA = c["HWLOC_OBJ_NUMANODE"]
        self.CORE = c["HWLOC_OBJ_CORE"]
        self.PACKAGE = c["HWLOC_OBJ_PACKAGE"]
        self.GROUP = c["HWLOC_OBJ_GROUP"]
        self.L3 = c["HWLOC_OBJ_L3CACHE"]
        self.special = {c["HWLOC_TYPE_DEPTH_NUMANODE"]: c["HWLOC_OBJ_NUMANODE"],
                        c["HWLOC_TYPE_DEPTH_BRIDGE"]: c["HWLOC_OBJ_BRIDGE"],
                        c["HWLOC_TYPE_DEPTH_PCI_DEVICE"]: c["HWLOC_OBJ_PCI_DEVICE"],
                        c["HWLOC_TYPE_DEPTH_OS_DEVICE"]: c["HWLOC_OBJ_OS_DEVICE"],
                        c["HWLOC_TYPE_DEPTH_MISC"]: c["HWLOC_OBJ_MISC"],
                        c["HWLOC_TYPE_DEPTH_MEMCACHE"]: c["HWLOC_OBJ_MEMCACHE"]}

    def kind_valid(self, k):
        """what the documentation of hwloc_distances_add_create allows the code to accept:
        no unknown bit, at most one FROM_*, at most one VALUE_*"""
        return (k & ~self.KIND_ALL) == 0 and bin(k & self.FROM_ALL).count("1") <= 1 and bin(k & self.VALUE_ALL).count("1") <= 1


# --------------------------------------------------------------------------
# generators
# --------------------------------------------------------------------------

def rand_values(rng, nb, big=False):
    if big and rng.random() < 0.5:
        pool = [0, 1, 2, 3, (1 << 64) - 1, 1 << 63, (1 << 63) + 5, 7, 10]
    else:
        pool = [0, 1, 2, 3, 4, 5, 8, 10, 16, 20, 40]
    mode = rng.randrange(4)
    v = []
    for i in range(nb):
        for j in range(nb):
            if mode == 0:
                v.append(rng.choice(pool))
            elif mode == 1:      # distinct cells: every misplacement is visible
                v.append(100 * (i + 1) + j)
            elif mode == 2:      # multiples of a unit (LINKS succeeds)
                v.append(rng.choice([0, 25, 50, 75]))
            else:                # symmetric, small diagonal (grouping accepts it)
                v.append(1 if i == j else rng.choice([3, 3, 5, 9]) if i < j else 0)
    if mode == 3:
        for i in range(nb):
            for j in range(i):
                v[i * nb + j] = v[j * nb + i]
    return v


def gen_add(rng, k, slot, types, invalid_p=0.12, nvs=False):
    """create/values/commit lines.  Mostly valid."""
    lines = []
    name = rng.choice(NAMES)
    kind = rng.choice([0, 1, 2]) | rng.choice([4, 8, 32, 4, 8, 32, 0])
    if nvs:
        kind = 2 | 8
    cflags = 0
    bad = rng.random() < invalid_p
    what = rng.choice(["kind", "cflags", "nb", "null", "null0", "vflags", "commitflags", "twice", "novalues"]) if bad else None
    if what == "kind":
        kind = rng.choice([3, 12, 36, 40, 64, 128, 7, 63, 1 << 40, 44])
    if what == "cflags":
        cflags = rng.choice([1, 2, 1 << 33])
    lines.append("create %d %s %d %d" % (slot, name, kind, cflags))
    nb = rng.choice([2, 2, 3, 3, 4, 4, 5, 6, 8])
    if what == "nb":
        nb = rng.choice([0, 1])
    mixed = rng.random() < 0.3
    refs = []
    if mixed:
        ts = rng.sample(types, min(len(types), rng.choice([2, 3])))
        for _ in range(nb):
            refs.append("%d:%d" % (rng.choice(ts), rng.randrange(8)))
    else:
        t = rng.choice(types)
        start = rng.randrange(8)
        step = rng.choice([1, 1, 1, 2, 3])
        refs = ["%d:%d" % (t, start + i * step) for i in range(nb)]
        if rng.random() < 0.3:
            rng.shuffle(refs)
    if what == "null" and nb >= 2:
        refs[rng.randrange(1, nb)] = "N"
    if what == "null0" and nb >= 2:
        refs[0] = "N"
    vflags = rng.choice([1, 4]) if what == "vflags" else 0
    vals = rand_values(rng, nb, big=rng.random() < 0.2)
    if what != "novalues":
        lines.append("values %d %d %d %s %s" % (slot, vflags, nb, " ".join(refs), " ".join(map(str, vals))))
    if what == "twice":
        lines.append(lines[-1])
    commitflags = rng.choice([4, 8, 1 << 20, 7]) if what == "commitflags" else rng.choice([0, 0, 0, 0, 1, 3, 2])
    lines.append("commit %d %d" % (slot, commitflags))
    return lines


def gen_get(rng, k):
    nr = rng.choice([0, 1, 2, 3, 4, 8, 16])
    kind = rng.choice([0, 0, 0, 1, 2, 3, 4, 8, 32, 12, 44, 5, 6, 10, 34, 16, 63, rng.randrange(64)])
    flags = 0 if rng.random() < 0.93 else rng.choice([1, 2])
    mode = rng.choice(["all", "all", "type", "depth", "name"])
    if mode == "all":
        arg = "0"
    elif mode == "type":
        arg = str(rng.choice([k.PU, k.NUMA, k.CORE, k.PACKAGE, k.GROUP, k.NONE, 0, 19, 25]))
    elif mode == "depth":
        arg = str(rng.choice([-9, -8, -7, -6, -5, -4, -3, -2, -1, 0, 1, 2, 3, 4, 5, 6, 40]))
    else:
        arg = rng.choice(NAMES + ["nosuch"])
    return "get %s %s %d %d %d" % (mode, arg, kind, flags, nr)


def gen_case(rng, k, idx, nops=None):
    topo = rng.choice(TOPOLOGIES)
    lines = ["topo " + topo]
    types = [k.PU, k.NUMA, k.CORE]
    if "pack" in topo:
        types.append(k.PACKAGE)
    if "group" in topo:
        types.append(k.GROUP)
    if "l3" in topo:
        types.append(k.L3)
    nvs = rng.random() < 0.25
    if nvs:
        for _ in range(rng.choice([1, 2, 2, 3])):
            lines.append("nvs %d:%d" % (rng.choice([k.CORE, k.CORE, k.PU]), rng.randrange(8)))
    n = nops if nops is not None else rng.randrange(4, 22)
    slot = 0
    for _ in range(n):
        r = rng.random()
        if r < 0.30:
            if nvs and rng.random() < 0.6:
                # a bandwidth matrix over cores, some of which are switch ports
                lines += gen_add(rng, k, slot % 8, [k.CORE], invalid_p=0.0, nvs=True)
            else:
                lines += gen_add(rng, k, slot % 8, types)
            slot += 1
        elif r < 0.55:
            lines.append(gen_get(rng, k))
        elif r < 0.68:
            s = rng.randrange(3)
            w = rng.choice([0, 0, 1, 2, 2, 3, 3, 4, 9])
            attr = 1 if rng.random() < 0.93 else 0
            fl = 0 if rng.random() < 0.93 else 1
            lines.append("transform %d %d %d %d" % (s, w, attr, fl))
        elif r < 0.75:
            lines.append("setobj %d %d %s" % (rng.randrange(3), rng.randrange(6),
                                               rng.choice(["N", "N", "N", "%d:%d" % (rng.choice(types), rng.randrange(8))])))
        elif r < 0.80:
            lines.append("rr %d" % rng.randrange(3))
        elif r < 0.82:
            lines.append("release %d" % rng.randrange(3))
        elif r < 0.84:
            lines.append("remove")
        elif r < 0.88:
            lines.append("rmdepth %d" % rng.choice([-3, -3, -1, 0, 1, 2, 3, 4, 5, 9]))
        elif r < 0.94:
            fl = rng.choice([0, 0, 0, 1, 1, 8, 8 | 16])
            if fl & 8:
                mask = rng.randrange(1, 16)
            else:
                mask = rng.getrandbits(16) | (1 << rng.randrange(8))
                if rng.random() < 0.2:
                    mask = 1 << rng.randrange(8)
            lines.append("restrict 0x%x %d" % (mask, fl))
        elif r < 0.96:
            lines.append("dup")
        elif r < 0.985:
            lines.append("xml")
        else:
            lines.append("refresh")
    lines.append("get all 0 0 0 16")
    return lines


def _synth_layout(topo):
    """-> (number of PUs, {type name: [set of PUs of each object of that type, in table order]}) for the
    synthetic strings used here (levels top to bottom, objects of a level left to right; a type name that
    occurs on several levels, e.g. group, lists the upper level first, like the harness object table)"""
    ar = [(t.split(":")[0], int(t.split(":")[1])) for t in topo.split()]
    npu = 1
    for _, n in ar:
        npu *= n
    objs = {}
    count = 1
    for name, n in ar:
        count *= n
        w = npu // count
        objs.setdefault(name, [])
        for i in range(count):
            objs[name].append(set(range(i * w, (i + 1) * w)))
    return npu, objs


def gen_follow_case(rng, k):
    """the history class 'structure over mixed (or equal) types, restrict that removes an object
    which is not last (or nothing), refresh, then a second re-resolution (restrict / dup / export-import),
    get': the identity arrays (indexes, different_types) must have been compacted consistently and every
    surviving object must be found again, on whichever level of its type it lives"""
    topo = rng.choice(["numa:4 core:2 pu:2", "pack:2 numa:2 core:2 pu:1", "pack:2 l3:2 core:2 pu:2", "numa:2 pack:2 core:2 pu:1",
                       "group:2 group:3 pu:2", "pack:2 group:2 group:2 pu:2", "group:2 group:3 pu:2"])
    npu, objs = _synth_layout(topo)
    tnum = {"core": k.CORE, "pu": k.PU, "pack": k.PACKAGE, "l3": k.L3, "group": k.GROUP}
    avail = [n for n in ("core", "pu", "pack", "l3", "group") if n in objs]
    mixed = rng.random() < 0.7
    if mixed:
        names = rng.sample(avail, min(len(avail), rng.choice([2, 3])))
    else:
        names = [rng.choice([n for n in ("core", "pu", "group", "group") if n in objs])]
    nb = rng.choice([2, 3, 4, 4, 5, 6])
    # pick objects with pairwise disjoint PU ranges so that removing one keeps the others
    chosen, used = [], set()
    tries = 0
    while len(chosen) < nb and tries < 300:
        tries += 1
        n = rng.choice(names)
        i = rng.randrange(len(objs[n]))
        if n == "group" and rng.random() < 0.7:
            # prefer the deepest Group level
            deepest = min(len(x) for x in objs[n])
            cand = [j for j, x in enumerate(objs[n]) if len(x) == deepest]
            i = rng.choice(cand)
        pus = objs[n][i]
        if pus & used:
            continue
        used |= pus
        chosen.append((n, i, pus))
    nb = len(chosen)
    if nb < 2:
        return ["topo " + topo]
    lines = ["topo " + topo]
    kind = rng.choice([1, 2]) | rng.choice([4, 8, 32])
    lines.append("create 0 mixed %d 0" % kind)
    lines.append("values 0 0 %d %s %s" % (nb, " ".join("%d:%d" % (tnum[n], i) for n, i, _ in chosen),
                                          " ".join(str(100 * (i // nb + 1) + i % nb) for i in range(nb * nb))))
    lines.append("commit 0 0")
    full = (1 << npu) - 1
    mask = full
    victim = None
    if nb >= 3 and rng.random() < 0.7:
        victim = rng.randrange(0, nb - 1)          # never the last one
        for pu in chosen[victim][2]:
            mask &= ~(1 << pu)
    first = rng.choice(["restrict", "restrict", "dup", "xml"]) if victim is None else "restrict"
    lines.append("restrict 0x%x 0" % mask if first == "restrict" else first)
    lines.append(rng.choice(["get all 0 0 0 8", "get all 0 0 0 8", "refresh", "get name mixed 0 0 2"]))
    for _ in range(rng.choice([1, 1, 2])):
        ev = rng.choice(["restrict-nothing", "restrict-other", "dup", "xml", "dup", "restrict-nothing"])
        if ev == "restrict-nothing":
            lines.append("restrict 0x%x 0" % mask)
        elif ev == "restrict-other":
            others = [c for j, c in enumerate(chosen) if j != victim]
            if len(others) > 2:
                v2 = rng.choice(others[:-1])
                for pu in v2[2]:
                    mask &= ~(1 << pu)
            lines.append("restrict 0x%x 0" % mask)
        else:
            lines.append(ev)
        lines.append("get all 0 0 0 8")
    return lines


def gen_name_case(rng, k):
    """names: NULL, empty, shared by two structures, XML-special characters, long; get_by_name for every
    name of the pool and an absent one after every event (add, dup, export-import, restrict, refresh)"""
    topo = rng.choice(["numa:4 core:2 pu:2", "pack:2 numa:2 core:2 pu:1"])
    pool = ["-", '""', "a", "shared", "a&b<c>'q\"=", LONG_NAME, "x y".replace(" ", "_")]
    lines = ["topo " + topo]
    types = [k.PU, k.NUMA, k.CORE]

    def queries():
        qs = []
        for nm in pool + ["absent"]:
            if rng.random() < 0.75:
                qs.append("get name %s 0 0 %d" % (nm, rng.choice([1, 2, 4])))
        qs.append("get all 0 0 0 8")
        return qs
    n = rng.choice([2, 3, 4, 5])
    names = [rng.choice(pool) for _ in range(n)]
    if rng.random() < 0.6:
        names[rng.randrange(n)] = '""'
    if n >= 3 and rng.random() < 0.5:
        names[0] = names[1] = "shared"
    for i, nm in enumerate(names):
        t = rng.choice(types)
        mixed = rng.random() < 0.25
        refs = ["%d:%d" % (rng.choice(types) if mixed else t, i + j) for j in range(2)]
        lines += ["create %d %s %d 0" % (i % 8, nm, rng.choice([0, 1, 2]) | rng.choice([4, 8, 32])),
                  "values %d 0 2 %s %d %d %d %d" % (i % 8, " ".join(refs), 10 * i + 1, 10 * i + 2, 10 * i + 3, 10 * i + 4),
                  "commit %d 0" % (i % 8)]
    lines += queries()
    for _ in range(rng.choice([1, 2, 3])):
        lines.append(rng.choice(["xml", "xml", "dup", "restrict 0xffff 0", "refresh", "xml"]))
        lines += queries()
    return lines


def gen_list_case(rng, k):
    """list surgery: several committed structures, release_remove of the first / a middle / the LAST
    one, then further adds and gets (and dup / export-import / refresh in between): first_dist /
    last_dist / prev / next must stay consistent for the next commit"""
    topo = rng.choice(["numa:4 core:2 pu:2", "pack:2 numa:2 core:2 pu:1", "group:2 group:3 pu:2"])
    lines = ["topo " + topo]
    types = [k.PU, k.NUMA] + ([k.CORE] if "core" in topo else [k.GROUP]) + ([k.PACKAGE] if "pack" in topo else [])
    slot = [0]

    def add(name):
        t = rng.choice(types)
        nb = rng.choice([2, 2, 3]) if t != k.PACKAGE and t != k.NUMA else 2
        st = rng.randrange(4)
        h = slot[0] % 8
        ls = ["create %d %s %d 0" % (h, name, rng.choice([1, 2]) | rng.choice([4, 8, 32])),
              "values %d 0 %d %s %s" % (h, nb, " ".join("%d:%d" % (t, st + i) for i in range(nb)),
                                        " ".join(str(100 * (i // nb + 1) + i % nb + 1000 * slot[0]) for i in range(nb * nb))),
              "commit %d 0" % h]
        slot[0] += 1
        return ls
    cnt = rng.choice([2, 2, 3, 3, 4])
    for i in range(cnt):
        lines += add("s%d" % i)
    for _ in range(rng.choice([1, 2, 3])):
        if cnt == 0:
            lines += add("r%d" % slot[0])
            cnt += 1
        lines.append("get all 0 0 0 8")
        ev = rng.choice(["last", "last", "first", "mid", "last"])
        victim = cnt - 1 if ev == "last" else 0 if ev == "first" else rng.randrange(cnt)
        lines.append("rr %d" % victim)
        cnt -= 1
        if rng.random() < 0.3:
            lines.append(rng.choice(["dup", "xml", "refresh", "get name s0 0 0 2"]))
        for _ in range(rng.choice([1, 1, 2])):
            lines += add("t%d" % slot[0])
            cnt += 1
        lines.append("get all 0 0 0 8")
    return lines


def boundary_cases(rng, k):
    """enumerated boundaries: every kind word, array sizes around the number of
    matches, every single-NULL position, heterogeneous through XML"""
    cases = []
    # all kind words 0..63 and a few beyond, each followed by the whole pipeline
    for base in range(0, 68, 4):
        lines = ["topo numa:4 core:2 pu:2"]
        for kind in list(range(base, base + 4)) + ([1 << 40, 128] if base == 64 else []):
            lines.append("create 0 n%d %d 0" % (kind % 1000, kind))
            lines.append("values 0 0 2 %d:0 %d:1 1 2 3 4" % (k.NUMA, k.NUMA))
            lines.append("commit 0 0")
            lines.append("get name n%d 0 0 2" % (kind % 1000))
            lines.append("get all 0 %d 0 4" % kind)
            lines.append("xml")
            lines.append("remove")
        cases.append(lines)
    # *nr convention
    lines = ["topo numa:4 core:2 pu:2"]
    for i in range(3):
        lines += ["create 0 m%d 6 0" % i, "values 0 0 2 %d:%d %d:%d 1 2 3 4" % (k.CORE, i, k.CORE, i + 1), "commit 0 0"]
    for nr in (0, 1, 2, 3, 4, 16):
        lines.append("get all 0 0 0 %d" % nr)
        lines.append("get type %d 2 0 %d" % (k.CORE, nr))
    cases.append(lines)
    # NULL positions
    for nb in (2, 3, 4):
        for pos in range(nb):
            refs = ["%d:%d" % (k.PU, i) for i in range(nb)]
            refs[pos] = "N"
            cases.append(["topo numa:2 core:2 pu:2", "create 0 z 6 0",
                          "values 0 0 %d %s %s" % (nb, " ".join(refs), " ".join(str(100 * (i // nb + 1) + i % nb) for i in range(nb * nb))),
                          "commit 0 0", "get all 0 0 0 4"])
    # switch ports anywhere in the list
    for ports in ([0], [1], [3], [0, 1], [1, 2], [0, 3], [2, 3], [1, 3], [0, 2, 3], []):
        lines = ["topo numa:1 core:4 pu:1"] + ["nvs %d:%d" % (k.CORE, p) for p in ports]
        lines += ["create 0 NVLinkBandwidth 10 0",
                  "values 0 0 4 %s %s" % (" ".join("%d:%d" % (k.CORE, i) for i in range(4)),
                                          " ".join(str(100 * (i // 4 + 1) + i % 4) for i in range(16))),
                  "commit 0 0", "get all 0 0 0 2", "transform 0 2 1 0", "get all 0 0 0 2", "transform 0 3 1 0",
                  "get all 0 0 0 2", "transform 0 1 1 0"]
        cases.append(lines)
    # heterogeneous + restrict + xml + dup
    cases.append(["topo pack:2 numa:2 core:2 pu:1", "create 0 het 10 0",
                  "values 0 0 4 %d:0 %d:3 %d:1 %d:7 1 2 3 4 5 6 7 8 9 10 11 12 13 14 15 16" % (k.PACKAGE, k.CORE, k.NUMA, k.PU),
                  "commit 0 0", "create 1 lat 5 0", "values 1 0 4 %d:0 %d:1 %d:2 %d:3 1 2 3 4 5 6 7 8 9 10 11 12 13 14 15 16" % ((k.NUMA,) * 4),
                  "commit 1 0", "xml", "get all 0 0 0 4", "restrict 0xf0 1", "get all 0 0 0 4", "dup", "get all 0 0 0 4", "xml",
                  "get all 0 0 0 4", "restrict 0x80 1", "get all 0 0 0 4"])
    return cases


def raw_cases(rng, nrand):
    lines = []
    for nb in range(1, 5):
        for mask in range(1 << nb):
            keep = "".join("1" if mask >> i & 1 else "0" for i in range(nb))
            lines.append("rawrestrict %d %s %s" % (nb, keep, " ".join(str(100 * (i // max(nb, 1) + 1) + i % max(nb, 1)) for i in range(nb * nb))))
    for _ in range(nrand):
        nb = rng.randrange(2, 10)
        keep = "".join(rng.choice("01") for _ in range(nb))
        lines.append("rawrestrict %d %s %s" % (nb, keep, " ".join(str(rng.randrange(1000)) for _ in range(nb * nb))))
    return lines


def group_cases(rng, n):
    lines = []
    for _ in range(n):
        nb = rng.randrange(2, 8)
        mode = rng.randrange(4)
        v = [0] * (nb * nb)
        part = [rng.randrange(3) for _ in range(nb)]
        if mode == 3:
            # a forest of minimal-distance edges over shuffled indexes: the transitive graph
            # must be followed through objects discovered in any order
            order = list(range(nb))
            rng.shuffle(order)
            edges = set()
            for a in range(1, nb):
                if rng.random() < 0.8:
                    b = rng.randrange(a) if rng.random() < 0.5 else a - 1
                    edges.add((order[a], order[b]))
            for i in range(nb):
                for j in range(nb):
                    v[i * nb + j] = 0 if i == j else (1 if (i, j) in edges or (j, i) in edges else rng.choice([5, 9]))
            for i in range(nb):
                for j in range(i):
                    if v[i * nb + j] != 1:
                        v[i * nb + j] = v[j * nb + i]
            lines.append("groups %d %s" % (nb, " ".join(map(str, v))))
            continue
        for i in range(nb):
            for j in range(nb):
                if mode == 0:
                    v[i * nb + j] = 0 if i == j else (2 if part[i] == part[j] else rng.choice([5, 7]))
                elif mode == 1:
                    v[i * nb + j] = rng.choice([0, 1, 2, 3])
                else:
                    v[i * nb + j] = rng.choice([1, 1, 2, (1 << 64) - 1])
        if mode == 0:
            for i in range(nb):
                for j in range(i):
                    v[i * nb + j] = v[j * nb + i]
        lines.append("groups %d %s" % (nb, " ".join(map(str, v))))
    return lines


# --------------------------------------------------------------------------
# transcript parsing
# --------------------------------------------------------------------------

def split_steps(text):
    """-> list of (command, [result lines])"""
    steps = []
    for l in text.split("\n"):
        if l.startswith("> "):
            steps.append((l[2:], []))
        elif steps and l != "":
            steps[-1][1].append(l)
    return steps


def model_input(c_out):
    keep = []
    for l in c_out.split("\n"):
        if l[:2] in ("> ", "T ", "O ") or l == "L" or l.startswith("L "):
            keep.append(l)
    return "\n".join(keep) + "\n"


def parse_list(s):
    s = s.strip()
    if s == "-":
        return None
    assert s[0] == "[" and s[-1] == "]", s
    return s[1:-1].split() if s[1:-1].strip() else []


D_RE = re.compile(r"D id=(\d+) name=(\S+) kind=(\d+) ut=(\d+) nb=(\d+) valid=(\d) idx=(\[[^\]]*\]) dt=(\[[^\]]*\]|-) objs=(\[[^\]]*\]|-) vals=(\[[^\]]*\])$")
H_RE = re.compile(r"H (\d+) id=(\d+|\?) name=(\S+) nb=(\d+) kind=(\d+) objs=(\[[^\]]*\]) vals=(\[[^\]]*\])$")


def parse_D(l):
    m = D_RE.match(l)
    if not m:
        return None
    return {"id": int(m.group(1)), "name": m.group(2), "kind": int(m.group(3)), "ut": int(m.group(4)), "nb": int(m.group(5)),
            "valid": m.group(6) == "1", "idx": parse_list(m.group(7)), "dt": parse_list(m.group(8)),
            "objs": parse_list(m.group(9)), "vals": [int(x) for x in parse_list(m.group(10))]}


def parse_H(l):
    m = H_RE.match(l)
    if not m:
        return None
    return {"slot": int(m.group(1)), "id": None if m.group(2) == "?" else int(m.group(2)), "name": m.group(3), "nb": int(m.group(4)), "kind": int(m.group(5)),
            "objs": parse_list(m.group(6)), "vals": [int(x) for x in parse_list(m.group(7))]}


def submatrix(vals, nb, sel):
    return [vals[i * nb + j] for i in sel for j in sel]


# --------------------------------------------------------------------------
# the oracle: the property statement, executable, over the C transcript
# --------------------------------------------------------------------------

class Violation(Exception):
    def __init__(self, key, what):
        Exception.__init__(self, what)
        self.key, self.what = key, what


class Oracle:
    """Declarative expectation of what the distances list must look like,
    maintained from the script and the *object tables* only; every D/H line
    the implementation printed is compared with it."""

    def __init__(self, k):
        self.k = k
        self.reset()

    def reset(self):
        self.table = []          # [(type, gp, os, nvs)]
        self.levels = []
        self.exp = []            # committed structures, list order
        self.stale = False       # cached objects invalid (restrict/dup happened, no refresh yet)
        self.next_id = 0
        self.handles = {}
        self.held = {}           # slot -> dict(id, objs, vals, kind, nb)
        self.has_topo = False

    # -- helpers ---------------------------------------------------------
    def resolve(self, ref):
        if ref[0] == "N":
            return None
        if ref[0] == "#":
            return self.table[int(ref[1:]) % len(self.table)] if self.table else None
        t, i = ref.split(":")
        same = [o for o in self.table if o[0] == int(t)]
        return same[int(i) % len(same)] if same else None

    def live(self, o):
        return any(x[0] == o[0] and x[1] == o[1] for x in self.table)

    def nvs_of(self, ref):
        if ref == "N":
            return False
        t, gp = ref.split(":")
        return any(x[0] == int(t) and x[1] == int(gp) and x[3] for x in self.table)

    def read_table(self, res):
        """T/O/L lines of a step -> (rc, changed)"""
        rc = None
        for i, l in enumerate(res):
            if l.startswith("T "):
                f = l.split()
                rc = int(f[1])
                if f[2] != "=":
                    n = int(f[2])
                    self.table = []
                    for ol in res[i + 1:i + 1 + n]:
                        g = ol.split()
                        self.table.append((int(g[1]), int(g[2]), int(g[3]), g[4] == "1"))
                    ll = res[i + 1 + n].split()
                    self.levels = [int(x) for x in ll[1:]]
                break
        return rc

    def depth_type(self, d):
        if 0 <= d < len(self.levels):
            return self.levels[d]
        return self.k.special.get(d, self.k.NONE)

    def do_refresh(self):
        if not self.stale:
            return
        new = []
        for e in self.exp:
            sel = [i for i, o in enumerate(e["objs"]) if self.live(o)]
            if len(sel) < 2:
                continue
            e = dict(e)
            e["vals"] = submatrix(e["vals"], len(e["objs"]), sel)
            e["objs"] = [e["objs"][i] for i in sel]
            new.append(e)
        self.exp = new
        self.stale = False

    # HETEROGENEOUS_TYPES and the type used by the type/depth filters are those of
    # the objects the structure was committed with
    def exp_kind(self, e):
        return e["kind"] | (self.k.HETERO if e["het"] else 0)

    def unique_type(self, e):
        return e["ut"]

    def check_follow(self, cmd, ds):
        exp = self.exp
        if not self.stale:
            # "it follows the objects": a structure with >= 2 surviving objects is neither dropped nor shrunk
            for e in exp:
                d = next((x for x in ds if x["id"] == e["id"]), None)
                want_objs = ["%d:%d" % (o[0], o[1]) for o in e["objs"]]
                if d is None:
                    raise Violation("spec:structure-dropped-with-survivors",
                                    "after %r the structure id=%d name=%s is gone although %d of its objects are still in the topology (%r)" % (
                                        cmd, e["id"], e["name"], len(want_objs), want_objs))
                if d["nb"] < len(want_objs):
                    raise Violation("spec:structure-shrunk-with-survivors",
                                    "after %r the structure id=%d name=%s has %d object(s) %r although %d of its objects are still in the topology (%r)" % (
                                        cmd, e["id"], e["name"], d["nb"], d["objs"], len(want_objs), want_objs))

    def check_dump(self, cmd, res):
        ds = [parse_D(l) for l in res if l.startswith("D ")]
        if any(d is None for d in ds):
            raise Violation("spec:unparsable-dump", "cannot parse a D line after %r" % cmd)
        exp = self.exp
        self.check_follow(cmd, ds)
        if len(ds) != len(exp) and not self.stale:
            raise Violation("spec:list-length:" + cmd.split()[0],
                            "after %r the topology holds %d distances structures, the specification says %d" % (cmd, len(ds), len(exp)))
        if self.stale:
            # not refreshed yet: identities only
            if [d["id"] for d in ds] != [e["id"] for e in exp]:
                raise Violation("spec:list-ids:" + cmd.split()[0], "after %r ids %r, expected %r" % (cmd, [d["id"] for d in ds], [e["id"] for e in exp]))
            return
        for d, e in zip(ds, exp):
            want_objs = ["%d:%d" % (o[0], o[1]) for o in e["objs"]]
            if d["id"] != e["id"] or d["name"] != e["name"]:
                raise Violation("spec:identity:" + cmd.split()[0], "after %r structure id/name %r/%r, expected %r/%r" % (cmd, d["id"], d["name"], e["id"], e["name"]))
            if d["kind"] != self.exp_kind(e):
                raise Violation("spec:kind:" + cmd.split()[0], "after %r structure %d has kind %d, expected %d" % (cmd, d["id"], d["kind"], self.exp_kind(e)))
            if d["valid"] and d["objs"] != want_objs:
                raise Violation("spec:objects:" + cmd.split()[0], "after %r structure %d has objects %r, expected %r" % (cmd, d["id"], d["objs"], want_objs))
            if d["valid"] and any(not self.live((int(o.split(":")[0]), int(o.split(":")[1]))) for o in d["objs"] if o != "N"):
                raise Violation("spec:dead-object:" + cmd.split()[0], "after %r structure %d references an object that is not in the topology" % (cmd, d["id"]))
            if d["nb"] != len(e["objs"]) or d["vals"] != e["vals"]:
                raise Violation("spec:values:" + cmd.split()[0], "after %r structure %d holds nb=%d %r, expected the sub-matrix nb=%d %r" % (
                    cmd, d["id"], d["nb"], d["vals"], len(e["objs"]), e["vals"]))
            if d["nb"] < 2:
                raise Violation("spec:single-object-matrix", "after %r structure %d has %d object(s)" % (cmd, d["id"], d["nb"]))

    # -- one step --------------------------------------------------------
    def step(self, cmd, res):
        k = self.k
        tok = cmd.split()
        op = tok[0]
        if op == "case":
            return
        rcline = next((l for l in res if l.startswith("rc=")), None)
        ok = rcline is not None and rcline.startswith("rc=0")
        skip = rcline == "rc=skip"
        if op == "topo":
            self.reset()
            rc = self.read_table(res)
            self.has_topo = rc == 0
            return
        if op in ("rawrestrict", "groups"):
            return self.step_raw(tok, res)
        if not self.has_topo:
            return
        before = [dict(e) for e in self.exp]
        if op == "nvs":
            self.read_table(res)
        elif op == "create":
            h = int(tok[1]) % 8
            self.handles.pop(h, None)
            kind, flags = int(tok[3], 0), int(tok[4], 0)
            should = k.kind_valid(kind) and flags == 0
            if ok != should:
                raise Violation("spec:create-validation", "add_create(kind=%d, flags=%d) %s, the documentation says it must %s" % (
                    kind, flags, "succeeded" if ok else "failed", "succeed" if should else "fail"))
            if ok:
                self.handles[h] = {"name": tok[2], "kind": kind, "id": self.next_id, "set": False}
                self.next_id += 1
        elif op == "values":
            h = int(tok[1]) % 8
            if skip or h not in self.handles:
                if not skip:
                    raise Violation("spec:handle", "values on a destroyed handle was executed")
            else:
                hd = self.handles[h]
                flags, nb = int(tok[2], 0), int(tok[3])
                refs = tok[4:4 + nb]
                objs = [self.resolve(r) for r in refs]
                vals = [int(x, 0) for x in tok[4 + nb:4 + nb + nb * nb]]
                should = flags == 0 and nb >= 2 and all(o is not None for o in objs) and not hd["set"]
                if ok and not should:
                    if nb >= 2 and objs[0] is None and all(o is not None for o in objs[1:]) and flags == 0 and not hd["set"]:
                        raise Violation("add-values-null-first", "hwloc_distances_add_values accepted objs[0]==NULL with nbobjs=%d (a %d-object matrix is attached)" % (nb, nb - 1))
                    raise Violation("spec:values-validation", "add_values(nb=%d, flags=%d, objs=%r) succeeded but must be rejected" % (nb, flags, refs))
                if not ok and should:
                    raise Violation("spec:values-validation", "add_values(nb=%d, objs=%r) failed but is valid" % (nb, refs))
                if ok:
                    hd.update(set=True, objs=objs, vals=vals)
                else:
                    del self.handles[h]
        elif op == "commit":
            h = int(tok[1]) % 8
            self.read_table(res)
            if not skip and h in self.handles:
                hd = self.handles.pop(h)
                flags = int(tok[2], 0)
                should = (flags & ~k.ADD_ALL) == 0 and hd["set"]
                if ok != should:
                    raise Violation("spec:commit-validation", "add_commit(flags=%d) %s" % (flags, "succeeded" if ok else "failed"))
                if ok:
                    ts = set(o[0] for o in hd["objs"])
                    self.exp.append({"id": hd["id"], "name": hd["name"], "kind": hd["kind"], "objs": hd["objs"], "vals": hd["vals"],
                                     "het": len(ts) > 1, "ut": list(ts)[0] if len(ts) == 1 else k.NONE})
        elif op == "get":
            self.held = {}
            mode, arg, kind, flags, nr = tok[1], tok[2], int(tok[3], 0), int(tok[4], 0), min(16, int(tok[5]))
            ty = k.NONE
            should = flags == 0
            if mode == "type":
                ty = int(arg, 0)
            elif mode == "depth":
                ty = self.depth_type(int(arg))
                should = should and ty != k.NONE
            if ok != should:
                raise Violation("spec:get-validation", "%r %s" % (cmd, "succeeded" if ok else "failed"))
            if ok:
                self.do_refresh()
                self.check_follow(cmd, [d for d in (parse_D(l) for l in res if l.startswith("D ")) if d])
                want = []
                for e in self.exp:
                    ek = self.exp_kind(e)
                    if mode == "name":
                        if arg != "-" and e["name"] != arg:
                            continue
                    else:
                        if ty != k.NONE and self.unique_type(e) != ty:
                            continue
                        if kind & k.FROM_ALL and not (kind & k.FROM_ALL & ek):
                            continue
                        if kind & k.VALUE_ALL and not (kind & k.VALUE_ALL & ek):
                            continue
                    want.append(e)
                nrout = int(rcline.split("nr=")[1])
                hs = [l for l in res if l.startswith("H ")]
                got_ids = []
                for l in hs:
                    p = parse_H(l)
                    got_ids.append(p["id"] if p else l.split()[2])
                idknown = all(g is not None for g in got_ids)
                if mode == "name" and nrout != len(want):
                    complete = [e for e in want if (self.exp_kind(e) & k.FROM_ALL) and (self.exp_kind(e) & k.VALUE_ALL)]
                    if nrout == len(complete):
                        raise Violation("get-by-name-kind-filter", "hwloc_distances_get_by_name(%s) reports %d structure(s), %d carry that name (kind without a FROM_* or VALUE_* bit is filtered out)" % (arg, nrout, len(want)))
                if nrout != len(want):
                    raise Violation("spec:nr-convention", "%r reports nr=%d, %d structures match" % (cmd, nrout, len(want)))
                if len(hs) != nr:
                    raise Violation("spec:get-array", "%r: %d slots printed for an array of %d" % (cmd, len(hs), nr))
                if "OVERRUN" in res:
                    raise Violation("spec:get-overrun", "%r wrote past the caller's array" % cmd)
                for i, l in enumerate(hs):
                    if i < len(want):
                        e = want[i]
                        p = parse_H(l)
                        wobjs = ["%d:%d" % (o[0], o[1]) for o in e["objs"]]
                        if not p or (p["id"] is not None and p["id"] != e["id"]) or p["name"] != e["name"] or p["kind"] != self.exp_kind(e) or p["objs"] != wobjs or p["vals"] != e["vals"] or p["nb"] != len(wobjs):
                            raise Violation("spec:get-returned", "%r slot %d is %r, expected id=%d name=%s kind=%d objs=%r vals=%r" % (
                                cmd, i, l, e["id"], e["name"], self.exp_kind(e), wobjs, e["vals"]))
                        self.held[i] = {"id": e["id"], "nb": p["nb"], "kind": p["kind"], "objs": list(p["objs"]), "vals": list(p["vals"])}
                    elif not l.endswith(" NULL"):
                        raise Violation("spec:get-null-fill", "%r slot %d is not NULL: %r" % (cmd, i, l))
        elif op == "release":
            self.held.pop(int(tok[1]) % 16, None)
        elif op == "rr":
            s = int(tok[1]) % 16
            if s in self.held and not skip:
                hid = self.held[s]["id"]
                present = any(e["id"] == hid for e in self.exp)
                if ok != present:
                    raise Violation("spec:release-remove", "release_remove of id %d %s" % (hid, "succeeded" if ok else "failed"))
                if ok:
                    self.exp = [e for e in self.exp if e["id"] != hid]
                    del self.held[s]
            elif not skip:
                raise Violation("spec:held", "release_remove executed on an empty slot")
        elif op == "remove":
            self.exp = []
        elif op == "rmdepth":
            ty = self.depth_type(int(tok[1]))
            if ok != (ty != k.NONE):
                raise Violation("spec:rmdepth-validation", "%r %s" % (cmd, "succeeded" if ok else "failed"))
            if ok:
                # a structure whose objects all left the topology no longer has a depth; the
                # type recorded at commit time decides
                self.exp = [e for e in self.exp if self.unique_type(e) != ty]
        elif op == "transform":
            s = int(tok[1]) % 16
            if s in self.held and not skip:
                self.check_transform(cmd, tok, ok, rcline, res, self.held[s])
        elif op == "setobj":
            s = int(tok[1]) % 16
            if s in self.held and not skip:
                i = int(tok[2])
                o = self.resolve(tok[3])
                self.held[s]["objs"][i] = "N" if o is None else "%d:%d" % (o[0], o[1])
        elif op == "restrict":
            self.held, self.handles = {}, {}
            rc = self.read_table(res)
            if rc == 0:
                self.stale = True
        elif op == "refresh":
            self.do_refresh()
        elif op == "dup":
            self.held, self.handles = {}, {}
            self.read_table(res)
            if ok:
                # the public hwloc_topology_dup refreshes the copy (/repo fix "refresh the distances and memory
                # attribute caches of a duplicated topology"); before that fix the copy was left stale
                self.do_refresh()
            else:
                raise Violation("spec:dup-failed", "hwloc_topology_dup failed")
        elif op == "xml":
            self.held, self.handles = {}, {}
            self.do_refresh()
            self.read_table(res)
            if not ok:
                if any(self.exp_kind(e) == 0 for e in self.exp):
                    raise Violation("xml-import-kind-zero", "the XML exported by a topology holding a distances structure of kind 0 (accepted by hwloc_distances_add_create) cannot be imported")
                raise Violation("spec:xml-roundtrip-failed", "export+import of the topology failed")
            hom = [e for e in self.exp if not e["het"]]
            het = [e for e in self.exp if e["het"]]
            self.exp = []
            for i, e in enumerate(hom + het):
                e = dict(e)
                e["id"] = i
                self.exp.append(e)
            self.next_id = len(self.exp)
            self.stale = True
            self.do_refresh()
        # rejected operations leave the list unchanged
        if rcline and rcline.startswith("rc=-1") and op not in ("xml",) and before != self.exp:
            raise Violation("spec:oracle", "internal: oracle changed its expectation on a failed %r" % cmd)
        self.check_dump(cmd, res)

    def check_transform(self, cmd, tok, ok, rcline, res, h):
        k = self.k
        which, attr_null, flags = int(tok[2]), tok[3] != "0", int(tok[4], 0)
        hl = next((l for l in res if l.startswith("H ")), None)
        p = parse_H(hl) if hl else None
        if p is None:
            raise Violation("spec:transform-output", "no structure printed after %r" % cmd)
        nb, objs, vals, kind = h["nb"], h["objs"], h["vals"], h["kind"]
        err = rcline.split("errno=")[1] if not ok else None

        def expect(e_ok, e_err, e_nb, e_objs, e_vals, e_kind, key="spec:transform-%d" % which, ignore_struct_on_error=False):
            if ok != e_ok or (not ok and err != e_err):
                raise Violation(key, "%r on objs=%r returned %s, expected %s" % (cmd, objs, rcline, "success" if e_ok else e_err))
            if ok or not ignore_struct_on_error:
                if (p["nb"], p["objs"], p["vals"], p["kind"]) != (e_nb, e_objs, e_vals, e_kind):
                    raise Violation(key, "%r on objs=%r vals=%r gives nb=%d objs=%r vals=%r kind=%d, expected nb=%d objs=%r vals=%r kind=%d" % (
                        cmd, objs, vals, p["nb"], p["objs"], p["vals"], p["kind"], e_nb, e_objs, e_vals, e_kind))

        def remove_null(objs, vals, nb, kind):
            sel = [i for i in range(nb) if objs[i] != "N"]
            if len(sel) < 2:
                return None
            if len(sel) == nb:
                return (nb, objs, vals, kind)
            o2 = [objs[i] for i in sel]
            het = len(set(o.split(":")[0] for o in o2)) > 1
            return (len(sel), o2, submatrix(vals, nb, sel), (kind | k.HETERO) if het else (kind & ~k.HETERO))

        if flags != 0 or not attr_null or which not in (0, 1, 2, 3):
            expect(False, "EINVAL", nb, objs, vals, kind)
        elif which == 0:
            r = remove_null(objs, vals, nb, kind)
            if r is None:
                expect(False, "EINVAL", nb, objs, vals, kind)
            else:
                expect(True, None, *r)
        elif which == 1:
            if not (kind & k.BW):
                expect(False, "EINVAL", nb, objs, vals, kind)
            else:
                v = list(vals)
                for i in range(nb):
                    v[i * nb + i] = 0
                pos = [x for x in v if x]
                if not pos:
                    expect(True, None, nb, objs, v, kind)
                else:
                    d = min(pos)
                    if any(x % d for x in v):
                        # the values after a failed LINKS are not specified
                        expect(False, "ENOENT", nb, objs, v, kind, ignore_struct_on_error=True)
                    else:
                        expect(True, None, nb, objs, [x // d for x in v], kind)
        elif which == 2:
            ports = [i for i in range(nb) if self.nvs_of(objs[i])]
            if not ports:
                expect(False, "ENOENT", nb, objs, vals, kind)
            else:
                first = ports[0]
                M = 1 << 64
                v = list(vals)
                for j in ports[1:]:
                    for x in range(nb):
                        if x in (first, j):
                            continue
                        v[x * nb + first] = (v[x * nb + first] + v[x * nb + j]) % M
                        v[first * nb + x] = (v[first * nb + x] + v[j * nb + x]) % M
                    v[first * nb + first] = (v[first * nb + first] + v[j * nb + j]) % M
                o2 = [("N" if i in ports[1:] else objs[i]) for i in range(nb)]
                r = remove_null(o2, v, nb, kind)
                # "keep every non-switch object and the values between them"
                nonports_after_first = [i for i in range(first + 1, nb) if i not in ports and objs[i] != "N"]
                if r is None:
                    exp_fail = True
                else:
                    exp_fail = False
                if not exp_fail and (not ok or p["objs"] != r[1]) and nonports_after_first:
                    raise Violation("merge-switch-ports-drops-nonport",
                                    "MERGE_SWITCH_PORTS on objs=%r (ports at %r) returns %s objs=%r: the non-port objects listed after the first port are dropped" % (
                                        objs, ports, rcline, p["objs"]))
                if exp_fail:
                    expect(False, "EINVAL", 0, 0, 0, 0, ignore_struct_on_error=True)
                else:
                    expect(True, None, *r)
        else:
            M = 1 << 64
            sw = [i for i in range(nb) if self.nvs_of(objs[i])]
            v = list(vals)
            for i in range(nb):
                if i in sw:
                    continue
                i2sw = sum(vals[i * nb + s] for s in sw) % M
                for j in range(nb):
                    if j == i or j in sw:
                        continue
                    sw2j = sum(vals[s * nb + j] for s in sw) % M
                    v[i * nb + j] = (vals[i * nb + j] + min(i2sw, sw2j)) % M
            expect(True, None, nb, objs, v, kind)
        h.update(nb=p["nb"], objs=list(p["objs"]), vals=list(p["vals"]), kind=p["kind"])

    def step_raw(self, tok, res):
        if tok[0] == "rawrestrict":
            nb = int(tok[1])
            keep = tok[2]
            vals = [int(x, 0) for x in tok[3:]]
            l = next((x for x in res if x.startswith("R ")), None)
            if l is None:
                return
            m = re.match(r"R vals=(\[[^\]]*\]) keep=\[([01]*)\] idx=(\[[^\]]*\]) dt=(\[[^\]]*\])", l)
            got = [int(x) for x in parse_list(m.group(1))]
            sel = [i for i in range(nb) if keep[i] == "1"]
            want = submatrix(vals, nb, sel)
            if got[:len(want)] != want:
                raise Violation("spec:restrict-submatrix", "hwloc_internal_distances_restrict(nb=%d, keep=%s): first %d cells %r, the sub-matrix is %r" % (nb, keep, len(want), got[:len(want)], want))
            gidx = [int(x) for x in parse_list(m.group(3))]
            if gidx[:len(sel)] != [100 + i for i in sel]:
                raise Violation("spec:restrict-indexes", "hwloc_internal_distances_restrict(nb=%d, keep=%s): indexes %r" % (nb, keep, gidx))
        else:
            nb = int(tok[1])
            v = [int(x, 0) for x in tok[2:]]
            l = next((x for x in res if x.startswith("G ")), None)
            if l is None:
                return
            m = re.match(r"G check=(-?\d+) ngroups=(\d+) ids=(\[[^\]]*\])", l)
            ng, ids = int(m.group(2)), [int(x) for x in parse_list(m.group(3))]
            offd = [v[i * nb + j] for i in range(nb) for j in range(nb) if i != j]
            mn = min(offd + [(1 << 64) - 1])
            if ng:
                # every group: >= 2 members, connected through minimal-distance edges; no minimal edge leaves a group
                for g in range(1, ng + 1):
                    mem = [i for i in range(nb) if ids[i] == g]
                    if len(mem) < 2:
                        raise Violation("spec:groups-size", "group %d of %r has %d member(s)" % (g, ids, len(mem)))
                    seen, todo = {mem[0]}, [mem[0]]
                    while todo:
                        a = todo.pop()
                        for b in mem:
                            if b not in seen and (v[a * nb + b] == mn or v[b * nb + a] == mn):
                                seen.add(b)
                                todo.append(b)
                    if len(seen) != len(mem):
                        raise Violation("spec:groups-connected", "group %d of %r is not connected by minimal distances (matrix %r)" % (g, ids, v))
                if any(x > ng for x in ids):
                    raise Violation("spec:groups-ids", "group id beyond %d in %r" % (ng, ids))
                # "objects in a transitive graph of minimal values": on a matrix that passes the
                # check (symmetric, diagonal strictly minimal) no minimal edge leaves a group
                if int(m.group(1)) == 0:
                    for a in range(nb):
                        for b in range(nb):
                            if a != b and v[a * nb + b] == mn and ids[a] and ids[b] != ids[a]:
                                raise Violation("find-groups-misses-transitive-member",
                                                "hwloc__find_groups_by_min_distance: object %d (group %d) is at the minimal distance %d of object %d, which is left in group %d: ids=%r" % (
                                                    a, ids[a], mn, b, ids[b], ids))


def run_oracle(k, c_out):
    """-> list of (case index, step index, Violation) : first violation of each case"""
    steps = split_steps(c_out)
    o = Oracle(k)
    out = []
    case = -1
    dead = False
    for si, (cmd, res) in enumerate(steps):
        if cmd.startswith("case "):
            case = int(cmd.split()[1])
            dead = False
            o.reset()
            continue
        if dead:
            continue
        try:
            o.step(cmd, res)
        except Violation as v:
            out.append((case, si, v))
            dead = True
        except Exception as e:      # the oracle must not die silently
            import traceback
            out.append((case, si, Violation("spec:oracle-error", "oracle failed on %r: %r %s" % (cmd, e, traceback.format_exc()[-600:]))))
            dead = True
    return out


def shrink(lines, still_fails, budget=80):
    """remove script lines (never the first) while still_fails(lines) holds"""
    cur = list(lines)
    n = 2
    runs = 0
    while len(cur) > 2 and runs < budget:
        chunk = max(1, (len(cur) - 1) // n)
        removed = False
        i = 1
        while i < len(cur) and runs < budget:
            cand = cur[:i] + cur[i + chunk:]
            runs += 1
            if len(cand) >= 1 and still_fails(cand):
                cur = cand
                removed = True
            else:
                i += chunk
        if not removed:
            if chunk == 1:
                break
            n *= 2
    return cur
