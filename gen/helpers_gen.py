"""C09 generators: topologies (synthetic, restricted, XML corpus) and helper
queries built from a first-pass dump of each topology.  Every random choice
derives from the rng handed in."""
import os
import random
import re

from gen import topo_sources as S

INT_MAX = 2147483647
NORMAL_TYPES = [0, 1, 2, 3, 4, 5, 6, 7, 8, 9, 10, 11, 12, 13]
IO_DEPTHS = (-4, -5, -6, -7)


def fmt_set(bits, inf=False, nwords=None):
    """<inf>:<hex raw words>.  For an infinite set `bits` are the raw low words."""
    n = max(1, (bits.bit_length() + 63) // 64)
    if nwords:
        n = max(n, nwords)
    return "%d:%0*x" % (1 if inf else 0, 16 * n, bits)


def parse_set(txt):
    if txt == "-":
        return None
    return int(txt[2:], 16) if txt[0] == "0" else -1 - (int(txt[2:], 16) ^ ((1 << (4 * (len(txt) - 2))) - 1))


class Topo:
    """What the generator needs from a dump block."""

    def __init__(self, lines):
        self.objs = []
        self.levels = {}
        self.depth = 0
        for l in lines:
            if l.startswith("T "):
                self.depth = int(re.search(r"depth=(-?\d+)", l).group(1))
            elif l.startswith("L "):
                f = l.split(" ")
                self.levels[int(f[1])] = [] if f[4] == "-" else [int(x) for x in f[4].split(",") if x.isdigit()]
            elif l.startswith("O "):
                f = l.split(" ")
                kv = dict(x.split("=", 1) for x in f[2:] if "=" in x)
                self.objs.append({"id": int(f[1]), "ty": int(kv["ty"]), "dp": int(kv["dp"]), "cs": parse_set(kv["cs"]),
                                  "nds": parse_set(kv["nds"]), "ar": int(kv["ar"]), "par": kv["par"], "os": int(kv["os"]),
                                  "nm": kv.get("nm", "-").strip('"'), "st": kv.get("st", "-").strip('"')})
        self.root_cs = self.objs[0]["cs"] if self.objs else 0
        self.pus = [o for o in self.objs if o["ty"] == 4]
        self.normal = [o for o in self.objs if o["dp"] >= 0]
        self.withcs = [o for o in self.objs if o["cs"] is not None]


def syn_pus(desc):
    tot = 1
    for it in desc.split():
        if it.startswith("["):
            continue
        m = re.match(r"[a-z0-9]+:(\d+)", it)
        if m:
            tot *= int(m.group(1))
    return tot


def gen_topologies(rng, tier):
    base = rng.getrandbits(64)

    def stream(name):
        return random.Random("%d/%s" % (base, name))

    """list of (name, kind, config-and-load lines ending with 'load' (+ restrict))"""
    quick = tier == "quick"
    out = []
    fixed = ["pack:2 [numa] core:2 pu:2", "pu:1", "pu:5", "numa:2 pack:1 core:3 pu:1", "group:2 [numa] group:2 pack:2 [numa] pu:2",
             "pack:3 l2:2 core:1 pu:3", "[numa] pack:2 die:2 [numa] l3:1 core:2 pu:1",
             # several NUMA nodes below one parent (heterogeneous memory), NUMA on the machine and below packages
             "pack:2 [numa] [numa] core:2 pu:2", "[numa] [numa] pack:2 [numa] core:1 pu:2",
             # three Group levels (group depths 0,1,2 for hwloc_get_type_depth_with_attr)
             "group:2 group:2 group:1 [numa] pu:2"]
    # memory-side caches in front of NUMA nodes (hwloc_get_memory_parents_depth walks up through them)
    out.append(("synthetic-memcache:pack:2 [numa(memorysidecachesize=1GB)] core:2 pu:1", "synthetic",
                ["filter 15 0", "src synthetic pack:2 [numa(memorysidecachesize=1GB)] core:2 pu:1", "load"]))
    out.append(("synthetic-memcache:[numa(memorysidecachesize=1GB)] pack:2 [numa] pu:2", "synthetic",
                ["filter 15 0", "src synthetic [numa(memorysidecachesize=1GB)] pack:2 [numa] pu:2", "load"]))
    nsyn = 40 if quick else 250
    rng = stream("synthetic")
    descs = fixed + [S.gen_synthetic(rng, max_pus=32 if quick else 64) for _ in range(nsyn)]
    for i, desc in enumerate(descs):
        rng = stream("restrict/%d/%s" % (i, desc))
        out.append(("synthetic:" + desc, "synthetic", ["src synthetic " + desc, "load"]))
        # restricted variants: asymmetric trees, CPU-less NUMA nodes / packages when REMOVE_CPULESS is not given
        if i < len(fixed) or rng.random() < 0.7:
            tot = syn_pus(desc)
            if tot > 1:
                for _ in range(1 if quick else 2):
                    keep = 0
                    p = rng.choice([0.3, 0.5, 0.8])
                    for b in range(tot):
                        if rng.random() < p:
                            keep |= 1 << b
                    if keep == 0:
                        keep = 1 << rng.randrange(tot)
                    fl = rng.choice([0, 0, 0, 1, 2, 4, 6])
                    out.append(("synthetic-restricted:%s|%s|%d" % (desc, fmt_set(keep), fl), "restricted",
                                ["src synthetic " + desc, "load", "restrict %s %d" % (fmt_set(keep), fl)]))
    # CPU-less packages / NUMA nodes in the MIDDLE of a level (restrict without REMOVE_CPULESS)
    for desc, keep in [("pack:3 [numa] pu:2", 0b110011), ("pack:4 [numa] core:1 pu:2", 0b11000011), ("pack:3 [numa] [numa] pu:1", 0b101),
                       ("[numa] pack:4 [numa] pu:1", 0b1001), ("group:3 [numa] pack:2 pu:1", 0b110011)]:
        for fl in (0, 4):
            out.append(("synthetic-restricted:%s|%s|%d" % (desc, fmt_set(keep), fl), "restricted",
                        ["src synthetic " + desc, "load", "restrict %s %d" % (fmt_set(keep), fl)]))
    # PUs numbered round-robin over the cores / packages, some PUs disallowed: cpuset != complete_cpuset, and
    # the order of siblings (by complete_cpuset) differs from the order of the first bits of their cpusets
    inter = ["pack:1 core:4 pu:2(indexes=0,4,1,5,2,6,3,7)", "pack:2 core:2 pu:2(indexes=0,4,2,6,1,5,3,7)", "core:3 pu:2(indexes=0,3,1,4,2,5)",
             "pack:2 pu:4(indexes=0,2,4,6,1,3,5,7)", "pack:2 [numa] core:2 pu:2(indexes=0,4,1,5,2,6,3,7)", "pack:2 l2:2 pu:2(indexes=0,4,2,6,1,5,3,7)"]
    for desc in inter:
        rng = stream("disallowed/" + desc)
        tot = syn_pus(desc)
        full = (1 << tot) - 1
        allowed = [full & ~1, full & ~((1 << rng.randint(1, 3)) - 1)]
        for _ in range(1 if quick else 6):
            a = rand_subset(rng, full, 0.7)
            allowed.append(a if a else full & ~1)
        for a in dict.fromkeys(allowed):
            out.append(("synthetic-disallowed:%s|%s" % (desc, fmt_set(a)), "disallowed",
                        ["flags 1", "src synthetic " + desc, "load", "disallow_reload " + fmt_set(a)]))
    xmls = S.xml_corpus()
    for x in xmls:
        bname = os.path.basename(x)
        rng = stream("xml/" + bname)
        if quick and os.path.getsize(x) > 120000 and rng.random() < 0.6:
            continue
        # I/O (KEEP_ALL = 0 or KEEP_IMPORTANT = 3), Misc (type 19) and MemCache (type 15) objects are filtered out by default
        cfgs = [["filter io %d" % rng.choice([0, 0, 3]), "filter 19 0", "filter 15 0"] if rng.random() < 0.85 else []]
        if not quick:
            cfgs.append(["filter all 2"])
        for cfg in cfgs:
            out.append(("xml:%s|%s" % (bname, ";".join(cfg)), "xml", ["env HWLOC_LIBXML_IMPORT 1"] + cfg + ["src xml " + x, "load"]))
        if rng.random() < (0.5 if quick else 1.0):
            keep = rng.getrandbits(48) | 1
            fl = rng.choice([0, 0, 1, 4])
            out.append(("xml-restricted:%s|%s|%d" % (bname, fmt_set(keep), fl), "restricted",
                        ["env HWLOC_LIBXML_IMPORT 1", "filter io 0", "filter 19 0", "filter 15 0", "src xml " + x, "load", "restrict %s %d" % (fmt_set(keep), fl)]))
    return out


def rand_subset(rng, bits, p=0.5):
    r = 0
    b = bits
    i = 0
    while b:
        if b & 1 and rng.random() < p:
            r |= 1 << i
        b >>= 1
        i += 1
    return r


def gen_queries(rng, t, tier, budget):
    """queries for one dumped topology; `budget` bounds the sampled ones.  `rng` is private to the
    topology; every query family draws from its own stream, so that extending one family does not
    change what the others generate."""
    qbase = rng.getrandbits(64)
    R = {"rng": None}

    def family(name):
        R["rng"] = random.Random("%d/%s" % (qbase, name))
        return R["rng"]
    rng = family("sets")
    q = []
    nobj = len(t.objs)
    small = nobj <= 40
    root = t.root_cs or 0
    top = root.bit_length()
    # ---- query sets
    pool = [0, root, root | (1 << (top + 1)), 1 << (top + 3), (1 << 64) | 1 if top < 64 else 1 << (top + 70)]
    csets = sorted(set(o["cs"] for o in t.withcs if o["cs"] is not None and o["cs"] >= 0))
    pool += csets if small else rng.sample(csets, min(len(csets), 12))
    for _ in range(8 if small else 5):
        if len(csets) >= 2:
            a, b = rng.sample(csets, 2)
            pool.append(a | b)
        pool.append(rand_subset(rng, root, rng.choice([0.2, 0.5, 0.9])))
    pool = list(dict.fromkeys(pool))
    sets = [fmt_set(s) for s in pool]
    # infinite sets: everything, everything from some bit, complement of the root
    sets += ["1:" + "f" * 16, "1:" + "%016x" % (((1 << 64) - 1) & ~root), "1:" + "%016x" % (((1 << 64) - 1) & ~1)]
    depths = list(range(t.depth)) + [-3, -8] + [d for d in IO_DEPTHS if not t.levels.get(d)] + [t.depth, t.depth + 1, -1, -2, -9]
    ids = [o["id"] for o in t.objs]
    nids = [o["id"] for o in t.normal]

    def some(l, k):
        return l if len(l) <= k else R["rng"].sample(l, k)

    rng = family("covering")
    for s in sets:
        q.append("covering " + s)
    # every single PU and every object's cpuset, whatever the size of the topology (the descent depends on the
    # sibling order, which follows complete_cpuset: offline / disallowed PUs make it differ from the cpuset order)
    pubits = [i for i in range(top) if (root >> i) & 1]
    extra = [1 << b for b in (pubits if len(pubits) <= 64 else some(pubits, 64))]
    extra += csets if len(csets) <= 80 else some(csets, 80)
    for _ in range(10):
        if len(pubits) >= 2:
            a, b = rng.sample(pubits, 2)
            extra.append((1 << a) | (1 << b))
    must = []
    for x in dict.fromkeys(extra):
        if fmt_set(x) not in sets:
            q.append("covering " + fmt_set(x))
            q.append("child_covering %d %s" % (rng.choice(nids), fmt_set(x)))
        must.append("largest %s %d" % (fmt_set(x), nobj + 1))
        must.append("first_largest " + fmt_set(x))
    must = some(must, 300)
    for o in some(t.normal, 12):
        if o["cs"]:
            for c in [x for x in t.normal if x["par"] == str(o["id"]) and x["cs"]][:6]:
                q.append("child_covering %d %s" % (o["id"], fmt_set(c["cs"] & -c["cs"] if rng.random() < 0.5 else c["cs"])))
    rng = family("first_largest")
    for s in some(sets, 10):
        q.append("first_largest " + s)
        q.append("child_covering %d %s" % (rng.choice(nids), s))
    rng = family("largest")
    for s in sets:
        for mx in some([0, 1, 2, 3, nobj, nobj + 5, -1], 7 if small else 3):
            q.append("largest %s %d" % (s, mx))
    rng = family("iterators")
    for s in some(sets, 14 if small else 6):
        for d in some(depths, len(depths) if small else 5):
            q.append("inside %d %s" % (d, s))
            q.append("covering_iter %d %s" % (d, s))
        q.append("nb_inside %d %s" % (rng.choice(depths[:t.depth] + [-3]), s))
        q.append("to_nodeset " + s)
        q.append("from_nodeset " + s)
        for wh in some([0, 1, 2, 5], 2):
            q.append("singlify_per_core %s %d" % (s, wh))
    rng = family("nb_inside")
    rootbits = [i for i in range(top) if (root >> i) & 1]
    isets = [root, 0]
    for k in range(1, len(rootbits)):
        if small or rng.random() < 0.2:
            isets.append(sum(1 << b for b in rootbits[:k]))       # prefixes
            isets.append(sum(1 << b for b in rootbits[k:]))       # suffixes
    for b in (rootbits if small else some(rootbits, 6)):
        isets.append(root & ~(1 << b))                            # all but one
    isets = [fmt_set(x) for x in dict.fromkeys(isets)] + ["1:" + "f" * 16, "1:" + "%016x" % (((1 << 64) - 1) & ~1)]
    for s_ in some(isets, 40 if small else 8):
        for dd in some(list(range(t.depth)) + [-3], t.depth + 1 if small else 3):
            q.append("nb_inside %d %s" % (dd, s_))
    rng = family("pairs")
    # ---- pairs
    if small:
        pairs = [(a, b) for a in nids for b in nids]
        pairs = some(pairs, 300 if tier == "quick" else 1600)
    else:
        pairs = [(rng.choice(nids), rng.choice(nids)) for _ in range(40)]
    # a few pairs with memory / I/O / Misc objects (negative depth)
    spec = [o["id"] for o in t.objs if o["dp"] < 0]
    for _ in range(6 if spec else 0):
        pairs.append((rng.choice(spec), rng.choice(ids)))
        pairs.append((rng.choice(ids), rng.choice(spec)))
    # non-normal objects whose deepest common ancestor is itself non-normal: (special parent, child) in both
    # orders, siblings below a special parent, grandparents; and every memory object as source of closest_objs
    byid = {o["id"]: o for o in t.objs}
    kids_of = {}
    for o in t.objs:
        if o["par"].isdigit():
            kids_of.setdefault(int(o["par"]), []).append(o["id"])
    structured = []
    for o in t.objs:
        if o["dp"] < 0 and o["par"].isdigit() and byid[int(o["par"])]["dp"] < 0:
            pp = int(o["par"])
            structured += [(pp, o["id"]), (o["id"], pp)]
            sib = [x for x in kids_of.get(pp, []) if x != o["id"]]
            if sib:
                structured += [(o["id"], sib[0]), (sib[-1], o["id"])]
            g = byid[pp]["par"]
            if g.isdigit():
                structured += [(int(g), o["id"]), (o["id"], int(g))]
    structured = some(list(dict.fromkeys(structured)), 80 if tier == "quick" else 600)
    must += ["ancestor %d %d" % ab for ab in structured]
    must += ["closest %d %d" % (o["id"], nobj) for o in some([x for x in t.objs if x["dp"] in (-3, -8)], 12)]
    for a, b in pairs:
        q.append("ancestor %d %d" % (a, b))
    for a, b in some(pairs, 30):
        q.append("in_subtree %d %d" % (a, b))
    rng = family("closest")
    for o in some(ids, 40 if small else 12):
        for mx in some([0, 1, 3, nobj], 4 if small else 2):
            q.append("closest %d %d" % (o, mx))
    rng = family("same_locality")
    for o in some(ids, 25 if small else 10):
        for ty in some(list(range(20)), 20 if small else 5):
            q.append("same_locality %d %d" % (o, ty))
    rng = family("same_locality_io")
    # I/O and Misc sources; subtype / name-prefix filters taken from the objects themselves; flags
    ioobjs = [o for o in t.objs if o["dp"] in IO_DEPTHS]
    for o in some(ioobjs, 30 if tier == "quick" else 200):
        for ty in (16, 17, 18, 19, 3, 14):
            q.append("same_locality %d %d" % (o["id"], ty))
    named = [o for o in t.objs if o["nm"] != "-" or o["st"] != "-"]
    for o in some(named, 12 if tier == "quick" else 80):
        for src in some(t.objs, 3):
            st = o["st"] if o["st"] != "-" and rng.random() < 0.7 else "-"
            np = o["nm"] if o["nm"] != "-" and rng.random() < 0.7 else "-"
            if np != "-" and rng.random() < 0.5 and "%" not in np:
                np = np[:rng.randint(1, len(np))]
            if rng.random() < 0.4:
                st, np = st.swapcase(), np.swapcase()      # strcasecmp
            if rng.random() < 0.15:
                np = np + "zz" if np != "-" else "zz"        # no match
            for ty in (o["ty"], rng.randrange(20)):
                q.append("same_locality %d %d %s %s %d" % (src["id"], ty, st, np, 0 if rng.random() < 0.93 else rng.choice([1, 2, 8])))
            if src["dp"] in IO_DEPTHS or o["dp"] in IO_DEPTHS:
                for ty in (17, 18):
                    q.append("same_locality %d %d %s %s 0" % (src["id"], ty, st, np))
    q.append("same_locality 0 0 - - 1")
    for o in some(ids, 40 if small else 15) + [x["id"] for x in some(ioobjs, 6)]:
        q.append("next_child %d" % o)
    q.append("memory_parents_depth")
    for ty in range(-1, 22):
        q.append("type_kind %d" % ty)
    rng = family("type_depth_attr")
    for gd in (0, 1, 2, 3, 7, 4294967295):
        for mode in (0, 1, 2):
            q.append("type_depth_attr 13 %d %d" % (gd, mode))
    for ty in some(list(range(20)), 6):
        q.append("type_depth_attr %d %d 0" % (ty, rng.choice([0, 1, 4294967295])))
    for sname in ["Group0", "Group1", "Group2", "group", "Group7", "Core", "PU", "L2Cache", "L1i", "L3", "NUMANode", "Package", "Machine",
                  "OSDev", "PCIDev", "Bridge", "Misc", "MemCache", "Die", "foo", "Gr", "l1icache", "HostBridge", "GPU"]:
        q.append("sscanf_depth " + sname)
    for ty in range(-1, 22):
        q.append("type_depth %d" % ty)
    for d in range(-10, t.depth + 2):
        q.append("depth_type %d" % d)
    for ty in NORMAL_TYPES:
        q.append("type_or_below %d" % ty)
        q.append("type_or_above %d" % ty)
    rng = family("distrib")
    # ---- distrib
    npu = len(t.pus)
    rootsets = [[0]]
    kids = [o["id"] for o in t.objs if o["par"] == "0" and o["dp"] > 0]
    if len(kids) > 1:
        rootsets.append(kids)
        rootsets.append(some(kids, max(1, len(kids) - 1)))
    for d in range(1, t.depth):
        lv = t.levels.get(d, [])
        if len(lv) > 1 and rng.random() < 0.5:
            rootsets.append(sorted(rng.sample(lv, rng.randint(1, min(len(lv), 6)))))
    numa = t.levels.get(-3, [])
    if numa:
        rootsets.append([rng.choice(numa)])
        rootsets.append(some(numa, 3))
    cpuless = [o["id"] for o in t.normal if o["cs"] == 0]
    if cpuless:
        rootsets.append(some(cpuless, 2))
    untils = list(range(t.depth)) + [INT_MAX, -1, t.depth + 3]
    if small and npu <= 12:
        ns = list(range(1, 2 * npu + 4))
    else:
        ns = sorted(set([1, 2, 3, npu - 1, npu, npu + 1] + [rng.randint(1, 2 * npu + 3) for _ in range(4)]))
        ns = [n for n in ns if 1 <= n <= 300]
    for rs in rootsets:
        for n in ns:
            for u in some(untils, len(untils) if (small and npu <= 8) else 3):
                for fl in (0, 1):
                    q.append("distrib %s %d %d %d" % (",".join(map(str, rs)), n, u, fl))
    q.append("distrib 0 0 %d 0" % INT_MAX)
    q.append("distrib 0 2 %d 2" % INT_MAX)
    q.append("distrib 0 2 %d 3" % INT_MAX)
    rng = family("budget")
    if len(q) > budget:
        # the cheap single-answer kinds are kept whole (up to a cap): their inputs are enumerated on purpose
        # (every PU, every object cpuset, prefixes/suffixes); the bulky kinds share the rest proportionally
        keepall = {"covering", "child_covering", "first_largest", "nb_inside", "type_depth", "depth_type", "type_depth_attr",
                   "sscanf_depth", "type_kind", "next_child", "memory_parents_depth", "type_or_below", "type_or_above"}
        bykind = {}
        for x in q:
            bykind.setdefault(x.split(" ", 1)[0], []).append(x)
        keep = []
        rest = 0
        for k, l in bykind.items():
            if k in keepall:
                keep += some(l, 400)
            else:
                rest += len(l)
        room = max(budget - len(keep), budget // 2)
        for k, l in bykind.items():
            if k not in keepall:
                keep += some(l, max(6, room * len(l) // max(rest, 1)))
        q = keep
    q += [x for x in must if x not in set(q)]
    return q
