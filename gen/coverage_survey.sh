#!/bin/bash
# Coverage survey (not a registered check): which lines of /repo/hwloc/*.c do the quick (or $TIER) checks execute?
# Builds gcov-instrumented libraries in a separate cache (HWV_COV=1), runs every check, then writes
# build/coverage/<source>.gcov and build/coverage/SUMMARY.txt (per function: executed/total lines).
# Lines never executed by any check are places where a code change cannot be noticed by the correspondence side.
set -u
cd /verif
export HWV_COV=1
TIER=${TIER:-quick}
CHECKS=${*:-C01 C02 C03 C04 C05 C06 C07 C08 C09 C10 C11 C12 C13 C14 C15 C16 C17 C18 C19 C20}
python3 - <<'PY'
from hv import common as C
for s in (True, False, "tsan"):
    print(C.build_lib(s))
PY
[ $# -eq 0 ] && rm -f build/lib-*cov-*/*.gcda     # a full survey starts from zero; a per-check run accumulates
for c in $CHECKS; do
  ( ./check.py $c --tier $TIER > build/coverage-$c.log 2>&1; tail -1 build/coverage-$c.log ) &
  while [ $(jobs -r | wc -l) -ge 5 ]; do sleep 2; done
done
wait
(
flock 9
mkdir -p build/coverage
for d in build/lib-*cov-*; do
  [ -d $d ] || continue
  ( cd $d; for o in *.gcda; do [ -f $o ] && gcov -f -o . ${o%.gcda}.c > gcov-${o%.gcda}.txt 2>/dev/null; done )
done
python3 gen/coverage_merge.py
) 9> build/coverage.lock
