/* Flat canonical dump of a topology as the C side observes it through the
 * public structure fields and accessors (DESIGN.md section 5).  Shared by all
 * topology harnesses.  The model side prints the same format; the verified
 * checker (coq/Topo/WFCheck.v) reads it.
 *
 * Lines:
 *  T flags=<n> depth=<n> nobj=<n> filters=<f0,...,f19> acpu=<set> anode=<set>
 *  L <depth> <depth_type> <width> <id,id,...|->  probe=<id|->     (normal depths 0..depth-1, then special depths)
 *  D <type> <type_depth>
 *  O <id> ty= dp= os= gp= par= fc= lc= ps= ns= pc= nc= ar= mar= iar= xar= rk= li=
 *        ca=<children[] ids|-> nch= mch= ich= xch=   (chains first->next_sibling)
 *        cs= ccs= nds= cnds= tm= lm= sym= at=<k:v,...> nm= st= inf=<n=v;...> ud=<0|1>
 * ids are dump-local, assigned in DFS pre-order (normal, memory, io, misc
 * children: the order hwloc_list_special_objects() uses); a pointer to
 * something outside the enumerated tree is printed as '?'.
 * sets: '-' for NULL, else <infinite 0|1>:<hex of all words, most significant first>.
 */
#ifndef HWV_DUMP_H
#define HWV_DUMP_H
#include <hwloc.h>
#include <stdio.h>
#include <stdlib.h>
#include <string.h>
#include <stdint.h>

#define HWV_MAXOBJ 2000000u

struct hwv_map { const void **keys; unsigned *vals; unsigned cap, n; const void **order; };

static unsigned hwv_hash(const void *p, unsigned cap) { uintptr_t x = (uintptr_t)p; x ^= x >> 17; x *= 0x9E3779B97F4A7C15ull; x ^= x >> 29; return (unsigned)(x & (cap - 1)); }
static void hwv_map_init(struct hwv_map *m) { m->cap = 1024; m->n = 0; m->keys = calloc(m->cap, sizeof(void*)); m->vals = calloc(m->cap, sizeof(unsigned)); m->order = malloc(m->cap * sizeof(void*)); }
static void hwv_map_free(struct hwv_map *m) { free(m->keys); free(m->vals); free(m->order); }
static int hwv_map_get(struct hwv_map *m, const void *p) {
  unsigned h = hwv_hash(p, m->cap);
  while (m->keys[h]) { if (m->keys[h] == p) return (int)m->vals[h]; h = (h + 1) & (m->cap - 1); }
  return -1;
}
static void hwv_map_put(struct hwv_map *m, const void *p) {
  unsigned h;
  if (m->n * 2 >= m->cap) {
    struct hwv_map o = *m; unsigned i;
    m->cap *= 2; m->keys = calloc(m->cap, sizeof(void*)); m->vals = calloc(m->cap, sizeof(unsigned));
    m->order = realloc(m->order, m->cap * sizeof(void*));
    for (i = 0; i < o.cap; i++) if (o.keys[i]) { h = hwv_hash(o.keys[i], m->cap); while (m->keys[h]) h = (h + 1) & (m->cap - 1); m->keys[h] = o.keys[i]; m->vals[h] = o.vals[i]; }
    free(o.keys); free(o.vals);
  }
  h = hwv_hash(p, m->cap); while (m->keys[h]) h = (h + 1) & (m->cap - 1);
  m->keys[h] = p; m->vals[h] = m->n; m->order[m->n] = p; m->n++;
}

static void hwv_enum(struct hwv_map *m, hwloc_obj_t o)
{
  hwloc_obj_t c;
  if (!o || m->n >= HWV_MAXOBJ || hwv_map_get(m, o) >= 0) return;
  hwv_map_put(m, o);
  for (c = o->first_child; c && hwv_map_get(m, c) < 0; c = c->next_sibling) hwv_enum(m, c);
  for (c = o->memory_first_child; c && hwv_map_get(m, c) < 0; c = c->next_sibling) hwv_enum(m, c);
  for (c = o->io_first_child; c && hwv_map_get(m, c) < 0; c = c->next_sibling) hwv_enum(m, c);
  for (c = o->misc_first_child; c && hwv_map_get(m, c) < 0; c = c->next_sibling) hwv_enum(m, c);
}

static void hwv_pid(FILE *f, struct hwv_map *m, const void *p)
{
  int i;
  if (!p) { fputc('-', f); return; }
  i = hwv_map_get(m, p);
  if (i < 0) fputc('?', f); else fprintf(f, "%d", i);
}

static void hwv_pset(FILE *f, hwloc_const_bitmap_t s)
{
  int last, lastu, top, n, i, inf;
  if (!s) { fputc('-', f); return; }
  last = hwloc_bitmap_last(s); lastu = hwloc_bitmap_last_unset(s);
  top = last > lastu ? last : lastu;
  n = top < 0 ? 1 : top / (int)(8 * sizeof(unsigned long)) + 1;
  inf = hwloc_bitmap_isset(s, (unsigned)(n * 8 * sizeof(unsigned long) + 7));
  fprintf(f, "%d:", inf);
  for (i = n - 1; i >= 0; i--) fprintf(f, "%016lx", hwloc_bitmap_to_ith_ulong(s, (unsigned)i));
}

static void hwv_pstr(FILE *f, const char *s)
{
  if (!s) { fputc('-', f); return; }
  fputc('"', f);
  for (; *s; s++) {
    unsigned char c = (unsigned char)*s;
    if (c <= 32 || c >= 127 || c == '%' || c == '"' || c == '=' || c == ';' || c == ',') fprintf(f, "%%%02x", c);
    else fputc(c, f);
  }
  fputc('"', f);
}

static void hwv_pchain(FILE *f, struct hwv_map *m, hwloc_obj_t first, unsigned bound)
{
  hwloc_obj_t c; unsigned k = 0;
  if (!first) { fputc('-', f); return; }
  for (c = first; c; c = c->next_sibling) {
    if (k) fputc(',', f);
    hwv_pid(f, m, c);
    if (++k > bound) { fputs(",!cycle", f); break; }
  }
}

static void hwv_pattr(FILE *f, hwloc_obj_t o)
{
  if (!o->attr) { fputc('-', f); return; }
  switch (o->type) {
  case HWLOC_OBJ_L1CACHE: case HWLOC_OBJ_L2CACHE: case HWLOC_OBJ_L3CACHE: case HWLOC_OBJ_L4CACHE: case HWLOC_OBJ_L5CACHE:
  case HWLOC_OBJ_L1ICACHE: case HWLOC_OBJ_L2ICACHE: case HWLOC_OBJ_L3ICACHE: case HWLOC_OBJ_MEMCACHE:
    fprintf(f, "cdepth:%u,ctype:%d,csize:%llu,cline:%u,cassoc:%d", o->attr->cache.depth, (int)o->attr->cache.type,
            (unsigned long long)o->attr->cache.size, o->attr->cache.linesize, o->attr->cache.associativity);
    break;
  case HWLOC_OBJ_GROUP:
    fprintf(f, "gdepth:%u,gkind:%u,gsubkind:%u,gdontmerge:%u", o->attr->group.depth, o->attr->group.kind,
            o->attr->group.subkind, (unsigned)o->attr->group.dont_merge);
    break;
  case HWLOC_OBJ_NUMANODE: {
    unsigned i;
    fprintf(f, "npt:%u", o->attr->numanode.page_types_len);
    for (i = 0; i < o->attr->numanode.page_types_len; i++)
      fprintf(f, ",pt%usize:%llu,pt%ucount:%llu", i, (unsigned long long)o->attr->numanode.page_types[i].size,
              i, (unsigned long long)o->attr->numanode.page_types[i].count);
    break; }
  case HWLOC_OBJ_PCI_DEVICE:
    fprintf(f, "dom:%u,bus:%u,dev:%u,func:%u,class:%u,vendor:%u,device:%u,subvendor:%u,subdevice:%u,rev:%u,prog:%u",
            (unsigned)o->attr->pcidev.domain, (unsigned)o->attr->pcidev.bus, (unsigned)o->attr->pcidev.dev, (unsigned)o->attr->pcidev.func,
            (unsigned)o->attr->pcidev.class_id, (unsigned)o->attr->pcidev.vendor_id, (unsigned)o->attr->pcidev.device_id,
            (unsigned)o->attr->pcidev.subvendor_id, (unsigned)o->attr->pcidev.subdevice_id, (unsigned)o->attr->pcidev.revision,
            (unsigned)o->attr->pcidev.prog_if);
    break;
  case HWLOC_OBJ_BRIDGE:
    fprintf(f, "bup:%d,bdown:%d,bdepth:%u", (int)o->attr->bridge.upstream_type, (int)o->attr->bridge.downstream_type, o->attr->bridge.depth);
    if (o->attr->bridge.upstream_type == HWLOC_OBJ_BRIDGE_PCI)
      fprintf(f, ",dom:%u,bus:%u,dev:%u,func:%u,class:%u,vendor:%u,device:%u", (unsigned)o->attr->bridge.upstream.pci.domain,
              (unsigned)o->attr->bridge.upstream.pci.bus, (unsigned)o->attr->bridge.upstream.pci.dev, (unsigned)o->attr->bridge.upstream.pci.func,
              (unsigned)o->attr->bridge.upstream.pci.class_id, (unsigned)o->attr->bridge.upstream.pci.vendor_id, (unsigned)o->attr->bridge.upstream.pci.device_id);
    if (o->attr->bridge.downstream_type == HWLOC_OBJ_BRIDGE_PCI)
      fprintf(f, ",ddom:%u,dsec:%u,dsub:%u", (unsigned)o->attr->bridge.downstream.pci.domain,
              (unsigned)o->attr->bridge.downstream.pci.secondary_bus, (unsigned)o->attr->bridge.downstream.pci.subordinate_bus);
    break;
  case HWLOC_OBJ_OS_DEVICE:
    fprintf(f, "ostypes:%lu", (unsigned long)o->attr->osdev.types);
    break;
  default:
    fputc('-', f);
  }
}

static void hwv_dump_objs(FILE *f, struct hwv_map *mp, int dflags)
{
  unsigned i, nobj = mp->n;
#define m (*mp)
  for (i = 0; i < nobj; i++) {
    hwloc_obj_t o = (hwloc_obj_t)m.order[i];
    unsigned j;
    fprintf(f, "O %u ty=%d dp=%d os=%u gp=", i, (int)o->type, o->depth, o->os_index);
    if (dflags & 1) fputc('*', f); else fprintf(f, "%llu", (unsigned long long)o->gp_index);
    fputs(" par=", f); hwv_pid(f, &m, o->parent);
    fputs(" fc=", f); hwv_pid(f, &m, o->first_child);
    fputs(" lc=", f); hwv_pid(f, &m, o->last_child);
    fputs(" ps=", f); hwv_pid(f, &m, o->prev_sibling);
    fputs(" ns=", f); hwv_pid(f, &m, o->next_sibling);
    fputs(" pc=", f); hwv_pid(f, &m, o->prev_cousin);
    fputs(" nc=", f); hwv_pid(f, &m, o->next_cousin);
    fprintf(f, " ar=%u mar=%u iar=%u xar=%u rk=%u li=%u ca=", o->arity, o->memory_arity, o->io_arity, o->misc_arity, o->sibling_rank, o->logical_index);
    if (!o->children) fputc('-', f);
    else if (!o->arity) fputc('!', f);
    else for (j = 0; j < o->arity && j < HWV_MAXOBJ; j++) { if (j) fputc(',', f); hwv_pid(f, &m, o->children[j]); }
    fputs(" nch=", f); hwv_pchain(f, &m, o->first_child, nobj);
    fputs(" mch=", f); hwv_pchain(f, &m, o->memory_first_child, nobj);
    fputs(" ich=", f); hwv_pchain(f, &m, o->io_first_child, nobj);
    fputs(" xch=", f); hwv_pchain(f, &m, o->misc_first_child, nobj);
    fputs(" cs=", f); hwv_pset(f, o->cpuset);
    fputs(" ccs=", f); hwv_pset(f, o->complete_cpuset);
    fputs(" nds=", f); hwv_pset(f, o->nodeset);
    fputs(" cnds=", f); hwv_pset(f, o->complete_nodeset);
    fprintf(f, " tm=%llu lm=%llu sym=%d at=", (unsigned long long)o->total_memory,
            (unsigned long long)(o->type == HWLOC_OBJ_NUMANODE && o->attr ? o->attr->numanode.local_memory : 0), o->symmetric_subtree);
    hwv_pattr(f, o);
    fputs(" nm=", f); hwv_pstr(f, o->name);
    fputs(" st=", f); hwv_pstr(f, o->subtype);
    fputs(" inf=", f);
    if (!o->infos.count) fputc('-', f);
    for (j = 0; j < o->infos.count; j++) { if (j) fputc(';', f); hwv_pstr(f, o->infos.array[j].name); fputc('=', f); hwv_pstr(f, o->infos.array[j].value); }
    if (dflags & 2) fputs(" ud=*", f); else fprintf(f, " ud=%d", o->userdata ? 1 : 0);
    fputc('\n', f);
  }
#undef m
}

/* flags: bit0 = omit gp_index, bit1 = omit userdata presence */
static void hwv_dump_topology(FILE *f, hwloc_topology_t t, int dflags)
{
  struct hwv_map m;
  unsigned i, nobj;
  int depth, d, ty;
  static const int sdepths[] = { HWLOC_TYPE_DEPTH_NUMANODE, HWLOC_TYPE_DEPTH_BRIDGE, HWLOC_TYPE_DEPTH_PCI_DEVICE,
                                 HWLOC_TYPE_DEPTH_OS_DEVICE, HWLOC_TYPE_DEPTH_MISC, HWLOC_TYPE_DEPTH_MEMCACHE };
  hwv_map_init(&m);
  hwv_enum(&m, hwloc_get_root_obj(t));
  nobj = m.n;
  depth = hwloc_topology_get_depth(t);
  fprintf(f, "T flags=%lu depth=%d nobj=%u filters=", hwloc_topology_get_flags(t), depth, nobj);
  for (ty = 0; ty < HWLOC_OBJ_TYPE_MAX; ty++) {
    enum hwloc_type_filter_e fl = HWLOC_TYPE_FILTER_KEEP_ALL;
    hwloc_topology_get_type_filter(t, (hwloc_obj_type_t)ty, &fl);
    fprintf(f, "%s%d", ty ? "," : "", (int)fl);
  }
  fputs(" acpu=", f); hwv_pset(f, hwloc_topology_get_allowed_cpuset(t));
  fputs(" anode=", f); hwv_pset(f, hwloc_topology_get_allowed_nodeset(t));
  fputc('\n', f);
  for (d = 0; d < depth + 6; d++) {
    int dd = d < depth ? d : sdepths[d - depth];
    unsigned w = hwloc_get_nbobjs_by_depth(t, dd), j;
    fprintf(f, "L %d %d %u ", dd, (int)hwloc_get_depth_type(t, dd), w);
    if (!w) fputc('-', f);
    for (j = 0; j < w && j < HWV_MAXOBJ; j++) { if (j) fputc(',', f); hwv_pid(f, &m, hwloc_get_obj_by_depth(t, dd, j)); }
    fputs(" probe=", f); hwv_pid(f, &m, hwloc_get_obj_by_depth(t, dd, w));
    fputc('\n', f);
  }
  for (ty = 0; ty < HWLOC_OBJ_TYPE_MAX; ty++)
    fprintf(f, "D %d %d\n", ty, hwloc_get_type_depth(t, (hwloc_obj_type_t)ty));
  hwv_dump_objs(f, &m, dflags);
  fputs("E\n", f);
  hwv_map_free(&m);
}

/* Raw tree at a phase boundary of hwloc_discover() (hook HWLOC_VERIF): only the
 * first_child/next_sibling chains and the object payloads are meaningful; no
 * level lines are printed (levels do not exist yet). */
static void hwv_dump_raw(FILE *f, hwloc_topology_t t, int phase)
{
  struct hwv_map m;
  int ty;
  hwv_map_init(&m);
  hwv_enum(&m, hwloc_get_root_obj(t));
  fprintf(f, "T flags=%lu depth=0 nobj=%u phase=%d filters=", hwloc_topology_get_flags(t), m.n, phase);
  for (ty = 0; ty < HWLOC_OBJ_TYPE_MAX; ty++) {
    enum hwloc_type_filter_e fl = HWLOC_TYPE_FILTER_KEEP_ALL;
    hwloc_topology_get_type_filter(t, (hwloc_obj_type_t)ty, &fl);
    fprintf(f, "%s%d", ty ? "," : "", (int)fl);
  }
  fputs(" acpu=", f); hwv_pset(f, hwloc_topology_get_allowed_cpuset(t));
  fputs(" anode=", f); hwv_pset(f, hwloc_topology_get_allowed_nodeset(t));
  fputc('\n', f);
  hwv_dump_objs(f, &m, 0);
  fputs("E\n", f);
  hwv_map_free(&m);
}

/* Raw tree around one insertion by cpuset (hook HWLOC_VERIF): the whole tree from the topology root, then the
 * object being inserted (and anything below it) appended as extra objects.  when=0 (before): phase=10,
 * ins=<id of obj>; when=1 (after): phase=11, res=<id of the returned object|->, same=<1 if result==obj>. */
static void hwv_dump_insert(FILE *f, hwloc_topology_t t, int when, hwloc_obj_t root, hwloc_obj_t obj, hwloc_obj_t result)
{
  struct hwv_map m;
  int ty;
  hwv_map_init(&m);
  hwv_enum(&m, hwloc_get_root_obj(t));
  fprintf(f, "T flags=%lu depth=0 nobj=", hwloc_topology_get_flags(t));
  /* when: 0/1 before/after hwloc___insert_object_by_cpuset, 2/3 before/after hwloc__find_insert_memory_parent
   * (after: root = the returned parent), 4/5 before/after hwloc___attach_memory_object_by_nodeset */
  if ((when != 1 && when != 5) || (result != obj)) hwv_enum(&m, obj);   /* still unlinked: append it */
  fprintf(f, "%u phase=%d insroot=", m.n, 10 + when);
  hwv_pid(f, &m, root);
  fputs(" ins=", f); hwv_pid(f, &m, obj);
  fputs(" res=", f); hwv_pid(f, &m, result);
  fprintf(f, " same=%d filters=", result == obj);
  for (ty = 0; ty < HWLOC_OBJ_TYPE_MAX; ty++) {
    enum hwloc_type_filter_e fl = HWLOC_TYPE_FILTER_KEEP_ALL;
    hwloc_topology_get_type_filter(t, (hwloc_obj_type_t)ty, &fl);
    fprintf(f, "%s%d", ty ? "," : "", (int)fl);
  }
  fputs(" acpu=- anode=-\n", f);
  hwv_dump_objs(f, &m, 0);
  fputs("E\n", f);
  hwv_map_free(&m);
}

/* light trace: only the object handed to the core (phase 20: normal insertion starting at the root, 22: memory object) */
static void hwv_dump_request(FILE *f, hwloc_topology_t t, int phase, hwloc_obj_t obj)
{
  struct hwv_map m;
  int ty;
  hwv_map_init(&m);
  hwv_enum(&m, obj);
  fprintf(f, "T flags=%lu depth=0 nobj=%u phase=%d insroot=- ins=0 res=- same=0 filters=", hwloc_topology_get_flags(t), m.n, phase);
  for (ty = 0; ty < HWLOC_OBJ_TYPE_MAX; ty++) {
    enum hwloc_type_filter_e fl = HWLOC_TYPE_FILTER_KEEP_ALL;
    hwloc_topology_get_type_filter(t, (hwloc_obj_type_t)ty, &fl);
    fprintf(f, "%s%d", ty ? "," : "", (int)fl);
  }
  fputs(" acpu=- anode=-\n", f);
  hwv_dump_objs(f, &m, 0);
  fputs("E\n", f);
  hwv_map_free(&m);
}
#endif
