/* C20 - library-side reference for the command-line tools.
 *
 * A line-oriented server: every command is answered through the PUBLIC
 * LIBRARY API only (never through utils/hwloc/hwloc-calc.h) and the answer is
 * terminated by a line ".", so that checks/c20.py can converse with it.
 *
 *   topo <calc|lstopo|distrib|diff> <synthetic|xml> <arg...>
 *        loads a topology the way the named tool configures it (flags and
 *        type filters copied from the tools' main()), prints "load rc=<0|-1>"
 *        and the canonical dump (harness/hwv_dump.h)
 *   config <line>                a configuration line (hwv_load.h: "filter <type-number|all|io|cache|icache> <kind>") for the next topo
 *   restrict <flags> <set in hwloc format>   hwloc_topology_restrict (what the tools' --restrict does after the load):
 *        prints "restrict rc=<rc>" and the new dump
 *   xmlexport <flags> <file>     hwloc_topology_export_xmlbuffer -> bytes written to <file>
 *   synexport <flags>            hwloc_topology_export_synthetic  -> "syn <rc> <text>"
 *   largest <set>                hwloc_get_largest_objs_inside_cpuset -> "largest <n> Type:lidx ..."
 *   distrib <n> <from> <until> <flags>   hwloc_distrib over the objects of depth <from> -> "d <set>" lines
 *   typedepth <string>           hwloc_type_sscanf_as_depth -> "typedepth <err> <type> <depth>"
 *   fmt <set>                    "fmt <hwloc> <list> <taskset>" (the three library printers)
 *   sscan <hwloc|list|taskset> <string>  library parsers -> "sscan <rc> <set>"
 *   tonodeset <set> / fromnodeset <set>  hwloc_cpuset_to_nodeset / hwloc_cpuset_from_nodeset
 *   singlify <set>               hwloc_bitmap_singlify
 *   covering <depth> <cset> <nset>  objects of the depth whose cpuset (nodeset for memory objects)
 *                                intersects: "covering <lidx>:<os> ..."
 *   rootsets                     "rootsets <topology cpuset> <topology nodeset> <complete cpuset> <complete nodeset>"
 * Sets use the dump syntax <inf>:<hex>.
 */
#include <hwloc.h>
#include <stdio.h>
#include <stdlib.h>
#include <string.h>
#include <limits.h>
#include "hwv_dump.h"
#include "hwv_load.h"

/* the userdata pass-through lstopo installs for XML -> XML (utils/hwloc/misc.h);
 * misc.h wants a usage() from its includer */
void usage(const char *n, FILE *f) { (void)n; (void)f; }
#include "misc.h"

static hwloc_topology_t topo;
static int loaded;
/* "config <line>": configuration lines of harness/hwv_load.h (filter <type|all|io|cache|icache> <kind>, ...) applied
 * by the next "topo" command after the tool's own defaults, as the tools apply their command-line filters */
static char *pending[64];
static int npending;

static void done(void) { puts("."); fflush(stdout); }

static void pset(hwloc_const_bitmap_t s) { hwv_pset(stdout, s); }

static void cmd_topo(char *args)
{
  char tool[16], kind[16];
  int n = 0, err;
  unsigned long flags;
  if (loaded) { hwloc_topology_destroy(topo); loaded = 0; }
  if (sscanf(args, "%15s %15s %n", tool, kind, &n) < 2) { puts("load rc=-2"); return; }
  args += n;
  hwloc_topology_init(&topo);
  if (!strcmp(tool, "calc")) {
    flags = HWLOC_TOPOLOGY_FLAG_IMPORT_SUPPORT;
    hwloc_topology_set_all_types_filter(topo, HWLOC_TYPE_FILTER_KEEP_ALL);
  } else if (!strcmp(tool, "lstopo")) {
    flags = HWLOC_TOPOLOGY_FLAG_IMPORT_SUPPORT;
    hwloc_topology_set_all_types_filter(topo, HWLOC_TYPE_FILTER_KEEP_ALL);
    hwloc_topology_set_io_types_filter(topo, HWLOC_TYPE_FILTER_KEEP_IMPORTANT);
  } else if (!strcmp(tool, "diff")) {
    flags = HWLOC_TOPOLOGY_FLAG_INCLUDE_DISALLOWED | HWLOC_TOPOLOGY_FLAG_IMPORT_SUPPORT;
    hwloc_topology_set_all_types_filter(topo, HWLOC_TYPE_FILTER_KEEP_ALL);
  } else { /* distrib: default filters */
    flags = HWLOC_TOPOLOGY_FLAG_IMPORT_SUPPORT;
  }
  hwloc_topology_set_flags(topo, flags);
  { int i; for (i = 0; i < npending; i++) { hwv_config_line(topo, pending[i]); free(pending[i]); } npending = 0; }
  if (!strcmp(kind, "synthetic")) err = hwloc_topology_set_synthetic(topo, args);
  else {
    err = hwloc_topology_set_xml(topo, args);
    if (!strcmp(tool, "lstopo")) {
      putenv((char *) "HWLOC_XML_USERDATA_NOT_DECODED=1");
      hwloc_topology_set_userdata_import_callback(topo, hwloc_utils_userdata_import_cb);
      hwloc_topology_set_userdata_export_callback(topo, hwloc_utils_userdata_export_cb);
    }
  }
  if (err < 0) { puts("load rc=-1"); hwloc_topology_destroy(topo); return; }
  err = hwloc_topology_load(topo);
  if (err < 0) { puts("load rc=-1"); hwloc_topology_destroy(topo); return; }
  loaded = 1;
  puts("load rc=0");
  hwv_dump_topology(stdout, topo, 2);
}

static void obj_name(hwloc_obj_t o)
{
  char type[64];
  hwloc_obj_type_snprintf(type, sizeof(type), o, HWLOC_OBJ_SNPRINTF_FLAG_LONG_NAMES);
  printf(" %s:%u", type, o->logical_index);
}

int main(void)
{
  char *line = NULL; size_t cap = 0; ssize_t len;
  setvbuf(stdout, NULL, _IOFBF, 1 << 16);
  while ((len = getline(&line, &cap, stdin)) > 0) {
    char *p = line;
    while (len && (p[len-1] == '\n' || p[len-1] == '\r')) p[--len] = 0;
    if (!strncmp(p, "config ", 7)) { if (npending < 64) pending[npending++] = strdup(p + 7); puts("config ok"); done(); continue; }
    if (!strncmp(p, "topo ", 5)) { cmd_topo(p + 5); done(); continue; }
    if (!loaded) { puts("notopo"); done(); continue; }
    if (!strncmp(p, "restrict ", 9)) {
      unsigned long fl; int n = 0, rc;
      hwloc_bitmap_t set = hwloc_bitmap_alloc();
      sscanf(p + 9, "%lu %n", &fl, &n);
      hwloc_bitmap_sscanf(set, p + 9 + n);
      rc = hwloc_topology_restrict(topo, set, fl);
      hwloc_bitmap_free(set);
      printf("restrict rc=%d\n", rc);
      hwv_dump_topology(stdout, topo, 2);
    } else if (!strncmp(p, "xmlexport ", 10)) {
      unsigned long fl; int n = 0; char *buf = NULL; int blen = 0, rc;
      sscanf(p + 10, "%lu %n", &fl, &n);
      rc = hwloc_topology_export_xmlbuffer(topo, &buf, &blen, fl);
      if (rc == 0) {
        FILE *f = fopen(p + 10 + n, "wb");
        /* the buffer length includes the ending NUL, the file written by export_xml() does not */
        if (f) { fwrite(buf, 1, blen > 0 ? (size_t)blen - 1 : 0, f); fclose(f); }
        hwloc_free_xmlbuffer(topo, buf);
      }
      printf("xml rc=%d len=%d\n", rc, blen);
    } else if (!strncmp(p, "synexport ", 10)) {
      unsigned long fl = strtoul(p + 10, NULL, 0);
      static char buf[65536];
      int rc = hwloc_topology_export_synthetic(topo, buf, sizeof(buf), fl);
      printf("syn %d %s\n", rc, rc >= 0 ? buf : "");
    } else if (!strncmp(p, "largest ", 8)) {
      hwloc_bitmap_t s = hwv_parse_set(p + 8);
      hwloc_obj_t objs[4096]; int n, i;
      n = s ? hwloc_get_largest_objs_inside_cpuset(topo, s, objs, 4096) : -2;
      printf("largest %d", n);
      for (i = 0; i < n; i++) obj_name(objs[i]);
      putchar('\n');
      hwloc_bitmap_free(s);
    } else if (!strncmp(p, "distrib ", 8)) {
      long n; int from, until; unsigned long fl; unsigned chunks, i;
      if (sscanf(p + 8, "%ld %d %d %lu", &n, &from, &until, &fl) == 4 && n >= 0 && n < 100000) {
        hwloc_bitmap_t *sets = calloc((size_t)n + 1, sizeof(*sets));
        hwloc_obj_t *roots;
        int rc;
        chunks = hwloc_get_nbobjs_by_depth(topo, from);
        roots = calloc(chunks + 1, sizeof(*roots));
        for (i = 0; i < chunks; i++) roots[i] = hwloc_get_obj_by_depth(topo, from, i);
        rc = hwloc_distrib(topo, roots, chunks, sets, (unsigned)n, until, fl);
        printf("distrib rc=%d\n", rc);
        for (i = 0; rc == 0 && (long)i < n; i++) { fputs("d ", stdout); pset(sets[i]); putchar('\n'); hwloc_bitmap_free(sets[i]); }
        free(sets); free(roots);
      } else puts("distrib rc=-2");
    } else if (!strncmp(p, "typedepth ", 10)) {
      hwloc_obj_type_t ty = (hwloc_obj_type_t)-1; int depth = 0;
      int err = hwloc_type_sscanf_as_depth(p + 10, &ty, topo, &depth);
      printf("typedepth %d %d %d\n", err, err < 0 ? -1 : (int)ty, err < 0 ? 0 : depth);
    } else if (!strncmp(p, "fmt ", 4)) {
      hwloc_bitmap_t s = hwv_parse_set(p + 4); char *a = NULL, *b = NULL, *c = NULL;
      if (s) {
        hwloc_bitmap_asprintf(&a, s); hwloc_bitmap_list_asprintf(&b, s); hwloc_bitmap_taskset_asprintf(&c, s);
        printf("fmt [%s] [%s] [%s]\n", a, b, c);
        free(a); free(b); free(c); hwloc_bitmap_free(s);
      } else puts("fmt ?");
    } else if (!strncmp(p, "sscan ", 6)) {
      char f[16]; int n = 0, rc = -2;
      hwloc_bitmap_t s = hwloc_bitmap_alloc();
      sscanf(p + 6, "%15s %n", f, &n);
      /* exactly-sized copy so that ASan sees an over-read of the parsers */
      { char *arg = strdup(p + 6 + n);
        if (!strcmp(f, "hwloc")) rc = hwloc_bitmap_sscanf(s, arg);
        else if (!strcmp(f, "list")) rc = hwloc_bitmap_list_sscanf(s, arg);
        else if (!strcmp(f, "taskset")) rc = hwloc_bitmap_taskset_sscanf(s, arg);
        free(arg); }
      printf("sscan %d ", rc); pset(s); putchar('\n');
      hwloc_bitmap_free(s);
    } else if (!strncmp(p, "tonodeset ", 10) || !strncmp(p, "fromnodeset ", 12)) {
      int to = p[0] == 't';
      hwloc_bitmap_t s = hwv_parse_set(p + (to ? 10 : 12)), r = hwloc_bitmap_alloc();
      if (s) {
        if (to) hwloc_cpuset_to_nodeset(topo, s, r); else hwloc_cpuset_from_nodeset(topo, r, s);
        fputs("set ", stdout); pset(r); putchar('\n');
      } else puts("set ?");
      hwloc_bitmap_free(s); hwloc_bitmap_free(r);
    } else if (!strncmp(p, "singlify ", 9)) {
      hwloc_bitmap_t s = hwv_parse_set(p + 9);
      if (s) { hwloc_bitmap_singlify(s); fputs("set ", stdout); pset(s); putchar('\n'); hwloc_bitmap_free(s); } else puts("set ?");
    } else if (!strncmp(p, "covering ", 9)) {
      int depth; char a[4096], b[4096];
      if (sscanf(p + 9, "%d %4095s %4095s", &depth, a, b) == 3) {
        hwloc_bitmap_t cs = hwv_parse_set(a), ns = hwv_parse_set(b);
        hwloc_obj_t o = NULL;
        fputs("covering", stdout);
        while (cs && ns && (o = hwloc_get_next_obj_by_depth(topo, depth, o)) != NULL) {
          hwloc_obj_t q = o;
          int hit;
          while (q && !q->cpuset) q = q->parent;        /* I/O and Misc: locality of the first non-I/O ancestor */
          if (!q) continue;
          hit = hwloc_obj_type_is_memory(o->type) ? hwloc_bitmap_intersects(ns, q->nodeset) : hwloc_bitmap_intersects(cs, q->cpuset);
          if (hit) printf(" %u:%u", o->logical_index, o->os_index);
        }
        putchar('\n');
        hwloc_bitmap_free(cs); hwloc_bitmap_free(ns);
      } else puts("covering ?");
    } else if (!strcmp(p, "rootsets")) {
      fputs("rootsets ", stdout); pset(hwloc_topology_get_topology_cpuset(topo));
      putchar(' '); pset(hwloc_topology_get_topology_nodeset(topo));
      putchar(' '); pset(hwloc_topology_get_complete_cpuset(topo));
      putchar(' '); pset(hwloc_topology_get_complete_nodeset(topo)); putchar('\n');
    } else puts("unknown");
    done();
  }
  if (loaded) hwloc_topology_destroy(topo);
  free(line); free(hwv_xmlbuf);
  return 0;
}
