/* C08 harness: hwloc_topology_restrict() on the real library.
 * Script on stdin, several topologies per process:
 *   new / <config lines, see hwv_load.h> / load
 *   misc <depth> <index> <name>      hwloc_topology_insert_misc_object below hwloc_get_obj_by_depth(depth,index)
 *   ud <depth> <index>               set a non-NULL userdata on that object
 *   group <dont_merge> <type> <i>... hwloc_topology_alloc_group_object + hwloc_obj_add_other_obj_sets of the objects
 *                                    hwloc_get_obj_by_type(type, i) + attr->group.dont_merge + hwloc_topology_insert_group_object
 *   allow <flags> <cpuset|-> <nodeset|->   hwloc_topology_allow (sets as <inf:hex>)
 *   reload <flags>                   export to an XML buffer, load it into a fresh topology with these flags and the
 *                                    same type filters, replace the topology (drops what is disallowed when flags lack INCLUDE_DISALLOWED)
 *   restrict <inf:hex> <flags>       hwloc_topology_restrict(set, flags)
 *   restrictnull <flags>             (not used: set must not be NULL per the API)
 *   dump / check / destroy / echo <text>
 * Output for a restrict step:
 *   R set=<set> flags=<n>
 *   <dump (T..E) of the topology before, only if it changed since the last dump printed>
 *   rc=<n> errno=<class>
 *   <dump after>
 *   check ok|abort          (hwloc_topology_check in a forked child)
 *   api root_cs=.. root_ccs=.. acs=.. root_nds=.. root_cnds=.. ans=..   (hwloc_topology_get_*_cpuset/nodeset accessors)
 */
#include "hwv_dump.h"
#include "hwv_load.h"
#include <unistd.h>
#include <sys/wait.h>
#include <signal.h>

static int hwv_userdata_target;
static char *saved_filters[64]; static unsigned nsaved;
static void forget_filters(void) { while (nsaved) free(saved_filters[--nsaved]); }

static void run_check(hwloc_topology_t t, int loaded)
{
  pid_t pid; int st = 0;
  fflush(stdout);
  pid = fork();
  if (!pid) { if (loaded) hwloc_topology_check(t); _exit(0); }
  waitpid(pid, &st, 0);
  printf("check %s\n", WIFEXITED(st) && WEXITSTATUS(st) == 0 ? "ok" : "abort");
}

static void print_api(hwloc_topology_t t)
{
  fputs("api cs=", stdout); hwv_pset(stdout, hwloc_topology_get_topology_cpuset(t));
  fputs(" ccs=", stdout); hwv_pset(stdout, hwloc_topology_get_complete_cpuset(t));
  fputs(" acs=", stdout); hwv_pset(stdout, hwloc_topology_get_allowed_cpuset(t));
  fputs(" nds=", stdout); hwv_pset(stdout, hwloc_topology_get_topology_nodeset(t));
  fputs(" cnds=", stdout); hwv_pset(stdout, hwloc_topology_get_complete_nodeset(t));
  fputs(" ans=", stdout); hwv_pset(stdout, hwloc_topology_get_allowed_nodeset(t));
  fputc('\n', stdout);
}

int main(void)
{
  char *line = NULL; size_t cap = 0;
  hwloc_topology_t t = NULL;
  int loaded = 0, dirty = 1;
  while (getline(&line, &cap, stdin) > 0) {
    size_t n = strlen(line);
    while (n && (line[n-1] == '\n' || line[n-1] == '\r')) line[--n] = 0;
    if (!strcmp(line, "new")) {
      if (t) hwloc_topology_destroy(t);
      loaded = 0; dirty = 1; forget_filters();
      printf("new rc=%d\n", hwloc_topology_init(&t));
    } else if (!strncmp(line, "echo ", 5)) {
      printf("%s\n", line);
    } else if (!strcmp(line, "load")) {
      int rc; errno = 0;
      rc = hwloc_topology_load(t);
      printf("load rc=%d errno=%s\n", rc, rc < 0 ? hwv_errno_class(errno) : "0");
      loaded = (rc == 0); dirty = 1;
    } else if (!strcmp(line, "dump")) {
      if (loaded) { hwv_dump_topology(stdout, t, 0); dirty = 0; } else printf("nodump\n");
    } else if (!strcmp(line, "check")) {
      run_check(t, loaded);
    } else if (!strncmp(line, "misc ", 5) || !strncmp(line, "ud ", 3)) {
      int depth = 0; unsigned idx = 0; char name[128] = "m";
      int ismisc = line[0] == 'm';
      hwloc_obj_t o;
      if (!loaded) { printf("%s notloaded\n", ismisc ? "misc" : "ud"); fflush(stdout); continue; }
      if (sscanf(line + (ismisc ? 5 : 3), "%d %u %127s", &depth, &idx, name) < 2) { printf("bad-line\n"); fflush(stdout); continue; }
      o = hwloc_get_obj_by_depth(t, depth, idx);
      if (!o) { printf("%s noobj\n", ismisc ? "misc" : "ud"); }
      else if (ismisc) {
        hwloc_obj_t m; errno = 0;
        m = hwloc_topology_insert_misc_object(t, o, name);
        printf("misc %s errno=%s\n", m ? "ok" : "null", m ? "0" : hwv_errno_class(errno));
        dirty = 1;
      } else {
        o->userdata = &hwv_userdata_target;
        printf("ud ok\n");
        dirty = 1;
      }
    } else if (!strncmp(line, "allow ", 6)) {
      unsigned long fl = 0; char cs[4096], ns[4096]; hwloc_bitmap_t c, nd; int rc;
      if (!loaded) { printf("allow notloaded\n"); fflush(stdout); continue; }
      if (sscanf(line + 6, "%lu %4095s %4095s", &fl, cs, ns) != 3) { printf("bad-line\n"); fflush(stdout); continue; }
      c = hwv_parse_set(cs); nd = hwv_parse_set(ns);
      errno = 0; rc = hwloc_topology_allow(t, c, nd, fl);
      printf("allow rc=%d errno=%s\n", rc, rc < 0 ? hwv_errno_class(errno) : "0");
      hwloc_bitmap_free(c); hwloc_bitmap_free(nd);
      dirty = 1;
    } else if (!strncmp(line, "reload ", 7)) {
      unsigned long fl = strtoul(line + 7, NULL, 0); unsigned k; char *xml = NULL; int len = 0, rc; hwloc_topology_t nt = NULL;
      if (!loaded) { printf("reload notloaded\n"); fflush(stdout); continue; }
      if (hwloc_topology_export_xmlbuffer(t, &xml, &len, 0) < 0) { printf("reload export rc=-1 errno=%s\n", hwv_errno_class(errno)); fflush(stdout); continue; }
      if (hwloc_topology_init(&nt) < 0) { hwloc_free_xmlbuffer(t, xml); printf("reload init rc=-1\n"); fflush(stdout); continue; }
      hwloc_topology_set_flags(nt, fl);
      for (k = 0; k < nsaved; k++) { char *c = strdup(saved_filters[k]); hwv_config_line(nt, c); free(c); }
      errno = 0; rc = hwloc_topology_set_xmlbuffer(nt, xml, len);
      if (rc == 0) { errno = 0; rc = hwloc_topology_load(nt); }
      printf("reload rc=%d errno=%s\n", rc, rc < 0 ? hwv_errno_class(errno) : "0");
      hwloc_free_xmlbuffer(t, xml);
      if (rc < 0) hwloc_topology_destroy(nt);       /* keep the old topology */
      else { hwloc_topology_destroy(t); t = nt; dirty = 1; }
    } else if (!strncmp(line, "group ", 6)) {
      int dm = 0, ty = 0, used = 0, nadded = 0; unsigned idx;
      const char *p = line + 6;
      hwloc_obj_t g, res;
      if (!loaded) { printf("group notloaded\n"); fflush(stdout); continue; }
      if (sscanf(p, "%d %d%n", &dm, &ty, &used) < 2) { printf("bad-line\n"); fflush(stdout); continue; }
      p += used;
      g = hwloc_topology_alloc_group_object(t);
      if (!g) { printf("group alloc-null errno=%s\n", hwv_errno_class(errno)); fflush(stdout); continue; }
      while (sscanf(p, "%u%n", &idx, &used) == 1) {
        hwloc_obj_t o = hwloc_get_obj_by_type(t, (hwloc_obj_type_t)ty, idx);
        if (o && o->cpuset) { hwloc_obj_add_other_obj_sets(g, o); nadded++; }
        p += used;
      }
      g->attr->group.dont_merge = (unsigned char)(dm != 0);
      errno = 0;
      res = hwloc_topology_insert_group_object(t, g);   /* frees g itself when it is not inserted */
      printf("group %s members=%d errno=%s\n", !res ? "null" : res == g ? "ok" : "merged", nadded, res ? "0" : hwv_errno_class(errno));
      dirty = 1;
    } else if (!strncmp(line, "restrict ", 9)) {
      char sets[4096]; unsigned long fl = 0;
      hwloc_bitmap_t set;
      int rc, e;
      if (!loaded) { printf("restrict notloaded\n"); fflush(stdout); continue; }
      if (sscanf(line + 9, "%4095s %lu", sets, &fl) != 2 || !(set = hwv_parse_set(sets))) { printf("bad-line\n"); fflush(stdout); continue; }
      fputs("R set=", stdout); hwv_pset(stdout, set); printf(" flags=%lu\n", fl);
      if (dirty) hwv_dump_topology(stdout, t, 0);
      errno = 0;
      rc = hwloc_topology_restrict(t, set, fl);
      e = errno;
      printf("rc=%d errno=%s\n", rc, rc < 0 ? hwv_errno_class(e) : "0");
      hwloc_bitmap_free(set);
      hwv_dump_topology(stdout, t, 0);
      dirty = 0;
      run_check(t, loaded);
      print_api(t);
    } else if (!strcmp(line, "destroy")) {
      if (t) hwloc_topology_destroy(t);
      t = NULL; loaded = 0;
      printf("destroy\n");
    } else if (t) {
      int r;
      if (!strncmp(line, "filter ", 7) && nsaved < 64) saved_filters[nsaved++] = strdup(line);
      r = hwv_config_line(t, line);
      if (r == 0) printf("unknown-command %s\n", line);
      else if (r == 2) printf("config rc=-1 errno=%s\n", hwv_errno_class(errno));
      else if (r < 0) printf("config bad-line\n");
      else printf("config rc=0\n");
    }
    fflush(stdout);
  }
  if (t) hwloc_topology_destroy(t);
  free(hwv_xmlbuf);
  forget_filters();
  free(line);
  return 0;
}
