/* C10 harness: the binding API of the real library (hwloc/bind.c, the Linux
 * hooks of topology-linux.c, the x86 backend's save/restore).
 *
 * Three ways of looking at what a binding call does:
 *  - "mode hooks <presence-hex>": topology->binding_hooks is replaced by
 *    recording hooks (only the slots whose bit is set, index = Bind.hid_index);
 *    each records its arguments and answers what "hookret" scripted.  This is
 *    bind.c alone over an arbitrary OS = the Section variables of Topo/Bind.v.
 *  - "mode os": the hooks hwloc installed (Linux ones or the dummy ones) are
 *    kept; this executable DEFINES sched_setaffinity, sched_getaffinity,
 *    sched_getcpu and syscall() (topology-linux.o imports exactly these for
 *    binding: mbind, set_mempolicy, get_mempolicy, migrate_pages, move_pages go
 *    through syscall()), so what reaches the kernel is recorded and answered by
 *    the "os ..." script lines instead of being executed.
 *  - built with -DHWV_LIVE: nothing is interposed; "rt"/"loadcheck" commands
 *    exercise the running system for the observed (not proved) part of C10.
 *
 * Script (stdin), several topologies per process:
 *   new / <config lines of hwv_load.h> / load / destroy / echo <text>
 *   mode hooks <hex> | mode os
 *   hookret <idx|all> <rc> <errno-class|keep> <set|-> <policy>
 *   os aff <set> | os ret <call|all> <rc> <errno-class> | os mempol <linuxpolicy> <set> | os pages <status> | os cpu <n> | os maxnodes <n>
 *   scb <set> <fl> | gcb <fl> | spcb <who> <set> <fl> | gpcb <who> <fl> | stcb <set> <fl> | gtcb <fl>
 *   glcl <fl> | gplcl <who> <fl>
 *   smb <set> <pol> <fl> | gmb <fl> | spmb <who> <set> <pol> <fl> | gpmb <who> <fl>
 *   samb <len> <set> <pol> <fl> | gamb <len> <fl> | gaml <len> <fl> | amb <len> <set> <pol> <fl>
 *   (who: 0 | self)
 * Output: "I ..." after load (sets of the topology, NUMA level, is_thissystem),
 *         "R rc=<n> errno=<class> set=<set|-> pol=<n|-> | <recorded calls>" per call.
 */
#define _GNU_SOURCE
#include "private/autogen/config.h"
#include "hwloc.h"
#include "private/private.h"
#include "hwv_dump.h"
#include "hwv_load.h"
#include <sched.h>
#include <pthread.h>
#include <unistd.h>
#include <stdarg.h>
#include <sys/syscall.h>
#include <sys/mman.h>
#include <fcntl.h>
#include <semaphore.h>
#include <sys/wait.h>
#include <signal.h>
#include <sys/prctl.h>
#include "hwloc/shmem.h"

/* ------------------------------------------------------------------ */
/* trace buffer                                                         */
static char *trace; static size_t trace_len, trace_cap;
static void tr_reset(void) { trace_len = 0; if (trace) trace[0] = 0; }
static void tr_add(const char *fmt, ...)
{
  va_list ap; int n;
  if (trace_cap - trace_len < 4096) { trace_cap = trace_cap ? 2 * trace_cap + 4096 : 16384; trace = realloc(trace, trace_cap); }
  va_start(ap, fmt);
  n = vsnprintf(trace + trace_len, trace_cap - trace_len, fmt, ap);
  va_end(ap);
  if (n > 0) trace_len += (size_t)n;
}
static void tr_set(hwloc_const_bitmap_t s)
{
  char *buf = NULL; size_t sz = 0; FILE *f = open_memstream(&buf, &sz);
  hwv_pset(f, s); fclose(f);
  tr_add("%s", buf); free(buf);
}
/* raw kernel mask (nbits bits) rendered as a set */
static void tr_mask(const unsigned long *mask, unsigned long nbits)
{
  hwloc_bitmap_t b; unsigned long i;
  if (!mask) { tr_add("-"); return; }
  b = hwloc_bitmap_alloc();
  for (i = 0; i < nbits && i < 65536; i++)
    if (mask[i / (8 * sizeof(long))] & (1UL << (i % (8 * sizeof(long))))) hwloc_bitmap_set(b, (unsigned)i);
  tr_set(b); hwloc_bitmap_free(b);
}

static int errno_of_class(const char *s)
{
  if (!strcmp(s, "0")) return 0;
  if (!strcmp(s, "EINVAL")) return EINVAL; if (!strcmp(s, "ENOSYS")) return ENOSYS; if (!strcmp(s, "EXDEV")) return EXDEV;
  if (!strcmp(s, "ENOMEM")) return ENOMEM; if (!strcmp(s, "EPERM")) return EPERM; if (!strcmp(s, "EFAULT")) return EFAULT;
  if (!strcmp(s, "ENOENT")) return ENOENT; if (!strcmp(s, "EOTHER")) return ESRCH;
  return -1; /* keep */
}


/* ------------------------------------------------------------------ */
/* a second live thread, parked on a semaphore: its pthread_t / tid is what the thread-handle entry points get */
static pthread_t park_thread; static volatile pid_t park_tid; static sem_t park_go, park_done; static int park_started; static volatile int park_quit;
static void *park_fn(void *arg)
{
  park_tid = (pid_t)syscall(SYS_gettid); sem_post(&park_done);
  for (;;) { sem_wait(&park_go); if (park_quit) break; sem_post(&park_done); }   /* runs a little after every wake-up */
  return NULL;
}
static void park_start(void)
{
  if (park_started) return;
  sem_init(&park_go, 0, 0); sem_init(&park_done, 0, 0);
  pthread_create(&park_thread, NULL, park_fn, NULL); sem_wait(&park_done); park_started = 1;
}
static void park_run_once(void) { sem_post(&park_go); sem_wait(&park_done); }
static void park_stop(void) { if (park_started) { park_quit = 1; sem_post(&park_go); pthread_join(park_thread, NULL); park_started = 0; } }

#ifndef HWV_LIVE
/* ------------------------------------------------------------------ */
/* the operating system, as far as binding goes: interposed             */
static int os_intercept;                 /* 0: forward to the kernel (topology discovery) */
static unsigned long real_aff0[64];      /* the real affinity of the process at start */
static hwloc_bitmap_t os_aff;            /* what sched_getaffinity reports for the calling thread (pid 0) */
static hwloc_bitmap_t os_affproc;        /* ... and for an explicit tid (per-thread queries of a process-wide get); NULL = same */
enum { OC_SETAFF, OC_GETAFF, OC_SET_MEMPOLICY, OC_MBIND, OC_GET_MEMPOLICY, OC_MIGRATE, OC_MOVE, OC_GETCPU, OC_N };
static const char *oc_names[OC_N] = { "setaffinity", "getaffinity", "set_mempolicy", "mbind", "get_mempolicy", "migrate_pages", "move_pages", "getcpu" };
static long os_rc[OC_N]; static int os_errno[OC_N];
static int os_mempol_mode; static hwloc_bitmap_t os_mempol_mask;
static int os_page_status; static int os_cpu; static unsigned long os_maxnodes = 64;
static unsigned long os_nrcpus = 256;   /* sched_getaffinity needs a buffer of at least that many bits */
static char os_stat[1100]; static int os_stat_len = -1;   /* scripted content of /proc/<tid>/stat, -1: the real file */
static int os_pm_unsupported;            /* MPOL_PREFERRED_MANY answered EINVAL (old kernel) */

static long raw_syscall6(long nr, long a, long b, long c, long d, long e, long f)
{
#if defined(__x86_64__)
  long ret;
  register long r10 __asm__("r10") = d; register long r8 __asm__("r8") = e; register long r9 __asm__("r9") = f;
  __asm__ volatile ("syscall" : "=a"(ret) : "a"(nr), "D"(a), "S"(b), "d"(c), "r"(r10), "r"(r8), "r"(r9) : "rcx", "r11", "memory");
  if (ret < 0 && ret > -4096) { errno = (int)-ret; return -1; }
  return ret;
#else
#error "hwv_bind.c: raw syscall only written for x86_64"
#endif
}
static const char *who_name(pid_t pid) { return pid == 0 ? "0" : pid == getpid() ? "self" : "other"; }
static long os_answer(int c) { if (os_rc[c] < 0) errno = os_errno[c]; return os_rc[c]; }

int sched_setaffinity(pid_t pid, size_t sz, const cpu_set_t *mask)
{
  if (!os_intercept) return (int)raw_syscall6(SYS_sched_setaffinity, pid, (long)sz, (long)mask, 0, 0, 0);
  tr_add(" setaffinity(%s,", who_name(pid)); tr_mask((const unsigned long *)mask, 8 * sz); tr_add(")");
  return (int)os_answer(OC_SETAFF);
}
int sched_getaffinity(pid_t pid, size_t sz, cpu_set_t *mask)
{
  unsigned i;
  if (!os_intercept) { long r = raw_syscall6(SYS_sched_getaffinity, pid, (long)sz, (long)mask, 0, 0, 0); return r < 0 ? -1 : 0; }
  tr_add(" getaffinity(%s)", who_name(pid));
  if (8 * sz < os_nrcpus) { errno = EINVAL; return -1; }   /* like a kernel with that many possible CPUs */
  if (os_rc[OC_GETAFF] < 0) return (int)os_answer(OC_GETAFF);
  memset(mask, 0, sz);
  for (i = 0; i < 8 * sz; i++) if (hwloc_bitmap_isset(pid && os_affproc ? os_affproc : os_aff, i)) ((unsigned long *)mask)[i / 64] |= 1UL << (i % 64);
  return 0;
}
/* hwloc_linux_{set,get}_thread_cpubind use these for a pthread_t that is not the caller; they return an errno value */
int pthread_setaffinity_np(pthread_t th, size_t sz, const cpu_set_t *mask)
{
  if (!os_intercept) return (int)raw_syscall6(SYS_sched_setaffinity, park_tid, (long)sz, (long)mask, 0, 0, 0) < 0 ? errno : 0;
  tr_add(" setaffinity(other,"); tr_mask((const unsigned long *)mask, 8 * sz); tr_add(")");
  return os_rc[OC_SETAFF] < 0 ? os_errno[OC_SETAFF] : 0;
}
int pthread_getaffinity_np(pthread_t th, size_t sz, cpu_set_t *mask)
{
  unsigned i;
  if (!os_intercept) return raw_syscall6(SYS_sched_getaffinity, park_tid, (long)sz, (long)mask, 0, 0, 0) < 0 ? errno : 0;
  tr_add(" getaffinity(other)");
  if (os_rc[OC_GETAFF] < 0) return os_errno[OC_GETAFF];
  memset(mask, 0, sz);
  for (i = 0; i < 8 * sz; i++) if (hwloc_bitmap_isset(os_affproc ? os_affproc : os_aff, i)) ((unsigned long *)mask)[i / 64] |= 1UL << (i % 64);
  return 0;
}
/* hwloc_linux_get_tid_last_cpu_location reads /proc/<tid>/stat through openat(): recorded, and answered from the
 * script when "os stat <hex>" gave a content (a pipe holding it) */
int openat(int dirfd, const char *path, int flags, ...)
{
  mode_t mode = 0; unsigned long tid = 0; char tail = 0;
  if (flags & (O_CREAT | 020000000 /* O_TMPFILE bit */)) { va_list ap; va_start(ap, flags); mode = va_arg(ap, mode_t); va_end(ap); }
  if (os_intercept && path && sscanf(path, "/proc/%lu/stat%c", &tid, &tail) == 1) {
    tr_add(" stat(%s)", (pid_t)tid == getpid() ? "self" : "other");
    if (os_stat_len >= 0) {
      int p[2];
      if (raw_syscall6(SYS_pipe2, (long)p, 0, 0, 0, 0, 0) < 0) return -1;
      if (os_stat_len > 0 && raw_syscall6(SYS_write, p[1], (long)os_stat, os_stat_len, 0, 0, 0) < 0) {}
      raw_syscall6(SYS_close, p[1], 0, 0, 0, 0, 0);
      return p[0];
    }
  }
  return (int)raw_syscall6(SYS_openat, dirfd, (long)path, flags, mode, 0, 0);
}
int sched_getcpu(void)
{
  unsigned cpu = 0;
  if (!os_intercept) { if (raw_syscall6(SYS_getcpu, (long)&cpu, 0, 0, 0, 0, 0) < 0) return -1; return (int)cpu; }
  tr_add(" getcpu()");
  if (os_rc[OC_GETCPU] < 0) return (int)os_answer(OC_GETCPU);
  return os_cpu;
}
long syscall(long nr, ...)
{
  va_list ap; long a, b, c, d, e, f;
  va_start(ap, nr);
  a = va_arg(ap, long); b = va_arg(ap, long); c = va_arg(ap, long); d = va_arg(ap, long); e = va_arg(ap, long); f = va_arg(ap, long);
  va_end(ap);
  if (os_intercept) switch (nr) {
  case SYS_set_mempolicy: /* mode, nodemask, maxnode */
    tr_add(" set_mempolicy(%d,", (int)a); tr_mask((const unsigned long *)b, b ? (unsigned long)c - 1 : 0); tr_add(",%lu)", (unsigned long)c);
    if (os_pm_unsupported && (int)a == 5) { errno = EINVAL; return -1; }
    return os_answer(OC_SET_MEMPOLICY);
  case SYS_mbind: /* addr, len, mode, nodemask, maxnode, flags */
    tr_add(" mbind(%s,%lu,%d,", (a & 4095) ? "unaligned" : "page", (unsigned long)b, (int)c); tr_mask((const unsigned long *)d, d ? (unsigned long)e - 1 : 0);
    tr_add(",%lu,%u)", (unsigned long)e, (unsigned)f);
    if (os_pm_unsupported && (int)c == 5) { errno = EINVAL; return -1; }
    return os_answer(OC_MBIND);
  case SYS_migrate_pages: /* pid, maxnode, old, new */
    tr_add(" migrate_pages(%lu,", (unsigned long)b); tr_mask((const unsigned long *)c, (unsigned long)b - 1); tr_add(","); tr_mask((const unsigned long *)d, (unsigned long)b - 1); tr_add(")");
    return os_answer(OC_MIGRATE);
  case SYS_get_mempolicy: { /* &mode, nodemask, maxnode, addr, flags */
    unsigned long i, *m = (unsigned long *)b;
    tr_add(" get_mempolicy(%s,%lu,%lu)", d ? "addr" : "0", (unsigned long)c, (unsigned long)e);
    if ((unsigned long)c < os_maxnodes) { errno = EINVAL; return -1; }
    if (os_rc[OC_GET_MEMPOLICY] < 0) return os_answer(OC_GET_MEMPOLICY);
    if (a) *(int *)a = os_mempol_mode;
    if (m) for (i = 0; i < (unsigned long)c / 64; i++) m[i] = hwloc_bitmap_to_ith_ulong(os_mempol_mask, (unsigned)i);
    return 0; }
  case SYS_move_pages: { /* pid, count, pages, nodes, status, flags */
    unsigned long i;
    tr_add(" move_pages(%lu,%s)", (unsigned long)b, d ? "nodes" : "-");
    if (os_rc[OC_MOVE] < 0) return os_answer(OC_MOVE);
    for (i = 0; i < (unsigned long)b; i++) ((int *)e)[i] = os_page_status;
    return 0; }
  default: break;
  }
  return raw_syscall6(nr, a, b, c, d, e, f);
}
#endif /* !HWV_LIVE */

/* ------------------------------------------------------------------ */
/* recording hooks ("mode hooks")                                       */
#define NHOOK 22
static long hk_rc[NHOOK]; static int hk_errno[NHOOK]; static hwloc_bitmap_t hk_set[NHOOK]; static int hk_pol[NHOOK];
static const char *who_pid(hwloc_pid_t pid) { return pid == 0 ? "0" : pid == getpid() ? "self" : "other"; }
static void hk_record(int idx, const char *who, hwloc_const_bitmap_t set, int pol, int flags, size_t len)
{
  tr_add(" h%d(%s,", idx, who);
  if (set) tr_set(set); else tr_add("-");
  tr_add(",%d,%u,%lu)", pol, (unsigned)flags, (unsigned long)len);
}
static int hk_answer(int idx, hwloc_bitmap_t out, hwloc_membind_policy_t *pol)
{
  if (out) hwloc_bitmap_copy(out, hk_set[idx]);
  if (pol) *pol = (hwloc_membind_policy_t)hk_pol[idx];
  if (hk_errno[idx] >= 0) errno = hk_errno[idx];
  return (int)hk_rc[idx];
}
#define SETCPU(name, idx) static int name(hwloc_topology_t t, hwloc_const_cpuset_t s, int f) { hk_record(idx, "0", s, 0, f, 0); return hk_answer(idx, NULL, NULL); }
#define GETCPU(name, idx) static int name(hwloc_topology_t t, hwloc_cpuset_t s, int f) { hk_record(idx, "0", NULL, 0, f, 0); return hk_answer(idx, s, NULL); }
SETCPU(rh_set_thisproc_cpubind, 0) GETCPU(rh_get_thisproc_cpubind, 1)
SETCPU(rh_set_thisthread_cpubind, 2) GETCPU(rh_get_thisthread_cpubind, 3)
static int rh_set_proc_cpubind(hwloc_topology_t t, hwloc_pid_t p, hwloc_const_cpuset_t s, int f) { hk_record(4, who_pid(p), s, 0, f, 0); return hk_answer(4, NULL, NULL); }
static int rh_get_proc_cpubind(hwloc_topology_t t, hwloc_pid_t p, hwloc_cpuset_t s, int f) { hk_record(5, who_pid(p), NULL, 0, f, 0); return hk_answer(5, s, NULL); }
static int rh_set_thread_cpubind(hwloc_topology_t t, hwloc_thread_t p, hwloc_const_cpuset_t s, int f) { hk_record(6, p == pthread_self() ? "self" : "other", s, 0, f, 0); return hk_answer(6, NULL, NULL); }
static int rh_get_thread_cpubind(hwloc_topology_t t, hwloc_thread_t p, hwloc_cpuset_t s, int f) { hk_record(7, p == pthread_self() ? "self" : "other", NULL, 0, f, 0); return hk_answer(7, s, NULL); }
GETCPU(rh_get_thisproc_last, 8) GETCPU(rh_get_thisthread_last, 9)
static int rh_get_proc_last(hwloc_topology_t t, hwloc_pid_t p, hwloc_cpuset_t s, int f) { hk_record(10, who_pid(p), NULL, 0, f, 0); return hk_answer(10, s, NULL); }
#define SETMEM(name, idx) static int name(hwloc_topology_t t, hwloc_const_nodeset_t s, hwloc_membind_policy_t pol, int f) { hk_record(idx, "0", s, (int)pol, f, 0); return hk_answer(idx, NULL, NULL); }
#define GETMEM(name, idx) static int name(hwloc_topology_t t, hwloc_nodeset_t s, hwloc_membind_policy_t *pol, int f) { hk_record(idx, "0", NULL, 0, f, 0); return hk_answer(idx, s, pol); }
SETMEM(rh_set_thisproc_membind, 11) GETMEM(rh_get_thisproc_membind, 12)
SETMEM(rh_set_thisthread_membind, 13) GETMEM(rh_get_thisthread_membind, 14)
static int rh_set_proc_membind(hwloc_topology_t t, hwloc_pid_t p, hwloc_const_nodeset_t s, hwloc_membind_policy_t pol, int f) { hk_record(15, who_pid(p), s, (int)pol, f, 0); return hk_answer(15, NULL, NULL); }
static int rh_get_proc_membind(hwloc_topology_t t, hwloc_pid_t p, hwloc_nodeset_t s, hwloc_membind_policy_t *pol, int f) { hk_record(16, who_pid(p), NULL, 0, f, 0); return hk_answer(16, s, pol); }
static int rh_set_area_membind(hwloc_topology_t t, const void *a, size_t len, hwloc_const_nodeset_t s, hwloc_membind_policy_t pol, int f) { hk_record(17, "0", s, (int)pol, f, len); return hk_answer(17, NULL, NULL); }
static int rh_get_area_membind(hwloc_topology_t t, const void *a, size_t len, hwloc_nodeset_t s, hwloc_membind_policy_t *pol, int f) { hk_record(18, "0", NULL, 0, f, len); return hk_answer(18, s, pol); }
static int rh_get_area_memlocation(hwloc_topology_t t, const void *a, size_t len, hwloc_nodeset_t s, int f) { hk_record(19, "0", NULL, 0, f, len); return hk_answer(19, s, NULL); }
static void *rh_alloc(hwloc_topology_t t, size_t len) { hk_record(20, "0", NULL, 0, 0, len); return hk_answer(20, NULL, NULL) ? malloc(len ? len : 1) : NULL; }
static void *rh_alloc_membind(hwloc_topology_t t, size_t len, hwloc_const_nodeset_t s, hwloc_membind_policy_t pol, int f) { hk_record(21, "0", s, (int)pol, f, len); return hk_answer(21, NULL, NULL) ? malloc(len ? len : 1) : NULL; }
static int rh_free(hwloc_topology_t t, void *a, size_t len) { free(a); return 0; }

static int hooks_mode;
static pid_t hwv_child; static int hwv_child_fd = -1, hwv_child_rfd = -1;
static struct hwloc_binding_hooks saved_hooks; static struct hwloc_topology *saved_hooks_of;
static void restore_installed_hooks(struct hwloc_topology *t)
{
  if (saved_hooks_of == t) memcpy(&t->binding_hooks, &saved_hooks, sizeof(saved_hooks));
}
static void install_recording_hooks(struct hwloc_topology *t, unsigned long pres)
{
  struct hwloc_binding_hooks *h = &t->binding_hooks;
  if (saved_hooks_of != t) { memcpy(&saved_hooks, h, sizeof(saved_hooks)); saved_hooks_of = t; }   /* what hwloc installed */
  memset(h, 0, sizeof(*h));
#define P(i, slot, fn) if (pres & (1UL << (i))) h->slot = fn
  P(0, set_thisproc_cpubind, rh_set_thisproc_cpubind); P(1, get_thisproc_cpubind, rh_get_thisproc_cpubind);
  P(2, set_thisthread_cpubind, rh_set_thisthread_cpubind); P(3, get_thisthread_cpubind, rh_get_thisthread_cpubind);
  P(4, set_proc_cpubind, rh_set_proc_cpubind); P(5, get_proc_cpubind, rh_get_proc_cpubind);
  P(6, set_thread_cpubind, rh_set_thread_cpubind); P(7, get_thread_cpubind, rh_get_thread_cpubind);
  P(8, get_thisproc_last_cpu_location, rh_get_thisproc_last); P(9, get_thisthread_last_cpu_location, rh_get_thisthread_last);
  P(10, get_proc_last_cpu_location, rh_get_proc_last);
  P(11, set_thisproc_membind, rh_set_thisproc_membind); P(12, get_thisproc_membind, rh_get_thisproc_membind);
  P(13, set_thisthread_membind, rh_set_thisthread_membind); P(14, get_thisthread_membind, rh_get_thisthread_membind);
  P(15, set_proc_membind, rh_set_proc_membind); P(16, get_proc_membind, rh_get_proc_membind);
  P(17, set_area_membind, rh_set_area_membind); P(18, get_area_membind, rh_get_area_membind);
  P(19, get_area_memlocation, rh_get_area_memlocation);
  P(20, alloc, rh_alloc); P(21, alloc_membind, rh_alloc_membind);
#undef P
  h->free_membind = rh_free;   /* everything the recording allocators hand out is malloc'ed */
}

/* ------------------------------------------------------------------ */
static hwloc_bitmap_t sentinel;   /* what the caller's output set holds before the call */
#define POL_SENTINEL 99

static void print_info(hwloc_topology_t t)
{
  hwloc_obj_t o = NULL;
  fputs("I cs=", stdout); hwv_pset(stdout, hwloc_topology_get_topology_cpuset(t));
  fputs(" ccs=", stdout); hwv_pset(stdout, hwloc_topology_get_complete_cpuset(t));
  fputs(" ns=", stdout); hwv_pset(stdout, hwloc_topology_get_topology_nodeset(t));
  fputs(" cns=", stdout); hwv_pset(stdout, hwloc_topology_get_complete_nodeset(t));
  {
    struct hwloc_binding_hooks *h = &((struct hwloc_topology *)t)->binding_hooks; unsigned long m = 0;
#define Q(i, slot) if (h->slot) m |= 1UL << (i)
    Q(0, set_thisproc_cpubind); Q(1, get_thisproc_cpubind); Q(2, set_thisthread_cpubind); Q(3, get_thisthread_cpubind);
    Q(4, set_proc_cpubind); Q(5, get_proc_cpubind); Q(6, set_thread_cpubind); Q(7, get_thread_cpubind);
    Q(8, get_thisproc_last_cpu_location); Q(9, get_thisthread_last_cpu_location); Q(10, get_proc_last_cpu_location);
    Q(11, set_thisproc_membind); Q(12, get_thisproc_membind); Q(13, set_thisthread_membind); Q(14, get_thisthread_membind);
    Q(15, set_proc_membind); Q(16, get_proc_membind); Q(17, set_area_membind); Q(18, get_area_membind); Q(19, get_area_memlocation);
    Q(20, alloc); Q(21, alloc_membind);
#undef Q
    printf(" this=%d hooks=%lx nodes=", hwloc_topology_is_thissystem(t), m);
  }
  while ((o = hwloc_get_next_obj_by_type(t, HWLOC_OBJ_NUMANODE, o)) != NULL) { printf("%u/", o->os_index); hwv_pset(stdout, o->cpuset); fputc(';', stdout); }
  fputc('\n', stdout);
}

static void report_int(int rc, int e, hwloc_const_bitmap_t out, int pol)
{
  printf("R rc=%d errno=%s set=", rc, rc < 0 ? hwv_errno_class(e) : "0");
  if (rc == 0 && out && !hwloc_bitmap_isequal(out, sentinel)) hwv_pset(stdout, out); else fputc('-', stdout);
  if (rc == 0 && pol != POL_SENTINEL) printf(" pol=%d", pol); else fputs(" pol=-", stdout);
  printf(" |%s\n", trace_len ? trace : "");
}

static hwloc_pid_t parse_who(const char *s) { return !strcmp(s, "self") ? getpid() : (hwloc_pid_t)atoi(s); }

#ifdef HWV_LIVE
static void raw_affinity(hwloc_bitmap_t out)
{
  cpu_set_t *m = CPU_ALLOC(4096); size_t sz = CPU_ALLOC_SIZE(4096); unsigned i;
  hwloc_bitmap_zero(out);
  if (sched_getaffinity(0, sz, m) == 0) for (i = 0; i < 4096; i++) if (CPU_ISSET_S(i, sz, m)) hwloc_bitmap_set(out, i);
  CPU_FREE(m);
}
#endif


#ifdef HWV_LIVE
/* affinity of one thread, straight from the kernel */
static void raw_affinity_tid(pid_t tid, hwloc_bitmap_t out)
{
  cpu_set_t *m = CPU_ALLOC(4096); size_t sz = CPU_ALLOC_SIZE(4096); unsigned i;
  hwloc_bitmap_zero(out);
  if (sched_getaffinity(tid, sz, m) == 0) for (i = 0; i < 4096; i++) if (CPU_ISSET_S(i, sz, m)) hwloc_bitmap_set(out, i);
  CPU_FREE(m);
}
struct tl_job { unsigned cpu; unsigned long flags; pid_t main_tid; int bind_rc, flags_rc, load_rc, npu; char backends[128];
                hwloc_bitmap_t before, after, main_before, main_after; };
/* the worker binds ITSELF to one PU (the main thread keeps its wide binding), loads a fresh topology, re-reads */
static void *tl_worker(void *arg)
{
  struct tl_job *j = arg; hwloc_topology_t t2; cpu_set_t *m = CPU_ALLOC(4096); size_t sz = CPU_ALLOC_SIZE(4096);
  CPU_ZERO_S(sz, m); CPU_SET_S(j->cpu, sz, m);
  j->bind_rc = sched_setaffinity(0, sz, m); CPU_FREE(m);
  raw_affinity_tid(0, j->before); raw_affinity_tid(j->main_tid, j->main_before);
  hwloc_topology_init(&t2);
  j->flags_rc = hwloc_topology_set_flags(t2, j->flags);
  j->load_rc = hwloc_topology_load(t2);
  raw_affinity_tid(0, j->after); raw_affinity_tid(j->main_tid, j->main_after);
  j->backends[0] = 0; j->npu = -1;
  if (j->load_rc == 0) {
    struct hwloc_infos_s *inf = hwloc_topology_get_infos(t2); unsigned k;
    for (k = 0; k < inf->count; k++) if (!strcmp(inf->array[k].name, "Backend") && strlen(j->backends) + strlen(inf->array[k].value) + 2 < sizeof(j->backends)) { strcat(j->backends, inf->array[k].value); strcat(j->backends, ","); }
    j->npu = hwloc_get_nbobjs_by_type(t2, HWLOC_OBJ_PU);
  }
  hwloc_topology_destroy(t2);
  return NULL;
}
#endif

int main(void)
{
  char *line = NULL; size_t cap = 0;
  hwloc_topology_t t = NULL;
  int loaded = 0, i;
  char *area = NULL; size_t area_len = 64 * 4096;
  sentinel = hwloc_bitmap_alloc(); hwloc_bitmap_set(sentinel, 77); hwloc_bitmap_set(sentinel, 3);
  for (i = 0; i < NHOOK; i++) { hk_set[i] = hwloc_bitmap_alloc(); hwloc_bitmap_set(hk_set[i], 0); hk_errno[i] = -1; hk_pol[i] = 2; }
  hk_rc[20] = hk_rc[21] = 1;
#ifndef HWV_LIVE
  os_aff = hwloc_bitmap_alloc(); hwloc_bitmap_set_range(os_aff, 0, 15);
  memset(real_aff0, 0, sizeof(real_aff0)); raw_syscall6(SYS_sched_getaffinity, 0, sizeof(real_aff0), (long)real_aff0, 0, 0, 0);
  os_mempol_mask = hwloc_bitmap_alloc();
#endif
  if (posix_memalign((void **)&area, 4096, area_len)) return 2;
  setvbuf(stdout, NULL, _IOFBF, 1 << 16);
  while (getline(&line, &cap, stdin) > 0) {
    char cmd[32] = "", a1[4200] = "", a2[4200] = "", a3[64] = "", a4[64] = "";
    int na, r;
    size_t n = strlen(line);
    while (n && (line[n-1] == '\n' || line[n-1] == '\r')) line[--n] = 0;
    if (!n || line[0] == '#') continue;
    if (t && !loaded) {
      r = hwv_config_line(t, line);
      if (r == 1) continue;
      if (r == 2 || r < 0) { printf("config-error %s\n", line); continue; }
    } else if (!strncmp(line, "env ", 4)) { hwv_config_line(NULL, line); continue; }
    na = sscanf(line, "%31s %4199s %4199s %63s %63s", cmd, a1, a2, a3, a4);
    if (!strcmp(cmd, "echo")) { printf("%s\n", line); continue; }
    if (!strcmp(cmd, "prefill")) { /* what the caller's OUTPUT bitmaps hold before every get-call: <set> | default */
      hwloc_bitmap_t b = strcmp(a1, "default") ? hwv_parse_set(a1) : NULL;
      hwloc_bitmap_zero(sentinel);
      if (b) { hwloc_bitmap_copy(sentinel, b); hwloc_bitmap_free(b); } else { hwloc_bitmap_set(sentinel, 77); hwloc_bitmap_set(sentinel, 3); }
      continue;
    }
    if (!strcmp(cmd, "new")) {
      if (t) hwloc_topology_destroy(t);
      hwloc_topology_init(&t); loaded = 0; hooks_mode = 0; saved_hooks_of = NULL;
#ifndef HWV_LIVE
      os_intercept = 0;
#endif
      continue;
    }
    if (!strcmp(cmd, "load")) {
      if (!t) { printf("load-without-new\n"); continue; }
      r = hwloc_topology_load(t);
      /* a failed load leaves the handle configurable again ("new" starts a fresh one): the following
       * configuration lines and the next "load" REUSE it */
      if (r < 0) { printf("load rc=-1 errno=%s\n", hwv_errno_class(errno)); continue; }
      loaded = 1; print_info(t); continue;
    }
    if (!strcmp(cmd, "destroy")) { if (t) hwloc_topology_destroy(t); t = NULL; loaded = 0;
#ifndef HWV_LIVE
      os_intercept = 0;
#endif
      continue; }
    /* ---- derived topologies: the binding transcript then runs on the derivation ---- */
    if (!strcmp(cmd, "restrict") && t && loaded) { /* restrict <set> <flags>: without REMOVE_CPULESS NUMA nodes that lose their CPUs stay */
      hwloc_bitmap_t b = hwv_parse_set(a1); int rc = b ? hwloc_topology_restrict(t, b, strtoul(a2, NULL, 0)) : -1;
      if (b) hwloc_bitmap_free(b);
      if (rc) { printf("load rc=-1 errno=%s\n", hwv_errno_class(errno)); continue; }
      print_info(t); continue;
    }
    if ((!strcmp(cmd, "dup") || !strcmp(cmd, "adopt") || !strcmp(cmd, "xmlreload")) && t && loaded) {
      hwloc_topology_t n = NULL; int rc = -1;
      if (!strcmp(cmd, "dup")) rc = hwloc_topology_dup(&n, t);
      else if (!strcmp(cmd, "adopt")) {
        size_t len = 0; char path[] = "/tmp/hwv-c10-shm-XXXXXX"; int fd;
        rc = hwloc_shmem_topology_get_length(t, &len, 0);
        fd = rc ? -1 : mkstemp(path);
        if (fd >= 0) {
          void *addr; unlink(path);
          if (ftruncate(fd, (off_t)len) < 0) rc = -1;
          addr = mmap(NULL, len, PROT_NONE, MAP_PRIVATE | MAP_ANONYMOUS, -1, 0);
          if (addr == MAP_FAILED) rc = -1; else munmap(addr, len);
          if (!rc) rc = hwloc_shmem_topology_write(t, fd, 0, addr, len, 0);
          if (!rc) rc = hwloc_shmem_topology_adopt(&n, fd, 0, addr, len, 0);
          close(fd);
        } else rc = -1;
      } else { /* xmlreload <flags>: export to a buffer, load the buffer into a fresh handle */
        char *buf = NULL; int blen = 0;
        rc = hwloc_topology_export_xmlbuffer(t, &buf, &blen, 0);
        if (!rc) {
          hwloc_topology_init(&n);
          rc = hwloc_topology_set_xmlbuffer(n, buf, blen);
          if (!rc) rc = hwloc_topology_set_flags(n, strtoul(a1, NULL, 0));
          if (!rc) rc = hwloc_topology_load(n);
          if (rc) { hwloc_topology_destroy(n); n = NULL; }
          hwloc_free_xmlbuffer(t, buf);
        }
      }
      if (rc || !n) { printf("load rc=-1 errno=%s\n", hwv_errno_class(errno)); continue; }
      hwloc_topology_destroy(t); t = n; hooks_mode = 0; saved_hooks_of = NULL;
      print_info(t); continue;
    }
#ifdef HWV_LIVE
    if (!strcmp(cmd, "affinity")) { /* raw view of the caller's affinity */
      hwloc_bitmap_t b = hwloc_bitmap_alloc(); raw_affinity(b);
      fputs("A raw=", stdout); hwv_pset(stdout, b); fputc('\n', stdout); hwloc_bitmap_free(b); continue;
    }
    if (!strcmp(cmd, "rawbind")) { /* bind through libc directly (to set up / restore) */
      hwloc_bitmap_t b = hwv_parse_set(a1); cpu_set_t *m = CPU_ALLOC(4096); size_t sz = CPU_ALLOC_SIZE(4096); unsigned k;
      CPU_ZERO_S(sz, m);
      hwloc_bitmap_foreach_begin(k, b) if (k < 4096) CPU_SET_S(k, sz, m); hwloc_bitmap_foreach_end();
      r = sched_setaffinity(0, sz, m);
      printf("rawbind rc=%d\n", r); CPU_FREE(m); hwloc_bitmap_free(b); continue;
    }
    if (!strcmp(cmd, "loadcheck")) { /* affinity before / after init+load+destroy of a fresh topology configured by the rest of the line */
      hwloc_bitmap_t b0 = hwloc_bitmap_alloc(), b1 = hwloc_bitmap_alloc(); hwloc_topology_t t2; unsigned long fl = strtoul(a1, NULL, 0); int lr;
      raw_affinity(b0);
      hwloc_topology_init(&t2); hwloc_topology_set_flags(t2, fl);
      lr = hwloc_topology_load(t2);
      raw_affinity(b1);
      printf("L flags=%lu rc=%d backends=", fl, lr);
      if (lr == 0) { struct hwloc_infos_s *inf = hwloc_topology_get_infos(t2); unsigned k; for (k = 0; k < inf->count; k++) if (!strcmp(inf->array[k].name, "Backend")) printf("%s,", inf->array[k].value); }
      fputs(" before=", stdout); hwv_pset(stdout, b0); fputs(" after=", stdout); hwv_pset(stdout, b1);
      printf(" npu=%d\n", lr == 0 ? hwloc_get_nbobjs_by_type(t2, HWLOC_OBJ_PU) : -1);
      hwloc_topology_destroy(t2); hwloc_bitmap_free(b0); hwloc_bitmap_free(b1); continue;
    }
    if (!strcmp(cmd, "ot") || !strcmp(cmd, "tp") || !strcmp(cmd, "cp")) { /* round trip on ANOTHER thread (pthread_t / tid) or on a CHILD process */
      static pid_t child; static int p2c[2], c2p[2];
      hwloc_bitmap_t b = hwv_parse_set(a1), g = hwloc_bitmap_alloc_full(), raw = hwloc_bitmap_alloc(), last = hwloc_bitmap_alloc_full();   /* outputs pre-filled */
      int fl = (int)strtoul(a2, NULL, 0), rs = -2, rg = -2, rl = -2, es = 0; pid_t target; char c = 'r';
      if (!t || !loaded || !b) { printf("ot-error\n"); continue; }
      if (!strcmp(cmd, "cp")) {
        if (!child) { /* a parked child: answers one byte per wake-up, so it has run after each rebinding */
          if (pipe(p2c) || pipe(c2p)) { printf("ot-error pipe\n"); continue; }
          fflush(stdout);
          child = fork();
          if (!child) { char x; close(p2c[1]); close(c2p[0]);
            while (read(p2c[0], &x, 1) == 1 && x != 'q') {
              if (x == 'n') { char nm[16]; if (read(p2c[0], nm, 16) == 16) { nm[15] = 0; prctl(PR_SET_NAME, nm); } }   /* rename myself */
              if (write(c2p[1], &x, 1) != 1) break;
            }
            _exit(0); }
          close(p2c[0]); close(c2p[1]); hwv_child = child; hwv_child_fd = p2c[1]; hwv_child_rfd = c2p[0];
        }
        target = child; errno = 0;
        rs = hwloc_set_proc_cpubind(t, child, b, fl); es = errno;
        if (write(p2c[1], &c, 1) == 1 && read(c2p[0], &c, 1) == 1) {}
        rg = hwloc_get_proc_cpubind(t, child, g, fl);
        rl = hwloc_get_proc_last_cpu_location(t, child, last, fl);
      } else {
        park_start(); target = park_tid; errno = 0;
        if (!strcmp(cmd, "ot")) { rs = hwloc_set_thread_cpubind(t, park_thread, b, fl); es = errno; park_run_once(); rg = hwloc_get_thread_cpubind(t, park_thread, g, fl); }
        else { rs = hwloc_set_proc_cpubind(t, park_tid, b, fl | HWLOC_CPUBIND_THREAD); es = errno; park_run_once(); rg = hwloc_get_proc_cpubind(t, park_tid, g, fl | HWLOC_CPUBIND_THREAD); }
        rl = hwloc_get_proc_last_cpu_location(t, park_tid, last, HWLOC_CPUBIND_THREAD);
      }
      raw_affinity_tid(target, raw);
      printf("O kind=%s flags=%d set=", cmd, fl); hwv_pset(stdout, b);
      printf(" set_rc=%d set_errno=%s get_rc=%d get=", rs, rs < 0 ? hwv_errno_class(es) : "0", rg); hwv_pset(stdout, g);
      fputs(" raw=", stdout); hwv_pset(stdout, raw); printf(" last_rc=%d last=", rl); hwv_pset(stdout, last); fputc('\n', stdout);
      hwloc_bitmap_free(b); hwloc_bitmap_free(g); hwloc_bitmap_free(raw); hwloc_bitmap_free(last); continue;
    }
    if (!strcmp(cmd, "taskname")) { /* <main|worker|child> <hex of the name, at most 15 bytes>: prctl(PR_SET_NAME) in that task */
      char nm[16]; size_t k, n2 = strlen(a2) / 2; unsigned v; memset(nm, 0, sizeof(nm));
      if (!strcmp(a2, "-")) n2 = 0;
      for (k = 0; k < n2 && k < 15; k++) { sscanf(a2 + 2 * k, "%2x", &v); nm[k] = (char)v; }
      if (!strcmp(a1, "main")) prctl(PR_SET_NAME, nm);
      else if (!strcmp(a1, "worker")) { park_start(); pthread_setname_np(park_thread, nm); }
      else if (hwv_child > 0) { char c = 'n'; if (write(hwv_child_fd, &c, 1) == 1 && write(hwv_child_fd, nm, 16) == 16 && read(hwv_child_rfd, &c, 1) == 1) {} }
      continue;
    }
    if (!strcmp(cmd, "lcl")) { /* <main|mainproc|worker|child> <flags>: last cpu location of that task */
      hwloc_bitmap_t last = hwloc_bitmap_alloc_full(); int fl = (int)strtoul(a2, NULL, 0), rl = -2, e;   /* output pre-filled */
      if (!t || !loaded) { printf("lcl-error\n"); continue; }
      errno = 0;
      if (!strcmp(a1, "main")) rl = hwloc_get_last_cpu_location(t, last, fl);
      else if (!strcmp(a1, "mainproc")) rl = hwloc_get_proc_last_cpu_location(t, getpid(), last, fl);
      else if (!strcmp(a1, "worker")) { park_start(); rl = hwloc_get_proc_last_cpu_location(t, park_tid, last, fl | HWLOC_CPUBIND_THREAD); }
      else if (hwv_child > 0) rl = hwloc_get_proc_last_cpu_location(t, hwv_child, last, fl);
      e = errno;
      printf("C target=%s flags=%d rc=%d errno=%s last=", a1, fl, rl, rl < 0 ? hwv_errno_class(e) : "0"); hwv_pset(stdout, last); fputc('\n', stdout);
      hwloc_bitmap_free(last); continue;
    }
    if (!strcmp(cmd, "foreigndup")) { /* <cpu>: bind through a synthetic (foreign) topology, its duplicate and a duplicate of that */
      hwloc_topology_t f, d1 = NULL, d2 = NULL, which[3]; const char *names[3] = { "orig", "dup", "dupdup" }; int k;
      hwloc_topology_init(&f); hwloc_topology_set_synthetic(f, a2[0] ? a2 : "pu:64"); hwloc_topology_load(f);
      hwloc_topology_dup(&d1, f); hwloc_topology_dup(&d2, d1);
      which[0] = f; which[1] = d1; which[2] = d2;
      for (k = 0; k < 3; k++) {
        hwloc_bitmap_t b = hwloc_bitmap_alloc(), g = hwloc_bitmap_alloc(), r0 = hwloc_bitmap_alloc(), r1 = hwloc_bitmap_alloc(); int rs, rg;
        hwloc_bitmap_only(b, (unsigned)atoi(a1));
        raw_affinity(r0); rs = hwloc_set_cpubind(which[k], b, HWLOC_CPUBIND_THREAD); raw_affinity(r1);
        rg = hwloc_get_cpubind(which[k], g, HWLOC_CPUBIND_THREAD);
        printf("F which=%s cpu=%s this=%d set_rc=%d get_rc=%d get=", names[k], a1, hwloc_topology_is_thissystem(which[k]), rs, rg); hwv_pset(stdout, g);
        fputs(" complete=", stdout); hwv_pset(stdout, hwloc_topology_get_complete_cpuset(which[k]));
        fputs(" before=", stdout); hwv_pset(stdout, r0); fputs(" after=", stdout); hwv_pset(stdout, r1); fputc('\n', stdout);
        if (!hwloc_bitmap_isequal(r0, r1)) { /* put the thread back */
          cpu_set_t *m = CPU_ALLOC(4096); size_t sz = CPU_ALLOC_SIZE(4096); unsigned c; CPU_ZERO_S(sz, m);
          hwloc_bitmap_foreach_begin(c, r0) CPU_SET_S(c, sz, m); hwloc_bitmap_foreach_end(); sched_setaffinity(0, sz, m); CPU_FREE(m);
        }
        hwloc_bitmap_free(b); hwloc_bitmap_free(g); hwloc_bitmap_free(r0); hwloc_bitmap_free(r1);
      }
      hwloc_topology_destroy(d2); hwloc_topology_destroy(d1); hwloc_topology_destroy(f); continue;
    }
    if (!strcmp(cmd, "threadload")) { /* <cpu> <flags>: load in a worker thread bound to that single PU */
      struct tl_job j; pthread_t th;
      memset(&j, 0, sizeof(j)); j.cpu = (unsigned)atoi(a1); j.flags = strtoul(a2, NULL, 0); j.main_tid = (pid_t)syscall(SYS_gettid);
      j.before = hwloc_bitmap_alloc(); j.after = hwloc_bitmap_alloc(); j.main_before = hwloc_bitmap_alloc(); j.main_after = hwloc_bitmap_alloc();
      pthread_create(&th, NULL, tl_worker, &j); pthread_join(th, NULL);
      printf("M cpu=%u flags=%lu bind_rc=%d flags_rc=%d rc=%d backends=%s before=", j.cpu, j.flags, j.bind_rc, j.flags_rc, j.load_rc, j.backends[0] ? j.backends : "-");
      hwv_pset(stdout, j.before); fputs(" after=", stdout); hwv_pset(stdout, j.after);
      fputs(" main_before=", stdout); hwv_pset(stdout, j.main_before); fputs(" main_after=", stdout); hwv_pset(stdout, j.main_after);
      printf(" npu=%d\n", j.npu);
      hwloc_bitmap_free(j.before); hwloc_bitmap_free(j.after); hwloc_bitmap_free(j.main_before); hwloc_bitmap_free(j.main_after); continue;
    }
    if (!strcmp(cmd, "rt")) { /* live round trip on the loaded native topology: <set> <flags> */
      hwloc_bitmap_t b = hwv_parse_set(a1), g = hwloc_bitmap_alloc_full(), raw = hwloc_bitmap_alloc(), last = hwloc_bitmap_alloc_full();   /* outputs pre-filled */
      int fl = (int)strtoul(a2, NULL, 0), rs, rg, rl, es = 0;
      if (!t || !loaded || !b) { printf("rt-error\n"); continue; }
      errno = 0; rs = hwloc_set_cpubind(t, b, fl); es = errno;
      rg = hwloc_get_cpubind(t, g, fl);
      raw_affinity(raw);
      rl = hwloc_get_last_cpu_location(t, last, fl);
      fputs("T set=", stdout); hwv_pset(stdout, b);
      printf(" flags=%d set_rc=%d set_errno=%s get_rc=%d get=", fl, rs, rs < 0 ? hwv_errno_class(es) : "0", rg); hwv_pset(stdout, g);
      fputs(" raw=", stdout); hwv_pset(stdout, raw);
      printf(" last_rc=%d last=", rl); hwv_pset(stdout, last); fputc('\n', stdout);
      hwloc_bitmap_free(b); hwloc_bitmap_free(g); hwloc_bitmap_free(raw); hwloc_bitmap_free(last); continue;
    }
#else
    if (!strcmp(cmd, "os")) {
      if (!strcmp(a1, "aff")) { hwloc_bitmap_t b = hwv_parse_set(a2); if (b) { hwloc_bitmap_copy(os_aff, b); hwloc_bitmap_free(b); } }
      else if (!strcmp(a1, "affproc")) { if (os_affproc) hwloc_bitmap_free(os_affproc); os_affproc = hwv_parse_set(a2); }
      else if (!strcmp(a1, "loadtrace")) { /* os loadtrace <flags>: every affinity call a native load issues, answered by the scripted kernel */
        hwloc_topology_t t2; unsigned long fl = strtoul(a2, NULL, 0); int lr;
        hwloc_topology_init(&t2); hwloc_topology_set_flags(t2, fl);
        tr_reset(); os_intercept = 1; lr = hwloc_topology_load(t2); os_intercept = 0;
        printf("LT flags=%lu rc=%d nbprocs=%d |%s\n", fl, lr, hwloc_fallback_nbprocessors(HWLOC_FALLBACK_NBPROCESSORS_INCLUDE_OFFLINE), trace_len ? trace : "");
        tr_reset(); hwloc_topology_destroy(t2);
      }
      else if (!strcmp(a1, "ret")) { int c; for (c = 0; c < OC_N; c++) if (!strcmp(a2, "all") || !strcmp(a2, oc_names[c])) { os_rc[c] = atol(a3); os_errno[c] = errno_of_class(a4); } }
      else if (!strcmp(a1, "mempol")) { hwloc_bitmap_t b = hwv_parse_set(a3); os_mempol_mode = atoi(a2); if (b) { hwloc_bitmap_copy(os_mempol_mask, b); hwloc_bitmap_free(b); } }
      else if (!strcmp(a1, "pages")) os_page_status = atoi(a2);
      else if (!strcmp(a1, "stat")) { /* hex of the file content, "-" = the real /proc, "empty" = zero bytes */
        if (!strcmp(a2, "-")) os_stat_len = -1; else if (!strcmp(a2, "empty")) os_stat_len = 0;
        else { size_t k, n2 = strlen(a2) / 2; unsigned v; if (n2 > sizeof(os_stat) - 1) n2 = sizeof(os_stat) - 1;
          for (k = 0; k < n2; k++) { sscanf(a2 + 2 * k, "%2x", &v); os_stat[k] = (char)v; } os_stat_len = (int)n2; }
      }
      else if (!strcmp(a1, "cpu")) os_cpu = atoi(a2);
      else if (!strcmp(a1, "maxnodes")) os_maxnodes = strtoul(a2, NULL, 0);
      else if (!strcmp(a1, "nrcpus")) os_nrcpus = strtoul(a2, NULL, 0);
      else if (!strcmp(a1, "pm_unsupported")) os_pm_unsupported = atoi(a2);
      continue;
    }
#endif
    if (!t || !loaded) { printf("not-loaded %s\n", line); continue; }
    if (!strcmp(cmd, "mode")) {
      if (!strcmp(a1, "hooks")) { install_recording_hooks(t, strtoul(a2, NULL, 16)); hooks_mode = 1;
#ifndef HWV_LIVE
        os_intercept = 0;
#endif
      }
#ifndef HWV_LIVE
      else if (!strcmp(a1, "os")) {
        static int warmed;
        restore_installed_hooks((struct hwloc_topology *)t); hooks_mode = 0;
        if (!warmed) {
          /* fill the function-static caches of topology-linux.c (kernel cpumask size, kernel max
           * numnodes) on a private 1-PU topology, so that what they hold depends on the scripted
           * kernel only and later calls issue a deterministic number of system calls */
          hwloc_topology_t t2; hwloc_bitmap_t b = hwloc_bitmap_alloc(); hwloc_membind_policy_t p;
          char *saved = getenv("HWLOC_THISSYSTEM") ? strdup(getenv("HWLOC_THISSYSTEM")) : NULL;
          unsetenv("HWLOC_THISSYSTEM");
          os_intercept = 0;
          hwloc_topology_init(&t2); hwloc_topology_set_synthetic(t2, "pu:1"); hwloc_topology_set_flags(t2, HWLOC_TOPOLOGY_FLAG_IS_THISSYSTEM);
          hwloc_topology_load(t2);
          os_intercept = 1; tr_reset();
          hwloc_get_cpubind(t2, b, HWLOC_CPUBIND_THREAD); hwloc_get_membind(t2, b, &p, HWLOC_MEMBIND_THREAD | HWLOC_MEMBIND_BYNODESET);
          os_intercept = 0;
          hwloc_topology_destroy(t2); hwloc_bitmap_free(b); warmed = 1;
          if (saved) { setenv("HWLOC_THISSYSTEM", saved, 1); free(saved); }
          printf("W%s\n", trace_len ? trace : ""); tr_reset();
        }
        os_intercept = 1;
      }
#endif
      continue;
    }
    if (!strcmp(cmd, "hookret")) {
      int lo = !strcmp(a1, "all") ? 0 : atoi(a1), hi = !strcmp(a1, "all") ? NHOOK - 1 : atoi(a1), k;
      char a5[4200] = "", a6[64] = "";
      sscanf(line, "%*s %*s %*s %*s %4199s %63s", a5, a6);
      for (k = lo; k <= hi && k < NHOOK; k++) {
        hwloc_bitmap_t b = hwv_parse_set(a5);
        hk_rc[k] = atol(a2); hk_errno[k] = errno_of_class(a3);
        if (b) { hwloc_bitmap_copy(hk_set[k], b); hwloc_bitmap_free(b); }
        if (a6[0]) hk_pol[k] = atoi(a6);
      }
      continue;
    }
    /* ---- the binding API ---- */
    {
      hwloc_bitmap_t out = hwloc_bitmap_dup(sentinel), in = NULL;
      hwloc_membind_policy_t pol = (hwloc_membind_policy_t)POL_SENTINEL;
      int rc = -2, e, known = 1;
      tr_reset(); errno = 0;
#define FL(s) ((int)strtoul((s), NULL, 0))
      if (!strcmp(cmd, "scb")) { in = hwv_parse_set(a1); rc = hwloc_set_cpubind(t, in, FL(a2)); e = errno; report_int(rc, e, NULL, POL_SENTINEL); }
      else if (!strcmp(cmd, "gcb")) { rc = hwloc_get_cpubind(t, out, FL(a1)); e = errno; report_int(rc, e, out, POL_SENTINEL); }
      else if (!strcmp(cmd, "spcb")) { in = hwv_parse_set(a2); rc = hwloc_set_proc_cpubind(t, parse_who(a1), in, FL(a3)); e = errno; report_int(rc, e, NULL, POL_SENTINEL); }
      else if (!strcmp(cmd, "gpcb")) { rc = hwloc_get_proc_cpubind(t, parse_who(a1), out, FL(a2)); e = errno; report_int(rc, e, out, POL_SENTINEL); }
      else if (!strcmp(cmd, "stcb")) { in = hwv_parse_set(a1); rc = hwloc_set_thread_cpubind(t, pthread_self(), in, FL(a2)); e = errno; report_int(rc, e, NULL, POL_SENTINEL); }
      else if (!strcmp(cmd, "gtcb")) { rc = hwloc_get_thread_cpubind(t, pthread_self(), out, FL(a1)); e = errno; report_int(rc, e, out, POL_SENTINEL); }
      else if (!strcmp(cmd, "stcbo")) { park_start(); in = hwv_parse_set(a1); rc = hwloc_set_thread_cpubind(t, park_thread, in, FL(a2)); e = errno; report_int(rc, e, NULL, POL_SENTINEL); }
      else if (!strcmp(cmd, "gtcbo")) { park_start(); rc = hwloc_get_thread_cpubind(t, park_thread, out, FL(a1)); e = errno; report_int(rc, e, out, POL_SENTINEL); }
      else if (!strcmp(cmd, "glcl")) { rc = hwloc_get_last_cpu_location(t, out, FL(a1)); e = errno; report_int(rc, e, out, POL_SENTINEL); }
      else if (!strcmp(cmd, "gplcl")) { rc = hwloc_get_proc_last_cpu_location(t, parse_who(a1), out, FL(a2)); e = errno; report_int(rc, e, out, POL_SENTINEL); }
      else if (!strcmp(cmd, "smb")) { in = hwv_parse_set(a1); rc = hwloc_set_membind(t, in, (hwloc_membind_policy_t)atoi(a2), FL(a3)); e = errno; report_int(rc, e, NULL, POL_SENTINEL); }
      else if (!strcmp(cmd, "gmb")) { rc = hwloc_get_membind(t, out, &pol, FL(a1)); e = errno; report_int(rc, e, out, (int)pol); }
      else if (!strcmp(cmd, "spmb")) { in = hwv_parse_set(a2); rc = hwloc_set_proc_membind(t, parse_who(a1), in, (hwloc_membind_policy_t)atoi(a3), FL(a4)); e = errno; report_int(rc, e, NULL, POL_SENTINEL); }
      else if (!strcmp(cmd, "gpmb")) { rc = hwloc_get_proc_membind(t, parse_who(a1), out, &pol, FL(a2)); e = errno; report_int(rc, e, out, (int)pol); }
      else if (!strcmp(cmd, "samb")) { size_t len = strtoul(a1, NULL, 0); in = hwv_parse_set(a2); if (len > area_len) len = area_len;
        rc = hwloc_set_area_membind(t, area, len, in, (hwloc_membind_policy_t)atoi(a3), FL(a4)); e = errno; report_int(rc, e, NULL, POL_SENTINEL); }
      else if (!strcmp(cmd, "gamb")) { size_t len = strtoul(a1, NULL, 0); if (len > area_len) len = area_len;
        rc = hwloc_get_area_membind(t, area, len, out, &pol, FL(a2)); e = errno; report_int(rc, e, out, (int)pol); }
      else if (!strcmp(cmd, "gaml")) { size_t len = strtoul(a1, NULL, 0); if (len > area_len) len = area_len;
        rc = hwloc_get_area_memlocation(t, area, len, out, FL(a2)); e = errno; report_int(rc, e, out, POL_SENTINEL); }
      else if (!strcmp(cmd, "amb")) { size_t len = strtoul(a1, NULL, 0); void *p; if (len > area_len) len = area_len;
        in = hwv_parse_set(a2); p = hwloc_alloc_membind(t, len, in, (hwloc_membind_policy_t)atoi(a3), FL(a4)); e = errno;
        printf("R rc=%d errno=%s set=- pol=- |%s\n", p ? 1 : 0, p ? "0" : hwv_errno_class(e), trace_len ? trace : "");
        if (p) {
#ifndef HWV_LIVE
          int keep = os_intercept; os_intercept = 0;
#endif
          hwloc_free(t, p, len);
#ifndef HWV_LIVE
          os_intercept = keep;
#endif
        } }
      else known = 0;
      if (!known) printf("unknown-command %s\n", line);
#ifndef HWV_LIVE
      { /* nothing of the above may have changed the REAL affinity of this process (everything is interposed) */
        unsigned long now[64]; memset(now, 0, sizeof(now));
        raw_syscall6(SYS_sched_getaffinity, 0, sizeof(now), (long)now, 0, 0, 0);
        if (memcmp(now, real_aff0, sizeof(now))) {
          printf("X real affinity changed by: %s\n", line);
          raw_syscall6(SYS_sched_setaffinity, 0, sizeof(real_aff0), (long)real_aff0, 0, 0, 0);
        }
      }
#endif
      hwloc_bitmap_free(out); if (in) hwloc_bitmap_free(in);
    }
  }
  park_stop();
  if (hwv_child > 0) { char q = 'q'; int st; if (write(hwv_child_fd, &q, 1) != 1) kill(hwv_child, SIGKILL); waitpid(hwv_child, &st, 0); }
  if (t) hwloc_topology_destroy(t);
  free(line); free(area); free(trace); free(hwv_xmlbuf);
  hwloc_bitmap_free(sentinel);
  for (i = 0; i < NHOOK; i++) hwloc_bitmap_free(hk_set[i]);
#ifndef HWV_LIVE
  hwloc_bitmap_free(os_aff); hwloc_bitmap_free(os_mempol_mask); if (os_affproc) hwloc_bitmap_free(os_affproc);
#endif
  fflush(stdout);
  return 0;
}
