/* C18 harness: feeds file contents to the REAL static parsers
 * hwloc__read_path_as_cpumask / hwloc__read_path_as_cpulist of
 * hwloc/topology-linux.c (the source file is compiled into this unit:
 * -DHV_TOPOLOGY_LINUX_C="<repo>/hwloc/topology-linux.c") through a real file
 * below a directory file descriptor, as the backend does with its fsroot.
 *
 * argv[1] = scratch directory (created by the caller).
 * Case lines on stdin:   mask <hexbytes|->      list <hexbytes|->
 * Output, one line per case:
 *   case <n>                                   (flushed before the call: names the case in flight on a crash)
 *   <kind> <n> parsed <inf>:<hex words>        rc == 0 (set rendered from raw words, hwv_dump.h)
 *   <kind> <n> rc=-1
 * Both parsers are also given a set with a dirty previous content, since they
 * are documented to overwrite it.
 */
#include HV_TOPOLOGY_LINUX_C
#include "hwv_dump.h"
#include <fcntl.h>
#include <unistd.h>

static int hexv(int c) { return c >= '0' && c <= '9' ? c - '0' : c >= 'a' && c <= 'f' ? c - 'a' + 10 : c >= 'A' && c <= 'F' ? c - 'A' + 10 : -1; }

int main(int argc, char **argv)
{
  char *line = NULL; size_t cap = 0; ssize_t got;
  unsigned n = 0;
  int dirfd_;
  char path[4096];
  if (argc < 2) { fprintf(stderr, "usage: %s <scratchdir>\n", argv[0]); return 2; }
  dirfd_ = open(argv[1], O_RDONLY | O_DIRECTORY);
  if (dirfd_ < 0) { perror("open scratch"); return 2; }
  snprintf(path, sizeof(path), "%s/f", argv[1]);
  while ((got = getline(&line, &cap, stdin)) > 0) {
    char kind[8]; char *hex; size_t len, i; unsigned char *bytes; int fd, rc; hwloc_bitmap_t set;
    while (got && (line[got-1] == '\n' || line[got-1] == '\r')) line[--got] = 0;
    if (!got) continue;
    hex = strchr(line, ' ');
    if (!hex || hex - line > 7) { printf("bad-line\n"); continue; }
    memcpy(kind, line, (size_t)(hex - line)); kind[hex - line] = 0; hex++;
    if (!strcmp(hex, "-")) hex += 1;
    len = strlen(hex) / 2;
    bytes = malloc(len ? len : 1);
    for (i = 0; i < len; i++) bytes[i] = (unsigned char)(hexv(hex[2*i]) * 16 + hexv(hex[2*i+1]));
    fd = open(path, O_WRONLY | O_CREAT | O_TRUNC, 0600);
    if (fd < 0 || write(fd, bytes, len) != (ssize_t)len) { perror("write case"); return 2; }
    close(fd);
    free(bytes);
    printf("case %u\n", n); fflush(stdout);
    set = hwloc_bitmap_alloc();
    /* dirty previous content: some words, infinite */
    hwloc_bitmap_set_range(set, 3, 200); hwloc_bitmap_set_range(set, 1000, -1);
    if (!strcmp(kind, "mask")) rc = hwloc__read_path_as_cpumask("/f", set, dirfd_);
    else if (!strcmp(kind, "list")) rc = hwloc__read_path_as_cpulist("/f", set, dirfd_);
    else { printf("bad-kind\n"); hwloc_bitmap_free(set); n++; continue; }
    if (rc == 0) { printf("%s %u parsed ", kind, n); hwv_pset(stdout, set); printf("\n"); }
    else printf("%s %u rc=%d\n", kind, n, rc);
    hwloc_bitmap_free(set);
    fflush(stdout);
    n++;
  }
  free(line);
  close(dirfd_);
  unlink(path);
  return 0;
}
