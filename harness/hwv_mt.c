/* C17 harness: documented thread-safety on the REAL library.
 *
 * Case file (stdin), one command per line:
 *   init <t>
 *   load <t> <flags> bind=<0|1> synthetic <description...>
 *   load <t> <flags> bind=<0|1> xml <path>
 *   load <t> <flags> bind=<0|1> native            (discovery of the running machine: Linux + x86 backends)
 *   bindthread <n> | unbind | showbind              bind the CALLING thread to the n-th allowed CPU / restore / record its binding
 *   load <t> <flags> bind=<0|1> xmlbuf <path>     (hwloc_topology_set_xmlbuffer of the file's bytes)
 *   blacklist <t> <component>                       hwloc_topology_set_components(BLACKLIST) before load
 *   exportfile <t> <path>                           hwloc_topology_export_xml to a file (document factory for the generators)
 *   mod <t> restrict <cpuset> | insertmisc | insertgroup | allow | distadd <typename> <n> | distremove
 *              | maregister | maset <a> <numa-logical-index> | refresh
 *   cons <t> traverse|typeprint|distget|distrelease|mameta|maget <q> <a>|localnodes|cpukinds|sets|bitmap|exportxml|exportsynth|defaultnodeset|helpers
 *   configure <t> synthetic <description...> | xml <path>    set the source only (lifecycle state "configured")
 *   err <t> <call>        a call made WHATEVER the lifecycle state of the topology (init only / configured / loaded / after a
 *                         failed load), recorded as rc + errno class: shmemlen, shmemwrite (scratch file, probed address),
 *                         exportxml, exportxmlbuf, exportsynth, dup, diffbuild, diffapply, setsynthetic, setxml, setflags,
 *                         setfilter, setpid, setcomponents, restrict, allow, insertmisc, distadd, distget, refresh,
 *                         adopt<variant> (hwloc_shmem_topology_adopt of a file written here: good, abi, version, hlength, length,
 *                         addr, busy, nonshmem, trunc)
 *   dupto <t> <u>         hwloc_topology_dup of loaded topology t into the free slot u
 *   mod <t> infos <target> clear | add <name> <value> | replace <name> <value>      hwloc_modify_infos on the infos of
 *                         target = topo | root | pu<i> | numa<i> | kind<i> (CPU kind i)
 *   mod <t> cpukind <cpuset> <name> <value>      hwloc_cpukinds_register(cpuset, unknown efficiency, one info)
 *   filterall <t>         before load: keep every object type (memory-side caches are filtered out by default)
 *   destroy <t>
 *   env <NAME> [<VALUE>]  setenv / unsetenv (e.g. HWLOC_SYNTHETIC_VERBOSE)
 *   threads <T>           start of a concurrent section: the next lines are
 *   prog <i> <command>    appended to thread i's program (any command above)
 *   prog <i> barrier      all T threads meet here (every program must contain the same number of them); orders the
 *                         histories only, each thread keeps using its own topologies; a no-op in sequential re-runs
 *   run                   run the T programs concurrently, then print per-thread digests and the
 *                         digests of a sequential re-run of the same programs ("ref")
 * Sequential commands print  "S <n> <cmd> rc=<0|1> <oracle fields> nd=<#dist> dv=<valid bits> mv=<valid bits> chg=<0|1>"
 * where dv/mv are the OBJS_VALID / CACHE_VALID bits read from the private structures, chg says whether
 * anything in the distances / memattr caches changed across the call (flags, object pointers, counts,
 * indexes, values): a consulting call on a refreshed topology must print chg=0.
 * No hook in /repo is needed: the caches are observed through private.h. */
#define _GNU_SOURCE
#include "private/autogen/config.h"
#include "hwloc.h"
#include "private/private.h"
#include <pthread.h>
#include <sched.h>
#include <stdio.h>
#include <stdlib.h>
#include <string.h>
#include <errno.h>
#include <stdint.h>
#include <limits.h>
#include <stddef.h>
#include <unistd.h>
#include <fcntl.h>
#include <sys/mman.h>
#include "hwloc/shmem.h"
#include "hwv_dump.h"

#define MAXT 64
#define MAXTH 32
#define MAXPROG 256

static hwloc_topology_t topos[MAXT];
static int loaded[MAXT];          /* slot holds a successfully loaded topology */
static int in_threads;            /* inside a concurrent section */
static cpu_set_t initial_mask;    /* the process' affinity when the harness started */
static pthread_barrier_t opbarrier;
static unsigned long value_counter[MAXT];

static const char *hwv_errno_name(int e)
{
  switch (e) { case 0: return "0"; case EINVAL: return "EINVAL"; case ENOMEM: return "ENOMEM"; case ENOSYS: return "ENOSYS"; case ENOENT: return "ENOENT";
  case EBUSY: return "EBUSY"; case EPERM: return "EPERM"; case EXDEV: return "EXDEV"; default: return "EOTHER"; }
}

/* ---------------- digests ---------------- */
static uint64_t fnv(uint64_t h, const void *p, size_t n) { const unsigned char *c = p; size_t i; for (i = 0; i < n; i++) { h ^= c[i]; h *= 0x100000001b3ull; } return h; }
static uint64_t fnv_u64(uint64_t h, uint64_t v) { return fnv(h, &v, sizeof(v)); }
static uint64_t fnv_str(uint64_t h, const char *s) { return s ? fnv(h, s, strlen(s) + 1) : fnv_u64(h, 0xdeadull); }
#define FNV0 0xcbf29ce484222325ull

/* everything a refresh may write, read from the private structures */
static uint64_t cache_digest(hwloc_topology_t t)
{
  uint64_t h = FNV0; struct hwloc_internal_distances_s *d; unsigned i, j, k;
  for (d = t->first_dist; d; d = d->next) {
    h = fnv_u64(h, d->id); h = fnv_u64(h, d->iflags); h = fnv_u64(h, d->nbobjs);
    for (i = 0; i < d->nbobjs; i++) { h = fnv_u64(h, (uintptr_t)d->objs[i]); h = fnv_u64(h, d->indexes[i]); }
    for (i = 0; i < d->nbobjs * d->nbobjs; i++) h = fnv_u64(h, d->values[i]);
  }
  h = fnv_u64(h, t->nr_memattrs);
  for (i = 0; i < t->nr_memattrs; i++) {
    struct hwloc_internal_memattr_s *m = &t->memattrs[i];
    h = fnv_u64(h, m->iflags); h = fnv_u64(h, m->nr_targets);
    for (j = 0; j < m->nr_targets; j++) {
      struct hwloc_internal_memattr_target_s *g = &m->targets[j];
      h = fnv_u64(h, (uintptr_t)g->obj); h = fnv_u64(h, g->gp_index); h = fnv_u64(h, g->noinitiator_value); h = fnv_u64(h, g->nr_initiators);
      for (k = 0; k < g->nr_initiators; k++) { h = fnv_u64(h, g->initiators[k].value); h = fnv_u64(h, g->initiators[k].initiator.type); }
    }
  }
  return h;
}

/* everything else of the topology that NO consulting call may write: the canonical dump (every object field reachable
 * through the public structures, level membership in level order, sets, infos), the raw level arrays of the private
 * structure - normal levels and the special levels (NUMA, I/O, Misc, MemCache) pointer by pointer, in order - and
 * the CPU kinds */
static uint64_t tree_digest(hwloc_topology_t t)
{
  char *buf = NULL; size_t len = 0; FILE *f = open_memstream(&buf, &len); uint64_t h; unsigned d, i;
  hwv_dump_topology(f, t, 0); fclose(f);
  h = fnv(FNV0, buf, len); free(buf);
  h = fnv_u64(h, t->nb_levels);
  for (d = 0; d < t->nb_levels; d++) { h = fnv_u64(h, t->level_nbobjects[d]); for (i = 0; i < t->level_nbobjects[d]; i++) h = fnv_u64(h, (uintptr_t)t->levels[d][i]); }
  for (d = 0; d < HWLOC_NR_SLEVELS; d++) {
    h = fnv_u64(h, t->slevels[d].nbobjs); h = fnv_u64(h, (uintptr_t)t->slevels[d].first); h = fnv_u64(h, (uintptr_t)t->slevels[d].last);
    for (i = 0; i < t->slevels[d].nbobjs; i++) { h = fnv_u64(h, (uintptr_t)t->slevels[d].objs[i]); h = fnv_u64(h, t->slevels[d].objs[i]->logical_index); h = fnv_u64(h, t->slevels[d].objs[i]->os_index); }
  }
  h = fnv_u64(h, t->nr_cpukinds);
  for (i = 0; i < t->nr_cpukinds; i++) {
    char *s = NULL; hwloc_bitmap_asprintf(&s, t->cpukinds[i].cpuset); h = fnv_str(h, s); free(s);
    h = fnv_u64(h, (uint64_t)t->cpukinds[i].efficiency); h = fnv_u64(h, (uint64_t)t->cpukinds[i].forced_efficiency); h = fnv_u64(h, t->cpukinds[i].ranking_value);
  }
  h = fnv_u64(h, t->flags); h = fnv_u64(h, (uint64_t)t->state); h = fnv_u64(h, (uintptr_t)t->userdata);
  return h;
}

static void print_flags(hwloc_topology_t t)
{
  struct hwloc_internal_distances_s *d; unsigned i, nd = 0;
  for (d = t->first_dist; d; d = d->next) nd++;
  printf(" nd=%u dv=", nd);
  if (!nd) putchar('-');
  for (d = t->first_dist; d; d = d->next) putchar((d->iflags & HWLOC_INTERNAL_DIST_FLAG_OBJS_VALID) ? '1' : '0');
  printf(" mv=");
  if (!t->nr_memattrs) putchar('-');
  for (i = 0; i < t->nr_memattrs; i++) putchar((t->memattrs[i].iflags & HWLOC_IMATTR_FLAG_CACHE_VALID) ? '1' : '0');
}

/* how many objects of each distances structure are still in the tree (the model's d_live input) */
static void print_lives(hwloc_topology_t t)
{
  struct hwloc_internal_distances_s *d; unsigned i; int first = 1;
  printf(" lives=");
  if (!t->first_dist) putchar('-');
  for (d = t->first_dist; d; d = d->next) {
    unsigned live = 0;
    for (i = 0; i < d->nbobjs; i++) {
      hwloc_obj_t o;
      if (HWLOC_DIST_TYPE_USE_OS_INDEX(d->unique_type))
        o = d->unique_type == HWLOC_OBJ_PU ? hwloc_get_pu_obj_by_os_index(t, (unsigned)d->indexes[i]) : hwloc_get_numanode_obj_by_os_index(t, (unsigned)d->indexes[i]);
      else
        o = hwloc_get_obj_by_type_and_gp_index(t, d->different_types ? d->different_types[i] : d->unique_type, d->indexes[i]);
      if (o) live++;
    }
    printf("%s%u", first ? "" : ",", live); first = 0;
  }
}

static void print_dists_nb(hwloc_topology_t t)
{
  struct hwloc_internal_distances_s *d; int first = 1;
  printf(" dists=");
  if (!t->first_dist) putchar('-');
  for (d = t->first_dist; d; d = d->next) { printf("%s%u", first ? "" : ",", d->nbobjs); first = 0; }
}

/* ---------------- consulting calls: each returns a digest of everything it observed ---------------- */
static uint64_t c_traverse(hwloc_topology_t t)
{
  char *buf = NULL; size_t len = 0; FILE *f = open_memstream(&buf, &len); uint64_t h;
  hwloc_obj_t o = NULL; unsigned n = 0;
  hwv_dump_topology(f, t, 0); fclose(f);
  h = fnv(FNV0, buf, len); free(buf);
  /* helpers */
  while ((o = hwloc_get_next_obj_by_type(t, HWLOC_OBJ_PU, o)) != NULL) {
    hwloc_obj_t a = hwloc_get_ancestor_obj_by_type(t, HWLOC_OBJ_PACKAGE, o);
    hwloc_obj_t c = hwloc_get_common_ancestor_obj(t, o, hwloc_get_obj_by_type(t, HWLOC_OBJ_PU, 0));
    hwloc_obj_t np = hwloc_get_non_io_ancestor_obj(t, o);
    h = fnv_u64(h, a ? a->gp_index : 0); h = fnv_u64(h, c ? c->gp_index : 0); h = fnv_u64(h, np ? np->gp_index : 0);
    h = fnv_u64(h, hwloc_get_nbobjs_inside_cpuset_by_type(t, o->cpuset, HWLOC_OBJ_PU));
    if (++n > 64) break;
  }
  h = fnv_u64(h, hwloc_get_memory_parents_depth(t));
  h = fnv_u64(h, hwloc_topology_is_thissystem(t));
  return h;
}

static uint64_t c_typeprint(hwloc_topology_t t)
{
  uint64_t h = FNV0; int d, depth = hwloc_topology_get_depth(t); char a[256], b[512];
  static const int sd[] = { HWLOC_TYPE_DEPTH_NUMANODE, HWLOC_TYPE_DEPTH_BRIDGE, HWLOC_TYPE_DEPTH_PCI_DEVICE, HWLOC_TYPE_DEPTH_OS_DEVICE, HWLOC_TYPE_DEPTH_MISC, HWLOC_TYPE_DEPTH_MEMCACHE };
  for (d = 0; d < depth + 6; d++) {
    int dd = d < depth ? d : sd[d - depth]; unsigned i, w = hwloc_get_nbobjs_by_depth(t, dd);
    for (i = 0; i < w && i < 256; i++) {
      hwloc_obj_t o = hwloc_get_obj_by_depth(t, dd, i);
      hwloc_obj_type_snprintf(a, sizeof(a), o, 1); h = fnv_str(h, a);
      hwloc_obj_type_snprintf(a, sizeof(a), o, 0); h = fnv_str(h, a);
      hwloc_obj_attr_snprintf(b, sizeof(b), o, " ", 1); h = fnv_str(h, b);
      h = fnv_str(h, hwloc_obj_type_string(o->type));
    }
  }
  return h;
}

static uint64_t c_distget(hwloc_topology_t t, int release)
{
  struct hwloc_distances_s *ds[32]; unsigned nr = 32, i, j; uint64_t h = FNV0;
  int rc = hwloc_distances_get(t, &nr, ds, 0, 0);
  h = fnv_u64(h, (uint64_t)rc); if (rc < 0) return h;
  h = fnv_u64(h, nr);
  for (i = 0; i < nr && i < 32; i++) {
    h = fnv_u64(h, ds[i]->nbobjs); h = fnv_u64(h, ds[i]->kind); h = fnv_str(h, hwloc_distances_get_name(t, ds[i]));
    for (j = 0; j < ds[i]->nbobjs; j++) h = fnv_u64(h, ds[i]->objs[j] ? ds[i]->objs[j]->gp_index : (uint64_t)-1);
    for (j = 0; j < ds[i]->nbobjs * ds[i]->nbobjs; j++) h = fnv_u64(h, ds[i]->values[j]);
    if (ds[i]->nbobjs >= 2 && ds[i]->objs[0] && ds[i]->objs[1]) {
      hwloc_uint64_t v1 = 0, v2 = 0;
      h = fnv_u64(h, (uint64_t)hwloc_distances_obj_index(ds[i], ds[i]->objs[1]));
      hwloc_distances_obj_pair_values(ds[i], ds[i]->objs[0], ds[i]->objs[1], &v1, &v2); h = fnv_u64(h, v1); h = fnv_u64(h, v2);
    }
    hwloc_distances_release(t, ds[i]);
  }
  { /* the by_type and by_depth variants go through the same internal function */
    unsigned nr2 = 32; if (hwloc_distances_get_by_type(t, HWLOC_OBJ_NUMANODE, &nr2, ds, 0, 0) == 0) { h = fnv_u64(h, nr2); for (i = 0; i < nr2 && i < 32; i++) hwloc_distances_release(t, ds[i]); }
    nr2 = 32; if (hwloc_distances_get_by_depth(t, hwloc_get_type_depth(t, HWLOC_OBJ_PU), &nr2, ds, 0, 0) == 0) { h = fnv_u64(h, nr2); for (i = 0; i < nr2 && i < 32; i++) hwloc_distances_release(t, ds[i]); }
  }
  { /* by_name and a transformation of the caller's private copy (same internal get, hence in this call and not in `helpers`) */
    unsigned nr3 = 8;
    if (hwloc_distances_get_by_name(t, NULL, &nr3, ds, 0) == 0) { h = fnv_u64(h, nr3); for (i = 0; i < nr3 && i < 8; i++) {
      hwloc_distances_transform(t, ds[i], HWLOC_DISTANCES_TRANSFORM_LINKS, NULL, 0);
      h = fnv_u64(h, ds[i]->nbobjs ? ds[i]->values[ds[i]->nbobjs > 1 ? 1 : 0] : 0); hwloc_distances_release(t, ds[i]); } } }
  (void)release;
  return h;
}

static uint64_t c_mameta(hwloc_topology_t t)
{
  uint64_t h = FNV0; unsigned a; hwloc_memattr_id_t id;
  for (a = 0; a < 64; a++) {
    const char *name = NULL; unsigned long fl = 0;
    if (hwloc_memattr_get_name(t, a, &name) < 0) break;
    h = fnv_str(h, name); hwloc_memattr_get_flags(t, a, &fl); h = fnv_u64(h, fl);
    if (hwloc_memattr_get_by_name(t, name, &id) == 0) h = fnv_u64(h, id);
  }
  return h;
}

static uint64_t c_maget(hwloc_topology_t t, int q, unsigned a)
{
  uint64_t h = FNV0; hwloc_obj_t node = NULL; unsigned long fl = 0; int needi;
  struct hwloc_location loc; hwloc_obj_t root = hwloc_get_root_obj(t);
  if (hwloc_memattr_get_flags(t, a, &fl) < 0) return fnv_u64(h, 0xbadull);
  needi = !!(fl & HWLOC_MEMATTR_FLAG_NEED_INITIATOR);
  while ((node = hwloc_get_next_obj_by_type(t, HWLOC_OBJ_NUMANODE, node)) != NULL) {
    hwloc_uint64_t v = 0; int rc;
    loc.type = HWLOC_LOCATION_TYPE_CPUSET; loc.location.cpuset = hwloc_bitmap_iszero(node->cpuset) ? root->cpuset : node->cpuset;
    switch (q) {
    case 0: rc = hwloc_memattr_get_value(t, a, node, needi ? &loc : NULL, 0, &v); h = fnv_u64(h, (uint64_t)rc); h = fnv_u64(h, rc ? 0 : v); break;
    case 1: { hwloc_obj_t best = NULL; rc = hwloc_memattr_get_best_target(t, a, needi ? &loc : NULL, 0, &best, &v); h = fnv_u64(h, (uint64_t)rc); h = fnv_u64(h, rc ? 0 : best->gp_index); h = fnv_u64(h, rc ? 0 : v); break; }
    case 2: { struct hwloc_location best; rc = hwloc_memattr_get_best_initiator(t, a, node, 0, &best, &v); h = fnv_u64(h, (uint64_t)rc); h = fnv_u64(h, rc ? 0 : v); h = fnv_u64(h, rc ? 0 : (uint64_t)best.type); break; }
    case 3: { hwloc_obj_t tg[64]; hwloc_uint64_t vs[64]; unsigned nr = 64, i; rc = hwloc_memattr_get_targets(t, a, needi ? &loc : NULL, 0, &nr, tg, vs); h = fnv_u64(h, (uint64_t)rc);
              if (!rc) { h = fnv_u64(h, nr); for (i = 0; i < nr && i < 64; i++) { h = fnv_u64(h, tg[i]->gp_index); h = fnv_u64(h, vs[i]); } } break; }
    default: { struct hwloc_location in[64]; hwloc_uint64_t vs[64]; unsigned nr = 64, i; rc = hwloc_memattr_get_initiators(t, a, node, 0, &nr, in, vs); h = fnv_u64(h, (uint64_t)rc);
              if (!rc) { h = fnv_u64(h, nr); for (i = 0; i < nr && i < 64; i++) { h = fnv_u64(h, (uint64_t)in[i].type); h = fnv_u64(h, vs[i]); } } break; }
    }
  }
  return h;
}

static uint64_t c_localnodes(hwloc_topology_t t)
{
  uint64_t h = FNV0; hwloc_obj_t o = NULL, nodes[64]; unsigned n = 0;
  while ((o = hwloc_get_next_obj_by_type(t, HWLOC_OBJ_CORE, o)) != NULL) {
    struct hwloc_location loc; unsigned nr = 64, i; loc.type = HWLOC_LOCATION_TYPE_OBJECT; loc.location.object = o;
    if (hwloc_get_local_numanode_objs(t, &loc, &nr, nodes, HWLOC_LOCAL_NUMANODE_FLAG_LARGER_LOCALITY) == 0) { h = fnv_u64(h, nr); for (i = 0; i < nr && i < 64; i++) h = fnv_u64(h, nodes[i]->gp_index); }
    if (++n > 32) break;
  }
  return h;
}

static uint64_t c_cpukinds(hwloc_topology_t t)
{
  uint64_t h = FNV0; int nr = hwloc_cpukinds_get_nr(t, 0), i; hwloc_bitmap_t set = hwloc_bitmap_alloc();
  h = fnv_u64(h, (uint64_t)nr);
  for (i = 0; i < nr; i++) {
    int eff = 0; struct hwloc_infos_s *infos = NULL; unsigned j; char *s = NULL;
    if (hwloc_cpukinds_get_info(t, (unsigned)i, set, &eff, &infos, 0) < 0) continue;
    hwloc_bitmap_asprintf(&s, set); h = fnv_str(h, s); free(s); h = fnv_u64(h, (uint64_t)eff);
    for (j = 0; infos && j < infos->count; j++) { h = fnv_str(h, infos->array[j].name); h = fnv_str(h, infos->array[j].value); }
    h = fnv_u64(h, (uint64_t)hwloc_cpukinds_get_by_cpuset(t, set, 0));
  }
  h = fnv_u64(h, (uint64_t)hwloc_cpukinds_get_by_cpuset(t, hwloc_get_root_obj(t)->cpuset, 0));
  hwloc_bitmap_free(set);
  return h;
}

static uint64_t c_sets(hwloc_topology_t t)
{
  uint64_t h = FNV0; char *s = NULL; hwloc_const_bitmap_t sets[6]; int i;
  sets[0] = hwloc_topology_get_allowed_cpuset(t); sets[1] = hwloc_topology_get_allowed_nodeset(t);
  sets[2] = hwloc_topology_get_complete_cpuset(t); sets[3] = hwloc_topology_get_complete_nodeset(t);
  sets[4] = hwloc_topology_get_topology_cpuset(t); sets[5] = hwloc_topology_get_topology_nodeset(t);
  for (i = 0; i < 6; i++) { hwloc_bitmap_asprintf(&s, sets[i]); h = fnv_str(h, s); free(s); }
  return h;
}

static uint64_t c_bitmap(hwloc_topology_t t)
{
  uint64_t h = FNV0; hwloc_const_bitmap_t a = hwloc_topology_get_allowed_cpuset(t), c = hwloc_topology_get_complete_cpuset(t);
  hwloc_obj_t o = NULL; char buf[256]; int i;
  h = fnv_u64(h, (uint64_t)hwloc_bitmap_weight(a)); h = fnv_u64(h, (uint64_t)hwloc_bitmap_first(a)); h = fnv_u64(h, (uint64_t)hwloc_bitmap_last(a));
  h = fnv_u64(h, (uint64_t)hwloc_bitmap_isincluded(a, c)); h = fnv_u64(h, (uint64_t)hwloc_bitmap_intersects(a, c)); h = fnv_u64(h, (uint64_t)hwloc_bitmap_compare(a, c));
  h = fnv_u64(h, (uint64_t)hwloc_bitmap_isequal(a, c)); h = fnv_u64(h, (uint64_t)hwloc_bitmap_iszero(a)); h = fnv_u64(h, (uint64_t)hwloc_bitmap_isfull(a));
  hwloc_bitmap_foreach_begin(i, a) h = fnv_u64(h, (uint64_t)i); hwloc_bitmap_foreach_end();
  while ((o = hwloc_get_next_obj_by_type(t, HWLOC_OBJ_CORE, o)) != NULL) {
    hwloc_bitmap_snprintf(buf, sizeof(buf), o->cpuset); h = fnv_str(h, buf);
    hwloc_bitmap_list_snprintf(buf, sizeof(buf), o->cpuset); h = fnv_str(h, buf);
    h = fnv_u64(h, (uint64_t)hwloc_bitmap_next(o->cpuset, hwloc_bitmap_first(o->cpuset)));
    h = fnv_u64(h, hwloc_bitmap_to_ulong(o->cpuset));
    h = fnv_u64(h, (uint64_t)hwloc_bitmap_compare_inclusion(o->cpuset, a));
  }
  return h;
}

static uint64_t c_exportxml(hwloc_topology_t t)
{
  char *buf = NULL; int len = 0; uint64_t h = FNV0;
  int rc = hwloc_topology_export_xmlbuffer(t, &buf, &len, 0);
  h = fnv_u64(h, (uint64_t)rc);
  if (!rc) { h = fnv(h, buf, (size_t)len); hwloc_free_xmlbuffer(t, buf); }
  return h;
}

static uint64_t c_exportsynth(hwloc_topology_t t)
{
  char buf[4096]; uint64_t h = FNV0; int rc;
  rc = hwloc_topology_export_synthetic(t, buf, sizeof(buf), 0); h = fnv_u64(h, (uint64_t)(rc < 0 ? -1 : rc)); if (rc >= 0) h = fnv_str(h, buf);
  rc = hwloc_topology_export_synthetic(t, buf, sizeof(buf), HWLOC_TOPOLOGY_EXPORT_SYNTHETIC_FLAG_NO_ATTRS | HWLOC_TOPOLOGY_EXPORT_SYNTHETIC_FLAG_IGNORE_MEMORY);
  h = fnv_u64(h, (uint64_t)(rc < 0 ? -1 : rc)); if (rc >= 0) h = fnv_str(h, buf);
  return h;
}

/* hwloc_topology_get_default_nodeset: flags must be 0; every other value is EINVAL */
static uint64_t c_defaultnodeset(hwloc_topology_t t)
{
  static const unsigned long fl[] = { 0, 1, 2, 0x80000000ul, ~0ul };
  uint64_t h = FNV0; unsigned k; hwloc_bitmap_t ns = hwloc_bitmap_alloc();
  for (k = 0; k < sizeof(fl) / sizeof(fl[0]); k++) {
    char *s = NULL; int rc; errno = 0;
    rc = hwloc_topology_get_default_nodeset(t, ns, fl[k]);
    h = fnv_u64(h, (uint64_t)rc); h = fnv_str(h, hwv_errno_name(rc ? errno : 0));
    if (!rc) { hwloc_bitmap_asprintf(&s, ns); h = fnv_str(h, s); free(s); }
  }
  hwloc_bitmap_free(ns);
  return h;
}

/* the consulting helpers of hwloc/helper.h, inlines.h, hwloc.h not exercised by the other calls */
static uint64_t c_helpers(hwloc_topology_t t)
{
  uint64_t h = FNV0; hwloc_obj_t root = hwloc_get_root_obj(t), o = NULL, objs[64]; unsigned n = 0, i; int d;
  hwloc_bitmap_t ns = hwloc_bitmap_alloc(), cs = hwloc_bitmap_alloc(); char *s = NULL;
  struct hwloc_infos_s *infos = hwloc_topology_get_infos(t);
#define HO(x) do { hwloc_obj_t _o = (x); h = fnv_u64(h, _o ? _o->gp_index : (uint64_t)-1); } while (0)
  h = fnv_u64(h, (uint64_t)hwloc_topology_abi_check(t)); h = fnv_u64(h, (uintptr_t)hwloc_topology_get_userdata(t));
  h = fnv_u64(h, hwloc_topology_get_support(t)->discovery->pu); h = fnv_u64(h, hwloc_get_api_version());
  for (i = 0; infos && i < infos->count; i++) { h = fnv_str(h, infos->array[i].name); h = fnv_str(h, infos->array[i].value); }
  h = fnv_str(h, hwloc_get_info_by_name(infos, "Backend")); h = fnv_str(h, hwloc_obj_get_info_by_name(root, "Backend"));
  hwloc_cpuset_to_nodeset(t, root->cpuset, ns); hwloc_bitmap_asprintf(&s, ns); h = fnv_str(h, s); free(s);
  hwloc_cpuset_from_nodeset(t, cs, root->nodeset); hwloc_bitmap_asprintf(&s, cs); h = fnv_str(h, s); free(s);
  hwloc_bitmap_list_asprintf(&s, root->cpuset); h = fnv_str(h, s); free(s);
  h = fnv_u64(h, (uint64_t)hwloc_bitmap_compare_first(root->cpuset, root->complete_cpuset)); h = fnv_u64(h, (uint64_t)hwloc_bitmap_first_unset(root->cpuset));
  h = fnv_u64(h, (uint64_t)hwloc_bitmap_next_unset(root->cpuset, 0)); h = fnv_u64(h, (uint64_t)hwloc_bitmap_nr_ulongs(root->cpuset));
  { unsigned long w[4] = {0, 0, 0, 0}; hwloc_bitmap_to_ulongs(root->cpuset, 4, w); h = fnv(h, w, sizeof(w)); }
  for (d = 0; d < HWLOC_OBJ_TYPE_MAX; d++) {
    hwloc_obj_type_t ty = (hwloc_obj_type_t)d;
    h = fnv_u64(h, (uint64_t)hwloc_get_type_or_above_depth(t, ty)); h = fnv_u64(h, (uint64_t)hwloc_get_type_or_below_depth(t, ty));
    h = fnv_u64(h, (uint64_t)(hwloc_obj_type_is_normal(ty) | hwloc_obj_type_is_io(ty) << 1 | hwloc_obj_type_is_memory(ty) << 2 | hwloc_obj_type_is_cache(ty) << 3 | hwloc_obj_type_is_dcache(ty) << 4 | hwloc_obj_type_is_icache(ty) << 5));
    h = fnv_u64(h, (uint64_t)hwloc_compare_types(ty, HWLOC_OBJ_CORE));
    h = fnv_u64(h, (uint64_t)hwloc_get_nbobjs_inside_cpuset_by_depth(t, root->cpuset, hwloc_get_type_depth(t, ty) >= 0 ? hwloc_get_type_depth(t, ty) : 0));
  }
  h = fnv_u64(h, (uint64_t)hwloc_get_cache_type_depth(t, 2, HWLOC_OBJ_CACHE_UNIFIED)); h = fnv_u64(h, (uint64_t)hwloc_get_cache_type_depth(t, 1, HWLOC_OBJ_CACHE_DATA));
  while ((o = hwloc_get_next_obj_by_type(t, HWLOC_OBJ_PU, o)) != NULL && n++ < 32) {
    hwloc_obj_t c = NULL; unsigned k;
    HO(hwloc_get_obj_covering_cpuset(t, o->cpuset)); HO(hwloc_get_cache_covering_cpuset(t, o->cpuset)); HO(hwloc_get_shared_cache_covering_obj(t, o));
    HO(hwloc_get_child_covering_cpuset(t, o->cpuset, root)); HO(hwloc_get_first_largest_obj_inside_cpuset(t, o->parent->cpuset));
    HO(hwloc_get_ancestor_obj_by_depth(t, 0, o)); HO(hwloc_get_next_obj_by_depth(t, (int)o->depth, o));
    HO(hwloc_get_next_obj_covering_cpuset_by_type(t, o->cpuset, HWLOC_OBJ_CORE, NULL)); HO(hwloc_get_next_obj_covering_cpuset_by_depth(t, o->cpuset, 0, NULL));
    HO(hwloc_get_next_obj_inside_cpuset_by_type(t, root->cpuset, HWLOC_OBJ_PU, o)); HO(hwloc_get_next_obj_inside_cpuset_by_depth(t, root->cpuset, (int)o->depth, o));
    HO(hwloc_get_obj_inside_cpuset_by_type(t, o->parent->cpuset, HWLOC_OBJ_PU, 0)); HO(hwloc_get_obj_inside_cpuset_by_depth(t, o->parent->cpuset, (int)o->depth, 0));
    h = fnv_u64(h, (uint64_t)hwloc_get_obj_index_inside_cpuset(t, o->parent->cpuset, o)); h = fnv_u64(h, (uint64_t)hwloc_obj_is_in_subtree(t, o, o->parent));
    HO(hwloc_get_obj_below_by_type(t, HWLOC_OBJ_MACHINE, 0, HWLOC_OBJ_PU, o->logical_index));
    HO(hwloc_get_obj_with_same_locality(t, o, HWLOC_OBJ_PU, NULL, NULL, 0));
    k = hwloc_get_closest_objs(t, o, objs, 8); h = fnv_u64(h, k); for (i = 0; i < k; i++) HO(objs[i]);
    while ((c = hwloc_get_next_child(t, o->parent, c)) != NULL) HO(c);
  }
  { int k = hwloc_get_largest_objs_inside_cpuset(t, root->cpuset, objs, 64); h = fnv_u64(h, (uint64_t)k); for (i = 0; k > 0 && i < (unsigned)k; i++) HO(objs[i]); }
  { hwloc_obj_type_t tv[2] = { HWLOC_OBJ_PACKAGE, HWLOC_OBJ_PU }; unsigned iv[2] = { 0, 1 }; HO(hwloc_get_obj_below_array_by_type(t, 2, tv, iv)); }
  if (!hwloc_bitmap_iszero(root->cpuset)) {
    hwloc_cpuset_t sets[5]; hwloc_obj_t r = root;
    if (hwloc_distrib(t, &r, 1, sets, 5, INT_MAX, 0) == 0) for (i = 0; i < 5; i++) { hwloc_bitmap_asprintf(&s, sets[i]); h = fnv_str(h, s); free(s); hwloc_bitmap_free(sets[i]); }
    if (hwloc_distrib(t, &r, 1, sets, 3, INT_MAX, HWLOC_DISTRIB_FLAG_REVERSE) == 0) for (i = 0; i < 3; i++) { hwloc_bitmap_asprintf(&s, sets[i]); h = fnv_str(h, s); free(s); hwloc_bitmap_free(sets[i]); }
  }
  o = NULL; while ((o = hwloc_get_next_pcidev(t, o)) != NULL) { HO(o); HO(hwloc_get_pcidev_by_busid(t, o->attr->pcidev.domain, o->attr->pcidev.bus, o->attr->pcidev.dev, o->attr->pcidev.func)); HO(hwloc_get_non_io_ancestor_obj(t, o)); }
  o = NULL; while ((o = hwloc_get_next_osdev(t, o)) != NULL) HO(o);
  o = NULL; while ((o = hwloc_get_next_bridge(t, o)) != NULL) HO(o);
  HO(hwloc_get_pcidev_by_busidstring(t, "0000:00:00.0"));
#undef HO
  hwloc_bitmap_free(ns); hwloc_bitmap_free(cs);
  return h;
}

/* the condition under which hwloc__export_synthetic_memory_children goes through its `static int warned`:
 * HWLOC_SYNTHETIC_VERBOSE set and a non-NUMA memory object with several memory children below a memory child */
static int synth_warns(hwloc_topology_t t)
{
  const char *env = getenv("HWLOC_SYNTHETIC_VERBOSE"); hwloc_obj_t o = NULL;
  if (!env || !atoi(env)) return 0;
  while ((o = hwloc_get_next_obj_by_type(t, HWLOC_OBJ_MEMCACHE, o)) != NULL) if (o->memory_arity > 1) return 1;
  return 0;
}

/* hwloc_shmem_topology_adopt on a good file and on every way C19 corrupts one.  The file is produced here by
 * hwloc_shmem_topology_write from a private scratch topology (an independent topology of this thread, destroyed at the end).
 * variants: good | abi (valid header, foreign ABI word in the stored topology) | version | hlength | length | addr (header
 * address != requested) | busy (requested range already mapped) | nonshmem (not a shmem file) | trunc (shorter than a header) */
/* mirror of the file header of hwloc/shmem.c (private to that file); the offset of the stored topology is taken from
 * the header the library itself wrote, so a layout change shows up as 'adopt-setup-failed' / a good adopt failing */
struct hwv_shmem_header { uint32_t header_version, header_length; uint64_t mmap_address, mmap_length; };
static pthread_mutex_t shm_lock = PTHREAD_MUTEX_INITIALIZER;   /* the address range is a process-wide resource the application coordinates */
static int do_adopt_once(const char *variant, unsigned ti, hwloc_topology_t scratch, int fd)
{
  hwloc_topology_t adopted = NULL; size_t len = 8u << 20; int tries, rc = -1, e = 0; void *addr = MAP_FAILED, *blocker = MAP_FAILED;
  struct hwv_shmem_header hd; uint32_t hlen;
  (void)ti;
  if (ftruncate(fd, 0) < 0) { errno = EIO; return -2; }
  for (tries = 0; tries < 8; tries++) {
    addr = mmap(NULL, len, PROT_NONE, MAP_PRIVATE | MAP_ANONYMOUS, -1, 0);
    if (addr == MAP_FAILED) break;
    munmap(addr, len); errno = 0;
    rc = hwloc_shmem_topology_write(scratch, fd, 0, addr, len, 0);
    if (!(rc < 0 && errno == EBUSY)) break;
  }
  if (rc < 0) { if (!errno) errno = EIO; return -2; }
  if (pread(fd, &hd, sizeof(hd), 0) != (ssize_t)sizeof(hd)) { errno = EIO; return -2; }
  hlen = hd.header_length;
  if (!strcmp(variant, "abi")) { unsigned abi = HWLOC_TOPOLOGY_ABI ^ 0x10100; if (pwrite(fd, &abi, sizeof(abi), hlen + offsetof(struct hwloc_topology, topology_abi)) != (ssize_t)sizeof(abi)) e = EIO; }
  else if (!strcmp(variant, "version")) { hd.header_version++; if (pwrite(fd, &hd, sizeof(hd), 0) < 0) e = EIO; }
  else if (!strcmp(variant, "hlength")) { hd.header_length += 8; if (pwrite(fd, &hd, sizeof(hd), 0) < 0) e = EIO; }
  else if (!strcmp(variant, "length")) { hd.mmap_length += 4096; if (pwrite(fd, &hd, sizeof(hd), 0) < 0) e = EIO; }
  else if (!strcmp(variant, "addr")) { hd.mmap_address += 4096; if (pwrite(fd, &hd, sizeof(hd), 0) < 0) e = EIO; }
  else if (!strcmp(variant, "nonshmem")) { char junk[256]; memset(junk, 'x', sizeof(junk)); if (ftruncate(fd, 0) < 0 || pwrite(fd, junk, sizeof(junk), 0) < 0) e = EIO; }
  else if (!strcmp(variant, "trunc")) { if (ftruncate(fd, 10) < 0) e = EIO; }
  else if (!strcmp(variant, "busy")) { blocker = mmap(addr, len, PROT_NONE, MAP_PRIVATE | MAP_ANONYMOUS | MAP_FIXED, -1, 0); }
  if (e) { errno = e; return -2; }
  errno = 0;
  rc = hwloc_shmem_topology_adopt(&adopted, fd, 0, addr, len, 0);
  e = rc < 0 ? errno : 0;
  if (!rc) hwloc_topology_destroy(adopted);
  if (blocker != MAP_FAILED) munmap(blocker, len);
  errno = e;
  return rc;
}

static int do_adopt(const char *variant, unsigned ti)
{
  hwloc_topology_t scratch = NULL; char path[64]; int fd, rc = -1, e = 0, tries;
  snprintf(path, sizeof(path), "/tmp/hwv-mt-adopt-%d-%u", (int)getpid(), ti);
  fd = open(path, O_CREAT | O_RDWR | O_TRUNC, 0600);
  if (fd < 0) { errno = EIO; return -2; }
  if (hwloc_topology_init(&scratch) < 0 || hwloc_topology_set_synthetic(scratch, "pack:2 pu:2") < 0 || hwloc_topology_load(scratch) < 0) {
    /* the scratch topology is an ordinary independent topology of this thread: if IT cannot be created the registry is
     * broken, which is a result (it differs from the run alone), not a set-up problem */
    e = errno ? errno : EIO; if (scratch) hwloc_topology_destroy(scratch); close(fd); unlink(path); errno = e == EINVAL ? ENOSYS : e; return -1; }
  pthread_mutex_lock(&shm_lock);
  for (tries = 0; tries < 8; tries++) {
    rc = do_adopt_once(variant, ti, scratch, fd); e = errno;
    /* EBUSY = the probed range was taken by another thread's allocation between the write and the adopt: the range is the
     * application's to coordinate, probe again (the `busy` variant expects EBUSY) */
    if (!(rc == -1 && e == EBUSY && strcmp(variant, "busy"))) break;
  }
  pthread_mutex_unlock(&shm_lock);
  hwloc_topology_destroy(scratch); close(fd); unlink(path);
  errno = e;
  return rc;
}

/* ---------------- one command ---------------- */
struct outcome { int rc; uint64_t digest; char oracle[512]; };

static int bind_first_allowed_cpu(void)
{
  cpu_set_t cs; int i;
  if (sched_getaffinity(0, sizeof(cs), &cs) < 0) return -1;
  for (i = 0; i < CPU_SETSIZE; i++) if (CPU_ISSET(i, &cs)) { cpu_set_t one; CPU_ZERO(&one); CPU_SET(i, &one); return sched_setaffinity(0, sizeof(one), &one) < 0 ? -1 : i; }
  return -1;
}

static void run_cmd(char *cmd, struct outcome *out, int verbose)
{
  char kind[32]; unsigned ti; int off = 0; hwloc_topology_t t;
  out->rc = 0; out->digest = FNV0; out->oracle[0] = 0;
  if (!strncmp(cmd, "barrier", 7)) { if (in_threads) pthread_barrier_wait(&opbarrier); out->rc = 1; return; }
  if (!strncmp(cmd, "bindthread ", 11)) {       /* bind the CALLING thread to the n-th CPU of the process' initial affinity mask */
    unsigned n = (unsigned)atoi(cmd + 11), cnt = (unsigned)CPU_COUNT(&initial_mask), k = 0; int c; cpu_set_t one; CPU_ZERO(&one);
    for (c = 0; c < CPU_SETSIZE && cnt; c++) if (CPU_ISSET(c, &initial_mask) && k++ == n % cnt) { CPU_SET(c, &one); break; }
    out->rc = cnt && sched_setaffinity(0, sizeof(one), &one) == 0; out->digest = fnv_u64(FNV0, (uint64_t)out->rc); return;
  }
  if (!strncmp(cmd, "unbind", 6)) { out->rc = sched_setaffinity(0, sizeof(initial_mask), &initial_mask) == 0; return; }
  if (!strncmp(cmd, "showbind", 8)) {           /* the calling thread's binding, as a result of its history */
    cpu_set_t cur; int c; CPU_ZERO(&cur); out->rc = sched_getaffinity(0, sizeof(cur), &cur) == 0; out->digest = FNV0;
    for (c = 0; c < CPU_SETSIZE; c++) if (CPU_ISSET(c, &cur)) out->digest = fnv_u64(out->digest, (uint64_t)c);
    return;
  }
  if (sscanf(cmd, "%31s %u %n", kind, &ti, &off) < 2 || ti >= MAXT) { out->rc = -2; return; }
  cmd += off;
  if (!strcmp(kind, "init")) {
    if (topos[ti]) return;
    out->rc = hwloc_topology_init(&topos[ti]) == 0; value_counter[ti] = 100 * (ti + 1); loaded[ti] = 0;
    return;
  }
  t = topos[ti];
  if (!t) return;
  if (!strcmp(kind, "dupto")) {
    unsigned u = MAXT; sscanf(cmd, "%u", &u);
    if (u >= MAXT || topos[u] || !loaded[ti]) { out->rc = 0; out->digest = fnv_str(FNV0, "dupto-precondition"); return; }
    errno = 0; out->rc = hwloc_topology_dup(&topos[u], t) == 0;
    if (out->rc) { loaded[u] = 1; value_counter[u] = 100 * (u + 1); } else topos[u] = NULL;
    out->digest = fnv_str(FNV0, hwv_errno_name(out->rc ? 0 : errno));
    if (verbose && out->rc) { struct hwloc_internal_distances_s *d; unsigned i; printf(" new_dv=");
      if (!topos[u]->first_dist) putchar('-');
      for (d = topos[u]->first_dist; d; d = d->next) putchar((d->iflags & HWLOC_INTERNAL_DIST_FLAG_OBJS_VALID) ? '1' : '0');
      printf(" new_mv="); if (!topos[u]->nr_memattrs) putchar('-');
      for (i = 0; i < topos[u]->nr_memattrs; i++) putchar((topos[u]->memattrs[i].iflags & HWLOC_IMATTR_FLAG_CACHE_VALID) ? '1' : '0'); }
    return;
  }
  if (!strcmp(kind, "configure")) {
    char src[16]; int o2 = 0, rc;
    if (sscanf(cmd, "%15s %n", src, &o2) < 1 || loaded[ti]) { out->rc = loaded[ti] ? 0 : -2; return; }
    errno = 0; rc = !strcmp(src, "synthetic") ? hwloc_topology_set_synthetic(t, cmd + o2) : hwloc_topology_set_xml(t, cmd + o2);
    out->rc = rc == 0; out->digest = fnv_str(FNV0, hwv_errno_name(rc ? errno : 0)); return;
  }
  if (!strcmp(kind, "err")) {
    char what[32] = ""; int rc = -1; sscanf(cmd, "%31s", what); errno = 0;
    if (!strcmp(what, "shmemlen")) { size_t len = 0; rc = hwloc_shmem_topology_get_length(t, &len, 0); }
    else if (!strcmp(what, "shmemwrite")) {
      /* The target address range is a process-wide resource the APPLICATION has to coordinate: the harness serialises
       * its own probe-and-write sequences, and when another thread's allocation grabs the probed range in between
       * (EBUSY: mapped elsewhere) it probes again - that is not an interference between topologies. */
      size_t len = 8u << 20; char path[64]; int fd, tries; void *addr;
      snprintf(path, sizeof(path), "/tmp/hwv-mt-shmem-%d-%u", (int)getpid(), ti); fd = open(path, O_CREAT | O_RDWR | O_TRUNC, 0600);
      pthread_mutex_lock(&shm_lock);
      for (tries = 0; tries < 8; tries++) {
        addr = mmap(NULL, len, PROT_NONE, MAP_PRIVATE | MAP_ANONYMOUS, -1, 0);       /* probe a free range, then give it back */
        if (fd < 0 || addr == MAP_FAILED) break;
        munmap(addr, len); errno = 0;
        rc = hwloc_shmem_topology_write(t, fd, 0, addr, len, 0);
        if (!(rc < 0 && errno == EBUSY)) break;
      }
      { int e = errno; pthread_mutex_unlock(&shm_lock); if (fd >= 0) { close(fd); unlink(path); } errno = e; }
    }
    else if (!strncmp(what, "adopt", 5)) { rc = do_adopt(what + 5, ti); if (rc == -2) { out->rc = 0; out->digest = fnv_str(FNV0, "adopt-setup-failed"); if (verbose) printf(" errno=setup-%s", hwv_errno_name(errno)); return; } }
    else if (!strcmp(what, "exportxml")) { char path[64]; snprintf(path, sizeof(path), "/tmp/hwv-mt-x-%d-%u.xml", (int)getpid(), ti); rc = hwloc_topology_export_xml(t, path, 0); { int e = errno; unlink(path); errno = e; } }
    else if (!strcmp(what, "exportxmlbuf")) { char *b = NULL; int l = 0; rc = hwloc_topology_export_xmlbuffer(t, &b, &l, 0); if (!rc) hwloc_free_xmlbuffer(t, b); }
    else if (!strcmp(what, "exportsynth")) { char b[1024]; rc = hwloc_topology_export_synthetic(t, b, sizeof(b), 0); if (rc > 0) rc = 0; }
    else if (!strcmp(what, "dup")) { hwloc_topology_t n = NULL; rc = hwloc_topology_dup(&n, t); if (!rc) hwloc_topology_destroy(n); }
    else if (!strcmp(what, "diffbuild")) { hwloc_topology_diff_t d = NULL; rc = hwloc_topology_diff_build(t, t, 0, &d); if (rc >= 0) { hwloc_topology_diff_destroy(d); rc = 0; } }
    else if (!strcmp(what, "diffapply")) { rc = hwloc_topology_diff_apply(t, NULL, 0); }
    else if (!strcmp(what, "setsynthetic")) { if (!loaded[ti]) { out->rc = 0; out->digest = fnv_str(FNV0, "skipped-would-reconfigure"); return; } rc = hwloc_topology_set_synthetic(t, "pu:2"); }
    else if (!strcmp(what, "setxml")) { if (!loaded[ti]) { out->rc = 0; out->digest = fnv_str(FNV0, "skipped-would-reconfigure"); return; } rc = hwloc_topology_set_xml(t, "/nonexistent/file.xml"); }
    else if (!strcmp(what, "setflags")) { if (!loaded[ti]) { out->rc = 0; out->digest = fnv_str(FNV0, "skipped-would-reconfigure"); return; } rc = hwloc_topology_set_flags(t, 0); }
    else if (!strcmp(what, "setfilter")) { if (!loaded[ti]) { out->rc = 0; out->digest = fnv_str(FNV0, "skipped-would-reconfigure"); return; } rc = hwloc_topology_set_all_types_filter(t, HWLOC_TYPE_FILTER_KEEP_ALL); }
    else if (!strcmp(what, "setpid")) { if (!loaded[ti]) { out->rc = 0; out->digest = fnv_str(FNV0, "skipped-would-reconfigure"); return; } rc = hwloc_topology_set_pid(t, getpid()); }
    else if (!strcmp(what, "setcomponents")) { if (!loaded[ti]) { out->rc = 0; out->digest = fnv_str(FNV0, "skipped-would-reconfigure"); return; } rc = hwloc_topology_set_components(t, HWLOC_TOPOLOGY_COMPONENTS_FLAG_BLACKLIST, "x86"); }
    else if (!strcmp(what, "restrict")) { hwloc_bitmap_t s = hwloc_bitmap_alloc(); hwloc_bitmap_set(s, 0); if (loaded[ti]) { hwloc_bitmap_free(s); out->rc = 0; out->digest = fnv_str(FNV0, "skipped-would-modify"); return; } rc = hwloc_topology_restrict(t, s, 0); { int e = errno; hwloc_bitmap_free(s); errno = e; } }
    else if (!strcmp(what, "allow")) { if (loaded[ti]) { out->rc = 0; out->digest = fnv_str(FNV0, "skipped-would-modify"); return; } rc = hwloc_topology_allow(t, NULL, NULL, HWLOC_ALLOW_FLAG_ALL); }
    else if (!strcmp(what, "insertmisc")) { if (loaded[ti]) { out->rc = 0; out->digest = fnv_str(FNV0, "skipped-would-modify"); return; } rc = hwloc_topology_insert_misc_object(t, hwloc_get_root_obj(t), "x") ? 0 : -1; }
    else if (!strcmp(what, "distadd")) { if (loaded[ti]) { out->rc = 0; out->digest = fnv_str(FNV0, "skipped-would-modify"); return; } rc = hwloc_distances_add_create(t, NULL, HWLOC_DISTANCES_KIND_FROM_USER | HWLOC_DISTANCES_KIND_VALUE_LATENCY, 0) ? 0 : -1; }
    else if (!strcmp(what, "distget")) { struct hwloc_distances_s *ds[4]; unsigned nr = 4, i; rc = hwloc_distances_get(t, &nr, ds, 0, 0); if (!rc) for (i = 0; i < nr && i < 4; i++) hwloc_distances_release(t, ds[i]); }
    else if (!strcmp(what, "refresh")) { rc = hwloc_topology_refresh(t); }
    else { out->rc = -2; return; }
    out->rc = rc == 0; out->digest = fnv_str(fnv_str(FNV0, what), hwv_errno_name(rc ? errno : 0));
    if (verbose) printf(" errno=%s", hwv_errno_name(rc ? errno : 0));
    return;
  }
  if (!strcmp(kind, "blacklist")) { errno = 0; out->rc = hwloc_topology_set_components(t, HWLOC_TOPOLOGY_COMPONENTS_FLAG_BLACKLIST, cmd) == 0; out->digest = fnv_str(FNV0, hwv_errno_name(out->rc ? 0 : errno)); return; }
  if (!strcmp(kind, "exportfile")) { out->rc = hwloc_topology_export_xml(t, cmd, 0) == 0; return; }
  if (!strcmp(kind, "filterall")) { out->rc = hwloc_topology_set_all_types_filter(t, HWLOC_TYPE_FILTER_KEEP_ALL) == 0; return; }
  if (!strcmp(kind, "destroy")) { hwloc_topology_destroy(t); topos[ti] = NULL; loaded[ti] = 0; out->rc = 1; return; }
  if ((!strcmp(kind, "mod") || !strcmp(kind, "cons") || !strcmp(kind, "exportfile")) && !loaded[ti]) { out->rc = 0; out->digest = fnv_str(FNV0, "not-loaded"); return; }
  if (!strcmp(kind, "load") && loaded[ti]) { out->rc = 0; out->digest = fnv_str(FNV0, "already-loaded"); return; }
  if (!strcmp(kind, "load")) {
    unsigned long flags = 0; int bind = 0, o2 = 0; char src[16]; int rc; cpu_set_t saved; int have_saved = 0;
    if (sscanf(cmd, "%lu bind=%d %15s %n", &flags, &bind, src, &o2) < 3) { out->rc = -2; return; }
    cmd += o2;
    if (hwloc_topology_set_flags(t, flags) < 0) { out->rc = 0; return; }
    errno = 0;
    if (!strcmp(src, "synthetic")) rc = hwloc_topology_set_synthetic(t, cmd);
    else if (!strcmp(src, "native")) rc = 0;       /* discovery of this machine by the OS (and x86) backends */
    else if (!strcmp(src, "xmlbuf")) {
      FILE *f = fopen(cmd, "rb"); long len; char *buf;
      if (!f) { out->rc = -2; return; }
      fseek(f, 0, SEEK_END); len = ftell(f); fseek(f, 0, SEEK_SET);
      buf = malloc((size_t)len + 1);
      if (fread(buf, 1, (size_t)len, f) != (size_t)len) { fclose(f); free(buf); out->rc = -2; return; }
      buf[len] = 0; fclose(f);
      rc = hwloc_topology_set_xmlbuffer(t, buf, (int)len + 1);
      free(buf);   /* the backend keeps its own copy / parsed tree */
    }
    else rc = hwloc_topology_set_xml(t, cmd);
    if (rc < 0) { out->rc = 0; out->digest = fnv_str(fnv_str(FNV0, "set-source-failed"), hwv_errno_name(errno)); if (verbose) printf(" seterr=%s", hwv_errno_name(errno)); return; }
    errno = 0;
    if (bind) { have_saved = sched_getaffinity(0, sizeof(saved), &saved) == 0; bind_first_allowed_cpu(); }
    rc = hwloc_topology_load(t);
    if (bind && have_saved) sched_setaffinity(0, sizeof(saved), &saved);
    out->rc = rc == 0; loaded[ti] = rc == 0;
    if (rc < 0) { out->digest = fnv_str(fnv_str(FNV0, "load-failed"), hwv_errno_name(errno)); if (verbose) printf(" loaderr=%s", hwv_errno_name(errno)); }
    if (verbose && rc == 0) {
      unsigned long f = hwloc_topology_get_flags(t);
      printf(" nodist=%d nomemattr=%d nocpukinds=%d xml=%d nma=%u npu=%d", !!(f & HWLOC_TOPOLOGY_FLAG_NO_DISTANCES), !!(f & HWLOC_TOPOLOGY_FLAG_NO_MEMATTRS),
             !!(f & HWLOC_TOPOLOGY_FLAG_NO_CPUKINDS), !strncmp(src, "xml", 3), t->nr_memattrs, hwloc_get_nbobjs_by_type(t, HWLOC_OBJ_PU));
      print_dists_nb(t);
      printf(" restricted=%d", bind && hwloc_get_nbobjs_by_type(t, HWLOC_OBJ_PU) == 1);
    }
    return;
  }
  if (!strcmp(kind, "mod")) {
    char what[32]; int o2 = 0;
    if (sscanf(cmd, "%31s %n", what, &o2) < 1) { out->rc = -2; return; }
    cmd += o2;
    if (!strcmp(what, "restrict")) {
      hwloc_bitmap_t set = hwloc_bitmap_alloc(); hwloc_bitmap_sscanf(set, cmd);
      out->rc = hwloc_topology_restrict(t, set, HWLOC_RESTRICT_FLAG_REMOVE_CPULESS) == 0; hwloc_bitmap_free(set);
      if (verbose) print_lives(t);
    } else if (!strcmp(what, "insertmisc")) {
      out->rc = hwloc_topology_insert_misc_object(t, hwloc_get_root_obj(t), "hwv-misc") != NULL;
    } else if (!strcmp(what, "insertgroup")) {
      hwloc_obj_t g = hwloc_topology_alloc_group_object(t), pu0 = hwloc_get_obj_by_type(t, HWLOC_OBJ_PU, 0), pu1 = hwloc_get_obj_by_type(t, HWLOC_OBJ_PU, 1);
      if (g && pu0 && pu1) { hwloc_obj_add_other_obj_sets(g, pu0); hwloc_obj_add_other_obj_sets(g, pu1); out->rc = hwloc_topology_insert_group_object(t, g) != NULL; }
      else if (g) { hwloc_topology_free_group_object(t, g); out->rc = 0; }
    } else if (!strcmp(what, "allow")) {
      out->rc = hwloc_topology_allow(t, NULL, NULL, HWLOC_ALLOW_FLAG_ALL) == 0;
    } else if (!strcmp(what, "distadd")) {
      hwloc_obj_type_t type = HWLOC_OBJ_PU; char tname[32] = ""; unsigned n = 0, i, j; hwloc_obj_t objs[64]; hwloc_uint64_t vals[64 * 64]; hwloc_distances_add_handle_t hd;
      sscanf(cmd, "%31s %u", tname, &n); if (n > 64) n = 64;
      if (hwloc_type_sscanf(tname, &type, NULL, 0) < 0) n = 0;
      for (i = 0; i < n; i++) { objs[i] = hwloc_get_obj_by_type(t, type, i); if (!objs[i]) { n = i; break; } }
      for (i = 0; i < n; i++) for (j = 0; j < n; j++) vals[i * n + j] = i == j ? 10 : 20 + i + j;
      out->rc = 0;
      if (n >= 2 && (hd = hwloc_distances_add_create(t, NULL, HWLOC_DISTANCES_KIND_FROM_USER | HWLOC_DISTANCES_KIND_VALUE_LATENCY, 0)) != NULL) {
        if (hwloc_distances_add_values(t, hd, n, objs, vals, 0) == 0 && hwloc_distances_add_commit(t, hd, 0) == 0) out->rc = 1;
      }
      if (verbose) printf(" nb=%u", n);
    } else if (!strcmp(what, "distremove")) {
      out->rc = hwloc_distances_remove(t) == 0;
    } else if (!strcmp(what, "maregister")) {
      char name[64]; hwloc_memattr_id_t id; snprintf(name, sizeof(name), "hwv-attr-%u", t->nr_memattrs);
      out->rc = hwloc_memattr_register(t, name, HWLOC_MEMATTR_FLAG_HIGHER_FIRST, &id) == 0;
    } else if (!strcmp(what, "maset")) {
      unsigned a = 0, ni = 0, j; hwloc_obj_t node; unsigned long fl = 0; struct hwloc_location loc; int isnew = 1, conv = 0;
      sscanf(cmd, "%u %u", &a, &ni); node = hwloc_get_obj_by_type(t, HWLOC_OBJ_NUMANODE, ni);
      if (!node || a >= t->nr_memattrs) { out->rc = 0; if (verbose) printf(" new=0 skip=1"); return; }
      conv = !!(t->memattrs[a].iflags & HWLOC_IMATTR_FLAG_CONVENIENCE);
      /* refresh-then-lookup in the C code: a target counts as existing if it is in the array after the refresh would have dropped dead ones */
      hwloc_memattr_get_flags(t, a, &fl);
      loc.type = HWLOC_LOCATION_TYPE_CPUSET; loc.location.cpuset = hwloc_bitmap_iszero(node->cpuset) ? hwloc_get_root_obj(t)->cpuset : node->cpuset;
      /* "new" = the call adds a target, or (since /repo c3717fc) an initiator to an existing target: both clear CACHE_VALID.
       * Same matching rules as hwloc__memattr_get_target / match_internal_location. */
      for (j = 0; j < t->memattrs[a].nr_targets; j++) if (t->memattrs[a].targets[j].type == HWLOC_OBJ_NUMANODE && (t->memattrs[a].targets[j].gp_index == node->gp_index || t->memattrs[a].targets[j].os_index == node->os_index)) {
        struct hwloc_internal_memattr_target_s *g = &t->memattrs[a].targets[j]; unsigned k;
        isnew = 0;
        if (fl & HWLOC_MEMATTR_FLAG_NEED_INITIATOR) {
          isnew = 1;
          for (k = 0; k < g->nr_initiators; k++) if (g->initiators[k].initiator.type == HWLOC_LOCATION_TYPE_CPUSET && hwloc_bitmap_isincluded(loc.location.cpuset, g->initiators[k].initiator.location.cpuset)) isnew = 0;
        }
        break;
      }
      out->rc = hwloc_memattr_set_value(t, a, node, (fl & HWLOC_MEMATTR_FLAG_NEED_INITIATOR) ? &loc : NULL, 0, ++value_counter[ti]) == 0;
      if (verbose) printf(" new=%d skip=0", conv ? 0 : isnew);
    } else if (!strcmp(what, "refresh")) {
      out->rc = hwloc_topology_refresh(t) == 0;
    } else if (!strcmp(what, "infos")) {
      char target[32] = "", op[16] = "", name[64] = "", value[128] = ""; struct hwloc_infos_s *infos = NULL; int r; unsigned idx = 0;
      sscanf(cmd, "%31s %15s %63s %127s", target, op, name, value);
      if (!strcmp(target, "topo")) infos = hwloc_topology_get_infos(t);
      else if (!strcmp(target, "root")) infos = &hwloc_get_root_obj(t)->infos;
      else if (sscanf(target, "pu%u", &idx) == 1) { hwloc_obj_t o = hwloc_get_obj_by_type(t, HWLOC_OBJ_PU, idx); infos = o ? &o->infos : NULL; }
      else if (sscanf(target, "numa%u", &idx) == 1) { hwloc_obj_t o = hwloc_get_obj_by_type(t, HWLOC_OBJ_NUMANODE, idx); infos = o ? &o->infos : NULL; }
      else if (sscanf(target, "kind%u", &idx) == 1) { if (hwloc_cpukinds_get_info(t, idx, NULL, NULL, &infos, 0) < 0) infos = NULL; }
      if (!infos) { out->rc = 0; out->digest = fnv_str(FNV0, "no-such-infos"); return; }
      errno = 0;
      if (!strcmp(op, "clear")) r = hwloc_modify_infos(infos, HWLOC_MODIFY_INFOS_OP_REMOVE, NULL, NULL);
      else if (!strcmp(op, "add")) r = hwloc_modify_infos(infos, HWLOC_MODIFY_INFOS_OP_ADD, name, value);
      else if (!strcmp(op, "replace")) r = hwloc_modify_infos(infos, HWLOC_MODIFY_INFOS_OP_REPLACE, name, value);
      else { out->rc = -2; return; }
      out->rc = r >= 0; out->digest = fnv_u64(fnv_u64(FNV0, (uint64_t)r), infos->count);
    } else if (!strcmp(what, "cpukind")) {
      char set[64] = "", name[64] = "", value[128] = ""; struct hwloc_info_s info; struct hwloc_infos_s infos; hwloc_bitmap_t b = hwloc_bitmap_alloc();
      sscanf(cmd, "%63s %63s %127s", set, name, value); hwloc_bitmap_sscanf(b, set);
      info.name = name; info.value = value; infos.array = &info; infos.count = 1; infos.allocated = 1;
      errno = 0; out->rc = hwloc_cpukinds_register(t, b, HWLOC_CPUKIND_EFFICIENCY_UNKNOWN, &infos, 0) == 0; hwloc_bitmap_free(b);
      out->digest = fnv_str(FNV0, hwv_errno_name(out->rc ? 0 : errno));
    } else out->rc = -2;
    return;
  }
  if (!strcmp(kind, "cons")) {
    char what[32]; unsigned q = 0, a = 0;
    if (sscanf(cmd, "%31s %u %u", what, &q, &a) < 1) { out->rc = -2; return; }
    out->rc = 1;
    if (!strcmp(what, "traverse")) out->digest = c_traverse(t);
    else if (!strcmp(what, "typeprint")) out->digest = c_typeprint(t);
    else if (!strcmp(what, "distget")) out->digest = c_distget(t, 0);
    else if (!strcmp(what, "distrelease")) out->digest = c_distget(t, 1);
    else if (!strcmp(what, "mameta")) out->digest = c_mameta(t);
    else if (!strcmp(what, "maget")) out->digest = c_maget(t, (int)q, a);
    else if (!strcmp(what, "localnodes")) out->digest = c_localnodes(t);
    else if (!strcmp(what, "cpukinds")) out->digest = c_cpukinds(t);
    else if (!strcmp(what, "sets")) out->digest = c_sets(t);
    else if (!strcmp(what, "bitmap")) out->digest = c_bitmap(t);
    else if (!strcmp(what, "exportxml")) out->digest = c_exportxml(t);
    else if (!strcmp(what, "exportsynth")) out->digest = c_exportsynth(t);
    else if (!strcmp(what, "defaultnodeset")) out->digest = c_defaultnodeset(t);
    else if (!strcmp(what, "helpers")) out->digest = c_helpers(t);
    else out->rc = -2;
    return;
  }
  out->rc = -2;
}

/* ---------------- threads ---------------- */
static char *progs[MAXTH][MAXPROG]; static unsigned proglen[MAXTH]; static unsigned nthreads;
static uint64_t tdigest[MAXTH]; static int tbad[MAXTH];
static uint32_t topd[MAXTH][MAXPROG];   /* per-call (rc, digest) hashes of the concurrent run, to locate the first differing call */
static pthread_barrier_t barrier;

static uint64_t run_program(unsigned i, int *bad, uint32_t *perop)
{
  uint64_t h = FNV0; unsigned k;
  for (k = 0; k < proglen[i]; k++) {
    struct outcome oc; char *copy = strdup(progs[i][k]); uint64_t o;
    run_cmd(copy, &oc, 0); free(copy);
    if (oc.rc == -2) *bad = 1;
    h = fnv_u64(h, (uint64_t)oc.rc); h = fnv_u64(h, oc.digest);
    o = fnv_u64(fnv_u64(FNV0, (uint64_t)oc.rc), oc.digest);
    if (perop) perop[k] = (uint32_t)(o ^ (o >> 32)) & 0xfffffff0u | (uint32_t)(oc.rc & 0xf);
  }
  return h;
}

static void *thread_main(void *arg)
{
  unsigned i = (unsigned)(uintptr_t)arg;
  pthread_barrier_wait(&barrier);
  tdigest[i] = run_program(i, &tbad[i], topd[i]);
  return NULL;
}

int main(void)
{
  char line[8192]; unsigned lineno = 0, i;
  setvbuf(stdout, NULL, _IOLBF, 0);
  CPU_ZERO(&initial_mask); sched_getaffinity(0, sizeof(initial_mask), &initial_mask);
  while (fgets(line, sizeof(line), stdin)) {
    size_t n = strlen(line);
    while (n && (line[n-1] == '\n' || line[n-1] == '\r')) line[--n] = 0;
    lineno++;
    if (!n || line[0] == '#') continue;
    if (!strncmp(line, "env ", 4)) {
      char *name = line + 4, *sp = strchr(name, ' ');
      if (sp) { *sp = 0; setenv(name, sp + 1, 1); } else unsetenv(name);
      continue;
    }
    if (!strncmp(line, "threads ", 8)) {
      nthreads = (unsigned)atoi(line + 8); if (nthreads > MAXTH) nthreads = MAXTH;
      for (i = 0; i < MAXTH; i++) { unsigned k; for (k = 0; k < proglen[i]; k++) free(progs[i][k]); proglen[i] = 0; tbad[i] = 0; }
      continue;
    }
    if (!strncmp(line, "prog ", 5)) {
      unsigned ti; int off = 0;
      if (sscanf(line + 5, "%u %n", &ti, &off) >= 1 && ti < nthreads && proglen[ti] < MAXPROG) progs[ti][proglen[ti]++] = strdup(line + 5 + off);
      continue;
    }
    if (!strcmp(line, "run inline")) {     /* thread 0's program run by the main thread itself: a really single-threaded process */
      int bad = 0; unsigned q; uint64_t d = run_program(0, &bad, topd[0]);
      printf("R %u threads=0 cache_chg=0 tree_chg=0\n", lineno);
      printf("T 0 digest=%016llx ref=%016llx eq=1 bad=%d ops=", (unsigned long long)d, (unsigned long long)d, bad);
      for (q = 0; q < proglen[0]; q++) printf("%s%08x", q ? "," : "", topd[0][q]);
      printf("\n");
      continue;
    }
    if (!strcmp(line, "run") || !strcmp(line, "run noref")) {
      pthread_t th[MAXTH]; uint64_t before[MAXT], after[MAXT], tb[MAXT]; unsigned k; int chg = 0, tchg = 0, noref = !strcmp(line, "run noref");
      for (k = 0; k < MAXT; k++) { before[k] = topos[k] ? cache_digest(topos[k]) : 0; tb[k] = topos[k] && loaded[k] ? tree_digest(topos[k]) : 0; }
      pthread_barrier_init(&barrier, NULL, nthreads); pthread_barrier_init(&opbarrier, NULL, nthreads); in_threads = 1;
      for (i = 0; i < nthreads; i++) pthread_create(&th[i], NULL, thread_main, (void *)(uintptr_t)i);
      for (i = 0; i < nthreads; i++) pthread_join(th[i], NULL);
      pthread_barrier_destroy(&barrier); pthread_barrier_destroy(&opbarrier); in_threads = 0;
      for (k = 0; k < MAXT; k++) { after[k] = topos[k] ? cache_digest(topos[k]) : 0; if (after[k] != before[k]) chg = 1;
        if (tb[k] && topos[k] && loaded[k] && tb[k] != tree_digest(topos[k])) tchg = 1; }
      printf("R %u threads=%u cache_chg=%d tree_chg=%d\n", lineno, nthreads, chg, tchg);
      for (i = 0; i < nthreads; i++) {
        /* the sequential reference: the same program run alone, afterwards, by the main thread */
        int bad = 0; uint64_t ref = noref ? tdigest[i] : run_program(i, &bad, NULL); unsigned q;
        printf("T %u digest=%016llx ref=%016llx eq=%d bad=%d ops=", i, (unsigned long long)tdigest[i], (unsigned long long)ref, tdigest[i] == ref, bad | tbad[i]);
        for (q = 0; q < proglen[i]; q++) printf("%s%08x", q ? "," : "", topd[i][q]);
        printf("\n");
      }
      continue;
    }
    {
      struct outcome oc; unsigned ti = 0; uint64_t before = 0, after = 0, tbefore = 0; char kind[32]; char *copy = strdup(line); int iscons;
      sscanf(line, "%31s %u", kind, &ti); iscons = !strcmp(kind, "cons");
      if (ti < MAXT && topos[ti] && strcmp(kind, "destroy")) before = cache_digest(topos[ti]);
      if (iscons && ti < MAXT && topos[ti] && loaded[ti]) tbefore = tree_digest(topos[ti]);
      printf("S %u %s", lineno, line);
      run_cmd(copy, &oc, 1); free(copy);
      printf(" rc=%d", oc.rc);
      if (ti < MAXT && topos[ti]) { after = cache_digest(topos[ti]); print_flags(topos[ti]); printf(" chg=%d", before != after); }
      else printf(" nd=0 dv=- mv=- chg=0");
      if (iscons && ti < MAXT && topos[ti] && loaded[ti]) printf(" tree=%d", tbefore != tree_digest(topos[ti]));
      if (!strcmp(kind, "cons")) printf(" digest=%016llx", (unsigned long long)oc.digest);
      if (!strcmp(kind, "cons") && strstr(line, " exportsynth") && ti < MAXT && topos[ti]) printf(" warns=%d", synth_warns(topos[ti]));
      printf("\n");
    }
  }
  for (i = 0; i < MAXT; i++) if (topos[i]) hwloc_topology_destroy(topos[i]);
  return 0;
}
