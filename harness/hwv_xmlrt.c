/* C05 harness: XML export -> import round trip on the REAL library.
 *
 * The XML backends are chosen once per process (static 'checked' caches read
 * from HWLOC_LIBXML_EXPORT / HWLOC_LIBXML_IMPORT): the caller starts one
 * process per backend pairing with these variables in the environment.
 *
 * stdin: a sequence of cases
 *   case <name>
 *   <configuration lines of hwv_load.h: filter / flags / env / src ...>
 *   load
 *   ann <op> ...                  annotation of the loaded topology (see do_ann)
 *   rt <buffer|file:PATH> <v3|v2> export, reload (same flags, all types kept), dump both, export again
 *   end
 * Every case runs in a forked child: a crash / sanitizer report is an
 * observation ("X sig=11" / "X exit=97").
 *
 * stdout per rt:
 *   RT mode=.. ver=..
 *   A|<dump line>  AX|<extras line>  M..|<model input lines>   original
 *   X1 rc= errno= len= hex=<exported bytes>
 *   UE ...                            userdata export transcript (what the callback asked for, and rc)
 *   reload rc= errno=
 *   UI ...                            userdata import callback transcript
 *   B|<dump line>  BX|<extras line>   reloaded
 *   X2 rc= len= same=<0|1> [hex=...]  second export (of the reloaded topology)
 *   ENDRT
 */
#define _GNU_SOURCE
#include "private/autogen/config.h"
#include "hwloc.h"
#include "private/private.h"
#include "hwloc/diff.h"
#include "hwv_dump.h"
#include "hwv_load.h"
#include <unistd.h>
#include <signal.h>
#include <sys/wait.h>
#include <fcntl.h>

/* ---------- small helpers ---------- */
static void hx(FILE *f, const char *s)
{
  if (!s) { fputc('-', f); return; }
  fputc('s', f);
  for (; *s; s++) fprintf(f, "%02x", (unsigned char)*s);
}
static void hxn(FILE *f, const void *p, size_t n)
{
  size_t i;
  fputc('s', f);
  for (i = 0; i < n; i++) fprintf(f, "%02x", ((const unsigned char *)p)[i]);
}
/* "s<hex>" -> malloc'ed bytes (NUL terminated), length in *np; "-" -> NULL */
static char *unhx(const char *s, size_t *np)
{
  size_t n, i; char *r;
  if (np) *np = 0;
  if (!s || s[0] != 's') return NULL;
  s++; n = strlen(s) / 2; r = malloc(n + 1);
  for (i = 0; i < n; i++) { unsigned v = 0; sscanf(s + 2 * i, "%2x", &v); r[i] = (char)v; }
  r[n] = 0;
  if (np) *np = n;
  return r;
}

/* ---------- userdata ---------- */
struct uditem { int b64; char *name; unsigned char *buf; size_t len; int rc; int err; };
struct udlist { unsigned n; struct uditem *items; };
static unsigned ud_export_calls;

/* side table of what A exported successfully, so that the reloaded topology re-exports with the same encoding */
struct udrec { unsigned long long gp; unsigned ord; int b64; };
static struct udrec *udrecs; static unsigned nudrecs, capudrecs;
static void udrec_add(unsigned long long gp, unsigned ord, int b64)
{
  unsigned i;
  for (i = 0; i < nudrecs; i++) if (udrecs[i].gp == gp && udrecs[i].ord == ord) { udrecs[i].b64 = b64; return; }
  if (nudrecs == capudrecs) { capudrecs = capudrecs ? 2 * capudrecs : 64; udrecs = realloc(udrecs, capudrecs * sizeof(*udrecs)); }
  udrecs[nudrecs].gp = gp; udrecs[nudrecs].ord = ord; udrecs[nudrecs].b64 = b64; nudrecs++;
}
static int udrec_get(unsigned long long gp, unsigned ord)
{
  unsigned i;
  for (i = 0; i < nudrecs; i++) if (udrecs[i].gp == gp && udrecs[i].ord == ord) return udrecs[i].b64;
  return -1;
}

static struct udlist **udreg; static unsigned nudreg, capudreg; static int udreg_on;
static void ud_add(hwloc_obj_t o, int b64, char *name, unsigned char *buf, size_t len)
{
  struct udlist *l = o->userdata;
  if (!l) {
    l = calloc(1, sizeof(*l)); o->userdata = l;
    if (udreg_on) { if (nudreg == capudreg) { capudreg = capudreg ? 2 * capudreg : 64; udreg = realloc(udreg, capudreg * sizeof(*udreg)); } udreg[nudreg++] = l; }
  }
  l->items = realloc(l->items, (l->n + 1) * sizeof(*l->items));
  l->items[l->n].b64 = b64; l->items[l->n].name = name; l->items[l->n].buf = buf; l->items[l->n].len = len;
  l->items[l->n].rc = 99; l->items[l->n].err = 0;
  l->n++;
}

static void export_cb(void *reserved, hwloc_topology_t t, hwloc_obj_t o)
{
  struct udlist *l = o->userdata;
  unsigned i, ord = 0;
  ud_export_calls++;
  for (i = 0; i < l->n; i++) {
    struct uditem *it = &l->items[i];
    errno = 0;
    if (it->b64) it->rc = hwloc_export_obj_userdata_base64(reserved, t, o, it->name, it->buf, it->len);
    else it->rc = hwloc_export_obj_userdata(reserved, t, o, it->name, it->buf, it->len);
    it->err = it->rc < 0 ? errno : 0;
    if (!it->rc) udrec_add(o->gp_index, ord++, it->b64);
  }
}

static int nd_mode;   /* HWLOC_XML_USERDATA_NOT_DECODED: the callback gets "base64:name" / "normal-anon" names and the raw element content */
static void import_cb(hwloc_topology_t t, hwloc_obj_t o, const char *name, const void *buffer, size_t length)
{
  struct udlist *l = o->userdata;
  unsigned ord = l ? l->n : 0;
  int b64 = udrec_get(o->gp_index, ord);
  size_t stored = (nd_mode && name && !strncmp(name, "base64", 6)) ? 4 * ((length + 2) / 3) : length;
  unsigned char *copy = malloc(stored + 1);
  (void)t;
  memcpy(copy, buffer, stored); copy[stored] = 0;
  printf("UI gp=%llu ty=%d name=", (unsigned long long)o->gp_index, (int)o->type); hx(stdout, name);
  printf(" len=%lu bytes=", (unsigned long)length); hxn(stdout, buffer, stored);
  /* the API promises a NUL after the bytes */
  printf(" nul=%d\n", ((const char *)buffer)[stored] == 0);
  if (nd_mode) { ud_add(o, 0, name ? strdup(name) : NULL, copy, length); return; }
  if (b64 < 0) { size_t i; b64 = 0; for (i = 0; i < length; i++) { unsigned char c = copy[i]; if (!((c >= 32 && c <= 126) || c == '\t' || c == '\n' || c == '\r')) b64 = 1; } }
  ud_add(o, b64, name ? strdup(name) : NULL, copy, length);
}

static void udreg_free_all(void)
{
  unsigned j, i;
  for (j = 0; j < nudreg; j++) { struct udlist *l = udreg[j]; for (i = 0; i < l->n; i++) { free(l->items[i].name); free(l->items[i].buf); } free(l->items); free(l); }
  free(udreg); udreg = NULL; nudreg = capudreg = 0;
}
static void ud_free_tree(hwloc_obj_t o)
{
  hwloc_obj_t c;
  struct udlist *l = o->userdata;
  if (l) { unsigned i; for (i = 0; i < l->n; i++) { free(l->items[i].name); free(l->items[i].buf); } free(l->items); free(l); o->userdata = NULL; }
  for (c = o->first_child; c; c = c->next_sibling) ud_free_tree(c);
  for (c = o->memory_first_child; c; c = c->next_sibling) ud_free_tree(c);
  for (c = o->io_first_child; c; c = c->next_sibling) ud_free_tree(c);
  for (c = o->misc_first_child; c; c = c->next_sibling) ud_free_tree(c);
}

/* ---------- object selection: k-th object (mod count) in DFS order normal, memory, io, misc ---------- */
static void enum_objs(hwloc_obj_t o, hwloc_obj_t **arr, unsigned *n, unsigned *cap)
{
  hwloc_obj_t c;
  if (*n == *cap) { *cap = *cap ? 2 * *cap : 256; *arr = realloc(*arr, *cap * sizeof(**arr)); }
  (*arr)[(*n)++] = o;
  for (c = o->first_child; c; c = c->next_sibling) enum_objs(c, arr, n, cap);
  for (c = o->memory_first_child; c; c = c->next_sibling) enum_objs(c, arr, n, cap);
  for (c = o->io_first_child; c; c = c->next_sibling) enum_objs(c, arr, n, cap);
  for (c = o->misc_first_child; c; c = c->next_sibling) enum_objs(c, arr, n, cap);
}
static hwloc_obj_t pick(hwloc_topology_t t, unsigned k)
{
  hwloc_obj_t *arr = NULL, r; unsigned n = 0, cap = 0;
  enum_objs(hwloc_get_root_obj(t), &arr, &n, &cap);
  r = arr[k % n]; free(arr);
  return r;
}
static hwloc_obj_t pick_type(hwloc_topology_t t, hwloc_obj_type_t ty, unsigned k)
{
  int n = hwloc_get_nbobjs_by_type(t, ty);
  if (n <= 0) return NULL;
  return hwloc_get_obj_by_type(t, ty, k % (unsigned)n);
}
static hwloc_obj_t pick_normal(hwloc_topology_t t, unsigned k)
{
  hwloc_obj_t *arr = NULL, r = NULL; unsigned n = 0, cap = 0, i, m = 0;
  enum_objs(hwloc_get_root_obj(t), &arr, &n, &cap);
  for (i = 0; i < n; i++) if (arr[i]->cpuset && arr[i]->type != HWLOC_OBJ_NUMANODE && arr[i]->type != HWLOC_OBJ_MEMCACHE) arr[m++] = arr[i];
  if (m) r = arr[k % m];
  free(arr);
  return r;
}

/* ---------- annotations ---------- */
static int do_ann(hwloc_topology_t t, char *line)
{
  char op[32], s1[4096], s2[8192]; unsigned k, k2; unsigned long long v; int d;
  if (sscanf(line, "%31s", op) != 1) return -1;
  line += strlen(op);
  if (!strcmp(op, "name") && sscanf(line, "%u %4095s", &k, s1) == 2) {
    hwloc_obj_t o = pick(t, k); free(o->name); o->name = unhx(s1, NULL); return 0;
  }
  if (!strcmp(op, "subtype") && sscanf(line, "%u %4095s", &k, s1) == 2) {
    hwloc_obj_t o = pick(t, k); char *s = unhx(s1, NULL);
    if (s) { int r = hwloc_obj_set_subtype(t, o, s); free(s); return r; }
    free(o->subtype); o->subtype = NULL; return 0;
  }
  if (!strcmp(op, "info") && sscanf(line, "%u %4095s %8191s", &k, s1, s2) == 3) {
    hwloc_obj_t o = pick(t, k); char *n = unhx(s1, NULL), *val = unhx(s2, NULL);
    int r = hwloc_obj_add_info(o, n, val); free(n); free(val); return r;
  }
  if (!strcmp(op, "tinfo") && sscanf(line, "%4095s %8191s", s1, s2) == 2) {
    char *n = unhx(s1, NULL), *val = unhx(s2, NULL);
    int r = hwloc_modify_infos(hwloc_topology_get_infos(t), HWLOC_MODIFY_INFOS_OP_ADD, n, val); free(n); free(val); return r;
  }
  if (!strcmp(op, "ud") && sscanf(line, "%u %d %4095s %8191s", &k, &d, s1, s2) == 4) {
    hwloc_obj_t o = pick(t, k); size_t len; char *n = unhx(s1, NULL); unsigned char *b = (unsigned char *)unhx(s2, &len);
    if (d == 2) { size_t i; d = 0; for (i = 0; i < len; i++) { unsigned char c = b[i]; if (!((c >= 32 && c <= 126) || c == '\t' || c == '\n' || c == '\r')) d = 1; } }
    ud_add(o, d, n, b, len); return 0;
  }
  if (!strcmp(op, "misc") && sscanf(line, "%u %4095s", &k, s1) == 2) {
    hwloc_obj_t o = pick(t, k); char *n = unhx(s1, NULL); hwloc_obj_t m = hwloc_topology_insert_misc_object(t, o, n); free(n); return m ? 0 : -1;
  }
  if (!strcmp(op, "miscsub")) {
    /* miscsub <parent k> <name> <subtype> <ninfos> <name value>...: a Misc object with a subtype and infos */
    unsigned ni, i; int skip = 0; hwloc_obj_t o, m; char *n, *st;
    if (sscanf(line, "%u %4095s %8191s %u%n", &k, s1, s2, &ni, &skip) < 4) return -1;
    line += skip;
    o = pick(t, k); n = unhx(s1, NULL); st = unhx(s2, NULL);
    m = hwloc_topology_insert_misc_object(t, o, n); free(n);
    if (!m) { free(st); return -1; }
    if (st) { hwloc_obj_set_subtype(t, m, st); free(st); }
    for (i = 0; i < ni; i++) {
      char *a, *b;
      if (sscanf(line, "%4095s %8191s%n", s1, s2, &skip) < 2) break;
      line += skip;
      a = unhx(s1, NULL); b = unhx(s2, NULL); hwloc_obj_add_info(m, a, b); free(a); free(b);
    }
    return 0;
  }
  if (!strcmp(op, "group")) {
    unsigned dm, kind, subkind; hwloc_obj_t a, b, g, r;
    if (sscanf(line, "%u %u %u %u %u", &k, &k2, &dm, &kind, &subkind) != 5) return -1;
    a = pick_normal(t, k); b = pick_normal(t, k2); if (!a || !b) return -1;
    g = hwloc_topology_alloc_group_object(t); if (!g) return -1;
    hwloc_obj_add_other_obj_sets(g, a); hwloc_obj_add_other_obj_sets(g, b);
    g->attr->group.dont_merge = (unsigned char)dm; g->attr->group.kind = kind; g->attr->group.subkind = subkind;
    r = hwloc_topology_insert_group_object(t, g);
    return r ? (r == g ? 0 : 1) : -1;
  }
  if (!strcmp(op, "dist") || !strcmp(op, "disthet")) {
    int t1, t2 = -1; unsigned long kind; unsigned seed, n1, n2 = 0, n, x, y; hwloc_obj_t *objs; hwloc_uint64_t *vals; int r; char *nm;
    hwloc_distances_add_handle_t h;
    if (!strcmp(op, "dist")) { if (sscanf(line, "%d %lu %u %4095s", &t1, &kind, &seed, s1) != 4) return -1; }
    else if (sscanf(line, "%d %d %lu %u %4095s", &t1, &t2, &kind, &seed, s1) != 5) return -1;
    n1 = (unsigned)(hwloc_get_nbobjs_by_type(t, (hwloc_obj_type_t)t1) > 0 ? hwloc_get_nbobjs_by_type(t, (hwloc_obj_type_t)t1) : 0);
    if (t2 >= 0) n2 = (unsigned)(hwloc_get_nbobjs_by_type(t, (hwloc_obj_type_t)t2) > 0 ? hwloc_get_nbobjs_by_type(t, (hwloc_obj_type_t)t2) : 0);
    if (n1 > 12) n1 = 12; if (n2 > 12) n2 = 12;
    n = n1 + n2; if (n < 2 || (t2 >= 0 && (!n1 || !n2))) return -1;
    objs = malloc(n * sizeof(*objs)); vals = malloc(n * n * sizeof(*vals));
    for (x = 0; x < n1; x++) objs[x] = hwloc_get_obj_by_type(t, (hwloc_obj_type_t)t1, x);
    for (x = 0; x < n2; x++) objs[n1 + x] = hwloc_get_obj_by_type(t, (hwloc_obj_type_t)t2, x);
    for (x = 0; x < n; x++) for (y = 0; y < n; y++) {
      unsigned long long val = x == y ? 10 : 20 + ((x * 7 + y * 3 + seed) % 5);
      if (seed % 7 == 3 && x == 0 && y == 1) val = 18446744073709551615ull;     /* boundary values */
      if (seed % 7 == 4 && x == 1 && y == 0) val = 0;
      vals[x * n + y] = val;
    }
    nm = unhx(s1, NULL);
    h = hwloc_distances_add_create(t, nm, kind, 0);
    r = h ? hwloc_distances_add_values(t, h, n, objs, vals, 0) : -1;
    if (!r) r = hwloc_distances_add_commit(t, h, 0);
    free(nm); free(objs); free(vals); return r;
  }
  if (!strcmp(op, "distn")) {
    /* distn <type> <n> <type2|-1> <n2> <kind> <seed> <name>: matrix over exactly the first n objects of <type> (and the first n2 of <type2>) */
    int t1, t2; unsigned long kind; unsigned seed, n1, n2, n, x, y; hwloc_obj_t *objs; hwloc_uint64_t *vals; int r; char *nm;
    hwloc_distances_add_handle_t h;
    if (sscanf(line, "%d %u %d %u %lu %u %4095s", &t1, &n1, &t2, &n2, &kind, &seed, s1) != 7) return -1;
    if ((int)n1 > hwloc_get_nbobjs_by_type(t, (hwloc_obj_type_t)t1)) return -1;
    if (t2 >= 0 && (int)n2 > hwloc_get_nbobjs_by_type(t, (hwloc_obj_type_t)t2)) return -1;
    if (t2 < 0) n2 = 0;
    n = n1 + n2; if (n < 2) return -1;
    objs = malloc(n * sizeof(*objs)); vals = malloc((size_t)n * n * sizeof(*vals));
    for (x = 0; x < n1; x++) objs[x] = hwloc_get_obj_by_type(t, (hwloc_obj_type_t)t1, x);
    for (x = 0; x < n2; x++) objs[n1 + x] = hwloc_get_obj_by_type(t, (hwloc_obj_type_t)t2, x);
    for (x = 0; x < n; x++) for (y = 0; y < n; y++) vals[(size_t)x * n + y] = x == y ? 10 : 20 + ((x * 7 + y * 3 + seed) % 9) + (x * n + y == n * n - 1 ? 1000000 : 0);
    nm = unhx(s1, NULL);
    h = hwloc_distances_add_create(t, nm, kind, 0);
    r = h ? hwloc_distances_add_values(t, h, n, objs, vals, 0) : -1;
    if (!r) r = hwloc_distances_add_commit(t, h, 0);
    free(nm); free(objs); free(vals); return r;
  }
  if (!strcmp(op, "mattrreg")) {
    unsigned long fl; hwloc_memattr_id_t id; char *n; int r;
    if (sscanf(line, "%4095s %lu", s1, &fl) != 2) return -1;
    n = unhx(s1, NULL); r = hwloc_memattr_register(t, n, fl, &id); free(n); return r;
  }
  if (!strcmp(op, "mattr")) {
    /* mattr <id-ordinal> <target k> <initiator kind: n|c|o> <initiator k> <value> ; id-ordinal counts from the first attribute id >= 2 */
    unsigned idn, tk, ik; char ikind; struct hwloc_location loc; hwloc_obj_t node, ini; unsigned long fl; unsigned nattr = 0;
    if (sscanf(line, "%u %u %c %u %llu", &idn, &tk, &ikind, &ik, &v) != 5) return -1;
    while (hwloc_memattr_get_flags(t, nattr, &fl) == 0) nattr++;
    if (nattr <= 2) return -1;
    idn = 2 + idn % (nattr - 2);
    hwloc_memattr_get_flags(t, idn, &fl);
    node = pick_type(t, HWLOC_OBJ_NUMANODE, tk); if (!node) return -1;
    if (!(fl & HWLOC_MEMATTR_FLAG_NEED_INITIATOR)) return hwloc_memattr_set_value(t, idn, node, NULL, 0, v);
    if (ikind == 'o') { ini = pick(t, ik); loc.type = HWLOC_LOCATION_TYPE_OBJECT; loc.location.object = ini; }
    else { ini = pick_normal(t, ik); if (!ini) return -1; loc.type = HWLOC_LOCATION_TYPE_CPUSET; loc.location.cpuset = ini->cpuset; }
    { int r = hwloc_memattr_set_value(t, idn, node, &loc, 0, v); hwloc_internal_memattrs_need_refresh(t); return r; }
  }
  if (!strcmp(op, "cpukind")) {
    /* cpukind <obj k (its cpuset)> <forced efficiency> <ninfos> <name value>... */
    unsigned ni, i; int eff, skip = 0, r; struct hwloc_infos_s infos; hwloc_obj_t o; hwloc_bitmap_t set;
    if (sscanf(line, "%u %d %u%n", &k, &eff, &ni, &skip) < 3) return -1;
    line += skip;
    o = pick_normal(t, k); if (!o) return -1;
    infos.count = 0; infos.allocated = ni; infos.array = calloc(ni + 1, sizeof(*infos.array));
    for (i = 0; i < ni; i++) {
      if (sscanf(line, "%4095s %8191s%n", s1, s2, &skip) < 2) break;
      line += skip;
      infos.array[i].name = unhx(s1, NULL); infos.array[i].value = unhx(s2, NULL); infos.count++;
    }
    set = hwloc_bitmap_dup(o->cpuset);
    r = hwloc_cpukinds_register(t, set, eff, &infos, 0);
    hwloc_bitmap_free(set);
    for (i = 0; i < infos.count; i++) { free(infos.array[i].name); free(infos.array[i].value); }
    free(infos.array);
    return r;
  }
  if (!strcmp(op, "restrict")) {
    /* restrict <pu k> <flags>: remove one PU (and whatever becomes empty) */
    unsigned long fl; hwloc_obj_t pu; hwloc_bitmap_t set; int r;
    if (sscanf(line, "%u %lu", &k, &fl) != 2) return -1;
    pu = pick_type(t, HWLOC_OBJ_PU, k); if (!pu) return -1;
    set = hwloc_bitmap_dup(hwloc_topology_get_topology_cpuset(t));
    hwloc_bitmap_andnot(set, set, pu->cpuset);
    r = hwloc_topology_restrict(t, set, fl);
    hwloc_bitmap_free(set); return r;
  }
  if (!strcmp(op, "restrictnode")) {
    /* restrictnode <numa k> <flags>: remove one NUMA node by nodeset */
    unsigned long fl; hwloc_obj_t node; hwloc_bitmap_t set; int r;
    if (sscanf(line, "%u %lu", &k, &fl) != 2) return -1;
    if (hwloc_get_nbobjs_by_type(t, HWLOC_OBJ_NUMANODE) < 2) return -1;
    node = pick_type(t, HWLOC_OBJ_NUMANODE, k); if (!node) return -1;
    set = hwloc_bitmap_dup(hwloc_topology_get_topology_nodeset(t));
    hwloc_bitmap_andnot(set, set, node->nodeset);
    r = hwloc_topology_restrict(t, set, fl | HWLOC_RESTRICT_FLAG_BYNODESET);
    hwloc_bitmap_free(set); return r;
  }
  if (!strcmp(op, "distremove")) return hwloc_distances_remove(t);
  if (!strcmp(op, "allow")) {
    /* allow <pu k>: custom allowed set without one PU (needs INCLUDE_DISALLOWED) */
    hwloc_obj_t pu; hwloc_bitmap_t set; int r;
    if (sscanf(line, "%u", &k) != 1) return -1;
    pu = pick_type(t, HWLOC_OBJ_PU, k); if (!pu) return -1;
    set = hwloc_bitmap_dup(hwloc_topology_get_topology_cpuset(t));
    hwloc_bitmap_andnot(set, set, pu->cpuset);
    r = hwloc_topology_allow(t, set, NULL, HWLOC_ALLOW_FLAG_CUSTOM);
    hwloc_bitmap_free(set); return r;
  }
  if (!strcmp(op, "pagetypes")) {
    /* pagetypes <numa k> <n> <size count>... : replace the page types array */
    unsigned n, i; int skip = 0; hwloc_obj_t node; unsigned long long sz, cnt;
    if (sscanf(line, "%u %u%n", &k, &n, &skip) < 2) return -1;
    line += skip;
    node = pick_type(t, HWLOC_OBJ_NUMANODE, k); if (!node) return -1;
    free(node->attr->numanode.page_types);
    node->attr->numanode.page_types = n ? calloc(n, sizeof(*node->attr->numanode.page_types)) : NULL;
    node->attr->numanode.page_types_len = n;
    for (i = 0; i < n; i++) {
      if (sscanf(line, "%llu %llu%n", &sz, &cnt, &skip) < 2) { node->attr->numanode.page_types_len = i; break; }
      line += skip;
      node->attr->numanode.page_types[i].size = sz; node->attr->numanode.page_types[i].count = cnt;
    }
    return 0;
  }
  if (!strcmp(op, "pci") && sscanf(line, "%u %31s %llu", &k, s1, &v) == 3) {
    /* pci <k> <field> <value>: set one attribute of the k-th PCI device (modulo their number) */
    int n = hwloc_get_nbobjs_by_type(t, HWLOC_OBJ_PCI_DEVICE); hwloc_obj_t o;
    if (n <= 0) return -1;
    o = hwloc_get_obj_by_type(t, HWLOC_OBJ_PCI_DEVICE, k % (unsigned)n);
    if (!strcmp(s1, "class")) o->attr->pcidev.class_id = (unsigned short)v;
    else if (!strcmp(s1, "vendor")) o->attr->pcidev.vendor_id = (unsigned short)v;
    else if (!strcmp(s1, "device")) o->attr->pcidev.device_id = (unsigned short)v;
    else if (!strcmp(s1, "subvendor")) o->attr->pcidev.subvendor_id = (unsigned short)v;
    else if (!strcmp(s1, "subdevice")) o->attr->pcidev.subdevice_id = (unsigned short)v;
    else if (!strcmp(s1, "revision")) o->attr->pcidev.revision = (unsigned char)v;
    else if (!strcmp(s1, "prog_if")) o->attr->pcidev.prog_if = (unsigned char)v;
    else if (!strcmp(s1, "linkspeed64")) o->attr->pcidev.linkspeed = (float)v / 64.0f;   /* multiples of 1/64: exact in float and in %f */
    else if (!strcmp(s1, "domain")) {
      /* move the whole hostbridge subtree containing the device into another PCI domain */
      hwloc_obj_t hb = o, c; hwloc_obj_t *arr = NULL; unsigned na = 0, cap = 0, i;
      while (hb->parent && !(hb->type == HWLOC_OBJ_BRIDGE && hb->attr->bridge.upstream_type == HWLOC_OBJ_BRIDGE_HOST)) hb = hb->parent;
      if (hb->type != HWLOC_OBJ_BRIDGE) return -1;
      enum_objs(hb, &arr, &na, &cap);
      for (i = 0; i < na; i++) {
        c = arr[i];
        if (c->type == HWLOC_OBJ_PCI_DEVICE) c->attr->pcidev.domain = (unsigned)v;
        else if (c->type == HWLOC_OBJ_BRIDGE) {
          if (c->attr->bridge.upstream_type == HWLOC_OBJ_BRIDGE_PCI) c->attr->bridge.upstream.pci.domain = (unsigned)v;
          if (c->attr->bridge.downstream_type == HWLOC_OBJ_BRIDGE_PCI) c->attr->bridge.downstream.pci.domain = (unsigned)v;
        }
      }
      free(arr);
    }
    else return -1;
    return 0;
  }
  if (!strcmp(op, "osdev") && sscanf(line, "%u %llu %4095s %8191s", &k, &v, s1, s2) == 4) {
    /* osdev <k> <types> <subtype|-> <name|->: attributes of the k-th OS device (modulo their number) */
    int n = hwloc_get_nbobjs_by_type(t, HWLOC_OBJ_OS_DEVICE); hwloc_obj_t o; char *st, *nm;
    if (n <= 0) return -1;
    o = hwloc_get_obj_by_type(t, HWLOC_OBJ_OS_DEVICE, k % (unsigned)n);
    o->attr->osdev.types = (unsigned long)v;
    st = unhx(s1, NULL); nm = unhx(s2, NULL);
    if (st) { hwloc_obj_set_subtype(t, o, st); free(st); } else { free(o->subtype); o->subtype = NULL; }
    if (nm) { free(o->name); o->name = nm; }
    return 0;
  }
  if (!strcmp(op, "osdevinfo") && sscanf(line, "%u %4095s %8191s", &k, s1, s2) == 3) {
    int n = hwloc_get_nbobjs_by_type(t, HWLOC_OBJ_OS_DEVICE); hwloc_obj_t o; char *a, *b; int r;
    if (n <= 0) return -1;
    o = hwloc_get_obj_by_type(t, HWLOC_OBJ_OS_DEVICE, k % (unsigned)n);
    a = unhx(s1, NULL); b = unhx(s2, NULL); r = hwloc_obj_add_info(o, a, b); free(a); free(b); return r;
  }
  if (!strcmp(op, "support") && sscanf(line, "%31s %u %llu", s1, &k, &v) == 3) {
    /* support <discovery|cpubind|membind> <byte index> <value>: a support field other than 0/1 (exported with a value attribute) */
    const struct hwloc_topology_support *sup = hwloc_topology_get_support(t); unsigned char *base; size_t sz;
    if (!strcmp(s1, "discovery")) { base = (unsigned char *)sup->discovery; sz = sizeof(*sup->discovery); }
    else if (!strcmp(s1, "cpubind")) { base = (unsigned char *)sup->cpubind; sz = sizeof(*sup->cpubind); }
    else if (!strcmp(s1, "membind")) { base = (unsigned char *)sup->membind; sz = sizeof(*sup->membind); }
    else return -1;
    if (k >= sz) return -1;            /* the caller enumerates indexes; the struct of the current source decides how many exist */
    base[k] = (unsigned char)v;
    return 0;
  }
  if (!strcmp(op, "osindex") && sscanf(line, "%u %llu", &k, &v) == 2) {
    /* osindex <k> <value>: os_index of an object whose index is not tied to a set (not PU / NUMANode) */
    hwloc_obj_t *arr = NULL; unsigned n = 0, cap = 0, i; int done = -1;
    enum_objs(hwloc_get_root_obj(t), &arr, &n, &cap);
    for (i = 0; i < n; i++) { hwloc_obj_t o = arr[(k + i) % n];
      if (o->type != HWLOC_OBJ_PU && o->type != HWLOC_OBJ_NUMANODE && o->type != HWLOC_OBJ_MACHINE) { o->os_index = (unsigned)v; done = 0; break; } }
    free(arr); return done;
  }
  if (!strcmp(op, "cache") && sscanf(line, "%u %llu %u %d", &k, &v, &k2, &d) == 4) {
    /* cache <k> <size> <linesize> <associativity>: first cache object at or after DFS position k */
    hwloc_obj_t *arr = NULL; unsigned n = 0, cap = 0, i; int done = -1;
    enum_objs(hwloc_get_root_obj(t), &arr, &n, &cap);
    for (i = 0; i < n; i++) { hwloc_obj_t o = arr[(k + i) % n]; if (hwloc_obj_type_is_cache(o->type) || o->type == HWLOC_OBJ_MEMCACHE) { o->attr->cache.size = v; o->attr->cache.linesize = k2; o->attr->cache.associativity = d; done = 0; break; } }
    free(arr); return done;
  }
  return -1;
}

/* ---------- listings (public API) ---------- */
static void pset_x(hwloc_const_bitmap_t s) { hwv_pset(stdout, s); }

static void list_extras(const char *pfx, hwloc_topology_t t)
{
  unsigned nr = 0, i, j, k;
  struct hwloc_distances_s **ds;
  struct hwloc_infos_s *ti = hwloc_topology_get_infos(t);
  const struct hwloc_topology_support *sup = hwloc_topology_get_support(t);
  hwloc_obj_t o;
  /* topology infos, in order */
  for (i = 0; i < ti->count; i++) { printf("%s|TI %u ", pfx, i); hx(stdout, ti->array[i].name); putchar(' '); hx(stdout, ti->array[i].value); putchar('\n'); }
  /* PCI link speeds (not in the flat dump) */
  o = NULL;
  while ((o = hwloc_get_next_pcidev(t, o)) != NULL) printf("%s|PL gp=%llu speed=%f\n", pfx, (unsigned long long)o->gp_index, o->attr->pcidev.linkspeed);
  o = NULL;
  while ((o = hwloc_get_next_bridge(t, o)) != NULL)
    if (o->attr->bridge.upstream_type == HWLOC_OBJ_BRIDGE_PCI) printf("%s|PL gp=%llu speed=%f\n", pfx, (unsigned long long)o->gp_index, o->attr->bridge.upstream.pci.linkspeed);
  /* distances */
  hwloc_distances_get(t, &nr, NULL, 0, 0);
  ds = calloc(nr + 1, sizeof(*ds));
  hwloc_distances_get(t, &nr, ds, 0, 0);
  for (i = 0; i < nr; i++) {
    struct hwloc_distances_s *d = ds[i];
    printf("%s|DI %u name=", pfx, i); hx(stdout, hwloc_distances_get_name(t, d));
    printf(" kind=%lu n=%u objs=", d->kind, d->nbobjs);
    for (j = 0; j < d->nbobjs; j++) printf("%s%d:%llu", j ? "," : "", d->objs[j] ? (int)d->objs[j]->type : -1, d->objs[j] ? (unsigned long long)d->objs[j]->gp_index : 0ull);
    printf(" vals=");
    for (j = 0; j < d->nbobjs * d->nbobjs; j++) printf("%s%llu", j ? "," : "", (unsigned long long)d->values[j]);
    putchar('\n');
    hwloc_distances_release(t, d);
  }
  free(ds);
  /* memory attributes */
  for (i = 0; ; i++) {
    const char *name; unsigned long fl; unsigned nt = 0; hwloc_obj_t *tg; hwloc_uint64_t *vals;
    if (hwloc_memattr_get_name(t, i, &name) < 0 || hwloc_memattr_get_flags(t, i, &fl) < 0) break;
    hwloc_memattr_get_targets(t, i, NULL, 0, &nt, NULL, NULL);
    tg = calloc(nt + 1, sizeof(*tg)); vals = calloc(nt + 1, sizeof(*vals));
    hwloc_memattr_get_targets(t, i, NULL, 0, &nt, tg, vals);
    printf("%s|MA %u name=", pfx, i); hx(stdout, name); printf(" flags=%lu nt=%u\n", fl, nt);
    for (j = 0; j < nt; j++) {
      printf("%s|MAT %u tgt=%d:%llu", pfx, i, (int)tg[j]->type, (unsigned long long)tg[j]->gp_index);
      if (!(fl & HWLOC_MEMATTR_FLAG_NEED_INITIATOR)) printf(" val=%llu\n", (unsigned long long)vals[j]);
      else {
        unsigned ni = 0; struct hwloc_location *ini; hwloc_uint64_t *iv;
        hwloc_memattr_get_initiators(t, i, tg[j], 0, &ni, NULL, NULL);
        ini = calloc(ni + 1, sizeof(*ini)); iv = calloc(ni + 1, sizeof(*iv));
        hwloc_memattr_get_initiators(t, i, tg[j], 0, &ni, ini, iv);
        printf(" ni=%u", ni);
        for (k = 0; k < ni; k++) {
          if (ini[k].type == HWLOC_LOCATION_TYPE_CPUSET) { printf(" c"); pset_x(ini[k].location.cpuset); }
          else printf(" o%d:%llu", (int)ini[k].location.object->type, (unsigned long long)ini[k].location.object->gp_index);
          printf("=%llu", (unsigned long long)iv[k]);
        }
        putchar('\n');
        free(ini); free(iv);
      }
    }
    free(tg); free(vals);
  }
  /* CPU kinds */
  {
    int nk = hwloc_cpukinds_get_nr(t, 0);
    for (i = 0; (int)i < nk; i++) {
      hwloc_bitmap_t set = hwloc_bitmap_alloc(); int eff = -2; struct hwloc_infos_s *infos = NULL;
      hwloc_cpukinds_get_info(t, i, set, &eff, &infos, 0);
      printf("%s|CK %u set=", pfx, i); pset_x(set); printf(" eff=%d forced=%d inf=", eff, t->cpukinds[i].forced_efficiency);
      if (!infos || !infos->count) putchar('-');
      for (j = 0; infos && j < infos->count; j++) { if (j) putchar(';'); hx(stdout, infos->array[j].name); putchar('='); hx(stdout, infos->array[j].value); }
      putchar('\n');
      hwloc_bitmap_free(set);
    }
  }
  /* support bits (meaningful for the reloaded side only with IMPORT_SUPPORT) */
  printf("%s|SU disc=", pfx);
  for (i = 0; i < sizeof(*sup->discovery); i++) printf("%u.", ((const unsigned char *)sup->discovery)[i]);
  printf(" cpu=");
  for (i = 0; i < sizeof(*sup->cpubind); i++) printf("%u.", ((const unsigned char *)sup->cpubind)[i]);
  printf(" mem=");
  for (i = 0; i < sizeof(*sup->membind); i++) printf("%u.", ((const unsigned char *)sup->membind)[i]);
  printf(" misc=%u\n", sup->misc->imported_support);
}

/* ---------- model input: what the exporter reads, in export order ---------- */
static void mset(hwloc_const_bitmap_t s) { putchar(' '); hwv_pset(stdout, s); }

static void model_obj(hwloc_topology_t t, hwloc_obj_t o, unsigned nest, char tag)
{
  hwloc_obj_t c; unsigned i;
  struct udlist *l = o->userdata;
  printf("MO %u %c %d ", nest, tag, (int)o->type);
  if (o->os_index == HWLOC_UNKNOWN_INDEX) putchar('-'); else printf("%u", o->os_index);
  printf(" %llu", (unsigned long long)o->gp_index);
  mset(o->cpuset); mset(o->complete_cpuset); mset(o->nodeset); mset(o->complete_nodeset);
  putchar(' '); hx(stdout, o->name); putchar(' '); hx(stdout, o->subtype);
  switch (o->type) {
  case HWLOC_OBJ_NUMANODE: printf(" numa %llu", (unsigned long long)o->attr->numanode.local_memory); break;
  case HWLOC_OBJ_L1CACHE: case HWLOC_OBJ_L2CACHE: case HWLOC_OBJ_L3CACHE: case HWLOC_OBJ_L4CACHE: case HWLOC_OBJ_L5CACHE:
  case HWLOC_OBJ_L1ICACHE: case HWLOC_OBJ_L2ICACHE: case HWLOC_OBJ_L3ICACHE: case HWLOC_OBJ_MEMCACHE:
    printf(" cache %llu %u %u %d %d", (unsigned long long)o->attr->cache.size, o->attr->cache.depth, (unsigned)o->attr->cache.linesize, o->attr->cache.associativity, (int)o->attr->cache.type); break;
  case HWLOC_OBJ_GROUP: printf(" group %u %u %u", o->attr->group.kind, o->attr->group.subkind, (unsigned)o->attr->group.dont_merge); break;
  case HWLOC_OBJ_BRIDGE:
    printf(" bridge %d %d %u %u %u %u", (int)o->attr->bridge.upstream_type, (int)o->attr->bridge.downstream_type, o->attr->bridge.depth,
           (unsigned)o->attr->bridge.downstream.pci.domain, (unsigned)o->attr->bridge.downstream.pci.secondary_bus, (unsigned)o->attr->bridge.downstream.pci.subordinate_bus);
    /* FALLTHRU: the upstream pci part has the pcidev layout */
  case HWLOC_OBJ_PCI_DEVICE: {
    char sp[64];
    if (o->type == HWLOC_OBJ_PCI_DEVICE) printf(" pci");
    snprintf(sp, sizeof(sp), "%f", o->attr->pcidev.linkspeed);
    printf(" %u %u %u %u %u %u %u %u %u %u %u ", (unsigned)o->attr->pcidev.domain, (unsigned)o->attr->pcidev.bus, (unsigned)o->attr->pcidev.dev, (unsigned)o->attr->pcidev.func,
           (unsigned)o->attr->pcidev.class_id, (unsigned)o->attr->pcidev.vendor_id, (unsigned)o->attr->pcidev.device_id,
           (unsigned)o->attr->pcidev.subvendor_id, (unsigned)o->attr->pcidev.subdevice_id, (unsigned)o->attr->pcidev.revision, (unsigned)o->attr->pcidev.prog_if);
    hx(stdout, sp);
    break; }
  case HWLOC_OBJ_OS_DEVICE: printf(" osdev %lu", (unsigned long)o->attr->osdev.types); break;
  default: printf(" none"); break;
  }
  putchar('\n');
  if (o->type == HWLOC_OBJ_NUMANODE)
    for (i = 0; i < o->attr->numanode.page_types_len; i++)
      printf("MP %llu %llu\n", (unsigned long long)o->attr->numanode.page_types[i].size, (unsigned long long)o->attr->numanode.page_types[i].count);
  for (i = 0; i < o->infos.count; i++) { printf("MI "); hx(stdout, o->infos.array[i].name); putchar(' '); hx(stdout, o->infos.array[i].value); putchar('\n'); }
  if (l) for (i = 0; i < l->n; i++) { printf("MU %d ", l->items[i].b64); hx(stdout, l->items[i].name); printf(" "); hxn(stdout, l->items[i].buf, l->items[i].len); putchar('\n'); }
  /* the four child lists, each in list order; the model decides in which order they are exported */
  for (c = o->first_child; c; c = c->next_sibling) model_obj(t, c, nest + 1, 'n');
  for (c = o->memory_first_child; c; c = c->next_sibling) model_obj(t, c, nest + 1, 'm');
  for (c = o->io_first_child; c; c = c->next_sibling) model_obj(t, c, nest + 1, 'i');
  for (c = o->misc_first_child; c; c = c->next_sibling) model_obj(t, c, nest + 1, 'x');
}

static void model_input(hwloc_topology_t t, int v2, int with_ud)
{
  struct hwloc_internal_distances_s *dist; unsigned i, j, k; const char *env;
  printf("MB v2=%d ud=%d acpu=", v2, with_ud); hwv_pset(stdout, hwloc_topology_get_allowed_cpuset(t));
  printf(" anode="); hwv_pset(stdout, hwloc_topology_get_allowed_nodeset(t)); putchar('\n');
  model_obj(t, hwloc_get_root_obj(t), 0, 'n');
  hwloc_internal_distances_refresh(t);
  for (dist = t->first_dist; dist; dist = dist->next) {
    printf("MD %d %d %u %lu ", dist->different_types ? 1 : 0, (int)dist->unique_type, dist->nbobjs, dist->kind); hx(stdout, dist->name);
    printf(" idx=");
    for (i = 0; i < dist->nbobjs; i++) {
      if (dist->different_types) printf("%s%d:%llu", i ? "," : "", (int)dist->objs[i]->type, (unsigned long long)dist->objs[i]->gp_index);
      else printf("%s%llu", i ? "," : "", (unsigned long long)dist->indexes[i]);
    }
    printf(" vals=");
    for (i = 0; i < dist->nbobjs * dist->nbobjs; i++) printf("%s%llu", i ? "," : "", (unsigned long long)dist->values[i]);
    putchar('\n');
  }
  env = getenv("HWLOC_XML_EXPORT_SUPPORT");
  if (!env || atoi(env)) {
    const struct hwloc_topology_support *s = hwloc_topology_get_support(t);
#define DO(_cat,_name) if (s->_cat->_name) printf("MS %s %u\n", #_cat "." #_name, (unsigned)s->_cat->_name)
    DO(discovery,pu); DO(discovery,numa); DO(discovery,numa_memory); DO(discovery,disallowed_pu); DO(discovery,disallowed_numa); DO(discovery,cpukind_efficiency);
    DO(cpubind,set_thisproc_cpubind); DO(cpubind,get_thisproc_cpubind); DO(cpubind,set_proc_cpubind); DO(cpubind,get_proc_cpubind);
    DO(cpubind,set_thisthread_cpubind); DO(cpubind,get_thisthread_cpubind); DO(cpubind,set_thread_cpubind); DO(cpubind,get_thread_cpubind);
    DO(cpubind,get_thisproc_last_cpu_location); DO(cpubind,get_proc_last_cpu_location); DO(cpubind,get_thisthread_last_cpu_location);
    DO(membind,set_thisproc_membind); DO(membind,get_thisproc_membind); DO(membind,set_proc_membind); DO(membind,get_proc_membind);
    DO(membind,set_thisthread_membind); DO(membind,get_thisthread_membind); DO(membind,alloc_membind); DO(membind,set_area_membind);
    DO(membind,get_area_membind); DO(membind,get_area_memlocation); DO(membind,firsttouch_membind); DO(membind,bind_membind);
    DO(membind,interleave_membind); DO(membind,weighted_interleave_membind); DO(membind,nexttouch_membind); DO(membind,migrate_membind);
#undef DO
    printf("MS custom.exported_support 1\n");
  }
  for (i = 0; i < t->nr_memattrs; i++) {
    struct hwloc_internal_memattr_s *m = &t->memattrs[i];
    printf("MM %u ", i); hx(stdout, m->name); printf(" %lu %u\n", m->flags, m->nr_targets);
    for (j = 0; j < m->nr_targets; j++) {
      struct hwloc_internal_memattr_target_s *g = &m->targets[j];
      printf("MMT %d %llu %llu %u", (int)g->type, (unsigned long long)g->gp_index, (unsigned long long)g->noinitiator_value, g->nr_initiators);
      if (m->flags & HWLOC_MEMATTR_FLAG_NEED_INITIATOR)
        for (k = 0; k < g->nr_initiators; k++) {
          struct hwloc_internal_memattr_initiator_s *in = &g->initiators[k];
          if (in->initiator.type == HWLOC_LOCATION_TYPE_CPUSET) { printf(" c"); hwv_pset(stdout, in->initiator.location.cpuset); }
          else printf(" o%d:%llu", (int)in->initiator.location.object.type, (unsigned long long)in->initiator.location.object.gp_index);
          printf("=%llu", (unsigned long long)in->value);
        }
      putchar('\n');
    }
  }
  for (i = 0; i < t->nr_cpukinds; i++) {
    struct hwloc_internal_cpukind_s *c = &t->cpukinds[i];
    printf("MK "); hwv_pset(stdout, c->cpuset); printf(" %d\n", c->forced_efficiency);
    for (k = 0; k < c->infos.count; k++) { printf("MKI "); hx(stdout, c->infos.array[k].name); putchar(' '); hx(stdout, c->infos.array[k].value); putchar('\n'); }
  }
  for (k = 0; k < t->infos.count; k++) { printf("MTI "); hx(stdout, t->infos.array[k].name); putchar(' '); hx(stdout, t->infos.array[k].value); putchar('\n'); }
  printf("ME\n");
}

/* ---------- dump with a prefix ---------- */
static void dump_prefixed(const char *pfx, hwloc_topology_t t)
{
  char *buf = NULL; size_t sz = 0; FILE *m = open_memstream(&buf, &sz); char *p, *q;
  hwv_dump_topology(m, t, 0);
  fclose(m);
  for (p = buf; p && *p; p = q) {
    q = strchr(p, '\n'); if (q) *q++ = 0; else q = p + strlen(p);
    printf("%s|%s\n", pfx, p);
  }
  free(buf);
}

static void ud_transcript(hwloc_obj_t o)
{
  hwloc_obj_t c; struct udlist *l = o->userdata; unsigned i;
  if (l) for (i = 0; i < l->n; i++) {
    struct uditem *it = &l->items[i];
    printf("UE gp=%llu ty=%d b64=%d name=", (unsigned long long)o->gp_index, (int)o->type, it->b64); hx(stdout, it->name);
    printf(" len=%lu bytes=", (unsigned long)it->len); hxn(stdout, it->buf, it->len);
    printf(" rc=%d errno=%s\n", it->rc, hwv_errno_class(it->err));
  }
  for (c = o->memory_first_child; c; c = c->next_sibling) ud_transcript(c);
  for (c = o->first_child; c; c = c->next_sibling) ud_transcript(c);
  for (c = o->io_first_child; c; c = c->next_sibling) ud_transcript(c);
  for (c = o->misc_first_child; c; c = c->next_sibling) ud_transcript(c);
}

static int read_file(const char *path, char **bufp, size_t *lenp)
{
  FILE *f = fopen(path, "rb"); long len;
  if (!f) return -1;
  fseek(f, 0, SEEK_END); len = ftell(f); fseek(f, 0, SEEK_SET);
  *bufp = malloc((size_t)len + 1);
  if (fread(*bufp, 1, (size_t)len, f) != (size_t)len) { fclose(f); return -1; }
  (*bufp)[len] = 0; fclose(f); *lenp = (size_t)len;
  return 0;
}

/* export through the requested channel; returns malloc'ed bytes (without the trailing NUL of the buffer API) */
static int do_export(hwloc_topology_t t, const char *mode, unsigned long xflags, char **outp, size_t *lenp, int *buflenp)
{
  int rc;
  *outp = NULL; *lenp = 0; *buflenp = 0;
  errno = 0;
  if (!strcmp(mode, "buffer")) {
    char *xb = NULL; int xl = 0;
    rc = hwloc_topology_export_xmlbuffer(t, &xb, &xl, xflags);
    if (rc < 0) return rc;
    *buflenp = xl;
    *outp = malloc((size_t)xl + 1); memcpy(*outp, xb, (size_t)xl); (*outp)[xl] = 0;
    *lenp = (size_t)xl;     /* includes the ending NUL, as documented */
    hwloc_free_xmlbuffer(t, xb);
    return 0;
  }
  if (!strncmp(mode, "stdio:", 6)) {
    /* "-" = standard output: capture file descriptor 1 into the scratch file */
    int saved, fd;
    fflush(stdout);
    saved = dup(1);
    fd = open(mode + 6, O_WRONLY | O_CREAT | O_TRUNC, 0600);
    if (fd < 0 || saved < 0) return -1;
    dup2(fd, 1); close(fd);
    rc = hwloc_topology_export_xml(t, "-", xflags);
    fflush(stdout);
    dup2(saved, 1); close(saved);
    if (rc < 0) return rc;
    return read_file(mode + 6, outp, lenp);
  }
  rc = hwloc_topology_export_xml(t, mode + 5, xflags);
  if (rc < 0) return rc;
  return read_file(mode + 5, outp, lenp);
}

static void do_rt(hwloc_topology_t A, const char *mode, const char *ver, int nd, const char *dirty)
{
  unsigned long xflags = !strcmp(ver, "v2") ? HWLOC_TOPOLOGY_EXPORT_XML_FLAG_V2 : 0;
  char *x1 = NULL, *x2 = NULL; size_t l1 = 0, l2 = 0; int bl1 = 0, bl2 = 0, rc;
  hwloc_topology_t B = NULL;
  int isbuf = !strcmp(mode, "buffer"), isstdio = !strncmp(mode, "stdio:", 6);
  int saved0 = -1;
  printf("RT mode=%s ver=%s nd=%d dirty=%d libxml_export=%s libxml_import=%s libxml=%s\n", isbuf ? "buffer" : isstdio ? "stdio" : "file", ver, nd, dirty ? 1 : 0,
         getenv("HWLOC_LIBXML_EXPORT") ? getenv("HWLOC_LIBXML_EXPORT") : "-", getenv("HWLOC_LIBXML_IMPORT") ? getenv("HWLOC_LIBXML_IMPORT") : "-",
         getenv("HWLOC_LIBXML") ? getenv("HWLOC_LIBXML") : "-");
  if (dirty) {
    /* "dirty" history: the export is the very first call after the modifying calls (no dump, no listing, no refresh in
       between).  A forked copy of the same state exports through the other channel (file <-> buffer) first. */
    char other[4200]; pid_t pid; int st = 0;
    if (isbuf) snprintf(other, sizeof(other), "file:%s", dirty); else strcpy(other, "buffer");
    hwloc_topology_set_userdata_export_callback(A, export_cb);
    fflush(stdout);
    pid = fork();
    if (!pid) {
      char *xo = NULL; size_t lo = 0; int blo = 0, r;
      r = do_export(A, other, xflags, &xo, &lo, &blo);
      printf("XO rc=%d len=%lu hex=", r, (unsigned long)lo);
      if (xo) hxn(stdout, xo, lo); else putchar('-');
      putchar('\n'); fflush(stdout);
      _exit(0);
    }
    waitpid(pid, &st, 0);
    printf("XOstatus %s %d\n", WIFSIGNALED(st) ? "sig" : "exit", WIFSIGNALED(st) ? WTERMSIG(st) : WEXITSTATUS(st));
    ud_export_calls = 0;
    rc = do_export(A, mode, xflags, &x1, &l1, &bl1);
  }
  dump_prefixed("A", A);
  list_extras("AX", A);
  {
    /* is the original itself consistent?  (annotations go through public calls only, but those have defects of their own) */
    pid_t pid; int st = 0; fflush(stdout);
    pid = fork();
    if (!pid) { hwloc_topology_check(A); _exit(0); }
    waitpid(pid, &st, 0);
    printf("Acheck %s\n", WIFEXITED(st) && WEXITSTATUS(st) == 0 ? "ok" : "abort");
  }
  hwloc_topology_set_userdata_export_callback(A, export_cb);
  model_input(A, xflags ? 1 : 0, 1);
  if (!dirty) {
    ud_export_calls = 0;
    rc = do_export(A, mode, xflags, &x1, &l1, &bl1);
  }
  printf("X1 rc=%d errno=%s len=%lu cbcalls=%u hex=", rc, rc < 0 ? hwv_errno_class(errno) : "0", (unsigned long)l1, ud_export_calls);
  if (x1) hxn(stdout, x1, l1); else putchar('-');
  putchar('\n');
  ud_transcript(hwloc_get_root_obj(A));
  if (rc < 0) { printf("ENDRT\n"); free(x1); return; }
  /* reload: same flags, every type kept */
  hwloc_topology_init(&B);
  hwloc_topology_set_flags(B, hwloc_topology_get_flags(A));
  hwloc_topology_set_all_types_filter(B, HWLOC_TYPE_FILTER_KEEP_ALL);
  hwloc_topology_set_userdata_import_callback(B, import_cb);
  if (isstdio) {
    /* "-" = standard input: a pipe when the text fits its capacity (the nolibxml reader then has to grow its buffer), else the file */
    int pfd[2] = { -1, -1 };
    fflush(stdout);
    saved0 = dup(0);
    if (l1 < 60000 && !pipe(pfd)) {
      if (write(pfd[1], x1, l1) != (ssize_t)l1) { /* cannot happen below the pipe capacity */ }
      close(pfd[1]); dup2(pfd[0], 0); close(pfd[0]);
    } else {
      int fd = open(mode + 6, O_RDONLY); dup2(fd, 0); close(fd);
    }
  }
  if (nd) { setenv("HWLOC_XML_USERDATA_NOT_DECODED", "1", 1); nd_mode = 1; }
  if (isbuf) rc = hwloc_topology_set_xmlbuffer(B, x1, (int)l1);
  else if (isstdio) rc = hwloc_topology_set_xml(B, "-");
  else rc = hwloc_topology_set_xml(B, mode + 5);
  if (rc < 0) {
    if (saved0 >= 0) { dup2(saved0, 0); close(saved0); }
    printf("reload rc=%d errno=%s stage=set\nENDRT\n", rc, hwv_errno_class(errno)); hwloc_topology_destroy(B); free(x1); return;
  }
  errno = 0;
  udreg_on = 1;
  rc = hwloc_topology_load(B);
  udreg_on = 0;
  if (saved0 >= 0) { dup2(saved0, 0); close(saved0); }
  if (nd) unsetenv("HWLOC_XML_USERDATA_NOT_DECODED");
  printf("reload rc=%d errno=%s stage=load\n", rc, rc < 0 ? hwv_errno_class(errno) : "0");
  if (rc < 0) { printf("ENDRT\n"); udreg_free_all(); hwloc_topology_destroy(B); free(x1); return; }
  free(udreg); udreg = NULL; nudreg = capudreg = 0;
  dump_prefixed("B", B);
  list_extras("BX", B);
  {
    /* the reloaded topology must itself be consistent: hwloc's own checker in a grandchild */
    pid_t pid; int st = 0; fflush(stdout);
    pid = fork();
    if (!pid) { hwloc_topology_check(B); _exit(0); }
    waitpid(pid, &st, 0);
    printf("Bcheck %s\n", WIFEXITED(st) && WEXITSTATUS(st) == 0 ? "ok" : "abort");
  }
  hwloc_topology_set_userdata_export_callback(B, export_cb);
  rc = do_export(B, mode, xflags, &x2, &l2, &bl2);
  {
    int same = rc == 0 && l1 == l2 && !memcmp(x1, x2, l1);
    printf("X2 rc=%d len=%lu same=%d", rc, (unsigned long)l2, same);
    if (!same && x2) { printf(" hex="); hxn(stdout, x2, l2); }
    putchar('\n');
  }
  printf("ENDRT\n");
  nd_mode = 0;
  ud_free_tree(hwloc_get_root_obj(B));
  hwloc_topology_destroy(B);
  free(x1); free(x2);
}

/* ---------- topology diffs through XML files and buffers ---------- */
static int sdiff(const char *a, const char *b) { return (a || b) && (!a || !b || strcmp(a, b)); }
static int diff_equal(hwloc_topology_diff_t a, hwloc_topology_diff_t b)
{
  for (; a && b; a = a->generic.next, b = b->generic.next) {
    if (a->generic.type != b->generic.type) return 0;
    if (a->generic.type != HWLOC_TOPOLOGY_DIFF_OBJ_ATTR) continue;
    if (a->obj_attr.obj_depth != b->obj_attr.obj_depth || a->obj_attr.obj_index != b->obj_attr.obj_index) return 0;
    if (a->obj_attr.diff.generic.type != b->obj_attr.diff.generic.type) return 0;
    if (a->obj_attr.diff.generic.type == HWLOC_TOPOLOGY_DIFF_OBJ_ATTR_SIZE) {
      if (a->obj_attr.diff.uint64.index != b->obj_attr.diff.uint64.index || a->obj_attr.diff.uint64.oldvalue != b->obj_attr.diff.uint64.oldvalue
          || a->obj_attr.diff.uint64.newvalue != b->obj_attr.diff.uint64.newvalue) return 0;
    } else if (sdiff(a->obj_attr.diff.string.name, b->obj_attr.diff.string.name) || sdiff(a->obj_attr.diff.string.oldvalue, b->obj_attr.diff.string.oldvalue)
               || sdiff(a->obj_attr.diff.string.newvalue, b->obj_attr.diff.string.newvalue)) return 0;
  }
  return !a && !b;
}

/* diffrt <path> <refname hex>: B = dup(A) with a renamed object, a changed info value and a changed memory size;
   diff_build, export to a file and to a buffer, load both back, compare with the built list */
static void do_diffrt(hwloc_topology_t A, const char *path, const char *refhex)
{
  hwloc_topology_t B = NULL; hwloc_topology_diff_t d = NULL, df = NULL, db = NULL; hwloc_obj_t o; int rc, n = 0;
  char *xb = NULL, *fb = NULL, *ref = unhx(refhex, NULL), *rf = NULL, *rb = NULL; int xl = 0; size_t fl = 0; hwloc_topology_diff_t it;
  o = hwloc_get_obj_by_type(A, HWLOC_OBJ_PU, 0);
  if (!o->name) o->name = strdup("pu0");      /* a name on one side only is "too complex" for diff_build */
  hwloc_topology_dup(&B, A);
  o = hwloc_get_obj_by_type(B, HWLOC_OBJ_PU, 0);
  free(o->name); o->name = strdup("re<na>&med \"pu\"");
  o = hwloc_get_root_obj(B);
  hwloc_obj_add_info(hwloc_get_root_obj(A), "K&key", "old<v>"); hwloc_obj_add_info(o, "K&key", "new\tv");
  o = hwloc_get_obj_by_type(B, HWLOC_OBJ_NUMANODE, 0);
  if (o) { hwloc_obj_t p; o->attr->numanode.local_memory += 4096; for (p = o; p; p = p->parent) p->total_memory += 4096; }
  rc = hwloc_topology_diff_build(A, B, 0, &d);
  for (it = d; it; it = it->generic.next) n++;
  printf("DIFF build rc=%d n=%d", rc, n);
  errno = 0; rc = hwloc_topology_diff_export_xml(d, ref, path); printf(" export_file=%d", rc);
  rc = hwloc_topology_diff_export_xmlbuffer(d, ref, &xb, &xl); printf(" export_buffer=%d", rc);
  if (!read_file(path, &fb, &fl)) printf(" filebuf_same=%d", xb && fl + 1 == (size_t)xl && !memcmp(fb, xb, fl)); else printf(" filebuf_same=-1");
  rc = hwloc_topology_diff_load_xml(path, &df, &rf); printf(" load_file=%d same=%d ref=%d", rc, rc == 0 && diff_equal(d, df), rc == 0 && !sdiff(ref, rf));
  rc = xb ? hwloc_topology_diff_load_xmlbuffer(xb, xl, &db, &rb) : -1; printf(" load_buffer=%d same=%d ref=%d", rc, rc == 0 && diff_equal(d, db), rc == 0 && !sdiff(ref, rb));
  /* applying the reloaded diff to a copy of A gives B's name */
  if (df) { hwloc_topology_t C2 = NULL; hwloc_topology_dup(&C2, A); rc = hwloc_topology_diff_apply(C2, df, 0);
    printf(" apply=%d name_ok=%d", rc, !sdiff(hwloc_get_obj_by_type(C2, HWLOC_OBJ_PU, 0)->name, hwloc_get_obj_by_type(B, HWLOC_OBJ_PU, 0)->name)); hwloc_topology_destroy(C2); }
  errno = 0; rc = hwloc_topology_diff_load_xml("/nonexistent-dir/d.xml", &it, NULL); printf(" load_missing=%d", rc);
  putchar('\n');
  if (xb) hwloc_free_xmlbuffer(A, xb);
  free(fb); free(ref); free(rf); free(rb);
  hwloc_topology_diff_destroy(d); hwloc_topology_diff_destroy(df); hwloc_topology_diff_destroy(db);
  hwloc_topology_destroy(B);
}

/* ---------- argument checks of the export entry points ---------- */
static void guard_cb(void *reserved, hwloc_topology_t t, hwloc_obj_t o)
{
  int rc; static const char bad[] = { 'a', 1, 'b', 0 };
  if (o->parent) return;
  errno = 0; rc = hwloc_export_obj_userdata(reserved, t, o, "n", NULL, 3); printf("G userdata-null-buffer rc=%d errno=%s\n", rc, rc < 0 ? hwv_errno_class(errno) : "0");
  errno = 0; rc = hwloc_export_obj_userdata_base64(reserved, t, o, "n", NULL, 3); printf("G userdata-base64-null-buffer rc=%d errno=%s\n", rc, rc < 0 ? hwv_errno_class(errno) : "0");
  errno = 0; rc = hwloc_export_obj_userdata_base64(reserved, t, o, bad, "xyz", 3); printf("G userdata-base64-invalid-name rc=%d errno=%s\n", rc, rc < 0 ? hwv_errno_class(errno) : "0");
  errno = 0; rc = hwloc_export_obj_userdata(reserved, t, o, bad, "xyz", 3); printf("G userdata-invalid-name rc=%d errno=%s\n", rc, rc < 0 ? hwv_errno_class(errno) : "0");
  errno = 0; rc = hwloc_export_obj_userdata(reserved, t, o, "n", bad, 3); printf("G userdata-invalid-bytes rc=%d errno=%s\n", rc, rc < 0 ? hwv_errno_class(errno) : "0");
}

static void do_guards(hwloc_topology_t t, const char *path)
{
  char *xb = NULL; int xl = 0, rc; hwloc_topology_t u = NULL; hwloc_obj_t root = hwloc_get_root_obj(t); void *saved = root->userdata; static int marker;
  errno = 0; rc = hwloc_topology_export_xmlbuffer(t, &xb, &xl, 4UL); printf("G buffer-invalid-flag rc=%d errno=%s\n", rc, rc < 0 ? hwv_errno_class(errno) : "0");
  errno = 0; rc = hwloc_topology_export_xmlbuffer(t, &xb, &xl, ~0UL); printf("G buffer-all-flags rc=%d errno=%s\n", rc, rc < 0 ? hwv_errno_class(errno) : "0");
  errno = 0; rc = hwloc_topology_export_xml(t, path, 4UL); printf("G file-invalid-flag rc=%d errno=%s\n", rc, rc < 0 ? hwv_errno_class(errno) : "0");
  hwloc_topology_init(&u);
  errno = 0; rc = hwloc_topology_export_xmlbuffer(u, &xb, &xl, 0); printf("G buffer-not-loaded rc=%d errno=%s\n", rc, rc < 0 ? hwv_errno_class(errno) : "0");
  errno = 0; rc = hwloc_topology_export_xml(u, path, 0); printf("G file-not-loaded rc=%d errno=%s\n", rc, rc < 0 ? hwv_errno_class(errno) : "0");
  hwloc_topology_destroy(u);
  errno = 0; rc = hwloc_topology_export_xml(t, "/nonexistent-dir/x.xml", 0); printf("G file-unwritable rc=%d\n", rc);
  /* refused userdata calls export nothing */
  root->userdata = &marker;
  hwloc_topology_set_userdata_export_callback(t, guard_cb);
  xb = NULL; rc = hwloc_topology_export_xmlbuffer(t, &xb, &xl, 0);
  printf("G export-with-refused-userdata rc=%d has_userdata=%d\n", rc, xb && strstr(xb, "<userdata") ? 1 : 0);
  if (xb) hwloc_free_xmlbuffer(t, xb);
  hwloc_topology_set_userdata_export_callback(t, NULL);
  root->userdata = saved;
}

static int run_case(FILE *in)
{
  char *line = NULL; size_t cap = 0; hwloc_topology_t t = NULL; int loaded = 0, nann = 0;
  hwloc_topology_init(&t);
  while (getline(&line, &cap, in) > 0) {
    size_t n = strlen(line);
    while (n && (line[n-1] == '\n' || line[n-1] == '\r')) line[--n] = 0;
    if (!strcmp(line, "end")) break;
    if (!strcmp(line, "load")) {
      int rc; errno = 0; rc = hwloc_topology_load(t);
      printf("load rc=%d errno=%s\n", rc, rc < 0 ? hwv_errno_class(errno) : "0");
      loaded = rc == 0;
    } else if (!strncmp(line, "ann ", 4)) {
      int rc = -9;
      if (loaded) { errno = 0; rc = do_ann(t, line + 4); }
      printf("ann %d rc=%d\n", nann++, rc);
    } else if (!strncmp(line, "rt ", 3)) {
      char mode[4096], ver[16], opt[4200] = "";
      if (loaded && sscanf(line + 3, "%4095s %15s %4199s", mode, ver, opt) >= 2) do_rt(t, mode, ver, !strcmp(opt, "nd"), !strncmp(opt, "dirty:", 6) ? opt + 6 : NULL);
      else printf("rt skipped\n");
    } else if (!strncmp(line, "guards ", 7)) {
      if (loaded) do_guards(t, line + 7);
    } else if (!strncmp(line, "diffrt ", 7)) {
      char pth[4096], rh[4096];
      if (loaded && sscanf(line + 7, "%4095s %4095s", pth, rh) == 2) do_diffrt(t, pth, rh);
    } else {
      int r = hwv_config_line(t, line);
      if (r == 0) printf("unknown-command %s\n", line);
      else if (r == 2) printf("config rc=-1 errno=%s\n", hwv_errno_class(errno));
      else if (r < 0) printf("config bad-line\n");
    }
    fflush(stdout);
  }
  if (loaded) ud_free_tree(hwloc_get_root_obj(t));
  hwloc_topology_destroy(t);
  free(hwv_xmlbuf); free(line); free(udrecs);
  return 0;
}

extern int hwloc_encode_to_base64(const char *src, size_t srclength, char *target, size_t targsize);
extern int hwloc_decode_from_base64(char const *src, char *target, size_t targsize);

/* b64e <hex> <targsize> / b64d <hex> <targsize>: the two base64 routines on exactly-sized heap blocks */
static void do_b64(char *line)
{
  char op[8], *h = malloc(strlen(line) + 1); unsigned long ts; size_t n; char *src, *tgt; int rc;
  if (sscanf(line, "%7s %s %lu", op, h, &ts) != 3) { free(h); return; }
  src = unhx(h, &n);
  tgt = malloc(ts ? ts : 1); memset(tgt, 0xEE, ts ? ts : 1);
  if (!strcmp(op, "b64e")) {
    char *exact = malloc(n ? n : 1); memcpy(exact, src, n);
    rc = hwloc_encode_to_base64(exact, n, tgt, ts);
    printf("B64E rc=%d out=", rc); if (rc >= 0) hxn(stdout, tgt, (size_t)rc + 1); else putchar('-'); putchar('\n');
    free(exact);
  } else {
    rc = hwloc_decode_from_base64(src, tgt, ts);
    printf("B64D rc=%d out=", rc); if (rc >= 0) hxn(stdout, tgt, (size_t)rc); else putchar('-'); putchar('\n');
  }
  free(src); free(tgt); free(h);
}

int main(void)
{
  char *line = NULL; size_t cap = 0;
  while (getline(&line, &cap, stdin) > 0) {
    if (!strncmp(line, "b64", 3)) { do_b64(line); fflush(stdout); continue; }
    if (!strncmp(line, "case ", 5)) {
      pid_t pid; int st = 0;
      char *body = NULL; size_t blen = 0; FILE *mb = open_memstream(&body, &blen);
      printf("CASE %s", line + 5);
      /* the parent reads the whole case, the child executes it from memory */
      while (getline(&line, &cap, stdin) > 0) { fputs(line, mb); if (!strcmp(line, "end\n") || !strcmp(line, "end")) break; }
      fclose(mb);
      fflush(stdout);
      pid = fork();
      if (!pid) { FILE *in = fmemopen(body, blen ? blen : 1, "r"); alarm(120); run_case(in); fclose(in); fflush(stdout); free(body); free(line); exit(0); }
      waitpid(pid, &st, 0);
      free(body);
      if (WIFSIGNALED(st)) printf("X sig=%d\n", WTERMSIG(st));
      else if (WEXITSTATUS(st)) printf("X exit=%d\n", WEXITSTATUS(st));
      else printf("X ok\n");
      fflush(stdout);
    }
  }
  free(line);
  return 0;
}
