/* Private-structure view of a topology, shared by the C12 (dup) and C19 (shmem)
 * harnesses.  Needs private/private.h (include it before this file).
 *
 * 1. hwv_ptree(): the *raw tree* of every heap block of a topology as reached
 *    through the private structures, in the generic syntax the model reads
 *    (coq/Topo/Heap.v, ocaml/drv_c12.ml):
 *        node  ::= ( <kind> <n> cell* )       n = element count the dup code multiplies by the element size
 *        cell  ::= v<dec> | x<hex> | n | z | o<tag> | l<objid> | u | node
 *    v/x = value stored in the block (x: bytes, hex, prefixed by 01), n = NULL pointer,
 *    z = pointer whose duplicate is a zero-byte allocation (infos with allocated == 0),
 *    o = pointer to something that is not a block of this topology (userdata, callbacks,
 *    static strings are NOT printed this way: they are strings; see memattr names),
 *    l = pointer to the object with that dump-local id (hwv_dump.h numbering), node = pointer to an owned block.
 *    Every visited block is also recorded with its address and field name: the
 *    sharing pattern of two topologies is computed from those records.
 * 2. a logging allocator (struct hwloc_tma) for hwloc__topology_dup().
 * 3. hwv_observe(): everything the public API reports (dump, XML, distances, memattrs, cpukinds, infos, support).
 */
#ifndef HWV_PTREE_H
#define HWV_PTREE_H
#ifndef _GNU_SOURCE
#define _GNU_SOURCE
#endif
#include "hwv_dump.h"
#include <hwloc/shmem.h>

/* kinds (mirrored in coq/Topo/Dup.v; element sizes come from harness/tables_shmem.inc) */
enum { HK_TOPO, HK_SUP_DISC, HK_SUP_CPU, HK_SUP_MEM, HK_SUP_MISC, HK_LEVELS, HK_NBOBJS, HK_LEVEL, HK_OBJ, HK_ATTR,
       HK_STR, HK_PAGETYPES, HK_BITMAP, HK_ULONGS, HK_INFOS, HK_CHILDREN, HK_DIST, HK_DTYPES, HK_U64, HK_DOBJS,
       HK_MEMATTRS, HK_TARGETS, HK_INITIATORS, HK_KINDS, HK_NKINDS };

/* replica of the private struct of bitmap.c; hwv_bitmap_layout_ok() validates it against the library */
struct hwv_bitmap_s { unsigned ulongs_count; unsigned ulongs_allocated; unsigned long *ulongs; int infinite;
#ifdef HWLOC_DEBUG
  int magic;
#endif
};

/* ---------------------------------------------------------------- logging tma */
struct hwv_alloclog { size_t *sizes; void **ptrs; unsigned n, cap; };
static void *hwv_log_malloc(struct hwloc_tma *tma, size_t len)
{
  struct hwv_alloclog *l = tma->data;
  void *p = malloc(len);
  if (l->n == l->cap) { l->cap = l->cap ? 2 * l->cap : 1024; l->sizes = realloc(l->sizes, l->cap * sizeof(size_t)); l->ptrs = realloc(l->ptrs, l->cap * sizeof(void*)); }
  l->sizes[l->n] = len; l->ptrs[l->n] = p; l->n++;
  return p;
}

static int hwv_bitmap_layout_ok(void)
{
  struct hwv_alloclog log = { 0 }; struct hwloc_tma tma; hwloc_bitmap_t b = hwloc_bitmap_alloc(), c; int ok;
  const struct hwv_bitmap_s *r;
  hwloc_bitmap_set(b, 3); hwloc_bitmap_set(b, 70); hwloc_bitmap_set_range(b, 200, -1);
  tma.malloc = hwv_log_malloc; tma.dontfree = 0; tma.data = &log;
  c = hwloc_bitmap_tma_dup(&tma, b);
  r = (const struct hwv_bitmap_s *)b;
  ok = c && log.n == 2 && log.sizes[0] == sizeof(struct hwv_bitmap_s) && log.sizes[1] == r->ulongs_allocated * sizeof(unsigned long)
       && r->ulongs_count == 4 && r->infinite == 1 && r->ulongs[0] == 8ul && r->ulongs[1] == 64ul && r->ulongs_allocated >= r->ulongs_count;
  hwloc_bitmap_free(c); hwloc_bitmap_free(b); free(log.sizes); free(log.ptrs);
  return ok;
}

/* ---------------------------------------------------------------- block records */
struct hwv_rec { const void *addr; const char *field; int kind; /* -1: opaque pointer */ };
struct hwv_walk {
  FILE *f; struct hwv_map objs; struct hwv_rec *recs; unsigned nrec, caprec;
  const void **opq; unsigned nopq, capopq;     /* shared across the walks of one comparison: same pointer = same tag */
};
static void hwv_rec_add(struct hwv_walk *w, const void *a, const char *field, int kind)
{
  if (w->nrec == w->caprec) { w->caprec = w->caprec ? 2 * w->caprec : 4096; w->recs = realloc(w->recs, w->caprec * sizeof(*w->recs)); }
  w->recs[w->nrec].addr = a; w->recs[w->nrec].field = field; w->recs[w->nrec].kind = kind; w->nrec++;
}
static void pt_open(struct hwv_walk *w, int kind, unsigned long n, const void *addr, const char *field)
{ fprintf(w->f, "( %d %lu ", kind, n); hwv_rec_add(w, addr, field, kind); }
static void pt_close(struct hwv_walk *w) { fputs(") ", w->f); }
static void pt_v(struct hwv_walk *w, unsigned long long v) { fprintf(w->f, "v%llu ", v); }
static void pt_null(struct hwv_walk *w) { fputs("n ", w->f); }
static void pt_nullrec(struct hwv_walk *w, const char *field) { fputs("n ", w->f); hwv_rec_add(w, NULL, field, -1); }
static void pt_bytes(struct hwv_walk *w, const void *p, size_t len)
{ size_t i; fputs("x01", w->f); for (i = 0; i < len; i++) fprintf(w->f, "%02x", ((const unsigned char *)p)[i]); fputc(' ', w->f); }
static void pt_opq(struct hwv_walk *w, const void *p, const char *field)
{
  unsigned i;
  if (!p) { pt_nullrec(w, field); return; }
  for (i = 0; i < w->nopq; i++) if (w->opq[i] == p) break;
  if (i == w->nopq) { if (w->nopq == w->capopq) { w->capopq = w->capopq ? 2 * w->capopq : 64; w->opq = realloc(w->opq, w->capopq * sizeof(void*)); } w->opq[w->nopq++] = p; }
  fprintf(w->f, "o%u ", i + 1);
  hwv_rec_add(w, p, field, -1);
}
static void pt_link(struct hwv_walk *w, const void *o)
{
  int i;
  if (!o) { pt_null(w); return; }
  i = hwv_map_get(&w->objs, o);
  if (i < 0) fputs("l4000000000 ", w->f); /* foreign object: not part of this topology */
  else fprintf(w->f, "l%d ", i);
}
static void pt_str(struct hwv_walk *w, const char *s, const char *field)
{
  if (!s) { pt_nullrec(w, field); return; }
  pt_open(w, HK_STR, strlen(s) + 1, s, field); pt_bytes(w, s, strlen(s)); pt_close(w);
}
static void pt_bitmap(struct hwv_walk *w, hwloc_const_bitmap_t b, const char *field, const char *field_u)
{
  const struct hwv_bitmap_s *r = (const struct hwv_bitmap_s *)b; unsigned i;
  if (!b) { pt_nullrec(w, field); return; }
  pt_open(w, HK_BITMAP, 1, b, field);
  pt_v(w, r->ulongs_count); pt_v(w, r->ulongs_allocated); pt_v(w, (unsigned)r->infinite);
  pt_open(w, HK_ULONGS, r->ulongs_allocated, r->ulongs, field_u);
  for (i = 0; i < r->ulongs_count; i++) pt_v(w, r->ulongs[i]);
  pt_close(w); pt_close(w);
}
/* prints: count allocated array */
static void pt_infos(struct hwv_walk *w, const struct hwloc_infos_s *in, const char *field, const char *fn, const char *fv)
{
  unsigned i;
  pt_v(w, in->count); pt_v(w, in->allocated);
  if (!in->allocated) { fputs("z ", w->f); hwv_rec_add(w, in->array, field, -3); return; }
  pt_open(w, HK_INFOS, in->allocated, in->array, field);
  for (i = 0; i < in->count; i++) { pt_str(w, in->array[i].name, fn); pt_str(w, in->array[i].value, fv); }
  pt_close(w);
}
static void pt_obj(struct hwv_walk *w, hwloc_obj_t o, const char *field)
{
  unsigned i;
  if (!o) { pt_nullrec(w, field); return; }
  pt_open(w, HK_OBJ, 1, o, field);
  pt_v(w, (unsigned)o->type); pt_v(w, o->os_index); pt_v(w, o->gp_index); pt_v(w, o->total_memory);
  pt_v(w, (unsigned)o->depth); pt_v(w, o->logical_index); pt_v(w, o->sibling_rank);
  pt_v(w, o->arity); pt_v(w, o->memory_arity); pt_v(w, o->io_arity); pt_v(w, o->misc_arity);
  pt_v(w, (unsigned)o->symmetric_subtree);
  pt_opq(w, o->userdata, "obj.userdata");
  pt_link(w, o->parent); pt_link(w, o->next_cousin); pt_link(w, o->prev_cousin); pt_link(w, o->prev_sibling); pt_link(w, o->last_child);
  /* attr */
  if (!o->attr) pt_nullrec(w, "obj.attr");
  else {
    pt_open(w, HK_ATTR, 1, o->attr, "obj.attr");
    if (o->type == HWLOC_OBJ_NUMANODE) { pt_v(w, o->attr->numanode.local_memory); pt_v(w, o->attr->numanode.page_types_len); }
    else pt_bytes(w, o->attr, sizeof(*o->attr));
    pt_close(w);
  }
  pt_str(w, o->name, "obj.name"); pt_str(w, o->subtype, "obj.subtype");
  if (o->type == HWLOC_OBJ_NUMANODE && o->attr && o->attr->numanode.page_types_len) {
    pt_open(w, HK_PAGETYPES, o->attr->numanode.page_types_len, o->attr->numanode.page_types, "obj.attr.numanode.page_types");
    for (i = 0; i < o->attr->numanode.page_types_len; i++) { pt_v(w, o->attr->numanode.page_types[i].size); pt_v(w, o->attr->numanode.page_types[i].count); }
    pt_close(w);
  } else if (o->type == HWLOC_OBJ_NUMANODE && o->attr && o->attr->numanode.page_types)
    pt_opq(w, o->attr->numanode.page_types, "obj.attr.numanode.page_types(len=0)");
  else pt_nullrec(w, "obj.attr.numanode.page_types");
  pt_bitmap(w, o->cpuset, "obj.cpuset", "obj.cpuset.ulongs"); pt_bitmap(w, o->complete_cpuset, "obj.complete_cpuset", "obj.complete_cpuset.ulongs");
  pt_bitmap(w, o->nodeset, "obj.nodeset", "obj.nodeset.ulongs"); pt_bitmap(w, o->complete_nodeset, "obj.complete_nodeset", "obj.complete_nodeset.ulongs");
  pt_infos(w, &o->infos, "obj.infos.array", "obj.infos.name", "obj.infos.value");
  if (o->arity && o->children) {
    pt_open(w, HK_CHILDREN, o->arity, o->children, "obj.children");
    for (i = 0; i < o->arity; i++) pt_link(w, o->children[i]);
    pt_close(w);
  } else pt_opq(w, o->children, "obj.children(arity=0)");
  pt_obj(w, o->first_child, "obj.first_child"); pt_obj(w, o->memory_first_child, "obj.memory_first_child");
  pt_obj(w, o->io_first_child, "obj.io_first_child"); pt_obj(w, o->misc_first_child, "obj.misc_first_child");
  pt_obj(w, o->next_sibling, "obj.next_sibling");
  pt_close(w);
}
static unsigned hwv_dist_pos(struct hwloc_topology *t, struct hwloc_internal_distances_s *d)
{ unsigned k = 1; struct hwloc_internal_distances_s *x; if (!d) return 0; for (x = t->first_dist; x && x != d; x = x->next) k++; return x ? k : 4000000000u; }
static void pt_dist(struct hwv_walk *w, struct hwloc_topology *t, struct hwloc_internal_distances_s *d)
{
  unsigned i;
  if (!d) { pt_nullrec(w, "dist"); return; }
  pt_open(w, HK_DIST, 1, d, "dist");
  pt_v(w, d->id); pt_v(w, (unsigned)d->unique_type); pt_v(w, d->nbobjs); pt_v(w, d->kind); pt_v(w, d->iflags); pt_v(w, hwv_dist_pos(t, d->prev));
  pt_str(w, d->name, "dist.name");
  if (d->different_types) { pt_open(w, HK_DTYPES, d->nbobjs, d->different_types, "dist.different_types"); for (i = 0; i < d->nbobjs; i++) pt_v(w, (unsigned)d->different_types[i]); pt_close(w); }
  else pt_nullrec(w, "dist.different_types");
  pt_open(w, HK_U64, d->nbobjs, d->indexes, "dist.indexes"); for (i = 0; i < d->nbobjs; i++) pt_v(w, d->indexes[i]); pt_close(w);
  pt_open(w, HK_DOBJS, d->nbobjs, d->objs, "dist.objs"); for (i = 0; i < d->nbobjs; i++) pt_link(w, d->objs[i]); pt_close(w);
  pt_open(w, HK_U64, (unsigned long)d->nbobjs * d->nbobjs, d->values, "dist.values"); for (i = 0; i < d->nbobjs * d->nbobjs; i++) pt_v(w, d->values[i]); pt_close(w);
  pt_dist(w, t, d->next);
  pt_close(w);
}
static void pt_memattrs(struct hwv_walk *w, struct hwloc_topology *t)
{
  unsigned id, j, k;
  if (!t->nr_memattrs) {   /* NO_MEMATTRS: NULL in a loaded topology, a zero-byte allocation in its copy */
    if (t->memattrs) { fputs("z ", w->f); hwv_rec_add(w, t->memattrs, "memattrs(nr=0)", -3); } else pt_nullrec(w, "memattrs(nr=0)");
    return;
  }
  pt_open(w, HK_MEMATTRS, t->nr_memattrs, t->memattrs, "memattrs");
  for (id = 0; id < t->nr_memattrs; id++) {
    struct hwloc_internal_memattr_s *a = &t->memattrs[id];
    /* a static name is not a heap block of the topology: recorded as kind -2 */
    if (a->iflags & HWLOC_IMATTR_FLAG_STATIC_NAME) { fprintf(w->f, "( %d %lu ", HK_STR, (unsigned long)strlen(a->name) + 1); hwv_rec_add(w, a->name, "memattr.name", -2); pt_bytes(w, a->name, strlen(a->name)); pt_close(w); }
    else pt_str(w, a->name, "memattr.name");
    pt_v(w, a->flags); pt_v(w, a->iflags); pt_v(w, a->nr_targets);
    if (!a->nr_targets) pt_opq(w, a->targets, "memattr.targets(nr=0)");
    else {
      pt_open(w, HK_TARGETS, a->nr_targets, a->targets, "memattr.targets");
      for (j = 0; j < a->nr_targets; j++) {
        struct hwloc_internal_memattr_target_s *tg = &a->targets[j];
        pt_link(w, tg->obj); pt_v(w, (unsigned)tg->type); pt_v(w, tg->os_index); pt_v(w, tg->gp_index); pt_v(w, tg->noinitiator_value); pt_v(w, tg->nr_initiators);
        if (!tg->nr_initiators) pt_opq(w, tg->initiators, "memattr.initiators(nr=0)");
        else {
          pt_open(w, HK_INITIATORS, tg->nr_initiators, tg->initiators, "memattr.initiators");
          for (k = 0; k < tg->nr_initiators; k++) {
            struct hwloc_internal_memattr_initiator_s *in = &tg->initiators[k];
            pt_v(w, (unsigned)in->initiator.type);
            if (in->initiator.type == HWLOC_LOCATION_TYPE_CPUSET) { pt_bitmap(w, in->initiator.location.cpuset, "memattr.initiator.cpuset", "memattr.initiator.cpuset.ulongs"); pt_v(w, 0); pt_v(w, 0); }
            else { pt_link(w, in->initiator.location.object.obj); pt_v(w, in->initiator.location.object.gp_index); pt_v(w, (unsigned)in->initiator.location.object.type); }
            pt_v(w, in->value);
          }
          pt_close(w);
        }
      }
      pt_close(w);
    }
  }
  pt_close(w);
}
static void pt_kinds(struct hwv_walk *w, struct hwloc_topology *t)
{
  unsigned i;
  if (!t->nr_cpukinds) { pt_opq(w, t->cpukinds, "cpukinds(nr=0)"); return; }
  pt_open(w, HK_KINDS, t->nr_cpukinds, t->cpukinds, "cpukinds");
  for (i = 0; i < t->nr_cpukinds; i++) {
    struct hwloc_internal_cpukind_s *k = &t->cpukinds[i];
    pt_bitmap(w, k->cpuset, "cpukind.cpuset", "cpukind.cpuset.ulongs");
    pt_v(w, (unsigned)k->efficiency); pt_v(w, (unsigned)k->forced_efficiency); pt_v(w, k->ranking_value);
    pt_infos(w, &k->infos, "cpukind.infos.array", "cpukind.infos.name", "cpukind.infos.value");
  }
  pt_close(w);
}
static unsigned long long hwv_fnv(const void *p, size_t n)
{ unsigned long long h = 1469598103934665603ull; size_t i; for (i = 0; i < n; i++) { h ^= ((const unsigned char *)p)[i]; h *= 1099511628211ull; } return h >> 1; }

/* the value cells of struct hwloc_topology, in the order coq/Topo/Dup.v names them (topo_val_names) */
static void pt_topo_vals(struct hwv_walk *w, struct hwloc_topology *t)
{
  unsigned i;
  pt_v(w, t->topology_abi); pt_v(w, t->nb_levels); pt_v(w, t->nb_levels_allocated); pt_v(w, t->flags);
  for (i = 0; i < HWLOC_OBJ_TYPE_MAX; i++) pt_v(w, (unsigned)t->type_depth[i]);
  for (i = 0; i < HWLOC_OBJ_TYPE_MAX; i++) pt_v(w, (unsigned)t->type_filter[i]);
  pt_v(w, t->state); pt_v(w, t->modified); pt_v(w, (unsigned long long)t->pid);
  pt_opq(w, t->userdata, "topology.userdata");
  pt_v(w, t->next_gp_index);
  pt_opq(w, t->adopted_shmem_addr, "topology.adopted_shmem_addr"); pt_v(w, t->adopted_shmem_length);
  for (i = 0; i < HWLOC_NR_SLEVELS; i++) { pt_v(w, t->slevels[i].nbobjs); pt_link(w, t->slevels[i].first); pt_link(w, t->slevels[i].last); }
  pt_v(w, hwv_fnv(&t->binding_hooks, sizeof(t->binding_hooks)));
  pt_opq(w, (const void *)t->userdata_export_cb, "topology.userdata_export_cb"); pt_opq(w, (const void *)t->userdata_import_cb, "topology.userdata_import_cb");
  pt_v(w, (unsigned)t->userdata_not_decoded);
  pt_v(w, hwv_dist_pos(t, t->last_dist)); pt_v(w, t->next_dist_id);
  pt_v(w, t->nr_memattrs); pt_v(w, t->nr_cpukinds); pt_v(w, t->nr_cpukinds_allocated);
  pt_v(w, (unsigned)t->grouping); pt_v(w, (unsigned)t->grouping_verbose); pt_v(w, t->grouping_nbaccuracies);
  for (i = 0; i < 5; i++) { unsigned u; memcpy(&u, &t->grouping_accuracies[i], sizeof(u)); pt_v(w, u); }
  pt_v(w, t->grouping_next_subkind);
  pt_opq(w, t->backends, "topology.backends"); pt_opq(w, t->get_pci_busid_cpuset_backend, "topology.get_pci_busid_cpuset_backend");
  pt_v(w, t->backend_phases); pt_v(w, t->backend_excluded_phases);
  pt_opq(w, t->tma, "topology.tma");
}
#define HWV_TOPO_NVALS (4 + 20 + 20 + 3 + 1 + 1 + 2 + 18 + 1 + 2 + 1 + 2 + 3 + 3 + 5 + 1 + 2 + 2 + 1)

static void hwv_walk_init(struct hwv_walk *w, FILE *f, struct hwloc_topology *t, struct hwv_walk *share_opq_with)
{
  memset(w, 0, sizeof(*w)); w->f = f;
  hwv_map_init(&w->objs); hwv_enum(&w->objs, hwloc_get_root_obj(t));
  if (share_opq_with) { w->opq = share_opq_with->opq; w->nopq = share_opq_with->nopq; w->capopq = share_opq_with->capopq; }
}
static void hwv_walk_fini(struct hwv_walk *w, int free_opq) { hwv_map_free(&w->objs); free(w->recs); if (free_opq) free(w->opq); }

/* one line "P ( 0 1 ... )" */
static void hwv_ptree(struct hwv_walk *w, struct hwloc_topology *t)
{
  unsigned i;
  fputs("P ", w->f);
  pt_open(w, HK_TOPO, 1, t, "topology");
  pt_topo_vals(w, t);
  pt_open(w, HK_SUP_DISC, 1, t->support.discovery, "support.discovery"); pt_bytes(w, t->support.discovery, sizeof(*t->support.discovery)); pt_close(w);
  pt_open(w, HK_SUP_CPU, 1, t->support.cpubind, "support.cpubind"); pt_bytes(w, t->support.cpubind, sizeof(*t->support.cpubind)); pt_close(w);
  pt_open(w, HK_SUP_MEM, 1, t->support.membind, "support.membind"); pt_bytes(w, t->support.membind, sizeof(*t->support.membind)); pt_close(w);
  pt_open(w, HK_SUP_MISC, 1, t->support.misc, "support.misc"); pt_bytes(w, t->support.misc, sizeof(*t->support.misc)); pt_close(w);
  pt_open(w, HK_LEVELS, t->nb_levels_allocated, t->levels, "levels");
  for (i = 0; i < t->nb_levels; i++) {
    unsigned j;
    pt_open(w, HK_LEVEL, t->level_nbobjects[i], t->levels[i], "levels[i]");
    for (j = 0; j < t->level_nbobjects[i]; j++) pt_link(w, t->levels[i][j]);
    pt_close(w);
  }
  pt_close(w);
  pt_open(w, HK_NBOBJS, t->nb_levels_allocated, t->level_nbobjects, "level_nbobjects");
  for (i = 0; i < t->nb_levels; i++) pt_v(w, t->level_nbobjects[i]);
  pt_close(w);
  for (i = 0; i < HWLOC_NR_SLEVELS; i++) {
    unsigned j;
    if (!t->slevels[i].nbobjs) { pt_opq(w, t->slevels[i].objs, "slevels.objs(nbobjs=0)"); continue; }
    pt_open(w, HK_LEVEL, t->slevels[i].nbobjs, t->slevels[i].objs, "slevels.objs");
    for (j = 0; j < t->slevels[i].nbobjs; j++) pt_link(w, t->slevels[i].objs[j]);
    pt_close(w);
  }
  pt_bitmap(w, t->allowed_cpuset, "allowed_cpuset", "allowed_cpuset.ulongs"); pt_bitmap(w, t->allowed_nodeset, "allowed_nodeset", "allowed_nodeset.ulongs");
  pt_obj(w, t->levels[0][0], "root");
  pt_infos(w, &t->infos, "topology.infos.array", "topology.infos.name", "topology.infos.value");
  pt_dist(w, t, t->first_dist);
  pt_memattrs(w, t);
  pt_kinds(w, t);
  pt_close(w);
  fputc('\n', w->f);
}

/* sharing pattern of two walks of same-shaped topologies: one line per field name
 *   share <field> copied=<n> shared=<n> dropped=<n>
 * and "overlap <fieldA> <fieldB>" for every block address of B that is also a block address of A */
static int hwv_reccmp(const void *a, const void *b) { const struct hwv_rec *x = a, *y = b; return x->addr < y->addr ? -1 : x->addr > y->addr; }
static void hwv_sharing(FILE *f, struct hwv_walk *wa, struct hwv_walk *wb)
{
  unsigned i, j, n = wa->nrec < wb->nrec ? wa->nrec : wb->nrec;
  struct { const char *field; unsigned copied, shared, dropped, fresh, null, mism; } agg[128]; unsigned nagg = 0;
  struct hwv_rec *sa;
  if (wa->nrec != wb->nrec) fprintf(f, "share-shape-mismatch %u %u\n", wa->nrec, wb->nrec);
  for (i = 0; i < n; i++) {
    const char *fa = wa->recs[i].field; const void *pa = wa->recs[i].addr, *pb = wb->recs[i].addr;
    for (j = 0; j < nagg; j++) if (!strcmp(agg[j].field, fa)) break;
    if (j == nagg && nagg < 128) { memset(&agg[nagg], 0, sizeof(agg[0])); agg[nagg].field = fa; nagg++; }
    if (j >= 128) continue;
    if (strcmp(fa, wb->recs[i].field)) agg[j].mism++;
    else if (!pa && !pb) agg[j].null++;
    else if (pa && !pb) agg[j].dropped++;
    else if (!pa && pb) agg[j].fresh++;
    else if (pa == pb) agg[j].shared++;
    else agg[j].copied++;
  }
  for (j = 0; j < nagg; j++) fprintf(f, "share %s copied=%u shared=%u dropped=%u new=%u null=%u mismatch=%u\n", agg[j].field, agg[j].copied, agg[j].shared, agg[j].dropped, agg[j].fresh, agg[j].null, agg[j].mism);
  /* block-level overlap (heap blocks only, kind >= 0) */
  sa = malloc((wa->nrec + 1) * sizeof(*sa)); memcpy(sa, wa->recs, wa->nrec * sizeof(*sa));
  qsort(sa, wa->nrec, sizeof(*sa), hwv_reccmp);
  for (i = 0; i < wb->nrec; i++) {
    struct hwv_rec key, *hit;
    if (wb->recs[i].kind < 0 || !wb->recs[i].addr) continue;
    key.addr = wb->recs[i].addr;
    hit = bsearch(&key, sa, wa->nrec, sizeof(*sa), hwv_reccmp);
    if (hit && hit->kind >= 0) fprintf(f, "overlap %s %s\n", hit->field, wb->recs[i].field);
  }
  free(sa);
}

/* ---------------------------------------------------------------- public observation */
static void hwv_obs_set(FILE *f, hwloc_const_bitmap_t s) { hwv_pset(f, s); }
static void hwv_observe(FILE *f, hwloc_topology_t t, int with_xml)
{
  unsigned i, j, nr;
  const struct hwloc_topology_support *sup = hwloc_topology_get_support(t);
  struct hwloc_infos_s *ti = hwloc_topology_get_infos(t);
  int nogp = with_xml == 2;
#define HWV_OID(o) ((o) ? (nogp ? (unsigned long long)(o)->logical_index : (unsigned long long)(o)->gp_index) : 0ull)
  if (nogp) with_xml = 0;
  hwv_dump_topology(f, t, nogp ? 1 : 0);
  fprintf(f, "thissystem %d\n", hwloc_topology_is_thissystem(t));
  { /* every field of the four support structures (they are arrays of unsigned char) */
    size_t k;
    fputs("support discovery=", f); for (k = 0; k < sizeof(*sup->discovery); k++) fprintf(f, "%02x", ((const unsigned char *)sup->discovery)[k]);
    fputs(" cpubind=", f); for (k = 0; k < sizeof(*sup->cpubind); k++) fprintf(f, "%02x", ((const unsigned char *)sup->cpubind)[k]);
    fputs(" membind=", f); for (k = 0; k < sizeof(*sup->membind); k++) fprintf(f, "%02x", ((const unsigned char *)sup->membind)[k]);
    fputs(" misc=", f); for (k = 0; k < sizeof(*sup->misc); k++) fprintf(f, "%02x", ((const unsigned char *)sup->misc)[k]);
    fputc('\n', f); }
  fputs("tinfos ", f);
  for (i = 0; i < ti->count; i++) { hwv_pstr(f, ti->array[i].name); fputc('=', f); hwv_pstr(f, ti->array[i].value); fputc(';', f); }
  fputc('\n', f);
  /* distances */
  nr = 0; hwloc_distances_get(t, &nr, NULL, 0, 0);
  fprintf(f, "distances nr=%u\n", nr);
  if (nr) {
    struct hwloc_distances_s **ds = calloc(nr, sizeof(*ds)); unsigned got = nr;
    hwloc_distances_get(t, &got, ds, 0, 0);
    for (i = 0; i < got && i < nr; i++) {
      const char *nm = hwloc_distances_get_name(t, ds[i]);
      fprintf(f, "dist kind=%lu nbobjs=%u name=", ds[i]->kind, ds[i]->nbobjs); hwv_pstr(f, nm); fputs(" objs=", f);
      for (j = 0; j < ds[i]->nbobjs; j++) fprintf(f, "%d:%llu,", ds[i]->objs[j] ? (int)ds[i]->objs[j]->type : -1, HWV_OID(ds[i]->objs[j]));
      fputs(" values=", f);
      for (j = 0; j < ds[i]->nbobjs * ds[i]->nbobjs; j++) fprintf(f, "%llu,", (unsigned long long)ds[i]->values[j]);
      fputc('\n', f);
      hwloc_distances_release(t, ds[i]);
    }
    free(ds);
  }
  /* memory attributes: every id until get_name fails */
  for (i = 0; ; i++) {
    const char *nm; unsigned long fl = 0; unsigned ntg = 0; hwloc_obj_t *tgs;
    if (hwloc_memattr_get_name(t, i, &nm) < 0) break;
    hwloc_memattr_get_flags(t, i, &fl);
    fprintf(f, "memattr %u name=", i); hwv_pstr(f, nm); fprintf(f, " flags=%lu", fl);
    hwloc_memattr_get_targets(t, i, NULL, 0, &ntg, NULL, NULL);
    fprintf(f, " ntargets=%u\n", ntg);
    if (i < HWLOC_MEMATTR_ID_BANDWIDTH || !ntg) continue;   /* convenience attributes are derived from the dump */
    tgs = calloc(ntg, sizeof(*tgs)); { unsigned n2 = ntg; hwloc_memattr_get_targets(t, i, NULL, 0, &n2, tgs, NULL); if (n2 < ntg) ntg = n2; }
    for (j = 0; j < ntg; j++) {
      unsigned ni = 0, k; struct hwloc_location *ins; hwloc_uint64_t *vals;
      fprintf(f, " target gp=%llu", HWV_OID(tgs[j]));
      if (!(fl & HWLOC_MEMATTR_FLAG_NEED_INITIATOR)) {
        hwloc_uint64_t v = 0; int rc = hwloc_memattr_get_value(t, i, tgs[j], NULL, 0, &v);
        fprintf(f, " value=%d:%llu\n", rc, (unsigned long long)v); continue;
      }
      hwloc_memattr_get_initiators(t, i, tgs[j], 0, &ni, NULL, NULL);
      ins = calloc(ni + 1, sizeof(*ins)); vals = calloc(ni + 1, sizeof(*vals));
      { unsigned n2 = ni; hwloc_memattr_get_initiators(t, i, tgs[j], 0, &n2, ins, vals); if (n2 < ni) ni = n2; }
      fprintf(f, " ninit=%u", ni);
      for (k = 0; k < ni; k++) {
        if (ins[k].type == HWLOC_LOCATION_TYPE_CPUSET) { fputs(" c:", f); hwv_obs_set(f, ins[k].location.cpuset); }
        else fprintf(f, " o:%llu", HWV_OID(ins[k].location.object));
        fprintf(f, "=%llu", (unsigned long long)vals[k]);
      }
      fputc('\n', f);
      free(ins); free(vals);
    }
    free(tgs);
  }
  /* cpukinds */
  { int nk = hwloc_cpukinds_get_nr(t, 0), k;
    fprintf(f, "cpukinds nr=%d\n", nk);
    for (k = 0; k < nk; k++) {
      hwloc_bitmap_t cs = hwloc_bitmap_alloc(); int eff = 0; struct hwloc_infos_s *in = NULL;
      int rc = hwloc_cpukinds_get_info(t, (unsigned)k, cs, &eff, &in, 0);
      fprintf(f, " kind %d rc=%d eff=%d cs=", k, rc, eff); hwv_obs_set(f, cs); fputs(" infos=", f);
      if (!rc && in) for (j = 0; j < in->count; j++) { hwv_pstr(f, in->array[j].name); fputc('=', f); hwv_pstr(f, in->array[j].value); fputc(';', f); }
      fputc('\n', f);
      hwloc_bitmap_free(cs);
    }
  }
  if (with_xml) {
    char *buf = NULL; int len = 0;
    int rc = hwloc_topology_export_xmlbuffer(t, &buf, &len, 0);
    fprintf(f, "xml rc=%d len=%d\n", rc, rc < 0 ? 0 : len);
    if (rc >= 0) { fwrite(buf, 1, (size_t)len, f); fputc('\n', f); hwloc_free_xmlbuffer(t, buf); }
  }
}
/* XML of a synthetic topology carrying a <support> element for EVERY support field (values 1, and a few 2/3), to be loaded with
   HWLOC_TOPOLOGY_FLAG_IMPORT_SUPPORT by a process for which it is not "this system" */
static char *hwv_support_xml(const char *desc, int *lenp)
{
  static const char *names[] = {
    "discovery.pu", "discovery.numa", "discovery.numa_memory", "discovery.disallowed_pu", "discovery.disallowed_numa", "discovery.cpukind_efficiency",
    "cpubind.set_thisproc_cpubind", "cpubind.get_thisproc_cpubind", "cpubind.set_proc_cpubind", "cpubind.get_proc_cpubind", "cpubind.set_thisthread_cpubind",
    "cpubind.get_thisthread_cpubind", "cpubind.set_thread_cpubind", "cpubind.get_thread_cpubind", "cpubind.get_thisproc_last_cpu_location",
    "cpubind.get_proc_last_cpu_location", "cpubind.get_thisthread_last_cpu_location",
    "membind.set_thisproc_membind", "membind.get_thisproc_membind", "membind.set_proc_membind", "membind.get_proc_membind", "membind.set_thisthread_membind",
    "membind.get_thisthread_membind", "membind.alloc_membind", "membind.set_area_membind", "membind.get_area_membind", "membind.get_area_memlocation",
    "membind.firsttouch_membind", "membind.bind_membind", "membind.interleave_membind", "membind.weighted_interleave_membind", "membind.nexttouch_membind",
    "membind.migrate_membind", NULL };
  hwloc_topology_t t; char *xml = NULL, *out, *end, *p, *q; int len = 0, i; size_t o;
  if (hwloc_topology_init(&t) < 0) return NULL;
  if (hwloc_topology_set_synthetic(t, desc) < 0 || hwloc_topology_load(t) < 0 || hwloc_topology_export_xmlbuffer(t, &xml, &len, 0) < 0) { hwloc_topology_destroy(t); return NULL; }
  out = malloc((size_t)len + 8192); o = 0;
  end = strstr(xml, "</topology>");
  /* copy without the exported <support .../> lines */
  for (p = xml; p < end; p = q) {
    q = strchr(p, '\n'); q = q ? q + 1 : end;
    if (q > end) q = end;
    if (!memmem(p, (size_t)(q - p), "<support ", 9)) { memcpy(out + o, p, (size_t)(q - p)); o += (size_t)(q - p); }
  }
  for (i = 0; names[i]; i++) {
    if (i % 7 == 3) o += (size_t)sprintf(out + o, "  <support name=\"%s\" value=\"%d\"/>\n", names[i], 2 + i % 2);
    else o += (size_t)sprintf(out + o, "  <support name=\"%s\"/>\n", names[i]);
  }
  o += (size_t)sprintf(out + o, "  <support name=\"custom.exported_support\"/>\n</topology>\n");
  out[o] = 0; *lenp = (int)o + 1;
  hwloc_free_xmlbuffer(t, xml); hwloc_topology_destroy(t);
  return out;
}
/* XML of a deep, narrow topology: pu:<g+2> with g nested Groups (PUs 0..g, 0..g-1, ..., 0..1, each a level of its own):
   g + 2 normal levels with about 2g objects, to be loaded from the XML buffer (the levels are then connected at load) */
static char *hwv_chain_xml(unsigned g, int *lenp)
{
  hwloc_topology_t t; char desc[32], *xml = NULL, *out; int len = 0; unsigned i;
  if (hwloc_topology_init(&t) < 0) return NULL;
  snprintf(desc, sizeof desc, "pu:%u", g + 2);
  if (hwloc_topology_set_synthetic(t, desc) < 0 || hwloc_topology_load(t) < 0) { hwloc_topology_destroy(t); return NULL; }
  for (i = g; i >= 1; i--) {
    hwloc_obj_t grp = hwloc_topology_alloc_group_object(t); unsigned j;
    if (!grp) break;
    grp->cpuset = hwloc_bitmap_alloc();
    for (j = 0; j <= i; j++) hwloc_bitmap_set(grp->cpuset, j);     /* PUs 0..i: nested, at least two PUs */
    if (!hwloc_topology_insert_group_object(t, grp)) break;
  }
  if (hwloc_topology_export_xmlbuffer(t, &xml, &len, 0) < 0) { hwloc_topology_destroy(t); return NULL; }
  out = malloc((size_t)len + 1); memcpy(out, xml, (size_t)len); out[len] = 0; *lenp = len;
  hwloc_free_xmlbuffer(t, xml); hwloc_topology_destroy(t);
  return out;
}

/* configuration line "src synthsupport <desc>": returns 1 if handled */
static char *hwv_supxml;
static int hwv_config_support_line(hwloc_topology_t t, const char *line)
{
  int len = 0;
  if (!strncmp(line, "src synthchain ", 15)) {
    free(hwv_supxml); hwv_supxml = hwv_chain_xml((unsigned)atoi(line + 15), &len);
    printf("config synthchain rc=%d\n", hwv_supxml ? hwloc_topology_set_xmlbuffer(t, hwv_supxml, len) : -1);
    return 1;
  }
  if (strncmp(line, "src synthsupport ", 17)) return 0;
  free(hwv_supxml); hwv_supxml = hwv_support_xml(line + 17, &len);
  unsetenv("HWLOC_THISSYSTEM");
  printf("config synthsupport rc=%d\n", hwv_supxml ? hwloc_topology_set_xmlbuffer(t, hwv_supxml, len) : -1);
  return 1;
}

/* observation as a malloc'd string */
static char *hwv_observe_str(hwloc_topology_t t, int with_xml)
{
  char *buf = NULL; size_t len = 0; FILE *f = open_memstream(&buf, &len);
  hwv_observe(f, t, with_xml); fclose(f);
  return buf;
}
/* first differing line of two texts (for diagnostics) */
static void hwv_first_diff(FILE *f, const char *a, const char *b)
{
  unsigned line = 1; const char *la = a, *lb = b;
  while (*a && *a == *b) { if (*a == '\n') { line++; la = a + 1; lb = b + 1; } a++; b++; }
  fprintf(f, " line=%u a=[%.*s] b=[%.*s]", line, (int)(strcspn(la, "\n") > 200 ? 200 : strcspn(la, "\n")), la, (int)(strcspn(lb, "\n") > 200 ? 200 : strcspn(lb, "\n")), lb);
}
#endif
