/* C11 harness (types part): same case lines as ocaml/drv_c11.ml */
#include "private/autogen/config.h"
#include "hwloc.h"
#include "private/private.h"
#include "private/misc.h"
#include <stdio.h>
#include <string.h>
int main(void)
{
  char line[256];
  while (fgets(line, sizeof line, stdin)) {
    int a, b;
    if (sscanf(line, "cmp %d %d", &a, &b) == 2)
      printf("cmp %d %d %d\n", a, b, hwloc_compare_types((hwloc_obj_type_t)a, (hwloc_obj_type_t)b));
    else if (sscanf(line, "kind %d", &a) == 1) {
      hwloc_obj_type_t t = (hwloc_obj_type_t)a;
      printf("kind %d %d %d %d %d %d %d %d\n", a, !!hwloc__obj_type_is_normal(t), !!hwloc__obj_type_is_memory(t),
             !!hwloc__obj_type_is_io(t), t == HWLOC_OBJ_MISC, !!hwloc__obj_type_is_cache(t),
             !!hwloc__obj_type_is_dcache(t), !!hwloc__obj_type_is_icache(t));
    }
  }
  return 0;
}
