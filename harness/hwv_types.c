/* C11 harness: same case lines as ocaml/drv_c11.ml, answered by the REAL code.
 *
 *   cmp a b | kind a                      hwloc_compare_types / kind predicates
 *   tsn T CD CT GD BU BD OS FLAGS         hwloc_obj_type_snprintf on a hand-made object, every size 0..needed+1
 *                                         (exactly-sized malloc blocks filled with 0xAA), then the round trip
 *                                         hwloc_type_sscanf(text) evaluated on the C side
 *   asn T TOT LOC CS CL CA BU BD BDOM BSEC BSUB PDOM PBUS PDEV PFUNC PVEN PDEVID PCLS CLSTXT LINK LINKTXT SEP FLAGS N (NAME VALUE)*
 *                                         hwloc_obj_attr_snprintf likewise (strings are hex, "-" = empty)
 *   ssc HEX ASZ | ssc! HEX ASZ            hwloc_type_sscanf on an exactly-sized malloc copy; ASZ = -1: attrp NULL;
 *                                         "ssc!" runs the call in a forked child (a sanitizer report is answered OOB)
 *   tstr T                                hwloc_obj_type_string + its round trip
 *   q cls ID | q lnk FLOAT                opaque pieces for the generator (class string, "%.2f" text)
 *   topo xml PATH | topo synthetic DESC   load; print one "obj ..." line per object (fields for tsn/asn),
 *                                         the per-level type texts, and the C-side contract check of every object
 *
 * A call that does not return within 150 ms of CPU time is answered LOOP, an
 * assert() failure ASSERT (SIGVTALRM / SIGABRT handlers jump out of the call). */
#define _GNU_SOURCE
#include "private/autogen/config.h"
#include "hwloc.h"
#include "private/private.h"
#include "private/misc.h"
#include <stdio.h>
#include <stdlib.h>
#include <string.h>
#include <signal.h>
#include <setjmp.h>
#include <unistd.h>
#include <sys/time.h>
#include <sys/wait.h>

struct hv_osdev_type_names { hwloc_obj_osdev_types_t type; const char *name; const char *longname; };
extern struct hv_osdev_type_names names[];   /* traversal.c */
static unsigned long known_os_mask(void) { unsigned long m = 0; int i; for (i = 0; i < 7; i++) m |= names[i].type; return m; }
static sigjmp_buf jb;
static unsigned long lineno;   /* input line number: identifies a case in the answers */
static void on_sig(int s) { siglongjmp(jb, s == SIGABRT ? 2 : 1); }
static void arm(void)
{
  struct itimerval it; memset(&it, 0, sizeof it); it.it_value.tv_usec = 150000;
  setitimer(ITIMER_VIRTUAL, &it, NULL);
}
static void disarm(void)
{
  struct itimerval it; memset(&it, 0, sizeof it);
  setitimer(ITIMER_VIRTUAL, &it, NULL);
}
/* st = 0 returned, 1 LOOP, 2 ASSERT */
#define GUARDED(st, stmt) do { st = sigsetjmp(jb, 1); if (!st) { arm(); stmt; disarm(); } else disarm(); } while (0)

static void hexout(const unsigned char *b, size_t n)
{
  size_t i;
  if (!n) putchar('-');
  for (i = 0; i < n; i++) printf("%02x", b[i]);
}
static size_t unhex(const char *h, unsigned char *out, size_t max)
{
  size_t n = 0;
  if (h[0] == '-') return 0;
  while (h[0] && h[1] && n < max) { unsigned v; if (sscanf(h, "%2x", &v) != 1) break; out[n++] = (unsigned char) v; h += 2; }
  return n;
}
static char *unhex_str(const char *h)
{
  size_t l = strlen(h) / 2 + 1; char *s = malloc(l + 1);
  size_t n = unhex(h, (unsigned char *) s, l); s[n] = 0; return s;
}

/* canonical rendering of hwloc_type_sscanf's observable result */
static void sscanf_result(const char *s, long asz)
{
  hwloc_obj_type_t type = (hwloc_obj_type_t) 77;
  union hwloc_obj_attr_u a, ref;
  int r;
  memset(&a, 0xa5, sizeof a); memset(&ref, 0xa5, sizeof ref);
  r = hwloc_type_sscanf(s, &type, asz < 0 ? NULL : &a, asz < 0 ? 0 : (size_t) asz);
  if (r < 0) { printf("-1%s", (type != 77 || memcmp(&a, &ref, sizeof a)) ? " STORED" : ""); return; }
  printf("0 type=%u ", (unsigned) type);
  if (!memcmp(&a, &ref, sizeof a)) printf("none");
  else if (hwloc__obj_type_is_cache(type)) printf("cache %u %d", a.cache.depth, (int) a.cache.type);
  else if (type == HWLOC_OBJ_GROUP) printf("group %u", a.group.depth);
  else if (type == HWLOC_OBJ_BRIDGE) printf("bridge %d %d", (int) a.bridge.upstream_type, (int) a.bridge.downstream_type);
  else if (type == HWLOC_OBJ_OS_DEVICE) printf("osdev %lu", (unsigned long) a.osdev.types);
  else printf("other");
}

typedef int (*printer_t)(char *, size_t, void *);
struct tsn_ctx { hwloc_obj_t obj; unsigned long flags; const char *sep; };
static int call_tsn(char *b, size_t n, void *c) { struct tsn_ctx *x = c; return hwloc_obj_type_snprintf(b, n, x->obj, x->flags); }
static int call_asn(char *b, size_t n, void *c) { struct tsn_ctx *x = c; return hwloc_obj_attr_snprintf(b, n, x->obj, x->sep, x->flags); }

/* sizes printed: all of 0..needed+1 for texts up to 96 bytes, otherwise the boundaries of the fixed-size local buffers and of the text */
static int size_wanted(size_t k, size_t need)
{
  if (need <= 96) return 1;
  return k <= 3 || (k >= 24 && k <= 26) || (k >= 31 && k <= 33) || (k >= 63 && k <= 65) || (k >= 127 && k <= 129) || k + 1 >= need;
}
/* every size 0..needed+1 on exactly-sized blocks; returns the full text (malloc) or NULL */
static char *all_sizes(const char *tag, const char *args, printer_t f, void *ctx)
{
  volatile int st; int need = 0; volatile size_t k; char *full = NULL;
  GUARDED(st, need = f(NULL, 0, ctx));
  if (st) { printf("%s#%lu %s %s\n", tag, lineno, args, st == 1 ? "LOOP" : "ASSERT"); return NULL; }
  printf("%s#%lu %s need=%d\n", tag, lineno, args, need);
  if (need < 0) return NULL;
  for (k = 0; k <= (size_t) need + 1; k++) {
    char *volatile b; int r = 0;
    if (!size_wanted(k, (size_t) need)) continue;
    b = k ? malloc(k) : NULL;
    if (k) memset(b, 0xaa, k);
    GUARDED(st, r = f(b, k, ctx));
    if (st) { printf("%s#%lu size=%zu %s\n", tag, lineno, (size_t) k, st == 1 ? "LOOP" : "ASSERT"); free(b); return NULL; }
    printf("%s#%lu size=%zu ret=%d buf=", tag, lineno, (size_t) k, r); hexout((unsigned char *) b, k); putchar('\n');
    if (k == (size_t) need + 1) full = b; else free(b);
  }
  return full;
}

static void do_tsn(char *line)
{
  unsigned t, cd, ct, gd, bu, bd; unsigned long long os, flags;
  struct hwloc_obj o; union hwloc_obj_attr_u a; struct tsn_ctx c; char *full; size_t n = strlen(line);
  while (n && (line[n-1] == '\n')) line[--n] = 0;
  if (sscanf(line, "tsn %u %u %u %u %u %u %llu %llu", &t, &cd, &ct, &gd, &bu, &bd, &os, &flags) != 8) { printf("%s BAD\n", line); return; }
#define FILL_TSN(byte) do { \
  memset(&o, byte, sizeof o); memset(&a, byte, sizeof a); o.attr = &a; o.type = (hwloc_obj_type_t) t; \
  if (hwloc__obj_type_is_cache(o.type)) { a.cache.depth = cd; a.cache.type = (hwloc_obj_cache_type_t) ct; } \
  else if (t == HWLOC_OBJ_GROUP) a.group.depth = gd; \
  else if (t == HWLOC_OBJ_BRIDGE) { a.bridge.upstream_type = (hwloc_obj_bridge_type_t) bu; a.bridge.downstream_type = (hwloc_obj_bridge_type_t) bd; } \
  else if (t == HWLOC_OBJ_OS_DEVICE) a.osdev.types = (hwloc_obj_osdev_types_t) os; } while (0)
  FILL_TSN(0);
  c.obj = &o; c.flags = (unsigned long) flags; c.sep = NULL;
  full = all_sizes("tsn", line + 4, call_tsn, &c);
  if (full) {
    char g[256]; volatile int st; int r = 0;
    printf("tsn#%lu rt ", lineno); sscanf_result(full, (long) sizeof(union hwloc_obj_attr_u)); putchar('\n');
    free(full);
    /* every other byte of the object and of the attribute union differs: the text must not */
    FILL_TSN(0x5c);
    GUARDED(st, r = hwloc_obj_type_snprintf(g, sizeof g, &o, (unsigned long) flags));
    if (st) printf("tsn#%lu garb %s\n", lineno, st == 1 ? "LOOP" : "ASSERT");
    else { printf("tsn#%lu garb ret=%d text=", lineno, r); hexout((unsigned char *) g, strlen(g)); putchar('\n'); }
  }
}

static void do_asn(char *line)
{
  /* tokens */
  char *tok[512]; int nt = 0; char *p, *save; struct hwloc_obj o; union hwloc_obj_attr_u a; struct tsn_ctx c;
  char *copy = strdup(line); size_t n = strlen(line); unsigned t, i, ninfo; char *full; struct hwloc_info_s *infos = NULL;
  while (n && (line[n-1] == '\n')) line[--n] = 0;
  for (p = strtok_r(copy, " \n", &save); p && nt < 512; p = strtok_r(NULL, " \n", &save)) tok[nt++] = p;
  if (nt < 25) { printf("%s BAD\n", line); free(copy); return; }
  memset(&o, 0, sizeof o); memset(&a, 0, sizeof a); o.attr = &a;
  t = (unsigned) strtoul(tok[1], NULL, 10); o.type = (hwloc_obj_type_t) t;
  o.total_memory = strtoull(tok[2], NULL, 10);
  if (t == HWLOC_OBJ_NUMANODE) a.numanode.local_memory = strtoull(tok[3], NULL, 10);
  else if (hwloc__obj_type_is_cache(o.type) || t == HWLOC_OBJ_MEMCACHE) {
    a.cache.size = strtoull(tok[4], NULL, 10); a.cache.linesize = (unsigned) strtoul(tok[5], NULL, 10); a.cache.associativity = (int) strtol(tok[6], NULL, 10);
  } else if (t == HWLOC_OBJ_BRIDGE || t == HWLOC_OBJ_PCI_DEVICE) {
    if (t == HWLOC_OBJ_BRIDGE) {
      a.bridge.upstream_type = (hwloc_obj_bridge_type_t) strtoul(tok[7], NULL, 10);
      a.bridge.downstream_type = (hwloc_obj_bridge_type_t) strtoul(tok[8], NULL, 10);
      a.bridge.downstream.pci.domain = (unsigned) strtoul(tok[9], NULL, 10);
      a.bridge.downstream.pci.secondary_bus = (unsigned char) strtoul(tok[10], NULL, 10);
      a.bridge.downstream.pci.subordinate_bus = (unsigned char) strtoul(tok[11], NULL, 10);
    }
    a.pcidev.domain = (unsigned) strtoul(tok[12], NULL, 10); a.pcidev.bus = (unsigned char) strtoul(tok[13], NULL, 10);
    a.pcidev.dev = (unsigned char) strtoul(tok[14], NULL, 10); a.pcidev.func = (unsigned char) strtoul(tok[15], NULL, 10);
    a.pcidev.vendor_id = (unsigned short) strtoul(tok[16], NULL, 10); a.pcidev.device_id = (unsigned short) strtoul(tok[17], NULL, 10);
    a.pcidev.class_id = (unsigned short) strtoul(tok[18], NULL, 10);
    a.pcidev.linkspeed = strtof(tok[20], NULL);
  }
  c.sep = unhex_str(tok[22]); c.flags = strtoul(tok[23], NULL, 10); c.obj = &o;
  ninfo = (unsigned) strtoul(tok[24], NULL, 10);
  if ((int) (25 + 2 * ninfo) > nt) { printf("%s BAD\n", line); free(copy); return; }
  if (ninfo) {
    infos = calloc(ninfo, sizeof *infos);
    for (i = 0; i < ninfo; i++) { infos[i].name = unhex_str(tok[25 + 2*i]); infos[i].value = unhex_str(tok[26 + 2*i]); }
  }
  o.infos.array = infos; o.infos.count = ninfo; o.infos.allocated = ninfo;
  full = all_sizes("asn", line + 4, call_asn, &c);
  free(full);
  for (i = 0; i < ninfo; i++) { free(infos[i].name); free(infos[i].value); }
  free(infos); free((char *) c.sep); free(copy);
}

static void do_ssc(char *line)
{
  char hex[4096]; long asz; int forked = line[3] == '!'; unsigned char *raw; size_t n; char *s;
  if (sscanf(line + (forked ? 4 : 3), " %4095s %ld", hex, &asz) != 2) { printf("ssc BAD\n"); return; }
  raw = malloc(strlen(hex) / 2 + 1); n = unhex(hex, raw, strlen(hex) / 2 + 1);
  s = malloc(n + 1); memcpy(s, raw, n); s[n] = 0;   /* exactly-sized: the terminator is the last byte of the block */
  printf("ssc %s %ld -> ", hex, asz);
  if (!forked) sscanf_result(s, asz);
  else {
    pid_t pid; int status = 0;
    fflush(stdout);
    pid = fork();
    if (pid == 0) {
      if (!freopen("/dev/null", "w", stderr)) _exit(3);
      sscanf_result(s, asz); fflush(stdout); _exit(0);
    }
    waitpid(pid, &status, 0);
    if (!(WIFEXITED(status) && WEXITSTATUS(status) == 0)) printf("OOB");
  }
  putchar('\n');
  free(s); free(raw);
}

/* ---------------- real topologies ---------------- */
static void obj_line(hwloc_obj_t o)
{
  unsigned t = o->type, i;
  unsigned cd = 0, ct = 0, gd = 0, bu = 0, bd = 0; unsigned long os = 0;
  unsigned long long loc = 0, cs = 0; unsigned cl = 0; int ca = 0;
  unsigned bdom = 0, bsec = 0, bsub = 0, pdom = 0, pbus = 0, pdev = 0, pfunc = 0, pven = 0, pdevid = 0, pcls = 0; float link = 0;
  char lt[64];
  if (hwloc__obj_type_is_cache(o->type) || t == HWLOC_OBJ_MEMCACHE) {
    cd = o->attr->cache.depth; ct = o->attr->cache.type; cs = o->attr->cache.size; cl = o->attr->cache.linesize; ca = o->attr->cache.associativity;
  } else if (t == HWLOC_OBJ_GROUP) gd = o->attr->group.depth;
  else if (t == HWLOC_OBJ_NUMANODE) loc = o->attr->numanode.local_memory;
  else if (t == HWLOC_OBJ_OS_DEVICE) os = o->attr->osdev.types;
  if (t == HWLOC_OBJ_BRIDGE) {
    bu = o->attr->bridge.upstream_type; bd = o->attr->bridge.downstream_type;
    bdom = o->attr->bridge.downstream.pci.domain; bsec = o->attr->bridge.downstream.pci.secondary_bus; bsub = o->attr->bridge.downstream.pci.subordinate_bus;
  }
  if (t == HWLOC_OBJ_BRIDGE || t == HWLOC_OBJ_PCI_DEVICE) {
    pdom = o->attr->pcidev.domain; pbus = o->attr->pcidev.bus; pdev = o->attr->pcidev.dev; pfunc = o->attr->pcidev.func;
    pven = o->attr->pcidev.vendor_id; pdevid = o->attr->pcidev.device_id; pcls = o->attr->pcidev.class_id; link = o->attr->pcidev.linkspeed;
  }
  /* obj <tsn fields> | <asn fields up to LINKTXT> | N infos */
  printf("obj depth=%d tsn %u %u %u %u %u %u %lu | asn %u %llu %llu %llu %u %d %u %u %u %u %u %u %u %u %u %u %u %u ",
         o->depth, t, cd, ct, gd, bu, bd, os, t, (unsigned long long) o->total_memory, loc, cs, cl, ca, bu, bd, bdom, bsec, bsub,
         pdom, pbus, pdev, pfunc, pven, pdevid, pcls);
  hexout((const unsigned char *) hwloc_pci_class_string((unsigned short) pcls), strlen(hwloc_pci_class_string((unsigned short) pcls)));
  snprintf(lt, sizeof lt, "%.2f", link);
  printf(" %a ", (double) link); hexout((unsigned char *) lt, strlen(lt));
  printf(" | %u", o->infos.count);
  for (i = 0; i < o->infos.count; i++) {
    putchar(' '); hexout((unsigned char *) o->infos.array[i].name, strlen(o->infos.array[i].name));
    putchar(' '); hexout((unsigned char *) o->infos.array[i].value, strlen(o->infos.array[i].value));
  }
  putchar('\n');
}

/* the length contract evaluated on the C side for one real object and one flag word */
static unsigned long contract_evals;
static int contract_obj(printer_t f, struct tsn_ctx *c, const char *what)
{
  volatile int st; int need = 0, bad = 0; size_t k; char *full;
  GUARDED(st, need = f(NULL, 0, c));
  if (st) { printf("robj %s gp=%llu type=%u flags=%lu %s\n", what, (unsigned long long) c->obj->gp_index, (unsigned) c->obj->type, c->flags, st == 1 ? "LOOP" : "ASSERT"); return 1; }
  full = malloc((size_t) need + 1);
  GUARDED(st, f(full, (size_t) need + 1, c));
  if (st) { free(full); return 1; }
  if (strlen(full) != (size_t) need) { printf("robj %s gp=%llu flags=%lu BAD full strlen=%zu need=%d\n", what, (unsigned long long) c->obj->gp_index, c->flags, strlen(full), need); bad = 1; }
  for (k = 1; k <= (size_t) need + 1 && !bad; k++) {
    char *b = malloc(k); int r;
    memset(b, 0xaa, k);
    r = f(b, k, c); contract_evals++;
    if (r != need || b[k - 1 < (size_t) need ? k - 1 : (size_t) need] != 0 || memcmp(b, full, k - 1 < (size_t) need ? k - 1 : (size_t) need)) {
      printf("robj %s gp=%llu flags=%lu BAD size=%zu ret=%d need=%d\n", what, (unsigned long long) c->obj->gp_index, c->flags, k, r, need); bad = 1;
    }
    free(b);
  }
  free(full);
  return bad;
}

/* post-load modification history: ops separated by '|'
 *   g TYPE FIRST LAST [DM [KIND]]  hwloc_topology_insert_group_object of the union of objects FIRST..LAST of TYPE
 *                            (dont_merge = DM; group.kind = KIND when given; the same range twice re-inserts a Group
 *                            with the cpuset of an existing one: merged, or replacing its contents when DM=1 / smaller kind)
 *   r CPUSET FLAGS           hwloc_topology_restrict (CPUSET in hwloc_bitmap_sscanf syntax)
 *   dg TYPE K                latency matrix over all objects of TYPE, blocks of K close objects, added with ADD_FLAG_GROUP
 * prints one "hist ..." line per op */
#include "hwloc/distances.h"
static void apply_history(hwloc_topology_t t, const char *hist, int quiet)
{
#define HPRINTF(...) do { if (!quiet) printf(__VA_ARGS__); } while (0)
  char *copy = strdup(hist), *op, *save;
  for (op = strtok_r(copy, "|", &save); op; op = strtok_r(NULL, "|", &save)) {
    unsigned ty, a, b, dm = 0, kind = 0; unsigned long fl; char set[1024]; int nf;
    while (*op == ' ') op++;
    if ((nf = sscanf(op, "g %u %u %u %u %u", &ty, &a, &b, &dm, &kind)) >= 3) {
      hwloc_obj_t g = hwloc_topology_alloc_group_object(t), res; unsigned k, n = 0;
      if (!g) { HPRINTF("hist g alloc-failed\n"); continue; }
      for (k = a; k <= b; k++) { hwloc_obj_t o = hwloc_get_obj_by_type(t, (hwloc_obj_type_t) ty, k); if (o && o->cpuset) { hwloc_obj_add_other_obj_sets(g, o); n++; } }
      g->attr->group.dont_merge = (unsigned char) (dm != 0);
      if (nf >= 5) g->attr->group.kind = kind;
      res = hwloc_topology_insert_group_object(t, g);
      HPRINTF("hist g %u %u-%u dm=%u members=%u %s\n", ty, a, b, dm, n, !res ? "null" : res == g ? "inserted" : "merged");
    } else if (sscanf(op, "r %1023s %lu", set, &fl) == 2) {
      hwloc_bitmap_t bm = hwloc_bitmap_alloc(); int rc;
      hwloc_bitmap_sscanf(bm, set);
      rc = hwloc_topology_restrict(t, bm, fl);
      HPRINTF("hist r %s %lu rc=%d\n", set, fl, rc);
      hwloc_bitmap_free(bm);
    } else if (sscanf(op, "dg %u %u", &ty, &a) == 2 && a) {
      unsigned n = (unsigned) hwloc_get_nbobjs_by_type(t, (hwloc_obj_type_t) ty), i, j; int rc = -1;
      if (n >= 2 && n <= 64) {
        hwloc_obj_t *objs = malloc(n * sizeof *objs); hwloc_uint64_t *v = malloc(n * n * sizeof *v);
        hwloc_distances_add_handle_t h;
        for (i = 0; i < n; i++) objs[i] = hwloc_get_obj_by_type(t, (hwloc_obj_type_t) ty, i);
        for (i = 0; i < n; i++) for (j = 0; j < n; j++) v[i * n + j] = i == j ? 10 : (i / a == j / a ? 20 : 40);
        h = hwloc_distances_add_create(t, NULL, HWLOC_DISTANCES_KIND_FROM_USER | HWLOC_DISTANCES_KIND_VALUE_LATENCY, 0);
        if (h && hwloc_distances_add_values(t, h, n, objs, v, 0) == 0) rc = hwloc_distances_add_commit(t, h, HWLOC_DISTANCES_ADD_FLAG_GROUP);
        free(objs); free(v);
      }
      HPRINTF("hist dg %u %u n=%u rc=%d\n", ty, a, n, rc);
    } else HPRINTF("hist BAD %s\n", op);
  }
  free(copy);
}

static void do_topo(char *line)
{
  hwloc_topology_t t; int depth, d, err; hwloc_obj_t o; size_t n = strlen(line);
  static const int special[] = { HWLOC_TYPE_DEPTH_NUMANODE, HWLOC_TYPE_DEPTH_MEMCACHE, HWLOC_TYPE_DEPTH_BRIDGE,
                                 HWLOC_TYPE_DEPTH_PCI_DEVICE, HWLOC_TYPE_DEPTH_OS_DEVICE, HWLOC_TYPE_DEPTH_MISC };
  static const unsigned long fl[] = { 0, 2, 4, 6, 1, 8, 16, 40, 63 };
  unsigned long nobj = 0, nbad = 0; unsigned i, fi;
  char *hist; static char src[1 << 16];
  while (n && (line[n-1] == '\n')) line[--n] = 0;
  hist = strchr(line, '|');                       /* "topo <source> | op | op ..." */
  snprintf(src, sizeof src, "%s", line);
  if (hist) { size_t k = (size_t) (hist - line); while (k && src[k-1] == ' ') k--; src[k] = 0; }
  hwloc_topology_init(&t);
  hwloc_topology_set_all_types_filter(t, HWLOC_TYPE_FILTER_KEEP_ALL);
  if (!strncmp(src, "topo xml ", 9)) err = hwloc_topology_set_xml(t, src + 9);
  else if (!strncmp(src, "topo synthetic ", 15)) err = hwloc_topology_set_synthetic(t, src + 15);
  else err = -1;
  if (err < 0 || hwloc_topology_load(t) < 0) { printf("%s LOADFAIL\n", line); hwloc_topology_destroy(t); return; }
  printf("%s LOADED\n", line);
  if (hist) apply_history(t, hist + 1, 0);
  depth = hwloc_topology_get_depth(t);
  for (i = 0; i < (unsigned) depth + 6; i++) {
    d = i < (unsigned) depth ? (int) i : special[i - depth];
    for (fi = 0; fi < 2; fi++) {
      /* all objects of one level print the same type text? (count distinct) */
      char first[128] = "", cur[128], other[128] = ""; unsigned cnt = 0, differ = 0; volatile int st;
      o = NULL;
      while ((o = hwloc_get_next_obj_by_depth(t, d, o)) != NULL) {
        GUARDED(st, hwloc_obj_type_snprintf(cur, sizeof cur, o, fl[fi]));
        if (st) { strcpy(cur, st == 1 ? "<LOOP>" : "<ASSERT>"); }
        if (!cnt) strcpy(first, cur); else if (strcmp(first, cur)) { if (!differ) strcpy(other, cur); differ++; }
        cnt++;
      }
      if (cnt) printf("level %d flags=%lu n=%u differ=%u first=%s%s%s\n", d, fl[fi], cnt, differ, first, differ ? " other=" : "", differ ? other : "");
    }
    o = NULL;
    while ((o = hwloc_get_next_obj_by_depth(t, d, o)) != NULL) {
      struct tsn_ctx c; c.obj = o; c.sep = " ";
      nobj++;
      obj_line(o);
      for (fi = 0; fi < sizeof fl / sizeof *fl; fi++) {
        c.flags = fl[fi];
        nbad += contract_obj(call_tsn, &c, "type");
        nbad += contract_obj(call_asn, &c, "attr");
      }
      /* object type <-> cache.depth / cache.type attributes (what the printed letter is made of) */
      if (hwloc__obj_type_is_cache(o->type)
          && (hwloc_cache_type_by_depth_type(o->attr->cache.depth, o->attr->cache.type) != o->type
              || (hwloc__obj_type_is_icache(o->type) != (o->attr->cache.type == HWLOC_OBJ_CACHE_INSTRUCTION)))) {
        printf("robj cacheattr gp=%llu type=%u flags=0 BAD cache.depth=%u cache.type=%d do not belong to this object type\n",
               (unsigned long long) o->gp_index, (unsigned) o->type, o->attr->cache.depth, (int) o->attr->cache.type); nbad++;
      }
      /* round trip on the real object, flags without SHORT_NAMES */
      for (fi = 0; fi < 2; fi++) {
        char b[128]; volatile int st; hwloc_obj_type_t ty; union hwloc_obj_attr_u a; int r, ok;
        GUARDED(st, hwloc_obj_type_snprintf(b, sizeof b, o, fi ? 2 : 0));
        if (st) continue;   /* reported by contract_obj */
        r = hwloc_type_sscanf(b, &ty, &a, sizeof a);
        ok = r == 0 && ty == o->type;
        if (ok && hwloc__obj_type_is_cache(ty)) ok = a.cache.depth == o->attr->cache.depth && a.cache.type == o->attr->cache.type;
        if (ok && ty == HWLOC_OBJ_GROUP) ok = a.group.depth == o->attr->group.depth;
        if (ok && ty == HWLOC_OBJ_BRIDGE) ok = a.bridge.upstream_type == o->attr->bridge.upstream_type && a.bridge.downstream_type == o->attr->bridge.downstream_type;
        if (ok && ty == HWLOC_OBJ_OS_DEVICE) ok = a.osdev.types == (o->attr->osdev.types & known_os_mask());   /* bits without a name cannot be printed */
        if (!ok) { printf("robj roundtrip gp=%llu type=%u flags=%d BAD text=%s r=%d\n", (unsigned long long) o->gp_index, (unsigned) o->type, fi ? 2 : 0, b, r); nbad++; }
        else {
          /* the text designates the level the object lives in */
          int dd = -99; hwloc_obj_type_t ty2;
          /* (a non-Group type living at several depths of an asymmetric topology has no text per level: MULTIPLE) */
          if (hwloc_type_sscanf_as_depth(b, &ty2, t, &dd) < 0
              || (dd != o->depth && !(dd == HWLOC_TYPE_DEPTH_MULTIPLE && o->type != HWLOC_OBJ_GROUP && hwloc_get_type_depth(t, o->type) == HWLOC_TYPE_DEPTH_MULTIPLE))) {
            printf("robj leveldepth gp=%llu type=%u flags=%d BAD text=%s designates depth %d, the object is at depth %d\n",
                   (unsigned long long) o->gp_index, (unsigned) o->type, fi ? 2 : 0, b, dd, o->depth); nbad++;
          }
        }
      }
    }
  }
  printf("%s DONE objs=%lu bad=%lu contract_evals=%lu\n", line, nobj, nbad, contract_evals);
  hwloc_topology_destroy(t);
}

/* ---------------- class strings, memory tiers, type_sscanf_as_depth ---------------- */
static void do_clsweep(int lo, int hi)
{
  int id;
  for (id = lo; id < hi; id++) {
    struct hwloc_obj o; union hwloc_obj_attr_u a; char b[256];
    memset(&o, 0, sizeof o); memset(&a, 0, sizeof a); o.attr = &a; o.type = HWLOC_OBJ_PCI_DEVICE;
    a.pcidev.class_id = (unsigned short) id;
    hwloc_obj_attr_snprintf(b, sizeof b, &o, " ", HWLOC_OBJ_SNPRINTF_FLAG_MORE_ATTRS);
    printf("cls %d ", id); hexout((unsigned char *) b, strlen(b)); putchar('\n');
  }
}

/* HWLOC_MEMTIERS="0x1=<name>" forces the tier of NUMA node 0: its subtype becomes
 * hwloc_memory_tier_type_snprintf(hwloc_memory_tier_type_sscanf(name)) (NULL: left unset) */
static void do_tier(const char *hex)
{
  char *name = unhex_str(hex), *env; hwloc_topology_t t; hwloc_obj_t n0, n1;
  env = malloc(strlen(name) + 8); sprintf(env, "0x1=%s", name);
  setenv("HWLOC_MEMTIERS", env, 1);
  hwloc_topology_init(&t); hwloc_topology_set_synthetic(t, "node:2 pu:1");
  printf("tier %s -> ", hex);
  if (hwloc_topology_load(t) < 0) printf("LOADFAIL");
  else {
    n0 = hwloc_get_obj_by_type(t, HWLOC_OBJ_NUMANODE, 0); n1 = hwloc_get_obj_by_type(t, HWLOC_OBJ_NUMANODE, 1);
    if (n0->subtype) hexout((unsigned char *) n0->subtype, strlen(n0->subtype)); else printf("NULL");
    if (n1->subtype) printf(" OTHER-NODE-MARKED");
  }
  putchar('\n');
  hwloc_topology_destroy(t); unsetenv("HWLOC_MEMTIERS"); free(env); free(name);
}

static hwloc_topology_t cur_topo; static char cur_src[4096];
static hwloc_topology_t get_topo(const char *src)
{
  char tmp[4096]; char *p; int err;
  if (cur_topo && !strcmp(src, cur_src)) return cur_topo;
  if (cur_topo) { hwloc_topology_destroy(cur_topo); cur_topo = NULL; }
  hwloc_topology_init(&cur_topo);
  hwloc_topology_set_all_types_filter(cur_topo, HWLOC_TYPE_FILTER_KEEP_ALL);
  snprintf(tmp, sizeof tmp, "%s", src);
  { char *h = strchr(tmp, '|'); if (h) *h = 0; }
  if (!strncmp(tmp, "synthetic_", 10)) { for (p = tmp; *p; p++) if (*p == '_') *p = ' '; err = hwloc_topology_set_synthetic(cur_topo, tmp + 10); }
  else if (!strncmp(tmp, "xml_", 4)) err = hwloc_topology_set_xml(cur_topo, tmp + 4);
  else err = -1;
  if (err < 0 || hwloc_topology_load(cur_topo) < 0) { hwloc_topology_destroy(cur_topo); cur_topo = NULL; cur_src[0] = 0; return NULL; }
  if (strchr(src, '|')) {      /* post-load history, blanks written as '_' */
    char *h = strdup(strchr(src, '|') + 1), *q;
    for (q = h; *q; q++) if (*q == '_') *q = ' ';
    apply_history(cur_topo, h, 1);     /* the "hist" lines are not part of the lv/sad/gtd answers */
    free(h);
  }
  snprintf(cur_src, sizeof cur_src, "%s", src);
  return cur_topo;
}
/* what the two functions read of the topology, and the type text of every normal level */
static void do_lv(const char *src)
{
  hwloc_topology_t t = get_topo(src); int d, depth; unsigned ty;
  if (!t) { printf("lv %s LOADFAIL\n", src); return; }
  depth = hwloc_topology_get_depth(t);
  printf("lv %s levels=", src);
  for (d = 0; d < depth; d++) {
    hwloc_obj_t o = hwloc_get_obj_by_depth(t, d, 0);
    printf("%s%u:%u", d ? "," : "", (unsigned) o->type, o->type == HWLOC_OBJ_GROUP ? o->attr->group.depth : 0u);
  }
  printf(" tdepths=");
  for (ty = 0; ty < HWLOC_OBJ_TYPE_MAX; ty++) printf("%s%d", ty ? "," : "", hwloc_get_type_depth(t, (hwloc_obj_type_t) ty));
  printf(" texts=");
  for (d = 0; d < depth; d++) {
    char b[64]; hwloc_obj_t o = hwloc_get_obj_by_depth(t, d, 0);
    hwloc_obj_type_snprintf(b, sizeof b, o, 0); printf("%s", d ? "," : ""); hexout((unsigned char *) b, strlen(b));
    hwloc_obj_type_snprintf(b, sizeof b, o, HWLOC_OBJ_SNPRINTF_FLAG_LONG_NAMES); putchar('/'); hexout((unsigned char *) b, strlen(b));
  }
  putchar('\n');
}
static void do_sad(char *line)
{
  char src[4096], lv[8192], td[512], hex[4096]; hwloc_topology_t t; char *s; size_t n; unsigned char *raw;
  hwloc_obj_type_t type = (hwloc_obj_type_t) 77; int depth = -99, depth2 = -99, r, r2;
  if (sscanf(line, "sad %4095s %8191s %511s %4095s", src, lv, td, hex) != 4) { printf("sad BAD\n"); return; }
  t = get_topo(src);
  if (!t) { printf("sad %s %s -> LOADFAIL\n", src, hex); return; }
  raw = malloc(strlen(hex) / 2 + 1); n = unhex(hex, raw, strlen(hex) / 2 + 1);
  s = malloc(n + 1); memcpy(s, raw, n); s[n] = 0;
  r = hwloc_type_sscanf_as_depth(s, &type, t, &depth);
  r2 = hwloc_type_sscanf_as_depth(s, NULL, t, &depth2);      /* typep may be NULL */
  printf("sad %s %s -> ", src, hex);
  if (r < 0) printf("-1%s", (type != 77 || depth != -99) ? " STORED" : "");
  else printf("0 type=%u depth=%d", (unsigned) type, depth);
  if (r2 != r || depth2 != depth) printf(" NULLTYPEP-DIFFERS(%d,%d)", r2, depth2);
  putchar('\n');
  free(s); free(raw);
}
static void do_gtd(char *line)
{
  char src[4096], lv[8192], td[512], gd[32]; unsigned ty; unsigned long asz; hwloc_topology_t t; union hwloc_obj_attr_u a; int d;
  if (sscanf(line, "gtd %4095s %8191s %511s %u %31s %lu", src, lv, td, &ty, gd, &asz) != 6) { printf("gtd BAD\n"); return; }
  t = get_topo(src);
  if (!t) { printf("gtd %s -> LOADFAIL\n", src); return; }
  memset(&a, 0xa5, sizeof a);
  if (gd[0] != '-') a.group.depth = (unsigned) strtoul(gd, NULL, 10);
  d = hwloc_get_type_depth_with_attr(t, (hwloc_obj_type_t) ty, gd[0] == '-' ? NULL : &a, (size_t) asz);
  printf("gtd %s %u %s %lu -> %d\n", src, ty, gd, asz, d);
}

int main(void)
{
  static char line[1 << 20];
  struct sigaction sa; memset(&sa, 0, sizeof sa); sa.sa_handler = on_sig; sigemptyset(&sa.sa_mask); sa.sa_flags = SA_NODEFER;
  sigaction(SIGVTALRM, &sa, NULL); sigaction(SIGABRT, &sa, NULL);
  setvbuf(stdout, NULL, _IOFBF, 1 << 16);
  while (fgets(line, sizeof line, stdin)) {
    int a, b;
    lineno++;
    if (sscanf(line, "cmp %d %d", &a, &b) == 2)
      printf("cmp %d %d %d\n", a, b, hwloc_compare_types((hwloc_obj_type_t)a, (hwloc_obj_type_t)b));
    else if (sscanf(line, "kind %d", &a) == 1) {
      hwloc_obj_type_t t = (hwloc_obj_type_t)a;
      printf("kind %d %d %d %d %d %d %d %d\n", a, !!hwloc__obj_type_is_normal(t), !!hwloc__obj_type_is_memory(t),
             !!hwloc__obj_type_is_io(t), t == HWLOC_OBJ_MISC, !!hwloc__obj_type_is_cache(t),
             !!hwloc__obj_type_is_dcache(t), !!hwloc__obj_type_is_icache(t));
    }
    else if (!strncmp(line, "tsn ", 4)) do_tsn(line);
    else if (!strncmp(line, "asn ", 4)) do_asn(line);
    else if (!strncmp(line, "ssc", 3)) do_ssc(line);
    else if (sscanf(line, "tstr %d", &a) == 1) {
      const char *s = hwloc_obj_type_string((hwloc_obj_type_t) a);
      printf("tstr %d ", a); hexout((const unsigned char *) s, strlen(s)); printf(" rt "); sscanf_result(s, (long) sizeof(union hwloc_obj_attr_u)); putchar('\n');
    }
    else if (sscanf(line, "q cls %d", &a) == 1) {
      const char *s = hwloc_pci_class_string((unsigned short) a);
      printf("q cls %d ", a); hexout((const unsigned char *) s, strlen(s)); putchar('\n');
    }
    else if (!strncmp(line, "q lnk ", 6)) {
      char lt[64]; float f = strtof(line + 6, NULL);
      snprintf(lt, sizeof lt, "%.2f", f);
      printf("q lnk %a ", (double) f); hexout((unsigned char *) lt, strlen(lt)); putchar('\n');
    }
    else if (!strncmp(line, "topo ", 5)) do_topo(line);
    else if (sscanf(line, "clsweep %d %d", &a, &b) == 2) do_clsweep(a, b);
    else if (!strncmp(line, "tier ", 5)) { char h[4096]; if (sscanf(line + 5, "%4095s", h) == 1) do_tier(h); }
    else if (!strncmp(line, "lv ", 3)) { char h[4096]; if (sscanf(line + 3, "%4095s", h) == 1) do_lv(h); }
    else if (!strncmp(line, "sad ", 4)) do_sad(line);
    else if (!strncmp(line, "gtd ", 4)) do_gtd(line);
    fflush(stdout);   /* so that the last answered line identifies a crashing case */
  }
  if (cur_topo) hwloc_topology_destroy(cur_topo);
  return 0;
}
