/* C19 harness: hwloc_shmem_topology_get_length / write / adopt on the real library.
 * Script on stdin (same configuration / "pre <op>" lines as hwv_dup.c, whose code is included):
 *   new / <config> / load / pre <op> ...
 *   republish <k> <seed>    previous content of the target region: T0 = A, T1 = a bigger copy of A; reference images in fresh files, then every
 *                           pre-fill (zeros, 0xFF, 0x5A, random, XML text) x {T0,T1}, then T1,T0,T0,T1,T1,T0 on one file at the same offset/address:
 *     rewrite <label> rc=..|SIG<n> / image <label> same|DIFF off= got= want= / readopt <label> obscmp same|DIFF..|SIG<n>|rc=-1:ERR
 *   sweep <first> <count> [op]  (op applied at every step, '@' = the set {PU#step})
 *   sweep <first> <count>   for i in first..first+count-1: root info "hwvpad" of 7+8i bytes, then the length/write/file part of "shmem 0"
 *   shmem <k>       store A in a file at offset k pages, adopt it in a forked child, exercise the adopted copy:
 *     length rc= len=                    hwloc_shmem_topology_get_length
 *     allocseq0 n s...                   sizes requested by hwloc__topology_dup(A) under a logging tma: what get_length counts
 *     allocseq n s...                    the same after the refresh hwloc_shmem_topology_write performs: what is written
 *     write <rc=..errno=..|SIG<n>>       hwloc_shmem_topology_write in a forked child; the page after the mapping is PROT_NONE
 *     file size=ok|BAD prefix=ok|BAD tail=ok|BAD:<off> suffix=ok|BAD used=<bytes>   the page before the offset untouched, bytes after the
 *                                        used area still 0, the page stored after offset+len (another user of the file) still there
 *     reject <case> rc= errno=           adoption with a wrong argument / header / busy range
 *     rejectsweep <field> tried= einval= every single-bit flip of header_version, header_length, mmap_address, mmap_length and of the stored
 *                                        topology ABI (plus abi+-1, +-0x100, 0x38000, other majors): all must give EINVAL; the others are "reject" lines
 *     adopt rc= errno=
 *     ptrrange ok|BAD blocks= outside=   every block of the adopted topology lies inside the mapping ("ptrrange OUTSIDE <field>" lines otherwise)
 *     obscmp same|DIFF ...               observation of the adopted copy (in a grandchild: a fault is a result)
 *     B <dump>                           canonical dump of the adopted copy (wf_check by the driver)
 *     call <name> <ok|rc=-1:ERR|SIG<n>> file=same|CHANGED      every call in its own grandchild
 *     destroyed unmapped=yes|no
 */
#define main hwv_dup_main
#include "hwv_dup.c"
#undef main
#include <sys/mman.h>
#include <sys/wait.h>
#include <sys/stat.h>
#include <fcntl.h>
#include <signal.h>
#include <hwloc/diff.h>

/* checksum of the part of the file in use: [FS_LO, FS_HI) (the file may be sparse and huge below FS_LO) */
static off_t FS_LO, FS_HI;
static unsigned long long file_sum(int fd)
{
  unsigned long long h = 1469598103934665603ull; unsigned char buf[65536]; ssize_t n; off_t o = FS_LO;
  while (o < FS_HI && (n = pread(fd, buf, (size_t)(FS_HI - o) < sizeof buf ? (size_t)(FS_HI - o) : sizeof buf, o)) > 0) { ssize_t i; for (i = 0; i < n; i++) { h ^= buf[i]; h *= 1099511628211ull; } o += n; }
  return h;
}

/* run f(arg) in a forked process; returns exit status (0..255) or -signal */
static int in_child(int (*f)(void *), void *arg)
{
  pid_t p; int st = 0;
  fflush(stdout);
  p = fork();
  if (!p) { int r; signal(SIGSEGV, SIG_DFL); signal(SIGBUS, SIG_DFL); r = f(arg); fflush(stdout); _exit(r & 255); }
  waitpid(p, &st, 0);
  if (WIFSIGNALED(st)) return -WTERMSIG(st);
  if (WEXITSTATUS(st) == 97) return -SIGSEGV;       /* AddressSanitizer turns the fault into exit code 97 */
  return WEXITSTATUS(st);
}

/* the parent keeps [RES_ADDR, RES_ADDR+RES_LEN) reserved PROT_NONE (so that none of its own allocations lands there) followed by one more
   PROT_NONE page; the process that maps the file frees the range first */
static void *RES_ADDR; static size_t RES_LEN;
static void free_range(void) { if (RES_ADDR && RES_LEN) munmap(RES_ADDR, RES_LEN); }
struct wr { hwloc_topology_t t; int fd; unsigned long long off; void *addr; size_t len; };
static int do_write(void *a)
{
  struct wr *w = a; int rc; free_range(); errno = 0;
  rc = hwloc_shmem_topology_write(w->t, w->fd, w->off, w->addr, w->len, 0);
  printf("write rc=%d errno=%s\n", rc, rc < 0 ? hwv_errno_class(errno) : "0");
  return 0;
}

/* the calls exercised on the adopted topology; each returns 0 and prints its own outcome word */
static hwloc_topology_t ADOPTED, ORIG;
static const char *outcome(int rc, int e) { static char b[64]; if (rc >= 0) return "ok"; if (rc == -2) return "skipped"; /* the harness could not build the arguments (missing object) */ snprintf(b, sizeof b, "rc=-1:%s", hwv_errno_class(e)); return b; }
#define CALL(name, expr) static int c_##name(void *u) { hwloc_topology_t t = ADOPTED; int rc, e; (void)u; errno = 0; rc = (expr); e = errno; printf("%s", outcome(rc, e)); return 0; }
static int op_rc(hwloc_topology_t t, const char *op) { char buf[256]; int h; snprintf(buf, sizeof buf, "%s", op); return apply_op(t, buf, &h); }
CALL(restrict, op_rc(t, "robj 1004 0 0"))
CALL(insert_misc, op_rc(t, "misc 0 0 m"))
CALL(insert_group, op_rc(t, "gobj 1004 0 1"))
CALL(distances_add, op_rc(t, "distadd 1004 2 6 0 1"))
CALL(distances_remove, hwloc_distances_remove(t))
CALL(distances_remove_by_depth, hwloc_distances_remove_by_depth(t, 0))
CALL(memattr_register, op_rc(t, "mreg zzz 1"))
CALL(memattr_set_value, op_rc(t, "mset 8 0 - 5"))
CALL(memattr_set_value_builtin, op_rc(t, "mseto 2 0 1004 0 5"))
CALL(cpukinds_register, op_rc(t, "kobj 1004 0 1 a b"))
CALL(obj_add_info, op_rc(t, "info 0 0 a b"))
CALL(topology_infos_add, op_rc(t, "tinfo a b"))
CALL(refresh, hwloc_topology_refresh(t))
CALL(allow_all, hwloc_topology_allow(t, NULL, NULL, HWLOC_ALLOW_FLAG_ALL))
CALL(allow_local, hwloc_topology_allow(t, NULL, NULL, HWLOC_ALLOW_FLAG_LOCAL_RESTRICTIONS))
CALL(set_userdata, (hwloc_topology_set_userdata(t, &ADOPTED), 0))
CALL(set_flags, hwloc_topology_set_flags(t, 0))
CALL(set_synthetic, hwloc_topology_set_synthetic(t, "pu:1"))
CALL(load_again, hwloc_topology_load(t))
CALL(check, (hwloc_topology_check(t), 0))
static int c_distances_release_remove(void *u)
{
  hwloc_topology_t t = ADOPTED; struct hwloc_distances_s *ds[1]; unsigned nr = 1; int rc, e; (void)u;
  if (hwloc_distances_get(t, &nr, ds, 0, 0) < 0 || !nr) { printf("skipped"); return 0; }
  errno = 0; rc = hwloc_distances_release_remove(t, ds[0]); e = errno;
  printf("%s", outcome(rc, e)); return 0;
}
CALL(obj_set_subtype, hwloc_obj_set_subtype(t, hwloc_get_root_obj(t), "hwv"))
static int c_obj_set_subtype_existing(void *u)
{
  hwloc_topology_t t = ADOPTED; hwloc_obj_t o = NULL; int rc, e; (void)u;
  while ((o = hwloc_get_next_obj_by_type(t, HWLOC_OBJ_PU, o)) != NULL) if (o->subtype) break;
  if (!o) { o = hwloc_get_root_obj(t); if (!o->subtype) { printf("skipped"); return 0; } }
  errno = 0; rc = hwloc_obj_set_subtype(t, o, NULL); e = errno;      /* frees the mapped string */
  printf("%s", outcome(rc, e)); return 0;
}
static int c_diff_apply(void *u)
{
  hwloc_topology_t t = ADOPTED; struct hwloc_topology_diff_obj_attr_s d; int rc, e; (void)u;
  memset(&d, 0, sizeof d);
  d.type = HWLOC_TOPOLOGY_DIFF_OBJ_ATTR; d.next = NULL; d.obj_depth = 0; d.obj_index = 0;
  d.diff.string.type = HWLOC_TOPOLOGY_DIFF_OBJ_ATTR_NAME; d.diff.string.name = NULL; d.diff.string.oldvalue = (char *)"x"; d.diff.string.newvalue = (char *)"y";
  errno = 0; rc = hwloc_topology_diff_apply(t, (hwloc_topology_diff_t)&d, 0); e = errno;
  printf("%s", outcome(rc, e)); return 0;
}
static int c_dup_adopted(void *u)
{
  hwloc_topology_t t = ADOPTED, c = NULL; int rc, e; (void)u; errno = 0; rc = hwloc_topology_dup(&c, t); e = errno;
  if (!rc) { char *oa = hwv_observe_str(c, 0), *ob = hwv_observe_str(ORIG, 0); printf("%s", strcmp(oa, ob) ? "ok-but-DIFF" : "ok"); free(oa); free(ob); hwloc_topology_destroy(c); }
  else printf("%s", outcome(rc, e));
  return 0;
}
static int c_observe(void *u)
{
  char *oa, *ob; (void)u;
  oa = hwv_observe_str(ORIG, 1); ob = hwv_observe_str(ADOPTED, 1);
  if (!strcmp(oa, ob)) printf("obscmp same len=%zu", strlen(oa)); else { fputs("obscmp DIFF", stdout); hwv_first_diff(stdout, oa, ob); }
  return 0;
}
static int c_memattr_query(void *u)
{ hwloc_topology_t t = ADOPTED; unsigned n = 0; int rc; (void)u; rc = hwloc_memattr_get_targets(t, HWLOC_MEMATTR_ID_BANDWIDTH, NULL, 0, &n, NULL, NULL); printf("%s", outcome(rc, errno)); return 0; }
static int c_distances_query(void *u)
{ hwloc_topology_t t = ADOPTED; unsigned n = 0; int rc; (void)u; rc = hwloc_distances_get(t, &n, NULL, 0, 0); printf("%s", outcome(rc, errno)); return 0; }
static int c_cpukinds_query(void *u)
{ hwloc_topology_t t = ADOPTED; int rc; (void)u; rc = hwloc_cpukinds_get_nr(t, 0); printf("%s", outcome(rc, errno)); return 0; }
static int c_export_xml(void *u)
{ hwloc_topology_t t = ADOPTED; char *b = NULL; int l = 0, rc; (void)u; rc = hwloc_topology_export_xmlbuffer(t, &b, &l, 0); if (!rc) hwloc_free_xmlbuffer(t, b); printf("%s", outcome(rc, errno)); return 0; }
static int c_dump(void *u) { (void)u; fputs("B\n", stdout); hwv_dump_topology(stdout, ADOPTED, 0); return 0; }

static void run_call(const char *name, int (*f)(void *), int fd)
{
  unsigned long long before = file_sum(fd), after; int st;
  printf("call %s ", name);
  st = in_child(f, NULL);
  after = file_sum(fd);
  if (st < 0) printf("SIG%d", -st);
  else if (st > 0) printf("EXIT%d", st);             /* abort()/sanitizer exit: invalid free/realloc of a mapped pointer */
  printf(" file=%s\n", before == after ? "same" : "CHANGED");
}

struct ad { int fd; unsigned long long off; void *addr; size_t len; size_t pagesz; };
static int try_adopt(int fd, unsigned long long off, void *addr, size_t len, unsigned long flags, const char *what)
{
  hwloc_topology_t b = NULL; int rc, e; errno = 0;
  rc = hwloc_shmem_topology_adopt(&b, fd, off, addr, len, flags); e = errno;
  printf("reject %s rc=%d errno=%s\n", what, rc, rc < 0 ? hwv_errno_class(e) : "0");
  if (!rc) hwloc_topology_destroy(b);
  return rc;
}
static int rej_busy(void *a)
{
  struct ad *d = a; void *p = mmap(d->addr, d->pagesz, PROT_READ, MAP_PRIVATE | MAP_ANONYMOUS | MAP_FIXED, -1, 0);
  (void)p; try_adopt(d->fd, d->off, d->addr, d->len, 0, "busy-range"); return 0;
}
static int rej_table(void *a)
{
  struct ad *d = a; char tmpl[] = "/tmp/hwv-shm2-XXXXXX"; int fd2; unsigned char *buf; struct stat sb; uint32_t v;
  try_adopt(d->fd, d->off, (char *)d->addr + d->pagesz, d->len, 0, "wrong-address");
  try_adopt(d->fd, d->off, d->addr, d->len + d->pagesz, 0, "longer-length");
  if (d->len > d->pagesz) try_adopt(d->fd, d->off, d->addr, d->len - d->pagesz, 0, "shorter-length");
  try_adopt(d->fd, d->off + d->pagesz, d->addr, d->len, 0, "wrong-offset");
  try_adopt(d->fd, d->off, d->addr, d->len, 1, "flags");
  /* corrupted copies of the file: header version, topology ABI (copied through a static buffer: a large malloc could land in the range to map) */
  { static unsigned char cb[65536]; off_t o = (off_t)d->off; ssize_t n;
    fd2 = mkstemp(tmpl); unlink(tmpl);
    while ((n = pread(d->fd, cb, sizeof cb, o)) > 0) { pwrite(fd2, cb, (size_t)n, o); o += n; }
    pread(d->fd, &v, 4, (off_t)d->off); v += 1; pwrite(fd2, &v, 4, (off_t)d->off);
    try_adopt(fd2, d->off, d->addr, d->len, 0, "header-version");
    v -= 1; pwrite(fd2, &v, 4, (off_t)d->off);
    pread(d->fd, &v, 4, (off_t)d->off + 4);                       /* header_length: where the topology (its abi first) starts */
    { uint32_t abi; pread(d->fd, &abi, 4, (off_t)(d->off + v)); abi ^= 0x10000; pwrite(fd2, &abi, 4, (off_t)(d->off + v)); }
    try_adopt(fd2, d->off, d->addr, d->len, 0, "topology-abi");
    { /* systematic corruption: every single-bit flip of each header field and of the stored ABI, and neighbouring / other ABI values:
         each must be refused with EINVAL.  One summary line per field, one "reject" line per corruption that is not. */
      static const struct { const char *name; unsigned fo, bytes; int in_topology; } F[] = {
        { "version", 0, 4, 0 }, { "hlen", 4, 4, 0 }, { "address", 8, 8, 0 }, { "length", 16, 8, 0 }, { "abi", 0, 4, 1 } };
      unsigned fi, bit; uint32_t hl = v, abi0;
      pread(d->fd, &abi0, 4, (off_t)(d->off + hl)); pwrite(fd2, &abi0, 4, (off_t)(d->off + hl));        /* undo the flip above */
      for (fi = 0; fi < 5; fi++) {
        off_t at = (off_t)d->off + (F[fi].in_topology ? hl : 0) + F[fi].fo; unsigned char orig[8], cur[8]; unsigned tried = 0, einval = 0, k; uint32_t extra[12]; unsigned nextra = 0;
        pread(d->fd, orig, F[fi].bytes, at);
        if (F[fi].in_topology) {
          extra[nextra++] = abi0 + 1; extra[nextra++] = abi0 - 1; extra[nextra++] = abi0 + 0x100; extra[nextra++] = abi0 - 0x100; extra[nextra++] = 0x38000;
          extra[nextra++] = 0x20000; extra[nextra++] = 0x40000; extra[nextra++] = 0; extra[nextra++] = 0xffffffffu; extra[nextra++] = abi0 | 0xffff; extra[nextra++] = 0x30000 + 0x8000 + 1;
        }
        for (k = 0; k < F[fi].bytes * 8 + nextra; k++) {
          hwloc_topology_t b = NULL; int rc, e; char nm[48];
          memcpy(cur, orig, F[fi].bytes);
          if (k < F[fi].bytes * 8) { bit = k; cur[bit / 8] ^= (unsigned char)(1u << (bit % 8)); snprintf(nm, sizeof nm, "%s-bit%u", F[fi].name, bit); }
          else { uint32_t x = extra[k - F[fi].bytes * 8]; if (x == abi0) continue; memcpy(cur, &x, 4); snprintf(nm, sizeof nm, "%s-value0x%x", F[fi].name, x); }
          pwrite(fd2, cur, F[fi].bytes, at);
          errno = 0; rc = hwloc_shmem_topology_adopt(&b, fd2, d->off, d->addr, d->len, 0); e = errno;
          tried++;
          if (rc < 0 && e == EINVAL) einval++;
          else printf("reject %s rc=%d errno=%s\n", nm, rc, rc < 0 ? hwv_errno_class(e) : "0");
          if (!rc) hwloc_topology_destroy(b);
        }
        pwrite(fd2, orig, F[fi].bytes, at);
        printf("rejectsweep %s tried=%u einval=%u\n", F[fi].name, tried, einval);
      }
    }
    close(fd2); (void)buf; (void)sb; }
  return 0;
}

/* the stored copy must be self-contained: every block reachable from the adopted topology through the private structures lies inside
   the mapping [addr, addr+len), except what hwloc_shmem_topology_adopt allocates for the adopter (the topology structure, the four
   support structures, the topology infos, the allowed sets).  Pointers to anything else (the writer's heap, the .rodata of the writer's
   libhwloc, ...) dangle in a process where those are mapped elsewhere.  Shared-by-design pointers (object userdata) are not blocks. */
static void check_pointer_range(hwloc_topology_t t, void *addr, size_t len)
{
  struct hwv_walk w; FILE *nul = fopen("/dev/null", "w"); unsigned i, n = 0, bad = 0;
  hwv_walk_init(&w, nul, t, NULL);
  hwv_ptree(&w, t);
  for (i = 0; i < w.nrec; i++) {
    const struct hwv_rec *r = &w.recs[i]; const char *f = r->field;
    if (!r->addr || r->kind == -1) continue;                       /* NULL, or an opaque pointer that is not a block of the topology */
    if (!strcmp(f, "topology") || !strncmp(f, "support.", 8) || !strncmp(f, "topology.infos.", 15) || !strncmp(f, "allowed_", 8)) continue;
    n++;
    if ((const char *)r->addr < (const char *)addr || (const char *)r->addr >= (const char *)addr + len) {
      if (bad++ < 8) printf("ptrrange OUTSIDE %s kind=%d\n", f, r->kind);
    }
  }
  printf("ptrrange %s blocks=%u outside=%u\n", bad ? "BAD" : "ok", n, bad);
  hwv_walk_fini(&w, 1); fclose(nul);
}

static int adopt_and_exercise(void *a)
{
  struct ad *d = a; int rc, e;
  free_range();
  in_child(rej_table, d);
  in_child(rej_busy, d);
  errno = 0; rc = hwloc_shmem_topology_adopt(&ADOPTED, d->fd, d->off, d->addr, d->len, 0); e = errno;
  printf("adopt rc=%d errno=%s\n", rc, rc < 0 ? hwv_errno_class(e) : "0");
  if (rc < 0) return 0;
  check_pointer_range(ADOPTED, d->addr, d->len);
  { int st; st = in_child(c_observe, NULL); if (st < 0) printf("obscmp SIG%d", -st); fputc('\n', stdout); }
  { int st = in_child(c_dump, NULL); if (st < 0) printf("dump SIG%d\n", -st); }
  run_call("distances_query", c_distances_query, d->fd); run_call("memattr_query", c_memattr_query, d->fd);
  run_call("cpukinds_query", c_cpukinds_query, d->fd); run_call("export_xml", c_export_xml, d->fd);
  run_call("check", c_check, d->fd); run_call("dup_adopted", c_dup_adopted, d->fd);
  run_call("restrict", c_restrict, d->fd); run_call("insert_misc", c_insert_misc, d->fd); run_call("insert_group", c_insert_group, d->fd);
  run_call("distances_add", c_distances_add, d->fd); run_call("distances_remove", c_distances_remove, d->fd);
  run_call("distances_remove_by_depth", c_distances_remove_by_depth, d->fd); run_call("diff_apply", c_diff_apply, d->fd);
  run_call("distances_release_remove", c_distances_release_remove, d->fd); run_call("obj_set_subtype", c_obj_set_subtype, d->fd);
  run_call("obj_set_subtype_existing", c_obj_set_subtype_existing, d->fd);
  run_call("memattr_register", c_memattr_register, d->fd); run_call("memattr_set_value", c_memattr_set_value, d->fd);
  run_call("memattr_set_value_builtin", c_memattr_set_value_builtin, d->fd);
  run_call("cpukinds_register", c_cpukinds_register, d->fd); run_call("obj_add_info", c_obj_add_info, d->fd);
  run_call("topology_infos_add", c_topology_infos_add, d->fd); run_call("refresh", c_refresh, d->fd);
  run_call("allow_all", c_allow_all, d->fd); run_call("allow_local", c_allow_local, d->fd);
  run_call("set_userdata", c_set_userdata, d->fd); run_call("set_flags", c_set_flags, d->fd);
  run_call("set_synthetic", c_set_synthetic, d->fd); run_call("load_again", c_load_again, d->fd);
  hwloc_topology_destroy(ADOPTED);
  { /* no mapping of the backing file may remain (the freed range itself may be reused at once by the sanitizer runtime) */
    FILE *m = fopen("/proc/self/maps", "r"); char ln[512]; int still = 0;
    while (m && fgets(ln, sizeof ln, m)) if (strstr(ln, "hwv-shm-")) still = 1;
    if (m) fclose(m);
    printf("destroyed unmapped=%s\n", still ? "no" : "yes"); }
  return 0;
}

struct fc { int fd; size_t off, len, used, pagesz; };
/* bytes before the offset (last page), after the used area, and the page stored after offset+len (another user of the file) */
static int check_file(void *a)
{
  struct fc *c = a; struct stat sb; static unsigned char buf[65536]; size_t bad = 0, o, lo; int pre_ok = 1, suf_ok = 1; size_t hdr = 24; ssize_t n, i2;
  fstat(c->fd, &sb);
  { uint32_t hl = 0; if (pread(c->fd, &hl, 4, (off_t)c->off + 4) == 4 && hl >= 24 && hl < 4096) hdr = hl; }   /* header_length as written */
  lo = c->off > c->pagesz ? c->off - c->pagesz : 0;
  for (o = lo; o < c->off; o += (size_t)n) { n = pread(c->fd, buf, c->off - o < sizeof buf ? c->off - o : sizeof buf, (off_t)o); if (n <= 0) { pre_ok = 0; break; } for (i2 = 0; i2 < n; i2++) if (buf[i2] != 0xA5) pre_ok = 0; }
  for (o = c->off + hdr + c->used; o < c->off + c->len && !bad; o += (size_t)n) { n = pread(c->fd, buf, c->off + c->len - o < sizeof buf ? c->off + c->len - o : sizeof buf, (off_t)o); if (n <= 0) break; for (i2 = 0; i2 < n; i2++) if (buf[i2]) { bad = o + (size_t)i2; break; } }
  n = pread(c->fd, buf, c->pagesz, (off_t)(c->off + c->len));
  if (n != (ssize_t)c->pagesz) suf_ok = 0; else for (i2 = 0; i2 < n; i2++) if (buf[i2] != 0x5C) suf_ok = 0;
  printf("file size=%s prefix=%s tail=%s", (size_t)sb.st_size == c->off + c->len + c->pagesz ? "ok" : "BAD", pre_ok ? "ok" : "BAD", bad ? "BAD" : "ok");
  if (bad) printf(":%zu", bad - c->off);
  printf(" suffix=%s used=%zu\n", suf_ok ? "ok" : "BAD", hdr + c->used);
  return 0;
}

static void do_shmem(hwloc_topology_t A, unsigned k, int full)
{
  size_t len = 0, pagesz = (size_t)sysconf(_SC_PAGESIZE), used = 0; int rc, fd, st; char tmpl[] = "/tmp/hwv-shm-XXXXXX";
  unsigned long long off = (unsigned long long)k * pagesz; char *region; struct wr w; struct ad d; unsigned i;
  if (full) printf("shmem offset=%u\n", k);
  errno = 0; rc = hwloc_shmem_topology_get_length(A, &len, 0);
  printf("length rc=%d len=%zu\n", rc, len);
  if (rc < 0) return;
  { /* what get_length counted: the topology as it is now (caches possibly stale) */
    struct hwv_alloclog log = { 0 }; struct hwloc_tma tma; hwloc_topology_t C = NULL;
    tma.malloc = hwv_log_malloc; tma.dontfree = 0; tma.data = &log;
    rc = hwloc__topology_dup(&C, A, &tma);
    printf("allocseq0 %u", log.n);
    for (i = 0; i < log.n; i++) printf(" %zu", log.sizes[i]);
    fputc('\n', stdout);
    if (!rc) hwloc_topology_destroy(C);
    free(log.sizes); free(log.ptrs); }
  { struct hwv_alloclog log = { 0 }; struct hwloc_tma tma; hwloc_topology_t C = NULL;
    hwloc_topology_refresh(A);     /* hwloc_shmem_topology_write refreshes distances/memattrs before duplicating: what is written */
    tma.malloc = hwv_log_malloc; tma.dontfree = 0; tma.data = &log;
    rc = hwloc__topology_dup(&C, A, &tma);
    printf("allocseq %u", log.n);
    for (i = 0; i < log.n; i++) { printf(" %zu", log.sizes[i]); used += (log.sizes[i] + 7) & ~(size_t)7; }
    fputc('\n', stdout);
    if (!rc) hwloc_topology_destroy(C);
    free(log.sizes); free(log.ptrs); }
  fd = mkstemp(tmpl); unlink(tmpl);
  { /* the page before the offset and the page after offset+len belong to somebody else (the file may be sparse below) */
    unsigned char *pg = malloc(pagesz); size_t lo = off > pagesz ? off - pagesz : 0;
    memset(pg, 0xA5, pagesz); if (off) pwrite(fd, pg, off - lo, (off_t)lo);
    memset(pg, 0x5C, pagesz); pwrite(fd, pg, pagesz, (off_t)(off + len));
    free(pg); }
  /* reserve len + one page, keep the last page PROT_NONE, free the rest for the mapping */
  region = mmap(NULL, len + pagesz, PROT_NONE, MAP_PRIVATE | MAP_ANONYMOUS, -1, 0);
  RES_ADDR = region; RES_LEN = len;
  FS_LO = (off_t)(off > pagesz ? off - pagesz : 0); FS_HI = (off_t)(off + len + pagesz);
  w.t = A; w.fd = fd; w.off = off; w.addr = region; w.len = len;
  st = in_child(do_write, &w);
  if (st < 0) printf("write SIG%d\n", -st);
  else if (st > 0) printf("write EXIT%d\n", st);       /* abort() / sanitizer exit inside the writer */
  { struct fc c; c.fd = fd; c.off = off; c.len = len; c.used = used; c.pagesz = pagesz; in_child(check_file, &c); }   /* in a child: no allocation may land in the freed range */
  ORIG = A; d.fd = fd; d.off = off; d.addr = region; d.len = len; d.pagesz = pagesz;
  if (full) {
    st = in_child(adopt_and_exercise, &d);
    if (st < 0) printf("adopter SIG%d\n", -st);
  }
  munmap(region, len + pagesz); RES_ADDR = NULL; RES_LEN = 0;
  close(fd);
}

/* ---------------------------------------------------------------- previous content of the target region
 * The image hwloc_shmem_topology_write leaves in [offset, offset+length) must not depend on what the file held before
 * (the writer never truncates): for every pre-fill the image must equal the image written into a fresh file, except at
 * the bytes hwloc__topology_dup never writes at all (padding, unused tail of ulongs arrays, ...), which are found by
 * duplicating twice under allocators that fill with different bytes (the same request sequence, hence the same offsets). */
struct filltma { unsigned char fill; void **ptrs; size_t *sizes; unsigned n, cap; };
static void *fill_log_malloc(struct hwloc_tma *tma, size_t len)
{
  struct filltma *f = tma->data; void *p = malloc(len ? len : 1);
  memset(p, f->fill, len);
  if (f->n == f->cap) { f->cap = f->cap ? 2 * f->cap : 1024; f->ptrs = realloc(f->ptrs, f->cap * sizeof(void*)); f->sizes = realloc(f->sizes, f->cap * sizeof(size_t)); }
  f->ptrs[f->n] = p; f->sizes[f->n] = len; f->n++;
  return p;
}
/* mask[i] = 1: byte i of the image (relative to the mapping) is never written by the duplication */
static unsigned char *build_mask(hwloc_topology_t T, size_t len, size_t hdrlen)
{
  struct filltma f1 = { 0xA5 }, f2 = { 0x5A }; struct hwloc_tma t1, t2; hwloc_topology_t X = NULL, Y = NULL; unsigned char *mask = calloc(len + 1, 1); unsigned i; size_t o = hdrlen, j;
  t1.malloc = fill_log_malloc; t1.dontfree = 0; t1.data = &f1; t2 = t1; t2.data = &f2;
  if (hwloc__topology_dup(&X, T, &t1) < 0) X = NULL;
  if (hwloc__topology_dup(&Y, T, &t2) < 0) Y = NULL;
  for (j = 24; j < hdrlen && j < len; j++) mask[j] = 1;
  if (X && Y && f1.n == f2.n)
    for (i = 0; i < f1.n; i++) {
      size_t al = (f1.sizes[i] + 7) & ~(size_t)7;
      for (j = 0; j < al && o + j < len; j++)
        if (j >= f1.sizes[i] || (((unsigned char *)f1.ptrs[i])[j] == 0xA5 && ((unsigned char *)f2.ptrs[i])[j] == 0x5A)) mask[o + j] = 1;
      o += al;
    }
  for (j = o; j < len; j++) mask[j] = 2;     /* after the used area: must keep the previous content, checked separately */
  if (X) hwloc_topology_destroy(X);
  if (Y) hwloc_topology_destroy(Y);
  free(f1.ptrs); free(f1.sizes); free(f2.ptrs); free(f2.sizes);
  return mask;
}
static void prefill(int fd, size_t off, size_t n, int kind, unsigned seed)
{
  static const char xml[] = "<object type=\"Package\" os_index=\"0\" cpuset=\"0x0000ffff\"><info name=\"CPUModel\" value=\"hwv\"/></object>\n";
  unsigned char *b = malloc(n + 1); size_t i; unsigned long long x = 88172645463325252ull + seed;
  for (i = 0; i < n; i++) {
    switch (kind) {
    case 1: b[i] = 0; break; case 2: b[i] = 0xFF; break; case 3: b[i] = 0x5A; break;
    case 4: x ^= x << 13; x ^= x >> 7; x ^= x << 17; b[i] = (unsigned char)(x >> 24); break;
    default: b[i] = (unsigned char)xml[i % (sizeof(xml) - 1)]; break;
    }
  }
  pwrite(fd, b, n, (off_t)off); free(b);
}
struct rw { struct wr w; const char *label; };
static int do_rewrite(void *a)
{
  struct rw *r = a; int rc; free_range(); errno = 0;
  rc = hwloc_shmem_topology_write(r->w.t, r->w.fd, r->w.off, r->w.addr, r->w.len, 0);
  printf("rewrite %s rc=%d errno=%s\n", r->label, rc, rc < 0 ? hwv_errno_class(errno) : "0");
  return 0;
}
static int do_readopt(void *a)
{
  struct ad *d = a; int rc;
  free_range();
  errno = 0; rc = hwloc_shmem_topology_adopt(&ADOPTED, d->fd, d->off, d->addr, d->len, 0);
  if (rc < 0) { printf("rc=-1:%s", hwv_errno_class(errno)); return 0; }
  { /* self-contained image: one word in front of the observation verdict */
    struct hwv_walk w; FILE *nul = fopen("/dev/null", "w"); unsigned i, bad = 0;
    hwv_walk_init(&w, nul, ADOPTED, NULL); hwv_ptree(&w, ADOPTED);
    for (i = 0; i < w.nrec; i++) { const struct hwv_rec *r = &w.recs[i]; const char *f = r->field;
      if (!r->addr || r->kind == -1 || !strcmp(f, "topology") || !strncmp(f, "support.", 8) || !strncmp(f, "topology.infos.", 15) || !strncmp(f, "allowed_", 8)) continue;
      if ((const char *)r->addr < (const char *)d->addr || (const char *)r->addr >= (const char *)d->addr + d->len) { if (!bad++) printf("ptrrange-OUTSIDE:%s ", f); } }
    hwv_walk_fini(&w, 1); fclose(nul); }
  c_observe(NULL);
  hwloc_topology_destroy(ADOPTED);
  return 0;
}
/* write T over whatever [off, off+len) holds, compare the image with [ref] under [mask], adopt in a fresh process */
static unsigned char *write_and_compare(hwloc_topology_t T, int fd, size_t off, char *region, size_t len, const unsigned char *ref, const unsigned char *mask,
                                        const unsigned char *before, const char *label)
{
  struct rw r; struct ad d; int st; unsigned char *img = malloc(len + 1); size_t i;
  r.w.t = T; r.w.fd = fd; r.w.off = off; r.w.addr = region; r.w.len = len; r.label = label;
  st = in_child(do_rewrite, &r);
  if (st < 0) printf("rewrite %s SIG%d\n", label, -st);
  else if (st > 0) printf("rewrite %s EXIT%d\n", label, st);
  memset(img, 0, len); pread(fd, img, len, (off_t)off);
  if (ref) {
    for (i = 0; i < len; i++) {
      if (mask[i] == 1) continue;
      if (mask[i] == 2) { if (before && img[i] != before[i]) break; continue; }
      if (img[i] != ref[i]) break;
    }
    if (i == len) printf("image %s same\n", label); else printf("image %s DIFF off=%zu got=%02x want=%02x %s\n", label, i, img[i], mask[i] == 2 ? before[i] : ref[i], mask[i] == 2 ? "(beyond the used area)" : "");
  }
  ORIG = T; d.fd = fd; d.off = off; d.addr = region; d.len = len; d.pagesz = 4096;
  printf("readopt %s ", label);
  st = in_child(do_readopt, &d);
  if (st < 0) printf("SIG%d", -st);
  fputc('\n', stdout);
  return img;
}
static void do_republish(hwloc_topology_t A, unsigned k, unsigned seed)
{
  size_t pagesz = (size_t)sysconf(_SC_PAGESIZE), len[2] = { 0, 0 }, lmax, off = (size_t)k * pagesz; hwloc_topology_t T[2]; unsigned char *hole[2], *mask[2], *before; char *region;
  int fd, t, kind; char tmpl[] = "/tmp/hwv-shm-XXXXXX"; char lab[64]; static const char *kn[] = { "hole", "zeros", "ff", "5a", "random", "xmltext" };
  T[0] = A; hwloc_topology_refresh(A);
  if (hwloc_topology_dup(&T[1], A) < 0) { printf("republish dup-failed\n"); return; }
  { size_t gl = 599 + seed % 97 + ((seed & 1) ? 4096 + 8 * (seed % 64) : 0); char *v = malloc(gl + 1); memset(v, 'y', gl); v[gl] = 0;   /* odd seeds: a page more */ hwloc_obj_add_info(hwloc_get_root_obj(T[1]), "hwvgrow", v); free(v);
    hwloc_obj_add_info(hwloc_get_obj_by_depth(T[1], hwloc_topology_get_depth(T[1]) - 1, 0), "hwvpu", "z"); hwloc_topology_refresh(T[1]); }
  for (t = 0; t < 2; t++) if (hwloc_shmem_topology_get_length(T[t], &len[t], 0) < 0) { printf("republish length-failed\n"); hwloc_topology_destroy(T[1]); return; }
  lmax = len[0] > len[1] ? len[0] : len[1];
  printf("republish offset=%u len0=%zu len1=%zu\n", k, len[0], len[1]);
  region = mmap(NULL, lmax + pagesz, PROT_NONE, MAP_PRIVATE | MAP_ANONYMOUS, -1, 0);
  RES_ADDR = region; RES_LEN = lmax;
  /* reference images: fresh file */
  for (t = 0; t < 2; t++) {
    fd = mkstemp(tmpl); unlink(tmpl); strcpy(tmpl, "/tmp/hwv-shm-XXXXXX");
    mask[t] = build_mask(T[t], len[t], 24);
    snprintf(lab, sizeof lab, "hole:T%d", t);
    hole[t] = write_and_compare(T[t], fd, off, region, len[t], NULL, NULL, NULL, lab);
    close(fd);
  }
  /* every kind of previous content, both topologies */
  for (kind = 1; kind <= 5; kind++) for (t = 0; t < 2; t++) {
    unsigned char *img;
    fd = mkstemp(tmpl); unlink(tmpl); strcpy(tmpl, "/tmp/hwv-shm-XXXXXX");
    prefill(fd, off, lmax, kind, seed);
    before = malloc(lmax); pread(fd, before, lmax, (off_t)off);
    snprintf(lab, sizeof lab, "%s:T%d", kn[kind], t);
    img = write_and_compare(T[t], fd, off, region, len[t], hole[t], mask[t], before, lab);
    free(img); free(before); close(fd);
  }
  /* republishing on one file at the same offset and address: bigger, smaller, same */
  fd = mkstemp(tmpl); unlink(tmpl);
  { static const int seq[] = { 1, 0, 0, 1, 1, 0 }; unsigned s;
    for (s = 0; s < 6; s++) {
      unsigned char *img; t = seq[s];
      before = calloc(lmax + 1, 1); pread(fd, before, lmax, (off_t)off);
      snprintf(lab, sizeof lab, "republish%u:T%d-over-%s", s, t, s == 0 ? "hole" : seq[s-1] == t ? "same" : seq[s-1] ? "bigger" : "smaller");
      img = write_and_compare(T[t], fd, off, region, len[t], hole[t], mask[t], before, lab);
      free(img); free(before);
    } }
  close(fd);
  for (t = 0; t < 2; t++) { free(hole[t]); free(mask[t]); }
  munmap(region, lmax + pagesz); RES_ADDR = NULL; RES_LEN = 0;
  hwloc_topology_destroy(T[1]);
}

int main(void)
{
  char *line = NULL; size_t cap = 0; hwloc_topology_t A = NULL; int loaded = 0;
  if (!hwv_bitmap_layout_ok()) { printf("bitmap-layout-mismatch\n"); return 3; }
  while (getline(&line, &cap, stdin) > 0) {
    size_t n = strlen(line);
    while (n && (line[n-1] == '\n' || line[n-1] == '\r')) line[--n] = 0;
    if (!strcmp(line, "new")) { if (A) hwloc_topology_destroy(A); loaded = 0; printf("new rc=%d\n", hwloc_topology_init(&A)); }
    else if (!strncmp(line, "echo ", 5)) printf("%s\n", line);
    else if (!strcmp(line, "load")) { int rc; errno = 0; rc = hwloc_topology_load(A); printf("load rc=%d errno=%s\n", rc, rc < 0 ? hwv_errno_class(errno) : "0"); loaded = rc == 0; }
    else if (!strncmp(line, "pre ", 4)) {
      int h, rc, e; if (!loaded) { printf("pre notloaded\n"); fflush(stdout); continue; }
      rc = apply_op(A, line + 4, &h); e = errno;
      printf("pre %s rc=%d errno=%s\n", h ? "ok" : "unknown-op", rc, rc < 0 ? hwv_errno_class(e) : "0");
    } else if (!strncmp(line, "shmem ", 6)) {
      if (!loaded) printf("shmem notloaded\n");
      else { fputs("A\n", stdout); hwv_dump_topology(stdout, A, 0); do_shmem(A, (unsigned)atoi(line + 6), 1); }
    } else if (!strncmp(line, "republish ", 10)) {
      unsigned k = 0, seed = 0;
      if (!loaded || sscanf(line + 10, "%u %u", &k, &seed) < 1) printf("republish bad\n"); else do_republish(A, k, seed);
    } else if (!strncmp(line, "sweep ", 6)) {
      /* size sweep: the value of a root info grows 8 bytes at a time, so that (header + body) visits every 8-byte residue of the
         page; per size: get_length, the logged requests, the write next to the PROT_NONE page, the file check (no adoption) */
      unsigned first = 0, count = 0, i2; int used_ = 0; const char *opt;
      if (!loaded || sscanf(line + 6, "%u %u%n", &first, &count, &used_) < 2) printf("sweep bad\n");
      else for (i2 = first; i2 < first + count; i2++) {
        size_t l = 7 + 8 * (size_t)i2; char *v = malloc(l + 1);
        memset(v, 'x', l); v[l] = 0;
        hwloc_modify_infos(&hwloc_get_root_obj(A)->infos, HWLOC_MODIFY_INFOS_OP_REPLACE, "hwvpad", v);
        free(v);
        opt = line + 6 + used_; while (*opt == ' ') opt++;
        if (*opt) {      /* an op applied at every step, '@' = the set {PU#step} (e.g. a fresh, not yet refreshed memattr initiator) */
          char ob[4400], hex[160]; size_t o = 0; const char *q; int hh; unsigned nd = i2 / 4 + 1, k2;
          hex[0] = "1248"[i2 % 4]; for (k2 = 1; k2 < nd && k2 < 150; k2++) hex[k2] = '0'; hex[k2] = 0;
          for (q = opt; *q && o < 4200; q++) { if (*q == '@') { o += (size_t)snprintf(ob + o, sizeof ob - o, "0:%s", hex); } else ob[o++] = *q; }
          ob[o] = 0; apply_op(A, ob, &hh);
        }
        printf("sweep step=%u\n", i2);
        do_shmem(A, 0, 0);
      }
    } else if (A && hwv_config_support_line(A, line)) {
      ;
    } else if (A) {
      int r = hwv_config_line(A, line);
      if (r == 0) printf("unknown-command %s\n", line);
      else if (r == 2) printf("config rc=-1 errno=%s\n", hwv_errno_class(errno));
      else if (r < 0) printf("config bad-line\n");
      else printf("config rc=0\n");
    }
    fflush(stdout);
  }
  if (A) hwloc_topology_destroy(A);
  free(hwv_xmlbuf); free(line);
  return 0;
}
