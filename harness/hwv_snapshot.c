#define _GNU_SOURCE
#include <sched.h>
/* C18 harness: load topologies from (mutilated) Linux/x86 snapshots and print
 * canonical dumps.  Superset of hwv_topo.c's script language:
 *   new / <config lines, see hwv_load.h> / load / dump [flags] / check / destroy / echo <text>
 *   root <dir>          snapshot root that "hide" paths are relative to
 *   stash <dir>         empty directory on the same filesystem receiving hidden paths
 *   hide <relpath>      rename(<root>/<relpath>, <stash>/<n>): the path disappears from the snapshot
 *   put <relpath> <hexbytes|->   (re)place a regular file (parents created), symlink <relpath> <target> likewise
 *   unhide              every hidden path is put back, every created one removed (reverse order)
 *   bindself all|<cpu,...>   sched_setaffinity of this process
 *   trace 1|0           print the "lnode"/"mreq" lines described below (needs the HWLOC_VERIF hooks of /repo)
 *   components <flags> <name>    hwloc_topology_set_components;   pid <n>  hwloc_topology_set_pid;   kinds   CPU kinds through the public API
 *   xmlrt               export the loaded topology to an XML buffer, reload it into a second topology
 *                       carrying the same flags and type filters, print "xmlrt export=<rc> load=<rc>",
 *                       then (if loaded) its dump and "check2 ok|abort"
 * A load is bounded by alarm(HWV_WATCHDOG seconds): a hang kills the process (SIGALRM), which the
 * caller reports against the case being executed.
 */
#include "hwv_dump.h"
#include "hwv_load.h"
#include <unistd.h>
#include <sys/wait.h>
#include <sys/stat.h>
#include <signal.h>
#include <limits.h>
#include <ctype.h>

#ifndef HWV_WATCHDOG
#define HWV_WATCHDOG 120
#endif

#include <dirent.h>
#include <fcntl.h>

/* ---- tracing for the model of the Linux backend's NUMA discovery (coq/Text/LinuxNode.v) ----
 * "trace 1": through the guarded hooks of /repo, print
 *   - when look_sysfsnode starts: its configuration and the contents of what it is going to read ("lnode ..." lines,
 *     file contents in hex, directory entries in readdir order), through the same root_fd;
 *   - every memory object handed to hwloc__insert_object_by_cpuset with a NULL root ("mreq ..." lines), in order. */
#ifdef HWLOC_VERIF
extern void (*hwloc_verif_insert_cb)(struct hwloc_topology *topology, int when, struct hwloc_obj *root, struct hwloc_obj *obj, struct hwloc_obj *result) __attribute__((weak));
extern void (*hwloc_verif_linuxnode_cb)(struct hwloc_topology *topology, int root_fd, int use_numa_distances, int use_numa_distances_for_cpuless,
                                        int use_numa_initiators, int is_knl, int is_fake_numa_uniform, int arch_power, int need_memcaches, int need_memattrs) __attribute__((weak));
static void mreq_cb(struct hwloc_topology *t, int when, struct hwloc_obj *root, struct hwloc_obj *obj, struct hwloc_obj *result)
{
  (void)t; (void)root; (void)result;
  if (when != 2) return;
  printf("mreq ty=%d os=%u cs=", (int)obj->type, obj->os_index); hwv_pset(stdout, obj->cpuset);
  printf(" ns="); hwv_pset(stdout, obj->nodeset);
  if (obj->type == HWLOC_OBJ_MEMCACHE) printf(" cd=%u csz=%llu", obj->attr->cache.depth, (unsigned long long)obj->attr->cache.size);
  else printf(" cd=0 csz=0");
  printf("\n");
}
static const char *ln_rel(const char *path, int root_fd) { if (root_fd >= 0) while (*path == '/') path++; return path; }
static void ln_hex(const char *s) { if (!*s) printf("-"); for (; *s; s++) printf("%02x", (unsigned char)*s); }
static void ln_file(int root_fd, const char *path, const char *tag)
{
  /* "<tag> <hex>" ("-empty" when nothing can be read), nothing at all when the file cannot be opened */
  static char buf[1 << 20]; ssize_t n, tot = 0; int fd = openat(root_fd, ln_rel(path, root_fd), O_RDONLY);
  if (fd < 0) return;
  while (tot < (ssize_t)sizeof(buf) && (n = read(fd, buf + tot, sizeof(buf) - tot)) > 0) tot += n;
  close(fd);
  if (tot <= 0) { printf("%s -empty\n", tag); return; }
  printf("%s ", tag);
  for (n = 0; n < tot; n++) printf("%02x", (unsigned char)buf[n]);
  printf("\n");
}
static DIR *ln_opendir(int root_fd, const char *path)
{
  int dfd = openat(root_fd, ln_rel(path, root_fd), O_RDONLY | O_DIRECTORY);
  DIR *d = dfd >= 0 ? fdopendir(dfd) : NULL;
  if (!d && dfd >= 0) close(dfd);
  return d;
}
static void linuxnode_cb(struct hwloc_topology *t, int root_fd, int dist, int dcl, int init, int knl, int fake, int power, int msc, int mattr)
{
  const char *eo = getenv("HWLOC_DEBUG_ALLOW_OVERLAPPING_NODE_CPUSETS"), *ek = getenv("HWLOC_KNL_NUMA_QUIRK");
  DIR *dir, *sub; struct dirent *de; char path[512], tag[96];
  hwloc_bitmap_t seen = hwloc_bitmap_alloc();
  const char *eg = getenv("HWLOC_KEEP_NVIDIA_GPU_NUMA_NODES");
  int nvidia = 0, keep = eg ? atoi(eg) : !power;
  if ((sub = ln_opendir(root_fd, "/proc/driver/nvidia/gpus"))) { nvidia = 1; closedir(sub); }
  printf("lnode begin dist=%d dcl=%d init=%d knl=%d fake=%d power=%d msc=%d mattr=%d", dist, dcl, init, knl, fake, power, msc, mattr);
  if (eo) printf(" overlap=%d", atoi(eo)); else printf(" overlap=-");
  printf(" knlquirk=%d nvidia=%d keep=%d rootnodes=%d pus=", ek ? atoi(ek) : 1, nvidia, keep != 0, !hwloc_bitmap_iszero(hwloc_get_root_obj(t)->nodeset));
  hwv_pset(stdout, hwloc_get_root_obj(t)->cpuset); printf("\n");
  if ((sub = ln_opendir(root_fd, "/proc/driver/nvidia/gpus"))) {
    /* the GPUs, readdir order: numa_status and the local cpus of the PCI device of that name */
    struct dirent *e;
    while ((e = readdir(sub)) != NULL) {
      if (!strcmp(e->d_name, ".") || !strcmp(e->d_name, "..") || strlen(e->d_name) > 200) continue;
      printf("lnode gpu "); ln_hex(e->d_name); printf("\n");
      snprintf(path, sizeof(path), "/proc/driver/nvidia/gpus/%s/numa_status", e->d_name); ln_file(root_fd, path, "lnode gf status");
      snprintf(path, sizeof(path), "/sys/bus/pci/devices/%s/local_cpus", e->d_name); ln_file(root_fd, path, "lnode gf local");
    }
    closedir(sub);
  }
  ln_file(root_fd, "/sys/devices/system/node/online", "lnode online");
  dir = ln_opendir(root_fd, "/sys/devices/system/node");
  if (!dir) { printf("lnode nodir\nlnode end\n"); hwloc_bitmap_free(seen); return; }
  while ((de = readdir(dir)) != NULL) {
    unsigned long os; char *end; int acc;
    if (!strcmp(de->d_name, ".") || !strcmp(de->d_name, "..")) continue;
    printf("lnode dir "); ln_hex(de->d_name); printf("\n");
    if (strncmp(de->d_name, "node", 4)) continue;
    os = strtoul(de->d_name + 4, &end, 0);
    if (end == de->d_name + 4 || os > 100000 || hwloc_bitmap_isset(seen, (unsigned)os)) continue;
    hwloc_bitmap_set(seen, (unsigned)os);
    printf("lnode node %lu\n", os);
    snprintf(path, sizeof(path), "/sys/devices/system/node/node%lu/cpumap", os);
    snprintf(tag, sizeof(tag), "lnode f %lu cpumap", os); ln_file(root_fd, path, tag);
    snprintf(path, sizeof(path), "/sys/devices/system/node/node%lu/distance", os);
    snprintf(tag, sizeof(tag), "lnode f %lu distance", os); ln_file(root_fd, path, tag);
    snprintf(path, sizeof(path), "/sys/devices/system/node/node%lu/memory_side_cache", os);
    if ((sub = ln_opendir(root_fd, path))) {
      struct dirent *e;
      printf("lnode mdir %lu\n", os);
      while ((e = readdir(sub)) != NULL) {
        static const char *mf[] = {"size", "line_size", "indexing", NULL}; int k; unsigned depth;
        if (strncmp(e->d_name, "index", 5)) continue;
        depth = (unsigned)atoi(e->d_name + 5);      /* the backend reads index<depth>/..., not <name>/... */
        printf("lnode m %lu ", os); ln_hex(e->d_name); printf("\n");
        for (k = 0; mf[k]; k++) {
          snprintf(path, sizeof(path), "/sys/devices/system/node/node%lu/memory_side_cache/index%u/%s", os, depth, mf[k]);
          snprintf(tag, sizeof(tag), "lnode mf %lu %s", os, mf[k]); ln_file(root_fd, path, tag);
        }
      }
      closedir(sub);
    }
    for (acc = 1; acc >= 0; acc--) {
      snprintf(path, sizeof(path), "/sys/devices/system/node/node%lu/access%d/initiators", os, acc);
      if ((sub = ln_opendir(root_fd, path))) {
        struct dirent *e;
        printf("lnode adir %lu %d\n", os, acc);
        while ((e = readdir(sub)) != NULL) {
          if (!strcmp(e->d_name, ".") || !strcmp(e->d_name, "..")) continue;
          printf("lnode a %lu %d ", os, acc); ln_hex(e->d_name); printf("\n");
        }
        closedir(sub);
      }
    }
  }
  closedir(dir);
  hwloc_bitmap_free(seen);
  printf("lnode end\n");
}
#endif

struct hidden { char *from; char *to; };   /* to == NULL: <from> was created by put/symlink, undo = remove it */
static struct hidden *hid; static unsigned nhid, caphid;
static char rootdir[PATH_MAX], stashdir[PATH_MAX];
static unsigned stashctr;

static void do_unhide(void)
{
  while (nhid) {
    struct hidden *h = &hid[--nhid];
    if (!h->to) { if (unlink(h->from) < 0 && rmdir(h->from) < 0) printf("unhide-failed %s\n", h->from); }
    else if (rename(h->to, h->from) < 0) printf("unhide-failed %s\n", h->from);
    free(h->from); free(h->to);
  }
}

static void journal(const char *from, const char *to)
{
  if (nhid == caphid) { caphid = caphid ? 2 * caphid : 64; hid = realloc(hid, caphid * sizeof(*hid)); }
  hid[nhid].from = strdup(from); hid[nhid].to = to ? strdup(to) : NULL; nhid++;
}

/* moves an existing <root>/<rel> to the stash; 0 if there was nothing */
static int stash_away(const char *rel)
{
  char from[PATH_MAX], to[PATH_MAX]; struct stat st;
  snprintf(from, sizeof(from), "%s/%s", rootdir, rel);
  if (lstat(from, &st) < 0) return 0;
  snprintf(to, sizeof(to), "%s/h%u", stashdir, stashctr++);
  if (rename(from, to) < 0) return -1;
  journal(from, to);
  return 1;
}

/* mkdir -p of the parent directories of <root>/<rel> (each created directory is journaled) */
static int make_parents(const char *rel)
{
  char path[PATH_MAX]; size_t base; char *p; struct stat st;
  snprintf(path, sizeof(path), "%s/%s", rootdir, rel);
  base = strlen(rootdir) + 1;
  for (p = path + base; (p = strchr(p, '/')) != NULL; p++) {
    *p = 0;
    if (stat(path, &st) < 0) { if (mkdir(path, 0755) < 0) return -1; journal(path, NULL); }
    *p = '/';
  }
  return 0;
}

static int hexv(int c) { return c >= '0' && c <= '9' ? c - '0' : c >= 'a' && c <= 'f' ? c - 'a' + 10 : c >= 'A' && c <= 'F' ? c - 'A' + 10 : 0; }

/* hwloc_topology_check() asserts: run it in a child; on abort the text of the failed assertion
 * (stderr of the child) is kept in check_msg, reduced to [A-Za-z0-9_>!.-] */
static char check_msg[160];
static int check_child(hwloc_topology_t t)
{
  pid_t pid; int st = 0; int pfd[2]; char buf[2048]; ssize_t n, tot = 0;
  fflush(stdout);
  check_msg[0] = 0;
  if (pipe(pfd) < 0) return 0;
  pid = fork();
  if (!pid) { close(pfd[0]); dup2(pfd[1], 2); hwloc_topology_check(t); _exit(0); }
  close(pfd[1]);
  while (tot < (ssize_t)sizeof(buf) - 1 && (n = read(pfd[0], buf + tot, sizeof(buf) - 1 - (size_t)tot)) > 0) tot += n;
  buf[tot] = 0;
  while (read(pfd[0], check_msg, sizeof(check_msg)) > 0) ;   /* drain */
  check_msg[0] = 0;
  close(pfd[0]);
  waitpid(pid, &st, 0);
  if (WIFEXITED(st) && WEXITSTATUS(st) == 0) return 1;
  {
    char *a = strstr(buf, "Assertion `"), *e; size_t k = 0;
    if (a) {
      a += 11; e = strchr(a, '\'');
      for (; a && *a && a != e && k < sizeof(check_msg) - 1; a++)
        check_msg[k++] = (isalnum((unsigned char)*a) || strchr("_>!.-", *a)) ? *a : '_';
    }
    check_msg[k] = 0;
    if (!k) snprintf(check_msg, sizeof(check_msg), "status%d", st);
  }
  return 0;
}

static char *save_env(const char *n) { const char *v = getenv(n); return v ? strdup(v) : NULL; }
static void restore_env(const char *n, char *v) { if (v) { setenv(n, v, 1); free(v); } else unsetenv(n); }

static void xml_roundtrip(hwloc_topology_t t)
{
  char *buf = NULL; int len = 0, rc, rc2 = -1, ty;
  hwloc_topology_t t2 = NULL;
  char *e1, *e2, *e3;
  rc = hwloc_topology_export_xmlbuffer(t, &buf, &len, 0);
  if (rc < 0) { printf("xmlrt export=%d load=-\n", rc); return; }
  e1 = save_env("HWLOC_COMPONENTS"); e2 = save_env("HWLOC_FSROOT"); e3 = save_env("HWLOC_CPUID_PATH");
  unsetenv("HWLOC_COMPONENTS"); unsetenv("HWLOC_FSROOT"); unsetenv("HWLOC_CPUID_PATH");
  hwloc_topology_init(&t2);
  hwloc_topology_set_flags(t2, hwloc_topology_get_flags(t));
  for (ty = 0; ty < HWLOC_OBJ_TYPE_MAX; ty++) {
    enum hwloc_type_filter_e f = HWLOC_TYPE_FILTER_KEEP_ALL;
    hwloc_topology_get_type_filter(t, (hwloc_obj_type_t)ty, &f);
    hwloc_topology_set_type_filter(t2, (hwloc_obj_type_t)ty, f);
  }
  if (hwloc_topology_set_xmlbuffer(t2, buf, len) == 0) {
    alarm(HWV_WATCHDOG);
    rc2 = hwloc_topology_load(t2);
    alarm(0);
  }
  printf("xmlrt export=%d load=%d\n", rc, rc2);
  if (rc2 == 0) {
    hwv_dump_topology(stdout, t2, 0);
    if (check_child(t2)) printf("check2 ok\n"); else printf("check2 abort %s\n", check_msg);
    /* the CPU kinds are not part of the dump: their number before and after the XML round trip */
    printf("xmlkinds %d %d\n", hwloc_cpukinds_get_nr(t, 0), hwloc_cpukinds_get_nr(t2, 0));
  }
  hwloc_topology_destroy(t2);
  hwloc_free_xmlbuffer(t, buf);
  restore_env("HWLOC_COMPONENTS", e1); restore_env("HWLOC_FSROOT", e2); restore_env("HWLOC_CPUID_PATH", e3);
}

int main(void)
{
  char *line = NULL; size_t cap = 0;
  hwloc_topology_t t = NULL;
  int loaded = 0;
  while (getline(&line, &cap, stdin) > 0) {
    size_t n = strlen(line);
    while (n && (line[n-1] == '\n' || line[n-1] == '\r')) line[--n] = 0;
    if (!strcmp(line, "new")) {
      if (t) hwloc_topology_destroy(t);
      loaded = 0;
      printf("new rc=%d\n", hwloc_topology_init(&t));
    } else if (!strncmp(line, "echo ", 5)) {
      printf("%s\n", line);
    } else if (!strncmp(line, "root ", 5)) {
      snprintf(rootdir, sizeof(rootdir), "%s", line + 5);
    } else if (!strncmp(line, "stash ", 6)) {
      snprintf(stashdir, sizeof(stashdir), "%s", line + 6);
    } else if (!strncmp(line, "hide ", 5)) {
      int r = stash_away(line + 5);
      if (r == 0) printf("hide absent %s\n", line + 5);   /* inside an already hidden directory */
      else if (r < 0) printf("hide failed %s errno=%d\n", line + 5, errno);
      else printf("hide ok\n");
    } else if (!strncmp(line, "put ", 4) || !strncmp(line, "symlink ", 8)) {
      /* put <relpath> <hexbytes|->  /  symlink <relpath> <target>: (re)place a file in the snapshot, undone by unhide */
      int islink = line[0] == 's';
      char *rel = line + (islink ? 8 : 4), *arg = strrchr(rel, ' '), full[PATH_MAX]; int ok = 0;   /* the last blank: paths may hold blanks, hex contents and link targets do not */
      if (arg) {
        *arg++ = 0;
        snprintf(full, sizeof(full), "%s/%s", rootdir, rel);
        if (stash_away(rel) >= 0 && make_parents(rel) == 0) {
          if (islink) ok = symlink(arg, full) == 0;
          else {
            FILE *f = fopen(full, "wb");
            if (f) {
              size_t n = strcmp(arg, "-") ? strlen(arg) / 2 : 0, i;
              for (i = 0; i < n; i++) fputc(hexv(arg[2*i]) * 16 + hexv(arg[2*i+1]), f);
              ok = fclose(f) == 0;
            }
          }
          if (ok) journal(full, NULL);
        }
      }
      printf(ok ? "put ok\n" : "put failed %s errno=%d\n", rel, errno);
    } else if (!strcmp(line, "unhide")) {
      do_unhide();
      printf("unhide\n");
    } else if (!strcmp(line, "load")) {
      int rc; errno = 0;
      alarm(HWV_WATCHDOG);
      rc = hwloc_topology_load(t);
      alarm(0);
      printf("load rc=%d errno=%s\n", rc, rc < 0 ? hwv_errno_class(errno) : "0");
      loaded = (rc == 0);
    } else if (!strncmp(line, "dump", 4)) {
      if (loaded) hwv_dump_topology(stdout, t, line[4] ? atoi(line + 5) : 0); else printf("nodump\n");
    } else if (!strcmp(line, "check")) {
      if (!loaded || check_child(t)) printf("check ok\n"); else printf("check abort %s\n", check_msg);
    } else if (!strcmp(line, "xmlrt")) {
      if (loaded) xml_roundtrip(t); else printf("xmlrt skipped\n");
    } else if (!strncmp(line, "components ", 11) && t) {
      /* components <flags> <name>: hwloc_topology_set_components */
      char *end; unsigned long fl = strtoul(line + 11, &end, 0); int rc;
      while (*end == ' ') end++;
      errno = 0;
      rc = hwloc_topology_set_components(t, fl, end);
      printf("components rc=%d errno=%s\n", rc, rc < 0 ? hwv_errno_class(errno) : "0");
    } else if (!strncmp(line, "trace ", 6)) {
#ifdef HWLOC_VERIF
      int on = atoi(line + 6);
      if (&hwloc_verif_insert_cb && &hwloc_verif_linuxnode_cb) {       /* hooks absent in older trees */
        hwloc_verif_insert_cb = on ? mreq_cb : NULL;
        hwloc_verif_linuxnode_cb = on ? linuxnode_cb : NULL;
        printf("trace rc=0\n");
      } else
#endif
        printf("trace rc=-1\n");
    } else if (!strncmp(line, "bindself ", 9)) {
      /* bindself all | <cpu>[,<cpu>...] : OS binding of this process (what RESTRICT_TO_CPUBINDING looks at) */
      static cpu_set_t initial; static int have_initial = 0; cpu_set_t set; int rc;
      if (!have_initial) { sched_getaffinity(0, sizeof(initial), &initial); have_initial = 1; }
      if (!strcmp(line + 9, "all")) set = initial;
      else { char *p = line + 9; CPU_ZERO(&set); while (*p) { CPU_SET((int) strtol(p, &p, 10), &set); if (*p == ',') p++; } }
      rc = sched_setaffinity(0, sizeof(set), &set);
      printf("bindself rc=%d\n", rc);
    } else if (!strncmp(line, "pid ", 4) && t) {
      int rc; errno = 0;
      rc = hwloc_topology_set_pid(t, (hwloc_pid_t)atoi(line + 4));
      printf("pid rc=%d errno=%s\n", rc, rc < 0 ? hwv_errno_class(errno) : "0");
    } else if (!strcmp(line, "kinds")) {
      /* CPU kinds through the public API: count, and per kind the weight of its cpuset and its infos */
      if (!loaded) printf("kinds -\n");
      else {
        int n = hwloc_cpukinds_get_nr(t, 0), k;
        printf("kinds n=%d", n);
        for (k = 0; k < n; k++) {
          hwloc_bitmap_t b = hwloc_bitmap_alloc(); int eff = -2; struct hwloc_infos_s *infos = NULL; unsigned j;
          if (hwloc_cpukinds_get_info(t, (unsigned)k, b, &eff, &infos, 0) == 0) {
            printf(" [w=%d eff=%d", hwloc_bitmap_weight(b), eff);
            for (j = 0; infos && j < infos->count; j++) { printf(" "); hwv_pstr(stdout, infos->array[j].name); printf("="); hwv_pstr(stdout, infos->array[j].value); }
            printf("]");
          }
          hwloc_bitmap_free(b);
        }
        printf("\n");
      }
    } else if (!strcmp(line, "destroy")) {
      if (t) hwloc_topology_destroy(t);
      t = NULL; loaded = 0;
      printf("destroy\n");
    } else if (t) {
      int r = hwv_config_line(t, line);
      if (r == 0) printf("unknown-command %s\n", line);
      else if (r == 2) printf("config rc=-1 errno=%s\n", hwv_errno_class(errno));
      else if (r < 0) printf("config bad-line\n");
      else printf("config rc=0\n");
    } else if (!strncmp(line, "env ", 4)) {
      char *name = line + 4, *sp = strchr(name, ' ');
      if (sp) { *sp = 0; setenv(name, sp + 1, 1); } else unsetenv(name);
    }
    fflush(stdout);
  }
  if (t) hwloc_topology_destroy(t);
  do_unhide();
  free(hid);
  free(hwv_xmlbuf);
  free(line);
  return 0;
}
