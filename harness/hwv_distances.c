/* C13 harness: executes a case script against the REAL hwloc/distances.c.
 * The current distances.c is compiled into this program (found through
 * -I<repo>/hwloc), which also gives access to its static functions
 * (hwloc_internal_distances_restrict, hwloc__find_groups_by_min_distance,
 * hwloc__check_grouping_matrix); since every global symbol of distances.o is
 * then defined here, the archive member is not linked a second time.
 * Same script and same canonical lines as ocaml/drv_c13.ml. */
#define _GNU_SOURCE
/* White-box part (optional, -DHWV_WHITEBOX): the current distances.c is compiled
 * into this program so that its static functions can be called directly
 * (rawrestrict / groups commands, container id of returned structures).  If that
 * build breaks (a static signature changed), checks/c13.py falls back to the
 * black-box build, which uses the public API and the private headers only. */
#ifdef HWV_WHITEBOX
#include "distances.c"
#else
#include "private/autogen/config.h"
#include "hwloc.h"
#include "private/private.h"
#include "private/misc.h"
#endif

#include <stdio.h>
#include <stdlib.h>
#include <string.h>
#include <errno.h>

#define NH 8
#define NS 16
#define MAXOBJ 4096
static hwloc_topology_t topo;
static void *handles[NH];
static struct hwloc_distances_s *held[NS];
static hwloc_obj_t table[MAXOBJ];
static unsigned ntable;
#define GARBAGE ((struct hwloc_distances_s *)(uintptr_t)1)

static const char *errname(int e)
{
  static char buf[32];
  if (e == EINVAL) return "EINVAL";
  if (e == ENOENT) return "ENOENT";
  if (e == EPERM) return "EPERM";
  if (e == ENOMEM) return "ENOMEM";
  snprintf(buf, sizeof buf, "E%d", e);
  return buf;
}
static void prc(int rc) { if (rc < 0) printf("rc=-1 errno=%s\n", errname(errno)); else printf("rc=0 errno=-\n"); }

static int is_nvs(hwloc_obj_t o) { return o->subtype && !strcmp(o->subtype, "NVSwitch"); }

static void build_table(void)
{
  static const int special[] = { HWLOC_TYPE_DEPTH_NUMANODE, HWLOC_TYPE_DEPTH_BRIDGE, HWLOC_TYPE_DEPTH_PCI_DEVICE,
                                 HWLOC_TYPE_DEPTH_OS_DEVICE, HWLOC_TYPE_DEPTH_MISC, HWLOC_TYPE_DEPTH_MEMCACHE };
  int d, depth = hwloc_topology_get_depth(topo);
  unsigned s;
  hwloc_obj_t o;
  ntable = 0;
  for (d = 0; d < depth; d++)
    for (o = NULL; (o = hwloc_get_next_obj_by_depth(topo, d, o)) != NULL; )
      if (ntable < MAXOBJ) table[ntable++] = o;
  for (s = 0; s < sizeof special / sizeof *special; s++)
    for (o = NULL; (o = hwloc_get_next_obj_by_depth(topo, special[s], o)) != NULL; )
      if (ntable < MAXOBJ) table[ntable++] = o;
}

static char last_table[1 << 20];
static void print_table(int rc)
{
  static char cur[1 << 20];
  size_t n = 0;
  int d, depth;
  unsigned i;
  if (!topo) { last_table[0] = 0; printf("T %d 0 0\nL\n", rc); return; }
  build_table();
  depth = hwloc_topology_get_depth(topo);
  n += snprintf(cur + n, sizeof cur - n, "%u %d\n", ntable, depth);
  for (i = 0; i < ntable && n < sizeof cur - 256; i++)
    n += snprintf(cur + n, sizeof cur - n, "O %u %llu %u %d\n", (unsigned)table[i]->type, (unsigned long long)table[i]->gp_index,
                  table[i]->os_index, is_nvs(table[i]));
  n += snprintf(cur + n, sizeof cur - n, "L");
  for (d = 0; d < depth && n < sizeof cur - 64; d++) n += snprintf(cur + n, sizeof cur - n, " %u", (unsigned)hwloc_get_depth_type(topo, d));
  n += snprintf(cur + n, sizeof cur - n, "\n");
  if (!strcmp(cur, last_table)) { printf("T %d =\n", rc); return; }
  strcpy(last_table, cur);
  printf("T %d %s", rc, cur);
}

/* "t:k" = k-th (mod count) object of type t in table order, "#k" = k-th object, "N" = NULL */
static hwloc_obj_t resolve(const char *ref)
{
  unsigned i, n = 0, t, k;
  if (ref[0] == 'N') return NULL;
  if (ref[0] == '#') {
    k = strtoul(ref + 1, NULL, 10);
    return ntable ? table[k % ntable] : NULL;
  }
  if (sscanf(ref, "%u:%u", &t, &k) != 2) return NULL;
  for (i = 0; i < ntable; i++) if ((unsigned)table[i]->type == t) n++;
  if (!n) return NULL;
  k %= n;
  for (i = 0; i < ntable; i++) if ((unsigned)table[i]->type == t && !k--) return table[i];
  return NULL;
}

/* names in scripts and transcripts: "-" is NULL, the two characters "" are the empty string */
static void print_name(const char *s) { printf(" name=%s", !s ? "-" : !*s ? "\"\"" : s); }
static const char *arg_name(const char *t) { return !strcmp(t, "-") ? NULL : !strcmp(t, "\"\"") ? "" : t; }

static void dump_internal(void)
{
  struct hwloc_internal_distances_s *d;
  unsigned i;
  if (!topo) return;
  for (d = topo->first_dist; d; d = d->next) {
    int valid = !!(d->iflags & HWLOC_INTERNAL_DIST_FLAG_OBJS_VALID);
    printf("D id=%u", d->id);
    print_name(d->name);
    printf(" kind=%lu ut=%u nb=%u valid=%d idx=[", d->kind, (unsigned)d->unique_type, d->nbobjs, valid);
    for (i = 0; i < d->nbobjs; i++) printf("%s%llu", i ? " " : "", (unsigned long long)d->indexes[i]);
    printf("] dt=");
    if (d->different_types) {
      printf("[");
      for (i = 0; i < d->nbobjs; i++) printf("%s%u", i ? " " : "", (unsigned)d->different_types[i]);
      printf("]");
    } else printf("-");
    printf(" objs=");
    if (valid) {
      printf("[");
      for (i = 0; i < d->nbobjs; i++) {
        if (d->objs[i]) printf("%s%u:%llu", i ? " " : "", (unsigned)d->objs[i]->type, (unsigned long long)d->objs[i]->gp_index);
        else printf("%sN", i ? " " : "");
      }
      printf("]");
    } else printf("-");
    printf(" vals=[");
    for (i = 0; i < d->nbobjs * d->nbobjs; i++) printf("%s%llu", i ? " " : "", (unsigned long long)d->values[i]);
    printf("]\n");
  }
  printf("next_id=%u\n", topo->next_dist_id);
}

static void print_held(unsigned s)
{
  struct hwloc_distances_s *p = held[s];
  unsigned i;
  if (!p) { printf("H %u NULL\n", s); return; }
  if (p == GARBAGE) { printf("H %u GARBAGE\n", s); return; }
#ifdef HWV_WHITEBOX
  {
    struct hwloc_distances_container_s *cont = HWLOC_DISTANCES_CONTAINER(p);
    printf("H %u id=%u", s, cont->id);
  }
#else
  printf("H %u id=?", s);
#endif
  print_name(hwloc_distances_get_name(topo, p));
  printf(" nb=%u kind=%lu objs=[", p->nbobjs, p->kind);
  for (i = 0; i < p->nbobjs; i++) {
    if (p->objs[i]) printf("%s%u:%llu", i ? " " : "", (unsigned)p->objs[i]->type, (unsigned long long)p->objs[i]->gp_index);
    else printf("%sN", i ? " " : "");
  }
  printf("] vals=[");
  for (i = 0; i < p->nbobjs * p->nbobjs; i++) printf("%s%llu", i ? " " : "", (unsigned long long)p->values[i]);
  printf("]\n");
}

static void release_slot(unsigned s)
{
  if (held[s] && held[s] != GARBAGE) hwloc_distances_release(topo, held[s]);
  held[s] = NULL;
}

/* nothing the caller holds survives a change of topology */
static void drop_user_state(void)
{
  unsigned i;
  for (i = 0; i < NS; i++) release_slot(i);
  for (i = 0; i < NH; i++) if (handles[i]) { hwloc_distances_add_commit(topo, handles[i], ~0UL); handles[i] = NULL; }
}

static hwloc_topology_t new_topology(void)
{
  hwloc_topology_t t;
  if (hwloc_topology_init(&t) < 0) return NULL;
  hwloc_topology_set_all_types_filter(t, HWLOC_TYPE_FILTER_KEEP_ALL);
  return t;
}

#define MAXTOK 4096
static char *tok[MAXTOK];
static unsigned ntok;

int main(void)
{
  static char line[1 << 18], copy[1 << 18];
  setvbuf(stdout, NULL, _IOFBF, 1 << 16);
  while (fgets(line, sizeof line, stdin)) {
    size_t len = strlen(line);
    char *p;
    while (len && (line[len - 1] == '\n' || line[len - 1] == '\r')) line[--len] = 0;
    if (!len) continue;
    printf("> %s\n", line);
    strcpy(copy, line);
    ntok = 0;
    for (p = strtok(copy, " "); p && ntok < MAXTOK; p = strtok(NULL, " ")) tok[ntok++] = p;
    if (!ntok) continue;
    errno = 0;

    if (!strcmp(tok[0], "case")) {
      continue;
    } else if (!strcmp(tok[0], "topo")) {
      int rc;
      if (topo) { drop_user_state(); hwloc_topology_destroy(topo); topo = NULL; }
      topo = new_topology();
      last_table[0] = 0;
      rc = hwloc_topology_set_synthetic(topo, line + 5);
      if (!rc) rc = hwloc_topology_load(topo);
      if (rc < 0) { hwloc_topology_destroy(topo); topo = NULL; }
      print_table(rc);
    } else if (!topo && strcmp(tok[0], "rawrestrict") && strcmp(tok[0], "groups")) {
      printf("notopo\n");
      continue;
    } else if (!strcmp(tok[0], "nvs") && ntok == 2) {
      hwloc_obj_t o = resolve(tok[1]);
      if (o) { free(o->subtype); o->subtype = strdup("NVSwitch"); }
      print_table(0);
    } else if (!strcmp(tok[0], "create") && ntok == 5) {
      unsigned h = atoi(tok[1]) % NH;
      if (handles[h]) { hwloc_distances_add_commit(topo, handles[h], ~0UL); handles[h] = NULL; }
      handles[h] = hwloc_distances_add_create(topo, arg_name(tok[2]),
                                              strtoul(tok[3], NULL, 0), strtoul(tok[4], NULL, 0));
      prc(handles[h] ? 0 : -1);
    } else if (!strcmp(tok[0], "values") && ntok >= 4) {
      unsigned h = atoi(tok[1]) % NH, nb = atoi(tok[3]), i;
      unsigned long flags = strtoul(tok[2], NULL, 0);
      if (!handles[h] || ntok != 4 + nb + nb * nb) printf("rc=skip\n");
      else {
        hwloc_obj_t *objs = malloc((nb + 1) * sizeof(*objs));
        uint64_t *vals = malloc((nb * nb + 1) * sizeof(*vals));
        int rc;
        for (i = 0; i < nb; i++) objs[i] = resolve(tok[4 + i]);
        for (i = 0; i < nb * nb; i++) vals[i] = strtoull(tok[4 + nb + i], NULL, 0);
        rc = hwloc_distances_add_values(topo, handles[h], nb, objs, vals, flags);
        prc(rc);
        if (rc < 0) handles[h] = NULL; /* the handle is destroyed on error */
        free(objs); free(vals);
      }
    } else if (!strcmp(tok[0], "commit") && ntok == 3) {
      unsigned h = atoi(tok[1]) % NH;
      if (!handles[h]) printf("rc=skip\n");
      else {
        int rc = hwloc_distances_add_commit(topo, handles[h], strtoul(tok[2], NULL, 0));
        prc(rc);
        handles[h] = NULL;
      }
      print_table(0);
    } else if (!strcmp(tok[0], "get") && ntok == 6) {
      /* get <all|type|depth|name> <arg> <kind> <flags> <nr> */
      unsigned nr = atoi(tok[5]), nrin, i;
      unsigned long kind = strtoul(tok[3], NULL, 0), flags = strtoul(tok[4], NULL, 0);
      struct hwloc_distances_s *arr[NS + 1];
      int rc;
      if (nr > NS) nr = NS;
      nrin = nr;
      for (i = 0; i < NS; i++) release_slot(i);
      for (i = 0; i <= NS; i++) arr[i] = GARBAGE;
      if (!strcmp(tok[1], "all")) rc = hwloc_distances_get(topo, &nr, arr, kind, flags);
      else if (!strcmp(tok[1], "type")) rc = hwloc_distances_get_by_type(topo, (hwloc_obj_type_t)strtoul(tok[2], NULL, 0), &nr, arr, kind, flags);
      else if (!strcmp(tok[1], "depth")) rc = hwloc_distances_get_by_depth(topo, atoi(tok[2]), &nr, arr, kind, flags);
      else rc = hwloc_distances_get_by_name(topo, arg_name(tok[2]), &nr, arr, flags);
      if (rc < 0) { prc(rc); }
      else {
        printf("rc=0 errno=- nr=%u\n", nr);
        for (i = 0; i < nrin; i++) { held[i] = arr[i]; print_held(i); }
        for (i = 0; i < nrin; i++) if (held[i] == GARBAGE) held[i] = NULL;
        if (arr[nrin] != GARBAGE) printf("OVERRUN\n");
      }
    } else if (!strcmp(tok[0], "release") && ntok == 2) {
      release_slot(atoi(tok[1]) % NS);
    } else if (!strcmp(tok[0], "rr") && ntok == 2) {
      unsigned s = atoi(tok[1]) % NS;
      if (!held[s]) printf("rc=skip\n");
      else {
        int rc = hwloc_distances_release_remove(topo, held[s]);
        prc(rc);
        if (!rc) held[s] = NULL;
      }
    } else if (!strcmp(tok[0], "remove")) {
      prc(hwloc_distances_remove(topo));
    } else if (!strcmp(tok[0], "rmdepth") && ntok == 2) {
      prc(hwloc_distances_remove_by_depth(topo, atoi(tok[1])));
    } else if (!strcmp(tok[0], "transform") && ntok == 5) {
      unsigned s = atoi(tok[1]) % NS;
      if (!held[s]) printf("rc=skip\n");
      else {
        int dummy;
        int rc = hwloc_distances_transform(topo, held[s], (enum hwloc_distances_transform_e)atoi(tok[2]),
                                           atoi(tok[3]) ? NULL : &dummy, strtoul(tok[4], NULL, 0));
        prc(rc);
        print_held(s);
      }
    } else if (!strcmp(tok[0], "setobj") && ntok == 4) {
      unsigned s = atoi(tok[1]) % NS, i = atoi(tok[2]);
      if (!held[s] || i >= held[s]->nbobjs) printf("rc=skip\n");
      else { held[s]->objs[i] = resolve(tok[3]); print_held(s); }
    } else if (!strcmp(tok[0], "restrict") && ntok == 3) {
      hwloc_bitmap_t set = hwloc_bitmap_alloc();
      int rc;
      drop_user_state();
      hwloc_bitmap_sscanf(set, tok[1]);
      rc = hwloc_topology_restrict(topo, set, strtoul(tok[2], NULL, 0));
      hwloc_bitmap_free(set);
      print_table(rc);
    } else if (!strcmp(tok[0], "refresh")) {
      prc(hwloc_topology_refresh(topo));
    } else if (!strcmp(tok[0], "dup")) {
      hwloc_topology_t n = NULL;
      int rc;
      drop_user_state();
      rc = hwloc_topology_dup(&n, topo);
      prc(rc);
      if (!rc) { hwloc_topology_destroy(topo); topo = n; }
      print_table(rc);
    } else if (!strcmp(tok[0], "xml")) {
      char *buf = NULL; int blen = 0, rc;
      hwloc_topology_t n;
      drop_user_state();
      rc = hwloc_topology_export_xmlbuffer(topo, &buf, &blen, 0);
      if (rc < 0) { printf("export "); prc(rc); print_table(rc); }
      else {
        n = new_topology();
        rc = hwloc_topology_set_xmlbuffer(n, buf, blen);
        if (!rc) rc = hwloc_topology_load(n);
        prc(rc);
        if (!rc) { hwloc_topology_destroy(topo); topo = n; } else hwloc_topology_destroy(n);
        hwloc_free_xmlbuffer(topo, buf);
        print_table(rc);
      }
    } else if (!strcmp(tok[0], "rawrestrict") && ntok >= 3) {
      /* rawrestrict <nb> <keep as 0/1 string> <nb*nb values>: the static function alone */
      unsigned nb = atoi(tok[1]), i, dis = 0;
#ifndef HWV_WHITEBOX
      printf("rc=nowhitebox\n"); (void)nb; (void)i; (void)dis;
#else
      if (strlen(tok[2]) != nb || ntok != 3 + nb * nb) printf("rc=skip\n");
      else {
        static struct hwloc_obj dummy;
        hwloc_obj_t *objs = malloc((nb + 1) * sizeof(*objs));
        uint64_t *idx = malloc((nb + 1) * sizeof(*idx));
        hwloc_obj_type_t *dt = malloc((nb + 1) * sizeof(*dt));
        uint64_t *vals = malloc((nb * nb + 1) * sizeof(*vals));
        for (i = 0; i < nb; i++) { objs[i] = tok[2][i] == '1' ? &dummy : NULL; if (!objs[i]) dis++; idx[i] = 100 + i; dt[i] = (hwloc_obj_type_t)(i % 7); }
        for (i = 0; i < nb * nb; i++) vals[i] = strtoull(tok[3 + i], NULL, 0);
        hwloc_internal_distances_restrict(objs, idx, dt, vals, nb, dis);
        printf("R vals=[");
        for (i = 0; i < nb * nb; i++) printf("%s%llu", i ? " " : "", (unsigned long long)vals[i]);
        printf("] keep=[");
        for (i = 0; i < nb; i++) printf("%d", objs[i] ? 1 : 0);
        printf("] idx=[");
        for (i = 0; i < nb; i++) printf("%s%llu", i ? " " : "", (unsigned long long)idx[i]);
        printf("] dt=[");
        for (i = 0; i < nb; i++) printf("%s%u", i ? " " : "", (unsigned)dt[i]);
        printf("]\n");
        free(objs); free(idx); free(dt); free(vals);
      }
#endif
    } else if (!strcmp(tok[0], "groups") && ntok >= 2) {
      unsigned nb = atoi(tok[1]), i, ng;
#ifndef HWV_WHITEBOX
      printf("rc=nowhitebox\n"); (void)nb; (void)i; (void)ng;
#else
      if (ntok != 2 + nb * nb) printf("rc=skip\n");
      else {
        uint64_t *vals = malloc((nb * nb + 1) * sizeof(*vals));
        unsigned *gids = malloc((nb + 1) * sizeof(*gids));
        int chk;
        for (i = 0; i < nb * nb; i++) vals[i] = strtoull(tok[2 + i], NULL, 0);
        chk = hwloc__check_grouping_matrix(nb, vals, 0.0f, 0);
        ng = hwloc__find_groups_by_min_distance(nb, vals, 0.0f, gids, 0);
        printf("G check=%d ngroups=%u ids=[", chk, ng);
        for (i = 0; i < nb; i++) printf("%s%u", i ? " " : "", gids[i]);
        printf("]\n");
        free(vals); free(gids);
      }
#endif
    } else {
      printf("badcmd\n");
      continue;
    }
    dump_internal();
  }
  if (topo) { drop_user_state(); hwloc_topology_destroy(topo); }
  return 0;
}
