/* C09 harness: traversal / locality helpers of the REAL library on a scripted
 * topology.  Script on stdin:
 *   new / <config lines, see hwv_load.h> / load / restrict <set> <flags> / dump / destroy / echo <text>
 *   q covering <set>                      hwloc_get_obj_covering_cpuset
 *   q child_covering <id> <set>           hwloc_get_child_covering_cpuset
 *   q largest <set> <max>                 hwloc_get_largest_objs_inside_cpuset
 *   q first_largest <set>                 hwloc_get_first_largest_obj_inside_cpuset
 *   q inside <depth> <set>                hwloc_get_next_obj_inside_cpuset_by_depth from NULL until NULL
 *   q nb_inside <depth> <set>             hwloc_get_nbobjs_inside_cpuset_by_depth + get_obj_inside(idx) for every idx + index_inside, then index_inside of every object of the level
 *   q covering_iter <depth> <set>         hwloc_get_next_obj_covering_cpuset_by_depth from NULL until NULL
 *   q ancestor <id> <id>                  hwloc_get_common_ancestor_obj
 *   q in_subtree <id> <id>                hwloc_obj_is_in_subtree
 *   q closest <id> <max>                  hwloc_get_closest_objs
 *   q to_nodeset <set> / from_nodeset <set>
 *   q same_locality <id> <type> [subtype|-] [nameprefix|-] [flags]   hwloc_get_obj_with_same_locality (strings %xx-encoded as in the dump)
 *   q type_depth <type> / depth_type <depth> / type_or_below <type> / type_or_above <type>
 *   q type_depth_attr <type> <group depth> <0|1|2>   hwloc_get_type_depth_with_attr (1: attrsize too small, 2: attrp NULL)
 *   q sscanf_depth <string>               hwloc_type_sscanf_as_depth, beside hwloc_type_sscanf of the same string
 *   q next_child <id>                     hwloc_get_next_child from NULL until NULL
 *   q type_kind <type>                    hwloc_obj_type_is_{normal,io,memory,cache,dcache,icache}
 *   q memory_parents_depth                hwloc_get_memory_parents_depth
 *   q distrib <id,id,...> <n> <until> <flags>
 *   q singlify_per_core <set> <which>
 * Every query prints "Q <text>" then "R <result>": objects as dump-local ids,
 * sets as raw words (hwv_pset), never through the helpers under test. */
#include "hwv_dump.h"
#include "hwv_load.h"
#include <hwloc/export.h>
#include <unistd.h>
#include <limits.h>
#include <sys/wait.h>

static struct hwv_map M; static int have_map;
static hwloc_topology_t T;

/* %xx decoding (the dump's hwv_pstr encoding, without the quotes) */
static void unescape(char *s)
{
  char *w = s;
  for (; *s; s++) {
    if (*s == '%' && s[1] && s[2]) { char h[3] = { s[1], s[2], 0 }; *w++ = (char)strtol(h, NULL, 16); s += 2; }
    else *w++ = *s;
  }
  *w = 0;
}

static hwloc_obj_t obj_of(const char *s)
{
  long i;
  if (!s || *s == '-') return NULL;
  i = atol(s);
  if (i < 0 || (unsigned long)i >= M.n) return NULL;
  return (hwloc_obj_t)M.order[i];
}
static void pid_(hwloc_obj_t o) { hwv_pid(stdout, &M, o); }
static void plist(hwloc_obj_t *a, unsigned n)
{
  unsigned i;
  if (!n) { putchar('-'); return; }
  for (i = 0; i < n; i++) { if (i) putchar(','); pid_(a[i]); }
}

/* runs f in a child; the child prints its R line itself.  Returns 0 if the child exited normally */
static int in_child(void (*f)(void *), void *arg)
{
  pid_t pid; int st = 0;
  fflush(stdout);
  pid = fork();
  if (!pid) { f(arg); fflush(stdout); _exit(0); }
  waitpid(pid, &st, 0);
  return (WIFEXITED(st) && WEXITSTATUS(st) == 0) ? 0 : -1;
}

struct anc_arg { hwloc_obj_t a, b; };
static void do_ancestor(void *p)
{
  struct anc_arg *x = p;
  hwloc_obj_t r = hwloc_get_common_ancestor_obj(T, x->a, x->b);
  printf("R "); pid_(r); putchar('\n');
}
struct closest_arg { hwloc_obj_t src; unsigned max; };
static void do_closest(void *p)
{
  struct closest_arg *x = p;
  hwloc_obj_t *objs = calloc(x->max + 1, sizeof(*objs));
  unsigned n = hwloc_get_closest_objs(T, x->src, objs, x->max);
  printf("R %u ", n); plist(objs, n <= x->max ? n : x->max); putchar('\n');
  free(objs);
}

static void query(char *q)
{
  char kind[32]; int off = 0;
  unsigned nobj = M.n;
  printf("Q %s\n", q);
  if (sscanf(q, "%31s %n", kind, &off) < 1) { printf("R bad\n"); return; }
  q += off;
  if (!strcmp(kind, "covering")) {
    hwloc_bitmap_t s = hwv_parse_set(q);
    if (!s) { printf("R bad\n"); return; }
    printf("R "); pid_(hwloc_get_obj_covering_cpuset(T, s)); putchar('\n');
    hwloc_bitmap_free(s);
  } else if (!strcmp(kind, "child_covering")) {
    char a[32], b[4096]; hwloc_bitmap_t s; hwloc_obj_t o;
    if (sscanf(q, "%31s %4095s", a, b) != 2 || !(o = obj_of(a)) || !(s = hwv_parse_set(b))) { printf("R bad\n"); return; }
    printf("R "); pid_(hwloc_get_child_covering_cpuset(T, s, o)); putchar('\n');
    hwloc_bitmap_free(s);
  } else if (!strcmp(kind, "largest")) {
    char b[4096]; int max, rc; hwloc_bitmap_t s; hwloc_obj_t *objs;
    if (sscanf(q, "%4095s %d", b, &max) != 2 || !(s = hwv_parse_set(b))) { printf("R bad\n"); return; }
    objs = calloc((max > 0 ? (size_t)max : 0) + 1, sizeof(*objs));   /* exactly max slots + a canary slot */
    rc = hwloc_get_largest_objs_inside_cpuset(T, s, objs, max);
    printf("R %d ", rc); plist(objs, rc > 0 ? (unsigned)rc : 0);
    if (max >= 0 && objs[max > 0 ? max : 0]) printf(" !overrun");
    putchar('\n');
    free(objs); hwloc_bitmap_free(s);
  } else if (!strcmp(kind, "first_largest")) {
    hwloc_bitmap_t s = hwv_parse_set(q);
    if (!s) { printf("R bad\n"); return; }
    printf("R "); pid_(hwloc_get_first_largest_obj_inside_cpuset(T, s)); putchar('\n');
    hwloc_bitmap_free(s);
  } else if (!strcmp(kind, "inside") || !strcmp(kind, "covering_iter")) {
    int depth; char b[4096]; hwloc_bitmap_t s; hwloc_obj_t o = NULL; unsigned k = 0; int ins = !strcmp(kind, "inside");
    if (sscanf(q, "%d %4095s", &depth, b) != 2 || !(s = hwv_parse_set(b))) { printf("R bad\n"); return; }
    printf("R ");
    while (1) {
      o = ins ? hwloc_get_next_obj_inside_cpuset_by_depth(T, s, depth, o) : hwloc_get_next_obj_covering_cpuset_by_depth(T, s, depth, o);
      if (!o) break;
      if (k) putchar(',');
      pid_(o);
      if (++k > nobj) { printf(",!loop"); break; }
    }
    if (!k) putchar('-');
    putchar('\n');
    hwloc_bitmap_free(s);
  } else if (!strcmp(kind, "nb_inside")) {
    int depth; char b[4096]; hwloc_bitmap_t s; unsigned nb, i; hwloc_obj_t o;
    if (sscanf(q, "%d %4095s", &depth, b) != 2 || !(s = hwv_parse_set(b))) { printf("R bad\n"); return; }
    nb = hwloc_get_nbobjs_inside_cpuset_by_depth(T, s, depth);
    printf("R %u ", nb);
    for (i = 0; i <= nb && i <= nobj; i++) {
      o = hwloc_get_obj_inside_cpuset_by_depth(T, s, depth, i);
      if (i) putchar(',');
      pid_(o);
      if (o) printf(":%d", hwloc_get_obj_index_inside_cpuset(T, s, o));
    }
    /* then hwloc_get_obj_index_inside_cpuset for every object of the level, CPU-less ones included */
    printf(" | ");
    for (i = 0, o = hwloc_get_obj_by_depth(T, depth, 0); o && i <= nobj; o = o->next_cousin, i++) {
      if (i) putchar(',');
      pid_(o); printf(":%d", o->cpuset ? hwloc_get_obj_index_inside_cpuset(T, s, o) : -2);
    }
    if (!i) putchar('-');
    putchar('\n');
    hwloc_bitmap_free(s);
  } else if (!strcmp(kind, "ancestor")) {
    char a[32], b[32]; struct anc_arg x;
    if (sscanf(q, "%31s %31s", a, b) != 2 || !(x.a = obj_of(a)) || !(x.b = obj_of(b))) { printf("R bad\n"); return; }
    do_ancestor(&x);
  } else if (!strcmp(kind, "in_subtree")) {
    char a[32], b[32]; hwloc_obj_t oa, ob;
    if (sscanf(q, "%31s %31s", a, b) != 2 || !(oa = obj_of(a)) || !(ob = obj_of(b))) { printf("R bad\n"); return; }
    printf("R %d\n", hwloc_obj_is_in_subtree(T, oa, ob));
  } else if (!strcmp(kind, "closest")) {
    char a[32]; struct closest_arg x;
    if (sscanf(q, "%31s %u", a, &x.max) != 2 || !(x.src = obj_of(a)) || x.max > 10000000u) { printf("R bad\n"); return; }
    do_closest(&x);
  } else if (!strcmp(kind, "to_nodeset") || !strcmp(kind, "from_nodeset")) {
    hwloc_bitmap_t s = hwv_parse_set(q), r; int rc;
    if (!s) { printf("R bad\n"); return; }
    r = hwloc_bitmap_alloc();
    hwloc_bitmap_set_range(r, 3, 70);   /* stale content that the call must erase */
    rc = !strcmp(kind, "to_nodeset") ? hwloc_cpuset_to_nodeset(T, s, r) : hwloc_cpuset_from_nodeset(T, r, s);
    printf("R %d ", rc); hwv_pset(stdout, r); putchar('\n');
    hwloc_bitmap_free(r); hwloc_bitmap_free(s);
  } else if (!strcmp(kind, "same_locality")) {
    char a[32], st[512] = "-", np[512] = "-"; int ty; unsigned long fl = 0; hwloc_obj_t o, r;
    if (sscanf(q, "%31s %d %511s %511s %lu", a, &ty, st, np, &fl) < 2 || !(o = obj_of(a))) { printf("R bad\n"); return; }
    unescape(st); unescape(np);
    errno = 0;
    r = hwloc_get_obj_with_same_locality(T, o, (hwloc_obj_type_t)ty, strcmp(st, "-") ? st : NULL, strcmp(np, "-") ? np : NULL, fl);
    printf("R "); pid_(r); printf(" %s\n", r ? "0" : hwv_errno_class(errno));
  } else if (!strcmp(kind, "type_depth_attr")) {
    int ty, mode; unsigned gd; union hwloc_obj_attr_u attr;
    if (sscanf(q, "%d %u %d", &ty, &gd, &mode) != 3) { printf("R bad\n"); return; }
    memset(&attr, 0, sizeof(attr)); attr.group.depth = gd;
    printf("R %d\n", hwloc_get_type_depth_with_attr(T, (hwloc_obj_type_t)ty, mode == 2 ? NULL : &attr, mode == 1 ? sizeof(attr) - 1 : sizeof(attr)));
  } else if (!strcmp(kind, "sscanf_depth")) {
    char str[512]; hwloc_obj_type_t ty = (hwloc_obj_type_t)-1, ty2 = (hwloc_obj_type_t)-1; int depth = -99, err, err2; union hwloc_obj_attr_u attr;
    if (sscanf(q, "%511s", str) != 1) { printf("R bad\n"); return; }
    unescape(str);
    err = hwloc_type_sscanf_as_depth(str, &ty, T, &depth);
    memset(&attr, 0, sizeof(attr));
    err2 = hwloc_type_sscanf(str, &ty2, &attr, sizeof(attr));
    /* answer of the call, then what hwloc_type_sscanf alone says (type, group depth) for the model to compose */
    printf("R %d %d %d | %d %d %u\n", err, err < 0 ? -1 : (int)ty, err < 0 ? -99 : depth, err2, err2 < 0 ? -1 : (int)ty2,
           (err2 >= 0 && ty2 == HWLOC_OBJ_GROUP) ? attr.group.depth : (unsigned)-1);
  } else if (!strcmp(kind, "next_child")) {
    hwloc_obj_t o = obj_of(q), c = NULL; unsigned k = 0;
    if (!o) { printf("R bad\n"); return; }
    printf("R ");
    while ((c = hwloc_get_next_child(T, o, c)) != NULL) {
      if (k) putchar(',');
      pid_(c);
      if (++k > nobj) { printf(",!loop"); break; }
    }
    if (!k) putchar('-');
    putchar('\n');
  } else if (!strcmp(kind, "type_kind")) {
    hwloc_obj_type_t ty = (hwloc_obj_type_t)atoi(q);
    printf("R %d %d %d %d %d %d\n", hwloc_obj_type_is_normal(ty), hwloc_obj_type_is_io(ty), hwloc_obj_type_is_memory(ty),
           hwloc_obj_type_is_cache(ty), hwloc_obj_type_is_dcache(ty), hwloc_obj_type_is_icache(ty));
  } else if (!strcmp(kind, "memory_parents_depth")) {
    printf("R %d\n", hwloc_get_memory_parents_depth(T));
  } else if (!strcmp(kind, "type_depth")) {
    printf("R %d\n", hwloc_get_type_depth(T, (hwloc_obj_type_t)atoi(q)));
  } else if (!strcmp(kind, "depth_type")) {
    printf("R %d\n", (int)hwloc_get_depth_type(T, atoi(q)));
  } else if (!strcmp(kind, "type_or_below")) {
    printf("R %d\n", hwloc_get_type_or_below_depth(T, (hwloc_obj_type_t)atoi(q)));
  } else if (!strcmp(kind, "type_or_above")) {
    printf("R %d\n", hwloc_get_type_or_above_depth(T, (hwloc_obj_type_t)atoi(q)));
  } else if (!strcmp(kind, "distrib")) {
    char ids[8192]; unsigned n, nroots = 0, i; int until, rc; unsigned long flags; hwloc_obj_t roots[256]; hwloc_bitmap_t *sets; char *p, *sv;
    if (sscanf(q, "%8191s %u %d %lu", ids, &n, &until, &flags) != 4 || n > 1000000u) { printf("R bad\n"); return; }
    for (p = strtok_r(ids, ",", &sv); p && nroots < 256; p = strtok_r(NULL, ",", &sv)) {
      if (!(roots[nroots] = obj_of(p)) || !roots[nroots]->cpuset) { printf("R bad\n"); return; }
      nroots++;
    }
    sets = calloc((size_t)n + 1, sizeof(*sets));   /* n slots + a canary slot */
    errno = 0;
    rc = hwloc_distrib(T, roots, nroots, sets, n, until, flags);
    printf("R %d %s", rc, rc < 0 ? hwv_errno_class(errno) : "0");
    for (i = 0; i < n; i++) { putchar(' '); hwv_pset(stdout, sets[i]); }
    if (sets[n]) printf(" !overrun");
    putchar('\n');
    for (i = 0; i <= n; i++) if (sets[i]) hwloc_bitmap_free(sets[i]);
    free(sets);
  } else if (!strcmp(kind, "singlify_per_core")) {
    char b[4096]; unsigned which; hwloc_bitmap_t s; int rc;
    if (sscanf(q, "%4095s %u", b, &which) != 2 || !(s = hwv_parse_set(b))) { printf("R bad\n"); return; }
    rc = hwloc_bitmap_singlify_per_core(T, s, which);
    printf("R %d ", rc); hwv_pset(stdout, s); putchar('\n');
    hwloc_bitmap_free(s);
  } else printf("R unknown\n");
}

int main(void)
{
  char *line = NULL; size_t cap = 0;
  int loaded = 0;
  while (getline(&line, &cap, stdin) > 0) {
    size_t n = strlen(line);
    while (n && (line[n-1] == '\n' || line[n-1] == '\r')) line[--n] = 0;
    if (!strcmp(line, "new")) {
      if (T) hwloc_topology_destroy(T);
      if (have_map) { hwv_map_free(&M); have_map = 0; }
      loaded = 0;
      printf("new rc=%d\n", hwloc_topology_init(&T));
    } else if (!strncmp(line, "echo ", 5)) {
      printf("%s\n", line);
    } else if (!strcmp(line, "load")) {
      int rc; errno = 0;
      rc = hwloc_topology_load(T);
      printf("load rc=%d errno=%s\n", rc, rc < 0 ? hwv_errno_class(errno) : "0");
      loaded = (rc == 0);
    } else if (!strncmp(line, "restrict ", 9)) {
      char b[4096]; unsigned long fl; hwloc_bitmap_t s; int rc;
      if (!loaded || sscanf(line + 9, "%4095s %lu", b, &fl) != 2 || !(s = hwv_parse_set(b))) { printf("restrict bad\n"); continue; }
      errno = 0;
      rc = hwloc_topology_restrict(T, s, fl);
      printf("restrict rc=%d errno=%s\n", rc, rc < 0 ? hwv_errno_class(errno) : "0");
      hwloc_bitmap_free(s);
    } else if (!strncmp(line, "disallow_reload ", 16)) {
      /* topology loaded with INCLUDE_DISALLOWED: allow only <set>, export to XML, reload WITHOUT the flag:
       * the disallowed PUs leave the cpusets but stay in the complete_cpusets (children keep their order) */
      hwloc_bitmap_t s; char *buf = NULL; int len = 0, rc; hwloc_topology_t t2 = NULL;
      if (!loaded || !(s = hwv_parse_set(line + 16))) { printf("disallow_reload bad\n"); continue; }
      errno = 0;
      rc = hwloc_topology_allow(T, s, NULL, HWLOC_ALLOW_FLAG_CUSTOM);
      hwloc_bitmap_free(s);
      if (rc < 0 || hwloc_topology_export_xmlbuffer(T, &buf, &len, 0) < 0) { printf("disallow_reload rc=-1 errno=%s\n", hwv_errno_class(errno)); continue; }
      hwloc_topology_init(&t2);
      hwloc_topology_set_all_types_filter(t2, HWLOC_TYPE_FILTER_KEEP_ALL);
      rc = hwloc_topology_set_xmlbuffer(t2, buf, len);
      if (rc == 0) rc = hwloc_topology_load(t2);
      if (rc == 0) { hwloc_topology_destroy(T); T = t2; } else hwloc_topology_destroy(t2);
      hwloc_free_xmlbuffer(T, buf);
      printf("disallow_reload rc=%d\n", rc);
    } else if (!strcmp(line, "dump")) {
      if (!loaded) { printf("nodump\n"); continue; }
      hwv_dump_topology(stdout, T, 0);
      if (have_map) hwv_map_free(&M);
      hwv_map_init(&M); have_map = 1;
      hwv_enum(&M, hwloc_get_root_obj(T));   /* same DFS numbering as the dump */
    } else if (!strncmp(line, "q ", 2)) {
      if (loaded && have_map) query(line + 2); else printf("Q %s\nR notopo\n", line + 2);
    } else if (!strcmp(line, "destroy")) {
      if (T) hwloc_topology_destroy(T);
      if (have_map) { hwv_map_free(&M); have_map = 0; }
      T = NULL; loaded = 0;
      printf("destroy\n");
    } else if (T && !loaded) {
      int r = hwv_config_line(T, line);
      if (r == 0) printf("unknown-command %s\n", line);
      else if (r == 2) printf("config rc=-1 errno=%s\n", hwv_errno_class(errno));
      else if (r < 0) printf("config bad-line\n");
      else printf("config rc=0\n");
    } else printf("unknown-command %s\n", line);
    fflush(stdout);
  }
  if (T) hwloc_topology_destroy(T);
  if (have_map) hwv_map_free(&M);
  free(hwv_xmlbuf);
  free(line);
  return 0;
}
