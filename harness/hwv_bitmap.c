/* C03 harness: executes a case file on the REAL hwloc/bitmap.c, which is
 * included textually (white-box access to ulongs_count / ulongs_allocated /
 * ulongs[] / infinite).  Same grammar and same canonical output lines as
 * ocaml/drv_c03.ml.
 *
 * Grammar (one op per line, handles 0..5, X = hex word without 0x):
 *   reset | alloc h | allocfull h | dup d s | copy d s | zero h | fill h
 *   only h c | allbut h c | set h c | clr h c | setr h b e | clrr h b e
 *   fromul h X | fromith h i X | fromuls h nr X0 X1 .. | setith h i X
 *   toul h | toith h i | touls h nr | nr h
 *   or d a b | and d a b | andnot d a b | xor d a b | not d a | singlify h
 *   isset h c | iszero h | isfull h | first h | last h | firstu h | lastu h
 *   next h p | nextu h p | weight h
 *   isequal a b | isincl a b | inter a b | cmp a b | cmpf a b | cmpi a b
 *   ffsl X | flsl X | popc X                    (leaf functions of misc.h)
 * Output:  R=<ret>[ T=<state of 2nd operand of a binary query>] S=<infinite>:<canonical words> | c=<count> a=<alloc> raw=<words>[ rv=<raw ret>]
 *   part before " | " = L1 (what the property talks about), after = L2.
 * After every op the non-valid words [count, allocated) of every handle are
 * overwritten with POISON so that a read of a non-valid word is observable.
 */
#ifndef HV_BITMAP_C
#error "pass -DHV_BITMAP_C=\"<repo>/hwloc/bitmap.c\""
#endif
#include HV_BITMAP_C

#include <stdio.h>
#include <stdlib.h>
#include <string.h>

#define NH 6
#define POISON 0xDEADBEEFDEADBEEFUL
static struct hwloc_bitmap_s *H[NH];

static void poison_all(void)
{
  int h; unsigned i;
  for (h = 0; h < NH; h++)
    if (H[h])
      for (i = H[h]->ulongs_count; i < H[h]->ulongs_allocated; i++)
        H[h]->ulongs[i] = POISON;
}

static void print_words(const unsigned long *w, unsigned n)
{
  unsigned i;
  if (!n) { putchar('-'); return; }
  for (i = 0; i < n; i++) printf("%s%lx", i ? "," : "", w[i]);
}

/* bitmaps above HV_BIG words (indexes around INT_MAX, hundreds of MB) are not rendered:
 * those cases are compared on the return values only */
#define HV_BIG 65536
static void line(const char *ret, int h, const char *rawret)
{
  struct hwloc_bitmap_s *s = H[h];
  unsigned n = s->ulongs_count;
  unsigned long pat = s->infinite ? ~0UL : 0UL;
  if (n > HV_BIG) {
    printf("R=%s S=%d:big | c=%u a=%u raw=big%s\n", ret, s->infinite ? 1 : 0, s->ulongs_count, s->ulongs_allocated, rawret);
    return;
  }
  while (n > 0 && s->ulongs[n-1] == pat) n--;
  printf("R=%s S=%d:", ret, s->infinite ? 1 : 0);
  print_words(s->ulongs, n);
  printf(" | c=%u a=%u raw=", s->ulongs_count, s->ulongs_allocated);
  print_words(s->ulongs, s->ulongs_count);
  printf("%s\n", rawret);
}

static void linei(long v, int h) { char b[32]; snprintf(b, sizeof b, "%ld", v); line(b, h, ""); }

/* binary queries: the canonical state of the second operand is part of L1 too */
static void state2(char *dst, size_t len, int h)
{
  struct hwloc_bitmap_s *s = H[h];
  unsigned n = s->ulongs_count, i; size_t o;
  unsigned long pat = s->infinite ? ~0UL : 0UL;
  if (n > HV_BIG) { snprintf(dst, len, " T=%d:big", s->infinite ? 1 : 0); return; }
  while (n > 0 && s->ulongs[n-1] == pat) n--;
  o = snprintf(dst, len, " T=%d:", s->infinite ? 1 : 0);
  if (!n) snprintf(dst + o, len - o, "-");
  for (i = 0; i < n && o + 20 < len; i++) o += snprintf(dst + o, len - o, "%s%lx", i ? "," : "", s->ulongs[i]);
}
static void line2(long v, int h, int h2, const char *rawret)
{
  static char b[1 << 16]; size_t o = snprintf(b, sizeof b, "%ld", v);
  state2(b + o, sizeof b - o, h2);
  line(b, h, rawret);
}

int main(int argc, char **argv)
{
  static char buf[1 << 16];
  FILE *f = argc > 1 ? fopen(argv[1], "r") : stdin;
  int h;
  if (!f) { perror("open"); return 2; }
  setvbuf(stdout, NULL, _IOLBF, 0);   /* keep the transcript up to a failing op (sanitizer abort) */
  for (h = 0; h < NH; h++) H[h] = hwloc_bitmap_alloc();
  poison_all();
  while (fgets(buf, sizeof buf, f)) {
    char *tok[600]; int nt = 0; char *p = strtok(buf, " \t\r\n");
    while (p && nt < 600) { tok[nt++] = p; p = strtok(NULL, " \t\r\n"); }
    if (!nt) continue;
#define OP(s, n) (!strcmp(tok[0], s) && nt == (n) + 1)
#define HI(k) ((int)(strtol(tok[k], NULL, 10) % NH))
#define U(k) ((unsigned) strtoul(tok[k], NULL, 10))
#define I(k) ((int) strtol(tok[k], NULL, 10))
#define X(k) (strtoul(tok[k], NULL, 16))
    if (OP("reset", 0)) {
      for (h = 0; h < NH; h++) { hwloc_bitmap_free(H[h]); H[h] = hwloc_bitmap_alloc(); }
      printf("reset\n");
    }
    else if (OP("alloc", 1)) { hwloc_bitmap_free(H[HI(1)]); H[HI(1)] = hwloc_bitmap_alloc(); poison_all(); linei(0, HI(1)); }
    else if (OP("allocfull", 1)) { hwloc_bitmap_free(H[HI(1)]); H[HI(1)] = hwloc_bitmap_alloc_full(); poison_all(); linei(0, HI(1)); }
    else if (OP("dup", 2)) {
      struct hwloc_bitmap_s *n = hwloc_bitmap_dup(H[HI(2)]);
      hwloc_bitmap_free(H[HI(1)]); H[HI(1)] = n; poison_all(); linei(0, HI(1));
    }
    else if (OP("copy", 2)) { int r = hwloc_bitmap_copy(H[HI(1)], H[HI(2)]); poison_all(); linei(r, HI(1)); }
    else if (OP("zero", 1)) { hwloc_bitmap_zero(H[HI(1)]); poison_all(); linei(0, HI(1)); }
    else if (OP("fill", 1)) { hwloc_bitmap_fill(H[HI(1)]); poison_all(); linei(0, HI(1)); }
    else if (OP("only", 2)) { int r = hwloc_bitmap_only(H[HI(1)], U(2)); poison_all(); linei(r, HI(1)); }
    else if (OP("allbut", 2)) { int r = hwloc_bitmap_allbut(H[HI(1)], U(2)); poison_all(); linei(r, HI(1)); }
    else if (OP("set", 2)) { int r = hwloc_bitmap_set(H[HI(1)], U(2)); poison_all(); linei(r, HI(1)); }
    else if (OP("clr", 2)) { int r = hwloc_bitmap_clr(H[HI(1)], U(2)); poison_all(); linei(r, HI(1)); }
    else if (OP("setr", 3)) { int r = hwloc_bitmap_set_range(H[HI(1)], U(2), I(3)); poison_all(); linei(r, HI(1)); }
    else if (OP("clrr", 3)) { int r = hwloc_bitmap_clr_range(H[HI(1)], U(2), I(3)); poison_all(); linei(r, HI(1)); }
    else if (OP("fromul", 2)) { int r = hwloc_bitmap_from_ulong(H[HI(1)], X(2)); poison_all(); linei(r, HI(1)); }
    else if (OP("fromith", 3)) { int r = hwloc_bitmap_from_ith_ulong(H[HI(1)], U(2), X(3)); poison_all(); linei(r, HI(1)); }
    else if (!strcmp(tok[0], "fromuls") && nt >= 3) {
      unsigned nr = U(2), j; int r;
      unsigned long *m = malloc((nr + 1) * sizeof *m);
      for (j = 0; j < nr; j++) m[j] = (int)(3 + j) < nt ? X(3 + j) : POISON;
      r = hwloc_bitmap_from_ulongs(H[HI(1)], nr, m);
      free(m); poison_all(); linei(r, HI(1));
    }
    else if (OP("setith", 3)) { int r = hwloc_bitmap_set_ith_ulong(H[HI(1)], U(2), X(3)); poison_all(); linei(r, HI(1)); }
    else if (OP("toul", 1)) { char b[32]; snprintf(b, sizeof b, "%lx", hwloc_bitmap_to_ulong(H[HI(1)])); line(b, HI(1), ""); }
    else if (OP("toith", 2)) { char b[32]; snprintf(b, sizeof b, "%lx", hwloc_bitmap_to_ith_ulong(H[HI(1)], U(2))); line(b, HI(1), ""); }
    else if (OP("touls", 2)) {
      unsigned nr = U(2), j; char *b = malloc(20 * (nr + 1)), *q = b;
      unsigned long *m = malloc((nr + 1) * sizeof *m);
      hwloc_bitmap_to_ulongs(H[HI(1)], nr, m);
      *q = 0;
      if (!nr) strcpy(b, "-");
      for (j = 0; j < nr; j++) q += sprintf(q, "%s%lx", j ? "," : "", m[j]);
      line(b, HI(1), ""); free(b); free(m);
    }
    else if (OP("nr", 1)) linei(hwloc_bitmap_nr_ulongs(H[HI(1)]), HI(1));
    else if (OP("or", 3)) { int r = hwloc_bitmap_or(H[HI(1)], H[HI(2)], H[HI(3)]); poison_all(); linei(r, HI(1)); }
    else if (OP("and", 3)) { int r = hwloc_bitmap_and(H[HI(1)], H[HI(2)], H[HI(3)]); poison_all(); linei(r, HI(1)); }
    else if (OP("andnot", 3)) { int r = hwloc_bitmap_andnot(H[HI(1)], H[HI(2)], H[HI(3)]); poison_all(); linei(r, HI(1)); }
    else if (OP("xor", 3)) { int r = hwloc_bitmap_xor(H[HI(1)], H[HI(2)], H[HI(3)]); poison_all(); linei(r, HI(1)); }
    else if (OP("not", 2)) { int r = hwloc_bitmap_not(H[HI(1)], H[HI(2)]); poison_all(); linei(r, HI(1)); }
    else if (OP("singlify", 1)) { int r = hwloc_bitmap_singlify(H[HI(1)]); poison_all(); linei(r, HI(1)); }
    else if (OP("isset", 2)) linei(hwloc_bitmap_isset(H[HI(1)], U(2)), HI(1));
    else if (OP("iszero", 1)) linei(hwloc_bitmap_iszero(H[HI(1)]), HI(1));
    else if (OP("isfull", 1)) linei(hwloc_bitmap_isfull(H[HI(1)]), HI(1));
    else if (OP("first", 1)) linei(hwloc_bitmap_first(H[HI(1)]), HI(1));
    else if (OP("last", 1)) linei(hwloc_bitmap_last(H[HI(1)]), HI(1));
    else if (OP("firstu", 1)) linei(hwloc_bitmap_first_unset(H[HI(1)]), HI(1));
    else if (OP("lastu", 1)) linei(hwloc_bitmap_last_unset(H[HI(1)]), HI(1));
    else if (OP("next", 2)) linei(hwloc_bitmap_next(H[HI(1)], I(2)), HI(1));
    else if (OP("nextu", 2)) linei(hwloc_bitmap_next_unset(H[HI(1)], I(2)), HI(1));
    else if (OP("weight", 1)) linei(hwloc_bitmap_weight(H[HI(1)]), HI(1));
    else if (OP("isequal", 2)) line2(hwloc_bitmap_isequal(H[HI(1)], H[HI(2)]), HI(1), HI(2), "");
    else if (OP("isincl", 2)) line2(hwloc_bitmap_isincluded(H[HI(1)], H[HI(2)]), HI(1), HI(2), "");
    else if (OP("inter", 2)) line2(hwloc_bitmap_intersects(H[HI(1)], H[HI(2)]), HI(1), HI(2), "");
    else if (OP("cmp", 2)) line2(hwloc_bitmap_compare(H[HI(1)], H[HI(2)]), HI(1), HI(2), "");
    else if (OP("cmpf", 2)) {
      int v = hwloc_bitmap_compare_first(H[HI(1)], H[HI(2)]); char c[32];
      snprintf(c, sizeof c, " rv=%d", v);
      line2(v < 0 ? -1 : v > 0 ? 1 : 0, HI(1), HI(2), c);
    }
    else if (OP("cmpi", 2)) line2(hwloc_bitmap_compare_inclusion(H[HI(1)], H[HI(2)]), HI(1), HI(2), "");
    else if (OP("ffsl", 1)) printf("ffsl %s %d\n", tok[1], hwloc_ffsl(X(1)));
    else if (OP("flsl", 1)) printf("flsl %s %d %d\n", tok[1], hwloc_flsl(X(1)), hwloc_flsl(X(1)));
    else if (OP("popc", 1)) printf("popc %s %d\n", tok[1], hwloc_weight_long(X(1)));
    else printf("?? %s\n", tok[0]);
  }
  for (h = 0; h < NH; h++) hwloc_bitmap_free(H[h]);
  fflush(stdout);
  return 0;
}
